(* Bundle/BuilderProofs.v — theorems about the two block-builder mirrors (Bundle/Builder.v), for ALL histories.

   Arithmetic: the theorems are stated for the overflow-checking build (mode [Checked]) on histories where it does
   not panic — that is exactly "no u64 sum overflowed", the hypothesis the code does not check for declared costs —
   together with the fact that the release build (mode [Wrap]) then behaves identically ([..._wrap_of_checked]).
   What happens when a sum DOES overflow is the subject of BuilderRefuted.v.

   Interned builder: all-or-nothing + frame per call, content / signature / block_cost of a history, the running
   estimate dominates the final cost (triangle inequality over the translated constants), finalize cannot panic.
   Compressed builder: the same relative to the serializer oracle; its hypotheses are the Section hypotheses S_*. *)
From ChiaV.Base Require Import Bytes.
From ChiaV.Clvm Require Import Sexp Ints.
From ChiaV.Gen Require Import Builder.
From ChiaV.Bundle Require Import SolutionGen Interned Builder InternedProofs.
From Coq Require Import ZifyBool ZifyNat ZifyN.
Open Scope N_scope.

(* ---------- arithmetic ---------- *)
Lemma wadd_checked M a b v : wadd Checked M a b = Some v -> v = a + b /\ a + b < M.
Proof. unfold wadd. destruct (N.ltb_spec (a + b) M); [intros E; inversion E; auto|discriminate]. Qed.
Lemma wmul_checked M a b v : wmul Checked M a b = Some v -> v = a * b /\ a * b < M.
Proof. unfold wmul. destruct (N.ltb_spec (a * b) M); [intros E; inversion E; auto|discriminate]. Qed.
Lemma wadd_wrap_of_checked M a b v : wadd Checked M a b = Some v -> wadd Wrap M a b = Some v.
Proof. unfold wadd. destruct (a + b <? M); [auto|discriminate]. Qed.
Lemma wmul_wrap_of_checked M a b v : wmul Checked M a b = Some v -> wmul Wrap M a b = Some v.
Proof. unfold wmul. destruct (a * b <? M); [auto|discriminate]. Qed.
Lemma wadd_wrap_total M a b : exists v, wadd Wrap M a b = Some v.
Proof. unfold wadd. destruct (a + b <? M); eauto. Qed.

Lemma add3_checked a b c v : add3 Checked a b c = Some v -> v = a + b + c /\ a + b + c < U64.
Proof.
  unfold add3, obind. destruct (wadd Checked U64 a b) as [x|] eqn:E; [|discriminate].
  intros E2. apply wadd_checked in E. apply wadd_checked in E2. lia.
Qed.
Lemma add4_checked a b c d v : add4 Checked a b c d = Some v -> v = a + b + c + d /\ a + b + c + d < U64.
Proof.
  unfold add4, obind. destruct (add3 Checked a b c) as [x|] eqn:E; [|discriminate].
  intros E2. apply add3_checked in E. apply wadd_checked in E2. lia.
Qed.
Lemma add3_wrap_of_checked a b c v : add3 Checked a b c = Some v -> add3 Wrap a b c = Some v.
Proof.
  unfold add3, obind. destruct (wadd Checked U64 a b) as [x|] eqn:E; [|discriminate].
  rewrite (wadd_wrap_of_checked _ _ _ _ E). apply wadd_wrap_of_checked.
Qed.
Lemma add4_wrap_of_checked a b c d v : add4 Checked a b c d = Some v -> add4 Wrap a b c d = Some v.
Proof.
  unfold add4, obind. destruct (add3 Checked a b c) as [x|] eqn:E; [|discriminate].
  rewrite (add3_wrap_of_checked _ _ _ _ E). apply wadd_wrap_of_checked.
Qed.

Definition with_mode (cfg : bcfg) (m : amode) : bcfg := {| c_mode := m; c_cpb := c_cpb cfg; c_max := c_max cfg |}.

(* the attempts of a history that were accepted, given the list of results *)
Fixpoint accepted {A} (l : list A) (rs : list result) : list A :=
  match l, rs with
  | a :: l', r :: rs' => if is_added r then a :: accepted l' rs' else accepted l' rs'
  | _, _ => []
  end.

Section InternedBuilder.
  Variable Sig : Type.
  Variable sig_one : Sig.
  Variable sig_mul : Sig -> Sig -> Sig.
  Variable cpb maxc : N.
  (* the block limit is nowhere near 2^64 (it is 11 * 10^9): the last threshold sum of an accepted call cannot overflow *)
  Hypothesis Hmax : maxc + I_MIN_COST_THRESHOLD < U64.

  Let cfgC := {| c_mode := Checked; c_cpb := cpb; c_max := maxc |}.
  Let cfgW := {| c_mode := Wrap; c_cpb := cpb; c_max := maxc |}.
  Notation stepC := (i_step Sig sig_one sig_mul cfgC).
  Notation stepW := (i_step Sig sig_one sig_mul cfgW).
  Notation istate := (istate Sig).
  Notation iattempt := (iattempt Sig).

  Definition the_items (a : iattempt) : list sexp :=
    match items_of (batch_spends Sig (ia_bundles Sig a)) with Some l => l | None => [] end.

  Definition items_cost (items : list sexp) : N := cpb * items_vbytes items.

  (* ---- the batch loop ---- *)
  Lemma i_batch_checked spends : forall acc nbc items nbc',
    i_batch cfgC spends acc nbc = BOk items nbc' ->
    exists l, items_of spends = Some l /\ items = rev acc ++ l /\ nbc' = nbc + items_cost l.
  Proof.
    induction spends as [|s r IH]; intros acc nbc items nbc'; cbn [i_batch items_of].
    - intros E; inversion E; subst. exists []. rewrite app_nil_r. unfold items_cost, items_vbytes. cbn. split; [auto|split; [auto|lia]].
    - destruct (item_of s) as [item|]; [|discriminate].
      unfold spend_vbytes, obind. cbn [c_mode c_cpb cfgC].
      destruct (wadd Checked U64 (interned_vbytes item) COST_CONS) as [v|] eqn:E1; [|discriminate].
      destruct (wmul Checked U64 v cpb) as [c|] eqn:E2; [|discriminate].
      destruct (wadd Checked U64 nbc c) as [n'|] eqn:E3; [|discriminate].
      intros E. destruct (IH _ _ _ _ E) as (l & Hl & Hi & Hn). rewrite Hl.
      exists (item :: l). split; [reflexivity|]. split.
      + rewrite Hi. cbn [rev]. now rewrite <- app_assoc.
      + apply wadd_checked in E1, E3. apply wmul_checked in E2.
        rewrite Hn. unfold items_cost, items_vbytes. cbn [fold_right]. fold (items_vbytes l). lia.
  Qed.

  Lemma i_batch_wrap_of_checked spends : forall acc nbc r,
    i_batch cfgC spends acc nbc = r -> r <> BPanic -> i_batch cfgW spends acc nbc = r.
  Proof.
    induction spends as [|s r0 IH]; intros acc nbc r; cbn [i_batch]; [auto|].
    destruct (item_of s) as [item|]; [|auto].
    unfold spend_vbytes, obind. cbn [c_mode c_cpb cfgC cfgW].
    destruct (wadd Checked U64 (interned_vbytes item) COST_CONS) as [v|] eqn:E1; [|intros <- H; now contradiction H].
    rewrite (wadd_wrap_of_checked _ _ _ _ E1).
    destruct (wmul Checked U64 v cpb) as [c|] eqn:E2; [|intros <- H; now contradiction H].
    rewrite (wmul_wrap_of_checked _ _ _ _ E2).
    destruct (wadd Checked U64 nbc c) as [n'|] eqn:E3; [|intros <- H; now contradiction H].
    rewrite (wadd_wrap_of_checked _ _ _ _ E3). apply IH.
  Qed.

  (* ---- one step: what an accepted attempt does, exactly ---- *)
  Ltac inv_pair H := inversion H; subst; clear H.

  Lemma i_skip_res st st' r : i_skip Sig cfgC st = (st', r) -> is_added r = false.
  Proof.
    unfold i_skip. destruct (wadd _ _ _ _); intros E; inv_pair E; reflexivity.
  Qed.

  Lemma i_step_added st a st' d :
    stepC st a = (st', RAdded d) ->
    exists items,
      items_of (batch_spends Sig (ia_bundles Sig a)) = Some items /\
      ib_items Sig st' = rev items ++ ib_items Sig st /\
      ib_sig Sig st' = sig_mul (ib_sig Sig st) (batch_sig Sig sig_one sig_mul (ia_bundles Sig a)) /\
      ib_block_cost Sig st' = ib_block_cost Sig st + ia_cost Sig a /\
      ib_byte_cost Sig st' = ib_byte_cost Sig st + items_cost items /\
      ib_skipped Sig st' = ib_skipped Sig st /\
      ib_byte_cost Sig st' + WRAPPER_VBYTES * cpb + ib_block_cost Sig st' <= maxc.
  Proof.
    unfold i_step, i_step_gen. cbn [c_mode c_cpb c_max cfgC].
    destruct (wmul Checked U64 WRAPPER_VBYTES cpb) as [wrapper|] eqn:Ew; [|intros E; inv_pair E].
    destruct (add4 Checked _ _ _ I_MIN_COST_THRESHOLD) as [t1|] eqn:E1; [|intros E; inv_pair E].
    destruct (maxc <? t1); [intros E; inv_pair E|].
    cbn [andb]. destruct (maxc <? ia_cost Sig a); [intros E; apply i_skip_res in E; discriminate|].
    destruct (add4 Checked _ _ _ (ia_cost Sig a)) as [t2|] eqn:E2; [|intros E; inv_pair E].
    destruct (maxc <? t2); [intros E; apply i_skip_res in E; discriminate|].
    destruct (i_batch cfgC _ [] 0) as [items nbc| |] eqn:Eb; [|intros E; inv_pair E|intros E; inv_pair E].
    destruct (wadd Checked U64 (ib_byte_cost Sig st) nbc) as [total|] eqn:Et; [|intros E; inv_pair E].
    destruct (add4 Checked total wrapper _ _) as [t3|] eqn:E3; [|intros E; inv_pair E].
    destruct (N.ltb_spec maxc t3) as [Hlt|Hle]; [intros E; apply i_skip_res in E; discriminate|].
    destruct (wadd Checked U64 (ib_block_cost Sig st) (ia_cost Sig a)) as [blk|] eqn:Eblk; [|intros E; inv_pair E].
    destruct (add4 Checked total wrapper blk _) as [t4|] eqn:E4; intros E; inv_pair E.
    destruct (i_batch_checked _ _ _ _ _ Eb) as (l & Hl & Hi & Hn). cbn [rev app] in Hi. subst items.
    exists l. cbn [ib_items ib_sig ib_block_cost ib_byte_cost ib_skipped].
    apply wmul_checked in Ew. apply wadd_checked in Et, Eblk. apply add4_checked in E3.
    repeat split; try reflexivity; try assumption; try lia.
  Qed.

  (* every other outcome leaves content, signature and both cost fields alone (frame) *)
  Lemma i_step_frame st a st' r :
    stepC st a = (st', r) -> is_added r = false ->
    ib_items Sig st' = ib_items Sig st /\ ib_sig Sig st' = ib_sig Sig st /\
    ib_block_cost Sig st' = ib_block_cost Sig st /\ ib_byte_cost Sig st' = ib_byte_cost Sig st.
  Proof.
    assert (Hskip : forall s s' r0, i_skip Sig cfgC s = (s', r0) ->
              ib_items Sig s' = ib_items Sig s /\ ib_sig Sig s' = ib_sig Sig s /\
              ib_block_cost Sig s' = ib_block_cost Sig s /\ ib_byte_cost Sig s' = ib_byte_cost Sig s).
    { intros s s' r0. unfold i_skip. destruct (wadd _ _ _ _); intros E; inv_pair E; auto. }
    unfold i_step, i_step_gen. cbn [c_mode c_cpb c_max cfgC].
    destruct (wmul Checked U64 WRAPPER_VBYTES cpb) as [wrapper|] eqn:Ew; [|intros E; inv_pair E; auto].
    destruct (add4 Checked _ _ _ I_MIN_COST_THRESHOLD) as [t1|] eqn:E1; [|intros E; inv_pair E; auto].
    destruct (maxc <? t1); [intros E; inv_pair E; auto|].
    cbn [andb]. destruct (maxc <? ia_cost Sig a); [intros E _; eapply Hskip; eauto|].
    destruct (add4 Checked _ _ _ (ia_cost Sig a)) as [t2|] eqn:E2; [|intros E; inv_pair E; auto].
    destruct (maxc <? t2); [intros E _; eapply Hskip; eauto|].
    destruct (i_batch cfgC _ [] 0) as [items nbc| |] eqn:Eb; [|intros E; inv_pair E; auto|intros E; inv_pair E; auto].
    destruct (wadd Checked U64 (ib_byte_cost Sig st) nbc) as [total|] eqn:Et; [|intros E; inv_pair E; auto].
    destruct (add4 Checked total wrapper _ _) as [t3|] eqn:E3; [|intros E; inv_pair E; auto].
    destruct (N.ltb_spec maxc t3) as [Hlt|Hle]; [intros E _; eapply Hskip; eauto|].
    destruct (wadd Checked U64 (ib_block_cost Sig st) (ia_cost Sig a)) as [blk|] eqn:Eblk.
    - destruct (add4 Checked total wrapper blk _) as [t4|] eqn:E4; intros E; inv_pair E; [discriminate|].
      intros _. exfalso.
      apply add4_checked in E3. apply wadd_checked in Eblk. destruct E3 as [-> E3]. destruct Eblk as [-> Eblk].
      unfold add4, add3, obind, wadd in E4.
      repeat match type of E4 with context [?x <? ?y] => destruct (N.ltb_spec x y); try discriminate; try lia end.
    - intros E; inv_pair E. intros _. exfalso.
      apply add4_checked in E3. unfold wadd in Eblk. destruct (N.ltb_spec (ib_block_cost Sig st + ia_cost Sig a) U64); [discriminate|lia].
  Qed.

  (* the release build behaves exactly like the overflow-checking build on every call that does not panic there *)
  Lemma i_step_wrap_of_checked st a st' r :
    stepC st a = (st', r) -> r <> RPanic -> stepW st a = (st', r).
  Proof.
    assert (Hskip : forall s s' r0, i_skip Sig cfgC s = (s', r0) -> r0 <> RPanic -> i_skip Sig cfgW s = (s', r0)).
    { intros s s' r0. unfold i_skip. cbn [c_mode cfgC cfgW].
      destruct (wadd Checked U32 _ 1) as [k|] eqn:E; [rewrite (wadd_wrap_of_checked _ _ _ _ E); auto|].
      intros E2; inv_pair E2. intros H; now contradiction H. }
    unfold i_step, i_step_gen. cbn [c_mode c_cpb c_max cfgC cfgW].
    destruct (wmul Checked U64 WRAPPER_VBYTES cpb) as [wrapper|] eqn:Ew; [|intros E; inv_pair E; intros H; now contradiction H].
    rewrite (wmul_wrap_of_checked _ _ _ _ Ew).
    destruct (add4 Checked _ _ _ I_MIN_COST_THRESHOLD) as [t1|] eqn:E1; [|intros E; inv_pair E; intros H; now contradiction H].
    rewrite (add4_wrap_of_checked _ _ _ _ _ E1).
    destruct (maxc <? t1); [auto|].
    cbn [andb]. destruct (maxc <? ia_cost Sig a); [apply Hskip|].
    destruct (add4 Checked _ _ _ (ia_cost Sig a)) as [t2|] eqn:E2; [|intros E; inv_pair E; intros H; now contradiction H].
    rewrite (add4_wrap_of_checked _ _ _ _ _ E2).
    destruct (maxc <? t2); [apply Hskip|].
    destruct (i_batch cfgC _ [] 0) as [items nbc| |] eqn:Eb.
    - rewrite (i_batch_wrap_of_checked _ _ _ _ Eb) by discriminate.
      destruct (wadd Checked U64 (ib_byte_cost Sig st) nbc) as [total|] eqn:Et; [|intros E; inv_pair E; intros H; now contradiction H].
      rewrite (wadd_wrap_of_checked _ _ _ _ Et).
      destruct (add4 Checked total wrapper _ _) as [t3|] eqn:E3; [|intros E; inv_pair E; intros H; now contradiction H].
      rewrite (add4_wrap_of_checked _ _ _ _ _ E3).
      destruct (maxc <? t3); [apply Hskip|].
      destruct (wadd Checked U64 (ib_block_cost Sig st) (ia_cost Sig a)) as [blk|] eqn:Eblk; [|intros E; inv_pair E; intros H; now contradiction H].
      rewrite (wadd_wrap_of_checked _ _ _ _ Eblk).
      destruct (add4 Checked total wrapper blk _) as [t4|] eqn:E4; [|intros E; inv_pair E; intros H; now contradiction H].
      rewrite (add4_wrap_of_checked _ _ _ _ _ E4). auto.
    - rewrite (i_batch_wrap_of_checked _ _ _ _ Eb) by discriminate. auto.
    - intros E; inv_pair E; intros H; now contradiction H.
  Qed.

  (* ---- histories ---- *)
  Definition i_content (acc : list iattempt) (items0 : list sexp) : list sexp :=
    fold_left (fun items a => rev (the_items a) ++ items) acc items0.
  Definition i_sigs (acc : list iattempt) (s0 : Sig) : Sig :=
    fold_left (fun s a => sig_mul s (batch_sig Sig sig_one sig_mul (ia_bundles Sig a))) acc s0.
  Definition i_declared (acc : list iattempt) : N := fold_right (fun a n => ia_cost Sig a + n) 0 acc.
  Definition i_bytes (acc : list iattempt) : N := fold_right (fun a n => items_cost (the_items a) + n) 0 acc.

  Lemma i_hist h : forall st0 st rs,
    run_hist stepC st0 h = (st, rs) -> ~ In RPanic rs ->
    let acc := accepted h rs in
    ib_items Sig st = i_content acc (ib_items Sig st0) /\
    ib_sig Sig st = i_sigs acc (ib_sig Sig st0) /\
    ib_block_cost Sig st = ib_block_cost Sig st0 + i_declared acc /\
    ib_byte_cost Sig st = ib_byte_cost Sig st0 + i_bytes acc /\
    (ib_byte_cost Sig st0 + WRAPPER_VBYTES * cpb + ib_block_cost Sig st0 <= maxc ->
     ib_byte_cost Sig st + WRAPPER_VBYTES * cpb + ib_block_cost Sig st <= maxc).
  Proof.
    induction h as [|a h IH]; intros st0 st rs; cbn [run_hist].
    - intros E _; inv_pair E. cbn. repeat split; auto; lia.
    - destruct (stepC st0 a) as [st1 r] eqn:Es.
      destruct r as [d|d| |].
      + destruct (run_hist stepC st1 h) as [st2 rs2] eqn:Eh. intros E Hp; inv_pair E.
        assert (Hp2 : ~ In RPanic rs2) by (intros H; apply Hp; now right).
        destruct (IH _ _ _ Eh Hp2) as (H1 & H2 & H3 & H4 & H5).
        destruct (i_step_added _ _ _ _ Es) as (items & Hi & G1 & G2 & G3 & G4 & G5 & G6).
        assert (Hit : the_items a = items) by (unfold the_items; now rewrite Hi).
        cbn [accepted is_added]. unfold i_content, i_sigs, i_declared, i_bytes. cbn [fold_left fold_right].
        rewrite Hit.
        fold (i_content (accepted h rs2) (rev items ++ ib_items Sig st0)).
        fold (i_sigs (accepted h rs2) (sig_mul (ib_sig Sig st0) (batch_sig Sig sig_one sig_mul (ia_bundles Sig a)))).
        fold (i_declared (accepted h rs2)). fold (i_bytes (accepted h rs2)).
        rewrite <- G1, <- G2.
        split; [exact H1|]. split; [exact H2|]. split; [lia|]. split; [lia|].
        intros Hfit. apply H5. lia.
      + destruct (run_hist stepC st1 h) as [st2 rs2] eqn:Eh. intros E Hp; inv_pair E.
        assert (Hp2 : ~ In RPanic rs2) by (intros H; apply Hp; now right).
        destruct (IH _ _ _ Eh Hp2) as (H1 & H2 & H3 & H4 & H5).
        destruct (i_step_frame _ _ _ _ Es eq_refl) as (F1 & F2 & F3 & F4).
        cbn [accepted is_added]. rewrite <- F1, <- F2, <- F3, <- F4. repeat split; auto.
      + destruct (run_hist stepC st1 h) as [st2 rs2] eqn:Eh. intros E Hp; inv_pair E.
        assert (Hp2 : ~ In RPanic rs2) by (intros H; apply Hp; now right).
        destruct (IH _ _ _ Eh Hp2) as (H1 & H2 & H3 & H4 & H5).
        destruct (i_step_frame _ _ _ _ Es eq_refl) as (F1 & F2 & F3 & F4).
        cbn [accepted is_added]. rewrite <- F1, <- F2, <- F3, <- F4. repeat split; auto.
      + intros E Hp; inv_pair E. exfalso. apply Hp. now left.
  Qed.

  Lemma run_hist_wrap_of_checked h : forall st0 st rs,
    run_hist stepC st0 h = (st, rs) -> ~ In RPanic rs -> run_hist stepW st0 h = (st, rs).
  Proof.
    induction h as [|a h IH]; intros st0 st rs; cbn [run_hist]; [auto|].
    destruct (stepC st0 a) as [st1 r] eqn:Es.
    destruct r as [d|d| |];
      try (destruct (run_hist stepC st1 h) as [st2 rs2] eqn:Eh; intros E Hp; inv_pair E;
           rewrite (i_step_wrap_of_checked _ _ _ _ Es) by discriminate;
           rewrite (IH _ _ _ Eh) by (intros H; apply Hp; now right); reflexivity).
    intros E Hp; inv_pair E. exfalso; apply Hp; now left.
  Qed.

  Lemma items_vbytes_app a b : items_vbytes (a ++ b) = items_vbytes a + items_vbytes b.
  Proof. unfold items_vbytes. induction a as [|x a IH]; cbn [app fold_right]; [lia|]. rewrite IH. lia. Qed.
  Lemma items_vbytes_rev a : items_vbytes (rev a) = items_vbytes a.
  Proof.
    induction a as [|x a IH]; [reflexivity|]. cbn [rev]. rewrite items_vbytes_app, IH.
    unfold items_vbytes. cbn [fold_right]. lia.
  Qed.

  Lemma i_bytes_content acc : forall items0,
    items_cost (i_content acc items0) = items_cost items0 + i_bytes acc.
  Proof.
    induction acc as [|a acc IH]; intros items0; unfold i_content, i_bytes; cbn [fold_left fold_right]; [lia|].
    fold (i_content acc (rev (the_items a) ++ items0)). fold (i_bytes acc). rewrite IH.
    unfold items_cost. rewrite items_vbytes_app, items_vbytes_rev. lia.
  Qed.

  (* ---- finalize ---- *)
  Theorem interned_history h st rs :
    I_INITIAL_BLOCK_COST + WRAPPER_VBYTES * cpb <= maxc ->
    run_hist stepC (i_init Sig sig_one) h = (st, rs) -> ~ In RPanic rs ->
    let acc := accepted h rs in
    let gen := wrap_generator (list_to_sexp (i_content acc [])) in
    let total := interned_vbytes gen * cpb + (I_INITIAL_BLOCK_COST + i_declared acc) in
    i_finalize Sig cfgC st = IFOk Sig gen (i_sigs acc sig_one) total /\
    total <= maxc /\
    (exists est, i_cost Sig cfgC st = Some est /\ total <= est /\ est <= maxc) /\
    run_hist stepW (i_init Sig sig_one) h = (st, rs) /\
    i_finalize Sig cfgW st = IFOk Sig gen (i_sigs acc sig_one) total /\
    i_cost Sig cfgW st = i_cost Sig cfgC st.
  Proof.
    intros Hfit Hrun Hp acc gen total.
    destruct (i_hist _ _ _ _ Hrun Hp) as (H1 & H2 & H3 & H4 & H5).
    fold acc in H1, H2, H3, H4, H5. cbn [i_init ib_items ib_sig ib_block_cost ib_byte_cost] in *.
    specialize (H5 ltac:(lia)).
    assert (Hbytes : ib_byte_cost Sig st = cpb * items_vbytes (ib_items Sig st)).
    { rewrite H1, H4. pose proof (i_bytes_content acc []) as Hc. unfold items_cost in Hc at 1 2.
      unfold items_vbytes in Hc at 2. cbn [fold_right] in Hc. lia. }
    pose proof (triangle (ib_items Sig st)) as Htri.
    assert (Hgen : i_generator Sig st = gen) by (unfold i_generator, gen; now rewrite H1).
    assert (Hle : interned_vbytes gen * cpb + ib_block_cost Sig st <=
                  ib_byte_cost Sig st + WRAPPER_VBYTES * cpb + ib_block_cost Sig st).
    { rewrite <- Hgen. unfold i_generator. rewrite Hbytes. nia. }
    assert (Hu : maxc < U64) by (unfold U64 in *; lia).
    assert (Htot : total = interned_vbytes gen * cpb + ib_block_cost Sig st) by (unfold total; rewrite H3; reflexivity).
    assert (Hfin : forall m, i_finalize Sig {| c_mode := m; c_cpb := cpb; c_max := maxc |} st = IFOk Sig gen (i_sigs acc sig_one) total).
    { intros m. unfold i_finalize. cbn [c_mode c_cpb c_max]. rewrite Hgen.
      unfold obind, wmul, wadd.
      destruct (N.ltb_spec (interned_vbytes gen * cpb) U64); [|lia].
      destruct (N.ltb_spec (interned_vbytes gen * cpb + ib_block_cost Sig st) U64); [|lia].
      destruct (N.ltb_spec maxc (interned_vbytes gen * cpb + ib_block_cost Sig st)); [lia|].
      rewrite H2, Htot. reflexivity. }
    assert (Hcost : forall m, i_cost Sig {| c_mode := m; c_cpb := cpb; c_max := maxc |} st =
                              Some (ib_byte_cost Sig st + WRAPPER_VBYTES * cpb + ib_block_cost Sig st)).
    { intros m. unfold i_cost. cbn [c_mode c_cpb]. unfold obind, wmul, wadd.
      destruct (N.ltb_spec (WRAPPER_VBYTES * cpb) U64); [|lia].
      destruct (N.ltb_spec (ib_byte_cost Sig st + WRAPPER_VBYTES * cpb) U64); [|lia].
      destruct (N.ltb_spec (ib_byte_cost Sig st + WRAPPER_VBYTES * cpb + ib_block_cost Sig st) U64); [|lia].
      reflexivity. }
    split; [apply (Hfin Checked)|]. split; [lia|]. split.
    { eexists. split; [apply (Hcost Checked)|]. lia. }
    split; [now apply run_hist_wrap_of_checked|]. split; [apply (Hfin Wrap)|].
    unfold cfgW, cfgC. now rewrite !Hcost.
  Qed.
End InternedBuilder.

Section CompressedBuilder.
  Variable Sig : Type.
  Variable sig_one : Sig.
  Variable sig_mul : Sig -> Sig -> Sig.
  Variable cpb maxc : N.
  Hypothesis Hmax : maxc + C_MIN_COST_THRESHOLD < U64.

  (* ---- the serializer oracle and what is assumed about it ---- *)
  Variable sstate hint : Type.
  Variable s_add : sstate -> hint -> list sexp -> sstate.
  Variable s_restore : sstate -> sstate -> sstate.
  Variable s_size : sstate -> N.
  Variable s_finish : sstate -> sstate.
  Variable s_output : sstate -> bytes.
  Variable s_items : sstate -> list sexp.          (* ghost: the spend items handed to the serializer so far, in list order *)
  Variable decode : bytes -> option sexp.          (* clvmr node_from_bytes_backrefs *)
  Variable s0 : sstate.                            (* Serializer::new(sentinel) followed by add(quoted_list) *)
  Hypothesis S_init : s_items s0 = [].
  (* add(spend_list): the sentinel is replaced by the new items (reversed: they were prepended) followed by the sentinel *)
  Hypothesis S_add : forall s h l, s_items (s_add s h l) = s_items s ++ rev l.
  (* restore(undo state) gives back the previous size and content *)
  Hypothesis S_restore_size : forall s h l, s_size (s_restore (s_add s h l) s) = s_size s.
  Hypothesis S_restore_items : forall s h l, s_items (s_restore (s_add s h l) s) = s_items s.
  (* add(nil) completes the serialization (done = true), adds exactly two bytes, and the output is the generator *)
  Hypothesis S_finish_size : forall s, s_size (s_finish s) = s_size s + 2.
  Hypothesis S_output_len : forall s, nlen (s_output (s_finish s)) = s_size (s_finish s).
  Hypothesis S_decode : forall s,
    (exists b, ser (wrap_generator (list_to_sexp (s_items s))) = Some b) ->       (* all atoms below 2^34 bytes *)
    decode (s_output (s_finish s)) = Some (wrap_generator (list_to_sexp (s_items s))).

  Let cfgC := {| c_mode := Checked; c_cpb := cpb; c_max := maxc |}.
  Let cfgW := {| c_mode := Wrap; c_cpb := cpb; c_max := maxc |}.
  Notation stepC := (c_step Sig sig_one sig_mul sstate hint s_add s_restore s_size cfgC).
  Notation stepW := (c_step Sig sig_one sig_mul sstate hint s_add s_restore s_size cfgW).
  Notation cstate := (cstate Sig sstate).
  Notation cattempt := (cattempt Sig hint).
  Notation ser_of := (cb_ser Sig sstate).
  Notation sig_of := (cb_sig Sig sstate).
  Notation block_of := (cb_block_cost Sig sstate).
  Notation byte_of := (cb_byte_cost Sig sstate).

  Definition c_items (a : cattempt) : list sexp :=
    match items_of (batch_spends Sig (ca_bundles Sig hint a)) with Some l => l | None => [] end.

  (* byte_cost is up to date with the serializer *)
  Definition synced (st : cstate) : Prop := byte_of st = (s_size (ser_of st) + C_CLOSING_BYTES) * cpb.

  Ltac inv_pair H := inversion H; subst; clear H.

  Lemma byte_cost_of_checked s v :
    byte_cost_of sstate s_size cfgC s = Some v -> v = (s_size s + C_CLOSING_BYTES) * cpb /\ v < U64.
  Proof.
    unfold byte_cost_of, obind. cbn [c_mode c_cpb cfgC].
    destruct (wadd Checked U64 (s_size s) C_CLOSING_BYTES) as [x|] eqn:E; [|discriminate].
    intros E2. apply wadd_checked in E. apply wmul_checked in E2. destruct E as [-> _]. destruct E2 as [-> E2]. auto.
  Qed.
  Lemma byte_cost_of_wrap s v :
    byte_cost_of sstate s_size cfgC s = Some v -> byte_cost_of sstate s_size cfgW s = Some v.
  Proof.
    unfold byte_cost_of, obind. cbn [c_mode c_cpb cfgC cfgW].
    destruct (wadd Checked U64 (s_size s) C_CLOSING_BYTES) as [x|] eqn:E; [|discriminate].
    rewrite (wadd_wrap_of_checked _ _ _ _ E). apply wmul_wrap_of_checked.
  Qed.

  Lemma c_skip_res st ser bc f st' r :
    c_skip Sig sstate cfgC st ser bc f = (st', r) ->
    is_added r = false /\ (r <> RPanic -> ser_of st' = ser /\ byte_of st' = bc /\ sig_of st' = sig_of st /\ block_of st' = block_of st).
  Proof.
    unfold c_skip. destruct (wadd _ _ _ _); intros E; inv_pair E; (split; [reflexivity|]); intros H; auto.
  Qed.
  Lemma c_skip_wrap st ser bc f st' r :
    c_skip Sig sstate cfgC st ser bc f = (st', r) -> r <> RPanic -> c_skip Sig sstate cfgW st ser bc f = (st', r).
  Proof.
    unfold c_skip. cbn [c_mode cfgC cfgW].
    destruct (wadd Checked U32 _ 1) as [k|] eqn:E; [rewrite (wadd_wrap_of_checked _ _ _ _ E); auto|].
    intros E2; inv_pair E2. intros H; now contradiction H.
  Qed.

  (* ---- one call that is accepted ---- *)
  Lemma c_step_added st a st' d :
    stepC st a = (st', RAdded d) ->
    exists items,
      items_of (batch_spends Sig (ca_bundles Sig hint a)) = Some items /\
      ser_of st' = s_add (ser_of st) (ca_hint Sig hint a) items /\
      sig_of st' = sig_mul (sig_of st) (batch_sig Sig sig_one sig_mul (ca_bundles Sig hint a)) /\
      block_of st' = block_of st + ca_cost Sig hint a /\
      synced st' /\ byte_of st' + block_of st' <= maxc.
  Proof.
    unfold c_step, c_step_gen. cbn [c_mode c_cpb c_max cfgC].
    destruct (add3 Checked _ _ C_MIN_COST_THRESHOLD) as [t1|] eqn:E1; [|intros E; inv_pair E].
    destruct (maxc <? t1); [intros E; apply c_skip_res in E; destruct E; discriminate|].
    cbn [andb]. destruct (maxc <? ca_cost Sig hint a); [intros E; apply c_skip_res in E; destruct E; discriminate|].
    destruct (add3 Checked _ _ (ca_cost Sig hint a)) as [t2|] eqn:E2; [|intros E; inv_pair E].
    destruct (maxc <? t2); [intros E; apply c_skip_res in E; destruct E; discriminate|].
    destruct (items_of _) as [items|] eqn:Ei; [|intros E; inv_pair E].
    destruct (byte_cost_of _ _ _ (s_add _ _ _)) as [bc1|] eqn:Eb1; [|intros E; inv_pair E].
    destruct (add3 Checked bc1 _ _) as [t3|] eqn:E3; [|intros E; inv_pair E].
    destruct (N.ltb_spec maxc t3) as [Hlt|Hle].
    { destruct (byte_cost_of _ _ _ (s_restore _ _)); [|intros E; inv_pair E].
      intros E; apply c_skip_res in E; destruct E; discriminate. }
    destruct (wadd Checked U64 _ _) as [blk|] eqn:Eblk; [|intros E; inv_pair E].
    destruct (add3 Checked bc1 blk _) as [t4|] eqn:E4; intros E; inv_pair E.
    exists items. cbn [cb_ser cb_sig cb_block_cost cb_byte_cost].
    apply byte_cost_of_checked in Eb1. apply add3_checked in E3. apply wadd_checked in Eblk.
    unfold synced. cbn [cb_ser cb_byte_cost].
    repeat split; try reflexivity; try tauto; try lia.
  Qed.

  (* ---- every other outcome: content, signature, block_cost untouched; byte_cost unchanged or re-synced ---- *)
  Lemma c_step_frame st a st' r :
    stepC st a = (st', r) -> is_added r = false -> r <> RPanic ->
    s_items (ser_of st') = s_items (ser_of st) /\ s_size (ser_of st') = s_size (ser_of st) /\
    sig_of st' = sig_of st /\ block_of st' = block_of st /\
    (byte_of st' = byte_of st \/ synced st').
  Proof.
    unfold c_step, c_step_gen. cbn [c_mode c_cpb c_max cfgC].
    destruct (add3 Checked _ _ C_MIN_COST_THRESHOLD) as [t1|] eqn:E1; [|intros E; inv_pair E; intros _ H; now contradiction H].
    destruct (maxc <? t1).
    { intros E _ Hp. apply c_skip_res in E. destruct E as [_ E]. destruct (E Hp) as (-> & -> & -> & ->). auto 6. }
    cbn [andb]. destruct (maxc <? ca_cost Sig hint a).
    { intros E _ Hp. apply c_skip_res in E. destruct E as [_ E]. destruct (E Hp) as (-> & -> & -> & ->). auto 6. }
    destruct (add3 Checked _ _ (ca_cost Sig hint a)) as [t2|] eqn:E2; [|intros E; inv_pair E; intros _ H; now contradiction H].
    destruct (maxc <? t2).
    { intros E _ Hp. apply c_skip_res in E. destruct E as [_ E]. destruct (E Hp) as (-> & -> & -> & ->). auto 6. }
    destruct (items_of _) as [items|] eqn:Ei; [|intros E; inv_pair E; auto 6].
    destruct (byte_cost_of _ _ _ (s_add _ _ _)) as [bc1|] eqn:Eb1; [|intros E; inv_pair E; intros _ H; now contradiction H].
    destruct (add3 Checked bc1 _ _) as [t3|] eqn:E3; [|intros E; inv_pair E; intros _ H; now contradiction H].
    destruct (N.ltb_spec maxc t3) as [Hlt|Hle].
    { destruct (byte_cost_of _ _ _ (s_restore _ _)) as [bc2|] eqn:Eb2; [|intros E; inv_pair E; intros _ H; now contradiction H].
      intros E _ Hp. apply c_skip_res in E. destruct E as [_ E]. destruct (E Hp) as (Hs & Hb & -> & ->).
      rewrite Hs, S_restore_items, S_restore_size. repeat split; auto.
      right. unfold synced. rewrite Hs, Hb. apply byte_cost_of_checked in Eb2. tauto. }
    destruct (wadd Checked U64 _ _) as [blk|] eqn:Eblk; [|intros E; inv_pair E; intros _ H; now contradiction H].
    destruct (add3 Checked bc1 blk _) as [t4|] eqn:E4; intros E; inv_pair E; [discriminate|intros _ H; now contradiction H].
  Qed.

  (* in an overflow-checking run an accepted call cannot panic afterwards (the limit is far below 2^64) *)
  Lemma c_step_wrap_of_checked st a st' r :
    stepC st a = (st', r) -> r <> RPanic -> stepW st a = (st', r).
  Proof.
    unfold c_step, c_step_gen. cbn [c_mode c_cpb c_max cfgC cfgW].
    destruct (add3 Checked _ _ C_MIN_COST_THRESHOLD) as [t1|] eqn:E1; [|intros E; inv_pair E; intros H; now contradiction H].
    rewrite (add3_wrap_of_checked _ _ _ _ E1).
    destruct (maxc <? t1); [apply c_skip_wrap|].
    cbn [andb]. destruct (maxc <? ca_cost Sig hint a); [apply c_skip_wrap|].
    destruct (add3 Checked _ _ (ca_cost Sig hint a)) as [t2|] eqn:E2; [|intros E; inv_pair E; intros H; now contradiction H].
    rewrite (add3_wrap_of_checked _ _ _ _ E2).
    destruct (maxc <? t2); [apply c_skip_wrap|].
    destruct (items_of _) as [items|] eqn:Ei; [|auto].
    destruct (byte_cost_of _ _ _ (s_add _ _ _)) as [bc1|] eqn:Eb1; [|intros E; inv_pair E; intros H; now contradiction H].
    rewrite (byte_cost_of_wrap _ _ Eb1).
    destruct (add3 Checked bc1 _ _) as [t3|] eqn:E3; [|intros E; inv_pair E; intros H; now contradiction H].
    rewrite (add3_wrap_of_checked _ _ _ _ E3).
    destruct (maxc <? t3).
    { destruct (byte_cost_of _ _ _ (s_restore _ _)) as [bc2|] eqn:Eb2; [|intros E; inv_pair E; intros H; now contradiction H].
      rewrite (byte_cost_of_wrap _ _ Eb2). apply c_skip_wrap. }
    destruct (wadd Checked U64 _ _) as [blk|] eqn:Eblk; [|intros E; inv_pair E; intros H; now contradiction H].
    rewrite (wadd_wrap_of_checked _ _ _ _ Eblk).
    destruct (add3 Checked bc1 blk _) as [t4|] eqn:E4; [|intros E; inv_pair E; intros H; now contradiction H].
    rewrite (add3_wrap_of_checked _ _ _ _ E4). auto.
  Qed.
  (* ---- histories ---- *)
  Definition c_content (acc : list cattempt) (items0 : list sexp) : list sexp :=
    fold_left (fun items a => items ++ rev (c_items a)) acc items0.
  Definition c_sigs (acc : list cattempt) (s : Sig) : Sig :=
    fold_left (fun s a => sig_mul s (batch_sig Sig sig_one sig_mul (ca_bundles Sig hint a))) acc s.
  Definition c_declared (acc : list cattempt) : N := fold_right (fun a n => ca_cost Sig hint a + n) 0 acc.

  (* block_cost + (size + 2) * cpb: what finalize will return *)
  Definition final_of (st : cstate) : N := block_of st + (s_size (ser_of st) + 2) * cpb.

  Lemma closing_two : C_CLOSING_BYTES = 2.
  Proof. reflexivity. Qed.

  Lemma c_hist h : forall st0 st rs,
    run_hist stepC st0 h = (st, rs) -> ~ In RPanic rs ->
    let acc := accepted h rs in
    s_items (ser_of st) = c_content acc (s_items (ser_of st0)) /\
    sig_of st = c_sigs acc (sig_of st0) /\
    block_of st = block_of st0 + c_declared acc /\
    (final_of st0 <= maxc -> final_of st <= maxc) /\
    (synced st0 \/ acc <> [] -> synced st).
  Proof.
    induction h as [|a h IH]; intros st0 st rs; cbn [run_hist].
    - intros E _; inv_pair E. cbn. repeat split; auto; try lia. intros [H|H]; [exact H|congruence].
    - destruct (stepC st0 a) as [st1 r] eqn:Es.
      destruct r as [d|d| |].
      + destruct (run_hist stepC st1 h) as [st2 rs2] eqn:Eh. intros E Hp; inv_pair E.
        assert (Hp2 : ~ In RPanic rs2) by (intros H; apply Hp; now right).
        destruct (IH _ _ _ Eh Hp2) as (H1 & H2 & H3 & H4 & H5).
        destruct (c_step_added _ _ _ _ Es) as (items & Hi & G1 & G2 & G3 & G4 & G5).
        assert (Hit : c_items a = items) by (unfold c_items; now rewrite Hi).
        cbn [accepted is_added]. unfold c_content, c_sigs, c_declared. cbn [fold_left fold_right].
        rewrite Hit.
        fold (c_content (accepted h rs2) (s_items (ser_of st0) ++ rev items)).
        fold (c_sigs (accepted h rs2) (sig_mul (sig_of st0) (batch_sig Sig sig_one sig_mul (ca_bundles Sig hint a)))).
        fold (c_declared (accepted h rs2)).
        rewrite G1, S_add in H1. rewrite G2 in H2.
        split; [exact H1|]. split; [exact H2|]. split; [lia|]. split.
        * intros _. apply H4. unfold final_of. unfold synced in G4. rewrite closing_two in G4. lia.
        * intros _. apply H5. now left.
      + destruct (run_hist stepC st1 h) as [st2 rs2] eqn:Eh. intros E Hp; inv_pair E.
        assert (Hp2 : ~ In RPanic rs2) by (intros H; apply Hp; now right).
        destruct (IH _ _ _ Eh Hp2) as (H1 & H2 & H3 & H4 & H5).
        destruct (c_step_frame _ _ _ _ Es eq_refl ltac:(discriminate)) as (F1 & F2 & F3 & F4 & F5).
        cbn [accepted is_added]. rewrite <- F1, <- F3, <- F4. repeat split; auto.
        * intros Hf. apply H4. unfold final_of in *. rewrite F2, F4. exact Hf.
        * intros [Hs|Hn]; [|now apply H5; right]. apply H5. left.
          destruct F5 as [F5|F5]; [|exact F5]. unfold synced in *. now rewrite F5, F2.
      + destruct (run_hist stepC st1 h) as [st2 rs2] eqn:Eh. intros E Hp; inv_pair E.
        assert (Hp2 : ~ In RPanic rs2) by (intros H; apply Hp; now right).
        destruct (IH _ _ _ Eh Hp2) as (H1 & H2 & H3 & H4 & H5).
        destruct (c_step_frame _ _ _ _ Es eq_refl ltac:(discriminate)) as (F1 & F2 & F3 & F4 & F5).
        cbn [accepted is_added]. rewrite <- F1, <- F3, <- F4. repeat split; auto.
        * intros Hf. apply H4. unfold final_of in *. rewrite F2, F4. exact Hf.
        * intros [Hs|Hn]; [|now apply H5; right]. apply H5. left.
          destruct F5 as [F5|F5]; [|exact F5]. unfold synced in *. now rewrite F5, F2.
      + intros E Hp; inv_pair E. exfalso. apply Hp. now left.
  Qed.

  Lemma c_run_hist_wrap_of_checked h : forall st0 st rs,
    run_hist stepC st0 h = (st, rs) -> ~ In RPanic rs -> run_hist stepW st0 h = (st, rs).
  Proof.
    induction h as [|a h IH]; intros st0 st rs; cbn [run_hist]; [auto|].
    destruct (stepC st0 a) as [st1 r] eqn:Es.
    destruct r as [d|d| |];
      try (destruct (run_hist stepC st1 h) as [st2 rs2] eqn:Eh; intros E Hp; inv_pair E;
           rewrite (c_step_wrap_of_checked _ _ _ _ Es) by discriminate;
           rewrite (IH _ _ _ Eh) by (intros H; apply Hp; now right); reflexivity).
    intros E Hp; inv_pair E. exfalso; apply Hp; now left.
  Qed.

  Theorem compressed_history h st rs :
    C_INITIAL_BLOCK_COST + (s_size s0 + 2) * cpb <= maxc ->
    run_hist stepC (c_init Sig sig_one sstate s0) h = (st, rs) -> ~ In RPanic rs ->
    let acc := accepted h rs in
    let out := s_output (s_finish (ser_of st)) in
    let total := C_INITIAL_BLOCK_COST + c_declared acc + nlen out * cpb in
    c_finalize Sig sstate s_size s_finish s_output cfgC st = CFOk Sig out (c_sigs acc sig_one) total /\
    ((exists b, ser (wrap_generator (list_to_sexp (c_content acc []))) = Some b) ->
     decode out = Some (wrap_generator (list_to_sexp (c_content acc [])))) /\
    total <= maxc /\
    (acc <> [] -> c_cost Sig sstate cfgC st = Some total) /\
    run_hist stepW (c_init Sig sig_one sstate s0) h = (st, rs) /\
    c_finalize Sig sstate s_size s_finish s_output cfgW st = CFOk Sig out (c_sigs acc sig_one) total.
  Proof.
    intros Hfit Hrun Hp acc out total.
    destruct (c_hist _ _ _ _ Hrun Hp) as (H1 & H2 & H3 & H4 & H5).
    fold acc in H1, H2, H3, H4, H5. cbn [c_init cb_ser cb_sig cb_block_cost cb_byte_cost] in *.
    rewrite S_init in H1.
    assert (Hf : final_of st <= maxc) by (apply H4; unfold final_of; cbn [c_init cb_ser cb_block_cost]; lia).
    assert (Hu : maxc < U64) by (unfold U64 in *; lia).
    assert (Hlen : nlen out = s_size (ser_of st) + 2) by (unfold out; now rewrite S_output_len, S_finish_size).
    assert (Htot : total = final_of st) by (unfold total, final_of; rewrite Hlen, H3; lia).
    assert (Hfin : forall m, c_finalize Sig sstate s_size s_finish s_output {| c_mode := m; c_cpb := cpb; c_max := maxc |} st
                             = CFOk Sig out (c_sigs acc sig_one) total).
    { intros m. unfold c_finalize. cbn [c_mode c_cpb c_max]. rewrite S_finish_size.
      unfold final_of in Hf. unfold obind, wmul, wadd.
      destruct (N.ltb_spec ((s_size (ser_of st) + 2) * cpb) U64); [|lia].
      destruct (N.ltb_spec (block_of st + (s_size (ser_of st) + 2) * cpb) U64); [|lia].
      destruct (N.ltb_spec maxc (block_of st + (s_size (ser_of st) + 2) * cpb)); [lia|].
      rewrite H2, Htot. reflexivity. }
    split; [apply (Hfin Checked)|]. split; [intros Hser; unfold out; rewrite <- H1 in Hser |- *; now apply S_decode|].
    split; [lia|]. split.
    { intros Hne. specialize (H5 (or_intror Hne)). unfold synced in H5. rewrite closing_two in H5.
      unfold c_cost. cbn [c_mode cfgC]. unfold wadd, final_of in *.
      destruct (N.ltb_spec (byte_of st + block_of st) U64); [|lia]. f_equal. lia. }
    split; [now apply c_run_hist_wrap_of_checked|apply (Hfin Wrap)].
  Qed.
End CompressedBuilder.

(* ================================================================ summary statements (used by Props/C10.v) *)
Definition checked_cfg (cpb maxc : N) : bcfg := {| c_mode := Checked; c_cpb := cpb; c_max := maxc |}.
Definition release_cfg (cpb maxc : N) : bcfg := {| c_mode := Wrap; c_cpb := cpb; c_max := maxc |}.

(* what is assumed of clvmr's incremental Serializer (an oracle): [s_items] is a ghost reading of its content *)
Definition serializer_ok {sstate hint : Type}
    (s_add : sstate -> hint -> list sexp -> sstate) (s_restore : sstate -> sstate -> sstate) (s_size : sstate -> N)
    (s_finish : sstate -> sstate) (s_output : sstate -> bytes) (s_items : sstate -> list sexp)
    (decode : bytes -> option sexp) (s0 : sstate) : Prop :=
  s_items s0 = [] /\
  (forall s h l, s_items (s_add s h l) = s_items s ++ rev l) /\
  (forall s h l, s_size (s_restore (s_add s h l) s) = s_size s) /\
  (forall s h l, s_items (s_restore (s_add s h l) s) = s_items s) /\
  (forall s, s_size (s_finish s) = s_size s + 2) /\
  (forall s, nlen (s_output (s_finish s)) = s_size (s_finish s)) /\
  (forall s, (exists b, ser (wrap_generator (list_to_sexp (s_items s))) = Some b) ->
             decode (s_output (s_finish s)) = Some (wrap_generator (list_to_sexp (s_items s)))).

(* all-or-nothing + frame, interned builder, one call *)
Theorem interned_step_spec (Sig : Type) (sig_one : Sig) (sig_mul : Sig -> Sig -> Sig) (cpb maxc : N) :
  maxc + I_MIN_COST_THRESHOLD < U64 ->
  forall st a st' r,
  i_step Sig sig_one sig_mul (checked_cfg cpb maxc) st a = (st', r) ->
  match r with
  | RAdded _ =>
      exists items, items_of (batch_spends Sig (ia_bundles Sig a)) = Some items /\
        ib_items Sig st' = rev items ++ ib_items Sig st /\
        ib_sig Sig st' = sig_mul (ib_sig Sig st) (batch_sig Sig sig_one sig_mul (ia_bundles Sig a)) /\
        ib_block_cost Sig st' = ib_block_cost Sig st + ia_cost Sig a /\
        ib_byte_cost Sig st' = ib_byte_cost Sig st + cpb * items_vbytes items
  | RPanic => True
  | _ => ib_items Sig st' = ib_items Sig st /\ ib_sig Sig st' = ib_sig Sig st /\
         ib_block_cost Sig st' = ib_block_cost Sig st /\ ib_byte_cost Sig st' = ib_byte_cost Sig st
  end.
Proof.
  intros Hmax st a st' r Hs. destruct r as [d|d| |].
  - destruct (i_step_added Sig sig_one sig_mul cpb maxc Hmax st a st' d Hs) as (items & H1 & H2 & H3 & H4 & H5 & _).
    exists items. auto.
  - exact (i_step_frame Sig sig_one sig_mul cpb maxc Hmax st a st' _ Hs eq_refl).
  - exact (i_step_frame Sig sig_one sig_mul cpb maxc Hmax st a st' _ Hs eq_refl).
  - exact I.
Qed.

(* all-or-nothing + frame, compressed builder, one call *)
Theorem compressed_step_spec (Sig : Type) (sig_one : Sig) (sig_mul : Sig -> Sig -> Sig) (cpb maxc : N)
    (sstate hint : Type) s_add s_restore s_size s_finish s_output s_items decode (s0 : sstate) :
  maxc + C_MIN_COST_THRESHOLD < U64 ->
  @serializer_ok sstate hint s_add s_restore s_size s_finish s_output s_items decode s0 ->
  forall st a st' r,
  c_step Sig sig_one sig_mul sstate hint s_add s_restore s_size (checked_cfg cpb maxc) st a = (st', r) ->
  match r with
  | RAdded _ =>
      exists items, items_of (batch_spends Sig (ca_bundles Sig hint a)) = Some items /\
        s_items (cb_ser Sig sstate st') = s_items (cb_ser Sig sstate st) ++ rev items /\
        cb_sig Sig sstate st' = sig_mul (cb_sig Sig sstate st) (batch_sig Sig sig_one sig_mul (ca_bundles Sig hint a)) /\
        cb_block_cost Sig sstate st' = cb_block_cost Sig sstate st + ca_cost Sig hint a /\
        cb_byte_cost Sig sstate st' = (s_size (cb_ser Sig sstate st') + C_CLOSING_BYTES) * cpb
  | RPanic => True
  | _ => s_items (cb_ser Sig sstate st') = s_items (cb_ser Sig sstate st) /\
         s_size (cb_ser Sig sstate st') = s_size (cb_ser Sig sstate st) /\
         cb_sig Sig sstate st' = cb_sig Sig sstate st /\
         cb_block_cost Sig sstate st' = cb_block_cost Sig sstate st /\
         (cb_byte_cost Sig sstate st' = cb_byte_cost Sig sstate st \/
          cb_byte_cost Sig sstate st' = (s_size (cb_ser Sig sstate st') + C_CLOSING_BYTES) * cpb)
  end.
Proof.
  intros Hmax (S1 & S2 & S3 & S4 & S5 & S6 & S7) st a st' r Hs. destruct r as [d|d| |].
  - assert (Hx : exists items, items_of (batch_spends Sig (ca_bundles Sig hint a)) = Some items /\
        cb_ser Sig sstate st' = s_add (cb_ser Sig sstate st) (ca_hint Sig hint a) items /\
        cb_sig Sig sstate st' = sig_mul (cb_sig Sig sstate st) (batch_sig Sig sig_one sig_mul (ca_bundles Sig hint a)) /\
        cb_block_cost Sig sstate st' = cb_block_cost Sig sstate st + ca_cost Sig hint a /\
        synced Sig cpb sstate s_size st' /\ cb_byte_cost Sig sstate st' + cb_block_cost Sig sstate st' <= maxc).
    { eapply c_step_added; eauto. }
    destruct Hx as (items & H1 & H2 & H3 & H4 & H5 & _).
    exists items. rewrite H2, S2. unfold synced in H5. rewrite H2 in H5. auto 6.
  - eapply c_step_frame; eauto. discriminate.
  - eapply c_step_frame; eauto. discriminate.
  - exact I.
Qed.

(* every history of the interned builder on which the overflow-checking build does not panic *)
Theorem interned_history_spec (Sig : Type) (sig_one : Sig) (sig_mul : Sig -> Sig -> Sig) (cpb maxc : N) :
  maxc + I_MIN_COST_THRESHOLD < U64 ->
  I_INITIAL_BLOCK_COST + WRAPPER_VBYTES * cpb <= maxc ->              (* the empty generator fits *)
  forall h st rs,
  run_hist (i_step Sig sig_one sig_mul (checked_cfg cpb maxc)) (i_init Sig sig_one) h = (st, rs) ->
  ~ In RPanic rs ->
  let acc := accepted h rs in
  let gen := wrap_generator (list_to_sexp (i_content Sig acc [])) in
  let total := interned_vbytes gen * cpb + (I_INITIAL_BLOCK_COST + i_declared Sig acc) in
  (* finalize does not panic; generator = exactly the accepted spends; signature = product of the accepted ones;
     cost = interned size cost + 20 + declared costs, within the limit *)
  i_finalize Sig (checked_cfg cpb maxc) st = IFOk Sig gen (i_sigs Sig sig_one sig_mul acc sig_one) total /\
  total <= maxc /\
  (* the running estimate never underestimates *)
  (exists est, i_cost Sig (checked_cfg cpb maxc) st = Some est /\ total <= est /\ est <= maxc) /\
  (* the release build does exactly the same *)
  run_hist (i_step Sig sig_one sig_mul (release_cfg cpb maxc)) (i_init Sig sig_one) h = (st, rs) /\
  i_finalize Sig (release_cfg cpb maxc) st = IFOk Sig gen (i_sigs Sig sig_one sig_mul acc sig_one) total /\
  i_cost Sig (release_cfg cpb maxc) st = i_cost Sig (checked_cfg cpb maxc) st.
Proof. intros Hmax Hfit h st rs. exact (interned_history Sig sig_one sig_mul cpb maxc Hmax h st rs Hfit). Qed.

Theorem compressed_history_spec (Sig : Type) (sig_one : Sig) (sig_mul : Sig -> Sig -> Sig) (cpb maxc : N)
    (sstate hint : Type) s_add s_restore s_size s_finish s_output s_items decode (s0 : sstate) :
  maxc + C_MIN_COST_THRESHOLD < U64 ->
  @serializer_ok sstate hint s_add s_restore s_size s_finish s_output s_items decode s0 ->
  C_INITIAL_BLOCK_COST + (s_size s0 + 2) * cpb <= maxc ->            (* the empty generator fits *)
  forall h st rs,
  run_hist (c_step Sig sig_one sig_mul sstate hint s_add s_restore s_size (checked_cfg cpb maxc)) (c_init Sig sig_one sstate s0) h = (st, rs) ->
  ~ In RPanic rs ->
  let acc := accepted h rs in
  let out := s_output (s_finish (cb_ser Sig sstate st)) in
  let total := C_INITIAL_BLOCK_COST + c_declared Sig hint acc + nlen out * cpb in
  c_finalize Sig sstate s_size s_finish s_output (checked_cfg cpb maxc) st = CFOk Sig out (c_sigs Sig sig_one sig_mul hint acc sig_one) total /\
  ((exists b, ser (wrap_generator (list_to_sexp (c_content Sig hint acc []))) = Some b) ->
   decode out = Some (wrap_generator (list_to_sexp (c_content Sig hint acc [])))) /\
  total <= maxc /\
  (* once an attempt has been accepted (in fact: serialized) cost() is exactly what finalize will return *)
  (acc <> [] -> c_cost Sig sstate (checked_cfg cpb maxc) st = Some total) /\
  run_hist (c_step Sig sig_one sig_mul sstate hint s_add s_restore s_size (release_cfg cpb maxc)) (c_init Sig sig_one sstate s0) h = (st, rs) /\
  c_finalize Sig sstate s_size s_finish s_output (release_cfg cpb maxc) st = CFOk Sig out (c_sigs Sig sig_one sig_mul hint acc sig_one) total.
Proof.
  intros Hmax (S1 & S2 & S3 & S4 & S5 & S6 & S7) Hfit h st rs.
  exact (compressed_history Sig sig_one sig_mul cpb maxc Hmax sstate hint s_add s_restore s_size s_finish s_output s_items decode s0
                            S1 S2 S3 S4 S5 S6 S7 h st rs Hfit).
Qed.

(* non-vacuity: a serializer satisfying [serializer_ok] exists (the plain serializer with the two closing bytes
   accounted for at the end; decoding = the plain parser, by the round-trip theorem) *)
From ChiaV.Bundle Require Import SexpProofs.
Definition pser := (list sexp * nat)%type.          (* items, number of finishing adds *)
Definition p_gen (s : pser) : sexp := wrap_generator (list_to_sexp (fst s)).
Definition p_add (s : pser) (h : unit) (l : list sexp) : pser := (fst s ++ rev l, snd s).
Definition p_restore (after before : pser) : pser := before.
Definition p_size (s : pser) : N := nlen (ser' (p_gen s)) + 2 * N.of_nat (snd s).
Definition p_finish (s : pser) : pser := (fst s, S (snd s)).
Definition p_output (s : pser) : bytes := ser' (p_gen s) ++ repeat_byte (2 * snd s) x00.

Example serializer_ok_inhabited :
  @serializer_ok pser unit p_add p_restore p_size p_finish p_output (@fst _ _) node_from_bytes ([], O).
Proof.
  unfold serializer_ok. repeat split; try reflexivity.
  - intros s. unfold p_size, p_finish, p_gen. cbn [fst snd]. lia.
  - intros s. unfold p_output, p_size, p_finish, p_gen. cbn [fst snd].
    unfold nlen. rewrite app_length.
    assert (Hr : forall n b, length (repeat_byte n b) = n) by (induction n; intros; cbn; auto).
    rewrite Hr. lia.
  - intros s (b & Hb). unfold p_output, p_finish, p_gen in *. cbn [fst snd].
    unfold ser'. rewrite Hb. unfold node_from_bytes. now rewrite (deser_ser _ _ _ Hb).
Qed.
