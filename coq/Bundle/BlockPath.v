(* Bundle/BlockPath.v — the unit's own minimal mirror of run_block_generator2 (run_block_generator.rs), as far
   as the block path of C08/C10 needs it (no block references):
     check_generator_quote, deserialize, base cost (byte cost of the generator as transmitted, or interned size
     under INTERNED_GENERATOR), check_generator_node, run the generator, first(), the extract_n::<3> pre-pass
     over ALL spends, the LIMIT_SPENDS countdown, per spend extract_n::<5> + run + tree hash +
     process_single_spend::<EmptyVisitor>, the nil check after the loop, validate_conditions, validate_signature.
   Definitions only.
   The generator bytes handed to the mirror are in PLAIN serialization; [gen_len] is the length of the generator
   as transmitted (equal to the plain length for solution_generator, smaller for the back-reference modes, where
   it is an oracle value: the compressor is clvmr's). *)
From ChiaV.Base Require Import Bytes.
From ChiaV.Clvm Require Import Sexp Ints TreeHash.
From ChiaV.Gen Require Import Opcodes Ladders Builder.
From ChiaV.Cond Require Import Model.
From ChiaV.Bundle Require Import SolutionGen Interned SpendBundle.
Open Scope N_scope.

(* extract_n::<N>: the first N-1 list items and the remaining tail; None = fewer than N-1 items *)
Fixpoint extract_n (k : nat) (t : sexp) : option (list sexp * sexp) :=
  match k with
  | O => Some ([], t)
  | S k' =>
      match t with
      | Pair x r =>
          match extract_n k' r with
          | Some (l, tl) => Some (x :: l, tl)
          | None => None
          end
      | Atom _ => None
      end
  end.

(* the pre-pass: `while let Some((spend, rest)) = a.next(iter) { extract_n::<3>(spend)? }` *)
Fixpoint prepass (iter : sexp) : res unit :=
  match iter with
  | Pair sp nxt =>
      match extract_n 2 sp with
      | Some _ => prepass nxt
      | None => Err InvalidCondition
      end
  | Atom _ => Ok tt
  end.

Definition starts_with_quote (program : bytes) : bool :=
  match program with
  | a :: b :: _ => byte_eqb a xff && byte_eqb b x01
  | _ => false
  end.

Section BlockPath.
  Variable valid_key : bytes -> bool.
  Variable H : bytes -> bytes.
  Variable K : consts.
  Variable run : sexp -> sexp -> N -> res (N * sexp).
  Variable sig_ok : list (bytes * bytes) -> bool.
  Variable cpb : N.
  Variable fl : bflags.
  Variable gen_args : sexp.          (* setup_generator_args: nil, or (deserializer (nil)) before SIMPLE_GENERATOR *)

  (* the main loop; returns the terminator it stopped at *)
  Fixpoint gen_loop (iter : sexp) (ret : bundle) (state : pstate) (cost_left : N) (spends_left : option N)
    : res (bundle * pstate * N * sexp) :=
    match iter with
    | Pair sp nxt =>
        match spends_left with
        | Some 0 => Err TooManySpends
        | _ =>
            match extract_n 4 sp with
            | Some ([parent_id; puzzle; amount; solution], _) =>
                '(clvm_cost, conditions) <- run puzzle solution cost_left ;;
                cost1 <- subtract_cost cost_left clvm_cost ;;
                let ret1 := b_add_exec ret clvm_cost in
                let buf := th H puzzle in
                '(ret2, state2, cost2) <-
                  process_single_spend valid_key H K (bf_cond fl) VEmpty ret1 state
                                       parent_id (Atom buf) amount conditions cost1 clvm_cost ;;
                gen_loop nxt ret2 state2 cost2 (option_map N.pred spends_left)
            | _ => Err InvalidCondition
            end
        end
    | Atom _ => Ok (ret, state, cost_left, iter)
    end.

  Definition run_block_generator2 (program : bytes) (gen_len : N) (max_cost : N)
    : res (bundle * list spend * list (bytes * bytes)) :=
    if bf_simple fl && negb (starts_with_quote program) then Err GeneratorRuntimeError  (* ComplexGeneratorReceived *)
    else
      prog <- parse_node program ;;
      let base_cost := if bf_interned fl then interned_vbytes prog * cpb else gen_len * cpb in
      cost_left <- subtract_cost max_cost base_cost ;;
      _ <- (if bf_simple fl then
              match prog with
              | Pair (Atom [b]) _ => if byte_eqb b x01 then Ok tt else Err GeneratorRuntimeError
              | _ => Err GeneratorRuntimeError
              end
            else Ok tt) ;;
      '(clvm_cost, all_spends0) <- run prog gen_args cost_left ;;
      cost_left1 <- subtract_cost cost_left clvm_cost ;;
      all_spends <- first all_spends0 ;;
      let ret0 := b_add_exec empty_bundle clvm_cost in
      _ <- prepass all_spends ;;
      '(ret, state, cost_left2, term) <-
        gen_loop all_spends ret0 empty_state cost_left1
                 (if f_limit_spends (bf_cond fl) then Some MAX_SPENDS_PER_BLOCK else None) ;;
      match term with
      | Atom [] =>
          let spends1 := fast_rev (b_spends_rev ret) in
          _ <- validate_conditions H ret spends1 state ;;
          let pairs := fast_rev (s_pkm_pairs_rev state) in
          if negb (f_dont_validate (bf_cond fl)) && negb (sig_ok pairs) then Err BadAggregateSignature
          else Ok (b_set_cost ret (max_cost - cost_left2), spends1, pairs)
      | _ => Err GeneratorRuntimeError
      end.
End BlockPath.
