(* Bundle/Interned.v — the interned size of a CLVM tree as generator_cost.rs::interned_vbytes defines it on
   clvmr's InternedTree: atoms are deduplicated by content, pairs by (left, right) of the interned
   children, i.e. by structural equality; the weight is
       atom_bytes + VB_ATOM * atom_count + VB_PAIR * pair_count        (Gen/Builder: 2 and 3).
   The function below IS the specification: the duplicate-free list of distinct subtrees.
   Definitions only. *)
From ChiaV.Base Require Import Bytes.
From ChiaV.Clvm Require Import Sexp.
From ChiaV.Gen Require Import Builder.
Open Scope N_scope.

Definition mem_sexp (x : sexp) (l : list sexp) : bool := existsb (sexp_eqb x) l.

(* add the distinct subtrees of [t] (including [t]) that are not yet in [seen].
   [seen] is always closed under "subtree of", so a tree that is present needs no descent. *)
Fixpoint add_subtrees (t : sexp) (seen : list sexp) : list sexp :=
  if mem_sexp t seen then seen
  else match t with
       | Atom _ => t :: seen
       | Pair l r => t :: add_subtrees r (add_subtrees l seen)
       end.

Definition distinct_subtrees (t : sexp) : list sexp := add_subtrees t [].

Definition node_weight (t : sexp) : N :=
  match t with
  | Atom a => nlen a + VB_ATOM
  | Pair _ _ => VB_PAIR
  end.

Definition weight (l : list sexp) : N := fold_right (fun x acc => node_weight x + acc) 0 l.

Definition interned_vbytes (t : sexp) : N := weight (distinct_subtrees t).
