(* Bundle/BuilderTotal.v — after the fix "block builders reject a declared cost above the block limit before summing"
   no declared cost can make a u64 sum overflow: in the overflow-checking build NO call of a history panics, whatever the
   declared costs, so the history theorems of BuilderProofs.v apply to every history.
   What still has to fit in u64 is stated as hypotheses, exactly:
     - the block limit is below 2^63 (2 * max + MIN_COST_THRESHOLD < 2^64; it is 11 * 10^9);
     - SIZE costs: interned builder: [i_fits]: (sum of the interned sizes of the parsable spends of a batch) * (cost_per_byte + 1)
       + 2 * max < 2^64; compressed builder: [S_bound]: (serializer size after an add + 2) * cost_per_byte + 2 * max < 2^64
       (data of about 2^64 / cost_per_byte bytes — not a matter of declared costs);
     - fewer than 2^32 calls (the u32 skip counter). *)
From ChiaV.Base Require Import Bytes.
From ChiaV.Clvm Require Import Sexp Ints.
From ChiaV.Gen Require Import Builder.
From ChiaV.Bundle Require Import SolutionGen Interned Builder InternedProofs BuilderProofs.
From Coq Require Import ZifyBool ZifyNat ZifyN.
Open Scope N_scope.

Lemma wadd_checked_some M a b : a + b < M -> wadd Checked M a b = Some (a + b).
Proof. intros H. unfold wadd. destruct (N.ltb_spec (a + b) M); [reflexivity|lia]. Qed.
Lemma wmul_checked_some M a b : a * b < M -> wmul Checked M a b = Some (a * b).
Proof. intros H. unfold wmul. destruct (N.ltb_spec (a * b) M); [reflexivity|lia]. Qed.
Lemma add3_checked_some a b c : a + b + c < U64 -> add3 Checked a b c = Some (a + b + c).
Proof. intros H. unfold add3, obind. rewrite wadd_checked_some by lia. now apply wadd_checked_some. Qed.
Lemma add4_checked_some a b c d : a + b + c + d < U64 -> add4 Checked a b c d = Some (a + b + c + d).
Proof. intros H. unfold add4, obind. rewrite add3_checked_some by lia. now apply wadd_checked_some. Qed.

(* the items of the spends up to the first one that does not parse *)
Fixpoint prefix_items (spends : list cspend) : list sexp :=
  match spends with
  | [] => []
  | s :: r => match item_of s with Some i => i :: prefix_items r | None => [] end
  end.

Section InternedTotal.
  Variable Sig : Type.
  Variable sig_one : Sig.
  Variable sig_mul : Sig -> Sig -> Sig.
  Variable cpb maxc : N.
  (* the block limit is far below 2^63 (it is 11 * 10^9) *)
  Hypothesis Hbig : 2 * maxc + I_MIN_COST_THRESHOLD < U64.

  Let cfgC := checked_cfg cpb maxc.
  Notation stepC := (i_step Sig sig_one sig_mul cfgC).
  Lemma Hmax_i : maxc + I_MIN_COST_THRESHOLD < U64.
  Proof. unfold U64 in *. lia. Qed.

  (* what still has to fit in u64 after the fix: the SIZE cost of one batch (sum of interned sizes times cost_per_byte),
     i.e. batches of less than ~2^64 / cost_per_byte bytes of distinct data *)
  Definition i_fits (a : iattempt Sig) : Prop :=
    items_vbytes (prefix_items (batch_spends Sig (ia_bundles Sig a))) * (cpb + 1) + 2 * maxc < U64.

  Definition i_inv (st : istate Sig) : Prop :=
    ib_byte_cost Sig st + WRAPPER_VBYTES * cpb + ib_block_cost Sig st <= maxc.

  Lemma items_vbytes_cons i l : items_vbytes (i :: l) = interned_vbytes i + COST_CONS + items_vbytes l.
  Proof. reflexivity. Qed.

  Lemma i_batch_no_panic spends : forall acc nbc,
    nbc + items_vbytes (prefix_items spends) * (cpb + 1) < U64 ->
    i_batch cfgC spends acc nbc <> BPanic.
  Proof.
    induction spends as [|s r IH]; intros acc nbc Hb; cbn [i_batch prefix_items] in *; [discriminate|].
    destruct (item_of s) as [item|]; [|discriminate].
    rewrite items_vbytes_cons in Hb.
    unfold spend_vbytes, obind. cbn [c_mode c_cpb cfgC checked_cfg].
    rewrite wadd_checked_some by nia. rewrite wmul_checked_some by nia. rewrite wadd_checked_some by nia.
    apply IH. nia.
  Qed.

  Lemma items_of_prefix spends l : items_of spends = Some l -> prefix_items spends = l.
  Proof.
    revert l; induction spends as [|s r IH]; intros l; cbn [items_of prefix_items]; [intros E; now inversion E|].
    destruct (item_of s) as [i|]; [|discriminate]. destruct (items_of r) as [l'|]; [|discriminate].
    intros E; inversion E. f_equal. now apply IH.
  Qed.

  Lemma i_step_no_panic st a :
    i_inv st -> i_fits a -> ib_skipped Sig st + 1 < U32 -> snd (stepC st a) <> RPanic.
  Proof.
    unfold i_inv, i_fits. intros Hinv Hfit Hsk.
    assert (Hskip : snd (i_skip Sig cfgC st) <> RPanic).
    { unfold i_skip. cbn [c_mode cfgC checked_cfg]. rewrite wadd_checked_some by exact Hsk. discriminate. }
    unfold i_step, i_step_gen, I_DECLARED_COST_GUARD. cbn [c_mode c_cpb c_max cfgC checked_cfg].
    rewrite wmul_checked_some by (unfold U64 in *; lia).
    rewrite add4_checked_some by (unfold U64 in *; lia).
    destruct (maxc <? _); [discriminate|]. cbn [andb].
    destruct (N.ltb_spec maxc (ia_cost Sig a)) as [Hg|Hg]; [exact Hskip|].
    rewrite add4_checked_some by (unfold U64 in *; lia).
    destruct (maxc <? _); [exact Hskip|].
    destruct (i_batch _ _ [] 0) as [items nbc| |] eqn:Eb; [|discriminate|].
    - destruct (i_batch_checked Sig sig_one sig_mul cpb maxc Hmax_i _ _ _ _ _ Eb) as (l & Hl & Hi & Hn).
      apply items_of_prefix in Hl. rewrite Hl in Hfit. unfold items_cost in Hn.
      rewrite wadd_checked_some by (unfold U64 in *; nia).
      rewrite add4_checked_some by (unfold U64 in *; nia).
      destruct (N.ltb_spec maxc (ib_byte_cost Sig st + nbc + WRAPPER_VBYTES * cpb + ib_block_cost Sig st + ia_cost Sig a)); [exact Hskip|].
      rewrite wadd_checked_some by (unfold U64 in *; lia).
      rewrite add4_checked_some by (unfold U64 in *; lia). discriminate.
    - exfalso. revert Eb. apply i_batch_no_panic. unfold U64 in *. lia.
  Qed.

  Lemma i_step_skipped st a : ib_skipped Sig (fst (stepC st a)) <= ib_skipped Sig st + 1.
  Proof.
    assert (Hskip : ib_skipped Sig (fst (i_skip Sig cfgC st)) <= ib_skipped Sig st + 1).
    { unfold i_skip. destruct (wadd _ _ _ _) as [k|] eqn:E; cbn; [apply wadd_checked in E|]; lia. }
    unfold i_step, i_step_gen, I_DECLARED_COST_GUARD.
    destruct (wmul _ _ _ _); [|cbn; lia].
    destruct (add4 _ _ _ _ I_MIN_COST_THRESHOLD); [|cbn; lia].
    destruct (_ <? _); [cbn; lia|].
    destruct (_ && _); [exact Hskip|].
    destruct (add4 _ _ _ _ (ia_cost Sig a)); [|cbn; lia].
    destruct (_ <? _); [exact Hskip|].
    destruct (i_batch _ _ _ _); [|cbn; lia|cbn; lia].
    destruct (wadd _ _ _ _); [|cbn; lia].
    destruct (add4 _ _ _ _ _); [|cbn; lia].
    destruct (_ <? _); [exact Hskip|].
    destruct (wadd _ _ _ _); [|cbn; lia].
    destruct (add4 _ _ _ _ _); cbn; lia.
  Qed.

  Lemma i_step_inv st a : i_inv st -> snd (stepC st a) <> RPanic -> i_inv (fst (stepC st a)).
  Proof.
    unfold i_inv. intros Hinv Hp. destruct (stepC st a) as [st1 r] eqn:Es. cbn [fst snd] in *.
    destruct r as [d|d| |]; [| | |contradiction].
    - destruct (i_step_added Sig sig_one sig_mul cpb maxc Hmax_i st a st1 d Es) as (items & _ & _ & _ & _ & _ & _ & Hle). exact Hle.
    - destruct (i_step_frame Sig sig_one sig_mul cpb maxc Hmax_i st a st1 _ Es eq_refl) as (_ & _ & -> & ->). exact Hinv.
    - destruct (i_step_frame Sig sig_one sig_mul cpb maxc Hmax_i st a st1 _ Es eq_refl) as (_ & _ & -> & ->). exact Hinv.
  Qed.

  Lemma i_hist_no_panic h : forall st0,
    i_inv st0 -> Forall i_fits h -> ib_skipped Sig st0 + N.of_nat (length h) < U32 ->
    ~ In RPanic (snd (run_hist stepC st0 h)).
  Proof.
    induction h as [|a h IH]; intros st0 Hinv Hall Hlen; cbn [run_hist snd]; [intros []|].
    inversion Hall as [|? ? Hfa Hfr]; subst. cbn [length] in Hlen.
    pose proof (i_step_no_panic st0 a Hinv Hfa ltac:(lia)) as Hnp.
    pose proof (i_step_inv st0 a Hinv Hnp) as Hinv1.
    pose proof (i_step_skipped st0 a) as Hsk.
    destruct (stepC st0 a) as [st1 r] eqn:Es. cbn [fst snd] in *.
    specialize (IH st1 Hinv1 Hfr ltac:(lia)).
    destruct r; try contradiction; destruct (run_hist stepC st1 h) as [st2 rs2]; cbn [snd] in *;
      (intros [E|E]; [discriminate|contradiction]).
  Qed.

  Theorem interned_history_total :
    I_INITIAL_BLOCK_COST + WRAPPER_VBYTES * cpb <= maxc ->
    forall h st rs,
    Forall i_fits h -> N.of_nat (length h) < U32 ->
    run_hist stepC (i_init Sig sig_one) h = (st, rs) ->
    ~ In RPanic rs.
  Proof.
    intros Hfit h st rs Hall Hlen Hrun.
    pose proof (i_hist_no_panic h (i_init Sig sig_one)) as Hn. rewrite Hrun in Hn. cbn [snd] in Hn.
    apply Hn; auto. unfold i_inv. cbn [i_init ib_byte_cost ib_block_cost]. lia.
  Qed.
End InternedTotal.

Section CompressedTotal.
  Variable Sig : Type.
  Variable sig_one : Sig.
  Variable sig_mul : Sig -> Sig -> Sig.
  Variable cpb maxc : N.
  Hypothesis Hbig : 2 * maxc + C_MIN_COST_THRESHOLD < U64.
  Variable sstate hint : Type.
  Variable s_add : sstate -> hint -> list sexp -> sstate.
  Variable s_restore : sstate -> sstate -> sstate.
  Variable s_size : sstate -> N.
  Hypothesis S_restore_size : forall s h l, s_size (s_restore (s_add s h l) s) = s_size s.
  (* what still has to fit in u64 after the fix: the SIZE cost of the serializer's output after any add *)
  Hypothesis S_bound : forall s h l,
    s_size (s_add s h l) + C_CLOSING_BYTES < U64 /\ (s_size (s_add s h l) + C_CLOSING_BYTES) * cpb + 2 * maxc < U64.

  Let cfgC := checked_cfg cpb maxc.
  Notation stepC := (c_step Sig sig_one sig_mul sstate hint s_add s_restore s_size cfgC).
  Notation ser_of := (cb_ser Sig sstate).
  Notation block_of := (cb_block_cost Sig sstate).
  Notation byte_of := (cb_byte_cost Sig sstate).

  Definition c_inv (st : cstate Sig sstate) : Prop :=
    block_of st + (s_size (ser_of st) + 2) * cpb <= maxc /\
    byte_of st <= (s_size (ser_of st) + C_CLOSING_BYTES) * cpb /\
    s_size (ser_of st) + C_CLOSING_BYTES < U64.

  Lemma closing2 : C_CLOSING_BYTES = 2.
  Proof. reflexivity. Qed.

  Lemma byte_cost_of_some s :
    s_size s + C_CLOSING_BYTES < U64 -> (s_size s + C_CLOSING_BYTES) * cpb < U64 ->
    byte_cost_of sstate s_size cfgC s = Some ((s_size s + C_CLOSING_BYTES) * cpb).
  Proof.
    intros H1 H2. unfold byte_cost_of, obind. cbn [c_mode c_cpb cfgC checked_cfg].
    rewrite wadd_checked_some by exact H1. now apply wmul_checked_some.
  Qed.

  Lemma c_step_no_panic st a :
    c_inv st -> cb_skipped Sig sstate st + 1 < U32 ->
    snd (stepC st a) <> RPanic /\ c_inv (fst (stepC st a)).
  Proof.
    intros Hinv Hsk. pose proof Hinv as (Hf & Hb & Hs). rewrite closing2 in Hb, Hs.
    assert (Hskip : forall ser bc f,
              block_of st + (s_size ser + 2) * cpb <= maxc -> bc <= (s_size ser + 2) * cpb -> s_size ser + 2 < U64 ->
              snd (c_skip Sig sstate cfgC st ser bc f) <> RPanic /\ c_inv (fst (c_skip Sig sstate cfgC st ser bc f))).
    { intros ser bc f G1 G2 G3. unfold c_skip. cbn [c_mode cfgC checked_cfg]. rewrite wadd_checked_some by exact Hsk.
      cbn [fst snd]. split; [discriminate|]. unfold c_inv, c_with. cbn [cb_ser cb_block_cost cb_byte_cost]. rewrite closing2. auto. }
    unfold c_step, c_step_gen, C_DECLARED_COST_GUARD. cbn [c_mode c_cpb c_max cfgC checked_cfg].
    rewrite add3_checked_some by (unfold U64 in *; lia).
    destruct (maxc <? _); [now apply Hskip|]. cbn [andb].
    destruct (N.ltb_spec maxc (ca_cost Sig hint a)) as [Hg|Hg]; [now apply Hskip|].
    rewrite add3_checked_some by (unfold U64 in *; lia).
    destruct (maxc <? _); [now apply Hskip|].
    destruct (items_of _) as [items|]; [|cbn [fst snd]; split; [discriminate|exact Hinv]].
    destruct (S_bound (ser_of st) (ca_hint Sig hint a) items) as [B1 B2]. rewrite closing2 in B1, B2.
    rewrite byte_cost_of_some by (rewrite closing2; unfold U64 in *; lia).
    rewrite add3_checked_some by (rewrite closing2; unfold U64 in *; lia).
    rewrite closing2.
    destruct (N.ltb_spec maxc ((s_size (s_add (ser_of st) (ca_hint Sig hint a) items) + 2) * cpb + block_of st + ca_cost Sig hint a)).
    - rewrite byte_cost_of_some by (rewrite S_restore_size, closing2; unfold U64 in *; lia).
      rewrite closing2. apply Hskip; rewrite S_restore_size; auto. lia.
    - rewrite wadd_checked_some by (unfold U64 in *; lia).
      rewrite add3_checked_some by (unfold U64 in *; lia). cbn [fst snd]. split; [discriminate|].
      unfold c_inv. cbn [cb_ser cb_block_cost cb_byte_cost]. rewrite closing2. repeat split; lia.
  Qed.

  Lemma c_step_skipped st a : cb_skipped Sig sstate (fst (stepC st a)) <= cb_skipped Sig sstate st + 1.
  Proof.
    assert (Hskip : forall ser bc f, cb_skipped Sig sstate (fst (c_skip Sig sstate cfgC st ser bc f)) <= cb_skipped Sig sstate st + 1).
    { intros. unfold c_skip. destruct (wadd _ _ _ _) as [k|] eqn:E; cbn; [apply wadd_checked in E|]; lia. }
    unfold c_step, c_step_gen, C_DECLARED_COST_GUARD.
    destruct (add3 _ _ _ C_MIN_COST_THRESHOLD); [|cbn; lia].
    destruct (_ <? _); [apply Hskip|].
    destruct (_ && _); [apply Hskip|].
    destruct (add3 _ _ _ _); [|cbn; lia].
    destruct (_ <? _); [apply Hskip|].
    destruct (items_of _); [|cbn; lia].
    destruct (byte_cost_of _ _ _ _); [|cbn; lia].
    destruct (add3 _ _ _ _); [|cbn; lia].
    destruct (_ <? _).
    - destruct (byte_cost_of _ _ _ _); [apply Hskip|cbn; lia].
    - destruct (wadd _ _ _ _); [|cbn; lia]. destruct (add3 _ _ _ _); cbn; lia.
  Qed.

  Lemma c_hist_no_panic h : forall st0,
    c_inv st0 -> cb_skipped Sig sstate st0 + N.of_nat (length h) < U32 ->
    ~ In RPanic (snd (run_hist stepC st0 h)).
  Proof.
    induction h as [|a h IH]; intros st0 Hinv Hlen; cbn [run_hist snd]; [intros []|].
    cbn [length] in Hlen.
    destruct (c_step_no_panic st0 a Hinv ltac:(lia)) as [Hnp Hinv1].
    pose proof (c_step_skipped st0 a) as Hsk.
    destruct (stepC st0 a) as [st1 r] eqn:Es. cbn [fst snd] in *.
    specialize (IH st1 Hinv1 ltac:(lia)).
    destruct r; try contradiction; destruct (run_hist stepC st1 h) as [st2 rs2]; cbn [snd] in *;
      (intros [E|E]; [discriminate|contradiction]).
  Qed.

  Theorem compressed_history_total (s0 : sstate) :
    C_INITIAL_BLOCK_COST + (s_size s0 + 2) * cpb <= maxc -> s_size s0 + 2 < U64 ->
    forall h st rs,
    N.of_nat (length h) < U32 ->
    run_hist stepC (c_init Sig sig_one sstate s0) h = (st, rs) ->
    ~ In RPanic rs.
  Proof.
    intros Hfit Hs0 h st rs Hlen Hrun.
    pose proof (c_hist_no_panic h (c_init Sig sig_one sstate s0)) as Hn. rewrite Hrun in Hn. cbn [snd] in Hn.
    apply Hn; auto. unfold c_inv. cbn [c_init cb_ser cb_byte_cost cb_block_cost]. rewrite closing2. repeat split; lia.
  Qed.
End CompressedTotal.
