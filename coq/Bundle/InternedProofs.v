(* Bundle/InternedProofs.v — the interned size is the weight of the duplicate-free set of subtrees, and the
   "triangle inequality" the interned builder relies on:
       interned_vbytes (q . ((item_1 ... item_n))) <= WRAPPER_VBYTES + sum_i (interned_vbytes item_i + COST_CONS)
   over the TRANSLATED constants WRAPPER_VBYTES, COST_CONS, VB_ATOM, VB_PAIR. *)
From ChiaV.Base Require Import Bytes.
From ChiaV.Clvm Require Import Sexp Ints.
From ChiaV.Gen Require Import Builder.
From ChiaV.Bundle Require Import SolutionGen Interned.
From Coq Require Import ZifyBool ZifyNat ZifyN.
Open Scope N_scope.

Lemma sexp_eqb_eq a : forall b, sexp_eqb a b = true <-> a = b.
Proof.
  induction a as [x|l IHl r IHr]; intros [y|l' r']; cbn [sexp_eqb]; try (split; [discriminate|congruence]).
  - rewrite bytes_eqb_eq. split; congruence.
  - rewrite Bool.andb_true_iff, IHl, IHr. split; [intros [-> ->]; reflexivity|intros E; inversion E; auto].
Qed.

Lemma mem_sexp_In x l : mem_sexp x l = true <-> In x l.
Proof.
  unfold mem_sexp. rewrite existsb_exists. split.
  - intros (y & Hy & E). apply sexp_eqb_eq in E. now subst.
  - intros H. exists x. split; [exact H|now apply sexp_eqb_eq].
Qed.

(* x is a subtree of t (reflexive) *)
Fixpoint subtree (x t : sexp) : Prop :=
  x = t \/ match t with Pair l r => subtree x l \/ subtree x r | Atom _ => False end.

Lemma subtree_refl t : subtree t t.
Proof. destruct t; left; reflexivity. Qed.

Lemma subtree_trans x y z : subtree x y -> subtree y z -> subtree x z.
Proof.
  revert x y; induction z as [a|l IHl r IHr]; intros x y Hxy Hyz.
  - destruct Hyz as [->|[]]. exact Hxy.
  - destruct Hyz as [->|[H|H]]; [exact Hxy| |].
    + right; left. eapply IHl; eauto.
    + right; right. eapply IHr; eauto.
Qed.

Definition closed (l : list sexp) : Prop := forall y, In y l -> forall x, subtree x y -> In x l.

Lemma add_subtrees_spec t : forall seen,
  closed seen -> NoDup seen ->
  closed (add_subtrees t seen) /\ NoDup (add_subtrees t seen) /\
  (forall x, In x (add_subtrees t seen) <-> In x seen \/ subtree x t).
Proof.
  assert (Hs : forall x t0, subtree x t0 -> (node_count x <= node_count t0)%nat).
  { intros x t0; revert x; induction t0 as [b|l0 IH1 r0 IH2]; intros x [->|Hx]; cbn [node_count]; try lia; try contradiction.
    destruct Hx as [Hx|Hx]; [specialize (IH1 _ Hx)|specialize (IH2 _ Hx)]; lia. }
  induction t as [a|l IHl r IHr]; intros seen Hc Hn; cbn [add_subtrees].
  - destruct (mem_sexp (Atom a) seen) eqn:E.
    + apply mem_sexp_In in E. split; [exact Hc|split; [exact Hn|]].
      intros x; split; [intros H; now left|intros [H|[->|[]]]; auto].
    + assert (Hni : ~ In (Atom a) seen) by (intros H; apply mem_sexp_In in H; congruence).
      split; [|split].
      * intros y [<-|Hy] x Hx; [destruct Hx as [->|[]]; now left|right; eapply Hc; eauto].
      * constructor; auto.
      * intros x; split; [intros [<-|H]; [right; left; reflexivity|now left]|intros [H|[->|[]]]; [now right|now left]].
  - destruct (mem_sexp (Pair l r) seen) eqn:E.
    + apply mem_sexp_In in E. split; [exact Hc|split; [exact Hn|]].
      intros x; split; [intros H; now left|intros [H|H]; [exact H|eapply Hc; eauto]].
    + assert (Hni : ~ In (Pair l r) seen) by (intros H; apply mem_sexp_In in H; congruence).
      destruct (IHl seen Hc Hn) as (Hc1 & Hn1 & Hi1).
      destruct (IHr (add_subtrees l seen) Hc1 Hn1) as (Hc2 & Hn2 & Hi2).
      assert (Hnot : ~ In (Pair l r) (add_subtrees r (add_subtrees l seen))).
      { intros H. apply Hi2 in H. destruct H as [H|H].
        - apply Hi1 in H. destruct H as [H|H]; [contradiction|].
          specialize (Hs _ _ H). cbn [node_count] in Hs. lia.
        - specialize (Hs _ _ H). cbn [node_count] in Hs. lia. }
      split; [|split].
      * intros y [<-|Hy] x Hx.
        -- destruct Hx as [->|[Hx|Hx]]; [now left| |]; right; apply Hi2.
           ++ left. apply Hi1. now right.
           ++ now right.
        -- right. eapply Hc2; eauto.
      * constructor; auto.
      * intros x; split.
        -- intros [<-|H]; [right; apply subtree_refl|].
           apply Hi2 in H. destruct H as [H|H]; [apply Hi1 in H; destruct H as [H|H]; [now left|right; right; now left]|right; right; now right].
        -- intros [H|[->|[H|H]]].
           ++ right. apply Hi2. left. apply Hi1. now left.
           ++ now left.
           ++ right. apply Hi2. left. apply Hi1. now right.
           ++ right. apply Hi2. now right.
Qed.

Lemma closed_nil : closed [].
Proof. intros y []. Qed.

Lemma distinct_subtrees_spec t :
  NoDup (distinct_subtrees t) /\ forall x, In x (distinct_subtrees t) <-> subtree x t.
Proof.
  destruct (add_subtrees_spec t [] closed_nil (NoDup_nil _)) as (_ & Hn & Hi).
  split; [exact Hn|]. intros x. rewrite Hi. split; [intros [[]|H]; exact H|now right].
Qed.

(* a duplicate-free list weighs at most any list that contains it *)
Lemma weight_app a b : weight (a ++ b) = weight a + weight b.
Proof. induction a as [|x a IH]; cbn [app weight fold_right]; [unfold weight; cbn; lia|]. unfold weight in *. cbn [fold_right]. rewrite IH. lia. Qed.

Lemma weight_incl l : forall m, NoDup l -> incl l m -> weight l <= weight m.
Proof.
  induction l as [|x l IH]; intros m Hn Hi.
  - unfold weight at 1. cbn. lia.
  - inversion Hn as [|? ? Hx Hn']; subst.
    assert (Hin : In x m) by (apply Hi; now left).
    destruct (in_split _ _ Hin) as (m1 & m2 & ->).
    assert (Hi' : incl l (m1 ++ m2)).
    { intros y Hy. assert (Hym : In y (m1 ++ x :: m2)) by (apply Hi; now right).
      apply in_app_or in Hym. apply in_or_app. destruct Hym as [H|[<-|H]]; auto. contradiction. }
    specialize (IH _ Hn' Hi'). rewrite weight_app in *. unfold weight in *. cbn [fold_right]. lia.
Qed.

(* the cons cells of a proper list *)
Fixpoint spine (items : list sexp) : list sexp :=
  match items with [] => [] | x :: r => list_to_sexp (x :: r) :: spine r end.

Lemma subtree_list x items :
  subtree x (list_to_sexp items) ->
  In x (spine items) \/ x = nil \/ exists i, In i items /\ subtree x i.
Proof.
  induction items as [|i r IH]; cbn [list_to_sexp spine].
  - intros [->|[]]. right; left; reflexivity.
  - intros [->|[H|H]].
    + left; now left.
    + right; right. exists i. split; [now left|exact H].
    + destruct (IH H) as [H1|[H1|(j & Hj & Hs)]].
      * left; now right.
      * right; now left.
      * right; right. exists j. split; [now right|exact Hs].
Qed.

Definition items_vbytes (items : list sexp) : N :=
  fold_right (fun i acc => interned_vbytes i + COST_CONS + acc) 0 items.

Lemma weight_spine items : weight (spine items) = VB_PAIR * N.of_nat (length items).
Proof.
  induction items as [|i r IH]; [reflexivity|].
  cbn [spine length]. unfold weight in *. cbn [fold_right list_to_sexp node_weight]. rewrite IH. lia.
Qed.

Lemma weight_concat items :
  weight (concat (map distinct_subtrees items)) = fold_right (fun i acc => interned_vbytes i + acc) 0 items.
Proof.
  induction items as [|i r IH]; [reflexivity|].
  cbn [map concat fold_right]. rewrite weight_app, IH. reflexivity.
Qed.

Theorem triangle items :
  interned_vbytes (wrap_generator (list_to_sexp items)) <= WRAPPER_VBYTES + items_vbytes items.
Proof.
  set (lst := list_to_sexp items).
  set (inner := Pair lst nil).
  set (M := [wrap_generator lst; inner; quote_atom; nil] ++ spine items ++ concat (map distinct_subtrees items)).
  destruct (distinct_subtrees_spec (wrap_generator lst)) as (Hn & Hi).
  assert (Hincl : incl (distinct_subtrees (wrap_generator lst)) M).
  { intros x Hx. apply Hi in Hx. unfold M.
    destruct Hx as [->|[Hx|Hx]].
    - now left.
    - destruct Hx as [->|[]]. right; right; now left.
    - destruct Hx as [->|[Hx|Hx]].
      + right; now left.
      + apply subtree_list in Hx. destruct Hx as [Hx|[->|(i & Hi1 & Hs)]].
        * apply in_or_app. right. apply in_or_app. now left.
        * right; right; right; now left.
        * apply in_or_app. right. apply in_or_app. right.
          apply in_concat. exists (distinct_subtrees i). split; [now apply in_map|].
          now apply (proj2 (distinct_subtrees_spec i)).
      + destruct Hx as [->|[]]. right; right; right; now left. }
  pose proof (weight_incl _ _ Hn Hincl) as Hw.
  unfold interned_vbytes at 1. fold lst.
  eapply N.le_trans; [exact Hw|].
  unfold M. rewrite weight_app, weight_app, weight_spine, weight_concat.
  assert (Hsum : forall l, items_vbytes l = fold_right (fun i acc => interned_vbytes i + acc) 0 l + COST_CONS * N.of_nat (length l)).
  { induction l as [|i r IH]; [reflexivity|]. unfold items_vbytes in *. cbn [fold_right length]. rewrite IH. lia. }
  rewrite Hsum.
  (* the two facts about the TRANSLATED constants the bound rests on *)
  assert (Hfour : weight [wrap_generator lst; inner; quote_atom; nil] <= WRAPPER_VBYTES) by (vm_compute; discriminate).
  assert (Hcons : VB_PAIR <= COST_CONS) by (vm_compute; discriminate).
  nia.
Qed.

(* the translated WRAPPER_VBYTES is the interned size of the wrapper (q . (() . ())) around an empty list *)
Lemma wrapper_vbytes_value : interned_vbytes (wrap_generator nil) = WRAPPER_VBYTES.
Proof. vm_compute. reflexivity. Qed.
