(* Bundle/BuilderRefuted.v — concrete histories (checked by vm_compute on the mirrors) on which clauses of C10 FAIL:

   overflow (finding F-C10-1, FIXED in /repo by "fix: block builders reject a declared cost above the block limit before
     summing"): DOCUMENTATION ONLY — [i_run]/[c_run] below use the PRE-FIX step functions [i_step_prefix]/[c_step_prefix]
     (guard = false).  [*_fixed_rejects] shows the same histories on the current mirrors.
     Before the fix a declared cost near 2^64 made the u64 sums of add_spend_bundles overflow.
     Release build (wrap-around): the attempt is ACCEPTED although its declared cost alone exceeds the block limit,
     block_cost wraps, and finalize returns a cost far below 20 + the declared costs (here: 0 resp. 60000).
     Overflow-checking build: add_spend_bundles panics.
   initial estimate (known finding F-C10-2): the compressed builder starts with byte_cost = 0 although the
     serializer already holds the three wrapper bytes, so before the first serialized add cost() = 20 while
     finalize returns 20 + 5 * cost_per_byte. *)
From ChiaV.Base Require Import Bytes.
From ChiaV.Clvm Require Import Sexp Ints.
From ChiaV.Gen Require Import Builder.
From ChiaV.Bundle Require Import SolutionGen Interned Builder BuilderExec.
Open Scope N_scope.

Definition real_cfg (m : amode) : bcfg := {| c_mode := m; c_cpb := 12000; c_max := 11000000000 |}.

Definition i_run (m : amode) (h : list (iattempt xsig)) :=
  run_hist (i_step_prefix xsig xsig_one xsig_mul (real_cfg m)) (i_init xsig xsig_one) h.
Definition c_run (m : amode) (h : list (cattempt xsig N)) :=
  run_hist (c_step_prefix xsig xsig_one xsig_mul xser N x_add x_restore x_size (real_cfg m)) (c_init xsig xsig_one xser x_init) h.

(* one call, no bundles, declared cost 2^64 - 132020 (132020 = 20 + WRAPPER_VBYTES * 12000) *)
Definition i_witness : list (iattempt xsig) := [ {| ia_bundles := []; ia_cost := 2 ^ 64 - 132020 |} ].
(* one call, no bundles, declared cost 2^64 - 20; the recorded serializer size stays 3 *)
Definition c_witness : list (cattempt xsig N) := [ {| ca_bundles := []; ca_cost := 2 ^ 64 - 20; ca_hint := 3 |} ].

Theorem interned_overflow_refuted :
  (* release: accepted, and the returned cost is 0 *)
  snd (i_run Wrap i_witness) = [RAdded false] /\
  (exists g s, i_finalize xsig (real_cfg Wrap) (fst (i_run Wrap i_witness)) = IFOk xsig g s 0) /\
  c_max (real_cfg Wrap) < ia_cost xsig (hd {| ia_bundles := []; ia_cost := 0 |} i_witness) /\
  (* overflow checks: the call panics *)
  snd (i_run Checked i_witness) = [RPanic].
Proof.
  split; [vm_compute; reflexivity|]. split; [eexists; eexists; vm_compute; reflexivity|].
  split; vm_compute; reflexivity.
Qed.

Theorem compressed_overflow_refuted :
  snd (c_run Wrap c_witness) = [RAdded false] /\
  (exists g s, c_finalize xsig xser x_size x_finish x_output (real_cfg Wrap) (fst (c_run Wrap c_witness)) = CFOk xsig g s 60000) /\
  c_max (real_cfg Wrap) < ca_cost xsig N (hd {| ca_bundles := []; ca_cost := 0; ca_hint := 0 |} c_witness) /\
  snd (c_run Checked c_witness) = [RPanic].
Proof.
  split; [vm_compute; reflexivity|]. split; [eexists; eexists; vm_compute; reflexivity|].
  split; vm_compute; reflexivity.
Qed.

(* before anything is added: cost() says 20, finalize says 60020 *)
Theorem compressed_initial_estimate_refuted :
  forall m, c_cost xsig xser (real_cfg m) (c_init xsig xsig_one xser x_init) = Some 20 /\
            exists g s, c_finalize xsig xser x_size x_finish x_output (real_cfg m) (c_init xsig xsig_one xser x_init) = CFOk xsig g s 60020.
Proof. intros m; destruct m; (split; [vm_compute; reflexivity|eexists; eexists; vm_compute; reflexivity]). Qed.

(* the same witnesses on the CURRENT mirrors: rejected, nothing added, in both builds *)
Theorem overflow_witnesses_fixed_rejected : forall m,
  snd (run_hist (i_step xsig xsig_one xsig_mul (real_cfg m)) (i_init xsig xsig_one) i_witness) = [RRejected false] /\
  ib_items xsig (fst (run_hist (i_step xsig xsig_one xsig_mul (real_cfg m)) (i_init xsig xsig_one) i_witness)) = [] /\
  snd (run_hist (c_step xsig xsig_one xsig_mul xser N x_add x_restore x_size (real_cfg m)) (c_init xsig xsig_one xser x_init) c_witness)
    = [RRejected false].
Proof. intros m; destruct m; vm_compute; auto. Qed.
