(* Bundle/OrderProofs.v — the mempool path does not depend on the ORDER of the coin spends of a bundle, and hence the
   block path of a bundle agrees with the mempool path of the SAME bundle (AgreeProofs.agree_rev relates it to the
   reversed bundle).
   Ingredients from unit cond (imported read-only): the per-spend lemmas of Accept/Collect/Totals/Summary about
   [spend_sem] (valid for any budget and any clvm_cost), deferred_validation_iff, spends_guards_rules, rules_perm.
   What is added here: the spend loop of run_spendbundle interleaves CLVM execution with the budget; under the oracle
   hypothesis [Hrun] (a program has a cost and a result and fails with CostExceeded exactly below that cost, or it
   always fails) it equals the "interleaved semantic loop" [isem] over the oracle's outputs (cost_i, parsed spend_i);
   acceptance of [isem] + deferred validation is characterised declaratively ([iaccept_iff]: NoDup, sum of execution
   and condition costs within the budget, fee, local rules, bundle rules), which is invariant under reversal. *)
From ChiaV.Base Require Import Bytes.
From ChiaV.Clvm Require Import Sexp Ints TreeHash.
From ChiaV.Gen Require Import Opcodes Ladders Builder.
From ChiaV.Cond Require Import Model Invariants Syntax Collect Rules Refine Guards Accept Totals Final Local LocalRules Declarative Summary Perm.
From ChiaV.Bundle Require Import SolutionGen Interned SpendBundle BlockPath SolutionGenProofs AgreeProofs.
From Coq Require Import Permutation ZifyBool ZifyNat ZifyN.
Open Scope N_scope.

(* a spend after its puzzle has run: (execution cost, parsed spend) *)
Definition ipair := (N * pspend)%type.

Section ISem.
  Variable vk : bytes -> bool.
  Variable H : bytes -> bytes.
  Variable K : consts.
  Variable fl : cflags.
  Notation V := VMempool.

  (* the spend loop of run_spendbundle once each puzzle's (cost, conditions) is known: the execution cost is taken from
     the budget before the spend's conditions are processed, and is the spend's own clvm_cost *)
  Fixpoint isem (L : list ipair) (ret : bundle) (state : pstate) (cost : N) : res (bundle * pstate * N) :=
    match L with
    | [] => Ok (ret, state, cost)
    | (c, p) :: r =>
        if cost <? c then Err CostExceeded
        else '(ret1, state1, cost1) <- spend_sem vk H K fl V (b_add_exec ret c) state (cost - c) c p ;;
             isem r ret1 state1 cost1
    end.

  Definition costs (L : list ipair) : N := sumN (map fst L).
  Definition parsed (L : list ipair) : list pspend := map snd L.

  Fixpoint iguards (L : list ipair) (budget fee : N) (seen : list bytes) : bool :=
    match L with
    | [] => true
    | (c, p) :: r =>
        (c <=? budget) && spend_guard vk H K fl p (budget - c) fee seen &&
        iguards r (a_budget (acoreF H fl p (budget - c) fee)) (a_fee (acoreF H fl p (budget - c) fee)) (pid H p :: seen)
    end.

  Lemma isem_guards L : forall ret state cl,
    (exists x, isem L ret state cl = Ok x) <->
    iguards L cl (b_reserve_fee ret) (map fst (s_spent_coins state)) = true.
  Proof.
    induction L as [|[c p] L IH]; intros ret state cl; cbn [isem iguards].
    - split; [reflexivity|intros _; eexists; reflexivity].
    - destruct (N.ltb_spec cl c) as [Hlt|Hge].
      + destruct (N.leb_spec c cl); [lia|]. cbn [andb]. split; [intros [x Hx]; discriminate|discriminate].
      + destruct (N.leb_spec c cl); [|lia]. cbn [andb]. split.
        * intros [x Hx].
          destruct (spend_sem vk H K fl V (b_add_exec ret c) state (cl - c) c p) as [[[ret1 state1] cost1]|] eqn:E; cbn [bind] in Hx; [|discriminate].
          assert (Hg : spend_guard vk H K fl p (cl - c) (b_reserve_fee ret) (map fst (s_spent_coins state)) = true)
            by (apply (proj1 (spend_sem_guard vk H K fl V (b_add_exec ret c) state (cl - c) c p)); eexists; exact E).
          rewrite Hg. cbn [andb]. destruct (spend_sem_next _ _ _ _ _ _ _ _ _ _ _ _ _ E) as [N1 [N2 N3]].
          cbn [b_add_exec b_reserve_fee] in N1, N2. rewrite <- N1, <- N2, <- N3. apply (proj1 (IH ret1 state1 cost1)). now exists x.
        * intros Hg. apply Bool.andb_true_iff in Hg. destruct Hg as [G1 G2].
          apply (proj2 (spend_sem_guard vk H K fl V (b_add_exec ret c) state (cl - c) c p)) in G1.
          destruct G1 as [[[ret1 state1] cost1] E]. rewrite E. cbn [bind].
          destruct (spend_sem_next _ _ _ _ _ _ _ _ _ _ _ _ _ E) as [N1 [N2 N3]].
          cbn [b_add_exec b_reserve_fee] in N1, N2. rewrite <- N1, <- N2, <- N3 in G2.
          apply (proj2 (IH ret1 state1 cost1)) in G2. exact G2.
  Qed.

  Notation pid := (pid H).
  Notation LR := (LocalRules vk K fl H).

  Lemma spend_guard_rules p b fee seen :
    fee < 2 ^ 64 ->
    (spend_guard vk H K fl p b fee seen = true <->
     ~ In (pid p) seen /\ spend_total_cost fl p <= b /\ fee + tot_fee [p] < 2 ^ 64 /\ LR p).
  Proof.
    intros Hfee. pose proof (spends_guards_rules vk H K fl [p] b fee seen None Hfee) as R.
    cbn [spends_guards negb andb] in R. rewrite Bool.andb_true_r in R.
    unfold total_cost in R. cbn [map sumN fold_right] in R. rewrite N.add_0_r in R.
    rewrite R. split.
    - intros [[_ Hs] [_ [Hc [Hf Hall]]]]. inversion Hall; subst.
      split; [apply Hs; now left|]. split; [exact Hc|]. split; [exact Hf|assumption].
    - intros [Hs [Hc [Hf Hl]]].
      split; [split; [constructor; [intros []|constructor]|intros q [<-|[]]; exact Hs]|].
      split; [exact I|]. split; [exact Hc|]. split; [exact Hf|]. constructor; [exact Hl|constructor].
  Qed.

  Lemma guard_after p b fee seen :
    spend_guard vk H K fl p b fee seen = true ->
    a_budget (acoreF H fl p b fee) = b - spend_total_cost fl p /\
    a_fee (acoreF H fl p b fee) = fee + tot_fee [p].
  Proof.
    unfold spend_guard. intros G. apply Bool.andb_true_iff in G. destruct G as [_ G].
    unfold acoreF. split.
    - rewrite (guards_budget vk K fl _ _ G). unfold spend_total_cost, acore0. cbn [a_budget]. lia.
    - rewrite a_fee_fold. unfold tot_fee, kn, acore0. cbn [a_fee flat_map]. now rewrite app_nil_r.
  Qed.

  Lemma tot_fee_cons p ps : tot_fee (p :: ps) = tot_fee [p] + tot_fee ps.
  Proof. unfold tot_fee. cbn [flat_map]. rewrite app_nil_r. apply sumN_app. Qed.
  Lemma total_cost_cons p ps : total_cost fl (p :: ps) = spend_total_cost fl p + total_cost fl ps.
  Proof. reflexivity. Qed.

  Lemma costs_cons c p L : costs ((c, p) :: L) = c + costs L.
  Proof. reflexivity. Qed.

  Theorem iguards_rules L : forall budget fee seen,
    fee < 2 ^ 64 ->
    (iguards L budget fee seen = true <->
     (NoDup (map pid (parsed L)) /\ forall p, In p (parsed L) -> ~ In (pid p) seen) /\
     costs L + total_cost fl (parsed L) <= budget /\
     fee + tot_fee (parsed L) < 2 ^ 64 /\
     Forall LR (parsed L)).
  Proof.
    induction L as [|[c p] L IH]; intros budget fee seen Hfee; cbn [iguards parsed map snd].
    - unfold costs, total_cost, tot_fee. cbn. split; [|reflexivity]. intros _.
      repeat split; try constructor; try lia; intros; contradiction.
    - fold (parsed L). rewrite costs_cons, total_cost_cons, tot_fee_cons. rewrite !Bool.andb_true_iff. rewrite N.leb_le.
      rewrite (spend_guard_rules p (budget - c) fee seen Hfee).
      split.
      + intros [[Hc [Hs [Ht [Hf Hl]]]] Hrest].
        assert (Hg : spend_guard vk H K fl p (budget - c) fee seen = true) by (apply spend_guard_rules; auto).
        destruct (guard_after _ _ _ _ Hg) as [A1 A2]. rewrite A1, A2 in Hrest.
        apply IH in Hrest; [|exact Hf]. destruct Hrest as [[Hnd Hseen] [Hcc [Hff Hall]]].
        repeat split.
        * cbn [map]. constructor; [|exact Hnd]. intros Hin. apply in_map_iff in Hin. destruct Hin as [q [Hq Hin]].
          apply (Hseen q Hin). rewrite Hq. now left.
        * intros q [<-|Hq]; [exact Hs|]. intros Hin. apply (Hseen q Hq). now right.
        * lia.
        * lia.
        * constructor; assumption.
      + intros [[Hnd Hseen] [Hcc [Hff Hall]]].
        inversion Hnd as [|? ? Hnot Hnd']; subst. inversion Hall as [|? ? HL Hall']; subst.
        assert (Hs : ~ In (pid p) seen) by (apply Hseen; now left).
        assert (G : c <= budget /\ ~ In (pid p) seen /\ spend_total_cost fl p <= budget - c /\ fee + tot_fee [p] < 2 ^ 64 /\ LR p)
          by (split; [lia|split; [exact Hs|split; [lia|split; [lia|exact HL]]]]).
        split; [exact G|]. destruct G as [_ G].
        assert (Hg : spend_guard vk H K fl p (budget - c) fee seen = true) by (apply spend_guard_rules; auto).
        destruct (guard_after _ _ _ _ Hg) as [A1 A2]. rewrite A1, A2.
        apply IH; [lia|]. split; [split; [exact Hnd'|]|split; [lia|split; [lia|exact Hall']]].
        intros q Hq [E|Hin].
        * apply Hnot. apply in_map_iff. exists q. split; [now symmetry|exact Hq].
        * apply (Hseen q); [now right|exact Hin].
  Qed.

  (* the budget left after an accepted loop (truncated subtraction; the sum is below the budget by iguards_rules) *)
  Lemma isem_budget L : forall ret state cl ret' state' cl',
    isem L ret state cl = Ok (ret', state', cl') -> cl' = cl - (costs L + total_cost fl (parsed L)).
  Proof.
    induction L as [|[c p] L IH]; intros ret state cl ret' state' cl'; cbn [isem].
    - intros E; inversion E; subst. unfold costs, total_cost. cbn. lia.
    - destruct (N.ltb_spec cl c); [discriminate|].
      destruct (spend_sem vk H K fl V (b_add_exec ret c) state (cl - c) c p) as [[[ret1 state1] cost1]|] eqn:E; cbn [bind]; [|discriminate].
      intros Hn. apply IH in Hn.
      assert (Hg : spend_guard vk H K fl p (cl - c) (b_reserve_fee ret) (map fst (s_spent_coins state)) = true)
        by (apply (proj1 (spend_sem_guard vk H K fl V (b_add_exec ret c) state (cl - c) c p)); eexists; exact E).
      destruct (spend_sem_next _ _ _ _ _ _ _ _ _ _ _ _ _ E) as [N1 _]. cbn [b_add_exec b_reserve_fee] in N1.
      destruct (guard_after _ _ _ _ Hg) as [A1 _]. rewrite A1 in N1.
      rewrite costs_cons. cbn [parsed map snd]. fold (parsed L). rewrite total_cost_cons. lia.
  Qed.
End ISem.



Section IInv.
  Variable vk : bytes -> bool.
  Variable H : bytes -> bytes.
  Variable K : consts.
  Variable fl : cflags.
  Notation V := VMempool.
  Notation isem := (isem vk H K fl).

  Lemma Coll_add_exec done ret c state : Coll H done ret state -> Coll H done (b_add_exec ret c) state.
  Proof. intros []. constructor; assumption. Qed.
  Lemma RColl_add_exec done ret c state : RColl done ret state -> RColl done (b_add_exec ret c) state.
  Proof. intros C. exact C. Qed.

  Lemma bcore_bret ret state sp a b c : bcore_of {| l_ret := ret; l_state := state; l_spend := sp; l_max_cost := a; l_countdown := b; l_counter := c |} = bret ret.
  Proof. reflexivity. Qed.

  Definition pairs_of (ps : list pspend) : list (bytes * bytes) := if f_dont_validate fl then [] else all_pairs H K ps.

  Lemma isem_inv L : forall done ret state cl r s c',
    isem L ret state cl = Ok (r, s, c') -> Coll H done ret state -> RColl done ret state ->
    Coll H (done ++ parsed L) r s /\ RColl (done ++ parsed L) r s /\
    b_removal r = b_removal ret + tot_removal (parsed L) /\
    b_addition r = b_addition ret + tot_addition (parsed L) /\
    b_reserve_fee r = b_reserve_fee ret + tot_fee (parsed L) /\
    bret r = fold_left beffect (all_known (parsed L)) (bret ret) /\
    s_pkm_pairs_rev s = rev (pairs_of (parsed L)) ++ s_pkm_pairs_rev state.
  Proof.
    induction L as [|[c p] L IH]; intros done ret state cl r s c'; cbn [isem parsed map snd].
    - intros E C R; inversion E; subst. rewrite app_nil_r. split; [exact C|]. split; [exact R|].
      unfold tot_removal, tot_addition, tot_fee, all_known, pairs_of, all_pairs. cbn.
      destruct (f_dont_validate fl); cbn; (split; [lia|split; [lia|split; [lia|split; reflexivity]]]).
    - fold (parsed L). destruct (cl <? c); [discriminate|].
      destruct (spend_sem vk H K fl V (b_add_exec ret c) state (cl - c) c p) as [[[ret1 state1] cost1]|] eqn:E; cbn [bind]; [|discriminate].
      intros Hn C R.
      pose proof (spend_sem_Coll vk H K fl V done _ _ _ _ _ _ _ _ E (Coll_add_exec _ _ c _ C)) as C1.
      pose proof (spend_sem_RColl vk H K fl V done _ _ _ _ _ _ _ _ E (RColl_add_exec _ _ c _ R)) as R1.
      destruct (IH _ _ _ _ _ _ _ Hn C1 R1) as (I1 & I2 & I3 & I4 & I5 & I6 & I7).
      destruct (spend_sem_totals vk H K fl V _ _ _ _ _ _ _ _ E) as (T1 & T2 & T3).
      rewrite !bcore_bret in T3.
      assert (Hg : spend_guard vk H K fl p (cl - c) (b_reserve_fee ret) (map fst (s_spent_coins state)) = true)
        by (apply (proj1 (spend_sem_guard vk H K fl V (b_add_exec ret c) state (cl - c) c p)); eexists; exact E).
      destruct (spend_sem_next _ _ _ _ _ _ _ _ _ _ _ _ _ E) as [_ [N2 _]]. cbn [b_add_exec b_reserve_fee] in N2.
      destruct (guard_after vk H K fl _ _ _ _ Hg) as [_ A2]. rewrite A2 in N2.
      destruct (spend_sem_summary vk H K fl V _ _ _ _ _ _ _ _ E) as (sp2 & _ & _ & _ & P).
      rewrite <- app_assoc in I1, I2. cbn [app] in I1, I2.
      split; [exact I1|]. split; [exact I2|].
      cbn [b_add_exec b_removal b_addition] in T1, T2.
      unfold tot_removal, tot_addition in *. cbn [map sumN fold_right].
      split; [unfold sumN in *; lia|]. split; [unfold sumN in *; lia|].
      split; [rewrite (tot_fee_cons p (parsed L)); lia|].
      split.
      + rewrite I6, T3. unfold all_known. cbn [flat_map]. rewrite fold_left_app. reflexivity.
      + rewrite I7, P. unfold pairs_of, all_pairs. destruct (f_dont_validate fl); [reflexivity|].
        cbn [flat_map]. rewrite rev_app_distr, app_assoc. reflexivity.
  Qed.

  Notation pid := (pid H).
  Notation LR := (LocalRules vk K fl H).

  (* what the interleaved loop + the deferred validation accept, declaratively *)
  Definition IRules (L : list ipair) (cost : N) : Prop :=
    NoDup (map pid (parsed L)) /\ costs L + total_cost fl (parsed L) <= cost /\ tot_fee (parsed L) < 2 ^ 64 /\
    Forall LR (parsed L) /\ BundleRules H (parsed L).

  Definition iaccept (L : list ipair) (cost : N) : Prop :=
    exists r s c', isem L empty_bundle empty_state cost = Ok (r, s, c') /\
                   validate_conditions H r (post_process H V (fast_rev (b_spends_rev r)) s) s = Ok tt.

  Lemma isem_deferred L cost r s c' :
    isem L empty_bundle empty_state cost = Ok (r, s, c') ->
    NoDup (map pid (parsed L)) ->
    (validate_conditions H r (post_process H V (fast_rev (b_spends_rev r)) s) s = Ok tt <-> BundleRules H (parsed L)).
  Proof.
    intros E Hnd.
    assert (R0 : RColl [] empty_bundle empty_state) by (repeat split).
    destruct (isem_inv L [] _ _ _ _ _ _ E (Coll_empty H) R0) as (C & R & T1 & T2 & T3 & T4 & _). cbn [app] in C, R.
    cbn [empty_bundle b_removal b_addition b_reserve_fee] in T1, T2, T3.
    unfold bret in T4. cbn [empty_bundle b_height_absolute b_seconds_absolute b_before_height_absolute b_before_seconds_absolute] in T4.
    rewrite fold_beffect in T4. cbn [h_ha h_sa h_bha h_bsa] in T4. injection T4 as A1 A2 A3 A4.
    destruct R as (_ & Rn & _).
    assert (Hsp : map sident (post_process H V (fast_rev (b_spends_rev r)) s) = map (pident H) (parsed L)).
    { rewrite sident_post_process, fast_rev_rev, map_rev. destruct C as [_ _ _ _ _ _ _ _ _ _ _ C11]. rewrite C11. apply rev_involutive. }
    rewrite (deferred_validation_iff H (parsed L) r s _ C Rn Hsp Hnd).
    split.
    - intros [Hv [Hh [Hs Hc]]]. constructor.
      + unfold tot_addition, tot_fee, tot_removal in *. lia.
      + rewrite A1, A3 in Hh. apply abs_rule_iff. exact Hh.
      + rewrite A2, A4 in Hs. apply abs_rule_iff. exact Hs.
      + exact Hc.
    - intros [Bv Bh Bs Bc].
      split; [unfold tot_addition, tot_fee, tot_removal in *; lia|].
      split; [rewrite A1, A3; apply abs_rule_iff; exact Bh|].
      split; [rewrite A2, A4; apply abs_rule_iff; exact Bs|exact Bc].
  Qed.

  Theorem iaccept_iff L cost : iaccept L cost <-> IRules L cost.
  Proof.
    assert (H64 : 0 < 2 ^ 64) by (apply N.neq_0_lt_0, N.pow_nonzero; lia).
    unfold iaccept, IRules. split.
    - intros (r & s & c' & E & Hv).
      assert (Hg : iguards vk H K fl L cost 0 [] = true)
        by (apply (proj1 (isem_guards vk H K fl L empty_bundle empty_state cost)); eexists; exact E).
      apply (iguards_rules vk H K fl L cost 0 [] H64) in Hg. destruct Hg as [[Hnd _] [Hc [Hf Hall]]].
      split; [exact Hnd|]. split; [exact Hc|]. split; [lia|]. split; [exact Hall|].
      apply (isem_deferred L cost r s c' E Hnd). exact Hv.
    - intros (Hnd & Hc & Hf & Hall & Hb).
      assert (Hg : iguards vk H K fl L cost 0 [] = true).
      { apply (iguards_rules vk H K fl L cost 0 [] H64). split; [split; [exact Hnd|intros p _ []]|]. split; [exact Hc|]. split; [lia|exact Hall]. }
      apply (proj2 (isem_guards vk H K fl L empty_bundle empty_state cost)) in Hg. destruct Hg as [[[r s] c'] E].
      exists r, s, c'. split; [exact E|]. apply (isem_deferred L cost r s c' E Hnd). exact Hb.
  Qed.
End IInv.



(* ---------- a reversal is a bundle permutation ---------- *)
Lemma bundle_perm_snoc a m : bundle_perm (a :: m) (m ++ [a]).
Proof.
  induction m as [|b m IH]; cbn [app]; [apply bundle_perm_refl|].
  eapply bp_trans; [apply bp_swap|]. constructor; [apply spend_perm_refl|exact IH].
Qed.

Lemma bundle_perm_rev l : bundle_perm l (rev l).
Proof.
  induction l as [|a l IH]; cbn [rev]; [constructor|].
  eapply bp_trans; [constructor; [apply spend_perm_refl|exact IH]|apply bundle_perm_snoc].
Qed.

Lemma sumN_rev l : sumN (rev l) = sumN l.
Proof. induction l as [|x l IH]; [reflexivity|]. cbn [rev]. rewrite sumN_app, IH. unfold sumN. cbn. lia. Qed.

Section Order.
  Variable vk : bytes -> bool.
  Variable H : bytes -> bytes.
  Variable K : consts.
  Variable run : sexp -> sexp -> N -> res (N * sexp).
  Variable fl : bflags.
  Notation cfl := (bf_cond fl).
  Notation V := VMempool.

  (* the oracle hypothesis needed to separate CLVM execution from the budget: a program either has a cost and a result
     and fails with CostExceeded exactly below that cost, or it fails whatever the budget *)
  Hypothesis Hrun : forall p s,
    (exists c r, forall b, run p s b = (if b <? c then Err CostExceeded else Ok (c, r))) \/
    (forall b, exists e, run p s b = Err e).

  Lemma costs_rev (L : list ipair) : costs (rev L) = costs L.
  Proof.
    unfold costs. rewrite map_rev. apply sumN_rev.
  Qed.
  Lemma parsed_rev (L : list ipair) : parsed (rev L) = rev (parsed L).
  Proof. unfold parsed. apply map_rev. Qed.

  Lemma IRules_Rules (L : list ipair) cost :
    (f_limit_spends cfl = true -> N.of_nat (length L) <= MAX_SPENDS_PER_BLOCK) ->
    (IRules vk H K cfl L cost <-> costs L <= cost /\ Rules vk H K cfl (parsed L) (cost - costs L)).
  Proof.
    intros Hl. assert (Hlen : length (parsed L) = length L) by apply map_length.
    unfold IRules, Rules. rewrite Hlen. split.
    - intros (A & B & C & D & E). split; [lia|]. split; [exact A|]. split; [exact Hl|]. split; [lia|]. split; [exact C|]. split; assumption.
    - intros (A & B & _ & C & D & E & F). split; [exact B|]. split; [lia|]. split; [exact D|]. split; assumption.
  Qed.

  Lemma IRules_rev (L : list ipair) cost :
    (f_limit_spends cfl = true -> N.of_nat (length L) <= MAX_SPENDS_PER_BLOCK) ->
    (IRules vk H K cfl (rev L) cost <-> IRules vk H K cfl L cost).
  Proof.
    intros Hl.
    rewrite (IRules_Rules L cost Hl), (IRules_Rules (rev L) cost) by (rewrite rev_length; exact Hl).
    rewrite costs_rev, parsed_rev.
    split; intros [A B]; (split; [exact A|]).
    - eapply rules_perm; [apply bundle_perm_sym, bundle_perm_rev|exact B].
    - eapply rules_perm; [apply bundle_perm_rev|exact B].
  Qed.

  (* ---------- the spend loop of run_spendbundle = the interleaved semantic loop on the oracle's outputs ---------- *)
  Definition spend_data (s : cspend) (d : ipair) : Prop :=
    exists p sol conds parent ph a buf l,
      node_from_bytes (cs_puzzle s) = Some p /\ node_from_bytes (cs_solution s) = Some sol /\
      (forall b, run p sol b = if b <? fst d then Err CostExceeded else Ok (fst d, conds)) /\
      cs_ph s = th H p /\
      sanitize_hash (Atom (cs_parent s)) 32 InvalidParentId = Ok parent /\
      sanitize_hash (Atom (th H p)) 32 InvalidPuzzleHash = Ok ph /\
      parse_amount (Atom (canon_n (cs_amount s))) InvalidCoinAmount = Ok a /\
      atom_of (Atom (canon_n (cs_amount s))) InvalidCoinAmount = Ok buf /\
      conds_syntax cfl conds = Ok l /\
      snd d = {| ps_parent := parent; ps_ph := ph; ps_amount := a; ps_amount_atom := buf; ps_conds := l |}.

  Lemma spend_data_fun s d d' : spend_data s d -> spend_data s d' -> d = d'.
  Proof.
    intros (p & sol & conds & parent & ph & a & buf & l & E1 & E2 & R & _ & S1 & S2 & S3 & S4 & S5 & Ed)
           (p' & sol' & conds' & parent' & ph' & a' & buf' & l' & E1' & E2' & R' & _ & S1' & S2' & S3' & S4' & S5' & Ed').
    assert (p' = p) by congruence. assert (sol' = sol) by congruence. subst p' sol'.
    pose proof (R (N.max (fst d) (fst d'))) as Q. rewrite (R' (N.max (fst d) (fst d'))) in Q.
    destruct (N.ltb_spec (N.max (fst d) (fst d')) (fst d')); [lia|].
    destruct (N.ltb_spec (N.max (fst d) (fst d')) (fst d)); [lia|].
    inversion Q as [[Ec Er]]. subst conds'.
    destruct d as [c x], d' as [c' x']. cbn [fst snd] in *. subst c'. f_equal. congruence.
  Qed.

  Lemma sb_isem L : forall ret state cost x,
    sb_loop vk H K run fl L ret state cost = Ok x <->
    exists LL, Forall2 spend_data L LL /\ isem vk H K cfl LL ret state cost = Ok x.
  Proof.
    induction L as [|s r IH]; intros ret state cost x; cbn [sb_loop].
    - split.
      + intros E. exists []. split; [constructor|exact E].
      + intros (LL & F & E). inversion F; subst. exact E.
    - unfold parse_node, bind. split.
      + destruct (node_from_bytes (cs_puzzle s)) as [p|] eqn:E1; [|discriminate].
        destruct (node_from_bytes (cs_solution s)) as [sol|] eqn:E2; [|discriminate].
        destruct (Hrun p sol) as [(c & conds & R)|R]; [|destruct (R cost) as [e ->]; discriminate].
        rewrite (R cost). destruct (N.ltb_spec cost c) as [Hlt|Hge]; [discriminate|].
        unfold subtract_cost. destruct (N.ltb_spec cost c); [lia|].
        destruct (bytes_eqb_spec (cs_ph s) (th H p)) as [Eh|]; cbn [negb]; [|discriminate].
        destruct (process_single_spend _ _ _ _ _ _ _ _ _ _ _ _ _) as [[[ret2 state2] cost2]|] eqn:Ep; [|discriminate].
        intros Hn. apply IH in Hn. destruct Hn as (LL & F & Ei).
        apply process_single_spend_split in Ep.
        destruct Ep as (parent & ph & a & buf & l & S1 & S2 & S3 & S4 & S5 & Es).
        exists ((c, {| ps_parent := parent; ps_ph := ph; ps_amount := a; ps_amount_atom := buf; ps_conds := l |}) :: LL).
        split.
        * constructor; [|exact F]. exists p, sol, conds, parent, ph, a, buf, l. cbn [fst snd]. repeat split; assumption.
        * cbn [isem]. destruct (N.ltb_spec cost c); [lia|]. rewrite Es. cbn [bind]. exact Ei.
      + intros (LL & F & Ei). inversion F as [|? d ? LL' Hd F']; subst.
        destruct Hd as (p & sol & conds & parent & ph & a & buf & l & E1 & E2 & R & Eh & S1 & S2 & S3 & S4 & S5 & Ed).
        destruct d as [c psp]. cbn [fst snd] in *. subst psp.
        cbn [isem] in Ei. destruct (N.ltb_spec cost c) as [|Hge]; [discriminate|].
        destruct (spend_sem _ _ _ _ _ _ _ _ _ _) as [[[ret2 state2] cost2]|] eqn:Es; cbn [bind] in Ei; [|discriminate].
        rewrite E1, E2, (R cost). destruct (N.ltb_spec cost c); [lia|].
        unfold subtract_cost. destruct (N.ltb_spec cost c); [lia|].
        rewrite Eh, bytes_eqb_refl. cbn [negb].
        assert (Ep : process_single_spend vk H K cfl V (b_add_exec ret c) state (Atom (cs_parent s)) (Atom (th H p))
                       (Atom (canon_n (cs_amount s))) conds (cost - c) c = Ok (ret2, state2, cost2)).
        { apply process_single_spend_split. exists parent, ph, a, buf, l. repeat split; assumption. }
        rewrite Ep. apply IH. exists LL'. split; [exact F'|exact Ei].
  Qed.
End Order.



Lemma genlen_sum' l : forall k,
  fold_left (fun size s => size + spend_len s) l k = k + fold_right (fun s acc => spend_len s + acc) 0 l.
Proof. induction l as [|x l IH]; intros k; cbn [fold_left fold_right]; [lia|]. rewrite IH. lia. Qed.
Lemma genlen_rev' l : calculate_generator_length (rev l) = calculate_generator_length l.
Proof.
  unfold calculate_generator_length.
  change (fun size s => size + (genlen_per_spend + nlen (cs_puzzle s) + clvm_bytes_len (cs_amount s) + nlen (cs_solution s)))
    with (fun size s => size + spend_len s).
  rewrite !genlen_sum'. f_equal. induction l as [|x l IH]; [reflexivity|].
  cbn [rev fold_right]. rewrite <- IH. clear IH. induction (rev l) as [|y m IHm]; cbn [app fold_right]; lia.
Qed.

Lemma Forall2_rev' {A B} (R : A -> B -> Prop) l l' : Forall2 R l l' -> Forall2 R (rev l) (rev l').
Proof. induction 1; cbn [rev]; [constructor|]. apply Forall2_app; [assumption|]. constructor; [assumption|constructor]. Qed.

Lemma Forall2_fun {A B} (R : A -> B -> Prop) :
  (forall a b b', R a b -> R a b' -> b = b') -> forall l m m', Forall2 R l m -> Forall2 R l m' -> m = m'.
Proof.
  intros Hf l. induction l as [|a l IH]; intros m m' F F'; inversion F; inversion F'; subst; [reflexivity|].
  f_equal; [eapply Hf; eassumption|now apply IH].
Qed.

Section Frame.
  Variable vk : bytes -> bool.
  Variable H : bytes -> bytes.
  Variable K : consts.
  Variable run : sexp -> sexp -> N -> res (N * sexp).
  Variable cpb : N.
  Variable fl : bflags.
  Notation cfl := (bf_cond fl).
  Notation V := VMempool.
  Hypothesis Hrun : forall p s,
    (exists c r, forall b, run p s b = (if b <? c then Err CostExceeded else Ok (c, r))) \/
    (forall b, exists e, run p s b = Err e).

  Notation sdata := (spend_data H run fl).
  Definition base_cost (L : list cspend) : N := (calculate_generator_length L - QUOTE_BYTES) * cpb.

  (* what an accepted run_spendbundle reports, as functions of the oracle outputs *)
  (* [base] = the base cost charged before the loop: (generator length - QUOTE_BYTES) * cpb, or the interned size * cpb *)
  Definition reported_core (base : N) (LL : list ipair) (r : bundle * list spend * list (bytes * bytes)) : Prop :=
    let b := fst (fst r) in let ps := parsed LL in
    b_cost b = base + (costs LL + total_cost cfl ps) /\
    b_removal b = tot_removal ps /\ b_addition b = tot_addition ps /\ b_reserve_fee b = tot_fee ps /\
    b_height_absolute b = fold_left N.max (flat_map c_ha (all_known ps)) 0 /\
    b_seconds_absolute b = fold_left N.max (flat_map c_sa (all_known ps)) 0 /\
    b_before_height_absolute b = fold_left omin (flat_map c_bha (all_known ps)) None /\
    b_before_seconds_absolute b = fold_left omin (flat_map c_bsa (all_known ps)) None /\
    snd r = pairs_of H K cfl ps.

  Theorem rsb_core_iff base L max_cost :
    (exists r, rsb_core vk H K run fl base L max_cost = Ok r) <->
    base <= max_cost /\
    (f_limit_spends cfl = true -> N.of_nat (length L) <= MAX_SPENDS_PER_BLOCK) /\
    exists LL, Forall2 sdata L LL /\ IRules vk H K cfl LL (max_cost - base).
  Proof.
    unfold rsb_core, bind, subtract_cost.
    split.
    - intros [r Hr].
      destruct (N.ltb_spec max_cost base) as [|Hb]; [discriminate|].
      destruct (f_limit_spends cfl) eqn:Efl; cbn [andb] in Hr.
      + destruct (N.ltb_spec MAX_SPENDS_PER_BLOCK (N.of_nat (length L))) as [|Hl]; [discriminate|].
        destruct (sb_loop _ _ _ _ _ _ _ _ _) as [[[ret st] cl]|] eqn:Es; [|discriminate].
        destruct (validate_conditions _ _ _ _) as [[]|] eqn:Ev; [|discriminate].
        apply (sb_isem vk H K run fl Hrun) in Es. destruct Es as (LL & F & Ei).
        split; [exact Hb|]. split; [intros _; exact Hl|]. exists LL. split; [exact F|].
        apply iaccept_iff. exists ret, st, cl. split; assumption.
      + destruct (sb_loop _ _ _ _ _ _ _ _ _) as [[[ret st] cl]|] eqn:Es; [|discriminate].
        destruct (validate_conditions _ _ _ _) as [[]|] eqn:Ev; [|discriminate].
        apply (sb_isem vk H K run fl Hrun) in Es. destruct Es as (LL & F & Ei).
        split; [exact Hb|]. split; [discriminate|]. exists LL. split; [exact F|].
        apply iaccept_iff. exists ret, st, cl. split; assumption.
    - intros (Hb & Hl & LL & F & R).
      apply iaccept_iff in R. destruct R as (ret & st & cl & Ei & Ev).
      assert (Es : sb_loop vk H K run fl L empty_bundle empty_state (max_cost - base) = Ok (ret, st, cl))
        by (apply (sb_isem vk H K run fl Hrun); exists LL; split; assumption).
      destruct (N.ltb_spec max_cost base); [lia|].
      assert (Hlim : (f_limit_spends cfl && (MAX_SPENDS_PER_BLOCK <? N.of_nat (length L))) = false).
      { destruct (f_limit_spends cfl); [|reflexivity]. cbn [andb]. specialize (Hl eq_refl). destruct (N.ltb_spec MAX_SPENDS_PER_BLOCK (N.of_nat (length L))); [lia|reflexivity]. }
      rewrite Hlim, Es, Ev.
      pose proof (isem_budget vk H K cfl LL _ _ _ _ _ _ Ei) as Hcl.
      destruct (N.ltb_spec max_cost cl); [lia|]. eexists; reflexivity.
  Qed.

  Theorem rsb_core_reported base L max_cost r :
    rsb_core vk H K run fl base L max_cost = Ok r ->
    exists LL, Forall2 sdata L LL /\ reported_core base LL r.
  Proof.
    intros Hr. pose proof Hr as Hr0.
    unfold rsb_core, bind, subtract_cost in Hr.
    destruct (N.ltb_spec max_cost base) as [|Hb]; [discriminate|].
    destruct (f_limit_spends cfl && _); [discriminate|].
    destruct (sb_loop _ _ _ _ _ _ _ _ _) as [[[ret st] cl]|] eqn:Es; [|discriminate].
    destruct (validate_conditions _ _ _ _) as [[]|] eqn:Ev; [|discriminate].
    destruct (N.ltb_spec max_cost cl); [discriminate|]. inversion Hr; subst r; clear Hr.
    apply (sb_isem vk H K run fl Hrun) in Es. destruct Es as (LL & F & Ei).
    exists LL. split; [exact F|].
    assert (Hacc : IRules vk H K cfl LL (max_cost - base)) by (apply iaccept_iff; exists ret, st, cl; split; assumption).
    destruct Hacc as (_ & Hc & _).
    pose proof (isem_budget vk H K cfl LL _ _ _ _ _ _ Ei) as Hcl.
    assert (R0 : RColl [] empty_bundle empty_state) by (repeat split).
    destruct (isem_inv vk H K cfl LL [] _ _ _ _ _ _ Ei (Coll_empty H) R0) as (_ & _ & T1 & T2 & T3 & T4 & T5).
    cbn [empty_bundle empty_state b_removal b_addition b_reserve_fee s_pkm_pairs_rev] in T1, T2, T3, T5.
    unfold bret in T4. cbn [empty_bundle b_height_absolute b_seconds_absolute b_before_height_absolute b_before_seconds_absolute] in T4.
    rewrite fold_beffect in T4. cbn [h_ha h_sa h_bha h_bsa] in T4. injection T4 as A1 A2 A3 A4.
    unfold reported_core. cbn [fst snd b_set_cost b_cost b_removal b_addition b_reserve_fee b_height_absolute b_seconds_absolute
                          b_before_height_absolute b_before_seconds_absolute].
    repeat split; try assumption; try lia.
    rewrite T5, app_nil_r, fast_rev_rev. apply rev_involutive.
  Qed.

  (* ---- the non-interned mempool path: base cost from the generator length ---- *)
  Definition reported (LL : list ipair) (L : list cspend) (r : bundle * list spend * list (bytes * bytes)) : Prop :=
    reported_core (base_cost L) LL r.

  Lemma rsb_eq L max_cost :
    bf_interned fl = false ->
    run_spendbundle vk H K run cpb fl L max_cost = rsb_core vk H K run fl (base_cost L) L max_cost.
  Proof. intros Hni. rewrite run_spendbundle_core. unfold calculate_base_cost. rewrite Hni. reflexivity. Qed.

  Theorem run_spendbundle_iff L max_cost :
    bf_interned fl = false ->
    ((exists r, run_spendbundle vk H K run cpb fl L max_cost = Ok r) <->
     base_cost L <= max_cost /\
     (f_limit_spends cfl = true -> N.of_nat (length L) <= MAX_SPENDS_PER_BLOCK) /\
     exists LL, Forall2 sdata L LL /\ IRules vk H K cfl LL (max_cost - base_cost L)).
  Proof. intros Hni. rewrite (rsb_eq L max_cost Hni). apply rsb_core_iff. Qed.

  Theorem run_spendbundle_reported L max_cost r :
    bf_interned fl = false ->
    run_spendbundle vk H K run cpb fl L max_cost = Ok r ->
    exists LL, Forall2 sdata L LL /\ reported LL L r.
  Proof. intros Hni. rewrite (rsb_eq L max_cost Hni). apply rsb_core_reported. Qed.
End Frame.



Lemma fold_max_perm l l' : Permutation l l' -> forall x, fold_left N.max l x = fold_left N.max l' x.
Proof.
  induction 1; intros x0; cbn [fold_left]; auto.
  - f_equal. lia.
  - now rewrite IHPermutation1, IHPermutation2.
Qed.
Lemma fold_omin_perm l l' : Permutation l l' -> forall o, fold_left omin l o = fold_left omin l' o.
Proof.
  induction 1; intros o; cbn [fold_left]; auto.
  - f_equal. destruct o; cbn [omin]; f_equal; lia.
  - now rewrite IHPermutation1, IHPermutation2.
Qed.

Lemma Forall2_len' {A B} (R : A -> B -> Prop) l m : Forall2 R l m -> length l = length m.
Proof. induction 1; cbn; congruence. Qed.

(* aggregates of two accepted results agree; the (key, message) pairs as a multiset *)
Definition agg_eq (r' r : bundle * list spend * list (bytes * bytes)) : Prop :=
  let b' := fst (fst r') in let b := fst (fst r) in
  b_cost b' = b_cost b /\ b_removal b' = b_removal b /\ b_addition b' = b_addition b /\ b_reserve_fee b' = b_reserve_fee b /\
  b_height_absolute b' = b_height_absolute b /\ b_seconds_absolute b' = b_seconds_absolute b /\
  b_before_height_absolute b' = b_before_height_absolute b /\ b_before_seconds_absolute b' = b_before_seconds_absolute b /\
  Permutation (snd r') (snd r).

Section OrderThm.
  Variable vk : bytes -> bool.
  Variable H : bytes -> bytes.
  Variable K : consts.
  Variable run : sexp -> sexp -> N -> res (N * sexp).
  Variable cpb : N.
  Variable fl : bflags.
  Notation cfl := (bf_cond fl).
  Hypothesis Hrun : forall p s,
    (exists c r, forall b, run p s b = (if b <? c then Err CostExceeded else Ok (c, r))) \/
    (forall b, exists e, run p s b = Err e).
  Notation RSB := (run_spendbundle vk H K run cpb fl).
  Notation CORE := (rsb_core vk H K run fl).

  Lemma base_cost_rev L : base_cost cpb (rev L) = base_cost cpb L.
  Proof. unfold base_cost. now rewrite genlen_rev'. Qed.

  (* with the SAME base cost charged, the order of the spends is immaterial *)
  Lemma core_rev_ok base L max_cost : (exists r, CORE base L max_cost = Ok r) -> exists r', CORE base (rev L) max_cost = Ok r'.
  Proof.
    intros Hr. apply (rsb_core_iff vk H K run fl Hrun) in Hr. destruct Hr as (Hb & Hl & LL & F & R).
    apply (rsb_core_iff vk H K run fl Hrun). rewrite rev_length.
    split; [exact Hb|]. split; [exact Hl|]. exists (rev LL). split; [now apply Forall2_rev'|].
    apply IRules_rev; [|exact R]. rewrite <- (Forall2_len' _ _ _ F). exact Hl.
  Qed.

  Theorem mempool_order_core base L max_cost :
    match CORE base (rev L) max_cost, CORE base L max_cost with
    | Ok r', Ok r => agg_eq r' r
    | Err _, Err _ => True
    | _, _ => False
    end.
  Proof.
    destruct (CORE base L max_cost) as [r|e] eqn:E; destruct (CORE base (rev L) max_cost) as [r'|e'] eqn:E'; try exact I.
    - destruct (rsb_core_reported vk H K run fl Hrun _ _ _ _ E) as (LL & F & Rp).
      destruct (rsb_core_reported vk H K run fl Hrun _ _ _ _ E') as (LL' & F' & Rp').
      assert (LL' = rev LL) by (eapply (Forall2_fun _ (spend_data_fun vk H run fl Hrun)); [exact F'|now apply Forall2_rev']). subst LL'.
      unfold reported_core in Rp, Rp'. rewrite parsed_rev, costs_rev in Rp'.
      destruct (totals_perm cfl _ _ (bundle_perm_rev (parsed LL))) as (T1 & T2 & T3 & T4 & T5).
      destruct Rp as (P1 & P2 & P3 & P4 & P5 & P6 & P7 & P8 & P9).
      destruct Rp' as (Q1 & Q2 & Q3 & Q4 & Q5 & Q6 & Q7 & Q8 & Q9).
      unfold agg_eq. rewrite Q1, Q2, Q3, Q4, Q5, Q6, Q7, Q8, Q9, P1, P2, P3, P4, P5, P6, P7, P8, P9, <- T1, <- T2, <- T3, <- T4.
      repeat split.
      + apply fold_max_perm, flat_map_perm, Permutation_sym, T5.
      + apply fold_max_perm, flat_map_perm, Permutation_sym, T5.
      + apply fold_omin_perm, flat_map_perm, Permutation_sym, T5.
      + apply fold_omin_perm, flat_map_perm, Permutation_sym, T5.
      + unfold pairs_of. destruct (f_dont_validate cfl); [constructor|]. unfold all_pairs. apply flat_map_perm, Permutation_sym, Permutation_rev.
    - destruct (core_rev_ok base L max_cost (ex_intro _ r E)) as [x Hx]. congruence.
    - assert (Hx : exists x, CORE base (rev (rev L)) max_cost = Ok x) by (apply core_rev_ok; eexists; exact E').
      rewrite rev_involutive in Hx. destruct Hx as [x Hx]. congruence.
  Qed.

  Hypothesis Hni : bf_interned fl = false.

  Theorem mempool_order L max_cost :
    match RSB (rev L) max_cost, RSB L max_cost with
    | Ok r', Ok r => agg_eq r' r
    | Err _, Err _ => True
    | _, _ => False
    end.
  Proof.
    rewrite (rsb_eq vk H K run cpb fl L max_cost Hni), (rsb_eq vk H K run cpb fl (rev L) max_cost Hni), base_cost_rev.
    apply mempool_order_core.
  Qed.
End OrderThm.



(* what C08 claims for the SAME bundle: the block path reports the mempool path's aggregates, the cost shifted by the
   wrapper overhead, and the same (key, message) pairs as a multiset *)
Definition agree_summary (o : N) (b m : bundle * list spend * list (bytes * bytes)) : Prop :=
  let bb := fst (fst b) in let bm := fst (fst m) in
  b_cost bb = b_cost bm + o /\ b_removal bb = b_removal bm /\ b_addition bb = b_addition bm /\
  b_reserve_fee bb = b_reserve_fee bm /\
  b_height_absolute bb = b_height_absolute bm /\ b_seconds_absolute bb = b_seconds_absolute bm /\
  b_before_height_absolute bb = b_before_height_absolute bm /\ b_before_seconds_absolute bb = b_before_seconds_absolute bm /\
  Permutation (snd b) (snd m).

Section AgreeSame.
  Variable valid_key : bytes -> bool.
  Variable H : bytes -> bytes.
  Variable K : consts.
  Variable run : sexp -> sexp -> N -> res (N * sexp).
  Variable sig_ok : list (bytes * bytes) -> bool.
  Variable cpb : N.
  Variable fl : bflags.
  Variable gen_args : sexp.
  Hypothesis Hquote : forall x args budget,
    run (Pair (Atom [x01]) x) args budget = if budget <? 20 then Err CostExceeded else Ok (20, x).
  Hypothesis Hrun : forall p s,
    (exists c r, forall b, run p s b = (if b <? c then Err CostExceeded else Ok (c, r))) \/
    (forall b, exists e, run p s b = Err e).
  (* aggregate_verify does not depend on the order of the (key, message) pairs *)
  Hypothesis Hsig : forall l l', Permutation l l' -> sig_ok l = sig_ok l'.

  Theorem agree_same spends g program max_cost :
    Forall (good_spend H) spends ->
    bf_interned fl = false ->
    N.of_nat (length spends) <= MAX_SPENDS_PER_BLOCK ->
    build_generator spends = Some g -> ser g = Some program ->
    match mempool_path valid_key H K run sig_ok cpb fl spends max_cost,
          run_block_generator2 valid_key H K run sig_ok cpb fl gen_args program (nlen program) (max_cost + overhead cpb) with
    | Ok m, Ok b => agree_summary (overhead cpb) b m
    | Err _, Err _ => True
    | _, _ => False
    end.
  Proof.
    intros Hall Hni Hlim Hg Hser.
    pose proof (agree_rev valid_key H K run sig_ok cpb fl gen_args Hquote spends g program max_cost Hall Hni Hlim Hg Hser) as A.
    pose proof (mempool_order valid_key H K run cpb fl Hrun Hni spends max_cost) as O.
    assert (Hcomb : forall b m' m, same_summary (overhead cpb) b m' -> agg_eq m' m -> agree_summary (overhead cpb) b m).
    { intros b m' m (S1 & S2 & _ & _ & S5) (G1 & G2 & G3 & G4 & G5 & G6 & G7 & G8 & G9).
      destruct (erase_b_fields _ _ S1) as (_ & F2 & F3 & F4 & _ & F6 & F7 & _ & F11 & F12).
      unfold agree_summary. rewrite S2, S5, F2, F3, F4, F6, F7, F11, F12, G1, G2, G3, G4, G5, G6, G7, G8.
      repeat split; auto. }
    unfold mempool_path, validate_clvm_and_signature, check_signature, bind in *.
    destruct (f_dont_validate (bf_cond fl)).
    - destruct (run_spendbundle valid_key H K run cpb fl (rev spends) max_cost) as [m'|];
      destruct (run_spendbundle valid_key H K run cpb fl spends max_cost) as [m|]; try contradiction;
      destruct (run_block_generator2 _ _ _ _ _ _ _ _ _ _ _) as [b|]; try contradiction; try exact I.
      now apply (Hcomb b m' m).
    - destruct (run_spendbundle valid_key H K run cpb fl (rev spends) max_cost) as [m'|];
      destruct (run_spendbundle valid_key H K run cpb fl spends max_cost) as [m|]; try contradiction.
      + assert (Es : sig_ok (snd m') = sig_ok (snd m)) by (apply Hsig; destruct O as (_ & _ & _ & _ & _ & _ & _ & _ & P); exact P).
        rewrite <- Es. destruct (sig_ok (snd m'));
          destruct (run_block_generator2 _ _ _ _ _ _ _ _ _ _ _) as [b|]; try contradiction; try exact I.
        now apply (Hcomb b m' m).
      + exact A.
  Qed.
End AgreeSame.



(* non-vacuity of the oracle hypotheses of agree_same: an evaluator that knows only `quote` *)
Definition quote_run (p s : sexp) (b : N) : res (N * sexp) :=
  match p with
  | Pair (Atom [x]) r =>
      if byte_eqb x x01 then (if b <? 20 then Err CostExceeded else Ok (20, r)) else Err GeneratorRuntimeError
  | _ => Err GeneratorRuntimeError
  end.

Lemma oracle_hyps_inhabited :
  (forall x args budget, quote_run (Pair (Atom [x01]) x) args budget = if budget <? 20 then Err CostExceeded else Ok (20, x)) /\
  (forall p s, (exists c r, forall b, quote_run p s b = (if b <? c then Err CostExceeded else Ok (c, r))) \/
               (forall b, exists e, quote_run p s b = Err e)) /\
  (forall l l' : list (bytes * bytes), Permutation l l' -> (fun _ => true) l = (fun _ => true) l').
Proof.
  split; [reflexivity|]. split; [|reflexivity].
  intros p s. unfold quote_run.
  destruct p as [a|[[|x [|y t]]|l1 l2] r]; try (right; intros b; eexists; reflexivity).
  destruct (byte_eqb x x01); [left; exists 20, r; reflexivity|right; intros b; eexists; reflexivity].
Qed.
