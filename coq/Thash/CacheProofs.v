(* Thash/CacheProofs.v — tree_hash_cached returns the reference hash from ANY cache state that
   visit_tree / tree_hash_cached calls can produce (on an allocator that may have grown in
   between), never panics, and terminates within an explicit fuel bound.

   Invariant [cache_ok]: every filled slot of `pairs` (value below SEEN_MULTIPLE) belongs to an
   existing pair and indexes the reference hash of that pair in `hashes`.  It does not mention the
   visit counters at all.  Termination of visit_tree: a node is pushed only when its counter goes
   from NOT_VISITED to SEEN_ONCE, which happens at most once per pair. *)
From ChiaV.Base Require Import Bytes.
From ChiaV.Clvm Require Import Sexp Ints TreeHash.
From ChiaV.Gen Require Import Precomputed.
From ChiaV.Thash Require Import Heap Mirror HeapProofs PrecomputedProofs TreeHashProofs.
Open Scope N_scope.

(* ---------- lists ---------- *)
Lemma set_nth_length {A} i (x : A) l : length (set_nth i x l) = length l.
Proof. revert i; induction l as [|y l IH]; intros [|i]; cbn; auto. Qed.

Lemma nth_error_set_nth_eq {A} i (x : A) l : (i < length l)%nat -> nth_error (set_nth i x l) i = Some x.
Proof.
  revert i; induction l as [|y l IH]; intros [|i] L; cbn in *; try lia; auto.
  apply IH. lia.
Qed.

Lemma nth_error_set_nth_neq {A} i j (x : A) l : i <> j -> nth_error (set_nth i x l) j = nth_error l j.
Proof.
  revert i j; induction l as [|y l IH]; intros [|i] [|j] N; cbn; auto; try congruence.
Qed.

Lemma nth_set_nth_eq {A} i (x d : A) l : (i < length l)%nat -> nth i (set_nth i x l) d = x.
Proof.
  revert i; induction l as [|y l IH]; intros [|i] L; cbn in *; try lia; auto.
  apply IH. lia.
Qed.

Lemma nth_set_nth_neq {A} i j (x d : A) l : i <> j -> nth j (set_nth i x l) d = nth j l d.
Proof.
  revert i j; induction l as [|y l IH]; intros [|i] [|j] N; cbn; auto; try congruence.
Qed.

Lemma nth_repeat_same {A} (a : A) n k : nth k (repeat a n) a = a.
Proof. revert k; induction n; intros [|k]; cbn; auto. Qed.

Lemma grow_pairs_length pairs idx : (idx < length (grow_pairs pairs idx))%nat.
Proof.
  unfold grow_pairs. destruct (Nat.leb_spec (length pairs) idx); [|lia].
  rewrite app_length, repeat_length. lia.
Qed.

Lemma grow_pairs_nth pairs idx j : nth j (grow_pairs pairs idx) NOT_VISITED = nth j pairs NOT_VISITED.
Proof.
  unfold grow_pairs. destruct (Nat.leb_spec (length pairs) idx); [|reflexivity].
  destruct (Nat.lt_ge_cases j (length pairs)).
  - now rewrite app_nth1.
  - rewrite app_nth2 by lia. rewrite nth_repeat_same. now rewrite nth_overflow.
Qed.

Lemma grow_pairs_nth_error pairs idx j v :
  nth_error (grow_pairs pairs idx) j = Some v -> nth_error pairs j = Some v \/ v = NOT_VISITED.
Proof.
  unfold grow_pairs. destruct (Nat.leb_spec (length pairs) idx); [|auto].
  destruct (Nat.lt_ge_cases j (length pairs)).
  - rewrite nth_error_app1 by lia. auto.
  - rewrite nth_error_app2 by lia. intros E. right.
    apply nth_error_In in E. now apply repeat_spec in E.
Qed.

Lemma filter_length_mono {A} (f g : A -> bool) l :
  (forall x, In x l -> g x = true -> f x = true) ->
  (length (filter g l) <= length (filter f l))%nat.
Proof.
  induction l as [|y l IH]; intros P; cbn; [lia|].
  assert (IH' := IH (fun x Hx => P x (or_intror Hx))).
  destruct (g y) eqn:G.
  - rewrite (P y (or_introl eq_refl) G). cbn. lia.
  - destruct (f y); cbn; lia.
Qed.

Lemma filter_length_strict {A} (f g : A -> bool) l y :
  In y l -> f y = true -> g y = false ->
  (forall x, In x l -> g x = true -> f x = true) ->
  (S (length (filter g l)) <= length (filter f l))%nat.
Proof.
  induction l as [|z l IH]; intros Hy Fy Gy P; [contradiction|].
  cbn. assert (P' := fun x Hx => P x (or_intror Hx)).
  destruct Hy as [->|Hy].
  - rewrite Fy, Gy. cbn. pose proof (filter_length_mono f g l P'). lia.
  - specialize (IH Hy Fy Gy P'). destruct (g z) eqn:G.
    + rewrite (P z (or_introl eq_refl) G). cbn. lia.
    + destruct (f z); cbn; lia.
Qed.

Lemma filter_length_bound {A} (f : A -> bool) l : (length (filter f l) <= length l)%nat.
Proof. induction l as [|y l IH]; cbn; [lia|]. destruct (f y); cbn; lia. Qed.

Section CacheProofs.
  Variable H : bytes -> bytes.
  Hypothesis T : table_ok H.

  Definition cache_ok (h : heap) (c : cache) : Prop :=
    forall idx slot, nth_error (c_pairs c) idx = Some slot -> slot < SEEN_MULTIPLE ->
      (idx < length (h_pairs h))%nat /\
      nth_error (c_hashes c) (N.to_nat slot) = Some (th H (den h (NPair idx))).

  Lemma cache_ok_empty h : cache_ok h empty_cache.
  Proof. intros idx slot E. destruct idx; discriminate. Qed.

  Lemma cache_ok_extends h h' c : wf h -> wf h' -> extends h h' -> cache_ok h c -> cache_ok h' c.
  Proof.
    intros W W' X Ok idx slot E L. destruct (Ok idx slot E L) as [V Hh]. split.
    - exact (extends_valid h h' (NPair idx) X V).
    - rewrite Hh. f_equal. f_equal. symmetry. apply den_extends; auto.
  Qed.

  Lemma cache_get_ok h c i : cache_ok h c ->
    match cache_get c (NPair i) with
    | GSome x => x = th H (den h (NPair i))
    | GPanic => False
    | GNone => True
    end.
  Proof.
    intros Ok. unfold cache_get. destruct (nth_error (c_pairs c) i) as [slot|] eqn:E; [|exact I].
    destruct (N.leb_spec SEEN_MULTIPLE slot) as [L|L]; [exact I|].
    destruct (Ok i slot E L) as [_ Hh]. rewrite Hh. reflexivity.
  Qed.

  Lemma cache_insert_ok h c i x : cache_ok h c -> (i < length (h_pairs h))%nat ->
    x = th H (den h (NPair i)) -> cache_ok h (cache_insert c (NPair i) x).
  Proof.
    intros Ok V ->. unfold cache_insert.
    destruct (N.eqb_spec (N.of_nat (length (c_hashes c))) SEEN_MULTIPLE) as [Full|NotFull]; [exact Ok|].
    intros idx slot E L. cbn [c_pairs c_hashes] in *.
    destruct (Nat.eq_dec i idx) as [<-|Ne].
    - rewrite nth_error_set_nth_eq in E by apply grow_pairs_length.
      inversion E; subst slot. split; [exact V|].
      rewrite Nat2N.id. rewrite nth_error_app2 by lia. now rewrite Nat.sub_diag.
    - rewrite nth_error_set_nth_neq in E by exact Ne.
      apply grow_pairs_nth_error in E. destruct E as [E| ->].
      + destruct (Ok idx slot E L) as [V' Hh]. split; [exact V'|].
        rewrite nth_error_app1; [exact Hh|]. apply nth_error_Some. congruence.
      + exfalso. unfold NOT_VISITED, SEEN_MULTIPLE in L. lia.
  Qed.

  Lemma cache_visit_ok h c n : cache_ok h c -> cache_ok h (fst (cache_visit c n)).
  Proof.
    intros Ok. destruct n as [i|i|v]; try exact Ok.
    cbn [cache_visit fst]. intros idx slot E L. cbn [c_pairs c_hashes] in *.
    destruct (Nat.eq_dec i idx) as [<-|Ne].
    - rewrite nth_error_set_nth_eq in E by apply grow_pairs_length.
      inversion E as [E']. clear E.
      set (v := nth i (grow_pairs (c_pairs c) i) NOT_VISITED) in *.
      destruct (N.ltb_spec SEEN_MULTIPLE v) as [Gt|Le].
      + exfalso. lia.
      + (* the entry is unchanged and filled: it was already there *)
        subst slot.
        assert (Ev : nth_error (grow_pairs (c_pairs c) i) i = Some v).
        { apply nth_error_nth'. apply grow_pairs_length. }
        apply grow_pairs_nth_error in Ev. destruct Ev as [Ev|Ev].
        * exact (Ok i v Ev L).
        * exfalso. unfold NOT_VISITED, SEEN_MULTIPLE in *. lia.
    - rewrite nth_error_set_nth_neq in E by exact Ne.
      apply grow_pairs_nth_error in E. destruct E as [E| ->].
      + exact (Ok idx slot E L).
      + exfalso. unfold NOT_VISITED, SEEN_MULTIPLE in L. lia.
  Qed.

  (* ---------- visit_tree: invariant ---------- *)
  Lemma vt_loop_sound h : wf h ->
    forall fuel nodes c, Forall (valid h) nodes -> cache_ok h c ->
      match vt_loop fuel h nodes c with
      | Ok c' => cache_ok h c'
      | Panic => False
      | OutOfFuel => True
      end.
  Proof.
    intros W. induction fuel as [|f IH]; intros nodes c V Ok.
    - destruct nodes; [exact Ok|exact I].
    - destruct nodes as [|n ns]; [exact Ok|].
      cbn [vt_loop]. inversion V as [|? ? Vn Vns]; subst.
      destruct (sexp_of h n) as [|l r|] eqn:S.
      + apply IH; assumption.
      + destruct (sexp_of_pair_inv _ _ _ _ S) as [i [-> E]].
        destruct (wf_children_valid _ _ _ _ W E) as [Vl Vr].
        pose proof (cache_visit_ok h c l Ok) as Ok1.
        destruct (cache_visit c l) as [c1 b1]. cbn [fst] in Ok1.
        pose proof (cache_visit_ok h c1 r Ok1) as Ok2.
        destruct (cache_visit c1 r) as [c2 b2]. cbn [fst] in Ok2.
        apply IH; [|exact Ok2].
        destruct b1, b2; repeat constructor; assumption.
      + exact (sexp_of_valid _ _ Vn S).
  Qed.

  Lemma visit_tree_sound h n c fuel : wf h -> valid h n -> cache_ok h c ->
    match visit_tree fuel h n c with
    | Ok c' => cache_ok h c'
    | Panic => False
    | OutOfFuel => True
    end.
  Proof.
    intros W V Ok. unfold visit_tree.
    pose proof (cache_visit_ok h c n Ok) as Ok1.
    destruct (cache_visit c n) as [c1 b]. cbn [fst] in Ok1.
    destruct b; [|exact Ok1].
    apply vt_loop_sound; auto.
  Qed.

  (* ---------- visit_tree: termination ---------- *)
  Definition nv (c : cache) (idx : nat) : N := nth idx (c_pairs c) NOT_VISITED.
  Definition unv (c : cache) (idx : nat) : bool := NOT_VISITED <=? nv c idx.
  Definition phi (h : heap) (c : cache) : nat :=
    length (filter (unv c) (seq 0 (length (h_pairs h)))).

  Lemma phi_bound h c : (phi h c <= length (h_pairs h))%nat.
  Proof. unfold phi. etransitivity; [apply filter_length_bound|]. now rewrite seq_length. Qed.

  Lemma nv_visit_other c i j : i <> j -> nv (fst (cache_visit c (NPair i))) j = nv c j.
  Proof.
    intros Ne. unfold nv. cbn [cache_visit fst c_pairs].
    rewrite nth_set_nth_neq by exact Ne. apply grow_pairs_nth.
  Qed.

  Lemma nv_visit_same c i :
    let v := nv c i in
    let v' := if SEEN_MULTIPLE <? v then v - 1 else v in
    nv (fst (cache_visit c (NPair i))) i = v' /\ snd (cache_visit c (NPair i)) = (v' =? SEEN_ONCE).
  Proof.
    cbn zeta. unfold nv. cbn [cache_visit fst snd c_pairs].
    rewrite nth_set_nth_eq by apply grow_pairs_length.
    rewrite grow_pairs_nth. split; reflexivity.
  Qed.

  Lemma visit_phi h c n : valid h n ->
    if snd (cache_visit c n) then (S (phi h (fst (cache_visit c n))) <= phi h c)%nat
    else (phi h (fst (cache_visit c n)) <= phi h c)%nat.
  Proof.
    intros V. destruct n as [i|i|v]; try (cbn; lia).
    destruct (nv_visit_same c i) as [Same B]. cbn zeta in *.
    set (c' := fst (cache_visit c (NPair i))) in *.
    assert (Other : forall x, x <> i -> unv c' x = unv c x).
    { intros x Nx. unfold unv, c'. rewrite nv_visit_other by congruence. reflexivity. }
    rewrite B. unfold phi.
    assert (Hin : In i (seq 0 (length (h_pairs h)))) by (apply in_seq; cbn in V; lia).
    destruct (N.eqb_spec (if SEEN_MULTIPLE <? nv c i then nv c i - 1 else nv c i) SEEN_ONCE) as [Eq|Neq].
    - apply (filter_length_strict (unv c) (unv c') _ i Hin).
      + unfold unv. destruct (N.ltb_spec SEEN_MULTIPLE (nv c i)) as [Gt|Le];
          unfold NOT_VISITED, SEEN_ONCE, SEEN_MULTIPLE in *; apply N.leb_le; lia.
      + unfold unv. rewrite Same, Eq. reflexivity.
      + intros x _ G. destruct (Nat.eq_dec x i) as [->|Nx].
        * unfold unv in G. rewrite Same, Eq in G. discriminate.
        * now rewrite <- Other.
    - apply filter_length_mono. intros x _ G. destruct (Nat.eq_dec x i) as [->|Nx].
      + unfold unv in *. rewrite Same in G. apply N.leb_le in G. apply N.leb_le.
        destruct (N.ltb_spec SEEN_MULTIPLE (nv c i)); lia.
      + now rewrite <- Other.
  Qed.

  Lemma vt_loop_fuel h : wf h ->
    forall fuel nodes c, Forall (valid h) nodes -> (length nodes + phi h c <= fuel)%nat ->
      vt_loop fuel h nodes c <> OutOfFuel.
  Proof.
    intros W. induction fuel as [|f IH]; intros nodes c V F.
    - destruct nodes; [discriminate|cbn in F; lia].
    - destruct nodes as [|n ns]; [discriminate|].
      cbn [vt_loop]. inversion V as [|? ? Vn Vns]; subst. cbn [length] in F.
      destruct (sexp_of h n) as [|l r|] eqn:S.
      + apply IH; [assumption|lia].
      + destruct (sexp_of_pair_inv _ _ _ _ S) as [i [-> E]].
        destruct (wf_children_valid _ _ _ _ W E) as [Vl Vr].
        pose proof (visit_phi h c l Vl) as P1.
        destruct (cache_visit c l) as [c1 b1]. cbn [fst snd] in P1.
        pose proof (visit_phi h c1 r Vr) as P2.
        destruct (cache_visit c1 r) as [c2 b2]. cbn [fst snd] in P2.
        apply IH.
        * destruct b1, b2; repeat constructor; assumption.
        * destruct b1, b2; cbn [length]; lia.
      + discriminate.
  Qed.

  Lemma visit_tree_fuel h n c fuel : wf h -> valid h n -> (length (h_pairs h) <= fuel)%nat ->
    visit_tree fuel h n c <> OutOfFuel.
  Proof.
    intros W V F. unfold visit_tree.
    pose proof (visit_phi h c n V) as P.
    destruct (cache_visit c n) as [c1 b]. cbn [fst snd] in P.
    destruct b; [|discriminate].
    apply vt_loop_fuel; [exact W|repeat constructor; exact V|].
    pose proof (phi_bound h c). cbn [length]. lia.
  Qed.

  (* ---------- the hashing loop ---------- *)
  Lemma thc_loop_sound h : wf h ->
    forall fuel ops hs c res, cache_ok h c -> runs_to H true h ops hs res ->
      match thc_loop H fuel h ops hs c with
      | Ok (x, c') => x = res /\ cache_ok h c'
      | Panic => False
      | OutOfFuel => True
      end.
  Proof.
    intros W. induction fuel as [|f IH]; intros ops hs c res Ok R.
    - destruct ops as [|op ops']; [|exact I].
      cbn in R. subst hs. cbn. auto.
    - destruct ops as [|op ops'].
      + cbn in R. subst hs. cbn. auto.
      + cbn [thc_loop]. destruct op as [n| |m].
        * destruct (node h n) eqn:N.
          -- destruct R as [V R]. rewrite (node_buffer_den _ _ _ N) in R. apply IH; assumption.
          -- destruct R as [V R]. rewrite (node_u32_den _ _ _ N) in R.
             rewrite <- (small_atom_hash_th H v T) in R. apply IH; assumption.
          -- destruct (node_pair_inv _ _ _ _ N) as [i [-> E]].
             pose proof (cache_get_ok h c i Ok) as G.
             destruct (cache_get c (NPair i)) as [|x|].
             ++ apply IH; [exact Ok|].
                apply (runs_to_expand H true h i l r); auto.
                destruct (should_memoize c (NPair i)); auto.
             ++ subst x. destruct R as [V R]. apply IH; assumption.
             ++ contradiction.
          -- destruct R as [V _]. exact (node_valid _ _ V N).
        * cbn [runs_to] in R. destruct hs as [|a [|b hs']]; try contradiction.
          apply IH; assumption.
        * cbn [runs_to] in R. destruct hs as [|a [|b hs']]; try contradiction.
          destruct R as [_ [[i [-> V]] [Eq R]]].
          apply IH; [|exact R]. apply cache_insert_ok; assumption.
  Qed.

  Lemma thc_loop_fuel h : wf h ->
    forall fuel ops hs c, (cost h ops <= fuel)%nat -> thc_loop H fuel h ops hs c <> OutOfFuel.
  Proof.
    intros W. induction fuel as [|f IH]; intros ops hs c C.
    - destruct ops as [|op ops'].
      + cbn. destruct hs as [|x [|y z]]; discriminate.
      + exfalso. destruct op; cbn [cost] in C; try lia.
        pose proof (steps_pos (den h n)). lia.
    - destruct ops as [|op ops'].
      + cbn. destruct hs as [|x [|y z]]; discriminate.
      + cbn [thc_loop]. destruct op as [n| |m].
        * destruct (node h n) eqn:N.
          -- apply IH. cbn [cost] in C. rewrite (node_buffer_den _ _ _ N) in C. cbn [steps] in C. lia.
          -- apply IH. cbn [cost] in C. rewrite (node_u32_den _ _ _ N) in C. cbn [steps] in C. lia.
          -- destruct (node_pair_inv _ _ _ _ N) as [i [-> E]].
             destruct (cache_get c (NPair i)).
             ++ apply IH.
                destruct (should_memoize c (NPair i)).
                ** pose proof (cost_expand h i l r (OConsAddCache (NPair i)) ops' W E I). lia.
                ** pose proof (cost_expand h i l r OCons ops' W E I). lia.
             ++ apply IH. cbn [cost] in C. pose proof (steps_pos (den h (NPair i))). lia.
             ++ discriminate.
          -- discriminate.
        * destruct hs as [|a [|b hs']]; try discriminate.
          apply IH. cbn [cost] in C. lia.
        * destruct hs as [|a [|b hs']]; try discriminate.
          apply IH. cbn [cost] in C. lia.
  Qed.

  (* ---------- tree_hash_cached ---------- *)
  Theorem tree_hash_cached_sound h n c fuel : wf h -> valid h n -> cache_ok h c ->
    match tree_hash_cached H fuel h n c with
    | Ok (x, c') => x = th H (den h n) /\ cache_ok h c'
    | Panic => False
    | OutOfFuel => True
    end.
  Proof.
    intros W V Ok. unfold tree_hash_cached.
    pose proof (visit_tree_sound h n c fuel W V Ok) as S1.
    destruct (visit_tree fuel h n c) as [c1| |]; [|contradiction|exact I].
    apply thc_loop_sound; [exact W|exact S1|]. cbn. auto.
  Qed.

  Theorem tree_hash_cached_correct h n c fuel : wf h -> valid h n -> cache_ok h c ->
    (length (h_pairs h) + 2 * node_count (den h n) <= fuel)%nat ->
    exists c', tree_hash_cached H fuel h n c = Ok (th H (den h n), c') /\ cache_ok h c'.
  Proof.
    intros W V Ok F.
    pose proof (tree_hash_cached_sound h n c fuel W V Ok) as S.
    assert (NF : tree_hash_cached H fuel h n c <> OutOfFuel).
    { unfold tree_hash_cached.
      pose proof (visit_tree_fuel h n c fuel W V ltac:(lia)) as F1.
      destruct (visit_tree fuel h n c) as [c1| |]; [|discriminate|congruence].
      apply thc_loop_fuel; [exact W|]. cbn [cost].
      pose proof (steps_node_count (den h n)). lia. }
    destruct (tree_hash_cached H fuel h n c) as [[x c']| |]; [|contradiction|congruence].
    destruct S as [-> Ok']. exists c'. auto.
  Qed.

  (* ---------- any history ---------- *)
  Inductive reachable : heap -> cache -> Prop :=
  | R_new h : wf h -> reachable h empty_cache
  | R_visit h c n fuel c' :
      reachable h c -> valid h n -> visit_tree fuel h n c = Ok c' -> reachable h c'
  | R_hash h c n fuel x c' :
      reachable h c -> valid h n -> tree_hash_cached H fuel h n c = Ok (x, c') -> reachable h c'
  | R_grow h h' c :
      reachable h c -> wf h' -> extends h h' -> reachable h' c.

  Lemma reachable_inv h c : reachable h c -> wf h /\ cache_ok h c.
  Proof.
    induction 1 as [h W|h c n fuel c' R [W Ok] V E|h c n fuel x c' R [W Ok] V E|h h' c R [W Ok] W' X].
    - split; [exact W|apply cache_ok_empty].
    - split; [exact W|].
      pose proof (visit_tree_sound h n c fuel W V Ok) as S. rewrite E in S. exact S.
    - split; [exact W|].
      pose proof (tree_hash_cached_sound h n c fuel W V Ok) as S. rewrite E in S. tauto.
    - split; [exact W'|]. exact (cache_ok_extends h h' c W W' X Ok).
  Qed.

  Theorem tree_hash_cached_any_history h c n fuel :
    reachable h c -> valid h n ->
    (length (h_pairs h) + 2 * node_count (den h n) <= fuel)%nat ->
    exists c', tree_hash_cached H fuel h n c = Ok (th H (den h n), c') /\ reachable h c'.
  Proof.
    intros R V F. destruct (reachable_inv h c R) as [W Ok].
    destruct (tree_hash_cached_correct h n c fuel W V Ok F) as [c' [E _]].
    exists c'. split; [exact E|]. eapply R_hash; eauto.
  Qed.

  (* with any fuel: never a panic, never a wrong hash *)
  Theorem tree_hash_cached_any_history_any_fuel h c n fuel :
    reachable h c -> valid h n ->
    match tree_hash_cached H fuel h n c with
    | Ok (x, _) => x = th H (den h n)
    | Panic => False
    | OutOfFuel => True
    end.
  Proof.
    intros R V. destruct (reachable_inv h c R) as [W Ok].
    pose proof (tree_hash_cached_sound h n c fuel W V Ok) as S.
    destruct (tree_hash_cached H fuel h n c) as [[x c']| |]; tauto.
  Qed.
End CacheProofs.

(* visit_tree on its own: total on valid input within |pairs| fuel, keeps the invariant *)
Theorem visit_tree_total (H : bytes -> bytes) h n c fuel :
  wf h -> valid h n -> cache_ok H h c -> (length (h_pairs h) <= fuel)%nat ->
  exists c', visit_tree fuel h n c = Ok c' /\ cache_ok H h c'.
Proof.
  intros W V Ok F.
  pose proof (visit_tree_sound H h n c fuel W V Ok) as S.
  pose proof (visit_tree_fuel h n c fuel W V F) as NF.
  destruct (visit_tree fuel h n c) as [c'| |]; [|contradiction|congruence].
  exists c'. auto.
Qed.
