(* Thash/Heap.v — model of clvmr's Allocator as far as the tree-hash routines see it
   (clvmr 0.17.7 allocator.rs).  Definitions only.

   A NodePtr is (object type, index).  Pairs live in `pair_vec` (a pair is created from
   two already existing nodes, so its children that are pairs have a smaller index), byte
   atoms in `atom_vec`/`u8_vec` (here: a list of byte strings), small atoms carry their
   value in the index.  Resource limits of the allocator (heap size, number of pairs/atoms)
   are not modelled. *)
From ChiaV.Base Require Import Bytes.
From ChiaV.Clvm Require Import Sexp Ints.
Open Scope N_scope.

Inductive nodeptr := NPair (i : nat) | NBytes (i : nat) | NSmall (v : N).

Record heap := mkHeap { h_pairs : list (nodeptr * nodeptr); h_atoms : list bytes }.

Definition empty_heap : heap := mkHeap [] [].

(* Allocator::node *)
Inductive visitor := VBuffer (b : bytes) | VU32 (v : N) | VPair (l r : nodeptr) | VInvalid.

Definition node (h : heap) (n : nodeptr) : visitor :=
  match n with
  | NBytes i => match nth_error (h_atoms h) i with Some b => VBuffer b | None => VInvalid end
  | NSmall v => VU32 v
  | NPair i => match nth_error (h_pairs h) i with Some (l, r) => VPair l r | None => VInvalid end
  end.

(* Allocator::sexp : atoms are not looked up *)
Inductive sexp_view := SAtom | SPairV (l r : nodeptr) | SInvalid.

Definition sexp_of (h : heap) (n : nodeptr) : sexp_view :=
  match n with
  | NPair i => match nth_error (h_pairs h) i with Some (l, r) => SPairV l r | None => SInvalid end
  | _ => SAtom
  end.

(* Allocator::atom on a small atom: len_for_value + to_be_bytes, i.e. the canonical
   non-negative integer encoding *)
Definition small_bytes (v : N) : bytes := canon_n v.

(* ---------- denotation ---------- *)
Fixpoint den_f (fuel : nat) (h : heap) (n : nodeptr) : sexp :=
  match n with
  | NSmall v => Atom (small_bytes v)
  | NBytes i => Atom (nth i (h_atoms h) [])
  | NPair i =>
      match fuel with
      | O => nil
      | S f =>
          match nth_error (h_pairs h) i with
          | Some (l, r) => Pair (den_f f h l) (den_f f h r)
          | None => nil
          end
      end
  end.

Definition den (h : heap) (n : nodeptr) : sexp := den_f (S (length (h_pairs h))) h n.

(* a node that may be referenced by pair number [k] (or, with k = number of pairs, by a caller) *)
Definition valid_below (h : heap) (k : nat) (n : nodeptr) : Prop :=
  match n with
  | NPair j => (j < k)%nat
  | NBytes j => (j < length (h_atoms h))%nat
  | NSmall _ => True
  end.

Definition valid (h : heap) (n : nodeptr) : Prop := valid_below h (length (h_pairs h)) n.

(* well-formed: every pair refers to earlier nodes *)
Definition wf (h : heap) : Prop :=
  forall i l r, nth_error (h_pairs h) i = Some (l, r) -> valid_below h i l /\ valid_below h i r.

(* the allocator only grows *)
Definition extends (h h' : heap) : Prop :=
  (exists p, h_pairs h' = h_pairs h ++ p) /\ (exists a, h_atoms h' = h_atoms h ++ a).

(* ---------- allocation ---------- *)
(* allocator.rs fits_in_small_atom *)
Definition fits_in_small_atom (v : bytes) : option N :=
  match v with
  | [] => Some 0
  | b0 :: tl =>
      if Nat.ltb 4 (length v)
         || (Nat.eqb (length v) 1 && (b2n b0 =? 0))
         || (128 <=? b2n b0)
         || ((b2n b0 =? 0) && match tl with b1 :: _ => b2n b1 <? 128 | [] => false end)
         || (Nat.eqb (length v) 4 && (3 <? b2n b0))
      then None
      else Some (be2n v)
  end.

Definition new_pair (h : heap) (l r : nodeptr) : heap * nodeptr :=
  (mkHeap (h_pairs h ++ [(l, r)]) (h_atoms h), NPair (length (h_pairs h))).

(* an atom stored in the byte heap whatever its content (result of new_substr on a byte
   atom, new_concat of several atoms) *)
Definition new_bytes_atom (h : heap) (v : bytes) : heap * nodeptr :=
  (mkHeap (h_pairs h) (h_atoms h ++ [v]), NBytes (length (h_atoms h))).

(* Allocator::new_atom *)
Definition new_atom (h : heap) (v : bytes) : heap * nodeptr :=
  match fits_in_small_atom v with
  | Some n => (h, NSmall n)
  | None => new_bytes_atom h v
  end.

Definition new_small_number (h : heap) (v : N) : heap * nodeptr := (h, NSmall v).
