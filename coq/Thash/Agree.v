(* Thash/Agree.v — the three routines side by side: whatever the sharing in memory, the history of
   the cache and the serialization, they return one and the same hash for one and the same tree. *)
From ChiaV.Base Require Import Bytes.
From ChiaV.Clvm Require Import Sexp Ints TreeHash.
From ChiaV.Thash Require Import Heap Mirror DeBr HeapProofs PrecomputedProofs TreeHashProofs CacheProofs DeBrProofs.

Theorem all_routines_agree (H : bytes -> bytes) (T : table_ok H)
  h1 n1 h2 n2 c bs t fuel :
  wf h1 -> valid h1 n1 -> den h1 n1 = t ->
  reachable H h2 c -> valid h2 n2 -> den h2 n2 = t ->
  deser_br bs = DOk t ->
  (length (h_pairs h2) + 4 * length bs + 4 + 2 * node_count t <= fuel)%nat ->
  tree_hash_stack H fuel h1 n1 = Ok (th H t) /\
  (exists c', tree_hash_cached H fuel h2 n2 c = Ok (th H t, c')) /\
  tree_hash_from_bytes H fuel bs = FOk (th H t).
Proof.
  intros W1 V1 D1 R2 V2 D2 E F. split; [|split].
  - rewrite <- D1. apply tree_hash_stack_correct; auto. rewrite D1. lia.
  - destruct (tree_hash_cached_any_history H T h2 c n2 fuel R2 V2) as [c' [Q _]].
    + rewrite D2. lia.
    + exists c'. now rewrite <- D2.
  - apply tree_hash_from_bytes_ok; auto. lia.
Qed.
