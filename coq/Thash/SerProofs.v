(* Thash/SerProofs.v — the plain serializer of Clvm/Sexp.v is inverted by its deserializer
   (any trailing bytes are left over), hence tree_hash_from_bytes of the plain serialization of a
   tree is the reference hash of that tree. *)
From Coq Require Import ZifyBool ZifyNat ZifyN.
From ChiaV.Base Require Import Bytes.
From ChiaV.Clvm Require Import Sexp Ints IntsProofs TreeHash.
From ChiaV.Thash Require Import Heap Mirror DeBr PrecomputedProofs DeBrProofs.
Open Scope N_scope.
Ltac Zify.zify_post_hook ::= Z.div_mod_to_equations.

Ltac split_ltb := match goal with |- context [?x <? ?y] => destruct (N.ltb_spec x y) end.

Lemma b2n_n2b_mod n : b2n (n2b n) = n mod 256.
Proof. rewrite <- n2b_mod. apply b2n_n2b. apply N.mod_lt. lia. Qed.

Lemma be2n_1 x : be2n [x] = b2n x.
Proof. unfold be2n. cbn [fold_left]. lia. Qed.
Lemma be2n_2 x y : be2n [x; y] = b2n x * 256 + b2n y.
Proof. unfold be2n. cbn [fold_left]. lia. Qed.
Lemma be2n_3 x y z : be2n [x; y; z] = (b2n x * 256 + b2n y) * 256 + b2n z.
Proof. unfold be2n. cbn [fold_left]. lia. Qed.
Lemma be2n_4 x y z w : be2n [x; y; z; w] = ((b2n x * 256 + b2n y) * 256 + b2n z) * 256 + b2n w.
Proof. unfold be2n. cbn [fold_left]. lia. Qed.

Lemma firstn_app_exact {A} (a b : list A) n : n = length a -> firstn n (a ++ b) = a.
Proof. intros ->. rewrite firstn_app, Nat.sub_diag, firstn_all. cbn. apply app_nil_r. Qed.
Lemma skipn_app_exact {A} (a b : list A) n : n = length a -> skipn n (a ++ b) = b.
Proof. intros ->. rewrite skipn_app, Nat.sub_diag, skipn_all. reflexivity. Qed.

(* reading back a length prefix: first byte B (>= 0x80), then [tl], then the payload *)
Lemma decode_size_prefix B tl (size : N) (a extra : bytes) :
  128 <= B < 254 ->
  length tl = pred (leading_ones B) ->
  (B mod 2 ^ (8 - N.of_nat (leading_ones B))) * 256 ^ N.of_nat (length tl) + be2n tl = size ->
  size < 0x400000000 -> size = nlen a ->
  parse_atom (n2b B) (tl ++ a ++ extra) = Some (a, extra).
Proof.
  intros RB Ltl Sz Lim Sa. unfold parse_atom.
  rewrite b2n_n2b by lia.
  destruct (N.ltb_spec B 128); [lia|].
  unfold decode_size.
  assert (K : (leading_ones B <= 6)%nat).
  { unfold leading_ones. repeat (split_ltb; [lia|]). lia. }
  destruct (Nat.leb_spec 7 (leading_ones B)); [lia|].
  rewrite <- Ltl.
  destruct (Nat.ltb_spec (length (tl ++ a ++ extra)) (length tl)) as [Bad|_];
    [rewrite app_length in Bad; lia|].
  rewrite firstn_app_exact by reflexivity. rewrite Sz.
  destruct (N.leb_spec 0x400000000 size); [lia|].
  rewrite skipn_app_exact by reflexivity.
  assert (La : N.to_nat size = length a) by (unfold nlen in Sa; lia).
  destruct (N.ltb_spec (N.of_nat (length (a ++ extra))) size) as [Bad|_];
    [rewrite app_length in Bad; lia|].
  destruct (Nat.ltb_spec (length (a ++ extra)) (N.to_nat size)) as [Bad|_];
    [rewrite app_length in Bad; lia|].
  rewrite firstn_app_exact, skipn_app_exact by exact La. reflexivity.
Qed.

Lemma leading_ones_val B :
  (128 <= B < 192 -> leading_ones B = 1%nat) /\ (192 <= B < 224 -> leading_ones B = 2%nat) /\
  (224 <= B < 240 -> leading_ones B = 3%nat) /\ (240 <= B < 248 -> leading_ones B = 4%nat) /\
  (248 <= B < 252 -> leading_ones B = 5%nat).
Proof.
  unfold leading_ones. repeat split; intros R; repeat (split_ltb; try lia).
Qed.

(* one atom: serialize, then the deserializer's atom cases give it back *)
Lemma ser_atom_read a bs extra : ser_atom a = Some bs ->
  exists b rest, bs ++ extra = b :: rest /\ b <> xff /\
    (if byte_eqb b x80 then a = [] /\ rest = extra
     else parse_atom b rest = Some (a, extra)).
Proof.
  unfold ser_atom, atom_prefix. intros E.
  set (size := nlen a) in *.
  destruct (N.eqb_spec size 0) as [Z|NZ].
  { inversion E; subst bs. exists x80, extra. split; [destruct a; [reflexivity|unfold size, nlen in Z; cbn in Z; lia]|].
    split; [discriminate|]. change (byte_eqb x80 x80) with true.
    destruct a; [auto|unfold size, nlen in Z; cbn in Z; lia]. }
  destruct a as [|a0 atl]; [unfold size, nlen in NZ; cbn in NZ; lia|].
  destruct ((size =? 1) && (b2n a0 <? 128)) eqn:Single.
  { inversion E; subst bs. apply andb_true_iff in Single. destruct Single as [S1 S2].
    apply N.eqb_eq in S1. apply N.ltb_lt in S2.
    destruct atl; [|unfold size, nlen in S1; cbn [length] in S1; lia].
    exists a0, extra. split; [reflexivity|].
    split; [intros ->; cbn in S2; lia|].
    destruct (byte_eqb_spec a0 x80) as [->|_]; [cbn in S2; lia|].
    unfold parse_atom. destruct (N.ltb_spec (b2n a0) 128); [reflexivity|lia]. }
  assert (GenericCase : forall B tl,
            bs = (n2b B :: tl) ++ a0 :: atl -> 128 < B < 254 ->
            length tl = pred (leading_ones B) ->
            (B mod 2 ^ (8 - N.of_nat (leading_ones B))) * 256 ^ N.of_nat (length tl) + be2n tl = size ->
            size < 0x400000000 ->
            exists b rest, bs ++ extra = b :: rest /\ b <> xff /\
              (if byte_eqb b x80 then a0 :: atl = [] /\ rest = extra
               else parse_atom b rest = Some (a0 :: atl, extra))).
  { intros B tl -> RB Ltl Sz Lim.
    exists (n2b B), (tl ++ (a0 :: atl) ++ extra). split; [cbn; now rewrite <- app_assoc|].
    assert (Hb : b2n (n2b B) = B) by (apply b2n_n2b; lia).
    split; [intros Q; rewrite Q in Hb; cbn in Hb; lia|].
    destruct (byte_eqb_spec (n2b B) x80) as [Q|_]; [rewrite Q in Hb; cbn in Hb; lia|].
    apply decode_size_prefix with (size := size); auto; lia. }
  destruct (leading_ones_val (128 + size)) as [L1 _].
  destruct (N.ltb_spec size 0x40) as [C1|C1].
  { inversion E; subst bs. apply (GenericCase (128 + size) []); try reflexivity; try lia.
    - rewrite L1 by lia. reflexivity.
    - rewrite L1 by lia. cbn [length pred]. change (be2n []) with 0.
      change (2 ^ (8 - N.of_nat 1)) with 128. change (256 ^ N.of_nat 0) with 1. lia. }
  destruct (N.ltb_spec size 0x2000) as [C2|C2].
  { inversion E; subst bs.
    destruct (leading_ones_val (192 + size / 256)) as [_ [L2 _]].
    apply (GenericCase (192 + size / 256) [n2b size]); try reflexivity; try lia.
    - rewrite L2 by lia. reflexivity.
    - rewrite L2 by lia. cbn [length pred]. rewrite be2n_1, b2n_n2b_mod.
      change (2 ^ (8 - N.of_nat 2)) with 64. change (256 ^ N.of_nat 1) with 256. lia. }
  destruct (N.ltb_spec size 0x100000) as [C3|C3].
  { inversion E; subst bs.
    destruct (leading_ones_val (224 + size / 65536)) as [_ [_ [L3 _]]].
    apply (GenericCase (224 + size / 65536) [n2b (size / 256); n2b size]); try reflexivity; try lia.
    - rewrite L3 by lia. reflexivity.
    - rewrite L3 by lia. cbn [length pred]. rewrite be2n_2, !b2n_n2b_mod.
      change (2 ^ (8 - N.of_nat 3)) with 32. change (256 ^ N.of_nat 2) with 65536. lia. }
  destruct (N.ltb_spec size 0x8000000) as [C4|C4].
  { inversion E; subst bs.
    destruct (leading_ones_val (240 + size / 16777216)) as [_ [_ [_ [L4 _]]]].
    apply (GenericCase (240 + size / 16777216) [n2b (size / 65536); n2b (size / 256); n2b size]);
      try reflexivity; try lia.
    - rewrite L4 by lia. reflexivity.
    - rewrite L4 by lia. cbn [length pred]. rewrite be2n_3, !b2n_n2b_mod.
      change (2 ^ (8 - N.of_nat 4)) with 16. change (256 ^ N.of_nat 3) with 16777216. lia. }
  destruct (N.ltb_spec size 0x400000000) as [C5|C5]; [|discriminate].
  inversion E; subst bs.
  destruct (leading_ones_val (248 + size / 4294967296)) as [_ [_ [_ [_ L5]]]].
  apply (GenericCase (248 + size / 4294967296)
           [n2b (size / 16777216); n2b (size / 65536); n2b (size / 256); n2b size]);
    try reflexivity; try lia.
  - rewrite L5 by lia. reflexivity.
  - rewrite L5 by lia. cbn [length pred]. rewrite be2n_4, !b2n_n2b_mod.
    change (2 ^ (8 - N.of_nat 5)) with 8. change (256 ^ N.of_nat 4) with 4294967296. lia.
Qed.

Fixpoint depth (t : sexp) : nat :=
  match t with Atom _ => O | Pair l r => S (Nat.max (depth l) (depth r)) end.

Lemma deser_ser_fuel : forall t bs extra f, ser t = Some bs -> (depth t < f)%nat ->
  deser_fuel f (bs ++ extra) = Some (t, extra).
Proof.
  induction t as [a|l IHl r IHr]; intros bs extra f E D.
  - destruct f as [|f]; [lia|]. cbn [ser] in E.
    destruct (ser_atom_read a bs extra E) as [b [rest [Eq [Nff R]]]].
    rewrite Eq. cbn [deser_fuel].
    destruct (byte_eqb_spec b xff) as [->|_]; [congruence|].
    destruct (byte_eqb b x80).
    + destruct R as [-> ->]. reflexivity.
    + rewrite R. reflexivity.
  - destruct f as [|f]; [lia|]. cbn [ser] in E.
    destruct (ser l) as [x|] eqn:El; [|discriminate].
    destruct (ser r) as [y|] eqn:Er; [|discriminate].
    inversion E; subst bs. cbn [depth] in D.
    cbn [app deser_fuel]. change (byte_eqb xff xff) with true. cbv iota.
    rewrite <- app_assoc.
    rewrite (IHl x (y ++ extra) f eq_refl) by lia.
    rewrite (IHr y extra f eq_refl) by lia. reflexivity.
Qed.

Lemma ser_length t bs : ser t = Some bs -> (node_count t <= length bs)%nat.
Proof.
  revert bs; induction t as [a|l IHl r IHr]; intros bs E; cbn [ser node_count] in *.
  - unfold ser_atom in E. destruct (atom_prefix _ _) as [p|] eqn:P; [|discriminate].
    inversion E; subst bs. rewrite app_length.
    destruct a as [|a0 atl]; [|cbn [length]; lia].
    unfold atom_prefix in P. change (nlen [] =? 0) with true in P. cbv iota in P.
    inversion P. cbn. lia.
  - destruct (ser l) as [x|] eqn:El; [|discriminate].
    destruct (ser r) as [y|] eqn:Er; [|discriminate].
    inversion E; subst bs. cbn [length]. rewrite app_length.
    specialize (IHl x eq_refl). specialize (IHr y eq_refl). lia.
Qed.

Lemma depth_lt_node_count t : (depth t < node_count t)%nat.
Proof. induction t; cbn [depth node_count]; lia. Qed.

Theorem deser_ser t bs extra : ser t = Some bs -> deser (bs ++ extra) = Some (t, extra).
Proof.
  intros E. unfold deser. apply deser_ser_fuel; [exact E|].
  pose proof (ser_length t bs E). pose proof (depth_lt_node_count t).
  rewrite app_length. lia.
Qed.

Theorem tree_hash_from_bytes_of_ser (H : bytes -> bytes) (T : table_ok H) t bs extra fuel :
  ser t = Some bs ->
  (6 * length (bs ++ extra) + 4 <= fuel)%nat ->
  tree_hash_from_bytes H fuel (bs ++ extra) = FOk (th H t).
Proof.
  intros E F.
  apply (tree_hash_from_bytes_plain H T (bs ++ extra) t extra fuel (deser_ser t bs extra E)).
  pose proof (ser_length t bs E). rewrite app_length in *. lia.
Qed.
