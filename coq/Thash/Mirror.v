(* Thash/Mirror.v — mirrors of clvm-utils/src/tree_hash.rs: tree_hash (explicit op/hash stacks),
   TreeCache (get / insert / visit / should_memoize / visit_tree) and tree_hash_cached.
   The table PRECOMPUTED_HASHES, the visit sentinels and the two prefix bytes are the ones the
   translator read from the source on this run (Gen/Precomputed.v).  Definitions only.

   Rust `while let Some(op) = ops.pop()` loops are fuel-indexed; one unit of fuel per popped op.
   Reachable panics (unwrap on an empty hash stack, the final assert_eq!, unreachable!(), vector
   indexing) are the outcome [Panic]. *)
From ChiaV.Base Require Import Bytes.
From ChiaV.Clvm Require Import Sexp Ints.
From ChiaV.Gen Require Import Precomputed.
From ChiaV.Thash Require Import Heap.
Open Scope N_scope.

Inductive outcome (A : Type) := Ok (a : A) | Panic | OutOfFuel.
Arguments Ok {A} a.
Arguments Panic {A}.
Arguments OutOfFuel {A}.

Inductive treeop := OSExp (n : nodeptr) | OCons | OConsAddCache (n : nodeptr).

Fixpoint set_nth {A} (i : nat) (x : A) (l : list A) : list A :=
  match l, i with
  | [], _ => []
  | _ :: r, O => x :: r
  | y :: r, S j => y :: set_nth j x r
  end.

Section Mirror.
  Variable H : bytes -> bytes.

  Definition tree_hash_atom (b : bytes) : bytes := H (atom_prefix_byte :: b).
  Definition tree_hash_pair (first rest : bytes) : bytes := H (pair_prefix_byte :: first ++ rest).

  (* the NodeVisitor::U32 arm shared by both routines *)
  Definition small_atom_hash (v : N) : bytes :=
    if v <? N.of_nat (length precomputed_hashes)
    then nth (N.to_nat v) precomputed_hashes []
    else tree_hash_atom (small_bytes v).

  (* ---------------- tree_hash ---------------- *)
  Fixpoint th_loop (fuel : nat) (h : heap) (ops : list treeop) (hashes : list bytes) : outcome bytes :=
    match ops with
    | [] => match hashes with [x] => Ok x | _ => Panic end        (* assert_eq!(hashes.len(), 1) *)
    | op :: ops' =>
        match fuel with
        | O => OutOfFuel
        | S f =>
            match op with
            | OSExp n =>
                match node h n with
                | VBuffer b => th_loop f h ops' (tree_hash_atom b :: hashes)
                | VU32 v => th_loop f h ops' (small_atom_hash v :: hashes)
                | VPair l r => th_loop f h (OSExp r :: OSExp l :: OCons :: ops') hashes
                | VInvalid => Panic
                end
            | OCons =>
                match hashes with
                | first :: rest :: hs => th_loop f h ops' (tree_hash_pair first rest :: hs)
                | _ => Panic
                end
            | OConsAddCache _ => Panic                              (* unreachable!() *)
            end
        end
    end.

  Definition tree_hash_stack (fuel : nat) (h : heap) (n : nodeptr) : outcome bytes :=
    th_loop fuel h [OSExp n] [].

  (* ---------------- TreeCache ---------------- *)
  Record cache := mkCache { c_hashes : list bytes; c_pairs : list N }.
  Definition empty_cache : cache := mkCache [] [].

  Inductive get_result := GNone | GSome (hash : bytes) | GPanic.

  Definition cache_get (c : cache) (n : nodeptr) : get_result :=
    match n with
    | NPair idx =>
        match nth_error (c_pairs c) idx with
        | None => GNone
        | Some slot =>
            if SEEN_MULTIPLE <=? slot then GNone
            else match nth_error (c_hashes c) (N.to_nat slot) with
                 | Some hsh => GSome hsh
                 | None => GPanic                                   (* self.hashes[slot] out of range *)
                 end
        end
    | _ => GNone
    end.

  (* pairs.resize(idx + 1, NOT_VISITED) when idx >= pairs.len() *)
  Definition grow_pairs (pairs : list N) (idx : nat) : list N :=
    if Nat.leb (length pairs) idx then pairs ++ repeat NOT_VISITED (S idx - length pairs) else pairs.

  Definition cache_insert (c : cache) (n : nodeptr) (hash : bytes) : cache :=
    if N.of_nat (length (c_hashes c)) =? SEEN_MULTIPLE then c
    else match n with
         | NPair idx =>
             let pairs := grow_pairs (c_pairs c) idx in
             mkCache (c_hashes c ++ [hash]) (set_nth idx (N.of_nat (length (c_hashes c))) pairs)
         | _ => c
         end.

  Definition cache_visit (c : cache) (n : nodeptr) : cache * bool :=
    match n with
    | NPair idx =>
        let pairs := grow_pairs (c_pairs c) idx in
        let v := nth idx pairs NOT_VISITED in
        let v' := if SEEN_MULTIPLE <? v then v - 1 else v in
        (mkCache (c_hashes c) (set_nth idx v' pairs), v' =? SEEN_ONCE)
    | _ => (c, false)
    end.

  Definition should_memoize (c : cache) (n : nodeptr) : bool :=
    match n with
    | NPair idx =>
        match nth_error (c_pairs c) idx with
        | None => false
        | Some v => v <=? SEEN_MULTIPLE
        end
    | _ => false
    end.

  Fixpoint vt_loop (fuel : nat) (h : heap) (nodes : list nodeptr) (c : cache) : outcome cache :=
    match nodes with
    | [] => Ok c
    | n :: ns =>
        match fuel with
        | O => OutOfFuel
        | S f =>
            match sexp_of h n with
            | SAtom => vt_loop f h ns c
            | SInvalid => Panic
            | SPairV lft rgt =>
                let '(c1, b1) := cache_visit c lft in
                let ns1 := if b1 then lft :: ns else ns in
                let '(c2, b2) := cache_visit c1 rgt in
                let ns2 := if b2 then rgt :: ns1 else ns1 in
                vt_loop f h ns2 c2
            end
        end
    end.

  Definition visit_tree (fuel : nat) (h : heap) (n : nodeptr) (c : cache) : outcome cache :=
    let '(c1, b) := cache_visit c n in
    if b then vt_loop fuel h [n] c1 else Ok c1.

  (* ---------------- tree_hash_cached ---------------- *)
  Fixpoint thc_loop (fuel : nat) (h : heap) (ops : list treeop) (hashes : list bytes) (c : cache)
    : outcome (bytes * cache) :=
    match ops with
    | [] => match hashes with [x] => Ok (x, c) | _ => Panic end
    | op :: ops' =>
        match fuel with
        | O => OutOfFuel
        | S f =>
            match op with
            | OSExp n =>
                match node h n with
                | VBuffer b => thc_loop f h ops' (tree_hash_atom b :: hashes) c
                | VU32 v => thc_loop f h ops' (small_atom_hash v :: hashes) c
                | VPair l r =>
                    match cache_get c n with
                    | GSome hsh => thc_loop f h ops' (hsh :: hashes) c
                    | GPanic => Panic
                    | GNone =>
                        let top := if should_memoize c n then OConsAddCache n else OCons in
                        thc_loop f h (OSExp r :: OSExp l :: top :: ops') hashes c
                    end
                | VInvalid => Panic
                end
            | OCons =>
                match hashes with
                | first :: rest :: hs => thc_loop f h ops' (tree_hash_pair first rest :: hs) c
                | _ => Panic
                end
            | OConsAddCache original_node =>
                match hashes with
                | first :: rest :: hs =>
                    let hsh := tree_hash_pair first rest in
                    thc_loop f h ops' (hsh :: hs) (cache_insert c original_node hsh)
                | _ => Panic
                end
            end
        end
    end.

  Definition tree_hash_cached (fuel : nat) (h : heap) (n : nodeptr) (c : cache) : outcome (bytes * cache) :=
    match visit_tree fuel h n c with
    | Ok c1 => thc_loop fuel h [OSExp n] [] c1
    | Panic => Panic
    | OutOfFuel => OutOfFuel
    end.
End Mirror.
