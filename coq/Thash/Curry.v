(* Thash/Curry.v — mirror of clvm-utils/src/curry_tree_hash.rs, the curried program tree that
   CurriedProgram::to_clvm / clvm_curried_args! build (curried_program.rs), and the tree that
   fast_forward.rs' curry_and_treehash is meant to hash.  The operator atoms are the ones the
   translator read from curry_tree_hash.rs; curry_single_arg / curry_and_treehash themselves are
   generated (Gen/CurryFF.v).  Definitions only. *)
From ChiaV.Base Require Import Bytes.
From ChiaV.Clvm Require Import Sexp.
From ChiaV.Gen Require Import Precomputed CurryFF.
From ChiaV.Thash Require Import Heap Mirror.

Section Curry.
  Variable H : bytes -> bytes.

  (* one iteration of `for &arg_hash in arg_hashes.iter().rev()` *)
  Definition curry_step (quoted_args arg_hash : bytes) : bytes :=
    let nil := tree_hash_atom H [] in
    let op_q := tree_hash_atom H curry_op_q in
    let op_c := tree_hash_atom H curry_op_c in
    let quoted_arg := tree_hash_pair H op_q arg_hash in
    let terminated_args := tree_hash_pair H quoted_args nil in
    let terminated_args := tree_hash_pair H quoted_arg terminated_args in
    tree_hash_pair H op_c terminated_args.

  Definition curry_tree_hash (program_hash : bytes) (arg_hashes : list bytes) : bytes :=
    let nil := tree_hash_atom H [] in
    let op_q := tree_hash_atom H curry_op_q in
    let op_a := tree_hash_atom H curry_op_a in
    let quoted_program := tree_hash_pair H op_q program_hash in
    let quoted_args := fold_left curry_step (rev arg_hashes) (tree_hash_atom H curry_args_init) in
    let terminated_args := tree_hash_pair H quoted_args nil in
    let program_and_args := tree_hash_pair H quoted_program terminated_args in
    tree_hash_pair H op_a program_and_args.

  (* fast_forward.rs, instantiated with the same tree_hash_atom / tree_hash_pair *)
  Definition ff_curry_and_treehash (inner_puzzle_hash mod_hash launcher_id launcher_puzzle_hash : bytes) : bytes :=
    curry_and_treehash (tree_hash_atom H) (tree_hash_pair H)
                       inner_puzzle_hash mod_hash launcher_id launcher_puzzle_hash.
End Curry.

(* ---- the actual curried program: (a (q . P) (c (q . A1) (c (q . A2) ... 1))) ---- *)
Definition quote_ (t : sexp) : sexp := Pair (Atom [x01]) t.

Fixpoint curried_args (args : list sexp) : sexp :=
  match args with
  | [] => Atom [x01]
  | a :: r => Pair (Atom [x04]) (Pair (quote_ a) (Pair (curried_args r) nil))
  end.

Definition curried_program (p : sexp) (args : list sexp) : sexp :=
  Pair (Atom [x02]) (Pair (quote_ p) (Pair (curried_args args) nil)).

(* SingletonStruct is #[clvm(list)] with #[clvm(rest)] on the last field *)
Definition singleton_struct_tree (mod_hash launcher_id launcher_puzzle_hash : bytes) : sexp :=
  Pair (Atom mod_hash) (Pair (Atom launcher_id) (Atom launcher_puzzle_hash)).

(* SingletonArgs { singleton_struct, inner_puzzle } curried into the singleton top layer *)
Definition singleton_puzzle (mod_tree inner : sexp) (mod_hash launcher_id launcher_puzzle_hash : bytes) : sexp :=
  curried_program mod_tree [singleton_struct_tree mod_hash launcher_id launcher_puzzle_hash; inner].
