(* Thash/TreeHashProofs.v — the explicit-stack routine tree_hash computes the reference hash of the
   denotation of the node, for every well-formed heap (any sharing), given enough fuel.
   Method: a symbolic-execution invariant.  [runs_to ac h ops hs res] says that executing the op
   stack [ops] over the hash stack [hs], with every SExp(n) producing th (den n), ends with exactly
   [res] on the hash stack (and, for ConsAddCache(m), that the hash computed there is th (den m)).
   Every step of the real machine preserves it. *)
From ChiaV.Base Require Import Bytes.
From ChiaV.Clvm Require Import Sexp Ints TreeHash.
From ChiaV.Gen Require Import Precomputed.
From ChiaV.Thash Require Import Heap Mirror HeapProofs PrecomputedProofs.
Open Scope N_scope.

(* number of ops popped for a tree: one SExp per node, one Cons per pair *)
Fixpoint steps (t : sexp) : nat :=
  match t with Atom _ => 1%nat | Pair l r => (2 + steps l + steps r)%nat end.

Lemma steps_node_count t : (2 * steps t + 1 = 3 * node_count t)%nat.
Proof. induction t; cbn [steps node_count]; lia. Qed.

Lemma steps_pos t : (1 <= steps t)%nat.
Proof. destruct t; cbn; lia. Qed.

Section TreeHashProofs.
  Variable H : bytes -> bytes.
  Hypothesis T : table_ok H.

  Fixpoint runs_to (ac : bool) (h : heap) (ops : list treeop) (hs : list bytes) (res : bytes) : Prop :=
    match ops with
    | [] => hs = [res]
    | OSExp n :: ops' => valid h n /\ runs_to ac h ops' (th H (den h n) :: hs) res
    | OCons :: ops' =>
        match hs with
        | a :: b :: hs' => runs_to ac h ops' (tree_hash_pair H a b :: hs') res
        | _ => False
        end
    | OConsAddCache m :: ops' =>
        match hs with
        | a :: b :: hs' =>
            ac = true /\ (exists i, m = NPair i /\ (i < length (h_pairs h))%nat) /\
            tree_hash_pair H a b = th H (den h m) /\
            runs_to ac h ops' (tree_hash_pair H a b :: hs') res
        | _ => False
        end
    end.

  Fixpoint cost (h : heap) (ops : list treeop) : nat :=
    match ops with
    | [] => O
    | OSExp n :: r => (steps (den h n) + cost h r)%nat
    | _ :: r => S (cost h r)
    end.

  (* expanding a pair keeps the invariant *)
  Lemma runs_to_expand ac h i l r top ops hs res :
    wf h -> nth_error (h_pairs h) i = Some (l, r) ->
    (top = OCons \/ (ac = true /\ top = OConsAddCache (NPair i))) ->
    runs_to ac h (OSExp (NPair i) :: ops) hs res ->
    runs_to ac h (OSExp r :: OSExp l :: top :: ops) hs res.
  Proof.
    intros W E Top [V R].
    destruct (wf_children_valid _ _ _ _ W E) as [Vl Vr].
    rewrite (den_pair _ _ _ _ W E) in R.
    cbn [runs_to]. split; [exact Vr|]. split; [exact Vl|].
    destruct Top as [->|[A ->]].
    - exact R.
    - split; [exact A|]. split; [exists i; split; [reflexivity|exact V]|].
      split; [|exact R]. rewrite (den_pair _ _ _ _ W E). reflexivity.
  Qed.

  Lemma cost_expand h i l r top ops :
    wf h -> nth_error (h_pairs h) i = Some (l, r) ->
    (match top with OSExp _ => False | _ => True end) ->
    S (cost h (OSExp r :: OSExp l :: top :: ops)) = cost h (OSExp (NPair i) :: ops).
  Proof.
    intros W E Top. cbn [cost]. rewrite (den_pair _ _ _ _ W E). cbn [steps].
    destruct top; [contradiction| |]; lia.
  Qed.

  (* ---------- tree_hash: partial correctness for any fuel ---------- *)
  Lemma th_loop_sound h : wf h ->
    forall fuel ops hs res, runs_to false h ops hs res ->
      th_loop H fuel h ops hs = OutOfFuel \/ th_loop H fuel h ops hs = Ok res.
  Proof.
    intros W. induction fuel as [|f IH]; intros ops hs res R.
    - destruct ops as [|op ops']; [|left; reflexivity].
      cbn in R. subst hs. right. reflexivity.
    - destruct ops as [|op ops'].
      + cbn in R. subst hs. right. reflexivity.
      + cbn [th_loop]. destruct op as [n| |m].
        * destruct (node h n) eqn:N.
          -- destruct R as [V R]. rewrite (node_buffer_den _ _ _ N) in R. apply IH. exact R.
          -- destruct R as [V R]. rewrite (node_u32_den _ _ _ N) in R.
             rewrite <- (small_atom_hash_th H v T) in R. apply IH. exact R.
          -- destruct (node_pair_inv _ _ _ _ N) as [i [-> E]].
             apply IH. apply (runs_to_expand false h i l r OCons); auto.
          -- destruct R as [V _]. exfalso. exact (node_valid _ _ V N).
        * cbn [runs_to] in R. destruct hs as [|a [|b hs']]; try contradiction.
          apply IH. exact R.
        * cbn [runs_to] in R. destruct hs as [|a [|b hs']]; try contradiction.
          destruct R as [A _]. discriminate.
  Qed.

  (* ---------- tree_hash: enough fuel ---------- *)
  Lemma th_loop_fuel h : wf h ->
    forall fuel ops hs, (cost h ops <= fuel)%nat -> th_loop H fuel h ops hs <> OutOfFuel.
  Proof.
    intros W. induction fuel as [|f IH]; intros ops hs C.
    - destruct ops as [|op ops'].
      + cbn. destruct hs as [|x [|y z]]; discriminate.
      + exfalso. destruct op; cbn [cost] in C; try lia.
        pose proof (steps_pos (den h n)). lia.
    - destruct ops as [|op ops'].
      + cbn. destruct hs as [|x [|y z]]; discriminate.
      + cbn [th_loop]. destruct op as [n| |m].
        * destruct (node h n) eqn:N.
          -- apply IH. cbn [cost] in C. rewrite (node_buffer_den _ _ _ N) in C. cbn [steps] in C. lia.
          -- apply IH. cbn [cost] in C. rewrite (node_u32_den _ _ _ N) in C. cbn [steps] in C. lia.
          -- destruct (node_pair_inv _ _ _ _ N) as [i [-> E]].
             apply IH. pose proof (cost_expand h i l r OCons ops' W E I). lia.
          -- discriminate.
        * destruct hs as [|a [|b hs']]; try discriminate.
          apply IH. cbn [cost] in C. lia.
        * discriminate.
  Qed.

  Theorem tree_hash_stack_correct h n fuel :
    wf h -> valid h n -> (2 * node_count (den h n) <= fuel)%nat ->
    tree_hash_stack H fuel h n = Ok (th H (den h n)).
  Proof.
    intros W V F. unfold tree_hash_stack.
    assert (R : runs_to false h [OSExp n] [] (th H (den h n))) by (cbn; auto).
    destruct (th_loop_sound h W fuel _ _ _ R) as [O|O]; [|exact O].
    exfalso. revert O. apply th_loop_fuel; [exact W|].
    cbn [cost]. pose proof (steps_node_count (den h n)). lia.
  Qed.

  (* for any fuel: never a panic, never a wrong hash *)
  Theorem tree_hash_stack_sound h n fuel :
    wf h -> valid h n ->
    tree_hash_stack H fuel h n = OutOfFuel \/ tree_hash_stack H fuel h n = Ok (th H (den h n)).
  Proof.
    intros W V. apply th_loop_sound; [exact W|]. cbn; auto.
  Qed.
End TreeHashProofs.
