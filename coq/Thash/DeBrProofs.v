(* Thash/DeBrProofs.v — tree_hash_from_bytes returns the reference hash of the tree its input
   deserializes to (with or without back-references).
   1. the allocator-level deserializer (value stack = cons list in the heap, back-references
      push shared nodes) simulates the tree-level one step by step: same verdict, and the
      node it returns denotes the tree
   2. the tree-level deserializer never panics and its built-in fuel always suffices
   3. on input accepted by the plain deserializer (Clvm/Sexp.deser) it returns the same tree
   4. tree_hash_cached on the resulting heap from the empty cache gives th of that tree *)
From ChiaV.Base Require Import Bytes.
From ChiaV.Clvm Require Import Sexp Ints TreeHash.
From ChiaV.Gen Require Import Precomputed.
From ChiaV.Thash Require Import Heap Mirror DeBr HeapProofs PrecomputedProofs TreeHashProofs CacheProofs.
Open Scope N_scope.

(* the runner-friendly atom parser is Clvm/Sexp.parse_atom *)
Lemma parse_atom_n_eq b rest : parse_atom_n b rest = parse_atom b rest.
Proof.
  unfold parse_atom_n, parse_atom. destruct (b2n b <? 128); [reflexivity|].
  destruct (decode_size (b2n b) rest) as [[size rest']|]; [|reflexivity].
  destruct (N.ltb_spec (N.of_nat (length rest')) size), (Nat.ltb_spec (length rest') (N.to_nat size));
    try reflexivity; lia.
Qed.

(* ---------- views of a node through its denotation ---------- *)
Lemma den_pair_none h i : nth_error (h_pairs h) i = None -> den h (NPair i) = nil.
Proof.
  intros E.
  change (den h (NPair i)) with
    (match nth_error (h_pairs h) i with
     | Some (l, r) => Pair (den_f (length (h_pairs h)) h l) (den_f (length (h_pairs h)) h r)
     | None => nil end).
  now rewrite E.
Qed.

Lemma den_pair_view h n a b : wf h -> den h n = Pair a b ->
  exists l r, sexp_of h n = SPairV l r /\ den h l = a /\ den h r = b /\ valid h l /\ valid h r.
Proof.
  intros W D. destruct n as [i|i|v].
  - destruct (nth_error (h_pairs h) i) as [[l r]|] eqn:E.
    + rewrite (den_pair _ _ _ _ W E) in D. inversion D; subst.
      destruct (wf_children_valid _ _ _ _ W E) as [Vl Vr].
      exists l, r. cbn [sexp_of]. rewrite E. auto.
    + rewrite (den_pair_none _ _ E) in D. discriminate.
  - rewrite den_bytes in D. discriminate.
  - rewrite den_small in D. discriminate.
Qed.

Lemma den_atom_view h n b : wf h -> den h n = Atom b -> forall l r, sexp_of h n <> SPairV l r.
Proof.
  intros W D l r S. destruct (sexp_of_pair_inv _ _ _ _ S) as [i [-> E]].
  rewrite (den_pair _ _ _ _ W E) in D. discriminate.
Qed.

(* ---------- paths ---------- *)
Lemma traverse_pos_sim h : wf h -> forall p n t, valid h n -> den h n = t ->
  match traverse_pos p t, traverse_pos_h h p n with
  | Some t', Some n' => valid h n' /\ den h n' = t'
  | None, None => True
  | _, _ => False
  end.
Proof.
  intros W. induction p as [q IH|q IH|]; intros n t V D; cbn [traverse_pos traverse_pos_h].
  - destruct t as [b|a b].
    + destruct (sexp_of h n) as [|l r|] eqn:S; auto.
      exfalso; exact (den_atom_view _ _ _ W D l r S).
    + destruct (den_pair_view _ _ _ _ W D) as [l [r [S [Dl [Dr [Vl Vr]]]]]].
      rewrite S. apply IH; assumption.
  - destruct t as [b|a b].
    + destruct (sexp_of h n) as [|l r|] eqn:S; auto.
      exfalso; exact (den_atom_view _ _ _ W D l r S).
    + destruct (den_pair_view _ _ _ _ W D) as [l [r [S [Dl [Dr [Vl Vr]]]]]].
      rewrite S. apply IH; assumption.
  - auto.
Qed.

Lemma traverse_path_sim h path n t : wf h -> valid h n -> den h n = t ->
  match traverse_path path t, traverse_path_h h path n with
  | Some t', Some n' => valid h n' /\ den h n' = t'
  | None, None => True
  | _, _ => False
  end.
Proof.
  intros W V D. unfold traverse_path, traverse_path_h. destruct (be2n path) as [|p].
  - split; [exact I|reflexivity].
  - apply traverse_pos_sim; assumption.
Qed.

(* ---------- the simulation ---------- *)
Definition dres_rel (h : heap) (fuel : nat) (rs : dres sexp) (rh : dres (heap * nodeptr)) : Prop :=
  match rs, rh with
  | DOk t, DOk (h', n) =>
      wf h' /\ extends h h' /\ valid h' n /\ den h' n = t /\
      (length (h_pairs h') <= length (h_pairs h) + 2 * fuel)%nat
  | DErr, DErr => True
  | DPanic, DPanic => True
  | DFuel, DFuel => True
  | _, _ => False
  end.

Lemma dres_rel_weaken h h1 fuel rs rh :
  extends h h1 -> (length (h_pairs h1) <= length (h_pairs h) + 2)%nat ->
  dres_rel h1 fuel rs rh -> dres_rel h (S fuel) rs rh.
Proof.
  intros X L. unfold dres_rel. destruct rs, rh as [[h' n]| | |]; auto.
  intros [W' [X' [V [D B]]]].
  split; [exact W'|]. split; [eapply extends_trans; eauto|]. split; [exact V|]. split; [exact D|lia].
Qed.

Lemma new_pair_len h l r : length (h_pairs (fst (new_pair h l r))) = S (length (h_pairs h)).
Proof. cbn. rewrite app_length. cbn. lia. Qed.

Lemma new_atom_len h a : length (h_pairs (fst (new_atom h a))) = length (h_pairs h).
Proof. unfold new_atom. destruct (fits_in_small_atom a); reflexivity. Qed.

Lemma debr_sim : forall fuel h ops values vals bs,
  wf h -> valid h values -> den h values = list_to_sexp vals ->
  dres_rel h fuel (debr_s fuel ops vals bs) (debr_h fuel h ops values bs).
Proof.
  induction fuel as [|f IH]; intros h ops values vals bs W V D.
  - destruct ops as [|op ops']; [|exact I].
    cbn [debr_s debr_h]. destruct vals as [|v vs].
    + cbn [list_to_sexp] in D. destruct (sexp_of h values) as [|l r|] eqn:S; try exact I.
      exfalso; exact (den_atom_view _ _ _ W D l r S).
    + cbn [list_to_sexp] in D. destruct (den_pair_view _ _ _ _ W D) as [l [r [S [Dl [Dr [Vl Vr]]]]]].
      rewrite S. split; [exact W|]. split; [apply extends_refl|]. split; [exact Vl|]. split; [exact Dl|lia].
  - destruct ops as [|op ops'].
    + cbn [debr_s debr_h]. destruct vals as [|v vs].
      * cbn [list_to_sexp] in D. destruct (sexp_of h values) as [|l r|] eqn:S; try exact I.
        exfalso; exact (den_atom_view _ _ _ W D l r S).
      * cbn [list_to_sexp] in D. destruct (den_pair_view _ _ _ _ W D) as [l [r [S [Dl [Dr [Vl Vr]]]]]].
        rewrite S. split; [exact W|]. split; [apply extends_refl|]. split; [exact Vl|]. split; [exact Dl|lia].
    + cbn [debr_s debr_h]. destruct op.
      * (* SExp *)
        destruct bs as [|b rest]; [exact I|].
        destruct (byte_eqb b xff).
        { apply (dres_rel_weaken h h); [apply extends_refl|lia|]. apply IH; assumption. }
        destruct (byte_eqb b xfe).
        { destruct (parse_path rest) as [[path rest']|]; [|exact I].
          pose proof (traverse_path_sim h path values (list_to_sexp vals) W V D) as TS.
          destruct (traverse_path path (list_to_sexp vals)) as [t'|],
                   (traverse_path_h h path values) as [br|]; try contradiction; [|exact I].
          destruct TS as [Vb Db].
          pose proof (new_pair_spec h br values W Vb V) as NP.
          pose proof (new_pair_len h br values) as NL.
          destruct (new_pair h br values) as [h1 v]. cbn [fst] in NL.
          destruct NP as [W1 [X1 [V1 D1]]].
          apply (dres_rel_weaken h h1); [exact X1|lia|].
          apply IH; auto. rewrite D1, Db, D. reflexivity. }
        destruct (parse_atom_bytes b rest) as [[a rest']|]; [|exact I].
        pose proof (new_atom_spec h a W) as NA.
        pose proof (new_atom_len h a) as AL.
        destruct (new_atom h a) as [h1 na]. cbn [fst] in AL.
        destruct NA as [W1 [X1 [Va Da]]].
        assert (V1 : valid h1 values) by (eapply extends_valid; eauto).
        pose proof (new_pair_spec h1 na values W1 Va V1) as NP.
        pose proof (new_pair_len h1 na values) as NL.
        destruct (new_pair h1 na values) as [h2 v]. cbn [fst] in NL.
        destruct NP as [W2 [X2 [V2 D2]]].
        apply (dres_rel_weaken h h2); [eapply extends_trans; eauto|lia|].
        apply IH; auto. rewrite D2, Da. rewrite (den_extends _ _ _ X1 W W1 V), D. reflexivity.
      * (* Cons *)
        destruct vals as [|rgt [|lft vs]].
        -- cbn [list_to_sexp] in D. destruct (sexp_of h values) as [|l r|] eqn:S; try exact I.
           exfalso; exact (den_atom_view _ _ _ W D l r S).
        -- cbn [list_to_sexp] in D.
           destruct (den_pair_view _ _ _ _ W D) as [l [r [S [Dl [Dr [Vl Vr]]]]]]. rewrite S.
           destruct (sexp_of h r) as [|l2 r2|] eqn:S2; try exact I.
           exfalso; exact (den_atom_view _ _ _ W Dr l2 r2 S2).
        -- cbn [list_to_sexp] in D.
           destruct (den_pair_view _ _ _ _ W D) as [rn [rest1 [S [Dr [D1 [Vr V1]]]]]]. rewrite S.
           destruct (den_pair_view _ _ _ _ W D1) as [ln [rest2 [S2 [Dl [D2 [Vl V2]]]]]]. rewrite S2.
           pose proof (new_pair_spec h ln rn W Vl Vr) as NP.
           pose proof (new_pair_len h ln rn) as NL.
           destruct (new_pair h ln rn) as [h1 nr]. cbn [fst] in NL.
           destruct NP as [W1 [X1 [Vn Dn]]].
           assert (V2' : valid h1 rest2) by (eapply extends_valid; eauto).
           pose proof (new_pair_spec h1 nr rest2 W1 Vn V2') as NP2.
           pose proof (new_pair_len h1 nr rest2) as NL2.
           destruct (new_pair h1 nr rest2) as [h2 v]. cbn [fst] in NL2.
           destruct NP2 as [W2 [X2 [Vv Dv]]].
           apply (dres_rel_weaken h h2); [eapply extends_trans; eauto|lia|].
           apply IH; auto. rewrite Dv, Dn, Dl, Dr.
           rewrite (den_extends _ _ _ X1 W W1 V2), D2. reflexivity.
Qed.

Lemma node_from_bytes_backrefs_old_sim bs :
  dres_rel empty_heap (debr_fuel bs) (deser_br bs) (node_from_bytes_backrefs_old bs).
Proof.
  unfold deser_br, node_from_bytes_backrefs_old. apply debr_sim.
  - apply wf_empty.
  - exact I.
  - reflexivity.
Qed.

(* ---------- the Vec-based deserializer (the one tree_hash_from_bytes runs) ---------- *)
Definition dens (h : heap) (vals : list entry) : list sexp := map (fun e => den h (fst e)) vals.

(* every value is a valid node; a filled cache denotes the stack list from its entry downwards *)
Fixpoint entries_ok (h : heap) (vals : list entry) : Prop :=
  match vals with
  | [] => True
  | (v, c) :: below =>
      valid h v /\
      match c with
      | None => True
      | Some p => valid h p /\ den h p = list_to_sexp (dens h ((v, c) :: below))
      end /\
      entries_ok h below
  end.

Fixpoint uncached (vals : list entry) : nat :=
  match vals with
  | [] => O
  | (_, None) :: r => S (uncached r)
  | (_, Some _) :: r => uncached r
  end.

Lemma entries_ok_extends h h' vals : wf h -> wf h' -> extends h h' -> entries_ok h vals ->
  entries_ok h' vals /\ dens h' vals = dens h vals.
Proof.
  intros W W' X. induction vals as [|[v c] below IH]; intros E; [split; [exact I|reflexivity]|].
  destruct E as [Vv [Hc Eb]]. destruct (IH Eb) as [Eb' Db].
  assert (Dv : den h' v = den h v) by (apply den_extends; auto).
  assert (Dall : dens h' ((v, c) :: below) = dens h ((v, c) :: below)).
  { unfold dens in *. cbn [map fst]. now rewrite Dv, Db. }
  split; [|exact Dall].
  split; [eapply extends_valid; eauto|]. split; [|exact Eb'].
  destruct c as [p|]; [|exact I]. destruct Hc as [Vp Dp].
  split; [eapply extends_valid; eauto|].
  rewrite Dall, <- Dp. apply den_extends; auto.
Qed.

Lemma entries_ok_skipn h j vals : entries_ok h vals -> entries_ok h (skipn j vals).
Proof.
  revert vals; induction j as [|j IH]; intros vals E; [exact E|].
  destruct vals as [|[v c] below]; [exact I|]. cbn [skipn]. apply IH. apply E.
Qed.

Lemma dens_app h a b : dens h (a ++ b) = dens h a ++ dens h b.
Proof. unfold dens. apply map_app. Qed.

Lemma entries_ok_app_replace h above vs vs' :
  entries_ok h (above ++ vs) -> entries_ok h vs' -> dens h vs' = dens h vs ->
  entries_ok h (above ++ vs') /\ dens h (above ++ vs') = dens h (above ++ vs).
Proof.
  intros E E' D. induction above as [|[v c] above IH].
  - cbn [app]. auto.
  - cbn [app] in *. destruct E as [Vv [Hc Eb]]. destruct (IH Eb) as [Eb' Db].
    assert (Dall : dens h ((v, c) :: above ++ vs') = dens h ((v, c) :: above ++ vs)).
    { unfold dens in *. cbn [map]. now rewrite Db. }
    split; [|exact Dall].
    split; [exact Vv|]. split; [|exact Eb'].
    destruct c as [p|]; [|exact I]. destruct Hc as [Vp Dp]. split; [exact Vp|].
    now rewrite Dall.
Qed.

Lemma uncached_app a b : uncached (a ++ b) = (uncached a + uncached b)%nat.
Proof. induction a as [|[v [p|]] a IH]; cbn [app uncached]; lia. Qed.

Lemma nil_node_den h : den h (NSmall 0) = nil.
Proof. reflexivity. Qed.

Lemma walk_vec_sim h : wf h -> forall vs p, entries_ok h vs ->
  match traverse_pos p (list_to_sexp (dens h vs)), walk_vec h p vs with
  | Some t', WNode n => valid h n /\ den h n = t'
  | Some t', WStack j => (j < length vs)%nat /\ t' = list_to_sexp (dens h (skipn j vs))
  | None, WErr => True
  | _, _ => False
  end.
Proof.
  intros W. induction vs as [|[v c] below IH]; intros p E.
  - cbn [walk_vec dens map list_to_sexp].
    pose proof (traverse_pos_sim h W p (NSmall 0) nil I (nil_node_den h)) as TS.
    destruct (traverse_pos p nil), (traverse_pos_h h p (NSmall 0)); exact TS.
  - destruct E as [Vv [Hc Eb]].
    change (list_to_sexp (dens h ((v, c) :: below)))
      with (Pair (den h v) (list_to_sexp (dens h below))).
    destruct p as [q|q|].
    + (* rest *)
      cbn [traverse_pos].
      destruct below as [|y b'].
      * cbn [walk_vec dens map list_to_sexp].
        pose proof (traverse_pos_sim h W q (NSmall 0) nil I (nil_node_den h)) as TS.
        destruct (traverse_pos q nil), (traverse_pos_h h q (NSmall 0)); exact TS.
      * specialize (IH q Eb).
        change (walk_vec h q~1 ((v, c) :: y :: b'))
          with (match walk_vec h q (y :: b') with WStack j => WStack (S j) | r => r end).
        destruct (traverse_pos q (list_to_sexp (dens h (y :: b')))), (walk_vec h q (y :: b')); try exact IH.
        destruct IH as [L ->]. split; [cbn [length] in *; lia|reflexivity].
    + (* first *)
      cbn [traverse_pos walk_vec fst].
      pose proof (traverse_pos_sim h W q v (den h v) Vv eq_refl) as TS.
      destruct (traverse_pos q (den h v)), (traverse_pos_h h q v); exact TS.
    + cbn [traverse_pos walk_vec]. split; [cbn; lia|reflexivity].
Qed.

Lemma materialise_spec h : wf h -> forall vs, entries_ok h vs ->
  let '(h1, vs', n) := materialise h vs in
  wf h1 /\ extends h h1 /\ entries_ok h1 vs' /\ dens h1 vs' = dens h vs /\
  valid h1 n /\ den h1 n = list_to_sexp (dens h vs) /\
  (length (h_pairs h1) + uncached vs' <= length (h_pairs h) + uncached vs)%nat.
Proof.
  intros W. induction vs as [|[v c] below IH]; intros E.
  - cbn [materialise].
    split; [exact W|]. split; [apply extends_refl|]. split; [exact I|]. split; [reflexivity|].
    split; [exact I|]. split; [reflexivity|lia].
  - destruct E as [Vv [Hc Eb]]. specialize (IH Eb).
    cbn [materialise]. destruct (materialise h below) as [[h1 below'] tail].
    destruct IH as [W1 [X1 [E1 [D1 [Vt [Dt B1]]]]]].
    assert (Vv1 : valid h1 v) by (eapply extends_valid; eauto).
    assert (Dv1 : den h1 v = den h v) by (apply den_extends; auto).
    destruct c as [p|].
    + destruct Hc as [Vp Dp].
      assert (Dall : dens h1 ((v, Some p) :: below') = dens h ((v, Some p) :: below)).
      { unfold dens in *. cbn [map fst]. now rewrite Dv1, D1. }
      split; [exact W1|]. split; [exact X1|]. split.
      { split; [exact Vv1|]. split; [|exact E1].
        split; [eapply extends_valid; eauto|].
        rewrite Dall. transitivity (den h p); [apply den_extends; auto|exact Dp]. }
      split; [exact Dall|]. split; [eapply extends_valid; eauto|].
      split; [transitivity (den h p); [apply den_extends; auto|exact Dp]|].
      cbn [uncached]. exact B1.
    + pose proof (new_pair_spec h1 v tail W1 Vv1 Vt) as NP.
      pose proof (new_pair_len h1 v tail) as NL.
      destruct (new_pair h1 v tail) as [h2 pr]. cbn [fst] in NL.
      destruct NP as [W2 [X2 [Vpr Dpr]]].
      destruct (entries_ok_extends h1 h2 below' W1 W2 X2 E1) as [E2 D2].
      assert (Dv2 : den h2 v = den h v).
      { rewrite <- Dv1. apply den_extends; auto. }
      assert (Dall : dens h2 ((v, Some pr) :: below') = dens h ((v, None) :: below)).
      { unfold dens in *. cbn [map fst]. now rewrite Dv2, D2, D1. }
      assert (Dlist : den h2 pr = list_to_sexp (dens h ((v, None) :: below))).
      { rewrite Dpr, Dt, Dv1. reflexivity. }
      split; [exact W2|]. split; [eapply extends_trans; eauto|]. split.
      { split; [eapply extends_valid; eauto|]. split; [|exact E2].
        split; [exact Vpr|]. now rewrite Dall. }
      split; [exact Dall|]. split; [exact Vpr|]. split; [exact Dlist|].
      cbn [uncached]. lia.
Qed.

Lemma traverse_path_v_sim h path vals : wf h -> entries_ok h vals ->
  match traverse_path path (list_to_sexp (dens h vals)), traverse_path_v h path vals with
  | Some t', Some (h1, vals1, n) =>
      wf h1 /\ extends h h1 /\ entries_ok h1 vals1 /\ dens h1 vals1 = dens h vals /\
      valid h1 n /\ den h1 n = t' /\
      (length (h_pairs h1) + uncached vals1 <= length (h_pairs h) + uncached vals)%nat
  | None, None => True
  | _, _ => False
  end.
Proof.
  intros W E. unfold traverse_path, traverse_path_v. destruct (be2n path) as [|p].
  - split; [exact W|]. split; [apply extends_refl|]. split; [exact E|]. split; [reflexivity|].
    split; [exact I|]. split; [reflexivity|lia].
  - pose proof (walk_vec_sim h W vals p E) as WS.
    destruct (traverse_pos p (list_to_sexp (dens h vals))) as [t'|], (walk_vec h p vals) as [|n|j];
      try contradiction; auto.
    + destruct WS as [Vn Dn].
      split; [exact W|]. split; [apply extends_refl|]. split; [exact E|]. split; [reflexivity|].
      split; [exact Vn|]. split; [exact Dn|lia].
    + destruct WS as [L ->].
      pose proof (materialise_spec h W (skipn j vals) (entries_ok_skipn h j vals E)) as MS.
      destruct (materialise h (skipn j vals)) as [[h1 vs'] n].
      destruct MS as [W1 [X1 [E1 [D1 [Vn [Dn B1]]]]]].
      assert (Ev : entries_ok h (firstn j vals ++ skipn j vals)) by now rewrite firstn_skipn.
      destruct (entries_ok_extends h h1 _ W W1 X1 Ev) as [Ev1 Dv1].
      assert (D1' : dens h1 vs' = dens h1 (skipn j vals)).
      { rewrite D1. symmetry.
        apply (entries_ok_extends h h1 (skipn j vals) W W1 X1 (entries_ok_skipn h j vals E)). }
      destruct (entries_ok_app_replace h1 (firstn j vals) (skipn j vals) vs' Ev1 E1 D1') as [En Dn'].
      split; [exact W1|]. split; [exact X1|]. split; [exact En|].
      split; [rewrite Dn', Dv1; now rewrite firstn_skipn|].
      split; [exact Vn|]. split; [exact Dn|].
      rewrite uncached_app.
      rewrite <- (firstn_skipn j vals) at 2. rewrite uncached_app. lia.
Qed.

Definition dres_rel_v (h : heap) (fuel : nat) (vals : list entry)
  (rs : dres sexp) (rh : dres (heap * nodeptr)) : Prop :=
  match rs, rh with
  | DOk t, DOk (h', n) =>
      wf h' /\ valid h' n /\ den h' n = t /\
      (length (h_pairs h') <= length (h_pairs h) + uncached vals + 2 * fuel)%nat
  | DErr, DErr => True
  | DPanic, DPanic => True
  | DFuel, DFuel => True
  | _, _ => False
  end.

Lemma dres_rel_v_step h vals h1 vals1 fuel rs rh :
  (length (h_pairs h1) + uncached vals1 <= length (h_pairs h) + uncached vals + 2)%nat ->
  dres_rel_v h1 fuel vals1 rs rh -> dres_rel_v h (S fuel) vals rs rh.
Proof.
  intros L. unfold dres_rel_v. destruct rs, rh as [[h' n]| | |]; auto.
  intros [W' [V [D B]]]. split; [exact W'|]. split; [exact V|]. split; [exact D|lia].
Qed.

Lemma debr_v_sim : forall fuel h ops vals bs,
  wf h -> entries_ok h vals ->
  dres_rel_v h fuel vals (debr_s fuel ops (dens h vals) bs) (debr_v fuel h ops vals bs).
Proof.
  induction fuel as [|f IH]; intros h ops vals bs W E.
  - destruct ops as [|op ops']; [|exact I].
    cbn [debr_s debr_v]. destruct vals as [|[v c] below]; [exact I|].
    cbn [dens map fst]. destruct E as [Vv _].
    split; [exact W|]. split; [exact Vv|]. split; [reflexivity|lia].
  - destruct ops as [|op ops'].
    + cbn [debr_s debr_v]. destruct vals as [|[v c] below]; [exact I|].
      cbn [dens map fst]. destruct E as [Vv _].
      split; [exact W|]. split; [exact Vv|]. split; [reflexivity|lia].
    + cbn [debr_s debr_v]. destruct op.
      * destruct bs as [|b rest]; [exact I|].
        destruct (byte_eqb b xff).
        { apply (dres_rel_v_step h vals h vals); [lia|]. apply IH; assumption. }
        destruct (byte_eqb b xfe).
        { destruct (parse_path rest) as [[path rest']|]; [|exact I].
          pose proof (traverse_path_v_sim h path vals W E) as TS.
          destruct (traverse_path path (list_to_sexp (dens h vals))) as [t'|],
                   (traverse_path_v h path vals) as [[[h1 vals1] br]|]; try contradiction; [|exact I].
          destruct TS as [W1 [X1 [E1 [D1 [Vb [Db B1]]]]]].
          apply (dres_rel_v_step h vals h1 ((br, None) :: vals1)); [cbn [uncached]; lia|].
          replace (t' :: dens h vals) with (dens h1 ((br, None) :: vals1))
            by (unfold dens in *; cbn [map fst]; now rewrite Db, D1).
          apply IH; [exact W1|]. split; [exact Vb|]. split; [exact I|exact E1]. }
        destruct (parse_atom_bytes b rest) as [[a rest']|]; [|exact I].
        pose proof (new_atom_spec h a W) as NA.
        pose proof (new_atom_len h a) as AL.
        destruct (new_atom h a) as [h1 na]. cbn [fst] in AL.
        destruct NA as [W1 [X1 [Va Da]]].
        destruct (entries_ok_extends h h1 vals W W1 X1 E) as [E1 D1].
        apply (dres_rel_v_step h vals h1 ((na, None) :: vals)); [cbn [uncached]; lia|].
        replace (Atom a :: dens h vals) with (dens h1 ((na, None) :: vals))
          by (unfold dens in *; cbn [map fst]; now rewrite Da, D1).
        apply IH; [exact W1|]. split; [exact Va|]. split; [exact I|exact E1].
      * destruct vals as [|[rn cr] [|[ln cl] vs]]; try exact I.
        cbn [dens map fst]. destruct E as [Vr [_ [Vl [_ Evs]]]].
        pose proof (new_pair_spec h ln rn W Vl Vr) as NP.
        pose proof (new_pair_len h ln rn) as NL.
        destruct (new_pair h ln rn) as [h1 root]. cbn [fst] in NL.
        destruct NP as [W1 [X1 [Vroot Droot]]].
        destruct (entries_ok_extends h h1 vs W W1 X1 Evs) as [E1 D1].
        apply (dres_rel_v_step h ((rn, cr) :: (ln, cl) :: vs) h1 ((root, None) :: vs)).
        { cbn [uncached]. destruct cr, cl; lia. }
        replace (Pair (den h ln) (den h rn) :: map (fun e => den h (fst e)) vs)
          with (dens h1 ((root, None) :: vs))
          by (unfold dens in *; cbn [map fst]; now rewrite Droot, D1).
        apply IH; [exact W1|]. split; [exact Vroot|]. split; [exact I|exact E1].
Qed.

Lemma node_from_bytes_backrefs_sim bs :
  dres_rel_v empty_heap (debr_fuel bs) [] (deser_br bs) (node_from_bytes_backrefs bs).
Proof.
  unfold deser_br, node_from_bytes_backrefs.
  apply (debr_v_sim (debr_fuel bs) empty_heap [PSExp] [] bs wf_empty I).
Qed.

(* both allocator-level deserializers against the tree-level specification, in one form *)
Definition refines_spec (bs : bytes) (r : dres (heap * nodeptr)) : Prop :=
  match deser_br bs, r with
  | DOk t, DOk (h, n) =>
      wf h /\ valid h n /\ den h n = t /\ (length (h_pairs h) <= 2 * debr_fuel bs)%nat
  | DErr, DErr => True
  | _, _ => False
  end.

(* ---------- the tree-level deserializer never panics ---------- *)
Fixpoint safe (ops : list parseop) (d : nat) : Prop :=
  match ops with
  | [] => (1 <= d)%nat
  | PSExp :: r => safe r (S d)
  | PCons :: r => (2 <= d)%nat /\ safe r (d - 1)
  end.

Lemma debr_s_no_panic : forall fuel ops vals bs,
  safe ops (length vals) -> debr_s fuel ops vals bs <> DPanic.
Proof.
  induction fuel as [|f IH]; intros ops vals bs Sf.
  - destruct ops as [|op ops']; [|discriminate].
    cbn in *. destruct vals; [cbn in Sf; lia|discriminate].
  - destruct ops as [|op ops'].
    + cbn in *. destruct vals; [cbn in Sf; lia|discriminate].
    + cbn [debr_s]. destruct op.
      * destruct bs as [|b rest]; [discriminate|].
        destruct (byte_eqb b xff).
        { apply IH. cbn [safe] in *. split; [lia|]. replace (S (S (length vals)) - 1)%nat with (S (length vals)) by lia. exact Sf. }
        destruct (byte_eqb b xfe).
        { destruct (parse_path rest) as [[path rest']|]; [|discriminate].
          destruct (traverse_path path (list_to_sexp vals)); [|discriminate].
          apply IH. exact Sf. }
        destruct (parse_atom_bytes b rest) as [[a rest']|]; [|discriminate].
        apply IH. exact Sf.
      * cbn [safe] in Sf. destruct Sf as [S2 Sf].
        destruct vals as [|rgt [|lft vs]]; cbn [length] in S2; try lia.
        apply IH. cbn [length] in *. replace (S (S (length vs)) - 1)%nat with (S (length vs)) in Sf by lia. exact Sf.
Qed.

(* ---------- its built-in fuel always suffices ---------- *)
Lemma parse_atom_shorter b rest a rest' : parse_atom b rest = Some (a, rest') ->
  (length rest' <= length rest)%nat.
Proof.
  unfold parse_atom. destruct (b2n b <? 128).
  - intros Q; inversion Q; subst. lia.
  - unfold decode_size. destruct (Nat.leb 7 (leading_ones (b2n b))); [discriminate|].
    destruct (Nat.ltb (length rest) (pred (leading_ones (b2n b)))); [discriminate|].
    destruct (_ <=? _); [discriminate|].
    destruct (N.ltb _ _); [discriminate|].
    destruct (Nat.ltb _ _); [discriminate|].
    intros Q; inversion Q; subst. rewrite !skipn_length. lia.
Qed.

Lemma parse_atom_bytes_shorter b rest a rest' : parse_atom_bytes b rest = Some (a, rest') ->
  (length rest' <= length rest)%nat.
Proof.
  unfold parse_atom_bytes. destruct (byte_eqb b x80).
  - intros Q; inversion Q; subst. lia.
  - rewrite parse_atom_n_eq. apply parse_atom_shorter.
Qed.

Lemma parse_path_shorter bs path rest' : parse_path bs = Some (path, rest') ->
  (length rest' < length bs)%nat.
Proof.
  destruct bs as [|pb rest]; [discriminate|]. cbn [parse_path length].
  rewrite parse_atom_n_eq. intros Q. apply parse_atom_shorter in Q. lia.
Qed.

Definition n_cons (ops : list parseop) : nat :=
  length (filter (fun op => match op with PCons => true | PSExp => false end) ops).

Lemma debr_s_fuel : forall fuel ops vals bs,
  (S (2 * length bs + n_cons ops) <= fuel)%nat -> debr_s fuel ops vals bs <> DFuel.
Proof.
  induction fuel as [|f IH]; intros ops vals bs F; [lia|].
  destruct ops as [|op ops'].
  - cbn. destruct vals; discriminate.
  - cbn [debr_s]. destruct op.
    + destruct bs as [|b rest]; [discriminate|]. cbn [length] in F.
      unfold n_cons in F. cbn [filter] in F. fold (n_cons ops') in F.
      destruct (byte_eqb b xff).
      { apply IH. unfold n_cons. cbn [filter length]. fold (n_cons ops'). lia. }
      destruct (byte_eqb b xfe).
      { destruct (parse_path rest) as [[path rest']|] eqn:P; [|discriminate].
        apply parse_path_shorter in P.
        destruct (traverse_path path (list_to_sexp vals)); [|discriminate].
        apply IH. lia. }
      destruct (parse_atom_bytes b rest) as [[a rest']|] eqn:P; [|discriminate].
      apply parse_atom_bytes_shorter in P.
      apply IH. lia.
    + unfold n_cons in F. cbn [filter length] in F. fold (n_cons ops') in F.
      destruct vals as [|rgt [|lft vs]]; try discriminate.
      apply IH. lia.
Qed.

Theorem deser_br_total bs : deser_br bs <> DPanic /\ deser_br bs <> DFuel.
Proof.
  unfold deser_br. split.
  - apply debr_s_no_panic. cbn. lia.
  - apply debr_s_fuel. unfold debr_fuel, n_cons. cbn [filter length]. lia.
Qed.

(* ---------- agreement with the plain deserializer ---------- *)
Lemma parse_atom_fe rest : parse_atom xfe rest = None.
Proof. reflexivity. Qed.

Lemma deser_fuel_steps : forall f bs t rest,
  deser_fuel f bs = Some (t, rest) ->
  (length rest + node_count t <= length bs)%nat /\
  forall fuel ops vals, debr_s (steps t + fuel) (PSExp :: ops) vals bs = debr_s fuel ops (t :: vals) rest.
Proof.
  induction f as [|f IH]; intros bs t rest E; [discriminate|].
  cbn [deser_fuel] in E. destruct bs as [|b bs']; [discriminate|].
  destruct (byte_eqb_spec b xff) as [->|Nff].
  - destruct (deser_fuel f bs') as [[l rest1]|] eqn:E1; [|discriminate].
    destruct (deser_fuel f rest1) as [[r rest2]|] eqn:E2; [|discriminate].
    inversion E; subst t rest. clear E.
    destruct (IH _ _ _ E1) as [L1 S1]. destruct (IH _ _ _ E2) as [L2 S2].
    split; [cbn [node_count length]; lia|].
    intros fuel ops vals. cbn [steps].
    replace (2 + steps l + steps r + fuel)%nat with (S (steps l + (steps r + S fuel))) by lia.
    cbn [debr_s]. change (byte_eqb xff xff) with true. cbv iota.
    rewrite S1, S2. reflexivity.
  - destruct (byte_eqb_spec b x80) as [->|N80].
    + inversion E; subst t rest. split; [cbn; lia|].
      intros fuel ops vals. cbn [steps]. cbn [Nat.add debr_s].
      change (byte_eqb x80 xff) with false. change (byte_eqb x80 xfe) with false. cbv iota.
      unfold parse_atom_bytes. change (byte_eqb x80 x80) with true. reflexivity.
    + destruct (parse_atom b bs') as [[a rest']|] eqn:P; [|discriminate].
      inversion E; subst t rest. clear E.
      pose proof (parse_atom_shorter _ _ _ _ P) as L.
      split; [cbn [node_count length]; lia|].
      intros fuel ops vals. cbn [steps]. cbn [Nat.add debr_s].
      destruct (byte_eqb_spec b xff) as [->|_]; [congruence|].
      destruct (byte_eqb_spec b xfe) as [->|_]; [rewrite parse_atom_fe in P; discriminate|].
      unfold parse_atom_bytes.
      destruct (byte_eqb_spec b x80) as [->|_]; [congruence|].
      rewrite parse_atom_n_eq, P. reflexivity.
Qed.

Theorem deser_br_plain bs t rest : deser bs = Some (t, rest) -> deser_br bs = DOk t.
Proof.
  unfold deser. intros E. destruct (deser_fuel_steps _ _ _ _ E) as [L St].
  unfold deser_br, debr_fuel.
  pose proof (steps_node_count t) as SN.
  replace (S (S (2 * length bs))) with (steps t + (S (S (2 * length bs)) - steps t))%nat by lia.
  rewrite St. destruct (S (S (2 * length bs)) - steps t)%nat; reflexivity.
Qed.

(* ---------- both allocator-level deserializers refine the tree-level one ---------- *)
Theorem node_from_bytes_backrefs_refines bs : refines_spec bs (node_from_bytes_backrefs bs).
Proof.
  unfold refines_spec.
  pose proof (node_from_bytes_backrefs_sim bs) as Sim.
  destruct (deser_br_total bs) as [NP NF].
  destruct (deser_br bs) as [t| | |]; try congruence;
    destruct (node_from_bytes_backrefs bs) as [[h n]| | |]; try contradiction; auto.
Qed.

Theorem node_from_bytes_backrefs_old_refines bs : refines_spec bs (node_from_bytes_backrefs_old bs).
Proof.
  unfold refines_spec.
  pose proof (node_from_bytes_backrefs_old_sim bs) as Sim.
  destruct (deser_br_total bs) as [NP NF].
  destruct (deser_br bs) as [t| | |]; try congruence;
    destruct (node_from_bytes_backrefs_old bs) as [[h n]| | |]; try contradiction; auto.
  destruct Sim as [W [_ [V [D B]]]]. cbn [empty_heap h_pairs length] in B.
  repeat (split; [assumption|]). lia.
Qed.

(* ---------- tree_hash_from_bytes ---------- *)
Section FromBytesProofs.
  Variable H : bytes -> bytes.
  Hypothesis T : table_ok H.

  (* what any deserializer that refines the specification gives when followed by tree_hash_cached *)
  Lemma hash_after_deser bs (r : dres (heap * nodeptr)) fuel : refines_spec bs r ->
    let res := match r with
               | DOk (h, n) =>
                   match tree_hash_cached H fuel h n empty_cache with
                   | Ok (x, _) => FOk x | Panic => FPanic | OutOfFuel => FFuel
                   end
               | DErr => FErr | DPanic => FPanic | DFuel => FFuel
               end in
    res <> FPanic /\
    (deser_br bs = DErr -> res = FErr) /\
    (forall t, deser_br bs = DOk t -> (4 * length bs + 4 + 2 * node_count t <= fuel)%nat ->
               res = FOk (th H t)).
  Proof.
    unfold refines_spec. intros R. cbn zeta.
    destruct (deser_br bs) as [t| | |]; destruct r as [[h n]| | |]; try contradiction.
    - destruct R as [W [V [D B]]].
      pose proof (tree_hash_cached_sound H T h n empty_cache fuel W V (cache_ok_empty H h)) as S.
      split; [|split].
      + destruct (tree_hash_cached H fuel h n empty_cache) as [[x c']| |]; try discriminate. contradiction.
      + discriminate.
      + intros t' Et F. inversion Et; subst t'.
        destruct (tree_hash_cached_correct H T h n empty_cache fuel W V (cache_ok_empty H h)) as [c' [Rc _]].
        * rewrite D. unfold debr_fuel in B. lia.
        * rewrite Rc, D. reflexivity.
    - split; [discriminate|]. split; [reflexivity|discriminate].
  Qed.

  Theorem tree_hash_from_bytes_ok bs t fuel :
    deser_br bs = DOk t ->
    (4 * length bs + 4 + 2 * node_count t <= fuel)%nat ->
    tree_hash_from_bytes H fuel bs = FOk (th H t).
  Proof.
    intros E F. exact (proj2 (proj2 (hash_after_deser bs _ fuel (node_from_bytes_backrefs_refines bs))) t E F).
  Qed.

  Theorem tree_hash_from_bytes_err bs fuel :
    deser_br bs = DErr -> tree_hash_from_bytes H fuel bs = FErr.
  Proof.
    intros E. exact (proj1 (proj2 (hash_after_deser bs _ fuel (node_from_bytes_backrefs_refines bs))) E).
  Qed.

  (* never a panic, whatever the bytes and the fuel *)
  Theorem tree_hash_from_bytes_no_panic bs fuel : tree_hash_from_bytes H fuel bs <> FPanic.
  Proof. exact (proj1 (hash_after_deser bs _ fuel (node_from_bytes_backrefs_refines bs))). Qed.

  (* plain serialization: whatever Clvm/Sexp.deser reads *)
  Theorem tree_hash_from_bytes_plain bs t rest fuel :
    deser bs = Some (t, rest) ->
    (4 * length bs + 4 + 2 * node_count t <= fuel)%nat ->
    tree_hash_from_bytes H fuel bs = FOk (th H t).
  Proof. intros E. apply tree_hash_from_bytes_ok. eapply deser_br_plain; eauto. Qed.

  (* the same pipeline on the old (stack-as-cons-list) deserializer *)
  Theorem tree_hash_from_bytes_old_ok bs t fuel :
    deser_br bs = DOk t ->
    (4 * length bs + 4 + 2 * node_count t <= fuel)%nat ->
    tree_hash_from_bytes_old H fuel bs = FOk (th H t).
  Proof.
    intros E F. exact (proj2 (proj2 (hash_after_deser bs _ fuel (node_from_bytes_backrefs_old_refines bs))) t E F).
  Qed.
End FromBytesProofs.
