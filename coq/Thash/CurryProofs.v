(* Thash/CurryProofs.v — curry_tree_hash and fast_forward's curry_and_treehash compute the tree
   hash of the actual curried program, for any hash function H. *)
From ChiaV.Base Require Import Bytes.
From ChiaV.Clvm Require Import Sexp TreeHash.
From ChiaV.Gen Require Import Precomputed CurryFF.
From ChiaV.Thash Require Import Heap Mirror Curry.

Section CurryProofs.
  Variable H : bytes -> bytes.

  (* these two hold because the prefix bytes read from tree_hash.rs are 1 and 2 *)
  Lemma tree_hash_atom_th b : tree_hash_atom H b = th H (Atom b).
  Proof. reflexivity. Qed.

  Lemma tree_hash_pair_th l r : tree_hash_pair H (th H l) (th H r) = th H (Pair l r).
  Proof. reflexivity. Qed.

  Lemma curry_step_th args_tree a :
    curry_step H (th H args_tree) (th H a)
    = th H (Pair (Atom [x04]) (Pair (quote_ a) (Pair args_tree nil))).
  Proof. reflexivity. Qed.

  Lemma curry_args_fold args :
    fold_left (curry_step H) (rev (map (th H) args)) (tree_hash_atom H curry_args_init)
    = th H (curried_args args).
  Proof.
    induction args as [|a r IH].
    - reflexivity.
    - cbn [map rev]. rewrite fold_left_app. cbn [fold_left]. rewrite IH.
      apply curry_step_th.
  Qed.

  Lemma curry_tree_hash_correct p args :
    curry_tree_hash H (th H p) (map (th H) args) = th H (curried_program p args).
  Proof.
    unfold curry_tree_hash. rewrite curry_args_fold. reflexivity.
  Qed.

  (* stated on hashes: whatever trees the given hashes are hashes of *)
  Lemma curry_tree_hash_of_hashes p args ph ahs :
    ph = th H p -> ahs = map (th H) args ->
    curry_tree_hash H ph ahs = th H (curried_program p args).
  Proof. intros -> ->. apply curry_tree_hash_correct. Qed.

  Lemma ff_curry_and_treehash_correct mod_tree inner mod_hash launcher_id launcher_puzzle_hash :
    th H mod_tree = mod_hash ->
    ff_curry_and_treehash H (th H inner) mod_hash launcher_id launcher_puzzle_hash
    = th H (singleton_puzzle mod_tree inner mod_hash launcher_id launcher_puzzle_hash).
  Proof. intros <-. reflexivity. Qed.

  (* the two implementations agree on the singleton shape *)
  Lemma ff_is_curry_tree_hash inner_hash mod_hash launcher_id launcher_puzzle_hash :
    ff_curry_and_treehash H inner_hash mod_hash launcher_id launcher_puzzle_hash
    = curry_tree_hash H mod_hash
        [th H (singleton_struct_tree mod_hash launcher_id launcher_puzzle_hash); inner_hash].
  Proof. reflexivity. Qed.
End CurryProofs.
