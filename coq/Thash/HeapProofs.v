(* Thash/HeapProofs.v — facts about the allocator model: the denotation unfolds along pairs,
   is stable when the allocator grows, and allocation builds what it should. *)
From ChiaV.Base Require Import Bytes.
From ChiaV.Clvm Require Import Sexp Ints IntsProofs.
From ChiaV.Thash Require Import Heap.
Open Scope N_scope.

Definition rank (n : nodeptr) : nat := match n with NPair i => S i | _ => O end.

Lemma valid_below_rank h k n : valid_below h k n -> (rank n <= k)%nat.
Proof. destruct n; cbn; lia. Qed.

Lemma valid_below_mono h k k' n : (k <= k')%nat -> valid_below h k n -> valid_below h k' n.
Proof. destruct n; cbn; lia. Qed.

Lemma den_f_stable h : wf h ->
  forall f1 f2 n, (rank n <= f1)%nat -> (rank n <= f2)%nat -> den_f f1 h n = den_f f2 h n.
Proof.
  intros W. induction f1 as [|f1 IH]; intros f2 n R1 R2.
  - destruct n; cbn in R1; try lia; destruct f2; reflexivity.
  - destruct n as [i| |]; try (destruct f2; reflexivity).
    destruct f2 as [|f2]; [cbn in R2; lia|].
    cbn [den_f]. destruct (nth_error (h_pairs h) i) as [[l r]|] eqn:E; [|reflexivity].
    destruct (W i l r E) as [Vl Vr].
    apply valid_below_rank in Vl. apply valid_below_rank in Vr. cbn in R1, R2.
    f_equal; apply IH; lia.
Qed.

Lemma den_small h v : den h (NSmall v) = Atom (small_bytes v).
Proof. reflexivity. Qed.

Lemma den_bytes h i : den h (NBytes i) = Atom (nth i (h_atoms h) []).
Proof. reflexivity. Qed.

Lemma den_pair h i l r : wf h -> nth_error (h_pairs h) i = Some (l, r) ->
  den h (NPair i) = Pair (den h l) (den h r).
Proof.
  intros W E.
  change (den h (NPair i)) with
    (match nth_error (h_pairs h) i with
     | Some (l, r) => Pair (den_f (length (h_pairs h)) h l) (den_f (length (h_pairs h)) h r)
     | None => nil end).
  rewrite E. unfold den.
  assert (Hi : (i < length (h_pairs h))%nat) by (apply nth_error_Some; congruence).
  destruct (W i l r E) as [Vl Vr].
  apply valid_below_rank in Vl. apply valid_below_rank in Vr.
  f_equal; apply den_f_stable; auto; lia.
Qed.

Lemma wf_children_valid h i l r : wf h -> nth_error (h_pairs h) i = Some (l, r) ->
  valid h l /\ valid h r.
Proof.
  intros W E.
  assert (Hi : (i < length (h_pairs h))%nat) by (apply nth_error_Some; congruence).
  destruct (W i l r E) as [Vl Vr].
  split; apply (valid_below_mono h i); try assumption; lia.
Qed.

(* what Allocator::node returns on a valid node *)
Lemma node_pair_inv h n l r : node h n = VPair l r -> exists i, n = NPair i /\ nth_error (h_pairs h) i = Some (l, r).
Proof.
  destruct n as [i|i|v]; cbn.
  - destruct (nth_error (h_pairs h) i) as [[a b]|] eqn:E; intros Q; inversion Q; subst; eauto.
  - destruct (nth_error (h_atoms h) i); discriminate.
  - discriminate.
Qed.

Lemma node_buffer_den h n b : node h n = VBuffer b -> den h n = Atom b.
Proof.
  destruct n as [i|i|v]; cbn [node].
  - destruct (nth_error (h_pairs h) i) as [[x y]|]; discriminate.
  - destruct (nth_error (h_atoms h) i) eqn:E; intros Q; inversion Q; subst.
    rewrite den_bytes. f_equal. apply nth_error_nth. exact E.
  - discriminate.
Qed.

Lemma node_u32_den h n v : node h n = VU32 v -> den h n = Atom (small_bytes v).
Proof.
  destruct n as [i|i|w]; cbn [node].
  - destruct (nth_error (h_pairs h) i) as [[x y]|]; discriminate.
  - destruct (nth_error (h_atoms h) i); discriminate.
  - intros Q; inversion Q; subst. reflexivity.
Qed.

Lemma node_valid h n : valid h n -> node h n <> VInvalid.
Proof.
  destruct n as [i|i|v]; cbn; intros V.
  - destruct (nth_error (h_pairs h) i) as [[x y]|] eqn:E; [discriminate|].
    apply nth_error_None in E. lia.
  - destruct (nth_error (h_atoms h) i) eqn:E; [discriminate|].
    apply nth_error_None in E. lia.
  - discriminate.
Qed.

Lemma sexp_of_pair_inv h n l r : sexp_of h n = SPairV l r ->
  exists i, n = NPair i /\ nth_error (h_pairs h) i = Some (l, r).
Proof.
  destruct n as [i|i|v]; cbn; try discriminate.
  destruct (nth_error (h_pairs h) i) as [[a b]|] eqn:E; intros Q; inversion Q; subst; eauto.
Qed.

Lemma sexp_of_atom_den h n : sexp_of h n = SAtom -> exists b, den h n = Atom b.
Proof.
  destruct n as [i|i|v]; cbn [sexp_of].
  - destruct (nth_error (h_pairs h) i) as [[a b]|]; discriminate.
  - intros _. rewrite den_bytes. eauto.
  - intros _. rewrite den_small. eauto.
Qed.

Lemma sexp_of_valid h n : valid h n -> sexp_of h n <> SInvalid.
Proof.
  destruct n as [i|i|v]; cbn; intros V; try discriminate.
  destruct (nth_error (h_pairs h) i) as [[x y]|] eqn:E; [discriminate|].
  apply nth_error_None in E. lia.
Qed.

(* ---------- growth ---------- *)
Lemma extends_refl h : extends h h.
Proof. split; exists []; now rewrite app_nil_r. Qed.

Lemma extends_trans a b c : extends a b -> extends b c -> extends a c.
Proof.
  intros [[p1 P1] [a1 A1]] [[p2 P2] [a2 A2]]. split.
  - exists (p1 ++ p2). rewrite P2, P1. now rewrite app_assoc.
  - exists (a1 ++ a2). rewrite A2, A1. now rewrite app_assoc.
Qed.

Lemma extends_valid h h' n : extends h h' -> valid h n -> valid h' n.
Proof.
  intros [[p P] [a A]]. unfold valid. destruct n; cbn; try tauto.
  - rewrite P, app_length. lia.
  - rewrite A, app_length. lia.
Qed.

Lemma extends_nth_pair h h' i x : extends h h' ->
  nth_error (h_pairs h) i = Some x -> nth_error (h_pairs h') i = Some x.
Proof.
  intros [[p P] _] E. rewrite P. rewrite nth_error_app1; [exact E|].
  apply nth_error_Some. congruence.
Qed.

Lemma den_f_extends h h' : extends h h' -> wf h ->
  forall f n, valid h n -> den_f f h' n = den_f f h n.
Proof.
  intros X W. induction f as [|f IH]; intros n V.
  - destruct n as [i|i|v]; try reflexivity.
    cbn. destruct X as [_ [a A]]. rewrite A. cbn in V. now rewrite app_nth1.
  - destruct n as [i|i|v]; try reflexivity.
    + cbn [den_f]. cbn in V.
      destruct (nth_error (h_pairs h) i) as [[l r]|] eqn:E.
      * rewrite (extends_nth_pair _ _ _ _ X E).
        destruct (wf_children_valid _ _ _ _ W E). f_equal; apply IH; assumption.
      * apply nth_error_None in E. lia.
    + cbn. destruct X as [_ [a A]]. rewrite A. cbn in V. now rewrite app_nth1.
Qed.

Lemma den_extends h h' n : extends h h' -> wf h -> wf h' -> valid h n -> den h' n = den h n.
Proof.
  intros X W W' V. unfold den.
  rewrite (den_f_extends _ _ X W _ _ V).
  apply den_f_stable; [exact W| |].
  - apply valid_below_rank in V.
    destruct X as [[p P] _]. rewrite P, app_length. lia.
  - apply valid_below_rank in V. lia.
Qed.

(* ---------- allocation ---------- *)
Lemma new_pair_spec h l r : wf h -> valid h l -> valid h r ->
  let '(h', n) := new_pair h l r in
  wf h' /\ extends h h' /\ valid h' n /\ den h' n = Pair (den h l) (den h r).
Proof.
  intros W Vl Vr. unfold new_pair.
  set (h' := mkHeap (h_pairs h ++ [(l, r)]) (h_atoms h)).
  assert (X : extends h h').
  { split; [exists [(l, r)]; reflexivity|exists []; cbn; now rewrite app_nil_r]. }
  assert (W' : wf h').
  { intros i a b E. cbn [h' h_pairs] in E.
    destruct (Nat.lt_ge_cases i (length (h_pairs h))) as [Lt|Ge].
    - rewrite nth_error_app1 in E by exact Lt. exact (W i a b E).
    - rewrite nth_error_app2 in E by exact Ge.
      destruct (i - length (h_pairs h))%nat as [|k] eqn:D.
      + cbn in E. inversion E; subst a b.
        assert (i = length (h_pairs h)) by lia. subst i.
        split; [exact Vl|exact Vr].
      + cbn in E. destruct k; discriminate. }
  split; [exact W'|]. split; [exact X|]. split.
  - unfold valid. cbn. rewrite app_length. cbn. lia.
  - assert (E : nth_error (h_pairs h') (length (h_pairs h)) = Some (l, r)).
    { cbn [h' h_pairs]. rewrite nth_error_app2 by lia. now rewrite Nat.sub_diag. }
    rewrite (den_pair _ _ _ _ W' E).
    now rewrite (den_extends _ _ _ X W W' Vl), (den_extends _ _ _ X W W' Vr).
Qed.

Lemma new_bytes_atom_spec h v : wf h ->
  let '(h', n) := new_bytes_atom h v in
  wf h' /\ extends h h' /\ valid h' n /\ den h' n = Atom v.
Proof.
  intros W. unfold new_bytes_atom.
  set (h' := mkHeap (h_pairs h) (h_atoms h ++ [v])).
  assert (X : extends h h').
  { split; [exists []; cbn; now rewrite app_nil_r|exists [v]; reflexivity]. }
  split.
  - intros i a b E. cbn [h' h_pairs] in E. destruct (W i a b E) as [Va Vb].
    split; [destruct a|destruct b]; cbn in *; try rewrite app_length; try lia.
  - split; [exact X|]. split.
    + unfold valid. cbn. rewrite app_length. cbn. lia.
    + rewrite den_bytes. cbn [h' h_atoms]. rewrite app_nth2 by lia. now rewrite Nat.sub_diag.
Qed.

Lemma fits_in_small_atom_canon v n : fits_in_small_atom v = Some n -> small_bytes n = v.
Proof.
  unfold fits_in_small_atom, small_bytes. destruct v as [|b0 tl]; intros Q.
  - inversion Q. reflexivity.
  - destruct (_ || _) eqn:C in Q; [discriminate|]. inversion Q; subst n. clear Q.
    apply orb_false_iff in C. destruct C as [C C5].
    apply orb_false_iff in C. destruct C as [C C4].
    apply orb_false_iff in C. destruct C as [C C3].
    apply orb_false_iff in C. destruct C as [C1 C2].
    apply N.leb_gt in C3.
    apply canon_n_unique; [|exact C3].
    destruct tl as [|b1 tl'].
    + cbn [is_minimal]. cbn [length Nat.eqb andb] in C2.
      now rewrite C2.
    + cbn [is_minimal].
      destruct (N.eqb_spec (b2n b0) 0) as [Z|NZ].
      * cbn [andb] in C4. rewrite C4. cbn [andb orb].
        destruct (N.eqb_spec (b2n b0) 255); [lia|reflexivity].
      * cbn [andb orb]. destruct (N.eqb_spec (b2n b0) 255); [lia|reflexivity].
Qed.

Lemma new_atom_spec h v : wf h ->
  let '(h', n) := new_atom h v in
  wf h' /\ extends h h' /\ valid h' n /\ den h' n = Atom v.
Proof.
  intros W. unfold new_atom. destruct (fits_in_small_atom v) as [k|] eqn:F.
  - split; [exact W|]. split; [apply extends_refl|]. split; [exact I|].
    rewrite den_small. f_equal. now apply fits_in_small_atom_canon.
  - apply new_bytes_atom_spec. exact W.
Qed.

Lemma wf_empty : wf empty_heap.
Proof. intros i l r E. destruct i; discriminate. Qed.
