(* Thash/PrecomputedProofs.v — the table PRECOMPUTED_HASHES read from tree_hash.rs on this run is
   SHA-256 (1 :: canonical bytes of the index), checked entry by entry with the Gallina SHA-256.
   Finite: exactly the entries of the table (24 on the pinned tree). *)
From ChiaV.Base Require Import Bytes Sha256.
From ChiaV.Clvm Require Import Sexp Ints TreeHash.
From ChiaV.Gen Require Import Precomputed.
From ChiaV.Thash Require Import Heap Mirror.
Open Scope N_scope.

Definition precomputed_expected (n : nat) : list bytes :=
  map (fun i => sha256 (x01 :: canon_n (N.of_nat i))) (seq 0 n).

Lemma precomputed_length : length precomputed_hashes = 24%nat.
Proof. reflexivity. Qed.

(* every entry, however many the source declares (recomputed on every run) *)
Lemma precomputed_table_eq : precomputed_hashes = precomputed_expected (length precomputed_hashes).
Proof. vm_compute. reflexivity. Qed.

Lemma precomputed_entry_any (i : N) :
  i < N.of_nat (length precomputed_hashes) ->
  nth (N.to_nat i) precomputed_hashes [] = sha256 (x01 :: canon_n i).
Proof.
  intros Hi. rewrite precomputed_table_eq at 1. unfold precomputed_expected.
  assert (Hn : (N.to_nat i < length precomputed_hashes)%nat) by lia.
  rewrite <- (N2Nat.id i) at 2.
  set (f := fun i0 : nat => sha256 (x01 :: canon_n (N.of_nat i0))).
  change (sha256 (x01 :: canon_n (N.of_nat (N.to_nat i)))) with (f (N.to_nat i)).
  rewrite (nth_indep _ [] (f 0%nat)) by (rewrite map_length, seq_length; exact Hn).
  rewrite map_nth. f_equal. rewrite seq_nth by exact Hn. reflexivity.
Qed.

Lemma precomputed_entry (i : N) :
  i < 24 -> nth (N.to_nat i) precomputed_hashes [] = sha256 (x01 :: canon_n i).
Proof. intros Hi. apply precomputed_entry_any. rewrite precomputed_length. exact Hi. Qed.

(* the form used as a hypothesis by the generic theorems *)
Definition table_ok (H : bytes -> bytes) : Prop :=
  forall v : N, v < N.of_nat (length precomputed_hashes) ->
    nth (N.to_nat v) precomputed_hashes [] = H (x01 :: small_bytes v).

Lemma table_ok_sha256 : table_ok sha256.
Proof. intros v Hv. apply precomputed_entry_any. exact Hv. Qed.

(* the mirror's use of the table: the U32 arm computes the reference hash of the small atom *)
Lemma small_atom_hash_th (H : bytes -> bytes) (v : N) :
  table_ok H -> small_atom_hash H v = th H (Atom (small_bytes v)).
Proof.
  intros T. unfold small_atom_hash.
  destruct (N.ltb_spec v (N.of_nat (length precomputed_hashes))) as [L|L].
  - apply T. exact L.
  - reflexivity.
Qed.

Lemma small_atom_hash_sha256 v : small_atom_hash sha256 v = th sha256 (Atom (canon_n v)).
Proof. apply small_atom_hash_th. exact table_ok_sha256. Qed.
