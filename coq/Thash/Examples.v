(* Thash/Examples.v — concrete instances showing that the hypotheses of the C17 theorems are
   satisfiable (non-vacuity), computed with the Gallina SHA-256. *)
From ChiaV.Base Require Import Bytes Sha256.
From ChiaV.Clvm Require Import Sexp Ints TreeHash.
From ChiaV.Gen Require Import Precomputed.
From ChiaV.Thash Require Import Heap Mirror Curry DeBr HeapProofs PrecomputedProofs TreeHashProofs CacheProofs DeBrProofs.
Open Scope N_scope.

(* a DAG: p0 = ([1,2,3] . 5), p1 = (p0 . p0), p2 = (p1 . p0) *)
Definition ex_heap : heap :=
  mkHeap [ (NBytes 0, NSmall 5); (NPair 0, NPair 0); (NPair 1, NPair 0) ] [ [x01; x02; x03] ].

Lemma ex_heap_wf : wf ex_heap.
Proof.
  intros i l r E. destruct i as [|[|[|i]]]; cbn in E; inversion E; subst; cbn; try lia.
  destruct i; discriminate.
Qed.

Lemma ex_valid : valid ex_heap (NPair 2).
Proof. cbn. lia. Qed.

Lemma ex_den : den ex_heap (NPair 2) =
  let p0 := Pair (Atom [x01; x02; x03]) (Atom [x05]) in Pair (Pair p0 p0) p0.
Proof. reflexivity. Qed.

(* a cache reached by a visit and two hashing calls holds memoized hashes *)
Lemma ex_reachable : exists c, reachable sha256 ex_heap c /\ c_hashes c <> [].
Proof.
  eexists. split.
  - eapply (R_hash sha256 ex_heap _ (NPair 2) 100%nat).
    + eapply (R_hash sha256 ex_heap _ (NPair 1) 100%nat).
      * eapply (R_visit sha256 ex_heap empty_cache (NPair 2) 100%nat).
        -- apply R_new. exact ex_heap_wf.
        -- exact ex_valid.
        -- vm_compute. reflexivity.
      * cbn. lia.
      * vm_compute. reflexivity.
    + exact ex_valid.
    + vm_compute. reflexivity.
  - vm_compute. discriminate.
Qed.

(* clvmr's own test vector: ("foobar" "foobar") written with a back-reference to the stack *)
Definition ex_br_bytes : bytes := [xff; x86; x66; x6f; x6f; x62; x61; x72; xfe; x01].
Definition ex_foobar : bytes := [x66; x6f; x6f; x62; x61; x72].

Lemma ex_deser_br : deser_br ex_br_bytes = DOk (Pair (Atom ex_foobar) (Pair (Atom ex_foobar) nil)).
Proof. vm_compute. reflexivity. Qed.

(* the same bytes are rejected by the plain deserializer: the back-reference clause is not vacuous *)
Lemma ex_plain_rejects : deser ex_br_bytes = None.
Proof. vm_compute. reflexivity. Qed.

Lemma ex_from_bytes : tree_hash_from_bytes sha256 100 ex_br_bytes
  = FOk (th sha256 (Pair (Atom ex_foobar) (Pair (Atom ex_foobar) nil))).
Proof. vm_compute. reflexivity. Qed.
