(* Thash/DeBr.v — clvmr 0.17.7 serde/de_br.rs: deserialization with back-references, and
   clvm-utils tree_hash_from_bytes on top of it.  Definitions only.

   Three machines with the same control flow:
     debr_s   on trees: the value stack is a list of trees; a back-reference path is followed in
              the stack read as the cons list (top . (next . ( ... . nil)))   [the specification]
     debr_h   on the allocator model: the value stack IS a cons list in the heap, a
              back-reference pushes the very node it points to (so the result is a DAG)
              [clvmr's stack-as-cons-list algorithm, node_from_stream_backrefs_old]
     debr_v   on the allocator model: the value stack is a Vec of (value, cached list); the cons
              list is materialised (and cached per entry) only when a path stops on the stack
              itself [node_from_stream_backrefs + traverse_path_with_vec, the one
              tree_hash_from_bytes uses]
   A path is the big-endian integer of the path atom: bits are consumed from the least
   significant one, 0 = first, 1 = rest, the most significant set bit is the end marker; the
   integer 0 denotes nil.  (traverse_path.rs)
   Fuel: one unit per popped parse op; 2 * length bs + 2 always suffices (DeBrProofs). *)
From ChiaV.Base Require Import Bytes.
From ChiaV.Clvm Require Import Sexp Ints.
From ChiaV.Thash Require Import Heap Mirror.
Open Scope N_scope.

Inductive dres (A : Type) := DOk (a : A) | DErr | DPanic | DFuel.
Arguments DOk {A} a.
Arguments DErr {A}.
Arguments DPanic {A}.
Arguments DFuel {A}.

Inductive parseop := PSExp | PCons.

(* ---------- paths ---------- *)
Fixpoint traverse_pos (p : positive) (t : sexp) : option sexp :=
  match p with
  | xH => Some t
  | xO q => match t with Pair l _ => traverse_pos q l | Atom _ => None end
  | xI q => match t with Pair _ r => traverse_pos q r | Atom _ => None end
  end.

Definition traverse_path (path : bytes) (t : sexp) : option sexp :=
  match be2n path with
  | N0 => Some nil
  | Npos p => traverse_pos p t
  end.

Fixpoint traverse_pos_h (h : heap) (p : positive) (n : nodeptr) : option nodeptr :=
  match p with
  | xH => Some n
  | xO q => match sexp_of h n with SPairV l _ => traverse_pos_h h q l | _ => None end
  | xI q => match sexp_of h n with SPairV _ r => traverse_pos_h h q r | _ => None end
  end.

Definition traverse_path_h (h : heap) (path : bytes) (n : nodeptr) : option nodeptr :=
  match be2n path with
  | N0 => Some (NSmall 0)
  | Npos p => traverse_pos_h h p n
  end.

(* Clvm/Sexp.parse_atom, with the "blob runs past the end of the buffer" test done on binary
   numbers BEFORE the declared size is turned into a (unary) nat: a 70-byte input may declare a
   2^34-byte atom, and N.to_nat of that costs gigabytes in the extracted runner.
   DeBrProofs.parse_atom_n_eq: it is the same function. *)
Definition parse_atom_n (b : byte) (rest : bytes) : option (bytes * bytes) :=
  if b2n b <? 128 then Some ([b], rest)
  else match decode_size (b2n b) rest with
       | None => None
       | Some (size, rest') =>
           if N.of_nat (length rest') <? size then None
           else let n := N.to_nat size in Some (firstn n rest', skipn n rest')
       end.

(* parse_atom.rs parse_atom: first byte [b] (not 0xff / 0xfe) already consumed *)
Definition parse_atom_bytes (b : byte) (rest : bytes) : option (bytes * bytes) :=
  if byte_eqb b x80 then Some ([], rest) else parse_atom_n b rest.

(* parse_path: reads its own first byte *)
Definition parse_path (bs : bytes) : option (bytes * bytes) :=
  match bs with
  | [] => None
  | pb :: rest => parse_atom_n pb rest
  end.

(* ---------- tree level ---------- *)
Fixpoint debr_s (fuel : nat) (ops : list parseop) (vals : list sexp) (bs : bytes) : dres sexp :=
  match ops with
  | [] => match vals with v :: _ => DOk v | [] => DPanic end
  | op :: ops' =>
      match fuel with
      | O => DFuel
      | S f =>
          match op with
          | PSExp =>
              match bs with
              | [] => DErr
              | b :: rest =>
                  if byte_eqb b xff then debr_s f (PSExp :: PSExp :: PCons :: ops') vals rest
                  else if byte_eqb b xfe then
                    match parse_path rest with
                    | None => DErr
                    | Some (path, rest') =>
                        match traverse_path path (list_to_sexp vals) with
                        | None => DErr
                        | Some v => debr_s f ops' (v :: vals) rest'
                        end
                    end
                  else
                    match parse_atom_bytes b rest with
                    | None => DErr
                    | Some (a, rest') => debr_s f ops' (Atom a :: vals) rest'
                    end
              end
          | PCons =>
              match vals with
              | rgt :: lft :: vs => debr_s f ops' (Pair lft rgt :: vs) bs
              | _ => DPanic
              end
          end
      end
  end.

Definition debr_fuel (bs : bytes) : nat := S (S (2 * length bs)).

(* node_from_bytes_backrefs at tree level *)
Definition deser_br (bs : bytes) : dres sexp := debr_s (debr_fuel bs) [PSExp] [] bs.

(* ---------- allocator level ---------- *)
Fixpoint debr_h (fuel : nat) (h : heap) (ops : list parseop) (values : nodeptr) (bs : bytes)
  : dres (heap * nodeptr) :=
  match ops with
  | [] => match sexp_of h values with SPairV v1 _ => DOk (h, v1) | _ => DPanic end
  | op :: ops' =>
      match fuel with
      | O => DFuel
      | S f =>
          match op with
          | PSExp =>
              match bs with
              | [] => DErr
              | b :: rest =>
                  if byte_eqb b xff then debr_h f h (PSExp :: PSExp :: PCons :: ops') values rest
                  else if byte_eqb b xfe then
                    match parse_path rest with
                    | None => DErr
                    | Some (path, rest') =>
                        match traverse_path_h h path values with
                        | None => DErr
                        | Some back_reference =>
                            let '(h1, v) := new_pair h back_reference values in
                            debr_h f h1 ops' v rest'
                        end
                    end
                  else
                    match parse_atom_bytes b rest with
                    | None => DErr
                    | Some (a, rest') =>
                        let '(h1, new_atom_) := new_atom h a in
                        let '(h2, v) := new_pair h1 new_atom_ values in
                        debr_h f h2 ops' v rest'
                    end
              end
          | PCons =>
              match sexp_of h values with
              | SPairV rgt rest1 =>
                  match sexp_of h rest1 with
                  | SPairV lft rest2 =>
                      let '(h1, new_root) := new_pair h lft rgt in
                      let '(h2, v) := new_pair h1 new_root rest2 in
                      debr_h f h2 ops' v bs
                  | _ => DPanic
                  end
              | _ => DPanic
              end
          end
      end
  end.

Definition node_from_bytes_backrefs_old (bs : bytes) : dres (heap * nodeptr) :=
  debr_h (debr_fuel bs) empty_heap [PSExp] (NSmall 0) bs.

(* ---------- allocator level, Vec of values with lazily cached stack lists ---------- *)
(* one Vec element: the value and, once built, the cons list of this value and everything below *)
Definition entry := (nodeptr * option nodeptr)%type.

(* the first phase of traverse_path_with_vec.  [vs] is the stack from args[arg_index] downwards
   (top first).  WStack j: the path ended on the stack itself, j entries below the top *)
Inductive walk := WErr | WNode (n : nodeptr) | WStack (j : nat).

Fixpoint walk_vec (h : heap) (p : positive) (vs : list entry) {struct vs} : walk :=
  match vs with
  | [] =>                                  (* args.is_empty(): parsing_sexp from the start, on NIL *)
      match traverse_pos_h h p (NSmall 0) with Some n => WNode n | None => WErr end
  | x :: below =>
      match p with
      | xH => WStack 0
      | xO q =>                            (* first: continue inside the value *)
          match traverse_pos_h h q (fst x) with Some n => WNode n | None => WErr end
      | xI q =>                            (* rest: next stack entry, or NIL below the last one *)
          match below with
          | [] => match traverse_pos_h h q (NSmall 0) with Some n => WNode n | None => WErr end
          | _ => match walk_vec h q below with WStack j => WStack (S j) | r => r end
          end
      end
  end.

(* the second phase: `for x in args.iter_mut().take(arg_index + 1)` from the bottom up, reusing
   and filling the per-entry caches.  Returns the new heap, the updated entries, the list node *)
Fixpoint materialise (h : heap) (vs : list entry) : heap * list entry * nodeptr :=
  match vs with
  | [] => (h, [], NSmall 0)
  | (v, cached) :: below =>
      let '(h1, below', tail) := materialise h below in
      match cached with
      | Some pr => (h1, (v, Some pr) :: below', pr)
      | None => let '(h2, pr) := new_pair h1 v tail in (h2, (v, Some pr) :: below', pr)
      end
  end.

Definition traverse_path_v (h : heap) (path : bytes) (vals : list entry)
  : option (heap * list entry * nodeptr) :=
  match be2n path with
  | N0 => Some (h, vals, NSmall 0)
  | Npos p =>
      match walk_vec h p vals with
      | WErr => None
      | WNode n => Some (h, vals, n)
      | WStack j =>
          let '(h1, vs', n) := materialise h (skipn j vals) in
          Some (h1, firstn j vals ++ vs', n)
      end
  end.

Fixpoint debr_v (fuel : nat) (h : heap) (ops : list parseop) (vals : list entry) (bs : bytes)
  : dres (heap * nodeptr) :=
  match ops with
  | [] => match vals with (v, _) :: _ => DOk (h, v) | [] => DPanic end
  | op :: ops' =>
      match fuel with
      | O => DFuel
      | S f =>
          match op with
          | PSExp =>
              match bs with
              | [] => DErr
              | b :: rest =>
                  if byte_eqb b xff then debr_v f h (PSExp :: PSExp :: PCons :: ops') vals rest
                  else if byte_eqb b xfe then
                    match parse_path rest with
                    | None => DErr
                    | Some (path, rest') =>
                        match traverse_path_v h path vals with
                        | None => DErr
                        | Some (h1, vals1, back_reference) =>
                            debr_v f h1 ops' ((back_reference, None) :: vals1) rest'
                        end
                    end
                  else
                    match parse_atom_bytes b rest with
                    | None => DErr
                    | Some (a, rest') =>
                        let '(h1, new_atom_) := new_atom h a in
                        debr_v f h1 ops' ((new_atom_, None) :: vals) rest'
                    end
              end
          | PCons =>
              match vals with
              | (rgt, _) :: (lft, _) :: vs =>
                  let '(h1, root_node) := new_pair h lft rgt in
                  debr_v f h1 ops' ((root_node, None) :: vs) bs
              | _ => DPanic
              end
          end
      end
  end.

Definition node_from_bytes_backrefs (bs : bytes) : dres (heap * nodeptr) :=
  debr_v (debr_fuel bs) empty_heap [PSExp] [] bs.

(* ---------- tree_hash_from_bytes ---------- *)
Inductive fb_result := FOk (hash : bytes) | FErr | FPanic | FFuel.

Section FromBytes.
  Variable H : bytes -> bytes.

  (* [fuel] is the fuel of tree_hash_cached; the deserializer's fuel is fixed by the input length *)
  Definition tree_hash_from_bytes (fuel : nat) (bs : bytes) : fb_result :=
    match node_from_bytes_backrefs bs with
    | DOk (h, n) =>
        match tree_hash_cached H fuel h n empty_cache with
        | Ok (x, _) => FOk x
        | Panic => FPanic
        | OutOfFuel => FFuel
        end
    | DErr => FErr
    | DPanic => FPanic
    | DFuel => FFuel
    end.

  (* the same on top of the old deserializer (not in clvm-utils; used to tie debr_h by execution) *)
  Definition tree_hash_from_bytes_old (fuel : nat) (bs : bytes) : fb_result :=
    match node_from_bytes_backrefs_old bs with
    | DOk (h, n) =>
        match tree_hash_cached H fuel h n empty_cache with
        | Ok (x, _) => FOk x
        | Panic => FPanic
        | OutOfFuel => FFuel
        end
    | DErr => FErr
    | DPanic => FPanic
    | DFuel => FFuel
    end.
End FromBytes.
