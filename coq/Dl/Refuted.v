(* Dl/Refuted.v — documentation of the PRE-FIX behaviour: on the operations as they were before the
   repairs (Dl/PreFix.v) the four witness histories violate C18; on the repaired mirror (Dl/Blob.v) the same
   calls are rejected with an error and leave the blob unchanged.  Proofs by vm_compute (Gallina SHA-256). *)
From ChiaV.Base Require Import Bytes Sha256.
From ChiaV.Dl Require Import Format Map Tree Blob Abs History Spec PreFix.
Open Scope N_scope.

Definition hh (n : N) : bytes := repeat_byte 32 (n2b n).

Definition w_batch_dup : list item := [(1, 1, hh 1); (2, 2, hh 2); (3, 3, hh 3); (4, 4, hh 4); (3, 9, hh 9)].
Definition w_batch_partial : list item := [(1, 1, hh 1); (1, 2, hh 2)].
Definition w_three : list op := [OInsert 1 1 (hh 1) RAuto; OInsert 2 2 (hh 2) RAuto; OInsert 3 3 (hh 3) RAuto].
Definition w_two_minus_one : list op := [OInsert 1 1 (hh 1) RAuto; OInsert 2 2 (hh 2) RAuto; ODelete 2].

(* former F-C18-1 *)
Lemma prefix_batch_duplicate_refuted :
  (let '(x, s) := batch_insert_pre sha256 w_batch_dup empty_blob in
   is_ok x = true /\ check_integrity sha256 s <> Ok tt) /\
  exists e, batch_insert sha256 w_batch_dup empty_blob = (Err e, empty_blob).
Proof. split; [vm_compute; split; [reflexivity|discriminate]|eexists; vm_compute; reflexivity]. Qed.

(* former F-C18-2 *)
Lemma prefix_upsert_other_hash_refuted :
  let s3 := run2 sha256 w_three empty_blob in
  check_integrity sha256 s3 = Ok tt /\
  (let '(x, s) := upsert_pre sha256 1 5 (hh 2) s3 in
   is_ok x = true /\ check_integrity sha256 s <> Ok tt /\ is_ok (reload (bytes_of_blocks (blocks s))) = false) /\
  exists e, upsert sha256 1 5 (hh 2) s3 = (Err e, s3).
Proof.
  cbv zeta. split; [vm_compute; reflexivity|]. split.
  - vm_compute. repeat split; try reflexivity; discriminate.
  - eexists. vm_compute. reflexivity.
Qed.

(* former F-C18-3 *)
Lemma prefix_batch_not_atomic_refuted :
  (let '(x, s) := batch_insert_pre sha256 w_batch_partial empty_blob in
   is_ok x = false /\ blocks s <> blocks empty_blob) /\
  exists e, batch_insert sha256 w_batch_partial empty_blob = (Err e, empty_blob).
Proof. split; [vm_compute; split; [reflexivity|discriminate]|eexists; vm_compute; reflexivity]. Qed.

(* former F-C18-4 *)
Lemma prefix_stale_index_refuted :
  let s3 := run2 sha256 w_two_minus_one empty_blob in
  get_keys_values s3 = Ok [(1, 1)] /\
  (let '(x, s) := insert_pre sha256 3 3 (hh 3) (LLeaf 2 SLeft) s3 in
   is_ok x = true /\ get_keys_values s = Ok [(2, 2); (3, 3)]) /\
  exists e, insert sha256 3 3 (hh 3) (LLeaf 2 SLeft) s3 = (Err e, s3).
Proof.
  cbv zeta. split; [vm_compute; reflexivity|]. split.
  - vm_compute. split; reflexivity.
  - eexists. vm_compute. reflexivity.
Qed.
