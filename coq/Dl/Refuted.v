(* Dl/Refuted.v — witnesses: histories in the known classes on which the faithful model violates C18.
   Proofs by vm_compute with the Gallina SHA-256. *)
From ChiaV.Base Require Import Bytes Sha256.
From ChiaV.Dl Require Import Format Map Tree Blob Abs History Spec.
Open Scope N_scope.

Definition hh (n : N) : bytes := repeat_byte 32 (n2b n).

(* F-C18-1: batch_insert with a duplicate key beyond the two items it inserts one by one *)
Definition w_batch_dup : list op :=
  [OBatch [(1, 1, hh 1); (2, 2, hh 2); (3, 3, hh 3); (4, 4, hh 4); (3, 9, hh 9)]].
(* F-C18-2: upsert with the hash of another leaf *)
Definition w_upsert_other : list op :=
  [OInsert 1 1 (hh 1) RAuto; OInsert 2 2 (hh 2) RAuto; OInsert 3 3 (hh 3) RAuto; OUpsert 1 5 (hh 2)].
(* F-C18-3: a failing batch_insert is not atomic (duplicate among the two items inserted one by one) *)
Definition w_batch_partial : op := OBatch [(1, 1, hh 1); (1, 2, hh 2)].
(* F-C18-4: insert at a stale (freed) leaf index *)
Definition w_stale_index : list op :=
  [OInsert 1 1 (hh 1) RAuto; OInsert 2 2 (hh 2) RAuto; ODelete 2; OInsert 3 3 (hh 3) (RIndex 2 SLeft)].

Lemma batch_duplicate_refuted :
  exists items, known_top [] (TBatch items) = true /\
    let '(x, s) := step2 sha256 (OBatch items) empty_blob in
    is_ok x = true /\ check_integrity sha256 s <> Ok tt.
Proof.
  exists [(1, 1, hh 1); (2, 2, hh 2); (3, 3, hh 3); (4, 4, hh 4); (3, 9, hh 9)].
  split; [vm_compute; reflexivity|]. vm_compute. split; [reflexivity|discriminate].
Qed.

Lemma upsert_other_hash_refuted :
  exists ops, known_hist2 sha256 ops empty_blob [] = true /\
    let s3 := run2 sha256 (removelast ops) empty_blob in
    let '(x, s) := step2 sha256 (last ops OHash) s3 in
    check_integrity sha256 s3 = Ok tt /\ is_ok x = true /\
    check_integrity sha256 s <> Ok tt /\ is_ok (reload (bytes_of_blocks (blocks s))) = false.
Proof.
  exists w_upsert_other. split; [vm_compute; reflexivity|].
  vm_compute. repeat split; try reflexivity; discriminate.
Qed.

Lemma batch_not_atomic_refuted :
  exists o, known_top [] (match op_to_top empty_blob o with Some t => t | None => THash end) = true /\
    let '(x, s) := step2 sha256 o empty_blob in
    is_ok x = false /\ blocks s <> blocks empty_blob.
Proof.
  exists w_batch_partial. split; [vm_compute; reflexivity|].
  vm_compute. split; [reflexivity|discriminate].
Qed.

Lemma stale_index_refuted :
  exists ops, known_hist2 sha256 ops empty_blob [] = true /\
    let s3 := run2 sha256 (removelast ops) empty_blob in
    let '(x, s) := step2 sha256 (last ops OHash) s3 in
    get_keys_values s3 = Ok [(1, 1)] /\ is_ok x = true /\
    get_keys_values s = Ok [(2, 2); (3, 3)].
Proof.
  exists w_stale_index. split; [vm_compute; reflexivity|].
  vm_compute. repeat split; reflexivity.
Qed.
