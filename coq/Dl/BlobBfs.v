(* Dl/BlobBfs.v — towards the accepted batch_insert (not yet used by a property theorem):
   get_min_height_leaf on the blob finds the leaf t_min_leaf finds on the tree. *)
From Coq Require Import Permutation.
From ChiaV.Base Require Import Bytes Sha256.
From ChiaV.Gen Require Import Dl.
From ChiaV.Dl Require Import Format Map Tree Blob Abs Inv History Spec FormatProofs MapProofs TreeProofs BlobLemmas BlobOps BlobOps2 BlobOps3 BlobOps5 BlobHash BlobIntegrity.
From Coq Require Import ZifyBool ZifyNat ZifyN.
Ltac Zify.zify_post_hook ::= Z.div_mod_to_equations.
Open Scope N_scope.

Section Bfs.
  Variable s : mblob.

  Lemma bfs_agree : forall f2 Q queued k,
    Forall (fun x => rep s (fst x) (snd x)) Q -> NoDup (qidx Q) -> (forall j, In j (qidx Q) -> ~ In j queued) ->
    t_bfs f2 (map (fun x => erase (snd x)) Q) = Some k ->
    forall f1, (f2 <= f1)%nat ->
    exists l i, bfs_first_leaf f1 s (qroots Q) queued = Ok l /\ l_key l = k /\ In (i, k, l_value l, l_hash l) (qleaves Q).
  Proof.
    induction f2 as [|f2 IH]; intros Q queued k Hrep Hnd Hdis Hb f1 Hf; [discriminate|].
    destruct f1 as [|f1]; [lia|]. destruct Q as [|[p t] Q']; [discriminate|].
    inversion Hrep as [|? ? Hr Hrep']; subst. cbn [fst snd] in Hr.
    cbn [map snd t_bfs] in Hb. cbn [qroots map snd bfs_first_leaf]. fold (qroots Q').
    unfold qidx in Hnd, Hdis. cbn [flat_map snd] in Hnd, Hdis. fold (qidx Q') in Hnd, Hdis.
    destruct t as [i k0 v h|i hh d l r]; cbn [erase it_index] in *; inversion Hr as [? ? ? ? ? Hg|? ? ? ? ? ? Hg Hl Hrr]; subst.
    - injection Hb as <-. unfold rbind. rewrite Hg. cbn [b_node]. eexists _, i. split; [reflexivity|]. split; [reflexivity|].
      unfold qleaves. cbn. now left.
    - unfold rbind. rewrite Hg. cbn [b_node i_left i_right].
      assert (Hiq : nmem i queued = false) by (apply nmem_false; apply Hdis; apply in_app_iff; left; now left).
      rewrite Hiq.
      destruct (NoDup_app_inv _ _ Hnd) as [Hnd_t [Hnd_Q' Hdis_t]].
      cbn [it_indices] in Hnd, Hnd_t, Hdis_t.
      set (Q2 := Q' ++ [(Some i, l); (Some i, r)]).
      assert (Eq : qroots Q' ++ [it_index l; it_index r] = qroots Q2) by (unfold Q2; rewrite qroots_app; reflexivity).
      assert (Eidx : qidx Q2 = qidx Q' ++ it_indices l ++ it_indices r).
      { unfold Q2. rewrite qidx_app. unfold qidx at 2. cbn [flat_map snd]. now rewrite app_nil_r. }
      rewrite Eq.
      destruct (IH Q2 (i :: queued) k) with (f1 := f1) as [lf [j [E [Ek Hin]]]].
      + unfold Q2. apply Forall_app. split; [exact Hrep'|]. constructor; [exact Hl|]. constructor; [exact Hrr|constructor].
      + rewrite Eidx. apply (Permutation_NoDup (l := (it_indices l ++ it_indices r) ++ qidx Q')); [apply Permutation_app_comm|].
        cbn [app] in Hnd. now inversion Hnd.
      + intros x Hx [<-|Hq].
        * rewrite Eidx in Hx. inversion Hnd_t as [|? ? Hi_lr _]; subst. apply in_app_iff in Hx as [Hx|Hx]; [apply (Hdis_t i); [now left|exact Hx]|contradiction].
        * rewrite Eidx in Hx. apply (Hdis x); [|exact Hq]. apply in_app_iff in Hx as [Hx|Hx]; apply in_app_iff; [now right|left; now right].
      + unfold Q2. rewrite map_app. exact Hb.
      + lia.
      + exists lf, j. split; [exact E|]. split; [exact Ek|]. unfold Q2 in Hin. rewrite qleaves_app in Hin.
        unfold qleaves at 2 in Hin. cbn [flat_map snd] in Hin. rewrite app_nil_r in Hin.
        unfold qleaves. cbn [flat_map snd it_leaves]. apply in_app_iff in Hin as [Hin|Hin]; apply in_app_iff; [now right|now left].
  Qed.
End Bfs.

Section MinLeaf.
  Variable H : bytes -> bytes.
  Hypothesis Hlen : forall x, length (H x) = HASH_BYTES.

  Theorem min_height_leaf_agree s t :
    Inv_tree H s t ->
    exists l i, get_min_height_leaf s = Ok l /\ t_min_leaf (erase t) = Some (l_key l) /\
                In (i, l_key l, l_value l, l_hash l) (it_leaves t).
  Proof.
    intros HI. pose proof (inv_rep _ _ _ HI) as Hrep. pose proof (inv_root _ _ _ HI) as Hroot.
    assert (Hidx : forall j, In j (it_indices t) -> j < nblocks s) by (apply (rep_indices_lt _ _ _ Hrep)).
    pose proof (pigeonhole (it_indices t) (length (blocks s)) (inv_nodup _ _ _ HI) Hidx) as Hsz.
    destruct (t_min_leaf_some H (Hne_of_len H Hlen) (erase t)) as [k [Ek _]].
    unfold get_min_height_leaf.
    assert (Hne : blocks s <> []).
    { intros E. assert (Hl : it_index t < nblocks s) by (apply Hidx; apply it_index_in). unfold nblocks in Hl. rewrite E in Hl. cbn [length] in Hl. lia. }
    destruct (blocks s) as [|b0 bl0] eqn:Eb; [congruence|]. rewrite <- Eb in *. clear Hne.
    assert (Eq : [0] = qroots [(None, t)]) by (unfold qroots; cbn [map snd]; now rewrite Hroot).
    rewrite Eq. unfold t_min_leaf in Ek.
    destruct (bfs_agree s (2 * t_size (erase t) + 2)%nat [(None, t)] [] k) with (f1 := (2 * length (blocks s) + 2)%nat) as [l [i [E [El Hin]]]].
    - constructor; [exact Hrep|constructor].
    - unfold qidx. cbn [flat_map snd]. rewrite app_nil_r. exact (inv_nodup _ _ _ HI).
    - intros j _ [].
    - exact Ek.
    - rewrite erase_size. lia.
    - exists l, i. split; [exact E|]. subst k. split; [exact Ek|]. unfold qleaves in Hin. cbn [flat_map snd] in Hin.
      now rewrite app_nil_r in Hin.
  Qed.
End MinLeaf.
