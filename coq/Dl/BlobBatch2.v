(* Dl/BlobBatch2.v — L2 -> L1: the accepted batch_insert.  Part 2: insert_subtree_at_key attaches the
   forest's single tree left of a leaf of the main tree = t_graft ref (t_join SLeft sub). *)
From Coq Require Import Permutation.
From ChiaV.Base Require Import Bytes Sha256.
From ChiaV.Gen Require Import Dl.
From ChiaV.Dl Require Import Format Map Tree Blob Abs Inv History Spec FormatProofs MapProofs TreeProofs BlobLemmas BlobOps BlobOps2 BlobOps3 BlobOps5 BlobHash BlobIntegrity BlobBfs BlobBatch.
From Coq Require Import ZifyBool ZifyNat ZifyN.
Ltac Zify.zify_post_hook ::= Z.div_mod_to_equations.
Open Scope N_scope.

Section Facts.
  Variable H : bytes -> bytes.

  (* what the forest invariant says about a leaf of the main tree in its context *)
  Lemma forest_plug_facts s c i k v h F :
    Forest H s (plug c (ILeaf i k v h)) F ->
    get_block s i = Ok (mkBlock false (NLeaf (mkLeaf h (ctx_par c) k v))) /\
    ctx_rep s c i /\
    ~ In i (ctx_indices c) /\ NoDup (ctx_indices c) /\
    (forall j, In j (i :: ctx_indices c) -> j < nblocks s) /\
    (k < 2 ^ 64 /\ v < 2 ^ 64 /\ length h = HASH_BYTES) /\
    Forall fr_ranges c /\ Forall wf_frame c /\
    ~ In k (ctx_keys c) /\ ~ In h (ctx_hashes c) /\
    closed c /\
    amap_get N.eqb k (k2i s) = Some i /\ amap_get bytes_eqb h (h2i s) = Some i.
  Proof.
    intros HF. set (lf0 := ILeaf i k v h) in *.
    destruct HF as [Hrep Hroot Hreps Hnd Hbound Hblen Hfnd Hfree Hflt Hk2i Hh2i Hkn Hhn Hkeys Hhashes [Hranges HrF] [Htwf HtF]].
    assert (Hin : In (i, k, v, h) (it_leaves (plug c lf0))).
    { apply (in_perm_iff _ _ _ (it_leaves_plug c lf0)). cbn. now left. }
    pose proof Hrep as Hrep0. apply rep_plug in Hrep as [Hleaf Hctx]. cbn [it_index lf0] in Hctx.
    assert (Hg : get_block s i = Ok (mkBlock false (NLeaf (mkLeaf h (ctx_par c) k v)))) by (inversion Hleaf; assumption).
    destruct (NoDup_app_inv _ _ Hnd) as [Hnd_t _].
    pose proof (Permutation_NoDup (it_indices_plug c lf0) Hnd_t) as Hnd'. cbn [lf0 it_indices app] in Hnd'.
    inversion Hnd' as [|? ? Hi_ctx Hnd_ctx]; subst.
    assert (Hidx : forall j, In j (i :: ctx_indices c) -> j < nblocks s).
    { intros j Hj. apply (rep_indices_lt _ _ _ Hrep0).
      eapply Permutation_in; [apply Permutation_sym; apply it_indices_plug|exact Hj]. }
    apply it_ranges_plug in Hranges as [Hlr Hfr].
    rewrite map_app in Hkeys, Hhashes.
    destruct (NoDup_app_inv _ _ Hkeys) as [Hkeys_t _]. destruct (NoDup_app_inv _ _ Hhashes) as [Hhashes_t _].
    pose proof (perm_nodup_map _ _ _ (it_leaves_plug c lf0) Hkeys_t) as Hkeys'. cbn [lf0 it_leaves app map lkey fst snd] in Hkeys'.
    inversion Hkeys' as [|? ? Hk_ctx Hkeys_ctx]; subst.
    pose proof (perm_nodup_map _ _ _ (it_leaves_plug c lf0) Hhashes_t) as Hhashes'. cbn [lf0 it_leaves app map snd] in Hhashes'.
    inversion Hhashes' as [|? ? Hh_ctx Hhashes_ctx]; subst.
    split; [exact Hg|]. split; [exact Hctx|]. split; [exact Hi_ctx|]. split; [exact Hnd_ctx|]. split; [exact Hidx|].
    split; [exact Hlr|]. split; [exact Hfr|]. split.
    { apply (frames_wf c (nblocks s)); [exact Hfr| |exact Hbound]. intros j Hj. apply Hidx. now right. }
    split; [exact Hk_ctx|]. split; [exact Hh_ctx|].
    split; [eapply twf_closed; exact Htwf|].
    split.
    - apply Hk2i. exists v, h. apply in_app_iff. now left.
    - apply Hh2i. exists k, v. apply in_app_iff. now left.
  Qed.
End Facts.

Lemma min_leaf_rep (H : bytes -> bytes) (Hlen : forall x, length (H x) = HASH_BYTES) s t :
  rep s None t -> it_index t = 0 -> NoDup (it_indices t) ->
  exists l i, get_min_height_leaf s = Ok l /\ t_min_leaf (erase t) = Some (l_key l) /\
              In (i, l_key l, l_value l, l_hash l) (it_leaves t).
Proof.
  intros Hrep Hroot Hnd.
  assert (Hidx : forall j, In j (it_indices t) -> j < nblocks s) by (apply (rep_indices_lt _ _ _ Hrep)).
  pose proof (pigeonhole (it_indices t) (length (blocks s)) Hnd Hidx) as Hsz.
  destruct (t_min_leaf_some H (Hne_of_len H Hlen) (erase t)) as [k [Ek _]].
  unfold get_min_height_leaf.
  assert (Hne : blocks s <> []).
  { intros E. assert (Hl : it_index t < nblocks s) by (apply Hidx; apply it_index_in). unfold nblocks in Hl. rewrite E in Hl. cbn [length] in Hl. lia. }
  destruct (blocks s) as [|b0 bl0] eqn:Eb; [congruence|]. rewrite <- Eb in *. clear Hne.
  assert (Eq : [0] = qroots [(None, t)]) by (unfold qroots; cbn [map snd]; now rewrite Hroot).
  rewrite Eq. unfold t_min_leaf in Ek.
  destruct (bfs_agree s (2 * t_size (erase t) + 2)%nat [(None, t)] [] k) with (f1 := (2 * length (blocks s) + 2)%nat) as [l [i [E [El Hin]]]].
  - constructor; [exact Hrep|constructor].
  - unfold qidx. cbn [flat_map snd]. rewrite app_nil_r. exact Hnd.
  - intros j _ [].
  - exact Ek.
  - rewrite erase_size. lia.
  - exists l, i. split; [exact E|]. subst k. split; [exact Ek|]. unfold qleaves in Hin. cbn [flat_map snd] in Hin.
    now rewrite app_nil_r in Hin.
Qed.

Section Attach.
  Variable H : bytes -> bytes.
  Hypothesis Hlen : forall x, length (H x) = HASH_BYTES.

  Definition att_node (b : N) (sub : itree) (li kref vr : N) (hr : bytes) : itree :=
    INode b (internal_hash H (it_hash sub) hr) false sub (ILeaf li kref vr hr).

  Theorem attach_ok s c li kref vr hr sub :
    Forest H s (plug c (ILeaf li kref vr hr)) [sub] -> c <> [] -> nblocks s + 1 <= 2 ^ 32 ->
    exists s' b,
      insert_subtree_at_key H kref (it_index sub) SLeft s = (Ok tt, s') /\
      Inv_tree H s' (plug (map set_dirty c) (att_node b sub li kref vr hr)) /\
      t_graft kref (t_join H SLeft (erase sub)) (erase (plug c (ILeaf li kref vr hr)))
      = Some (erase (plug (map set_dirty c) (att_node b sub li kref vr hr))) /\
      nblocks s' <= nblocks s + 1.
  Proof.
    intros HF Hc Hroom. set (old := ILeaf li kref vr hr) in *.
    destruct (forest_plug_facts H _ _ _ _ _ _ _ HF)
      as [Hg [Hctx [Hi_ctx [Hnd_ctx [Hidx [[Hkr [Hvr Hhr]] [Hfr [Hwfc [Hk_ctx [Hh_ctx [Hcl [Hki Hhi]]]]]]]]]]]].
    destruct HF as [Hrep Hroot Hreps Hnd Hbound Hblen Hfnd Hfree Hflt Hk2i Hh2i Hkn Hhn Hkeys Hhashes [Hranges HrF] [Htwf HtF]].
    inversion Hreps as [|? ? Hrsub _]; subst. inversion HrF as [|? ? Hrgsub _]; subst. inversion HtF as [|? ? [Htsub Hcsub] _]; subst.
    cbn [fidx fleaves flat_map] in *. rewrite app_nil_r in *.
    set (t := plug c old) in *. set (subidx := it_index sub) in *.
    set (U := it_indices t ++ it_indices sub) in *. set (L := it_leaves t ++ it_leaves sub) in *.
    destruct (NoDup_app_inv _ _ Hnd) as [Hnd_t [Hnd_sub Hdis_ts]].
    assert (Hindices0 : forall j, In j (it_indices t) <-> In j (li :: ctx_indices c)).
    { intros j. apply (in_perm_iff _ _ j (it_indices_plug c old)). }
    assert (Hleaves0 : Permutation (it_leaves t) ((li, kref, vr, hr) :: ctx_leaves c)) by apply it_leaves_plug.
    assert (HU_lt : forall i, In i U -> i < nblocks s).
    { intros i Hi. unfold U in Hi. apply in_app_iff in Hi as [Hi|Hi]; [exact (rep_indices_lt _ _ _ Hrep i Hi)|exact (rep_indices_lt _ _ _ Hrsub i Hi)]. }
    assert (Hsub_U : forall j, In j (it_indices sub) -> In j U) by (intros j Hj; apply in_app_iff; now right).
    assert (Ht_U : forall j, In j (li :: ctx_indices c) -> In j U) by (intros j Hj; apply in_app_iff; left; now apply Hindices0).
    (* A: the new internal index *)
    assert (HA0 : AllocU s U []).
    { unfold AllocU. split; [exact Hfnd|]. split; [|split; [exact Hflt|split; [intros a []|split; [constructor|exact HU_lt]]]].
      intros i Hi. rewrite (Hfree i Hi). cbn [In]. tauto. }
    destruct (get_new_index_specU s U [] HA0 Hblen) as [b [s1 [Ea [HA1 [Hget1 [Hn1a [Hn1b [Hbl1 [Hk1 [Hh1 Hfa1]]]]]]]]]].
    destruct HA1 as [Hfnd1 [Hiff1 [Hflt1 [HAA1 [_ HU_lt1]]]]].
    destruct (HAA1 b (or_introl eq_refl)) as [Hb_lt Hb_U].
    assert (Hnot_free1 : forall j, In j U -> ~ In j (free s1)).
    { intros j Hj Hx. assert (Hl : j < nblocks s1) by (apply HU_lt1; exact Hj). apply (Hiff1 j Hl) in Hx as [Hx _]. contradiction. }
    destruct c as [|[p hh d lh sibf] c']; [congruence|]. clear Hc.
    cbn [ctx_rep frame_rep ctx_par fr_idx] in Hctx. destruct Hctx as [[Hgp Hsibf] Hctx'].
    set (c := Fr p hh d lh sibf :: c') in *.
    assert (Hp_c : In p (ctx_indices c)) by (apply ctx_indices_cons; now left).
    assert (Hp_li : p <> li) by (intros ->; contradiction).
    assert (Hb_li : b <> li) by (intros ->; apply Hb_U, Ht_U; now left).
    assert (Hb_ctx : ~ In b (ctx_indices c)) by (intros Hx; apply Hb_U, Ht_U; now right).
    assert (Hb_p : b <> p) by (intros ->; contradiction).
    assert (Hb_sub : ~ In b (it_indices sub)) by (intros Hx; apply Hb_U, Hsub_U, Hx).
    assert (Hsub_t : forall j, In j (it_indices sub) -> ~ In j (li :: ctx_indices c)).
    { intros j Hj Hx. apply (Hdis_ts j); [now apply Hindices0|exact Hj]. }
    assert (Hsubidx_in : In subidx (it_indices sub)) by apply it_index_in.
    assert (Hsub_li : subidx <> li) by (intros E; apply (Hsub_t subidx Hsubidx_in); left; now rewrite E).
    assert (Hsub_p : subidx <> p) by (intros E; apply (Hsub_t subidx Hsubidx_in); right; now rewrite E).
    assert (Hsub_b : subidx <> b) by (intros E; apply Hb_sub; now rewrite <- E).
    assert (Hli_lt : li < nblocks s) by (apply Hidx; now left).
    assert (Hp_lt : p < nblocks s) by (apply Hidx; now right).
    assert (Hsubidx_lt : subidx < nblocks s) by (apply HU_lt, Hsub_U, Hsubidx_in).
    inversion Hwfc as [|? ? [Hhh [Hp32 Hsib32]] Hwfc']; subst. cbn [fr_hash fr_idx fr_sib] in *.
    pose proof Hnd_ctx as Hnd_ctx0.
    unfold c, ctx_indices in Hnd_ctx. cbn [flat_map fr_idx fr_sib] in Hnd_ctx. fold (ctx_indices c') in Hnd_ctx.
    inversion Hnd_ctx as [|? ? Hp_rest Hnd_rest]; subst.
    destruct (NoDup_app_inv _ _ Hnd_rest) as [Hnd_sibf [Hnd_c' Hdis_sibf_c']].
    (* run: B, C *)
    unfold insert_subtree_at_key. unfold bind at 1. rewrite Ea.
    unfold bind at 1. unfold read at 1. unfold get_leaf_by_key. rewrite Hk1, Hki. unfold rbind at 1.
    rewrite (Hget1 li Hli_lt), Hg. cbn [b_node].
    unfold bind at 1. unfold read at 1. unfold get_node, rbind at 1.
    pose proof (rep_root_block _ _ _ Hrsub) as Hgsub. fold subidx in Hgsub. rewrite (Hget1 subidx Hsubidx_lt), Hgsub.
    cbn [fst snd l_hash l_parent]. change (ctx_par c) with (Some p). rewrite root_block_hash.
    (* D: the new internal node *)
    set (ihv := internal_hash H (it_hash sub) hr).
    set (nb_b := mkBlock false (NInt (mkInode ihv (Some p) subidx li))).
    assert (Hwb : wf_block nb_b).
    { unfold nb_b, wf_block, wf_node, wf_inode. cbn. split; [apply Hlen|]. split; [exact Hp32|]. unfold nblocks in *. split; lia. }
    destruct (insert_entry_spec b nb_b s1 Hwb) as [s2 [E2 [Hget2 [Hn2 [Hbl2 [Hf2 [Hk2 Hh2]]]]]]]; [lia|exact Hbl1|].
    unfold bind at 1. fold nb_b. rewrite E2.
    assert (Hn2' : nblocks s2 = nblocks s1) by (rewrite Hn2; destruct (N.eqb_spec b (nblocks s1)); [lia|reflexivity]).
    assert (Hf2' : free s2 = free s1) by (rewrite Hf2; now apply free_remove_notin).
    cbn [nb_b b_node] in Hk2, Hh2.
    (* E: the subtree root gets its parent *)
    assert (Hrsub2 : rep s2 None sub).
    { eapply rep_frame; [|exact Hrsub]. intros j Hj. rewrite Hget2. destruct (N.eqb_spec j b) as [->|]; [contradiction|].
      apply Hget1. apply HU_lt. now apply Hsub_U. }
    assert (Hpb : wf_parent (Some b)) by (cbn; lia).
    assert (Hb2 : nblocks s2 <= 2 ^ 32) by lia.
    assert (Hsub_lt2 : forall j, In j (it_indices sub) -> j < nblocks s2) by (intros j Hj; rewrite Hn2'; apply HU_lt1; now apply Hsub_U).
    assert (Hsub_fr2 : ~ In (it_index sub) (free s2)) by (rewrite Hf2'; apply Hnot_free1, Hsub_U, it_index_in).
    destruct (update_parent_spec s2 None (Some b) sub Hrsub2 Hrgsub Hsub_lt2 Hb2 Hpb Hbl2 Hsub_fr2) as [s3 [E3 [Hget3 [Hn3 [Hbl3 [Hf3 [Hk3 Hh3]]]]]]].
    fold subidx in E3, Hget3, Hk3, Hh3.
    unfold bind at 1. rewrite E3.
    (* F: the old parent now points to the new internal node *)
    assert (Hg3_p : get_block s3 p = Ok (mkBlock d (NInt (mkInode hh (ctx_par c') (if lh then li else it_index sibf) (if lh then it_index sibf else li))))).
    { rewrite Hget3. destruct (N.eqb_spec p subidx); [congruence|]. rewrite Hget2. destruct (N.eqb_spec p b); [congruence|].
      rewrite (Hget1 p Hp_lt). exact Hgp. }
    unfold bind at 1. unfold read at 1. rewrite Hg3_p. cbn [b_node b_dirty].
    set (n' := mkInode hh (ctx_par c') (if lh then b else it_index sibf) (if lh then it_index sibf else b)).
    assert (Hsibf_li : it_index sibf <> li).
    { intros E. apply Hi_ctx. apply ctx_indices_cons. right. left. cbn [fr_sib]. rewrite <- E. apply it_index_in. }
    assert (Erc : replace_child (mkInode hh (ctx_par c') (if lh then li else it_index sibf) (if lh then it_index sibf else li)) li b = Some n').
    { unfold n'. destruct lh.
      - now rewrite replace_child_left by reflexivity.
      - rewrite replace_child_right; [reflexivity| |reflexivity]. cbn [i_left]. congruence. }
    rewrite Erc.
    set (nb_p := mkBlock d (NInt n')).
    assert (Hwp : wf_block nb_p).
    { unfold nb_p, n', wf_block, wf_node, wf_inode. cbn. split; [exact Hhh|]. split; [now apply ctx_par_lt|].
      unfold nblocks in *. destruct lh; split; lia. }
    destruct (insert_entry_spec p nb_p s3 Hwp) as [s4 [E4 [Hget4 [Hn4 [Hbl4 [Hf4 [Hk4 Hh4]]]]]]]; [lia|exact Hbl3|].
    unfold bind at 1. fold nb_p. rewrite E4.
    assert (Hn4' : nblocks s4 = nblocks s1) by (rewrite Hn4, Hn3, Hn2'; destruct (N.eqb_spec p (nblocks s1)); [lia|reflexivity]).
    assert (Hf4' : free s4 = free s1).
    { rewrite Hf4, Hf3, Hf2'. apply free_remove_notin. apply Hnot_free1, Ht_U. now right. }
    cbn [nb_p b_node] in Hk4, Hh4.
    assert (Hget04 : forall j, j < nblocks s -> j <> b -> j <> subidx -> j <> p -> get_block s4 j = get_block s j).
    { intros j Hj Jb Js Jp. rewrite Hget4. destruct (N.eqb_spec j p); [congruence|]. rewrite Hget3.
      destruct (N.eqb_spec j subidx); [congruence|]. rewrite Hget2. destruct (N.eqb_spec j b); [congruence|]. now apply Hget1. }
    (* G: mark the lineage *)
    assert (Hsibf_not : forall j, In j (it_indices sibf) -> j < nblocks s /\ j <> b /\ j <> subidx /\ j <> p).
    { intros j Hj. assert (Hjc : In j (ctx_indices c)) by (apply ctx_indices_cons; right; now left).
      split; [apply Hidx; now right|]. split; [intros ->; contradiction|]. split.
      - intros ->. apply (Hsub_t subidx Hsubidx_in). now right.
      - intros ->. apply Hp_rest. apply in_app_iff. now left. }
    assert (Hc'_not : forall j, In j (ctx_indices c') -> j < nblocks s /\ j <> b /\ j <> subidx /\ j <> p).
    { intros j Hj. assert (Hjc : In j (ctx_indices c)) by (apply ctx_indices_cons; right; now right).
      split; [apply Hidx; now right|]. split; [intros ->; contradiction|]. split.
      - intros ->. apply (Hsub_t subidx Hsubidx_in). now right.
      - intros ->. apply Hp_rest. apply in_app_iff. now right. }
    assert (Hctx4 : ctx_rep s4 c b).
    { cbn [c ctx_rep frame_rep ctx_par fr_idx]. split; [split|].
      - rewrite Hget4, N.eqb_refl. reflexivity.
      - eapply rep_frame; [|exact Hsibf]. intros j Hj. destruct (Hsibf_not j Hj) as [J1 [J2 [J3 J4]]]. now apply Hget04.
      - eapply ctx_rep_frame; [|exact Hctx']. intros j Hj. destruct (Hc'_not j Hj) as [J1 [J2 [J3 J4]]]. now apply Hget04. }
    pose proof (mark_ctx c s4 b (S (length (blocks s4))) Hctx4 Hcl Hbl4 Hnd_ctx0) as Hm.
    cbn [c] in Hm. fold c in Hm. destruct Hm as [s5 [E5 [Hctx5 [Hget5 [Hn5 [Hbl5 [Hf5 [Hk5 Hh5]]]]]]]].
    { unfold nblocks in *. lia. }
    { exact Hwfc. }
    { intros g Hgin. rewrite Hf4'. apply Hnot_free1, Ht_U. right. apply fr_idx_in_ctx. now apply in_map. }
    { pose proof (ctx_length_indices c). pose proof (pigeonhole (ctx_indices c) (length (blocks s)) Hnd_ctx0) as Hp.
      assert (length (ctx_indices c) <= length (blocks s))%nat by (apply Hp; intros x Hx; apply Hidx; now right).
      unfold nblocks in *. lia. }
    unfold bind at 1. unfold mark_lineage_as_dirty. cbn [fr_idx] in E5. rewrite E5.
    (* H: the old leaf gets its new parent *)
    assert (Hli_fr : ~ In li (map fr_idx c)) by (intros Hx; apply Hi_ctx; now apply fr_idx_in_ctx).
    assert (Hg5_li : get_block s5 li = Ok (root_block old (Some p))).
    { rewrite Hget5 by exact Hli_fr. rewrite Hget04; auto. }
    assert (Hrold5 : rep s5 (Some p) old) by (constructor; exact Hg5_li).
    assert (Hb5 : nblocks s5 <= 2 ^ 32) by lia.
    assert (Hold_lt5 : forall j, In j (it_indices old) -> j < nblocks s5) by (intros j [<-|[]]; lia).
    assert (Hold_fr5 : ~ In (it_index old) (free s5)).
    { cbn [old it_index]. rewrite Hf5, Hf4'. apply Hnot_free1, Ht_U. now left. }
    assert (Hrg_old : it_ranges old) by (cbn; auto).
    destruct (update_parent_spec s5 (Some p) (Some b) old Hrold5 Hrg_old Hold_lt5 Hb5 Hpb Hbl5 Hold_fr5) as [s6 [E6 [Hget6 [Hn6 [Hbl6 [Hf6 [Hk6 Hh6]]]]]]].
    cbn [old it_index] in E6, Hget6, Hk6, Hh6.
    unfold bind at 1. rewrite E6. unfold ret.
    exists s6, b. split; [reflexivity|].
    set (nn := att_node b sub li kref vr hr).
    assert (Hleaves' : Permutation (it_leaves (plug (map set_dirty c) nn)) L).
    { eapply Permutation_trans; [apply it_leaves_plug|]. rewrite ctx_leaves_dirty. unfold nn, att_node, L. cbn [it_leaves].
      eapply Permutation_trans; [|apply Permutation_app_tail; apply Permutation_sym; exact Hleaves0].
      rewrite <- app_assoc. cbn [app]. eapply Permutation_trans; [apply Permutation_app_comm|]. cbn [app]. reflexivity. }
    assert (Hindices' : Permutation (it_indices (plug (map set_dirty c) nn)) (b :: U)).
    { eapply Permutation_trans; [apply it_indices_plug|]. rewrite ctx_indices_dirty. unfold nn, att_node, U. cbn [it_indices app].
      constructor. eapply Permutation_trans; [|apply Permutation_app_tail; apply Permutation_sym; apply (it_indices_plug c old)].
      cbn [old it_indices app]. rewrite <- app_assoc. cbn [app]. apply Permutation_app_comm. }
    assert (Hgraft : t_graft kref (t_join H SLeft (erase sub)) (erase t) = Some (erase (plug (map set_dirty c) nn))).
    { apply graft_plug.
      - apply Forall_forall. intros g Hgin Hx. apply Hk_ctx. apply ctx_keys_in. eauto.
      - cbn [old erase t_graft]. rewrite N.eqb_refl. unfold nn, att_node. cbn [erase t_join t_hash]. now rewrite erase_hash. }
    assert (Hn6' : nblocks s6 = nblocks s1) by congruence.
    assert (Hf6' : free s6 = free s1) by congruence.
    (* caches: pointwise unchanged *)
    assert (HkL : forall i k v h, In (i, k, v, h) L -> amap_get N.eqb k (k2i s) = Some i) by (intros; apply Hk2i; eauto).
    assert (HhL : forall i k v h, In (i, k, v, h) L -> amap_get bytes_eqb h (h2i s) = Some i) by (intros; apply Hh2i; eauto).
    assert (Hk6' : forall k', amap_get N.eqb k' (k2i s6) = amap_get N.eqb k' (k2i s)).
    { intros k'. rewrite Hk6, Hk5, Hk4, Hk3, Hk2, Hk1. unfold old. cbn [root_k2i]. rewrite (amap_get_set N.eqb N.eqb_spec).
      destruct (N.eqb_spec k' kref) as [->|].
      - symmetry. exact Hki.
      - apply (root_k2i_same sub). intros i k v h E. eapply HkL. apply in_app_iff. right. rewrite E. cbn. now left. }
    assert (Hh6' : forall h', amap_get bytes_eqb h' (h2i s6) = amap_get bytes_eqb h' (h2i s)).
    { intros h'. rewrite Hh6, Hh5, Hh4, Hh3, Hh2, Hh1. unfold old. cbn [root_h2i]. rewrite (amap_get_set bytes_eqb bytes_eqb_spec).
      destruct (bytes_eqb_spec h' hr) as [->|].
      - symmetry. exact Hhi.
      - apply (root_h2i_same sub). intros i k v h E. eapply HhL. apply in_app_iff. right. rewrite E. cbn. now left. }
    split; [|split; [exact Hgraft|lia]].
    assert (Hnf : forall j, j = b \/ j = li \/ In j (it_indices sub) -> ~ In j (map fr_idx c)).
    { intros j Hj Hx. apply fr_idx_in_ctx in Hx. destruct Hj as [E|[E|Hj]]; subst; try contradiction.
      apply (Hsub_t j Hj). now right. }
    constructor.
    - (* rep *)
      apply rep_plug. rewrite ctx_par_dirty. cbn [c ctx_par fr_idx]. split.
      + unfold nn, att_node. constructor.
        * rewrite Hget6. destruct (N.eqb_spec b li); [congruence|]. rewrite Hget5 by (apply Hnf; auto).
          rewrite Hget4. destruct (N.eqb_spec b p); [congruence|]. rewrite Hget3. destruct (N.eqb_spec b subidx); [congruence|].
          rewrite Hget2, N.eqb_refl. reflexivity.
        * eapply (rep_reparent s s6 None (Some b)); [exact Hrsub|exact Hnd_sub| |].
          -- fold subidx. rewrite Hget6. destruct (N.eqb_spec subidx li); [congruence|]. rewrite Hget5 by (apply Hnf; auto).
             rewrite Hget4. destruct (N.eqb_spec subidx p); [congruence|]. rewrite Hget3, N.eqb_refl. reflexivity.
          -- intros j Hj Hne. fold subidx in Hne. rewrite Hget6. destruct (N.eqb_spec j li) as [->|]; [exfalso; apply (Hsub_t li Hj); now left|].
             rewrite Hget5 by (apply Hnf; auto). apply Hget04; [apply HU_lt, Hsub_U, Hj|intros ->; contradiction|exact Hne|].
             intros ->. apply (Hsub_t p Hj). now right.
        * constructor. rewrite Hget6, N.eqb_refl. reflexivity.
      + cbn [it_index nn att_node]. eapply ctx_rep_frame; [|exact Hctx5]. intros j Hj. rewrite ctx_indices_dirty in Hj. rewrite Hget6.
        destruct (N.eqb_spec j li) as [->|]; [contradiction|reflexivity].
    - (* root *)
      rewrite <- Hroot. unfold t. rewrite (it_index_plug (map set_dirty c) nn old) by (cbn [c map]; discriminate).
      apply it_index_plug_dirty. reflexivity.
    - eapply Permutation_NoDup; [apply Permutation_sym; exact Hindices'|]. constructor; [exact Hb_U|exact Hnd].
    - fold (nblocks s6). lia.
    - exact Hbl6.
    - rewrite Hf6'. exact Hfnd1.
    - intros j Hj. fold (nblocks s6) in Hj. rewrite Hn6' in Hj. rewrite Hf6', (Hiff1 j Hj), (in_perm_iff _ _ j Hindices'). cbn [In]. split.
      + intros [A B] [C|C]; [apply B; now left|contradiction].
      + intros A. split; [intros C; apply A; now right|intros [C|[]]; apply A; now left].
    - intros j Hj. rewrite Hf6' in Hj. fold (nblocks s6). rewrite Hn6'. now apply Hflt1.
    - intros k i. rewrite Hk6', Hk2i. split; intros [v [h Hx]]; exists v, h; [apply (in_perm_iff _ _ _ Hleaves')|apply (in_perm_iff _ _ _ Hleaves') in Hx]; exact Hx.
    - intros h i. rewrite Hh6', Hh2i. split; intros [k [v Hx]]; exists k, v; [apply (in_perm_iff _ _ _ Hleaves')|apply (in_perm_iff _ _ _ Hleaves') in Hx]; exact Hx.
    - rewrite Hk6, Hk5, Hk4, Hk3, Hk2, Hk1. unfold old. cbn [root_k2i]. apply amap_set_nodup; [exact N.eqb_spec|]. apply root_k2i_nodup. exact Hkn.
    - rewrite Hh6, Hh5, Hh4, Hh3, Hh2, Hh1. unfold old. cbn [root_h2i]. apply amap_set_nodup; [exact bytes_eqb_spec|]. apply root_h2i_nodup. exact Hhn.
    - unfold it_keys. eapply perm_nodup_map; [apply Permutation_sym; exact Hleaves'|exact Hkeys].
    - unfold it_lhashes. eapply perm_nodup_map; [apply Permutation_sym; exact Hleaves'|exact Hhashes].
    - apply it_ranges_plug. split; [|now apply fr_ranges_dirty]. unfold nn, att_node. cbn [it_ranges]. split; [apply Hlen|]. split; [exact Hrgsub|auto].
    - eapply graft_twf; [exact Htwf| |exact Hgraft]. intros v1 h1. cbn [t_join twf t_all_clean t_hash]. rewrite Hcsub. repeat split; auto.
  Qed.
End Attach.
