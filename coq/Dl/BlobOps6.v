(* Dl/BlobOps6.v — L2 -> L1: the complete insert / delete / upsert operations (all locations, all
   outcomes) against the tree operations, and histories made of them. *)
From Coq Require Import Permutation.
From ChiaV.Base Require Import Bytes Sha256.
From ChiaV.Gen Require Import Dl.
From ChiaV.Dl Require Import Format Map Tree Blob Abs Inv History Spec FormatProofs MapProofs TreeProofs BlobLemmas BlobOps BlobOps2 BlobOps3 BlobOps4 BlobOps5.
From Coq Require Import ZifyBool ZifyNat ZifyN.
Ltac Zify.zify_post_hook ::= Z.div_mod_to_equations.
Open Scope N_scope.


Section Link.
  Variable H : bytes -> bytes.
  Hypothesis Hlen : forall x, length (H x) = HASH_BYTES.
  Notation step_ok := (step_ok H).

  Lemma key_cached s t k : Inv_tree H s t -> (amap_mem N.eqb k (k2i s) = true <-> In k (it_keys t)).
  Proof.
    intros HI. unfold amap_mem. split.
    - destruct (amap_get N.eqb k (k2i s)) as [i|] eqn:E; [|discriminate]. intros _.
      apply (inv_k2i _ _ _ HI) in E as [v [h Hx]]. unfold it_keys. apply in_map_iff. eexists. split; [|exact Hx]. reflexivity.
    - unfold it_keys. intros Hin. apply in_map_iff in Hin as [[[[i k0] v] h] [E Hx]]. cbn in E. subst k0.
      assert (E : amap_get N.eqb k (k2i s) = Some i) by (apply (inv_k2i _ _ _ HI); eauto). now rewrite E.
  Qed.

  Lemma hash_cached s t h : Inv_tree H s t -> (amap_mem bytes_eqb h (h2i s) = true <-> In h (it_lhashes t)).
  Proof.
    intros HI. unfold amap_mem. split.
    - destruct (amap_get bytes_eqb h (h2i s)) as [i|] eqn:E; [|discriminate]. intros _.
      apply (inv_h2i _ _ _ HI) in E as [k [v Hx]]. unfold it_lhashes. apply in_map_iff. eexists. split; [|exact Hx]. reflexivity.
    - unfold it_lhashes. intros Hin. apply in_map_iff in Hin as [[[[i k] v] h0] [E Hx]]. cbn in E. subst h0.
      assert (E : amap_get bytes_eqb h (h2i s) = Some i) by (apply (inv_h2i _ _ _ HI); eauto). now rewrite E.
  Qed.

  Lemma m_mem_erase t k : m_mem k (t_kv (erase t)) = true <-> In k (it_keys t).
  Proof. rewrite m_mem_in. fold (tkeys (erase t)). fold (tkeys_i t). now rewrite tkeys_i_keys. Qed.
  Lemma m_has_hash_erase t h : m_has_hash h (t_kv (erase t)) = true <-> In h (it_lhashes t).
  Proof. rewrite m_has_hash_in. now rewrite erase_hashes. Qed.

  Lemma bool_iff_eq (a b : bool) : (a = true <-> b = true) -> a = b.
  Proof. destruct a, b; intuition congruence. Qed.

  (* insert at the index of a live leaf *)
  Lemma insert_at_live s t k v h i sd ref v0 h0 :
    Inv_tree H s t -> in_range k v h -> room s -> In (i, ref, v0, h0) (it_leaves t) ->
    exists x s' ok1 ot1,
      insert H k v h (LLeaf i sd) s = (x, s') /\ t_insert H k v h (TKey ref sd) (Some (erase t)) = (ok1, ot1) /\
      stops x = false /\ is_ok x = ok1 /\ Abs H s' ot1 /\ (ok1 = false -> s' = s).
  Proof.
    intros HI [Hk [Hv Hh]] Hroom Hin.
    pose proof (key_cached s t k HI) as Hkc. pose proof (hash_cached s t h HI) as Hhc.
    pose proof (bool_iff_eq _ _ (iff_trans Hkc (iff_sym (m_mem_erase t k)))) as Ek.
    pose proof (bool_iff_eq _ _ (iff_trans Hhc (iff_sym (m_has_hash_erase t h)))) as Eh.
    destruct (amap_mem N.eqb k (k2i s)) eqn:Ekm.
    { exists (Err E_KeyAlreadyPresent), s, false, (Some (erase t)). unfold insert, t_insert. cbn [ot_kv]. rewrite Ekm, <- Ek.
      repeat split; auto. right. eauto. }
    destruct (amap_mem bytes_eqb h (h2i s)) eqn:Ehm.
    { exists (Err E_HashAlreadyPresent), s, false, (Some (erase t)). unfold insert, t_insert. cbn [ot_kv]. rewrite Ekm, Ehm, <- Ek, <- Eh.
      repeat split; auto. right. eauto. }
    assert (Hkf : ~ In k (it_keys t)) by (intros Hx; apply Hkc in Hx; congruence).
    assert (Hhf : ~ In h (it_lhashes t)) by (intros Hx; apply Hhc in Hx; congruence).
    destruct (leaf_in_ctx _ _ Hin) as [c Et]. cbn in Et. subst t.
    destruct c as [|f c'].
    - cbn [plug] in *.
      assert (Hkne : k <> ref) by (intros ->; apply Hkf; cbn; now left).
      assert (Hhne : h <> h0) by (intros ->; apply Hhf; cbn; now left).
      destruct (insert_second_ok H Hlen s i ref v0 h0 k v h sd HI Hk Hv Hh Hkne Hhne) as [s' [E1 [HI' [E2 _]]]].
      eexists _, s', true, _. split; [exact E1|]. split; [exact E2|]. repeat split; auto; [|discriminate].
      right. eexists. split; [exact HI'|reflexivity].
    - destruct (insert_at_leaf_3 H Hlen s (f :: c') i ref v0 h0 k v h sd HI) as [s' [a [b [E1 [HI' [E2 _]]]]]]; auto; [discriminate|].
      eexists _, s', true, _. split; [exact E1|]. split; [exact E2|]. repeat split; auto; [|discriminate].
      right. eexists. split; [exact HI'|reflexivity].
  Qed.

  Definition loc_rel (t : itree) (loc : iloc) (tl : tloc) : Prop :=
    match loc, tl with
    | LAuto, TAuto => True
    | LRoot, TRoot => True
    | LLeaf i sd, TKey ref sd' => sd = sd' /\ exists v0 h0, In (i, ref, v0, h0) (it_leaves t)
    | _, _ => False
    end.

  Lemma t_insert_auto_key k v h t ref sd :
    t_auto H k t = Some (ref, sd) -> t_insert H k v h TAuto (Some t) = t_insert H k v h (TKey ref sd) (Some t).
  Proof. intros E. unfold t_insert. now rewrite E. Qed.

  Lemma insert_auto_leaf k v h s i sd :
    get_random_insert_location_by_key_id H k s = Ok (LLeaf i sd) -> insert H k v h LAuto s = insert H k v h (LLeaf i sd) s.
  Proof. intros E. unfold insert. now rewrite E. Qed.

  Lemma insert_link_tree s t k v h loc tl :
    Inv_tree H s t -> in_range k v h -> room s -> loc_rel t loc tl ->
    exists x s' ok1 ot1,
      insert H k v h loc s = (x, s') /\ t_insert H k v h tl (Some (erase t)) = (ok1, ot1) /\
      stops x = false /\ is_ok x = ok1 /\ Abs H s' ot1 /\ (ok1 = false -> s' = s).
  Proof.
    intros HI Hr Hroom Hrel. destruct loc as [| |i sd], tl as [| |ref sd']; try contradiction.
    - (* Auto *)
      destruct (auto_location H Hlen s t k HI) as [i [sd [kref [v0 [h0 [E1 [E2 Hin]]]]]]].
      rewrite (insert_auto_leaf _ _ _ _ _ _ E1), (t_insert_auto_key _ _ _ _ _ _ E2).
      eapply insert_at_live; eauto.
    - (* AsRoot on a non-empty tree *)
      pose proof (key_cached s t k HI) as Hkc. pose proof (hash_cached s t h HI) as Hhc.
      pose proof (bool_iff_eq _ _ (iff_trans Hkc (iff_sym (m_mem_erase t k)))) as Ek.
      pose proof (bool_iff_eq _ _ (iff_trans Hhc (iff_sym (m_has_hash_erase t h)))) as Eh.
      assert (Hlc : (leaf_count s =? 0) = false).
      { rewrite (leaf_count_leaves H _ _ HI). pose proof (it_leaves_nonempty t). destruct (it_leaves t); [congruence|]. reflexivity. }
      unfold insert, t_insert. cbn [ot_kv]. rewrite <- Ek, <- Eh.
      destruct (amap_mem N.eqb k (k2i s)); [|destruct (amap_mem bytes_eqb h (h2i s))]; cbn [orb];
        [eexists _, s, false, _|eexists _, s, false, _|rewrite Hlc; cbn [negb]; eexists _, s, false, _];
        (split; [reflexivity|]; split; [reflexivity|]; repeat split; auto; right; eauto).
    - destruct Hrel as [<- [v0 [h0 Hin]]]. eapply insert_at_live; eauto.
  Qed.

  Lemma insert_link_empty k v h loc tl :
    in_range k v h -> (loc = LAuto /\ tl = TAuto) \/ (loc = LRoot /\ tl = TRoot) ->
    exists s' ot1, insert H k v h loc empty_blob = (Ok 0, s') /\ t_insert H k v h tl None = (true, ot1) /\ Abs H s' ot1.
  Proof.
    intros [Hk [Hv Hh]] Hl.
    assert (Hl' : loc = LAuto \/ loc = LRoot) by (destruct Hl as [[-> _]|[-> _]]; auto).
    destruct (insert_first_ok H k v h loc Hk Hv Hh Hl') as [s' [E1 [HI [E2 _]]]].
    exists s', (Some (erase (ILeaf 0 k v h))). split; [exact E1|]. split.
    - destruct Hl as [[-> ->]|[-> ->]]; exact E2.
    - right. eexists. split; [exact HI|reflexivity].
  Qed.

  (* ---------- operation level ---------- *)
  Lemma decode_no_panic bs : decode_block bs <> Panic /\ decode_block bs <> OutOfFuel.
  Proof.
    unfold decode_block. destruct bs as [|t [|d data]]; try (split; discriminate).
    repeat match goal with
           | |- context [if ?c then _ else _] => destruct c
           | |- context [match ?x with _ => _ end] => destruct x
           end; split; discriminate.
  Qed.

  Lemma get_node_cases s i : (exists n, get_node s i = Ok n) \/ (exists e, get_node s i = Err e).
  Proof.
    unfold get_node, rbind, get_block, blocks_get. destruct (nth_error (blocks s) (N.to_nat i)) as [b|]; [|right; eauto].
    destruct (decode_no_panic b) as [A B]. destruct (decode_block b); [left; eauto|right; eauto|congruence|congruence].
  Qed.

  Lemma insert_bad_index k v h i sd s :
    (forall l, get_node s i = Ok (NLeaf l) -> amap_get N.eqb (l_key l) (k2i s) <> Some i) ->
    exists e, insert H k v h (LLeaf i sd) s = (Err e, s).
  Proof.
    intros Hn. unfold insert. destruct (amap_mem N.eqb k (k2i s)); [eauto|]. destruct (amap_mem bytes_eqb h (h2i s)); [eauto|].
    destruct (get_node_cases s i) as [[[n|l] E]|[e E]]; rewrite E; eauto.
    specialize (Hn l E). destruct (amap_get N.eqb (l_key l) (k2i s)) as [ci|]; cbn [negb]; [|eauto].
    destruct (N.eqb_spec ci i) as [->|]; [congruence|]. cbn [negb]. eauto.
  Qed.

  Lemma t_insert_no_ref k v h ref sd t : ~ In ref (tkeys t) -> t_insert H k v h (TKey ref sd) (Some t) = (false, Some t).
  Proof.
    intros Hn. unfold t_insert. destruct (m_mem k (ot_kv (Some t)) || m_has_hash h (ot_kv (Some t))); [reflexivity|].
    apply (graft_none H ref (t_join H sd (TLeaf k v h))) in Hn. now rewrite Hn.
  Qed.

  Lemma wrap_insert (r : res N * mblob) :
    let w := match r with
             | (Ok i, s') => (Ok (Some i), s')
             | (Err e, s') => (Err e, s')
             | (Panic, s') => (@Panic (option N), s')
             | (OutOfFuel, s') => (@OutOfFuel (option N), s')
             end in
    stops (fst w) = stops (fst r) /\ is_ok (fst w) = is_ok (fst r) /\ snd w = snd r.
  Proof. destruct r as [[i|e| |] s']; cbn; auto. Qed.

  Lemma abs_empty_inv t : ~ Inv_tree H empty_blob t.
  Proof.
    intros HI. pose proof (inv_rep _ _ _ HI) as Hr.
    assert (Hl : it_index t < nblocks empty_blob) by (apply (rep_indices_lt _ _ _ Hr); apply it_index_in).
    unfold nblocks in Hl. cbn in Hl. lia.
  Qed.

  Lemma live_leaf_key_none s i l :
    live_leaf_key s i = None -> get_node s i = Ok (NLeaf l) -> amap_get N.eqb (l_key l) (k2i s) <> Some i.
  Proof.
    unfold live_leaf_key. intros Hn Eg. rewrite Eg in Hn. intros E. rewrite E in Hn. cbn [opt_N_eqb] in Hn.
    now rewrite N.eqb_refl in Hn.
  Qed.

  Theorem insert_step s ot k v h loc :
    Abs H s ot -> in_range k v h -> room s ->
    step_ok (OInsert k v h loc) s ot (op_to_top s (OInsert k v h loc)).
  Proof.
    intros Habs Hr Hroom. unfold step_ok.
    (* reduce to a statement about insert / t_insert *)
    assert (Hmain : forall t l tl x s' ok1 ot1,
              resolve_loc loc s = Ok l ->
              insert H k v h l s = (x, s') -> t_insert H k v h tl ot = (ok1, ot1) ->
              step1 H t ot = t_insert H k v h tl ot ->
              stops x = false -> is_ok x = ok1 -> Abs H s' ot1 -> (ok1 = false -> s' = s) ->
              let '(x2, s2) := step2 H (OInsert k v h loc) s in
              let '(ok, ot') := step1 H t ot in
              stops x2 = false /\ is_ok x2 = ok /\ Abs H s2 ot' /\ (ok = false -> s2 = s)).
    { intros t l tl x s' ok1 ot1 El Ei Et Es1 A1 A2 A3 A4. cbn [step2]. rewrite El, Ei, Es1, Et.
      destruct x as [i|e| |]; cbn in *; auto; discriminate. }
    assert (Hbad : forall i sd, loc = RIndex i sd -> live_leaf_key s i = None ->
              let '(x2, s2) := step2 H (OInsert k v h loc) s in
              let '(ok, ot') := step1 H (TInsert k v h KBad) ot in
              stops x2 = false /\ is_ok x2 = ok /\ Abs H s2 ot' /\ (ok = false -> s2 = s)).
    { intros i sd -> Hl. destruct (insert_bad_index k v h i sd s) as [e Ee]; [intros l; now apply live_leaf_key_none|].
      cbn [step2 resolve_loc step1]. rewrite Ee. cbn. repeat split; auto. }
    destruct Habs as [[-> ->]|[t0 [HI ->]]].
    - (* empty blob *)
      destruct loc as [| |ref sd|i sd]; cbn [op_to_top].
      + destruct (insert_link_empty k v h LAuto TAuto Hr) as [s' [ot1 [E1 [E2 HA]]]]; [now left|].
        eapply (Hmain _ LAuto TAuto); [reflexivity|exact E1|exact E2|reflexivity|reflexivity|reflexivity|exact HA|discriminate].
      + destruct (insert_link_empty k v h LRoot TRoot Hr) as [s' [ot1 [E1 [E2 HA]]]]; [now right|].
        eapply (Hmain _ LRoot TRoot); [reflexivity|exact E1|exact E2|reflexivity|reflexivity|reflexivity|exact HA|discriminate].
      + cbn [step2 resolve_loc empty_blob k2i amap_get step1]. unfold t_insert. cbn.
        repeat split; auto. left. auto.
      + assert (Hl : live_leaf_key empty_blob i = None).
        { unfold live_leaf_key, get_node, get_block, blocks_get. cbn [empty_blob blocks]. now destruct (N.to_nat i). }
        rewrite Hl. apply (Hbad i sd eq_refl Hl).
    - (* a tree *)
      destruct loc as [| |ref sd|i sd]; cbn [op_to_top].
      + destruct (insert_link_tree s t0 k v h LAuto TAuto HI Hr Hroom I) as [x [s' [ok1 [ot1 [E1 [E2 [A1 [A2 [A3 A4]]]]]]]]].
        eapply (Hmain _ LAuto TAuto); [reflexivity|exact E1|exact E2|reflexivity|exact A1|exact A2|exact A3|exact A4].
      + destruct (insert_link_tree s t0 k v h LRoot TRoot HI Hr Hroom I) as [x [s' [ok1 [ot1 [E1 [E2 [A1 [A2 [A3 A4]]]]]]]]].
        eapply (Hmain _ LRoot TRoot); [reflexivity|exact E1|exact E2|reflexivity|exact A1|exact A2|exact A3|exact A4].
      + destruct (amap_get N.eqb ref (k2i s)) as [i|] eqn:Er.
        * pose proof Er as Er'. apply (inv_k2i _ _ _ HI) in Er' as [v0 [h0 Hin]].
          destruct (insert_link_tree s t0 k v h (LLeaf i sd) (TKey ref sd) HI Hr Hroom) as [x [s' [ok1 [ot1 [E1 [E2 [A1 [A2 [A3 A4]]]]]]]]].
          { split; [reflexivity|eauto]. }
          eapply (Hmain _ (LLeaf i sd) (TKey ref sd)); [cbn [resolve_loc]; now rewrite Er|exact E1|exact E2|reflexivity|exact A1|exact A2|exact A3|exact A4].
        * cbn [step2 resolve_loc]. rewrite Er. cbn [step1].
          assert (Hn : ~ In ref (tkeys (erase t0))).
          { fold (tkeys_i t0). rewrite tkeys_i_keys. intros Hx. apply (key_cached s t0 ref HI) in Hx. unfold amap_mem in Hx. now rewrite Er in Hx. }
          rewrite (t_insert_no_ref k v h ref sd _ Hn). cbn. repeat split; auto. right. eauto.
      + destruct (live_leaf_key s i) as [ref|] eqn:El.
        * unfold live_leaf_key in El.
          destruct (get_node s i) as [[n|l]| | |] eqn:Eg; try discriminate.
          destruct (amap_get N.eqb (l_key l) (k2i s)) as [j|] eqn:Ek; cbn [opt_N_eqb] in El; [|discriminate].
          destruct (N.eqb_spec j i) as [->|]; [|discriminate]. injection El as <-.
          apply (inv_k2i _ _ _ HI) in Ek as [v0 [h0 Hin]].
          destruct (insert_link_tree s t0 k v h (LLeaf i sd) (TKey (l_key l) sd) HI Hr Hroom) as [x [s' [ok1 [ot1 [E1 [E2 [A1 [A2 [A3 A4]]]]]]]]].
          { split; [reflexivity|eauto]. }
          eapply (Hmain _ (LLeaf i sd) (TKey (l_key l) sd)); [reflexivity|exact E1|exact E2|reflexivity|exact A1|exact A2|exact A3|exact A4].
        * apply (Hbad i sd eq_refl El).
  Qed.

  Theorem delete_step s ot k : Abs H s ot -> step_ok (ODelete k) s ot (TDelete k).
  Proof.
    intros Habs. unfold step_ok. cbn [step2 step1].
    destruct Habs as [[-> ->]|[t0 [HI ->]]].
    - cbn. repeat split; auto. left. auto.
    - destruct (amap_get N.eqb k (k2i s)) as [i|] eqn:Ek.
      + pose proof Ek as Ek'. apply (inv_k2i _ _ _ HI) in Ek' as [v [h Hin]].
        destruct (leaf_in_ctx _ _ Hin) as [c Et]. cbn in Et. subst t0.
        destruct c as [|f [|g c'']].
        * cbn [plug] in *. destruct (delete_last_ok H s i k v h HI) as [E1 E2]. unfold bind. rewrite E1, E2. cbn.
          repeat split; auto; [left; auto|discriminate].
        * destruct (delete_root_child H s f i k v h HI) as [s' [E1 [HI' E2]]]. unfold bind. rewrite E1, E2. cbn.
          repeat split; auto; [right; eauto|discriminate].
        * destruct (delete_inner H s f g c'' i k v h HI) as [s' [E1 [HI' E2]]]. unfold bind. rewrite E1, E2. cbn.
          repeat split; auto; [right; eauto|discriminate].
      + assert (Hn : ~ In k (tkeys_i t0)).
        { rewrite tkeys_i_keys. intros Hx. apply (key_cached s t0 k HI) in Hx. unfold amap_mem in Hx. now rewrite Ek in Hx. }
        unfold bind, delete, bind, read, get_leaf_by_key. rewrite Ek. unfold t_delete. rewrite (del_none_i k t0 Hn). cbn.
        repeat split; auto. right. eauto.
  Qed.

  Lemma leaf_block_at_ctx s t i k v h :
    Inv_tree H s t -> In (i, k, v, h) (it_leaves t) -> exists p, get_block s i = Ok (mkBlock false (NLeaf (mkLeaf h p k v))).
  Proof.
    intros HI Hin. destruct (leaf_in_ctx _ _ Hin) as [c Et]. cbn in Et. subst t.
    destruct (inv_plug_facts H _ _ _ _ _ _ HI) as [Hg _]. eauto.
  Qed.

  Theorem upsert_step s ot k v h :
    Abs H s ot -> in_range k v h -> room s -> step_ok (OUpsert k v h) s ot (TUpsert k v h).
  Proof.
    intros Habs Hr Hroom. unfold step_ok. cbn [step2 step1].
    destruct Habs as [[-> ->]|[t0 [HI ->]]].
    - destruct (insert_link_empty k v h LAuto TAuto Hr) as [s' [ot1 [E1 [E2 HA]]]]; [now left|].
      unfold bind, upsert. cbn [get_leaf_by_key empty_blob k2i amap_get]. unfold bind. rewrite E1. cbn [ret].
      unfold t_upsert. rewrite E2. cbn. repeat split; auto. discriminate.
    - destruct (amap_get N.eqb k (k2i s)) as [i|] eqn:Ek.
      + (* present key *)
        assert (Hin : In k (it_keys t0)).
        { apply (key_cached s t0 k HI). unfold amap_mem. now rewrite Ek. }
        assert (Hm : m_mem k (t_kv (erase t0)) = true) by (now apply m_mem_erase).
        destruct (m_hash_of_other k h (t_kv (erase t0))) eqn:Eo.
        * (* the hash belongs to another leaf: rejected, nothing changes *)
          apply m_hash_of_other_spec in Eo as [k' [v' [Hx Hne]]]. rewrite erase_kv in Hx.
          apply in_map_iff in Hx as [[[[i' k0] v0'] h0'] [E Hx]]. cbn in E. injection E as -> -> ->.
          assert (Ehi : amap_get bytes_eqb h (h2i s) = Some i') by (apply (inv_h2i _ _ _ HI); eauto).
          pose proof Ek as Ek'. apply (inv_k2i _ _ _ HI) in Ek' as [v0 [h0 Hlk]].
          destruct (leaf_block_at_ctx s t0 i k v0 h0 HI Hlk) as [pp Eg].
          assert (Hii : i' <> i).
          { intros ->. destruct (leaf_in_ctx _ _ Hx) as [c Et]. cbn in Et. subst t0.
            destruct (inv_plug_facts H _ _ _ _ _ _ HI) as [Hg' _]. rewrite Hg' in Eg. congruence. }
          unfold bind, upsert, get_leaf_by_key. rewrite Ek. unfold rbind. rewrite Eg. cbn [b_node]. rewrite Ehi.
          destruct (N.eqb_spec i' i); [contradiction|]. cbn [negb].
          unfold t_upsert. rewrite Hm.
          assert (Eo' : m_hash_of_other k h (t_kv (erase t0)) = true).
          { apply m_hash_of_other_spec. exists k', v'. split; [|exact Hne]. rewrite erase_kv. apply in_map_iff.
            exists (i', k', v', h). split; [reflexivity|exact Hx]. }
          rewrite Eo'. cbn. repeat split; auto. right. eauto.
        * assert (Ho : forall i' k' v', In (i', k', v', h) (it_leaves t0) -> k' = k).
          { intros i' k' v' Hx. destruct (N.eq_dec k' k) as [E|Hne]; [exact E|]. exfalso.
            assert (m_hash_of_other k h (t_kv (erase t0)) = true).
            { apply m_hash_of_other_spec. exists k', v'. split; [|exact Hne]. rewrite erase_kv. apply in_map_iff.
              exists (i', k', v', h). split; [reflexivity|exact Hx]. }
            congruence. }
          destruct Hr as [Hk [Hv Hh]].
          destruct (upsert_existing H s t0 k v h HI Hv Hh Hin Ho) as [s' [t' [E1 [HI' E2]]]].
          unfold bind. rewrite E1, E2. cbn. repeat split; auto; [right; eauto|discriminate].
      + (* absent key: insert at the Auto location *)
        destruct (insert_link_tree s t0 k v h LAuto TAuto HI Hr Hroom I) as [x [s' [ok1 [ot1 [E1 [E2 [A1 [A2 [A3 A4]]]]]]]]].
        assert (Hm : m_mem k (t_kv (erase t0)) = false).
        { destruct (m_mem k (t_kv (erase t0))) eqn:Em; [|reflexivity]. apply m_mem_erase in Em.
          apply (key_cached s t0 k HI) in Em. unfold amap_mem in Em. now rewrite Ek in Em. }
        unfold bind, upsert, get_leaf_by_key. rewrite Ek. unfold bind. rewrite E1.
        unfold t_upsert. rewrite Hm, E2.
        destruct x as [j|e| |]; cbn in *; auto; discriminate.
  Qed.

  (* ---------- batch_insert: a batch the plain map rejects is rejected, nothing changes ---------- *)
  Lemma batch_validate_spec items : forall s (m : kvmap) sk sh,
    (forall k, m_mem k m = amap_mem N.eqb k (k2i s) || nmem k sk) ->
    (forall h, m_has_hash h m = amap_mem bytes_eqb h (h2i s) || existsb (bytes_eqb h) sh) ->
    (m_batch items m = None <-> exists e, batch_validate items sk sh s = Err e) /\
    (batch_validate items sk sh s = Ok tt \/ exists e, batch_validate items sk sh s = Err e).
  Proof.
    induction items as [|[[k v] h] r IH]; intros s m sk sh Hk Hh; cbn [m_batch batch_validate].
    - split; [split; [discriminate|intros [e E]; discriminate]|now left].
    - unfold m_insert. rewrite (Hk k), (Hh h).
      destruct (amap_mem N.eqb k (k2i s) || nmem k sk); cbn [orb]; [split; [split; eauto|eauto]|].
      destruct (amap_mem bytes_eqb h (h2i s) || existsb (bytes_eqb h) sh); [split; [split; eauto|eauto]|].
      apply IH.
      + intros k'. unfold m_mem. cbn [m_get]. unfold nmem. cbn [existsb]. fold (nmem k' sk).
        destruct (N.eqb_spec k' k); [now rewrite orb_true_r|]. cbn [orb]. apply Hk.
      + intros h'. unfold m_has_hash. cbn [existsb snd]. fold (m_has_hash h' m). rewrite Hh.
        destruct (bytes_eqb h' h); [now rewrite orb_true_r|reflexivity].
  Qed.

  Theorem batch_rejected_step s ot items :
    Abs H s ot -> m_batch items (ot_kv ot) = None ->
    exists e, step2 H (OBatch items) s = (Err e, s) /\ step1 H (TBatch items) ot = (false, ot).
  Proof.
    intros Habs Hb. cbn [step2 step1]. unfold t_batch. rewrite Hb.
    assert (Hcache : (forall k, m_mem k (ot_kv ot) = amap_mem N.eqb k (k2i s) || nmem k []) /\
                     (forall h, m_has_hash h (ot_kv ot) = amap_mem bytes_eqb h (h2i s) || existsb (bytes_eqb h) [])).
    { destruct Habs as [[-> ->]|[t0 [HI ->]]]; [split; reflexivity|]. cbn [ot_kv nmem existsb]. split.
      - intros k. rewrite orb_false_r. apply bool_iff_eq. rewrite m_mem_erase. symmetry. apply key_cached. exact HI.
      - intros h. rewrite orb_false_r. apply bool_iff_eq. rewrite m_has_hash_erase. symmetry. apply hash_cached. exact HI. }
    destruct Hcache as [Hk Hh].
    destruct (batch_validate_spec items s (ot_kv ot) [] [] Hk Hh) as [[Hv _] _]. destruct (Hv Hb) as [e Ee].
    exists e. split; [|reflexivity]. unfold bind, batch_insert. now rewrite Ee.
  Qed.

  (* ---------- histories of insert / delete / upsert ---------- *)
  Notation rooms := (rooms H).

  Lemma step_ok_idu o s ot :
    Abs H s ot -> is_idu o = true -> op_in_range o -> room_for o s -> step_ok o s ot (op_to_top s o).
  Proof.
    intros Habs Hi Hr Hroom. destruct o as [k v h loc|k|k v h|items| |]; try discriminate.
    - now apply insert_step.
    - now apply delete_step.
    - now apply upsert_step.
  Qed.

  Theorem history_idu : forall ops s ot m,
    Abs H s ot -> tree_refines H ot m ->
    Forall (fun o => is_idu o = true) ops -> Forall op_in_range ops -> rooms ops s ->
    let '(s', m', fine) := run_joint H ops s m in
    fine = true /\ exists ot', Abs H s' ot' /\ tree_refines H ot' m'.
  Proof.
    induction ops as [|o r IH]; intros s ot m Habs HR Hidu Hrg Hrooms; cbn [run_joint].
    - split; [reflexivity|eauto].
    - inversion Hidu as [|? ? Hi Hidu']; subst. inversion Hrg as [|? ? Hr Hrg']; subst.
      cbn [rooms] in Hrooms. destruct Hrooms as [Hroom Hrooms']. cbv zeta.
      pose proof (step_ok_idu o s ot Habs Hi Hr Hroom) as Hs. unfold step_ok in Hs.
      pose proof (step_refines H (Hne_of_len H Hlen) (op_to_top s o) ot m HR) as Hl.
      destruct (step2 H o s) as [x s'] eqn:E2. destruct (step1 H (op_to_top s o) ot) as [ok1 ot1].
      destruct (step0 (op_to_top s o) m) as [ok0 m0].
      cbn [snd] in *. destruct Hs as [Hst [Hok [Habs' _]]]. destruct Hl as [_ [HR' _]].
      destruct x as [y|e| |]; try discriminate; apply (IH s' ot1 m0); auto.
  Qed.
End Link.
