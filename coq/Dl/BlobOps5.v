(* Dl/BlobOps5.v — L2 -> L1: the Auto insert location (SHA-256 seeded walk) ends at the same leaf in
   the blob and in the tree. *)
From Coq Require Import Permutation.
From ChiaV.Base Require Import Bytes Sha256.
From ChiaV.Gen Require Import Dl.
From ChiaV.Dl Require Import Format Map Tree Blob Abs Inv History FormatProofs MapProofs TreeProofs BlobLemmas BlobOps BlobOps2 BlobOps3.
From Coq Require Import ZifyBool ZifyNat ZifyN.
Ltac Zify.zify_post_hook ::= Z.div_mod_to_equations.
Open Scope N_scope.

Section Walk.
  Variable H : bytes -> bytes.
  Hypothesis Hlen : forall x, length (H x) = HASH_BYTES.

  Lemma Hne_of_len : forall x, H x <> [].
  Proof. intros x E. pose proof (Hlen x) as Hl. rewrite E in Hl. discriminate. Qed.

  Lemma t_walk_S f t bits seed :
    t_walk H (S f) t bits seed =
    match t with
    | TLeaf k _ _ => Some k
    | TNode _ _ l r =>
        match bits with
        | [] => t_walk H f t (seed_bits (H seed)) (H seed)
        | b :: bs => t_walk H f (if b then r else l) bs seed
        end
    end.
  Proof. reflexivity. Qed.

  Lemma t_walk_mono f : forall t bits seed k, t_walk H f t bits seed = Some k -> t_walk H (S f) t bits seed = Some k.
  Proof.
    induction f as [|f IH]; intros t bits seed k; [discriminate|]. intros E.
    rewrite t_walk_S in E. rewrite t_walk_S. destruct t as [k' v h|hh d l r]; [exact E|].
    destruct bits as [|b bs]; apply IH; exact E.
  Qed.

  Lemma t_walk_mono' f f' t bits seed k : (f <= f')%nat -> t_walk H f t bits seed = Some k -> t_walk H f' t bits seed = Some k.
  Proof. induction 1 as [|m Hle IH]; [auto|]. intros E. apply t_walk_mono. now apply IH. Qed.

  Lemma walk_agree s : forall f2 t p bits seed kref,
    rep s p t -> t_walk H f2 (erase t) bits seed = Some kref ->
    forall f1, (f2 <= f1)%nat ->
    exists i v h, loc_walk H f1 s (it_index t) (b_node (root_block t p)) bits seed = Ok i /\ In (i, kref, v, h) (it_leaves t).
  Proof.
    induction f2 as [|f2 IH]; intros t p bits seed kref Hr Hw f1 Hf; [discriminate|].
    destruct f1 as [|f1]; [lia|]. cbn [t_walk] in Hw. cbn [loc_walk].
    destruct t as [i k v h|i hh d l r]; cbn [erase root_block b_node it_index] in *.
    - injection Hw as <-. exists i, v, h. split; [reflexivity|now left].
    - inversion Hr as [|? ? ? ? ? ? Hg Hl Hrr]; subst. destruct bits as [|b bs].
      + destruct (IH (INode i hh d l r) p _ _ _ Hr Hw f1) as [i' [v' [h' [E Hin]]]]; [lia|].
        exists i', v', h'. split; [exact E|exact Hin].
      + cbn [i_left i_right]. destruct b.
        * destruct (IH r (Some i) _ _ _ Hrr Hw f1) as [i' [v' [h' [E Hin]]]]; [lia|].
          unfold get_node, rbind. rewrite (rep_root_block _ _ _ Hrr). exists i', v', h'. split; [exact E|].
          cbn [it_leaves]. apply in_app_iff. now right.
        * destruct (IH l (Some i) _ _ _ Hl Hw f1) as [i' [v' [h' [E Hin]]]]; [lia|].
          unfold get_node, rbind. rewrite (rep_root_block _ _ _ Hl). exists i', v', h'. split; [exact E|].
          cbn [it_leaves]. apply in_app_iff. now left.
  Qed.

  Lemma erase_height t : t_height (erase t) = it_height t.
  Proof. induction t as [|i hh d l IHl r IHr]; cbn [erase t_height it_height]; [reflexivity|]. now rewrite IHl, IHr. Qed.
  Lemma erase_size t : t_size (erase t) = length (it_indices t).
  Proof.
    induction t as [|i hh d l IHl r IHr]; cbn [erase t_size it_indices length]; [reflexivity|].
    rewrite app_length, IHl, IHr. reflexivity.
  Qed.

  (* Auto resolves, in the blob, to a live leaf index and, in the tree, to the key stored there *)
  Theorem auto_location s t key :
    Inv_tree H s t ->
    exists i sd kref v h,
      get_random_insert_location_by_key_id H key s = Ok (LLeaf i sd) /\
      t_auto H key (erase t) = Some (kref, sd) /\
      In (i, kref, v, h) (it_leaves t).
  Proof.
    intros HI. pose proof (inv_rep _ _ _ HI) as Hrep. pose proof (inv_root _ _ _ HI) as Hroot.
    unfold get_random_insert_location_by_key_id, get_random_insert_location_by_seed, t_auto.
    assert (Hnb : it_index t < nblocks s) by (apply (rep_indices_lt _ _ _ Hrep); apply it_index_in).
    destruct (blocks s) as [|b0' bl] eqn:Eb; [unfold nblocks in Hnb; rewrite Eb in Hnb; cbn [length] in Hnb; lia|].
    rewrite <- Eb. clear Eb b0' bl.
    destruct (H (n2be KEY_BYTES key)) as [|b0 sd0] eqn:Es; [now apply Hne_of_len in Es|].
    set (seed := b0 :: sd0) in *. set (rs := rev seed).
    unfold get_node, rbind. rewrite <- Hroot. rewrite (rep_root_block _ _ _ Hrep).
    (* enough fuel on both sides *)
    pose proof (it_height_indices t) as Hhi.
    pose proof (pigeonhole (it_indices t) (length (blocks s)) (inv_nodup _ _ _ HI)) as Hp.
    assert (Hsz : (length (it_indices t) <= length (blocks s))%nat) by (apply Hp; intros x Hx; apply (rep_indices_lt _ _ _ Hrep x Hx)).
    destruct (t_walk_total H Hne_of_len (2 * it_height t + 2) (erase t) (seed_bits rs) rs) as [kref Hk].
    { rewrite erase_height. destruct (seed_bits rs); lia. }
    destruct (walk_agree s _ t None _ _ _ Hrep Hk (2 * length (blocks s) + 4)%nat) as [i [v [h [E Hin]]]]; [lia|].
    rewrite E.
    assert (Hfu : (2 * it_height t + 2 <= 4 * t_size (erase t) + 4)%nat) by (rewrite erase_size; lia).
    rewrite (t_walk_mono' _ _ _ _ _ _ Hfu Hk).
    exists i, (if N.testbit (b2n b0) 7 then SRight else SLeft), kref, v, h. repeat split; auto.
  Qed.
End Walk.
