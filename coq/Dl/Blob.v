(* Dl/Blob.v — L2: faithful mirror of `MerkleBlob` (crates/chia-datalayer/src/merkle/blob.rs,
   iterators.rs, proof_of_inclusion.rs).  Definitions only.

   State = the blob as a list of BLOCK_SIZE-byte blocks (freed blocks keep their stale bytes), the FIFO
   free-index queue (IndexSet: insert appends unless present, shift_remove keeps order, pop takes the
   first), and the two caches key->index, leaf-hash->index (HashMap: association lists, set-level
   meaning).  Every function follows the Rust control flow including the order of mutations, so that
   a failing or panicking call leaves exactly the partially mutated state the code leaves.
   Loops with explicit stacks / parent chasing are fuel-indexed; OutOfFuel is a separate outcome. *)
From ChiaV.Base Require Import Bytes.
From ChiaV.Gen Require Import Dl.
From ChiaV.Dl Require Import Format Map.
Open Scope N_scope.

(* ---------- association lists (HashMap) and the free queue (IndexSet) ---------- *)
Section AMap.
  Context {K V : Type} (eqb : K -> K -> bool).
  Fixpoint amap_get (k : K) (m : list (K * V)) : option V :=
    match m with
    | [] => None
    | (k', v) :: r => if eqb k k' then Some v else amap_get k r
    end.
  Fixpoint amap_set (k : K) (v : V) (m : list (K * V)) : list (K * V) :=
    match m with
    | [] => [(k, v)]
    | (k', v') :: r => if eqb k k' then (k, v) :: r else (k', v') :: amap_set k v r
    end.
  Fixpoint amap_del (k : K) (m : list (K * V)) : list (K * V) :=
    match m with
    | [] => []
    | (k', v') :: r => if eqb k k' then amap_del k r else (k', v') :: amap_del k r
    end.
  Definition amap_mem (k : K) (m : list (K * V)) : bool :=
    match amap_get k m with Some _ => true | None => false end.
End AMap.

Definition nmem (i : N) (l : list N) : bool := existsb (N.eqb i) l.
Definition free_remove (i : N) (l : list N) : list N := filter (fun j => negb (j =? i)) l.
Definition free_insert (i : N) (l : list N) : list N := if nmem i l then l else l ++ [i].

Fixpoint list_set {A} (n : nat) (x : A) (l : list A) : list A :=
  match l, n with
  | [], _ => []
  | _ :: r, O => x :: r
  | y :: r, S k => y :: list_set k x r
  end.

Record mblob := mkB {
  blocks : list bytes;
  free : list N;
  k2i : list (N * N);
  h2i : list (bytes * N)
}.
Definition empty_blob : mblob := mkB [] [] [] [].
Definition set_blocks (s : mblob) (b : list bytes) := mkB b (free s) (k2i s) (h2i s).
Definition set_free (s : mblob) (f : list N) := mkB (blocks s) f (k2i s) (h2i s).

(* state + result monad; the state is returned on every outcome *)
Definition M (A : Type) := mblob -> res A * mblob.
Definition ret {A} (a : A) : M A := fun s => (Ok a, s).
Definition fail {A} (e : err) : M A := fun s => (Err e, s).
Definition lift {A} (r : res A) : M A := fun s => (r, s).
Definition read {A} (f : mblob -> res A) : M A := fun s => (f s, s).
Definition gets {A} (f : mblob -> A) : M A := fun s => (Ok (f s), s).
Definition modify (f : mblob -> mblob) : M unit := fun s => (Ok tt, f s).
Definition bind {A B} (m : M A) (f : A -> M B) : M B :=
  fun s => match m s with
           | (Ok a, s') => f a s'
           | (Err e, s') => (Err e, s')
           | (Panic, s') => (Panic, s')
           | (OutOfFuel, s') => (OutOfFuel, s')
           end.
Notation "x <- m ;; k" := (bind m (fun x => k)) (at level 61, m at next level, right associativity).
Notation "m ;;; k" := (bind m (fun _ => k)) (at level 61, right associativity).

(* ---------- block access ---------- *)
Definition extend_index (s : mblob) : N := N.of_nat (length (blocks s)).

Definition blocks_get (bl : list bytes) (i : N) : res block :=       (* try_get_block *)
  match nth_error bl (N.to_nat i) with
  | Some b => decode_block b
  | None => Err E_BlockIndexOutOfBounds
  end.
Definition get_block (s : mblob) (i : N) : res block := blocks_get (blocks s) i.
Definition get_node (s : mblob) (i : N) : res node := rbind (get_block s i) (fun b => Ok (b_node b)).
Definition get_hash (s : mblob) (i : N) : res bytes := rbind (get_block s i) (fun b => Ok (node_hash (b_node b))).

(* ---------- BlockStatusCache ---------- *)
Definition add_internal (i : N) (s : mblob) : mblob := set_free s (free_remove i (free s)).
Definition add_leaf (i : N) (l : leaf) (s : mblob) : mblob :=
  mkB (blocks s) (free_remove i (free s))
      (amap_set N.eqb (l_key l) i (k2i s)) (amap_set bytes_eqb (l_hash l) i (h2i s)).
Definition remove_internal (i : N) : M unit := modify (fun s => set_free s (free_insert i (free s))).
Definition remove_leaf (l : leaf) : M unit := fun s =>
  match amap_get N.eqb (l_key l) (k2i s) with
  | None => (Err E_UnknownKey, s)
  | Some i => (Ok tt, mkB (blocks s) (free_insert i (free s))
                          (amap_del N.eqb (l_key l) (k2i s)) (amap_del bytes_eqb (l_hash l) (h2i s)))
  end.
Definition move_index (src dst : N) : M unit := fun s =>
  if nmem src (free s) then (Err E_MoveSourceIndexNotInUse, s)
  else if nmem dst (free s) then (Err E_MoveDestinationIndexNotInUse, s)
  else (Ok tt, set_free s (free_insert src (free s))).
Definition leaf_count (s : mblob) : N := N.of_nat (length (k2i s)).
Definition clear : M unit := fun _ => (Ok tt, empty_blob).

Definition insert_entry_to_blob (i : N) (b : block) : M unit := fun s =>
  match encode_block b with
  | Ok bs =>
      let ext := extend_index s in
      if ext <? i then (Err E_BlockIndexOutOfBounds, s)
      else
        let bl := if i =? ext then blocks s ++ [bs] else list_set (N.to_nat i) bs (blocks s) in
        let s1 := set_blocks s bl in
        (Ok tt, match b_node b with NLeaf l => add_leaf i l s1 | NInt _ => add_internal i s1 end)
  | Err e => (Err e, s)
  | Panic => (Panic, s)
  | OutOfFuel => (OutOfFuel, s)
  end.

Definition get_new_index : M N := fun s =>
  match free s with
  | i :: _ => (Ok i, set_free s (free_remove i (free s)))
  | [] => (Ok (extend_index s), set_blocks s (blocks s ++ [zero_block]))
  end.

Definition update_parent (i : N) (p : option N) : M block :=
  b <- read (fun s => get_block s i) ;;
  let b' := mkBlock (b_dirty b) (node_set_parent p (b_node b)) in
  insert_entry_to_blob i b' ;;; ret b'.

Fixpoint mark_lineage (fuel : nat) (i : N) : M unit :=
  match fuel with
  | O => lift OutOfFuel
  | S f =>
      b <- read (fun s => get_block s i) ;;
      if b_dirty b then ret tt
      else
        insert_entry_to_blob i (mkBlock true (b_node b)) ;;;
        match node_parent (b_node b) with
        | Some p => mark_lineage f p
        | None => ret tt
        end
  end.
Definition mark_lineage_as_dirty (i : N) : M unit :=
  fun s => mark_lineage (S (length (blocks s))) i s.

Definition get_leaf_by_key (s : mblob) (key : N) : res (N * leaf * block) :=
  match amap_get N.eqb key (k2i s) with
  | None => Err E_UnknownKey
  | Some i =>
      rbind (get_block s i) (fun b =>
        match b_node b with
        | NLeaf l => Ok (i, l, b)
        | NInt _ => Panic                         (* expect_leaf *)
        end)
  end.

Section WithH.
  Variable H : bytes -> bytes.

  (* ---------- insert location ---------- *)
  Inductive iloc := LAuto | LRoot | LLeaf (i : N) (sd : side).

  (* the walk of get_random_insert_location_by_seed; [seed] is the current (already reversed /
     re-hashed) seed_bytes, [bits] what is left of it *)
  Fixpoint loc_walk (fuel : nat) (s : mblob) (idx : N) (nd : node) (bits : list bool) (seed : bytes) : res N :=
    match fuel with
    | O => OutOfFuel
    | S f =>
        match nd with
        | NLeaf _ => Ok idx
        | NInt n =>
            match bits with
            | [] => let seed' := H seed in loc_walk f s idx nd (seed_bits seed') seed'
            | bit :: r =>
                let nxt := if bit then i_right n else i_left n in
                rbind (get_node s nxt) (fun nd' => loc_walk f s nxt nd' r seed)
            end
        end
    end.

  Definition get_random_insert_location_by_seed (seed : bytes) (s : mblob) : res iloc :=
    match blocks s with
    | [] => Ok LRoot
    | _ =>
        match seed with
        | [] => Err E_ZeroLengthSeedNotAllowed
        | b0 :: _ =>
            let final_side := if N.testbit (b2n b0) 7 then SRight else SLeft in
            rbind (get_node s 0) (fun nd =>
              let rs := rev seed in
              rbind (loc_walk (2 * length (blocks s) + 4) s 0 nd (seed_bits rs) rs)
                    (fun i => Ok (LLeaf i final_side)))
        end
    end.

  Definition get_random_insert_location_by_key_id (key : N) (s : mblob) : res iloc :=
    get_random_insert_location_by_seed (H (n2be KEY_BYTES key)) s.

  (* ---------- insert ---------- *)
  Definition leaf_block (l : leaf) : block := mkBlock false (NLeaf l).

  Definition insert_first (key value : N) (hash : bytes) : M N :=
    i <- gets extend_index ;;
    insert_entry_to_blob i (leaf_block (mkLeaf hash None key value)) ;;; ret i.

  Definition insert_second (nd : leaf) (old_leaf : leaf) (ih : bytes) (sd : side) : M N :=
    clear ;;;
    root_index <- get_new_index ;;
    left_index <- get_new_index ;;
    right_index <- get_new_index ;;
    insert_entry_to_blob root_index (mkBlock false (NInt (mkInode ih None left_index right_index))) ;;;
    let nd' := mkLeaf (l_hash nd) (Some 0) (l_key nd) (l_value nd) in
    let old_i := match sd with SLeft => right_index | SRight => left_index end in
    let new_i := match sd with SLeft => left_index | SRight => right_index end in
    insert_entry_to_blob old_i (leaf_block (mkLeaf (l_hash old_leaf) (Some 0) (l_key old_leaf) (l_value old_leaf))) ;;;
    insert_entry_to_blob new_i (leaf_block nd') ;;;
    ret new_i.

  Definition replace_child (n : inode) (old new : N) : option inode :=
    if old =? i_left n then Some (mkInode (i_hash n) (i_parent n) new (i_right n))
    else if old =? i_right n then Some (mkInode (i_hash n) (i_parent n) (i_left n) new)
    else None.

  Definition insert_third_or_later (nd : leaf) (old_leaf : leaf) (old_leaf_index : N) (ih : bytes) (sd : side) : M N :=
    new_leaf_index <- get_new_index ;;
    new_internal <- get_new_index ;;
    insert_entry_to_blob new_leaf_index
      (leaf_block (mkLeaf (l_hash nd) (Some new_internal) (l_key nd) (l_value nd))) ;;;
    let '(li, ri) := match sd with
                     | SLeft => (new_leaf_index, old_leaf_index)
                     | SRight => (old_leaf_index, new_leaf_index)
                     end in
    insert_entry_to_blob new_internal (mkBlock false (NInt (mkInode ih (l_parent old_leaf) li ri))) ;;;
    match l_parent old_leaf with
    | None => lift Panic                              (* expect("root found when not expected") *)
    | Some old_parent_index =>
        update_parent old_leaf_index (Some new_internal) ;;;
        pb <- read (fun s => get_block s old_parent_index) ;;
        match b_node pb with
        | NLeaf _ => lift Panic                        (* expected internal node but found leaf *)
        | NInt n =>
            match replace_child n old_leaf_index new_internal with
            | None => lift Panic                       (* child not a child of its parent *)
            | Some n' =>
                insert_entry_to_blob old_parent_index (mkBlock (b_dirty pb) (NInt n')) ;;;
                mark_lineage_as_dirty old_parent_index ;;;
                ret new_leaf_index
            end
        end
    end.

  Definition insert (key value : N) (hash : bytes) (loc : iloc) : M N := fun s =>
    if amap_mem N.eqb key (k2i s) then (Err E_KeyAlreadyPresent, s)
    else if amap_mem bytes_eqb hash (h2i s) then (Err E_HashAlreadyPresent, s)
    else
      match (match loc with LAuto => get_random_insert_location_by_key_id key s | _ => Ok loc end) with
      | Ok LAuto => (Panic, s)                       (* unreachable!() *)
      | Ok LRoot =>
          if negb (leaf_count s =? 0) then (Err E_UnableToInsertAsRootOfNonEmptyTree, s)
          else insert_first key value hash s
      | Ok (LLeaf index sd) =>
          match get_node s index with
          | Ok (NLeaf old_leaf) =>
              (* fix 9e5ac516: a freed block keeps its stale bytes; only the index the key cache holds
                 for the leaf found there is accepted *)
              if negb (match amap_get N.eqb (l_key old_leaf) (k2i s) with Some ci => ci =? index | None => false end)
              then (Err E_UnknownKey, s)
              else
              let ih := match sd with
                        | SLeft => internal_hash H hash (l_hash old_leaf)
                        | SRight => internal_hash H (l_hash old_leaf) hash
                        end in
              let nd := mkLeaf hash None key value in
              if leaf_count s =? 1 then insert_second nd old_leaf ih sd s
              else insert_third_or_later nd old_leaf index ih sd s
          | Ok (NInt _) => (Err E_NodeNotALeaf, s)
          | Err e => (Err e, s)
          | Panic => (Panic, s)
          | OutOfFuel => (OutOfFuel, s)
          end
      | Err e => (Err e, s)
      | Panic => (Panic, s)
      | OutOfFuel => (OutOfFuel, s)
      end.

  (* ---------- batch insert ---------- *)
  (* BreadthFirstIterator(...).next(): first leaf in breadth-first order *)
  Fixpoint bfs_first_leaf (fuel : nat) (s : mblob) (queue queued : list N) : res leaf :=
    match fuel with
    | O => OutOfFuel
    | S f =>
        match queue with
        | [] => Err E_UnableToFindALeaf
        | i :: q =>
            rbind (get_block s i) (fun b =>
              match b_node b with
              | NLeaf l => Ok l
              | NInt n =>
                  if nmem i queued then Err E_CycleFound
                  else bfs_first_leaf f s (q ++ [i_left n; i_right n]) (i :: queued)
              end)
        end
    end.
  Definition get_min_height_leaf (s : mblob) : res leaf :=
    bfs_first_leaf (2 * length (blocks s) + 2) s (match blocks s with [] => [] | _ => [0] end) [].

  Definition insert_subtree_at_key (old_leaf_key : N) (new_index : N) (sd : side) : M unit :=
    new_internal <- get_new_index ;;
    olb <- read (fun s => get_leaf_by_key s old_leaf_key) ;;
    let '(old_leaf_index, old_leaf, _) := olb in
    new_node <- read (fun s => get_node s new_index) ;;
    let '(lft, rgt) := match sd with
                       | SLeft => ((new_index, node_hash new_node), (old_leaf_index, l_hash old_leaf))
                       | SRight => ((old_leaf_index, l_hash old_leaf), (new_index, node_hash new_node))
                       end in
    let ih := internal_hash H (snd lft) (snd rgt) in
    insert_entry_to_blob new_internal
      (mkBlock false (NInt (mkInode ih (l_parent old_leaf) (fst lft) (fst rgt)))) ;;;
    update_parent new_index (Some new_internal) ;;;
    match l_parent old_leaf with
    | None => fail E_LeafCannotBeRootWhenInsertingSubtree
    | Some old_leaf_parent =>
        pb <- read (fun s => get_block s old_leaf_parent) ;;
        match b_node pb with
        | NLeaf _ => lift Panic
        | NInt n =>
            match replace_child n old_leaf_index new_internal with
            | None => lift Panic
            | Some n' =>
                insert_entry_to_blob old_leaf_parent (mkBlock (b_dirty pb) (NInt n')) ;;;
                mark_lineage_as_dirty old_leaf_parent ;;;
                update_parent old_leaf_index (Some new_internal) ;;;
                ret tt
            end
        end
    end.

  Fixpoint batch_leaves (items : list item) : M (list N) :=
    match items with
    | [] => ret []
    | (k, v, h) :: r =>
        i <- get_new_index ;;
        insert_entry_to_blob i (leaf_block (mkLeaf h None k v)) ;;;
        is <- batch_leaves r ;;
        ret (i :: is)
    end.

  (* one pass of `for chunk in indexes.chunks(2)` *)
  Fixpoint batch_level (fuel : nat) (idxs : list N) : M (list N) :=
    match fuel with
    | O => lift OutOfFuel
    | S f =>
        match idxs with
        | [] => ret []
        | [i] => ret [i]
        | i1 :: i2 :: r =>
            ni <- get_new_index ;;
            b1 <- update_parent i1 (Some ni) ;;
            b2 <- update_parent i2 (Some ni) ;;
            insert_entry_to_blob ni
              (mkBlock false (NInt (mkInode (internal_hash H (node_hash (b_node b1)) (node_hash (b_node b2))) None i1 i2))) ;;;
            rest <- batch_level f r ;;
            ret (ni :: rest)
        end
    end.

  Fixpoint batch_levels (fuel : nat) (idxs : list N) : M (list N) :=
    match fuel with
    | O => lift OutOfFuel
    | S f =>
        match idxs with
        | [] | [_] => ret idxs
        | _ => nx <- batch_level (S (length idxs)) idxs ;; batch_levels f nx
        end
    end.

  Definition batch_tail (items : list item) : M unit :=
    idxs <- batch_leaves items ;;
    top <- batch_levels (S (length idxs)) idxs ;;
    match top with
    | [i] =>
        l <- read get_min_height_leaf ;;
        insert_subtree_at_key (l_key l) i SLeft
    | _ => ret tt
    end.

  (* fix a9e08b84: the whole batch is validated before anything is mutated *)
  Fixpoint batch_validate (items : list item) (seen_k : list N) (seen_h : list bytes) (s : mblob) : res unit :=
    match items with
    | [] => Ok tt
    | (k, v, h) :: r =>
        if amap_mem N.eqb k (k2i s) || nmem k seen_k then Err E_KeyAlreadyPresent
        else if amap_mem bytes_eqb h (h2i s) || existsb (bytes_eqb h) seen_h then Err E_HashAlreadyPresent
        else batch_validate r (k :: seen_k) (h :: seen_h) s
    end.

  Definition batch_insert (items : list item) : M unit := fun s =>
    match batch_validate items [] [] s with
    | Err e => (Err e, s)
    | Panic => (Panic, s)
    | OutOfFuel => (OutOfFuel, s)
    | Ok _ =>
    if leaf_count s <=? 1 then
      match pop_last items with
      | None => (Ok tt, s)
      | Some (r1, (k1, v1, h1)) =>
          match insert k1 v1 h1 LAuto s with
          | (Ok _, s1) =>
              match pop_last r1 with
              | None => (Ok tt, s1)
              | Some (r2, (k2, v2, h2)) =>
                  match insert k2 v2 h2 LAuto s1 with
                  | (Ok _, s2) => batch_tail r2 s2
                  | (Err e, s2) => (Err e, s2)
                  | (Panic, s2) => (Panic, s2)
                  | (OutOfFuel, s2) => (OutOfFuel, s2)
                  end
              end
          | (Err e, s1) => (Err e, s1)
          | (Panic, s1) => (Panic, s1)
          | (OutOfFuel, s1) => (OutOfFuel, s1)
          end
      end
    else batch_tail items s
    end.

  (* ---------- delete / upsert ---------- *)
  Definition sibling_index (n : inode) (i : N) : res N :=
    if i =? i_right n then Ok (i_left n)
    else if i =? i_left n then Ok (i_right n)
    else Err E_IndexIsNotAChild.
  Definition get_sibling_side (n : inode) (i : N) : res side :=
    if i_left n =? i then Ok SRight
    else if i_right n =? i then Ok SLeft
    else Err E_IndexIsNotAChild.

  Definition delete (key : N) : M unit :=
    lb <- read (fun s => get_leaf_by_key s key) ;;
    let '(leaf_index, lf, _) := lb in
    remove_leaf lf ;;;
    match l_parent lf with
    | None => clear
    | Some parent_index =>
        pn <- read (fun s => get_node s parent_index) ;;
        match pn with
        | NLeaf _ => lift Panic                           (* parent node not internal *)
        | NInt parent =>
            sib <- lift (sibling_index parent leaf_index) ;;
            sb <- read (fun s => get_block s sib) ;;
            match i_parent parent with
            | None =>
                let sb' := mkBlock (b_dirty sb) (node_set_parent None (b_node sb)) in
                (match b_node sb' with
                 | NInt n => update_parent (i_left n) (Some 0) ;;; update_parent (i_right n) (Some 0) ;;; ret tt
                 | NLeaf _ => ret tt
                 end) ;;;
                insert_entry_to_blob 0 sb' ;;;
                move_index sib 0
            | Some grandparent_index =>
                remove_internal parent_index ;;;
                gb <- read (fun s => get_block s grandparent_index) ;;
                insert_entry_to_blob sib (mkBlock (b_dirty sb) (node_set_parent (Some grandparent_index) (b_node sb))) ;;;
                match b_node gb with
                | NLeaf _ => lift Panic                   (* grandparent not an internal node *)
                | NInt g =>
                    match replace_child g parent_index sib with
                    | None => lift Panic                  (* parent not a child a grandparent *)
                    | Some g' =>
                        insert_entry_to_blob grandparent_index (mkBlock (b_dirty gb) (NInt g')) ;;;
                        mark_lineage_as_dirty grandparent_index
                    end
                end
            end
        end
    end.

  Definition upsert (key value : N) (new_hash : bytes) : M unit := fun s =>
    match get_leaf_by_key s key with
    | Ok (leaf_index, lf, blk) =>
        (* fix c5be66b8: the new hash must not be cached for another leaf *)
        if (match amap_get bytes_eqb new_hash (h2i s) with Some e => negb (e =? leaf_index) | None => false end)
        then (Err E_HashAlreadyPresent, s)
        else
        (remove_leaf lf ;;;
         let lf' := mkLeaf new_hash (l_parent lf) (l_key lf) value in
         insert_entry_to_blob leaf_index (mkBlock (b_dirty blk) (NLeaf lf')) ;;;
         match l_parent lf' with
         | Some p => mark_lineage_as_dirty p
         | None => ret tt
         end) s
    | Panic => (Panic, s)
    | _ => (i <- insert key value new_hash LAuto ;; ret tt) s      (* `let Ok(..) = .. else` *)
    end.

  (* ---------- iterators ---------- *)
  (* LeftChildFirstIterator from index 0, optionally with the `dirty` block predicate.
     Returns the items yielded before the first Err item, and Ok tt / that Err. *)
  Fixpoint lcf (fuel : nat) (bl : list bytes) (only_dirty : bool) (stack : list (bool * N))
               (queued : list N) (acc : list (N * block)) : list (N * block) * res unit :=
    match fuel with
    | O => (rev acc, OutOfFuel)
    | S f =>
        match stack with
        | [] => (rev acc, Ok tt)
        | (visited, idx) :: st =>
            match blocks_get bl idx with
            | Ok b =>
                if only_dirty && negb (b_dirty b) then lcf f bl only_dirty st queued acc
                else
                  match (match node_parent (b_node b) with
                         | Some p => if idx =? 0 then Some E_RootHasParent
                                     else if negb (nmem p queued) then Some E_ReferenceToUnknownParent
                                     else None
                         | None => if negb (idx =? 0) then Some E_UnexpectedParentlessNode else None
                         end) with
                  | Some e => (rev acc, Err e)
                  | None =>
                      match b_node b with
                      | NLeaf _ =>
                          if b_dirty b then (rev acc, Err E_DirtyLeaf)
                          else lcf f bl only_dirty st queued ((idx, b) :: acc)
                      | NInt n =>
                          if visited then lcf f bl only_dirty st queued ((idx, b) :: acc)
                          else if (i_left n =? i_right n) || nmem (i_left n) queued || nmem (i_right n) queued
                          then (rev acc, Err E_InvalidChildren)
                          else if nmem idx queued then (rev acc, Err E_CycleFound)
                          else lcf f bl only_dirty
                                   ((false, i_left n) :: (false, i_right n) :: (true, idx) :: st)
                                   (idx :: queued) acc
                      end
                  end
            | Err e => (rev acc, Err e)
            | Panic => (rev acc, Panic)
            | OutOfFuel => (rev acc, OutOfFuel)
            end
        end
    end.
  Definition lcf_run (bl : list bytes) (only_dirty : bool) : list (N * block) * res unit :=
    lcf (4 * length bl + 4) bl only_dirty (match bl with [] => [] | _ => [(false, 0)] end) [] [].

  (* BlockStatusCache::new *)
  Fixpoint cache_fill (items : list (N * block)) (seen : list N) (k : list (N * N)) (h : list (bytes * N))
    : res (list N * list (N * N) * list (bytes * N)) :=
    match items with
    | [] => Ok (seen, k, h)
    | (i, b) :: r =>
        match b_node b with
        | NLeaf l =>
            if amap_mem N.eqb (l_key l) k then Err E_KeyAlreadyPresent
            else if amap_mem bytes_eqb (l_hash l) h then Err E_HashAlreadyPresent
            else cache_fill r (i :: seen) (amap_set N.eqb (l_key l) i k) (amap_set bytes_eqb (l_hash l) i h)
        | NInt _ => cache_fill r (i :: seen) k h
        end
    end.

  Definition iota_N (n : nat) : list N := map N.of_nat (seq 0 n).

  Definition blob_of_blocks (bl : list bytes) : res mblob :=
    let '(items, r) := lcf_run bl false in
    rbind (cache_fill items [] [] []) (fun '(seen, k, h) =>
      rbind r (fun _ =>
        Ok (mkB bl (filter (fun i => negb (nmem i seen)) (iota_N (length bl))) k h))).

  (* MerkleBlob::new *)
  Definition reload (bs : bytes) : res mblob :=
    if negb (N.of_nat (length bs) mod BLOCK_SIZE =? 0) then Err E_InvalidBlobLength
    else blob_of_blocks (blocks_of_bytes bs).

  (* ---------- calculate_lazy_hashes ---------- *)
  Fixpoint lazy_apply (items : list (N * block)) : M unit :=
    match items with
    | [] => ret tt
    | (i, b) :: r =>
        match b_node b with
        | NLeaf _ => lift Panic                           (* leaves should not be dirty *)
        | NInt n =>
            lh <- read (fun s => get_hash s (i_left n)) ;;
            rh <- read (fun s => get_hash s (i_right n)) ;;
            insert_entry_to_blob i (mkBlock false (NInt (mkInode (internal_hash H lh rh) (i_parent n) (i_left n) (i_right n)))) ;;;
            lazy_apply r
        end
    end.
  Definition calculate_lazy_hashes : M unit := fun s =>
    let '(items, r) := lcf_run (blocks s) true in
    (lazy_apply items ;;; lift r) s.

  (* ---------- check_integrity ---------- *)
  Fixpoint pfi (fuel : nat) (s : mblob) (deque queued : list N) (c2p : list (N * N)) (lc ic : N)
    : res (N * N * list (N * N)) :=
    match fuel with
    | O => OutOfFuel
    | S f =>
        match deque with
        | [] => Ok (lc, ic, c2p)
        | idx :: dq =>
            rbind (get_block s idx) (fun b =>
              if (match b_node b with NInt _ => nmem idx queued | NLeaf _ => false end) then Err E_CycleFound
              else
                let bad := match node_parent (b_node b) with
                           | Some p => negb (match amap_get N.eqb idx c2p with Some q => q =? p | None => false end)
                           | None => false
                           end in
                let c2p1 := match node_parent (b_node b) with Some _ => amap_del N.eqb idx c2p | None => c2p end in
                if bad then Err E_IntegrityParentChildMismatch
                else
                  match b_node b with
                  | NInt n =>
                      pfi f s (dq ++ [i_left n; i_right n]) (idx :: queued)
                          (amap_set N.eqb (i_right n) idx (amap_set N.eqb (i_left n) idx c2p1)) lc (ic + 1)
                  | NLeaf l =>
                      match amap_get N.eqb (l_key l) (k2i s) with
                      | None => Err E_IntegrityKeyNotInCache
                      | Some ci =>
                          if negb (ci =? idx) then Err E_IntegrityKeyToIndexCacheIndex
                          else if nmem idx (free s) then Panic     (* assert!(!is_index_free(index)) *)
                          else pfi f s dq queued c2p1 (lc + 1) ic
                      end
                  end)
        end
    end.

  Definition check_just_integrity (s : mblob) : res unit :=
    rbind (pfi (2 * length (blocks s) + 2) s (match blocks s with [] => [] | _ => [0] end) [] [] 0 0)
      (fun '(lc, ic, c2p) =>
         if negb (lc =? N.of_nat (length (k2i s))) then Err E_IntegrityKeyToIndexCacheLength
         else if negb (lc =? N.of_nat (length (h2i s))) then Err E_IntegrityLeafHashToIndexCacheLength
         else if negb (lc + ic + N.of_nat (length (free s)) =? extend_index s) then Err E_IntegrityTotalNodeCount
         else match c2p with [] => Ok tt | _ => Err E_IntegrityUnmatchedChildParentRelationships end).

  Definition check_integrity (s : mblob) : res unit :=
    rbind (check_just_integrity s) (fun _ =>
      match calculate_lazy_hashes s with
      | (Ok _, s') => check_just_integrity s'
      | (Err e, _) => Err e
      | (Panic, _) => Panic
      | (OutOfFuel, _) => OutOfFuel
      end).

  (* ---------- readers ---------- *)
  Fixpoint kv_collect (s : mblob) (m : list (N * N)) : res (list (N * N)) :=
    match m with
    | [] => Ok []
    | (k, i) :: r =>
        rbind (get_node s i) (fun n =>
          match n with
          | NLeaf l => rbind (kv_collect s r) (fun t => Ok ((k, l_value l) :: t))
          | NInt _ => Panic
          end)
    end.
  Definition get_keys_values (s : mblob) : res (list (N * N)) := kv_collect s (k2i s).

  Definition get_hash_at_index (s : mblob) (i : N) : res (option bytes) :=
    match k2i s with
    | [] => Ok None
    | _ => rbind (get_block s i) (fun b => if b_dirty b then Err E_Dirty else Ok (Some (node_hash (b_node b))))
    end.

  Fixpoint lineage (fuel : nat) (s : mblob) (i : N) : res (list (N * block)) :=
    match fuel with
    | O => OutOfFuel
    | S f =>
        rbind (get_block s i) (fun b =>
          match node_parent (b_node b) with
          | None => Ok [(i, b)]
          | Some p => rbind (lineage f s p) (fun t => Ok ((i, b) :: t))
          end)
    end.

  Fixpoint proof_layers (s : mblob) (index : N) (parents : list (N * block)) : res (list layer) :=
    match parents with
    | [] => Ok []
    | (next_index, b) :: r =>
        if b_dirty b then Err E_Dirty
        else
          match b_node b with
          | NLeaf _ => Panic                                (* expect_internal *)
          | NInt parent =>
              rbind (sibling_index parent index) (fun sib =>
              rbind (get_block s sib) (fun sb =>
              rbind (get_sibling_side parent index) (fun sd =>
              rbind (proof_layers s next_index r) (fun t =>
                Ok (mkLayer sd (node_hash (b_node sb)) (i_hash parent) :: t)))))
          end
    end.

  Definition get_proof_of_inclusion (s : mblob) (key : N) : res proof :=
    match amap_get N.eqb key (k2i s) with
    | None => Err E_UnknownKey
    | Some index =>
        rbind (get_node s index) (fun n =>
          match n with
          | NInt _ => Panic
          | NLeaf lf =>
              rbind (lineage (S (length (blocks s))) s index) (fun lin =>
              rbind (proof_layers s index (tl lin)) (fun ls => Ok (mkProof (l_hash lf) ls)))
          end)
    end.

End WithH.
