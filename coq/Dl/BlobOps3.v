(* Dl/BlobOps3.v — L2 -> L1: delete with sibling promotion (parent is not the root). *)
From Coq Require Import Permutation.
From ChiaV.Base Require Import Bytes Sha256.
From ChiaV.Gen Require Import Dl.
From ChiaV.Dl Require Import Format Map Tree Blob Abs Inv History FormatProofs MapProofs TreeProofs BlobLemmas BlobOps BlobOps2.
From Coq Require Import ZifyBool ZifyNat ZifyN.
Ltac Zify.zify_post_hook ::= Z.div_mod_to_equations.
Open Scope N_scope.

(* ---------- t_del through a context ---------- *)
Lemma del_none_i k t : ~ In k (tkeys_i t) -> t_del k (erase t) = None.
Proof.
  unfold tkeys_i. generalize (erase t). intros t0 Hn.
  induction t0 as [k' v h|hh d l IHl r IHr]; cbn [t_del].
  - unfold tkeys, mkeys in Hn. cbn in Hn. destruct (N.eqb_spec k' k); [exfalso; apply Hn; now left|reflexivity].
  - unfold tkeys, mkeys in *. cbn [t_kv] in Hn. rewrite map_app, in_app_iff in Hn.
    rewrite IHl by tauto. rewrite IHr by tauto. reflexivity.
Qed.

Lemma del_plug k c : forall t t1,
  Forall (fun f => ~ In k (tkeys_i (fr_sib f))) c ->
  t_del k (erase t) = Some (Some (erase t1)) ->
  t_del k (erase (plug c t)) = Some (Some (erase (plug (map set_dirty c) t1))).
Proof.
  induction c as [|f c IH]; intros t t1 Hf Hd; cbn [plug map]; [exact Hd|].
  inversion Hf as [|? ? Hn Hf']; subst. apply IH; [exact Hf'|].
  destruct f as [i hh d [|] sib]; cbn [fill set_dirty erase t_del fr_sib] in *.
  - now rewrite Hd.
  - rewrite (del_none_i k sib Hn). now rewrite Hd.
Qed.

(* deleting the leaf in the hole of the innermost frame promotes the sibling *)
Lemma del_fill k f i v h : ~ In k (tkeys_i (fr_sib f)) ->
  t_del k (erase (fill f (ILeaf i k v h))) = Some (Some (erase (fr_sib f))).
Proof.
  intros Hn. destruct f as [p hh d [|] sib]; cbn [fill erase t_del fr_sib] in *.
  - now rewrite N.eqb_refl.
  - rewrite (del_none_i k sib Hn). now rewrite N.eqb_refl.
Qed.

(* ---------- the root block of a stored subtree ---------- *)
Definition root_block (t : itree) (p : option N) : block :=
  match t with
  | ILeaf i k v h => mkBlock false (NLeaf (mkLeaf h p k v))
  | INode i hh d l r => mkBlock d (NInt (mkInode hh p (it_index l) (it_index r)))
  end.

Lemma rep_root_block s p t : rep s p t -> get_block s (it_index t) = Ok (root_block t p).
Proof. intros Hr. inversion Hr; subst; assumption. Qed.

Lemma rep_reparent s s' p p' t :
  rep s p t -> NoDup (it_indices t) ->
  get_block s' (it_index t) = Ok (root_block t p') ->
  (forall j, In j (it_indices t) -> j <> it_index t -> get_block s' j = get_block s j) ->
  rep s' p' t.
Proof.
  intros Hr Hnd Hg Hf. inversion Hr as [? i k v h Hgi|? i hh d l r Hgi Hl Hrr]; subst; cbn [it_index root_block] in *.
  - now constructor.
  - cbn [it_indices] in Hnd. inversion Hnd as [|? ? Hni Hnd']; subst.
    constructor; [exact Hg| |].
    + eapply rep_frame; [|exact Hl]. intros j Hj. apply Hf.
      * cbn [it_indices In]. right. apply in_app_iff. now left.
      * intros ->. apply Hni. apply in_app_iff. now left.
    + eapply rep_frame; [|exact Hrr]. intros j Hj. apply Hf.
      * cbn [it_indices In]. right. apply in_app_iff. now right.
      * intros ->. apply Hni. apply in_app_iff. now right.
Qed.

Lemma root_block_wf t p bound :
  it_ranges t -> (forall j, In j (it_indices t) -> j < bound) -> bound <= 2 ^ 32 -> wf_parent p ->
  wf_block (root_block t p).
Proof.
  intros Hr Hb Hle Hp. destruct t as [i k v h|i hh d l r]; cbn [root_block it_ranges] in *;
    unfold wf_block, wf_node; cbn [b_node].
  - destruct Hr as [A [B C]]. unfold wf_leaf. cbn. auto.
  - destruct Hr as [A [B C]]. unfold wf_inode. cbn. split; [exact A|]. split; [exact Hp|].
    assert (it_index l < bound) by (apply Hb; cbn [it_indices In]; right; apply in_app_iff; left; apply it_index_in).
    assert (it_index r < bound) by (apply Hb; cbn [it_indices In]; right; apply in_app_iff; right; apply it_index_in).
    split; lia.
Qed.

(* what writing the root block of a subtree does to the caches *)
Definition root_k2i (t : itree) (i : N) (m : list (N * N)) : list (N * N) :=
  match t with ILeaf _ k _ _ => amap_set N.eqb k i m | INode _ _ _ _ _ => m end.
Definition root_h2i (t : itree) (i : N) (m : list (bytes * N)) : list (bytes * N) :=
  match t with ILeaf _ _ _ h => amap_set bytes_eqb h i m | INode _ _ _ _ _ => m end.

Lemma root_block_caches t p i s :
  (match b_node (root_block t p) with NLeaf l => amap_set N.eqb (l_key l) i (k2i s) | NInt _ => k2i s end) = root_k2i t i (k2i s) /\
  (match b_node (root_block t p) with NLeaf l => amap_set bytes_eqb (l_hash l) i (h2i s) | NInt _ => h2i s end) = root_h2i t i (h2i s).
Proof. destruct t; split; reflexivity. Qed.

Lemma root_block_reparent t p p' :
  mkBlock (b_dirty (root_block t p)) (node_set_parent p' (b_node (root_block t p))) = root_block t p'.
Proof. destruct t; reflexivity. Qed.

Section Delete.
  Variable H : bytes -> bytes.

  (* delete a leaf whose parent is not the root: the sibling subtree takes the parent's place *)
  Theorem delete_inner s f g c'' li k v h :
    Inv_tree H s (plug (f :: g :: c'') (ILeaf li k v h)) ->
    exists s', delete k s = (Ok tt, s') /\
      Inv_tree H s' (plug (map set_dirty (g :: c'')) (fr_sib f)) /\
      t_delete k (Some (erase (plug (f :: g :: c'') (ILeaf li k v h))))
      = (true, Some (erase (plug (map set_dirty (g :: c'')) (fr_sib f)))).
  Proof.
    intros HI. set (lf := ILeaf li k v h) in *. set (c := f :: g :: c'') in *.
    destruct (inv_plug_facts H _ _ _ _ _ _ HI)
      as [Hg [Hctx [Hi_ctx [Hnd_ctx [Hidx [[Hkr [Hvr Hhr]] [Hfr [Hwfc [Hi_free [Hk_ctx [Hkeys_ctx [Hh_ctx [Hhashes_ctx [Hcl [Hki Hhi]]]]]]]]]]]]]]].
    destruct HI as [Hrep Hroot Hnd Hbound Hblen Hfnd Hfree Hflt Hk2i Hh2i Hkn Hhn Hkeys Hhashes Hranges Htwf].
    destruct f as [p hh d lh sib]. destruct g as [gp ghh gd glh gsib].
    cbn [c ctx_rep frame_rep ctx_par fr_idx] in Hctx. destruct Hctx as [[Hgp Hsib] [[Hggp Hgsib] Hctx'']].
    set (sidx := it_index sib) in *.
    assert (Hleaves0 : Permutation (it_leaves (plug c lf)) ((li, k, v, h) :: ctx_leaves c)) by apply it_leaves_plug.
    assert (Hindices0 : forall j, In j (it_indices (plug c lf)) <-> In j (li :: ctx_indices c)).
    { intros j. apply (in_perm_iff _ _ j (it_indices_plug c lf)). }
    (* index facts *)
    pose proof Hnd_ctx as Hnd_ctx0.
    unfold c, ctx_indices in Hnd_ctx. cbn [flat_map fr_idx fr_sib] in Hnd_ctx. fold (ctx_indices c'') in Hnd_ctx.
    inversion Hnd_ctx as [|? ? Hp_rest Hnd_rest]; subst.
    destruct (NoDup_app_inv _ _ Hnd_rest) as [Hnd_sib [Hnd_gc Hdis_sib]].
    inversion Hnd_gc as [|? ? Hgp_rest Hnd_grest]; subst.
    destruct (NoDup_app_inv _ _ Hnd_grest) as [Hnd_gsib [Hnd_c'' Hdis_gsib]].
    assert (Hp_in : In p (ctx_indices c)) by (apply ctx_indices_cons; now left).
    assert (Hsib_in : forall j, In j (it_indices sib) -> In j (ctx_indices c)) by (intros j Hj; apply ctx_indices_cons; right; now left).
    assert (Hgc_in : forall j, In j (ctx_indices (Fr gp ghh gd glh gsib :: c'')) -> In j (ctx_indices c)) by (intros j Hj; apply ctx_indices_cons; right; now right).
    assert (Hgp_in : In gp (ctx_indices (Fr gp ghh gd glh gsib :: c''))) by (apply ctx_indices_cons; now left).
    assert (Hsidx_in : In sidx (it_indices sib)) by apply it_index_in.
    assert (Hlt : forall j, In j (ctx_indices c) -> j < nblocks s) by (intros j Hj; apply Hidx; now right).
    assert (Hli_lt : li < nblocks s) by (apply Hidx; now left).
    assert (Hp_li : p <> li) by (intros ->; contradiction).
    assert (Hsidx_li : sidx <> li) by (intros E; apply Hi_ctx; rewrite <- E; auto).
    assert (Hsidx_p : sidx <> p) by (intros E; apply Hp_rest; apply in_app_iff; left; now rewrite <- E).
    assert (Hsib_gc : forall j, In j (it_indices sib) -> ~ In j (ctx_indices (Fr gp ghh gd glh gsib :: c''))).
    { intros j Hj Hx. unfold ctx_indices in Hx. cbn [flat_map fr_idx fr_sib] in Hx. exact (Hdis_sib j Hj Hx). }
    assert (Hgp_p : gp <> p) by (intros ->; apply Hp_rest; apply in_app_iff; right; now left).
    assert (Hgp_li : gp <> li) by (intros ->; apply Hi_ctx; auto).
    assert (Hgp_sidx : gp <> sidx) by (intros E; apply (Hsib_gc sidx Hsidx_in); now rewrite <- E).
    inversion Hwfc as [|? ? [Hhh [Hp32 Hsib32]] Hwfc']; subst. cbn [fr_hash fr_idx fr_sib] in *.
    inversion Hwfc' as [|? ? [Hghh [Hgp32 Hgsib32]] Hwfc'']; subst. cbn [fr_hash fr_idx fr_sib] in *.
    inversion Hfr as [|? ? [_ Hsib_r] Hfr']; subst. cbn [fr_sib] in Hsib_r.
    (* run *)
    unfold delete. unfold bind at 1. unfold read at 1. unfold get_leaf_by_key. rewrite Hki. unfold rbind. rewrite Hg. cbn [b_node].
    unfold bind at 1. unfold remove_leaf. cbn [l_key l_hash l_parent]. rewrite Hki.
    set (s1 := mkB (blocks s) (free_insert li (free s)) (amap_del N.eqb k (k2i s)) (amap_del bytes_eqb h (h2i s))).
    assert (Hgs1 : forall j, get_block s1 j = get_block s j) by reflexivity.
    cbn [ctx_par c fr_idx].
    unfold bind at 1. unfold read at 1. unfold get_node. rewrite Hgs1, Hgp. cbn [rbind b_node].
    assert (Esib : sibling_index (mkInode hh (Some gp) (if lh then li else sidx) (if lh then sidx else li)) li = Ok sidx).
    { unfold sibling_index. cbn [i_left i_right]. destruct lh.
      - destruct (N.eqb_spec li sidx); [congruence|]. now rewrite N.eqb_refl.
      - now rewrite N.eqb_refl. }
    unfold bind at 1. unfold lift at 1. rewrite Esib.
    pose proof (rep_root_block _ _ _ Hsib) as Hsb. fold sidx in Hsb.
    unfold bind at 1. unfold read at 1. rewrite Hgs1, Hsb.
    cbn [i_parent].
    unfold bind at 1. unfold remove_internal, modify.
    set (s2 := set_free s1 (free_insert p (free s1))).
    assert (Hgs2 : forall j, get_block s2 j = get_block s j) by reflexivity.
    unfold bind at 1. unfold read at 1. rewrite Hgs2, Hggp.
    rewrite root_block_reparent.
    set (nb_s := root_block sib (Some gp)).
    assert (Hws : wf_block nb_s).
    { apply (root_block_wf sib (Some gp) (nblocks s)); [exact Hsib_r| |exact Hbound|exact Hgp32]. intros j Hj. apply Hlt. auto. }
    assert (Hbl2 : blen_ok s2) by exact Hblen.
    assert (Hn2 : nblocks s2 = nblocks s) by reflexivity.
    assert (Hsidx_lt : sidx < nblocks s) by (apply Hlt; auto).
    destruct (insert_entry_spec sidx nb_s s2 Hws) as [s3 [E3 [Hget3 [Hn3 [Hbl3 [Hf3 [Hk3 Hh3]]]]]]]; [lia|exact Hbl2|].
    unfold bind at 1. rewrite E3.
    assert (Hn3' : nblocks s3 = nblocks s) by (rewrite Hn3, Hn2; destruct (N.eqb_spec sidx (nblocks s)); [lia|reflexivity]).
    destruct (root_block_caches sib (Some gp) sidx s2) as [Ek3 Eh3]. fold nb_s in Ek3, Eh3. rewrite Ek3 in Hk3. rewrite Eh3 in Hh3.
    cbn [b_node].
    set (g' := mkInode ghh (ctx_par c'') (if glh then sidx else it_index gsib) (if glh then it_index gsib else sidx)).
    assert (Erc : replace_child (mkInode ghh (ctx_par c'') (if glh then p else it_index gsib) (if glh then it_index gsib else p)) p sidx = Some g').
    { unfold g'. destruct glh.
      - now rewrite replace_child_left by reflexivity.
      - rewrite replace_child_right; [reflexivity| |reflexivity]. cbn [i_left]. intros E.
        apply Hp_rest. apply in_app_iff. right. right. apply in_app_iff. left. rewrite E. apply it_index_in. }
    rewrite Erc. cbn [b_dirty].
    set (nb_g := mkBlock gd (NInt g')).
    assert (Hwg : wf_block nb_g).
    { unfold nb_g, g', wf_block, wf_node, wf_inode. cbn. split; [exact Hghh|]. split; [now apply ctx_par_lt|].
      unfold nblocks in *. destruct glh; split; lia. }
    assert (Hgp_lt : gp < nblocks s) by (apply Hlt; auto).
    destruct (insert_entry_spec gp nb_g s3 Hwg) as [s4 [E4 [Hget4 [Hn4 [Hbl4 [Hf4 [Hk4 Hh4]]]]]]]; [lia|exact Hbl3|].
    unfold bind at 1. fold nb_g. rewrite E4.
    assert (Hn4' : nblocks s4 = nblocks s) by (rewrite Hn4, Hn3'; destruct (N.eqb_spec gp (nblocks s)); [lia|reflexivity]).
    cbn [nb_g b_node] in Hk4, Hh4.
    assert (Hget04 : forall j, j <> sidx -> j <> gp -> get_block s4 j = get_block s j).
    { intros j J1 J2. rewrite Hget4. destruct (N.eqb_spec j gp); [congruence|]. rewrite Hget3.
      destruct (N.eqb_spec j sidx); [congruence|]. apply Hgs2. }
    (* the free list after the two releases *)
    assert (Hfree4 : free s4 = free_insert p (free_insert li (free s))).
    { rewrite Hf4, Hf3. unfold s2, s1. cbn [free set_free].
      rewrite free_remove_notin; [apply free_remove_notin|].
      - rewrite !free_insert_in. intros [[Hx|Hx]|Hx]; try congruence.
        apply (Hfree sidx Hsidx_lt) in Hx. apply Hx. apply Hindices0. right. auto.
      - rewrite free_remove_in, !free_insert_in. intros [[[Hx|Hx]|Hx] _]; try congruence.
        apply (Hfree gp Hgp_lt) in Hx. apply Hx. apply Hindices0. right. auto. }
    (* mark the lineage of the grandparent *)
    set (gc := Fr gp ghh gd glh gsib :: c'') in *.
    assert (Hctx4 : ctx_rep s4 gc sidx).
    { cbn [gc ctx_rep frame_rep ctx_par fr_idx]. split; [split|].
      - rewrite Hget4, N.eqb_refl. reflexivity.
      - eapply rep_frame; [|exact Hgsib]. intros j Hj. apply Hget04.
        + intros ->. apply (Hsib_gc sidx Hsidx_in). apply ctx_indices_cons. right. now left.
        + intros ->. apply Hgp_rest. apply in_app_iff. now left.
      - eapply ctx_rep_frame; [|exact Hctx'']. intros j Hj. apply Hget04.
        + intros ->. apply (Hsib_gc sidx Hsidx_in). apply ctx_indices_cons. right. now right.
        + intros ->. apply Hgp_rest. apply in_app_iff. now right. }
    assert (Hcl_gc : closed gc) by (destruct Hcl as [_ Hx]; exact Hx).
    pose proof (mark_ctx gc s4 sidx (S (length (blocks s4))) Hctx4 Hcl_gc Hbl4 Hnd_gc) as Hm.
    cbn [gc] in Hm. fold gc in Hm. destruct Hm as [s5 [E5 [Hctx5 [Hget5 [Hn5 [Hbl5 [Hf5 [Hk5 Hh5]]]]]]]].
    { unfold nblocks in *. lia. }
    { exact Hwfc'. }
    { intros g0 Hgin. rewrite Hfree4, !free_insert_in.
      assert (Hgi : In (fr_idx g0) (ctx_indices gc)) by (apply fr_idx_in_ctx; now apply in_map).
      intros [[Hx|Hx]|Hx].
      - assert (Hl : fr_idx g0 < nblocks s) by (apply Hlt; auto). apply (Hfree _ Hl) in Hx. apply Hx. apply Hindices0. right. auto.
      - apply Hi_ctx. rewrite <- Hx. auto.
      - apply Hp_rest. apply in_app_iff. right. rewrite <- Hx. unfold ctx_indices in Hgi. cbn [gc flat_map fr_idx fr_sib] in Hgi. exact Hgi. }
    { pose proof (ctx_length_indices gc). pose proof (pigeonhole (ctx_indices gc) (length (blocks s)) Hnd_gc) as Hp.
      assert (length (ctx_indices gc) <= length (blocks s))%nat by (apply Hp; intros x Hx; apply Hlt; auto).
      unfold nblocks in *. lia. }
    unfold mark_lineage_as_dirty. cbn [fr_idx] in E5. rewrite E5.
    exists s5. split; [reflexivity|].
    assert (Hleaves' : Permutation (it_leaves (plug (map set_dirty gc) sib)) (it_leaves sib ++ ctx_leaves gc)).
    { eapply Permutation_trans; [apply it_leaves_plug|]. now rewrite ctx_leaves_dirty. }
    assert (Hleaves_c : ctx_leaves c = it_leaves sib ++ ctx_leaves gc) by reflexivity.
    assert (Hindices' : Permutation (it_indices (plug (map set_dirty gc) sib)) (it_indices sib ++ ctx_indices gc)).
    { eapply Permutation_trans; [apply it_indices_plug|]. now rewrite ctx_indices_dirty. }
    assert (Hindices_c : forall j, In j (ctx_indices c) <-> j = p \/ In j (it_indices sib ++ ctx_indices gc)).
    { intros j. unfold c. rewrite ctx_indices_cons. cbn [fr_idx fr_sib]. rewrite in_app_iff. tauto. }
    assert (Hdel : t_del k (erase (plug c lf)) = Some (Some (erase (plug (map set_dirty gc) sib)))).
    { change (plug c lf) with (plug gc (fill (Fr p hh d lh sib) lf)). apply del_plug.
      - apply Forall_forall. intros g0 Hgin Hx. apply Hk_ctx. apply ctx_keys_in. exists g0. split; [now right|exact Hx].
      - apply (del_fill k (Fr p hh d lh sib)). intros Hx. apply Hk_ctx. apply ctx_keys_in. exists (Fr p hh d lh sib). split; [now left|exact Hx]. }
    (* caches: pointwise *)
    assert (Hk5' : forall k', amap_get N.eqb k' (k2i s5) = if k' =? k then None else amap_get N.eqb k' (k2i s)).
    { intros k'. rewrite Hk5, Hk4, Hk3. unfold s2, s1. cbn [k2i set_free].
      destruct sib as [si sk sv sh|si shh sdd sl sr]; cbn [root_k2i].
      - rewrite (amap_get_set N.eqb N.eqb_spec), (amap_get_del N.eqb N.eqb_spec).
        destruct (N.eqb_spec k' sk) as [->|]; [|reflexivity].
        assert (Hsk : amap_get N.eqb sk (k2i s) = Some si).
        { apply Hk2i. exists sv, sh. apply (in_perm_iff _ _ _ Hleaves0). right. rewrite Hleaves_c. cbn. now left. }
        destruct (N.eqb_spec sk k) as [->|]; [|now rewrite Hsk].
        exfalso. apply Hk_ctx. unfold ctx_keys. rewrite Hleaves_c. cbn. now left.
      - apply (amap_get_del N.eqb N.eqb_spec). }
    assert (Hh5' : forall h', amap_get bytes_eqb h' (h2i s5) = if bytes_eqb h' h then None else amap_get bytes_eqb h' (h2i s)).
    { intros h'. rewrite Hh5, Hh4, Hh3. unfold s2, s1. cbn [h2i set_free].
      destruct sib as [si sk sv sh|si shh sdd sl sr]; cbn [root_h2i].
      - rewrite (amap_get_set bytes_eqb bytes_eqb_spec), (amap_get_del bytes_eqb bytes_eqb_spec).
        destruct (bytes_eqb_spec h' sh) as [->|]; [|reflexivity].
        assert (Hsh : amap_get bytes_eqb sh (h2i s) = Some si).
        { apply Hh2i. exists sk, sv. apply (in_perm_iff _ _ _ Hleaves0). right. rewrite Hleaves_c. cbn. now left. }
        destruct (bytes_eqb_spec sh h) as [->|]; [|now rewrite Hsh].
        exfalso. apply Hh_ctx. unfold ctx_hashes. rewrite Hleaves_c. cbn. now left.
      - apply (amap_get_del bytes_eqb bytes_eqb_spec). }
    assert (Hn5' : nblocks s5 = nblocks s) by congruence.
    assert (Hf5' : free s5 = free_insert p (free_insert li (free s))) by congruence.
    split.
    - constructor.
      + (* rep *)
        apply rep_plug. rewrite ctx_par_dirty. split; [|exact Hctx5]. cbn [gc ctx_par fr_idx].
        eapply (rep_reparent s s5 (Some p) (Some gp)); [exact Hsib|exact Hnd_sib| |].
        * fold sidx. rewrite Hget5.
          -- rewrite Hget4. destruct (N.eqb_spec sidx gp); [congruence|]. rewrite Hget3, N.eqb_refl. reflexivity.
          -- intros Hx. apply fr_idx_in_ctx in Hx. exact (Hsib_gc sidx Hsidx_in Hx).
        * intros j Hj Hne. fold sidx in Hne. rewrite Hget5.
          -- apply Hget04; [exact Hne|]. intros ->. apply (Hsib_gc gp Hj). exact Hgp_in.
          -- intros Hx. apply fr_idx_in_ctx in Hx. exact (Hsib_gc j Hj Hx).
      + (* root *)
        rewrite <- Hroot. change (plug c lf) with (plug gc (fill (Fr p hh d lh sib) lf)).
        rewrite (it_index_plug (map set_dirty gc) sib (fill (Fr p hh d lh sib) lf)) by (cbn [gc map]; discriminate).
        apply it_index_plug_dirty. reflexivity.
      + eapply Permutation_NoDup; [apply Permutation_sym; exact Hindices'|]. exact Hnd_rest.
      + fold (nblocks s5). rewrite Hn5'. exact Hbound.
      + exact Hbl5.
      + rewrite Hf5'. apply free_insert_nodup. apply free_insert_nodup. exact Hfnd.
      + (* free list *)
        intros j Hj. fold (nblocks s5) in Hj. rewrite Hn5' in Hj. rewrite Hf5', !free_insert_in, (Hfree j Hj).
        rewrite (in_perm_iff _ _ j Hindices'), (Hindices0 j). cbn [In]. rewrite (Hindices_c j). split.
        * intros [[Hx| ->]| ->] Hy.
          -- apply Hx. right. now right.
          -- apply Hi_ctx. apply Hindices_c. now right.
          -- apply Hp_rest. exact Hy.
        * intros Hy. destruct (N.eq_dec j p) as [->|Hjp]; [now right|]. destruct (N.eq_dec j li) as [->|Hjl]; [left; now right|].
          left. left. intros [E|[E|Hx]]; [congruence|congruence|contradiction].
      + intros j. rewrite Hf5', !free_insert_in. fold (nblocks s5). rewrite Hn5'. intros [[Hx| ->]| ->]; auto.
      + (* key cache *)
        intros k' i'. rewrite Hk5'. destruct (N.eqb_spec k' k) as [->|Hne].
        * split; [discriminate|]. intros [v' [h' Hx]]. apply (in_perm_iff _ _ _ Hleaves') in Hx. rewrite <- Hleaves_c in Hx.
          exfalso. apply Hk_ctx. unfold ctx_keys. apply in_map_iff. eexists. split; [|exact Hx]. reflexivity.
        * rewrite Hk2i. split; intros [v' [h' Hx]]; exists v', h'.
          -- apply (in_perm_iff _ _ _ Hleaves0) in Hx. apply (in_perm_iff _ _ _ Hleaves'). rewrite <- Hleaves_c.
             destruct Hx as [Hx|Hx]; [congruence|exact Hx].
          -- apply (in_perm_iff _ _ _ Hleaves') in Hx. rewrite <- Hleaves_c in Hx. apply (in_perm_iff _ _ _ Hleaves0). now right.
      + (* hash cache *)
        intros h' i'. rewrite Hh5'. destruct (bytes_eqb_spec h' h) as [->|Hne].
        * split; [discriminate|]. intros [k' [v' Hx]]. apply (in_perm_iff _ _ _ Hleaves') in Hx. rewrite <- Hleaves_c in Hx.
          exfalso. apply Hh_ctx. unfold ctx_hashes. apply in_map_iff. eexists. split; [|exact Hx]. reflexivity.
        * rewrite Hh2i. split; intros [k' [v' Hx]]; exists k', v'.
          -- apply (in_perm_iff _ _ _ Hleaves0) in Hx. apply (in_perm_iff _ _ _ Hleaves'). rewrite <- Hleaves_c.
             destruct Hx as [Hx|Hx]; [congruence|exact Hx].
          -- apply (in_perm_iff _ _ _ Hleaves') in Hx. rewrite <- Hleaves_c in Hx. apply (in_perm_iff _ _ _ Hleaves0). now right.
      + rewrite Hk5, Hk4, Hk3. unfold s2, s1. cbn [k2i set_free].
        destruct sib; cbn [root_k2i]; [apply amap_set_nodup; [exact N.eqb_spec|]|]; apply amap_del_nodup; try exact N.eqb_spec; exact Hkn.
      + rewrite Hh5, Hh4, Hh3. unfold s2, s1. cbn [h2i set_free].
        destruct sib; cbn [root_h2i]; [apply amap_set_nodup; [exact bytes_eqb_spec|]|]; apply amap_del_nodup; try exact bytes_eqb_spec; exact Hhn.
      + unfold it_keys. eapply perm_nodup_map; [apply Permutation_sym; exact Hleaves'|]. rewrite <- Hleaves_c. exact Hkeys_ctx.
      + unfold it_lhashes. eapply perm_nodup_map; [apply Permutation_sym; exact Hleaves'|]. rewrite <- Hleaves_c. exact Hhashes_ctx.
      + apply it_ranges_plug. split; [exact Hsib_r|]. apply fr_ranges_dirty. exact Hfr'.
      + eapply del_twf; [exact Htwf|exact Hdel].
    - unfold t_delete. rewrite Hdel. reflexivity.
  Qed.
End Delete.

(* ---------- delete a child of the root: the sibling moves to index 0 ---------- *)
Definition reroot (t : itree) : itree :=
  match t with
  | ILeaf _ k v h => ILeaf 0 k v h
  | INode _ hh d l r => INode 0 hh d l r
  end.

Lemma erase_reroot t : erase (reroot t) = erase t.
Proof. destruct t; reflexivity. Qed.
Lemma it_leaves_reroot_node i hh d l r : it_leaves (reroot (INode i hh d l r)) = it_leaves (INode i hh d l r).
Proof. reflexivity. Qed.

Lemma root_k2i_same t (m : list (N * N)) :
  (forall i k v h, t = ILeaf i k v h -> amap_get N.eqb k m = Some i) ->
  forall k', amap_get N.eqb k' (root_k2i t (it_index t) m) = amap_get N.eqb k' m.
Proof.
  intros Hs k'. destruct t as [i k v h|]; cbn [root_k2i it_index]; [|reflexivity].
  rewrite (amap_get_set N.eqb N.eqb_spec). destruct (N.eqb_spec k' k) as [->|]; [|reflexivity].
  symmetry. eapply Hs. reflexivity.
Qed.
Lemma root_h2i_same t (m : list (bytes * N)) :
  (forall i k v h, t = ILeaf i k v h -> amap_get bytes_eqb h m = Some i) ->
  forall h', amap_get bytes_eqb h' (root_h2i t (it_index t) m) = amap_get bytes_eqb h' m.
Proof.
  intros Hs h'. destruct t as [i k v h|]; cbn [root_h2i it_index]; [|reflexivity].
  rewrite (amap_get_set bytes_eqb bytes_eqb_spec). destruct (bytes_eqb_spec h' h) as [->|]; [|reflexivity].
  symmetry. eapply Hs. reflexivity.
Qed.
Lemma root_k2i_nodup t i (m : list (N * N)) : NoDup (map fst m) -> NoDup (map fst (root_k2i t i m)).
Proof. destruct t; cbn [root_k2i]; [apply amap_set_nodup; exact N.eqb_spec|auto]. Qed.
Lemma root_h2i_nodup t i (m : list (bytes * N)) : NoDup (map fst m) -> NoDup (map fst (root_h2i t i m)).
Proof. destruct t; cbn [root_h2i]; [apply amap_set_nodup; exact bytes_eqb_spec|auto]. Qed.

(* update_parent on the root block of a stored subtree *)
Lemma update_parent_spec s q q' t :
  rep s q t -> it_ranges t -> (forall j, In j (it_indices t) -> j < nblocks s) -> nblocks s <= 2 ^ 32 ->
  wf_parent q' -> blen_ok s -> ~ In (it_index t) (free s) ->
  exists s', update_parent (it_index t) q' s = (Ok (root_block t q'), s') /\
    (forall j, get_block s' j = if j =? it_index t then Ok (root_block t q') else get_block s j) /\
    nblocks s' = nblocks s /\ blen_ok s' /\ free s' = free s /\
    k2i s' = root_k2i t (it_index t) (k2i s) /\ h2i s' = root_h2i t (it_index t) (h2i s).
Proof.
  intros Hr Hrg Hlt Hb Hq Hbl Hfr. pose proof (rep_root_block _ _ _ Hr) as Hg.
  assert (Hw : wf_block (root_block t q')) by (eapply root_block_wf; eauto).
  assert (Hil : it_index t < nblocks s) by (apply Hlt; apply it_index_in).
  destruct (insert_entry_spec (it_index t) (root_block t q') s Hw) as [s' [E [Hget [Hn [Hbl' [Hf [Hk Hh]]]]]]]; [lia|exact Hbl|].
  exists s'. unfold update_parent, bind, read. rewrite Hg, root_block_reparent, E. split; [reflexivity|].
  split; [exact Hget|]. split; [rewrite Hn; destruct (N.eqb_spec (it_index t) (nblocks s)); [lia|reflexivity]|].
  split; [exact Hbl'|]. split; [rewrite Hf; now apply free_remove_notin|].
  destruct (root_block_caches t q' (it_index t) s) as [A B]. now rewrite Hk, Hh, A, B.
Qed.

Section DeleteRoot.
  Variable H : bytes -> bytes.

  Theorem delete_root_child s f li k v h :
    Inv_tree H s (plug [f] (ILeaf li k v h)) ->
    exists s', delete k s = (Ok tt, s') /\
      Inv_tree H s' (reroot (fr_sib f)) /\
      t_delete k (Some (erase (plug [f] (ILeaf li k v h)))) = (true, Some (erase (reroot (fr_sib f)))).
  Proof.
    intros HI. set (lf := ILeaf li k v h) in *.
    destruct (inv_plug_facts H _ _ _ _ _ _ HI)
      as [Hg [Hctx [Hi_ctx [Hnd_ctx [Hidx [[Hkr [Hvr Hhr]] [Hfr [Hwfc [Hi_free [Hk_ctx [Hkeys_ctx [Hh_ctx [Hhashes_ctx [Hcl [Hki Hhi]]]]]]]]]]]]]]].
    destruct HI as [Hrep Hroot Hnd Hbound Hblen Hfnd Hfree Hflt Hk2i Hh2i Hkn Hhn Hkeys Hhashes Hranges Htwf].
    destruct f as [p hh d lh sib].
    cbn [plug] in Hroot. rewrite it_index_fill in Hroot. cbn [fr_idx] in Hroot. subst p.
    cbn [ctx_rep frame_rep ctx_par fr_idx] in Hctx. destruct Hctx as [[Hgp Hsib] _].
    set (sidx := it_index sib) in *. set (c := [Fr 0 hh d lh sib]) in *.
    assert (Hleaves0 : Permutation (it_leaves (plug c lf)) ((li, k, v, h) :: it_leaves sib)).
    { eapply Permutation_trans; [apply it_leaves_plug|]. unfold c, ctx_leaves. cbn [flat_map fr_sib lf it_leaves app]. now rewrite app_nil_r. }
    assert (Hci : ctx_indices c = 0 :: it_indices sib) by (unfold c, ctx_indices; cbn [flat_map fr_idx fr_sib]; now rewrite app_nil_r).
    assert (Hindices0 : forall j, In j (it_indices (plug c lf)) <-> In j (li :: 0 :: it_indices sib)).
    { intros j. rewrite <- Hci. apply (in_perm_iff _ _ j (it_indices_plug c lf)). }
    rewrite Hci in Hnd_ctx, Hi_ctx. inversion Hnd_ctx as [|? ? H0_sib Hnd_sib]; subst.
    assert (Hsidx_in : In sidx (it_indices sib)) by apply it_index_in.
    assert (Hlt : forall j, In j (0 :: it_indices sib) -> j < nblocks s) by (intros j Hj; apply Hidx; right; now rewrite Hci).
    assert (Hli_lt : li < nblocks s) by (apply Hidx; now left).
    assert (Hli_0 : li <> 0) by (intros E; apply Hi_ctx; left; congruence).
    assert (Hsidx_li : sidx <> li) by (intros E; apply Hi_ctx; right; now rewrite <- E).
    assert (Hsidx_0 : sidx <> 0) by (intros E; apply H0_sib; now rewrite <- E).
    assert (Hsidx_lt : sidx < nblocks s) by (apply Hlt; now right).
    assert (H0_lt : 0 < nblocks s) by (apply Hlt; now left).
    assert (Hkctx' : ~ In k (map (fun x => snd (fst (fst x))) (it_leaves sib))).
    { intros Hx. apply Hk_ctx. unfold ctx_keys, c, ctx_leaves. cbn [flat_map fr_sib]. now rewrite app_nil_r. }
    assert (Hhctx' : ~ In h (map snd (it_leaves sib))).
    { intros Hx. apply Hh_ctx. unfold ctx_hashes, c, ctx_leaves. cbn [flat_map fr_sib]. now rewrite app_nil_r. }
    assert (Hkeys_sib : NoDup (map (fun x => snd (fst (fst x))) (it_leaves sib))).
    { unfold ctx_keys, c, ctx_leaves in Hkeys_ctx. cbn [flat_map fr_sib] in Hkeys_ctx. now rewrite app_nil_r in Hkeys_ctx. }
    assert (Hhashes_sib : NoDup (map snd (it_leaves sib))).
    { unfold ctx_hashes, c, ctx_leaves in Hhashes_ctx. cbn [flat_map fr_sib] in Hhashes_ctx. now rewrite app_nil_r in Hhashes_ctx. }
    inversion Hwfc as [|? ? [Hhh [Hp32 Hsib32]] _]; subst. cbn [fr_hash fr_idx fr_sib] in *.
    inversion Hfr as [|? ? [_ Hsib_r] _]; subst. cbn [fr_sib] in Hsib_r.
    assert (Hdel : t_del k (erase (plug c lf)) = Some (Some (erase sib))).
    { cbn [c plug]. apply (del_fill k (Fr 0 hh d lh sib)). cbn [fr_sib]. unfold tkeys_i. fold (tkeys_i sib). now rewrite tkeys_i_keys. }
    (* run up to the branch on the grandparent *)
    unfold delete. unfold bind at 1. unfold read at 1. unfold get_leaf_by_key. rewrite Hki. unfold rbind. rewrite Hg. cbn [b_node].
    unfold bind at 1. unfold remove_leaf. cbn [l_key l_hash l_parent]. rewrite Hki.
    set (s1 := mkB (blocks s) (free_insert li (free s)) (amap_del N.eqb k (k2i s)) (amap_del bytes_eqb h (h2i s))).
    assert (Hgs1 : forall j, get_block s1 j = get_block s j) by reflexivity.
    assert (Hbl1 : blen_ok s1) by exact Hblen.
    assert (Hn1 : nblocks s1 = nblocks s) by reflexivity.
    cbn [ctx_par c fr_idx].
    unfold bind at 1. unfold read at 1. unfold get_node. rewrite Hgs1, Hgp. cbn [rbind b_node].
    assert (Esib : sibling_index (mkInode hh None (if lh then li else sidx) (if lh then sidx else li)) li = Ok sidx).
    { unfold sibling_index. cbn [i_left i_right]. destruct lh.
      - destruct (N.eqb_spec li sidx); [congruence|]. now rewrite N.eqb_refl.
      - now rewrite N.eqb_refl. }
    unfold bind at 1. unfold lift at 1. rewrite Esib.
    pose proof (rep_root_block _ _ _ Hsib) as Hsb. fold sidx in Hsb.
    unfold bind at 1. unfold read at 1. rewrite Hgs1, Hsb. cbn [i_parent]. rewrite root_block_reparent.
    assert (Hfree_s1 : forall j, In j (it_indices sib) -> ~ In j (free s1)).
    { intros j Hj. unfold s1. cbn [free]. rewrite free_insert_in. intros [Hx| ->]; [|apply Hi_ctx; now right].
      assert (Hl : j < nblocks s) by (apply Hlt; now right). apply (Hfree j Hl) in Hx. apply Hx. apply Hindices0. right. now right. }
    assert (H0_free_s1 : ~ In 0 (free s1)).
    { unfold s1. cbn [free]. rewrite free_insert_in. intros [Hx|Hx]; [|congruence].
      apply (Hfree 0 H0_lt) in Hx. apply Hx. apply Hindices0. right. now left. }
    assert (Hws : wf_block (root_block sib None)).
    { apply (root_block_wf sib None (nblocks s)); [exact Hsib_r| |exact Hbound|exact I]. intros j Hj. apply Hlt. now right. }
    destruct sib as [si sk sv sh|si shh sdd sl sr].
    - (* the sibling is a leaf *)
      cbn [root_block b_node]. unfold bind at 1. cbn [node_set_parent]. unfold ret at 1. cbn beta iota.
      set (nb := mkBlock false (NLeaf (mkLeaf sh None sk sv))) in *.
      destruct (insert_entry_spec 0 nb s1 Hws) as [s4 [E4 [Hget4 [Hn4 [Hbl4 [Hf4 [Hk4 Hh4]]]]]]]; [lia|exact Hbl1|].
      unfold bind at 1. rewrite E4.
      assert (Hn4' : nblocks s4 = nblocks s) by (rewrite Hn4, Hn1; destruct (N.eqb_spec 0 (nblocks s)); [lia|reflexivity]).
      assert (Hf4' : free s4 = free s1) by (rewrite Hf4; now apply free_remove_notin).
      cbn [nb b_node l_key l_hash] in Hk4, Hh4. cbn [sidx it_index] in *.
      unfold move_index. rewrite Hf4'.
      assert (Em1 : nmem si (free s1) = false) by (apply nmem_false; apply Hfree_s1; now left).
      assert (Em2 : nmem 0 (free s1) = false) by (now apply nmem_false).
      rewrite Em1, Em2.
      set (s5 := set_free s4 (free_insert si (free s1))).
      assert (Hgs5 : forall j, get_block s5 j = get_block s4 j) by reflexivity.
      exists s5. split; [reflexivity|]. cbn [fr_sib reroot erase]. split; [|unfold t_delete; rewrite Hdel; reflexivity].
      cbn [it_leaves map fst snd] in *.
      assert (Hsk_k : sk <> k) by (intros E; apply Hkctx'; left; now rewrite E).
      assert (Hsh_h : sh <> h) by (intros E; apply Hhctx'; left; now rewrite E).
      constructor; cbn [s5 it_index it_indices it_leaves it_keys it_lhashes map erase twf it_ranges fst snd set_free blocks free k2i h2i].
      + constructor. rewrite Hgs5, Hget4. reflexivity.
      + reflexivity.
      + constructor; [intros []|constructor].
      + fold (nblocks s4). rewrite Hn4'. exact Hbound.
      + exact Hbl4.
      + apply free_insert_nodup. unfold s1. cbn [free]. apply free_insert_nodup. exact Hfnd.
      + intros j Hj. fold (nblocks s4) in Hj. rewrite Hn4' in Hj. unfold s1. cbn [free]. rewrite !free_insert_in, (Hfree j Hj), (Hindices0 j).
        cbn [it_indices In]. split.
        * intros [[Hx| ->]| ->] [E|[]]; [apply Hx; right; left; congruence|congruence|congruence].
        * intros Hy. destruct (N.eq_dec j si) as [->|J1]; [now right|]. destruct (N.eq_dec j li) as [->|J2]; [left; now right|].
          left. left. intros [E|[E|[E|[]]]]; try congruence. apply Hy. now left.
      + intros j. unfold s1. cbn [free]. rewrite !free_insert_in. fold (nblocks s4). rewrite Hn4'. intros [[Hx| ->]| ->]; auto.
      + intros k' i'. rewrite Hk4. unfold s1. cbn [k2i]. rewrite (amap_get_set N.eqb N.eqb_spec), (amap_get_del N.eqb N.eqb_spec).
        destruct (N.eqb_spec k' sk) as [->|Hne].
        * split; [intros [= <-]; exists sv, sh; now left|]. intros [v' [h' [E|[]]]]. congruence.
        * split; [|intros [v' [h' [E|[]]]]; congruence]. destruct (N.eqb_spec k' k); [discriminate|].
          intros Hx. apply Hk2i in Hx as [v' [h' Hx]]. apply (in_perm_iff _ _ _ Hleaves0) in Hx as [Hx|[Hx|[]]]; congruence.
      + intros h' i'. rewrite Hh4. unfold s1. cbn [h2i]. rewrite (amap_get_set bytes_eqb bytes_eqb_spec), (amap_get_del bytes_eqb bytes_eqb_spec).
        destruct (bytes_eqb_spec h' sh) as [->|Hne].
        * split; [intros [= <-]; exists sk, sv; now left|]. intros [k' [v' [E|[]]]]. congruence.
        * split; [|intros [k' [v' [E|[]]]]; congruence]. destruct (bytes_eqb_spec h' h); [discriminate|].
          intros Hx. apply Hh2i in Hx as [k' [v' Hx]]. apply (in_perm_iff _ _ _ Hleaves0) in Hx as [Hx|[Hx|[]]]; congruence.
      + rewrite Hk4. unfold s1. cbn [k2i]. apply amap_set_nodup; [exact N.eqb_spec|]. apply amap_del_nodup; [exact N.eqb_spec|exact Hkn].
      + rewrite Hh4. unfold s1. cbn [h2i]. apply amap_set_nodup; [exact bytes_eqb_spec|]. apply amap_del_nodup; [exact bytes_eqb_spec|exact Hhn].
      + constructor; [intros []|constructor].
      + constructor; [intros []|constructor].
      + exact Hsib_r.
      + exact I.
    - (* the sibling is an internal node: its children are re-parented to index 0 *)
      cbn [root_block b_node node_set_parent i_left i_right]. cbn [sidx it_index] in *.
      inversion Hsib as [|? ? ? ? ? ? Hgsi Hrl Hrr]; subst.
      cbn [it_indices] in Hnd_sib, H0_sib, Hfree_s1, Hlt. inversion Hnd_sib as [|? ? Hsi_lr Hnd_lr]; subst.
      destruct (NoDup_app_inv _ _ Hnd_lr) as [Hnd_l [Hnd_r Hdis_lr]].
      cbn [it_ranges] in Hsib_r. destruct Hsib_r as [Hshh [Hrg_l Hrg_r]].
      assert (Hin_l : forall j, In j (it_indices sl) -> In j (si :: it_indices sl ++ it_indices sr)) by (intros j Hj; right; apply in_app_iff; now left).
      assert (Hin_r : forall j, In j (it_indices sr) -> In j (si :: it_indices sl ++ it_indices sr)) by (intros j Hj; right; apply in_app_iff; now right).
      (* U1 *)
      assert (Hrl1 : rep s1 (Some si) sl) by (eapply rep_frame; [|exact Hrl]; intros; apply Hgs1).
      destruct (update_parent_spec s1 (Some si) (Some 0) sl Hrl1 Hrg_l) as [s2 [E2 [Hget2 [Hn2 [Hbl2 [Hf2 [Hk2 Hh2]]]]]]].
      { intros j Hj. rewrite Hn1. apply Hlt. right. auto. } { rewrite Hn1. exact Hbound. } { cbn. lia. } { exact Hbl1. }
      { apply Hfree_s1. apply Hin_l. apply it_index_in. }
      unfold bind at 1. unfold bind at 1. rewrite E2.
      (* U2 *)
      assert (Hrr2 : rep s2 (Some si) sr).
      { eapply rep_frame; [|exact Hrr]. intros j Hj. rewrite Hget2. destruct (N.eqb_spec j (it_index sl)) as [->|]; [|apply Hgs1].
        exfalso. exact (Hdis_lr _ (it_index_in sl) Hj). }
      destruct (update_parent_spec s2 (Some si) (Some 0) sr Hrr2 Hrg_r) as [s3 [E3 [Hget3 [Hn3 [Hbl3 [Hf3 [Hk3 Hh3]]]]]]].
      { intros j Hj. rewrite Hn2, Hn1. apply Hlt. right. auto. } { rewrite Hn2, Hn1. exact Hbound. } { cbn. lia. } { exact Hbl2. }
      { rewrite Hf2. apply Hfree_s1. apply Hin_r. apply it_index_in. }
      unfold bind at 1. rewrite E3. unfold ret at 1. cbn beta iota.
      (* the new root *)
      set (nb := mkBlock sdd (NInt (mkInode shh None (it_index sl) (it_index sr)))) in *.
      destruct (insert_entry_spec 0 nb s3 Hws) as [s4 [E4 [Hget4 [Hn4 [Hbl4 [Hf4 [Hk4 Hh4]]]]]]]; [lia|exact Hbl3|].
      unfold bind at 1. rewrite E4.
      assert (Hn4' : nblocks s4 = nblocks s) by (rewrite Hn4, Hn3, Hn2, Hn1; destruct (N.eqb_spec 0 (nblocks s)); [lia|reflexivity]).
      assert (Hf4' : free s4 = free s1) by (rewrite Hf4, Hf3, Hf2; now apply free_remove_notin).
      cbn [nb b_node] in Hk4, Hh4.
      unfold move_index. rewrite Hf4'.
      assert (Em1 : nmem si (free s1) = false) by (apply nmem_false; apply Hfree_s1; now left).
      assert (Em2 : nmem 0 (free s1) = false) by (now apply nmem_false).
      rewrite Em1, Em2.
      set (s5 := set_free s4 (free_insert si (free s1))).
      assert (Hgs5 : forall j, get_block s5 j = get_block s4 j) by reflexivity.
      exists s5. split; [reflexivity|]. cbn [fr_sib reroot erase]. split; [|unfold t_delete; rewrite Hdel; reflexivity].
      assert (Hl_ne : forall j, In j (it_indices sl) -> j <> 0 /\ j <> it_index sr).
      { intros j Hj. split; [intros ->; apply H0_sib; auto|]. intros ->. exact (Hdis_lr _ Hj (it_index_in sr)). }
      assert (Hr_ne : forall j, In j (it_indices sr) -> j <> 0 /\ j <> it_index sl).
      { intros j Hj. split; [intros ->; apply H0_sib; auto|]. intros ->. exact (Hdis_lr _ (it_index_in sl) Hj). }
      assert (Hleaves_sib : forall x, In x (it_leaves sl ++ it_leaves sr) -> In x (it_leaves (plug c lf))).
      { intros x Hx. apply (in_perm_iff _ _ _ Hleaves0). right. exact Hx. }
      (* caches: pointwise *)
      assert (Hk5' : forall k', amap_get N.eqb k' (k2i s5) = if k' =? k then None else amap_get N.eqb k' (k2i s)).
      { intros k'. unfold s5. cbn [k2i set_free]. rewrite Hk4, Hk3, Hk2.
        rewrite root_k2i_same.
        - rewrite root_k2i_same; [unfold s1; cbn [k2i]; apply (amap_get_del N.eqb N.eqb_spec)|].
          intros i0 k0 v0 h0 ->. unfold s1. cbn [k2i]. rewrite (amap_get_del N.eqb N.eqb_spec).
          destruct (N.eqb_spec k0 k) as [->|]; [exfalso; apply Hkctx'; cbn [it_leaves app map fst snd]; now left|].
          apply Hk2i. exists v0, h0. apply Hleaves_sib. cbn. now left.
        - intros i0 k0 v0 h0 ->. rewrite root_k2i_same.
          + unfold s1. cbn [k2i]. rewrite (amap_get_del N.eqb N.eqb_spec).
            destruct (N.eqb_spec k0 k) as [->|].
            * exfalso. apply Hkctx'. cbn [it_leaves]. rewrite map_app, in_app_iff. right. cbn. now left.
            * apply Hk2i. exists v0, h0. apply Hleaves_sib. apply in_app_iff. right. cbn. now left.
          + intros i1 k1 v1 h1 ->. unfold s1. cbn [k2i]. rewrite (amap_get_del N.eqb N.eqb_spec).
            destruct (N.eqb_spec k1 k) as [->|]; [exfalso; apply Hkctx'; cbn [it_leaves app map fst snd]; now left|].
            apply Hk2i. exists v1, h1. apply Hleaves_sib. cbn. now left. }
      assert (Hh5' : forall h', amap_get bytes_eqb h' (h2i s5) = if bytes_eqb h' h then None else amap_get bytes_eqb h' (h2i s)).
      { intros h'. unfold s5. cbn [h2i set_free]. rewrite Hh4, Hh3, Hh2.
        rewrite root_h2i_same.
        - rewrite root_h2i_same; [unfold s1; cbn [h2i]; apply (amap_get_del bytes_eqb bytes_eqb_spec)|].
          intros i0 k0 v0 h0 ->. unfold s1. cbn [h2i]. rewrite (amap_get_del bytes_eqb bytes_eqb_spec).
          destruct (bytes_eqb_spec h0 h) as [->|]; [exfalso; apply Hhctx'; cbn [it_leaves app map snd]; now left|].
          apply Hh2i. exists k0, v0. apply Hleaves_sib. cbn. now left.
        - intros i0 k0 v0 h0 ->. rewrite root_h2i_same.
          + unfold s1. cbn [h2i]. rewrite (amap_get_del bytes_eqb bytes_eqb_spec).
            destruct (bytes_eqb_spec h0 h) as [->|].
            * exfalso. apply Hhctx'. cbn [it_leaves]. rewrite map_app, in_app_iff. right. cbn. now left.
            * apply Hh2i. exists k0, v0. apply Hleaves_sib. apply in_app_iff. right. cbn. now left.
          + intros i1 k1 v1 h1 ->. unfold s1. cbn [h2i]. rewrite (amap_get_del bytes_eqb bytes_eqb_spec).
            destruct (bytes_eqb_spec h1 h) as [->|]; [exfalso; apply Hhctx'; cbn [it_leaves app map snd]; now left|].
            apply Hh2i. exists k1, v1. apply Hleaves_sib. cbn. now left. }
      constructor; cbn [it_index it_indices it_leaves erase twf it_ranges].
      + (* rep *)
        constructor.
        * rewrite Hgs5, Hget4. reflexivity.
        * eapply (rep_reparent s s5 (Some si) (Some 0)); [exact Hrl|exact Hnd_l| |].
          -- rewrite Hgs5, Hget4. destruct (Hl_ne _ (it_index_in sl)) as [A B]. destruct (N.eqb_spec (it_index sl) 0); [congruence|].
             rewrite Hget3. destruct (N.eqb_spec (it_index sl) (it_index sr)); [congruence|]. rewrite Hget2, N.eqb_refl. reflexivity.
          -- intros j Hj Hne. destruct (Hl_ne _ Hj) as [A B]. rewrite Hgs5, Hget4. destruct (N.eqb_spec j 0); [congruence|].
             rewrite Hget3. destruct (N.eqb_spec j (it_index sr)); [congruence|]. rewrite Hget2.
             destruct (N.eqb_spec j (it_index sl)); [congruence|]. apply Hgs1.
        * eapply (rep_reparent s s5 (Some si) (Some 0)); [exact Hrr|exact Hnd_r| |].
          -- rewrite Hgs5, Hget4. destruct (Hr_ne _ (it_index_in sr)) as [A B]. destruct (N.eqb_spec (it_index sr) 0); [congruence|].
             rewrite Hget3, N.eqb_refl. reflexivity.
          -- intros j Hj Hne. destruct (Hr_ne _ Hj) as [A B]. rewrite Hgs5, Hget4. destruct (N.eqb_spec j 0); [congruence|].
             rewrite Hget3. destruct (N.eqb_spec j (it_index sr)); [congruence|]. rewrite Hget2.
             destruct (N.eqb_spec j (it_index sl)); [congruence|]. apply Hgs1.
      + reflexivity.
      + constructor; [|exact Hnd_lr]. intros Hx. apply H0_sib. now right.
      + unfold s5. cbn [blocks set_free]. fold (nblocks s4). rewrite Hn4'. exact Hbound.
      + exact Hbl4.
      + unfold s5. cbn [free set_free]. apply free_insert_nodup. unfold s1. cbn [free]. apply free_insert_nodup. exact Hfnd.
      + intros j Hj. unfold s5 in *. cbn [blocks free set_free] in *. fold (nblocks s4) in Hj. rewrite Hn4' in Hj.
        unfold s1. cbn [free]. rewrite !free_insert_in, (Hfree j Hj), (Hindices0 j). cbn [it_indices In]. split.
        * intros [[Hx| ->]| ->] [E|Hy].
          -- apply Hx. right. left. exact E.
          -- apply Hx. right. right. now right.
          -- congruence.
          -- apply Hi_ctx. right. now right.
          -- congruence.
          -- contradiction.
        * intros Hy. destruct (N.eq_dec j si) as [->|J1]; [now right|]. destruct (N.eq_dec j li) as [->|J2]; [left; now right|].
          left. left. intros [E|[E|[E|Hx]]]; try congruence; apply Hy; [now left|now right].
      + intros j. unfold s5, s1. cbn [blocks free set_free]. rewrite !free_insert_in. fold (nblocks s4). rewrite Hn4'.
        intros [[Hx| ->]| ->]; auto.
      + intros k' i'. rewrite Hk5'. destruct (N.eqb_spec k' k) as [->|Hne].
        * split; [discriminate|]. intros [v' [h' Hx]]. exfalso. apply Hkctx'. cbn [it_leaves]. apply in_map_iff. eexists. split; [|exact Hx]. reflexivity.
        * rewrite Hk2i. split; intros [v' [h' Hx]]; exists v', h'.
          -- apply (in_perm_iff _ _ _ Hleaves0) in Hx. destruct Hx as [Hx|Hx]; [congruence|exact Hx].
          -- now apply Hleaves_sib.
      + intros h' i'. rewrite Hh5'. destruct (bytes_eqb_spec h' h) as [->|Hne].
        * split; [discriminate|]. intros [k' [v' Hx]]. exfalso. apply Hhctx'. cbn [it_leaves]. apply in_map_iff. eexists. split; [|exact Hx]. reflexivity.
        * rewrite Hh2i. split; intros [k' [v' Hx]]; exists k', v'.
          -- apply (in_perm_iff _ _ _ Hleaves0) in Hx. destruct Hx as [Hx|Hx]; [congruence|exact Hx].
          -- now apply Hleaves_sib.
      + unfold s5. cbn [k2i set_free]. rewrite Hk4, Hk3, Hk2. apply root_k2i_nodup. apply root_k2i_nodup. unfold s1. cbn [k2i].
        apply amap_del_nodup; [exact N.eqb_spec|exact Hkn].
      + unfold s5. cbn [h2i set_free]. rewrite Hh4, Hh3, Hh2. apply root_h2i_nodup. apply root_h2i_nodup. unfold s1. cbn [h2i].
        apply amap_del_nodup; [exact bytes_eqb_spec|exact Hhn].
      + exact Hkeys_sib.
      + exact Hhashes_sib.
      + auto.
      + apply (del_twf H _ _ _ Htwf) in Hdel. exact Hdel.
  Qed.
End DeleteRoot.
