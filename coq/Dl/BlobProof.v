(* Dl/BlobProof.v — L2 -> L1: get_proof_of_inclusion on a hashed blob returns exactly the L1 proof
   (so C18_proofs_valid applies to what the blob hands out). *)
From Coq Require Import Permutation.
From ChiaV.Base Require Import Bytes Sha256.
From ChiaV.Gen Require Import Dl.
From ChiaV.Dl Require Import Format Map Tree Blob Abs Inv History Spec FormatProofs MapProofs TreeProofs BlobLemmas BlobOps BlobOps2 BlobOps3 BlobHash.
From Coq Require Import ZifyBool ZifyNat ZifyN.
Ltac Zify.zify_post_hook ::= Z.div_mod_to_equations.
Open Scope N_scope.

Definition frame_block (p : option N) (f : frame) (hole : N) : block :=
  let '(Fr i hh d lh sib) := f in
  mkBlock d (NInt (mkInode hh p (if lh then hole else it_index sib) (if lh then it_index sib else hole))).
Fixpoint ctx_lineage (c : list frame) (hole : N) : list (N * block) :=
  match c with
  | [] => []
  | f :: c' => (fr_idx f, frame_block (ctx_par c') f hole) :: ctx_lineage c' (fr_idx f)
  end.
Definition frame_layer (f : frame) : layer :=
  let '(Fr i hh d lh sib) := f in mkLayer (if lh then SRight else SLeft) (it_hash sib) hh.

Lemma lineage_ctx : forall c s hole fuel b0,
  ctx_rep s c hole -> get_block s hole = Ok b0 -> node_parent (b_node b0) = ctx_par c -> (length c < fuel)%nat ->
  lineage fuel s hole = Ok ((hole, b0) :: ctx_lineage c hole).
Proof.
  induction c as [|f c IH]; intros s hole fuel b0 Hc Hg Hp Hf; (destruct fuel as [|fu]; [cbn in Hf; lia|]);
    cbn [lineage]; unfold rbind at 1; rewrite Hg, Hp; cbn [ctx_par ctx_lineage].
  - reflexivity.
  - destruct f as [i hh d lh sib]. cbn [ctx_rep frame_rep fr_idx] in *. destruct Hc as [[Hgi Hs] Hc'].
    rewrite (IH s i fu _ Hc' Hgi); [reflexivity|reflexivity|cbn [length] in Hf; lia].
Qed.

Lemma layers_ctx : forall c s hole,
  ctx_rep s c hole -> Forall (fun f => fr_dirty f = false) c -> ~ In hole (ctx_indices c) -> NoDup (ctx_indices c) ->
  proof_layers s hole (ctx_lineage c hole) = Ok (map frame_layer c).
Proof.
  induction c as [|f c IH]; intros s hole Hc Hcl Hh Hnd; cbn [ctx_lineage proof_layers map]; [reflexivity|].
  destruct f as [i hh d lh sib]. cbn [ctx_rep frame_rep fr_idx frame_block] in *. destruct Hc as [[Hgi Hs] Hc'].
  inversion Hcl as [|? ? Hd Hcl']; subst. cbn [fr_dirty] in Hd. subst d. cbn [b_dirty b_node].
  assert (Hhs : hole <> it_index sib).
  { intros E. apply Hh. apply ctx_indices_cons. right. left. cbn [fr_sib]. rewrite E. apply it_index_in. }
  assert (Esib : sibling_index (mkInode hh (ctx_par c) (if lh then hole else it_index sib) (if lh then it_index sib else hole)) hole = Ok (it_index sib)).
  { unfold sibling_index. cbn [i_left i_right]. destruct lh.
    - destruct (N.eqb_spec hole (it_index sib)); [congruence|]. now rewrite N.eqb_refl.
    - now rewrite N.eqb_refl. }
  assert (Eside : get_sibling_side (mkInode hh (ctx_par c) (if lh then hole else it_index sib) (if lh then it_index sib else hole)) hole
                  = Ok (if lh then SRight else SLeft)).
  { unfold get_sibling_side. cbn [i_left i_right]. destruct lh.
    - now rewrite N.eqb_refl.
    - destruct (N.eqb_spec (it_index sib) hole); [congruence|]. now rewrite N.eqb_refl. }
  rewrite Esib. unfold rbind at 1. rewrite (rep_root_block _ _ _ Hs). unfold rbind at 1. rewrite Eside. unfold rbind at 1.
  unfold ctx_indices in Hnd. cbn [flat_map fr_idx fr_sib] in Hnd. fold (ctx_indices c) in Hnd.
  inversion Hnd as [|? ? Hi_rest Hnd_rest]; subst. destruct (NoDup_app_inv _ _ Hnd_rest) as [_ [Hnd_c _]].
  rewrite (IH s i Hc' Hcl'); [| |exact Hnd_c].
  - unfold rbind. cbn [frame_layer i_hash]. f_equal. f_equal. f_equal. destruct sib; reflexivity.
  - intros Hx. apply Hi_rest. apply in_app_iff. now right.
Qed.

Section Paths.
  Variable H : bytes -> bytes.

  Lemma path_plug k c : forall t nh ls,
    Forall (fun f => ~ In k (tkeys_i (fr_sib f))) c ->
    t_path k (erase t) = Some (nh, ls) ->
    t_path k (erase (plug c t)) = Some (nh, ls ++ map frame_layer c).
  Proof.
    induction c as [|f c IH]; intros t nh ls Hf Hp; cbn [plug map]; [now rewrite app_nil_r|].
    inversion Hf as [|? ? Hn Hf']; subst.
    rewrite (IH (fill f t) nh (ls ++ [frame_layer f]) Hf'); [now rewrite <- app_assoc|].
    destruct f as [i hh d [|] sib]; cbn [fill erase t_path frame_layer fr_sib] in *.
    - rewrite Hp. now rewrite erase_hash.
    - assert (E : t_path k (erase sib) = None) by (apply path_none; exact Hn). rewrite E, Hp.
      now rewrite erase_hash.
  Qed.

  Lemma all_clean_sub c : forall t, t_all_clean (erase (plug c t)) = true -> t_all_clean (erase t) = true.
  Proof.
    induction c as [|f c IH]; intros t; cbn [plug]; [auto|]. intros Hc. apply IH in Hc.
    destruct f as [i hh d [|] sib]; cbn [fill erase t_all_clean] in Hc;
      apply andb_prop in Hc as [Hc1 Hc2]; apply andb_prop in Hc1 as [_ Hc1]; assumption.
  Qed.

  Lemma all_clean_frames c : forall t, t_all_clean (erase (plug c t)) = true -> Forall (fun f => fr_dirty f = false) c.
  Proof.
    induction c as [|f c IH]; intros t Hc; [constructor|]. cbn [plug] in Hc. constructor; [|exact (IH _ Hc)].
    apply all_clean_sub in Hc. destruct f as [i hh d [|] sib]; cbn [fill erase t_all_clean fr_dirty] in *;
      apply andb_prop in Hc as [Hc _]; apply andb_prop in Hc as [Hc _]; now destruct d.
  Qed.

  (* on a blob without dirty nodes, the proof of inclusion the blob returns is the tree's proof *)
  Theorem blob_proof_is_tree_proof s t k :
    Inv_tree H s t -> t_all_clean (erase t) = true -> In k (it_keys t) ->
    exists p, get_proof_of_inclusion s k = Ok p /\ t_proof k (erase t) = Some p.
  Proof.
    intros HI Hcl Hk. unfold it_keys in Hk. apply in_map_iff in Hk as [[[[i k0] v] h] [Ek Hin]]. cbn in Ek. subst k0.
    destruct (leaf_in_ctx _ _ Hin) as [c Et]. cbn in Et. subst t.
    destruct (inv_plug_facts H _ _ _ _ _ _ HI)
      as [Hg [Hctx [Hi_ctx [Hnd_ctx [Hidx [_ [_ [_ [_ [Hk_ctx [_ [_ [_ [_ [Hki _]]]]]]]]]]]]]]].
    exists (mkProof h (map frame_layer c)). split.
    - unfold get_proof_of_inclusion. rewrite Hki. unfold get_node, rbind at 1. rewrite Hg. cbn [rbind b_node].
      rewrite (lineage_ctx c s i _ _ Hctx Hg eq_refl).
      + cbn [rbind tl]. rewrite (layers_ctx c s i Hctx (all_clean_frames c _ Hcl) Hi_ctx Hnd_ctx). reflexivity.
      + pose proof (ctx_length_indices c). pose proof (pigeonhole (ctx_indices c) (length (blocks s)) Hnd_ctx) as Hp.
        assert (length (ctx_indices c) <= length (blocks s))%nat by (apply Hp; intros x Hx; apply Hidx; now right). lia.
    - unfold t_proof. rewrite (path_plug k c (ILeaf i k v h) h []).
      + reflexivity.
      + apply Forall_forall. intros g Hgin Hx. apply Hk_ctx. apply ctx_keys_in. eauto.
      + cbn [erase t_path]. now rewrite N.eqb_refl.
  Qed.
End Paths.
