(* Dl/Inv.v — the representation invariant of the blob (L2 -> L1), as a Prop.  Definitions only.

   rep s p t: the indexed tree t is stored in s below a node whose parent field is p: every node's
   block decodes to exactly the node (hash, dirty bit, parent = the node it hangs from, children =
   the indexes of its subtrees; leaves clean).
   Inv H s: s is the empty blob, or it stores a tree at root index 0 with pairwise distinct indexes,
   the free list is exactly the unreachable block indexes, the caches are exactly the leaves'
   key -> index and hash -> index maps, everything is in range, and the tree is L1-well-formed. *)
From ChiaV.Base Require Import Bytes.
From ChiaV.Gen Require Import Dl.
From ChiaV.Dl Require Import Format Map Tree Blob Abs.
Open Scope N_scope.

Inductive rep (s : mblob) : option N -> itree -> Prop :=
| rep_leaf p i k v h :
    get_block s i = Ok (mkBlock false (NLeaf (mkLeaf h p k v))) -> rep s p (ILeaf i k v h)
| rep_node p i hh d l r :
    get_block s i = Ok (mkBlock d (NInt (mkInode hh p (it_index l) (it_index r)))) ->
    rep s (Some i) l -> rep s (Some i) r -> rep s p (INode i hh d l r).

Definition it_keys (t : itree) : list N := map (fun x => snd (fst (fst x))) (it_leaves t).
Definition it_lhashes (t : itree) : list bytes := map snd (it_leaves t).

(* everything that is serialized is in range *)
Fixpoint it_ranges (t : itree) : Prop :=
  match t with
  | ILeaf i k v h => k < 2 ^ 64 /\ v < 2 ^ 64 /\ length h = HASH_BYTES
  | INode i hh d l r => length hh = HASH_BYTES /\ it_ranges l /\ it_ranges r
  end.

Section InvH.
  Variable H : bytes -> bytes.

  Record Inv_tree (s : mblob) (t : itree) : Prop := {
    inv_rep : rep s None t;
    inv_root : it_index t = 0;
    inv_nodup : NoDup (it_indices t);
    inv_bound : N.of_nat (length (blocks s)) <= 2 ^ 32;
    inv_blen : Forall (fun b => length b = N.to_nat BLOCK_SIZE) (blocks s);
    inv_free_nodup : NoDup (free s);
    inv_free : forall i, i < N.of_nat (length (blocks s)) -> (In i (free s) <-> ~ In i (it_indices t));
    inv_free_lt : forall i, In i (free s) -> i < N.of_nat (length (blocks s));
    inv_k2i : forall k i, amap_get N.eqb k (k2i s) = Some i <-> exists v h, In (i, k, v, h) (it_leaves t);
    inv_h2i : forall h i, amap_get bytes_eqb h (h2i s) = Some i <-> exists k v, In (i, k, v, h) (it_leaves t);
    inv_k2i_nodup : NoDup (map fst (k2i s));
    inv_h2i_nodup : NoDup (map fst (h2i s));
    inv_keys : NoDup (it_keys t);
    inv_hashes : NoDup (it_lhashes t);
    inv_ranges : it_ranges t;
    inv_twf : twf H (erase t)
  }.

  Definition Inv (s : mblob) : Prop := s = empty_blob \/ exists t, Inv_tree s t.

  (* the tree a blob satisfying Inv represents *)
  Definition Abs (s : mblob) (ot : option tree) : Prop :=
    (s = empty_blob /\ ot = None) \/ exists t, Inv_tree s t /\ ot = Some (erase t).
End InvH.
