(* Dl/BlobLemmas.v — infrastructure for the L2 -> L1 proofs: association lists, the free queue,
   reading a block after a write, frame property of rep, rep vs the executable abstraction. *)
From ChiaV.Base Require Import Bytes.
From ChiaV.Gen Require Import Dl.
From ChiaV.Dl Require Import Format Map Tree Blob Abs Inv FormatProofs.
From Coq Require Import ZifyBool ZifyNat ZifyN.
Ltac Zify.zify_post_hook ::= Z.div_mod_to_equations.
Open Scope N_scope.

(* ---------- association lists ---------- *)
Section AMapFacts.
  Context {K V : Type} (eqb : K -> K -> bool).
  Hypothesis eqb_spec : forall a b, reflect (a = b) (eqb a b).

  Lemma amap_get_set k (v : V) (m : list (K * V)) k' :
    amap_get eqb k' (amap_set eqb k v m) = if eqb k' k then Some v else amap_get eqb k' m.
  Proof.
    induction m as [|[k0 v0] r IH]; cbn [amap_set amap_get].
    - destruct (eqb k' k); reflexivity.
    - destruct (eqb_spec k k0) as [->|Hn]; cbn [amap_get].
      + destruct (eqb_spec k' k0); reflexivity.
      + destruct (eqb_spec k' k0) as [->|Hn2].
        * destruct (eqb_spec k0 k); [congruence|reflexivity].
        * exact IH.
  Qed.

  Lemma amap_get_del k (m : list (K * V)) k' :
    amap_get eqb k' (amap_del eqb k m) = if eqb k' k then None else amap_get eqb k' m.
  Proof.
    induction m as [|[k0 v0] r IH]; cbn [amap_del amap_get].
    - destruct (eqb k' k); reflexivity.
    - destruct (eqb_spec k k0) as [->|Hn]; cbn [amap_get].
      + rewrite IH. destruct (eqb_spec k' k0); reflexivity.
      + destruct (eqb_spec k' k0) as [->|Hn2].
        * destruct (eqb_spec k0 k); [congruence|reflexivity].
        * exact IH.
  Qed.

  Lemma amap_get_in k (m : list (K * V)) v : amap_get eqb k m = Some v -> In k (map fst m).
  Proof.
    induction m as [|[k0 v0] r IH]; cbn [amap_get map fst In]; [discriminate|].
    destruct (eqb_spec k k0); [auto|]. intros E. right. now apply IH.
  Qed.

  Lemma amap_get_notin k (m : list (K * V)) : ~ In k (map fst m) -> amap_get eqb k m = None.
  Proof.
    induction m as [|[k0 v0] r IH]; cbn [amap_get map fst In]; [reflexivity|]. intros Hn.
    destruct (eqb_spec k k0) as [->|]; [exfalso; apply Hn; now left|]. apply IH. tauto.
  Qed.

  Lemma amap_set_keys k (v : V) (m : list (K * V)) x : In x (map fst (amap_set eqb k v m)) <-> x = k \/ In x (map fst m).
  Proof.
    induction m as [|[k0 v0] r IH]; cbn [amap_set map fst In].
    - intuition.
    - destruct (eqb_spec k k0) as [->|Hn]; cbn [map fst In]; [intuition|]. rewrite IH. intuition.
  Qed.

  Lemma amap_set_nodup k (v : V) (m : list (K * V)) : NoDup (map fst m) -> NoDup (map fst (amap_set eqb k v m)).
  Proof.
    induction m as [|[k0 v0] r IH]; cbn [amap_set map fst]; intros Hnd.
    - constructor; [intros []|constructor].
    - inversion Hnd as [|? ? Hni Hr]; subst. destruct (eqb_spec k k0) as [->|Hn]; cbn [map fst].
      + now constructor.
      + constructor; [|now apply IH]. rewrite amap_set_keys. intros [E|Hin]; [congruence|contradiction].
  Qed.

  Lemma amap_del_keys k (m : list (K * V)) x : In x (map fst (amap_del eqb k m)) <-> x <> k /\ In x (map fst m).
  Proof.
    induction m as [|[k0 v0] r IH]; cbn [amap_del map fst In].
    - intuition.
    - destruct (eqb_spec k k0) as [->|Hn]; cbn [map fst In]; rewrite IH; intuition congruence.
  Qed.

  Lemma amap_del_nodup k (m : list (K * V)) : NoDup (map fst m) -> NoDup (map fst (amap_del eqb k m)).
  Proof.
    induction m as [|[k0 v0] r IH]; cbn [amap_del map fst]; intros Hnd; [constructor|].
    inversion Hnd as [|? ? Hni Hr]; subst. destruct (eqb_spec k k0) as [->|Hn]; cbn [map fst]; [now apply IH|].
    constructor; [|now apply IH]. rewrite amap_del_keys. tauto.
  Qed.

  Lemma amap_mem_get k (m : list (K * V)) : amap_mem eqb k m = match amap_get eqb k m with Some _ => true | None => false end.
  Proof. reflexivity. Qed.
End AMapFacts.

Lemma N_eqb_spec' : forall a b : N, reflect (a = b) (a =? b).
Proof. exact N.eqb_spec. Qed.

(* ---------- the free queue ---------- *)
Lemma nmem_in i l : nmem i l = true <-> In i l.
Proof.
  unfold nmem. rewrite existsb_exists. split.
  - intros [x [Hin E]]. apply N.eqb_eq in E. now subst.
  - intros Hin. exists i. split; [exact Hin|apply N.eqb_refl].
Qed.
Lemma nmem_false i l : nmem i l = false <-> ~ In i l.
Proof. rewrite <- nmem_in. destruct (nmem i l); split; congruence. Qed.

Lemma free_remove_in i l x : In x (free_remove i l) <-> In x l /\ x <> i.
Proof.
  unfold free_remove. rewrite filter_In. split; intros [A B]; split; auto.
  - intros ->. rewrite N.eqb_refl in B. discriminate.
  - destruct (N.eqb_spec x i); [contradiction|reflexivity].
Qed.
Lemma free_remove_notin i l : ~ In i l -> free_remove i l = l.
Proof.
  unfold free_remove. induction l as [|x r IH]; cbn [filter In]; [reflexivity|]. intros Hn.
  destruct (N.eqb_spec x i) as [->|]; cbn [negb]; [exfalso; apply Hn; now left|]. f_equal. apply IH. tauto.
Qed.
Lemma free_remove_nodup i l : NoDup l -> NoDup (free_remove i l).
Proof. apply NoDup_filter. Qed.
Lemma free_insert_in i l x : In x (free_insert i l) <-> In x l \/ x = i.
Proof.
  unfold free_insert. destruct (nmem i l) eqn:E.
  - apply nmem_in in E. split; [auto|]. intros [A| ->]; auto.
  - rewrite in_app_iff. cbn [In]. intuition.
Qed.
Lemma free_insert_nodup i l : NoDup l -> NoDup (free_insert i l).
Proof.
  unfold free_insert. destruct (nmem i l) eqn:E; [auto|]. apply nmem_false in E. intros Hnd.
  rewrite <- (rev_involutive (l ++ [i])). apply NoDup_rev. rewrite rev_app_distr. cbn [rev app].
  constructor; [rewrite <- in_rev; exact E|now apply NoDup_rev].
Qed.

Lemma NoDup_app_inv {A} (l1 l2 : list A) :
  NoDup (l1 ++ l2) -> NoDup l1 /\ NoDup l2 /\ (forall x, In x l1 -> In x l2 -> False).
Proof.
  induction l1 as [|y l1 IH]; cbn [app]; intros Hn.
  - split; [constructor|]. split; [exact Hn|]. intros x [].
  - inversion Hn as [|? ? Hy Hn']; subst. destruct (IH Hn') as [HA [HB HC]]. split; [|split; [exact HB|]].
    + constructor; [|exact HA]. intros Hin. apply Hy. apply in_app_iff. now left.
    + intros x [->|Hx] Hx2; [apply Hy; apply in_app_iff; now right|eauto].
Qed.

(* ---------- list_set ---------- *)
Lemma list_set_length {A} n (x : A) l : length (list_set n x l) = length l.
Proof. revert n; induction l as [|y r IH]; intros [|n]; cbn [list_set length]; auto. Qed.

Lemma nth_error_list_set {A} n (x : A) l m :
  nth_error (list_set n x l) m = if (m =? n)%nat then (if (n <? length l)%nat then Some x else None) else nth_error l m.
Proof.
  revert n m; induction l as [|y r IH]; intros n m.
  - replace (n <? @length A [])%nat with false by (symmetry; apply Nat.ltb_ge; cbn; lia).
    assert (E : list_set n x (@nil A) = []) by (destruct n; reflexivity). rewrite E.
    destruct (m =? n)%nat; destruct m; reflexivity.
  - destruct n as [|n], m as [|m]; cbn [list_set nth_error Nat.eqb length]; try reflexivity.
    rewrite IH. change (S n <? S (length r))%nat with (n <? length r)%nat. reflexivity.
Qed.

Lemma Forall_list_set {A} (P : A -> Prop) n x l : Forall P l -> P x -> Forall P (list_set n x l).
Proof.
  intros Hl Hx. revert n. induction Hl as [|y r Hy Hr IH]; intros [|n]; cbn [list_set]; constructor; auto.
Qed.

(* ---------- reading after writing ---------- *)
Definition blen_ok (s : mblob) : Prop := Forall (fun b => length b = N.to_nat BLOCK_SIZE) (blocks s).
Definition nblocks (s : mblob) : N := N.of_nat (length (blocks s)).

Lemma get_block_lt s i b : get_block s i = Ok b -> i < nblocks s.
Proof.
  unfold get_block, blocks_get, nblocks. destruct (nth_error (blocks s) (N.to_nat i)) eqn:E; [|discriminate].
  intros _. assert (N.to_nat i < length (blocks s))%nat by (apply nth_error_Some; congruence). lia.
Qed.

Lemma insert_entry_spec i b s :
  wf_block b -> i <= nblocks s -> blen_ok s ->
  exists s', insert_entry_to_blob i b s = (Ok tt, s') /\
    (forall j, get_block s' j = if j =? i then Ok b else get_block s j) /\
    nblocks s' = (if i =? nblocks s then nblocks s + 1 else nblocks s) /\
    blen_ok s' /\
    free s' = free_remove i (free s) /\
    k2i s' = (match b_node b with NLeaf l => amap_set N.eqb (l_key l) i (k2i s) | NInt _ => k2i s end) /\
    h2i s' = (match b_node b with NLeaf l => amap_set bytes_eqb (l_hash l) i (h2i s) | NInt _ => h2i s end).
Proof.
  intros Hw Hi Hb. destruct (encode_block_ok b Hw) as [bs [Eenc [Hlen Hdec]]].
  unfold insert_entry_to_blob. rewrite Eenc. unfold extend_index. fold (nblocks s).
  destruct (N.ltb_spec (nblocks s) i) as [Hlt|_]; [lia|].
  eexists. split; [reflexivity|].
  assert (Hget : forall j,
            get_block (set_blocks s (if i =? nblocks s then blocks s ++ [bs] else list_set (N.to_nat i) bs (blocks s))) j
            = if j =? i then Ok b else get_block s j).
  { intros j. unfold get_block, blocks_get. cbn [blocks set_blocks]. unfold nblocks in *.
    destruct (N.eqb_spec i (N.of_nat (length (blocks s)))) as [->|Hne].
    - destruct (N.eqb_spec j (N.of_nat (length (blocks s)))) as [->|Hnj].
      + rewrite Nat2N.id, nth_error_app2 by lia. rewrite Nat.sub_diag. cbn [nth_error]. exact Hdec.
      + destruct (Nat.lt_ge_cases (N.to_nat j) (length (blocks s))) as [Hlt|Hge].
        * now rewrite nth_error_app1 by exact Hlt.
        * assert (E1 : nth_error (blocks s ++ [bs]) (N.to_nat j) = None).
          { apply nth_error_None. rewrite app_length. cbn [length]. lia. }
          assert (E2 : nth_error (blocks s) (N.to_nat j) = None) by (apply nth_error_None; lia).
          now rewrite E1, E2.
    - rewrite nth_error_list_set. destruct (N.eqb_spec j i) as [->|Hnj].
      + rewrite Nat.eqb_refl. destruct (Nat.ltb_spec (N.to_nat i) (length (blocks s))); [exact Hdec|lia].
      + destruct (Nat.eqb_spec (N.to_nat j) (N.to_nat i)); [lia|reflexivity]. }
  assert (Hnb : nblocks (set_blocks s (if i =? nblocks s then blocks s ++ [bs] else list_set (N.to_nat i) bs (blocks s)))
                = if i =? nblocks s then nblocks s + 1 else nblocks s).
  { unfold nblocks. cbn [blocks set_blocks]. destruct (i =? N.of_nat (length (blocks s))).
    - rewrite app_length. cbn [length]. lia.
    - now rewrite list_set_length. }
  assert (Hbl : blen_ok (set_blocks s (if i =? nblocks s then blocks s ++ [bs] else list_set (N.to_nat i) bs (blocks s)))).
  { unfold blen_ok. cbn [blocks set_blocks]. destruct (i =? nblocks s).
    - apply Forall_app. split; [exact Hb|]. constructor; [exact Hlen|constructor].
    - apply Forall_list_set; [exact Hb|exact Hlen]. }
  destruct (b_node b) as [n|l]; cbn [add_leaf add_internal set_free set_blocks blocks free k2i h2i get_block] in *;
    repeat split; auto.
Qed.

(* ---------- rep: frame property, bounds ---------- *)
Lemma rep_frame s s' p t :
  (forall j, In j (it_indices t) -> get_block s' j = get_block s j) -> rep s p t -> rep s' p t.
Proof.
  intros Hf Hr. induction Hr as [p i k v h Hg|p i hh d l r Hg Hl IHl Hr IHr].
  - constructor. rewrite Hf; [exact Hg|]. cbn. now left.
  - constructor.
    + rewrite Hf; [exact Hg|]. cbn. now left.
    + apply IHl. intros j Hj. apply Hf. cbn [it_indices In]. right. apply in_app_iff. now left.
    + apply IHr. intros j Hj. apply Hf. cbn [it_indices In]. right. apply in_app_iff. now right.
Qed.

Lemma rep_indices_lt s p t : rep s p t -> forall j, In j (it_indices t) -> j < nblocks s.
Proof.
  intros Hr. induction Hr as [p i k v h Hg|p i hh d l r Hg Hl IHl Hr IHr]; intros j; cbn [it_indices In].
  - intros [<-|[]]. eapply get_block_lt; eauto.
  - rewrite in_app_iff. intros [<-|[Hj|Hj]]; [eapply get_block_lt; eauto|auto|auto].
Qed.

Lemma it_index_in t : In (it_index t) (it_indices t).
Proof. destruct t; cbn; now left. Qed.

Fixpoint it_height (t : itree) : nat :=
  match t with ILeaf _ _ _ _ => O | INode _ _ _ l r => S (Nat.max (it_height l) (it_height r)) end.

(* rep agrees with the executable abstraction *)
Lemma opt_N_eqb_refl p : opt_N_eqb p p = true.
Proof. destruct p; cbn; [apply N.eqb_refl|reflexivity]. Qed.

Lemma rep_abs_at s p t : rep s p t -> forall fuel, (it_height t < fuel)%nat ->
  abs_at fuel (blocks s) (it_index t) p = Some t.
Proof.
  intros Hr. induction Hr as [p i k v h Hg|p i hh d l r Hg Hl IHl Hr IHr]; intros fuel Hf;
    (destruct fuel as [|f]; [lia|]); cbn [abs_at it_index]; unfold get_block in Hg; rewrite Hg;
    cbn [b_node b_dirty node_parent l_parent i_parent]; rewrite opt_N_eqb_refl.
  - reflexivity.
  - cbn [it_height] in Hf. cbn [i_left i_right i_hash]. rewrite IHl by lia. rewrite IHr by lia. reflexivity.
Qed.

Lemma it_height_indices t : (it_height t < length (it_indices t))%nat.
Proof. induction t; cbn [it_height it_indices length]; [lia|]. rewrite app_length. lia. Qed.

(* ---------- zipper over indexed trees ---------- *)
Inductive frame := Fr (i : N) (hh : bytes) (d : bool) (left_hole : bool) (sib : itree).
Definition fr_idx (f : frame) : N := let '(Fr i _ _ _ _) := f in i.
Definition fr_sib (f : frame) : itree := let '(Fr _ _ _ _ sib) := f in sib.
Definition fr_dirty (f : frame) : bool := let '(Fr _ _ d _ _) := f in d.
Definition fr_hash (f : frame) : bytes := let '(Fr _ hh _ _ _) := f in hh.
Definition fr_left (f : frame) : bool := let '(Fr _ _ _ lh _) := f in lh.
Definition set_dirty (f : frame) : frame := let '(Fr i hh _ lh sib) := f in Fr i hh true lh sib.
Definition fill (f : frame) (t : itree) : itree :=
  let '(Fr i hh d lh sib) := f in if lh then INode i hh d t sib else INode i hh d sib t.
(* innermost frame first *)
Fixpoint plug (c : list frame) (t : itree) : itree :=
  match c with [] => t | f :: c' => plug c' (fill f t) end.
Definition ctx_par (c : list frame) : option N := match c with [] => None | f :: _ => Some (fr_idx f) end.
Definition ctx_indices (c : list frame) : list N := flat_map (fun f => fr_idx f :: it_indices (fr_sib f)) c.
Definition ctx_leaves (c : list frame) : list (N * N * N * bytes) := flat_map (fun f => it_leaves (fr_sib f)) c.

Definition frame_rep (s : mblob) (p : option N) (f : frame) (hole : N) : Prop :=
  let '(Fr i hh d lh sib) := f in
  get_block s i = Ok (mkBlock d (NInt (mkInode hh p (if lh then hole else it_index sib) (if lh then it_index sib else hole))))
  /\ rep s (Some i) sib.
Fixpoint ctx_rep (s : mblob) (c : list frame) (hole : N) : Prop :=
  match c with
  | [] => True
  | f :: c' => frame_rep s (ctx_par c') f hole /\ ctx_rep s c' (fr_idx f)
  end.

Lemma it_index_fill f t : it_index (fill f t) = fr_idx f.
Proof. destruct f as [i hh d [|] sib]; reflexivity. Qed.

Lemma plug_app c1 c2 t : plug (c1 ++ c2) t = plug c2 (plug c1 t).
Proof. revert t; induction c1 as [|f c1 IH]; intros t; cbn [app plug]; [reflexivity|apply IH]. Qed.

Lemma rep_fill s p f t : rep s p (fill f t) <-> frame_rep s p f (it_index t) /\ rep s (Some (fr_idx f)) t.
Proof.
  destruct f as [i hh d [|] sib]; cbn [fill frame_rep fr_idx]; split.
  - intros Hr. inversion Hr; subst. tauto.
  - intros [[Hg Hs] Ht]. now constructor.
  - intros Hr. inversion Hr; subst. tauto.
  - intros [[Hg Hs] Ht]. now constructor.
Qed.

Lemma rep_plug s c : forall t, rep s None (plug c t) <-> rep s (ctx_par c) t /\ ctx_rep s c (it_index t).
Proof.
  induction c as [|f c IH]; intros t; cbn [plug ctx_par ctx_rep]; [tauto|].
  rewrite IH, rep_fill, it_index_fill. tauto.
Qed.

Lemma it_index_plug c t t' : c <> [] -> it_index (plug c t) = it_index (plug c t').
Proof.
  revert t t'. induction c as [|f c IH]; intros t t' Hne; [congruence|]. cbn [plug].
  destruct c as [|g c]; [cbn [plug]; now rewrite !it_index_fill|]. apply IH. discriminate.
Qed.

From Coq Require Import Permutation.

Lemma it_indices_fill f t : Permutation (it_indices (fill f t)) (it_indices t ++ fr_idx f :: it_indices (fr_sib f)).
Proof.
  destruct f as [i hh d [|] sib]; cbn [fill it_indices fr_idx fr_sib].
  - apply Permutation_middle.
  - eapply Permutation_trans; [constructor; apply Permutation_app_comm|apply Permutation_middle].
Qed.

Lemma it_indices_plug c : forall t, Permutation (it_indices (plug c t)) (it_indices t ++ ctx_indices c).
Proof.
  induction c as [|f c IH]; intros t; cbn [plug ctx_indices flat_map].
  - now rewrite app_nil_r.
  - eapply Permutation_trans; [apply IH|]. fold (ctx_indices c).
    eapply Permutation_trans; [apply Permutation_app_tail; apply it_indices_fill|].
    now rewrite <- app_assoc.
Qed.

Lemma it_leaves_fill f t : Permutation (it_leaves (fill f t)) (it_leaves t ++ it_leaves (fr_sib f)).
Proof.
  destruct f as [i hh d [|] sib]; cbn [fill it_leaves fr_sib]; [reflexivity|apply Permutation_app_comm].
Qed.

Lemma it_leaves_plug c : forall t, Permutation (it_leaves (plug c t)) (it_leaves t ++ ctx_leaves c).
Proof.
  induction c as [|f c IH]; intros t; cbn [plug ctx_leaves flat_map].
  - now rewrite app_nil_r.
  - eapply Permutation_trans; [apply IH|]. fold (ctx_leaves c).
    eapply Permutation_trans; [apply Permutation_app_tail; apply it_leaves_fill|].
    now rewrite <- app_assoc.
Qed.

(* every leaf sits in a context *)
Lemma leaf_in_ctx t x : In x (it_leaves t) ->
  exists c, t = plug c (let '(i, k, v, h) := x in ILeaf i k v h).
Proof.
  induction t as [i k v h|i hh d l IHl r IHr]; cbn [it_leaves].
  - intros [<-|[]]. exists []. reflexivity.
  - rewrite in_app_iff. intros [Hin|Hin].
    + destruct (IHl Hin) as [c ->]. exists (c ++ [Fr i hh d true r]). rewrite plug_app. reflexivity.
    + destruct (IHr Hin) as [c ->]. exists (c ++ [Fr i hh d false l]). rewrite plug_app. reflexivity.
Qed.

(* ---------- erase and the L1 operations through a context ---------- *)
Definition tkeys_i (t : itree) : list N := tkeys (erase t).

Lemma erase_kv t : t_kv (erase t) = map (fun '(i, k, v, h) => (k, (v, h))) (it_leaves t).
Proof.
  induction t as [i k v h|i hh d l IHl r IHr]; cbn [erase t_kv it_leaves map]; [reflexivity|].
  now rewrite map_app, IHl, IHr.
Qed.

Lemma tkeys_i_keys t : tkeys_i t = it_keys t.
Proof.
  unfold tkeys_i, tkeys, mkeys, it_keys. rewrite erase_kv, map_map. apply map_ext.
  intros [[[i k] v] h]. reflexivity.
Qed.

Section ThroughCtx.
  Variable H : bytes -> bytes.

  Lemma graft_plug ref mk c : forall t t1,
    Forall (fun f => ~ In ref (tkeys_i (fr_sib f))) c ->
    t_graft ref mk (erase t) = Some (erase t1) ->
    t_graft ref mk (erase (plug c t)) = Some (erase (plug (map set_dirty c) t1)).
  Proof.
    induction c as [|f c IH]; intros t t1 Hf Hg; cbn [plug map]; [exact Hg|].
    inversion Hf as [|? ? Hn Hf']; subst. apply IH; [exact Hf'|].
    destruct f as [i hh d [|] sib]; cbn [fill set_dirty erase t_graft fr_sib] in *.
    - now rewrite Hg.
    - assert (E : t_graft ref mk (erase sib) = None).
      { clear -Hn. unfold tkeys_i in Hn. revert Hn. generalize (erase sib). intros t0 Hn0.
        induction t0 as [k v h|hh0 d0 l IHl r IHr]; cbn [t_graft].
        - unfold tkeys, mkeys in Hn0. cbn in Hn0. destruct (N.eqb_spec k ref); [exfalso; apply Hn0; now left|reflexivity].
        - unfold tkeys, mkeys in *. cbn [t_kv] in Hn0. rewrite map_app, in_app_iff in Hn0.
          rewrite IHl by tauto. rewrite IHr by tauto. reflexivity. }
      now rewrite E, Hg.
  Qed.
End ThroughCtx.
