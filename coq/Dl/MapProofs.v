(* Dl/MapProofs.v — facts about the plain map (L0) used by the refinement proofs. *)
From Coq Require Import Permutation.
From ChiaV.Base Require Import Bytes.
From ChiaV.Dl Require Import Format Map.
Open Scope N_scope.

Lemma m_mem_in k m : m_mem k m = true <-> In k (mkeys m).
Proof.
  unfold m_mem. induction m as [|[k' vh] r IH]; cbn [m_get mkeys map fst In].
  - split; [discriminate|tauto].
  - destruct (N.eqb_spec k k') as [->|Hn].
    + split; auto.
    + rewrite IH. split; [auto|]. intros [E|E]; [congruence|exact E].
Qed.

Lemma m_mem_false k m : m_mem k m = false <-> ~ In k (mkeys m).
Proof. rewrite <- m_mem_in. destruct (m_mem k m); split; congruence. Qed.

Lemma m_has_hash_in h m : m_has_hash h m = true <-> In h (mhashes m).
Proof.
  unfold m_has_hash, mhashes. rewrite existsb_exists, in_map_iff. split.
  - intros [e [Hin He]]. apply bytes_eqb_eq in He. exists e. split; [now symmetry|exact Hin].
  - intros [e [He Hin]]. exists e. split; [exact Hin|]. apply bytes_eqb_eq. now symmetry.
Qed.

Lemma m_has_hash_false h m : m_has_hash h m = false <-> ~ In h (mhashes m).
Proof. rewrite <- m_has_hash_in. destruct (m_has_hash h m); split; congruence. Qed.

Lemma m_hash_of_other_spec k h m :
  m_hash_of_other k h m = true <-> exists k' v, In (k', (v, h)) m /\ k' <> k.
Proof.
  unfold m_hash_of_other. rewrite existsb_exists. split.
  - intros [[k' [v h']] [Hin He]]. cbn in He. apply andb_prop in He as [Hk Hh].
    apply bytes_eqb_eq in Hh. subst h'. exists k', v. split; [exact Hin|].
    intros ->. rewrite N.eqb_refl in Hk. discriminate.
  - intros [k' [v [Hin Hne]]]. exists (k', (v, h)). split; [exact Hin|]. cbn.
    apply andb_true_intro. split; [|apply bytes_eqb_refl].
    destruct (N.eqb_spec k' k); [contradiction|reflexivity].
Qed.

(* membership-style predicates only depend on the set of entries *)
Lemma m_mem_perm k a b : Permutation a b -> m_mem k a = m_mem k b.
Proof.
  intros P. destruct (m_mem k b) eqn:E.
  - apply m_mem_in. apply m_mem_in in E. unfold mkeys in *.
    eapply Permutation_in; [apply Permutation_map; apply Permutation_sym; exact P|exact E].
  - apply m_mem_false. apply m_mem_false in E. intros Hin. apply E. unfold mkeys in *.
    eapply Permutation_in; [apply Permutation_map; exact P|exact Hin].
Qed.

Lemma m_has_hash_perm h a b : Permutation a b -> m_has_hash h a = m_has_hash h b.
Proof.
  intros P. destruct (m_has_hash h b) eqn:E.
  - apply m_has_hash_in. apply m_has_hash_in in E. unfold mhashes in *.
    eapply Permutation_in; [apply Permutation_map; apply Permutation_sym; exact P|exact E].
  - apply m_has_hash_false. apply m_has_hash_false in E. intros Hin. apply E. unfold mhashes in *.
    eapply Permutation_in; [apply Permutation_map; exact P|exact Hin].
Qed.

Lemma m_hash_of_other_perm k h a b : Permutation a b -> m_hash_of_other k h a = m_hash_of_other k h b.
Proof.
  intros P. destruct (m_hash_of_other k h b) eqn:E.
  - apply m_hash_of_other_spec. apply m_hash_of_other_spec in E as [k' [v [Hin Hne]]].
    exists k', v. split; [|exact Hne]. eapply Permutation_in; [apply Permutation_sym; exact P|exact Hin].
  - destruct (m_hash_of_other k h a) eqn:E2; [|reflexivity].
    apply m_hash_of_other_spec in E2 as [k' [v [Hin Hne]]].
    assert (m_hash_of_other k h b = true).
    { apply m_hash_of_other_spec. exists k', v. split; [|exact Hne]. eapply Permutation_in; [exact P|exact Hin]. }
    congruence.
Qed.

Lemma m_remove_filter k m : m_remove k m = filter (fun e => negb (k =? fst e)) m.
Proof.
  induction m as [|[k' vh] r IH]; [reflexivity|]. cbn [m_remove filter fst].
  destruct (k =? k'); cbn [negb]; now rewrite IH.
Qed.

Lemma m_remove_notin k m : ~ In k (mkeys m) -> m_remove k m = m.
Proof.
  induction m as [|[k' vh] r IH]; [reflexivity|]. cbn [m_remove mkeys map fst In]. intros Hn.
  destruct (N.eqb_spec k k') as [->|Hne]; [exfalso; apply Hn; now left|].
  f_equal. apply IH. intros Hin. apply Hn. now right.
Qed.

Lemma m_remove_app k a b : m_remove k (a ++ b) = m_remove k a ++ m_remove k b.
Proof. rewrite !m_remove_filter. apply filter_app. Qed.

Lemma m_remove_perm k a b : Permutation a b -> Permutation (m_remove k a) (m_remove k b).
Proof.
  intros P. rewrite !m_remove_filter. induction P; cbn [filter].
  - constructor.
  - destruct (negb (k =? fst x)); [now constructor|exact IHP].
  - destruct (negb (k =? fst x)), (negb (k =? fst y));
      first [apply perm_swap | reflexivity | (constructor; reflexivity)].
  - eapply Permutation_trans; eassumption.
Qed.

Lemma m_remove_keys k m : forall x, In x (mkeys (m_remove k m)) <-> In x (mkeys m) /\ x <> k.
Proof.
  intros x. rewrite m_remove_filter. unfold mkeys. rewrite !in_map_iff. split.
  - intros [e [He Hin]]. apply filter_In in Hin as [Hin Hf]. split; [exists e; auto|].
    subst x. intros E. rewrite E, N.eqb_refl in Hf. discriminate.
  - intros [[e [He Hin]] Hne]. exists e. split; [exact He|]. apply filter_In. split; [exact Hin|].
    subst x. destruct (N.eqb_spec k (fst e)); [congruence|reflexivity].
Qed.

Lemma NoDup_map_filter {A B} (f : A -> B) (p : A -> bool) l : NoDup (map f l) -> NoDup (map f (filter p l)).
Proof.
  induction l as [|x r IH]; cbn [map filter]; [auto|]. intros Hnd. inversion Hnd as [|? ? Hni Hr]; subst.
  destruct (p x); cbn [map]; [|auto]. constructor; [|auto].
  intros Hin. apply Hni. apply in_map_iff in Hin as [e [He Hin]]. apply filter_In in Hin as [Hin _].
  apply in_map_iff. exists e. auto.
Qed.

Lemma m_remove_nodup_keys k m : NoDup (mkeys m) -> NoDup (mkeys (m_remove k m)).
Proof. rewrite m_remove_filter. apply NoDup_map_filter. Qed.
Lemma m_remove_nodup_hashes k m : NoDup (mhashes m) -> NoDup (mhashes (m_remove k m)).
Proof. rewrite m_remove_filter. apply NoDup_map_filter. Qed.

Lemma m_remove_in_hashes k m h : In h (mhashes (m_remove k m)) -> exists k' v, In (k', (v, h)) m /\ k' <> k.
Proof.
  rewrite m_remove_filter. unfold mhashes. rewrite in_map_iff. intros [[k' [v h']] [He Hin]].
  cbn in He. subst h'. apply filter_In in Hin as [Hin Hf]. cbn in Hf. exists k', v. split; [exact Hin|].
  intros ->. rewrite N.eqb_refl in Hf. discriminate.
Qed.

Lemma m_insert_ok k v h m m' : m_ok m -> m_insert k v h m = Some m' ->
  m' = (k, (v, h)) :: m /\ ~ In k (mkeys m) /\ ~ In h (mhashes m) /\ m_ok m'.
Proof.
  intros [Hk Hh]. unfold m_insert. destruct (m_mem k m) eqn:Ek; [discriminate|].
  destruct (m_has_hash h m) eqn:Eh; [discriminate|]. cbn [orb]. intros [= <-].
  apply m_mem_false in Ek. apply m_has_hash_false in Eh.
  repeat split; auto; cbn; constructor; auto.
Qed.

Lemma m_delete_ok k m m' : m_ok m -> m_delete k m = Some m' -> m' = m_remove k m /\ In k (mkeys m) /\ m_ok m'.
Proof.
  intros [Hk Hh]. unfold m_delete. destruct (m_mem k m) eqn:Ek; [|discriminate]. intros [= <-].
  apply m_mem_in in Ek. repeat split; auto using m_remove_nodup_keys, m_remove_nodup_hashes.
Qed.

Lemma m_upsert_present_ok k v h m m' : m_ok m -> m_mem k m = true -> m_upsert k v h m = Some m' ->
  m' = (k, (v, h)) :: m_remove k m /\ m_hash_of_other k h m = false /\ m_ok m'.
Proof.
  intros [Hk Hh] Hm. unfold m_upsert. rewrite Hm. destruct (m_hash_of_other k h m) eqn:Eo; [discriminate|].
  intros [= <-]. repeat split; auto.
  - cbn. constructor; [|now apply m_remove_nodup_keys]. intros Hin. apply m_remove_keys in Hin. tauto.
  - cbn. constructor; [|now apply m_remove_nodup_hashes]. intros Hin.
    apply m_remove_in_hashes in Hin as [k' [v' [Hin Hne]]].
    assert (m_hash_of_other k h m = true) by (apply m_hash_of_other_spec; eauto). congruence.
Qed.

Lemma m_batch_ok items : forall m m', m_ok m -> m_batch items m = Some m' ->
  Permutation m' (map entry_of items ++ m) /\ m_ok m'.
Proof.
  induction items as [|[[k v] h] r IH]; intros m m' Hok; cbn [m_batch map app].
  - intros [= <-]. split; [reflexivity|exact Hok].
  - destruct (m_insert k v h m) as [m1|] eqn:E; [|discriminate]. intros Hb.
    destruct (m_insert_ok _ _ _ _ _ Hok E) as [-> [_ [_ Hok1]]].
    destruct (IH _ _ Hok1 Hb) as [P Hok']. split; [|exact Hok'].
    eapply Permutation_trans; [exact P|]. cbn [entry_of]. symmetry. apply Permutation_middle.
Qed.

(* a successful batch: every item is fresh w.r.t. the map and the items before it *)
Lemma m_batch_fresh items : forall m m', m_ok m -> m_batch items m = Some m' ->
  NoDup (map fst (map entry_of items)) /\ NoDup (mhashes (map entry_of items)) /\
  (forall k, In k (mkeys (map entry_of items)) -> ~ In k (mkeys m)) /\
  (forall h, In h (mhashes (map entry_of items)) -> ~ In h (mhashes m)).
Proof.
  induction items as [|[[k v] h] r IH]; intros m m' Hok; cbn [m_batch map].
  - intros _. repeat split; try constructor; intros ? [].
  - destruct (m_insert k v h m) as [m1|] eqn:E; [|discriminate]. intros Hb.
    destruct (m_insert_ok _ _ _ _ _ Hok E) as [-> [Hnk [Hnh Hok1]]].
    destruct (IH _ _ Hok1 Hb) as [Nk [Nh [Fk Fh]]]. cbn [entry_of fst mhashes mkeys snd map] in *.
    repeat split.
    + constructor; [|exact Nk]. intros Hin. apply (Fk k Hin). now left.
    + constructor; [|exact Nh]. intros Hin. apply (Fh h Hin). now left.
    + intros k0 [<-|Hin]; [exact Hnk|]. intros Hin2. apply (Fk k0 Hin). now right.
    + intros h0 [<-|Hin]; [exact Hnh|]. intros Hin2. apply (Fh h0 Hin). now right.
Qed.
