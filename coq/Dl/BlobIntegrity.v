(* Dl/BlobIntegrity.v — L2: check_integrity succeeds on every blob satisfying Inv.  The
   ParentFirstIterator inside check_just_integrity is a breadth-first walk; its queue is modelled as a
   list of (expected parent, stored subtree); child_to_parent holds exactly the queued non-root entries. *)
From Coq Require Import Permutation.
From ChiaV.Base Require Import Bytes Sha256.
From ChiaV.Gen Require Import Dl.
From ChiaV.Dl Require Import Format Map Tree Blob Abs Inv History Spec FormatProofs MapProofs TreeProofs BlobLemmas BlobOps BlobOps2 BlobOps3 BlobHash.
From Coq Require Import ZifyBool ZifyNat ZifyN.
Ltac Zify.zify_post_hook ::= Z.div_mod_to_equations.
Open Scope N_scope.

Definition qent := (option N * itree)%type.
Definition qidx (Q : list qent) : list N := flat_map (fun x => it_indices (snd x)) Q.
Definition qroots (Q : list qent) : list N := map (fun x => it_index (snd x)) Q.
Definition qsome (Q : list qent) : list (N * N) :=
  flat_map (fun x => match fst x with Some q => [(it_index (snd x), q)] | None => [] end) Q.
Definition qleaves (Q : list qent) : list (N * N * N * bytes) := flat_map (fun x => it_leaves (snd x)) Q.
Fixpoint it_ninternal (t : itree) : nat :=
  match t with ILeaf _ _ _ _ => O | INode _ _ _ l r => S (it_ninternal l + it_ninternal r) end.
Definition qni (Q : list qent) : nat := fold_right (fun x n => (it_ninternal (snd x) + n)%nat) O Q.

Lemma qidx_app a b : qidx (a ++ b) = qidx a ++ qidx b.
Proof. unfold qidx. apply flat_map_app. Qed.
Lemma qsome_app a b : qsome (a ++ b) = qsome a ++ qsome b.
Proof. unfold qsome. apply flat_map_app. Qed.
Lemma qleaves_app a b : qleaves (a ++ b) = qleaves a ++ qleaves b.
Proof. unfold qleaves. apply flat_map_app. Qed.
Lemma qroots_app a b : qroots (a ++ b) = qroots a ++ qroots b.
Proof. unfold qroots. apply map_app. Qed.
Lemma qni_app a b : qni (a ++ b) = (qni a + qni b)%nat.
Proof. unfold qni. induction a as [|x a IH]; cbn [app fold_right]; [reflexivity|]. rewrite IH. lia. Qed.

Lemma qsome_roots Q x q : In (x, q) (qsome Q) -> In x (qroots Q).
Proof.
  unfold qsome, qroots. intros Hin. apply in_flat_map in Hin as [[p t] [Hq Hx]]. cbn [fst snd] in Hx.
  destruct p as [q0|]; [|destruct Hx]. destruct Hx as [[= <- <-]|[]]. apply in_map_iff. exists (Some q0, t). auto.
Qed.
Lemma qroots_idx Q x : In x (qroots Q) -> In x (qidx Q).
Proof.
  unfold qroots, qidx. intros Hin. apply in_map_iff in Hin as [[p t] [<- Hq]]. apply in_flat_map. exists (p, t).
  split; [exact Hq|apply it_index_in].
Qed.

Lemma leaves_indices_count t : length (it_indices t) = (length (it_leaves t) + it_ninternal t)%nat.
Proof.
  induction t as [|i hh d l IHl r IHr]; cbn [it_indices it_leaves it_ninternal length]; [lia|].
  rewrite !app_length, IHl, IHr. lia.
Qed.

Section Pfi.
  Variable s : mblob.

  Lemma pfi_ok : forall fuel Q queued c2p lc ic,
    Forall (fun x => rep s (fst x) (snd x)) Q ->
    NoDup (qidx Q) ->
    (forall j, In j (qidx Q) -> ~ In j queued) ->
    (forall x q, amap_get N.eqb x c2p = Some q <-> In (x, q) (qsome Q)) ->
    (forall i k v h, In (i, k, v, h) (qleaves Q) -> amap_get N.eqb k (k2i s) = Some i /\ ~ In i (free s)) ->
    (length (qidx Q) < fuel)%nat ->
    pfi fuel s (qroots Q) queued c2p lc ic
    = Ok (lc + N.of_nat (length (qleaves Q)), ic + N.of_nat (qni Q), []).
  Proof.
    induction fuel as [|f IH]; intros Q queued c2p lc ic Hrep Hnd Hdis Hc2p Hlv Hfuel; [lia|].
    destruct Q as [|[p t] Q'].
    - cbn [qroots map pfi qleaves flat_map length qni fold_right]. f_equal. f_equal; [f_equal; lia|].
      destruct c2p as [|[x q] c]; [reflexivity|]. exfalso.
      assert (E : amap_get N.eqb x ((x, q) :: c) = Some q) by (cbn [amap_get]; now rewrite N.eqb_refl).
      apply Hc2p in E. destruct E.
    - inversion Hrep as [|? ? Hr Hrep']; subst. cbn [fst snd] in Hr.
      cbn [qroots map snd pfi]. fold (qroots Q').
      unfold qidx in Hnd, Hdis, Hfuel. cbn [flat_map snd] in Hnd, Hdis, Hfuel. fold (qidx Q') in Hnd, Hdis, Hfuel.
      destruct (NoDup_app_inv _ _ Hnd) as [Hnd_t [Hnd_Q' Hdis_t]].
      (* the parent check and the new child_to_parent *)
      set (c2p1 := match p with Some _ => amap_del N.eqb (it_index t) c2p | None => c2p end).
      assert (Hbad : (match p with
                      | Some p0 => negb (match amap_get N.eqb (it_index t) c2p with Some q => q =? p0 | None => false end)
                      | None => false
                      end) = false).
      { destruct p as [q|]; [|reflexivity].
        assert (E : amap_get N.eqb (it_index t) c2p = Some q) by (apply Hc2p; unfold qsome; cbn [flat_map fst snd]; now left).
        rewrite E, N.eqb_refl. reflexivity. }
      assert (Hc2p1 : forall x q, amap_get N.eqb x c2p1 = Some q <-> In (x, q) (qsome Q')).
      { intros x q. unfold c2p1. destruct p as [q0|].
        - rewrite (amap_get_del N.eqb N.eqb_spec). destruct (N.eqb_spec x (it_index t)) as [->|Hne].
          + split; [discriminate|]. intros Hx. exfalso. apply qsome_roots, qroots_idx in Hx.
            exact (Hdis_t _ (it_index_in t) Hx).
          + rewrite Hc2p. unfold qsome. cbn [flat_map fst snd In app]. fold (qsome Q'). split; [intros [[= E _]|Hx]; [congruence|exact Hx]|auto].
        - rewrite Hc2p. unfold qsome. cbn [flat_map fst snd app]. reflexivity. }
      destruct t as [i k v h|i hh d l r]; inversion Hr as [? ? ? ? ? Hg|? ? ? ? ? ? Hg Hl Hrr]; subst.
      + (* a leaf *)
        cbn [it_index] in *. unfold rbind. rewrite Hg. cbn [b_node node_parent l_parent l_key] in *. rewrite Hbad.
        destruct (Hlv i k v h) as [Ek Hfr]; [unfold qleaves; cbn [flat_map snd it_leaves app]; now left|].
        rewrite Ek, N.eqb_refl. cbn [negb]. apply nmem_false in Hfr. rewrite Hfr.
        fold c2p1. rewrite (IH Q' queued c2p1 (lc + 1) ic Hrep' Hnd_Q'); auto.
        * unfold qleaves, qni. cbn [flat_map snd it_leaves app length fold_right it_ninternal]. fold (qleaves Q'). fold (qni Q'). f_equal. f_equal; f_equal; lia.
        * intros j Hj. apply Hdis. apply in_app_iff. now right.
        * intros i' k' v' h' Hx. apply (Hlv i' k' v' h'). unfold qleaves. cbn [flat_map]. apply in_app_iff. now right.
        * cbn [it_indices app length] in Hfuel. lia.
      + (* an internal node: its children join the queue *)
        cbn [it_index] in *. unfold rbind. rewrite Hg. cbn [b_node node_parent i_parent i_left i_right] in *. rewrite Hbad.
        assert (Hiq : nmem i queued = false) by (apply nmem_false; apply Hdis; apply in_app_iff; left; now left).
        rewrite Hiq. fold c2p1.
        cbn [it_indices] in Hnd_t, Hdis_t. inversion Hnd_t as [|? ? Hi_lr Hnd_lr]; subst.
        destruct (NoDup_app_inv _ _ Hnd_lr) as [Hnd_l [Hnd_r Hdis_lr]].
        set (Q2 := Q' ++ [(Some i, l); (Some i, r)]).
        assert (Eq : qroots Q' ++ [it_index l; it_index r] = qroots Q2) by (unfold Q2; rewrite qroots_app; reflexivity).
        rewrite Eq.
        assert (Eidx : qidx Q2 = qidx Q' ++ it_indices l ++ it_indices r).
        { unfold Q2. rewrite qidx_app. unfold qidx at 2. cbn [flat_map snd]. now rewrite app_nil_r. }
        assert (Hnd2 : NoDup (qidx Q2)).
        { rewrite Eidx. apply (Permutation_NoDup (l := (it_indices l ++ it_indices r) ++ qidx Q')); [apply Permutation_app_comm|].
          cbn [it_indices app] in Hnd. now inversion Hnd. }
        rewrite (IH Q2 (i :: queued) _ lc (ic + 1)); auto.
        * unfold Q2. rewrite qleaves_app, qni_app. unfold qleaves at 2. unfold qni at 2. cbn [flat_map snd fold_right app].
          unfold qleaves, qni. cbn [flat_map snd it_leaves fold_right it_ninternal]. fold (qleaves Q'). fold (qni Q').
          rewrite !app_length. cbn [length]. f_equal. f_equal; f_equal; lia.
        * unfold Q2. apply Forall_app. split; [exact Hrep'|]. constructor; [exact Hl|]. constructor; [exact Hrr|constructor].
        * intros j Hj [<-|Hq].
          -- rewrite Eidx in Hj. apply in_app_iff in Hj as [Hj|Hj]; [apply (Hdis_t i); [now left|exact Hj]|contradiction].
          -- rewrite Eidx in Hj. apply (Hdis j); [|exact Hq]. apply in_app_iff in Hj as [Hj|Hj]; apply in_app_iff; [now right|left; now right].
        * intros x q. rewrite !(amap_get_set N.eqb N.eqb_spec). unfold Q2. rewrite qsome_app. unfold qsome at 2. cbn [flat_map fst snd app].
          rewrite in_app_iff. cbn [In].
          assert (Hlr : it_index l <> it_index r).
          { intros E. apply (Hdis_lr (it_index l)); [apply it_index_in|rewrite E; apply it_index_in]. }
          assert (Hnotroot : forall y, In y (it_indices l ++ it_indices r) -> forall q', ~ In (y, q') (qsome Q')).
          { intros y Hy q' Hx. apply qsome_roots, qroots_idx in Hx. apply (Hdis_t y); [now right|exact Hx]. }
          destruct (N.eqb_spec x (it_index r)) as [->|Hn1]; [|destruct (N.eqb_spec x (it_index l)) as [->|Hn2]].
          -- split; [intros [= <-]; right; right; now left|].
             intros [Hx|[E|[E|[]]]]; [|inversion E; congruence|inversion E; reflexivity].
             exfalso. apply (Hnotroot (it_index r)) in Hx; [exact Hx|apply in_app_iff; right; apply it_index_in].
          -- split; [intros [= <-]; right; now left|].
             intros [Hx|[E|[E|[]]]]; [|inversion E; reflexivity|inversion E; congruence].
             exfalso. apply (Hnotroot (it_index l)) in Hx; [exact Hx|apply in_app_iff; left; apply it_index_in].
          -- rewrite Hc2p1. split; [auto|]. intros [Hx|[E|[E|[]]]]; [exact Hx|inversion E; congruence|inversion E; congruence].
        * intros i' k' v' h' Hx. apply (Hlv i' k' v' h'). unfold Q2 in Hx. rewrite qleaves_app in Hx. unfold qleaves at 2 in Hx. cbn [flat_map snd] in Hx.
          rewrite app_nil_r in Hx. unfold qleaves. cbn [flat_map snd it_leaves]. apply in_app_iff in Hx as [Hx|Hx]; apply in_app_iff; [now right|now left].
        * rewrite Eidx. cbn [it_indices app length] in Hfuel. rewrite !app_length in *. lia.
  Qed.
End Pfi.

Lemma NoDup_app_intro {A} (l1 l2 : list A) :
  NoDup l1 -> NoDup l2 -> (forall x, In x l1 -> In x l2 -> False) -> NoDup (l1 ++ l2).
Proof.
  induction l1 as [|y l1 IH]; cbn [app]; intros N1 N2 Hd; [exact N2|].
  inversion N1 as [|? ? Hy N1']; subst. constructor.
  - rewrite in_app_iff. intros [Hx|Hx]; [contradiction|]. apply (Hd y); [now left|exact Hx].
  - apply IH; auto. intros x Hx. apply Hd. now right.
Qed.

Section Integrity.
  Variable H : bytes -> bytes.
  Hypothesis Hlen : forall x, length (H x) = HASH_BYTES.

  Lemma h2i_perm s t : Inv_tree H s t -> Permutation (map fst (h2i s)) (it_lhashes t).
  Proof.
    intros HI. apply NoDup_Permutation; [exact (inv_h2i_nodup _ _ _ HI)|exact (inv_hashes _ _ _ HI)|].
    intros h. split.
    - intros Hin. destruct (amap_in_get bytes_eqb bytes_eqb_spec h _ Hin) as [i Hi].
      apply (inv_h2i _ _ _ HI) in Hi as [k [v Hx]]. unfold it_lhashes. apply in_map_iff.
      exists (i, k, v, h). split; [reflexivity|exact Hx].
    - unfold it_lhashes. intros Hin. apply in_map_iff in Hin as [[[[i k] v] h0] [E Hx]]. cbn in E. subst h0.
      apply (amap_get_in bytes_eqb bytes_eqb_spec h _ i). apply (inv_h2i _ _ _ HI). eauto.
  Qed.

  Lemma free_indices_count s t : Inv_tree H s t -> (length (free s) + length (it_indices t) = length (blocks s))%nat.
  Proof.
    intros HI. pose proof (rep_indices_lt _ _ _ (inv_rep _ _ _ HI)) as Hidx. unfold nblocks in Hidx.
    rewrite <- app_length, <- (seq_length (length (blocks s)) 0), <- (map_length N.of_nat).
    apply Permutation_length. apply NoDup_Permutation.
    - apply NoDup_app_intro; [exact (inv_free_nodup _ _ _ HI)|exact (inv_nodup _ _ _ HI)|].
      intros x Hf Hi. apply (inv_free _ _ _ HI x (Hidx x Hi)) in Hf. contradiction.
    - apply FinFun.Injective_map_NoDup; [intros a b Eab; lia|apply seq_NoDup].
    - intros x. rewrite in_app_iff, in_map_iff. split.
      + intros [Hx|Hx]; exists (N.to_nat x); (split; [lia|]); apply in_seq;
          [pose proof (inv_free_lt _ _ _ HI x Hx)|pose proof (Hidx x Hx)]; lia.
      + intros [n [<- Hn]]. apply in_seq in Hn.
        destruct (in_dec N.eq_dec (N.of_nat n) (it_indices t)) as [Hi|Hni]; [now right|].
        left. apply (inv_free _ _ _ HI); [lia|exact Hni].
  Qed.

  Theorem just_integrity_ok s t : Inv_tree H s t -> check_just_integrity s = Ok tt.
  Proof.
    intros HI. pose proof HI as [Hrep Hroot Hnd Hbound Hblen Hfnd Hfree Hflt Hk2i Hh2i Hkn Hhn Hkeys Hhashes Hranges Htwf].
    assert (Hidx : forall j, In j (it_indices t) -> j < nblocks s) by (apply (rep_indices_lt _ _ _ Hrep)).
    pose proof (pigeonhole (it_indices t) (length (blocks s)) Hnd Hidx) as Hsz.
    unfold check_just_integrity.
    assert (Hne : blocks s <> []).
    { intros E. assert (Hl : it_index t < nblocks s) by (apply Hidx; apply it_index_in). unfold nblocks in Hl. rewrite E in Hl. cbn [length] in Hl. lia. }
    destruct (blocks s) as [|b0 bl0] eqn:Eb; [congruence|]. rewrite <- Eb in *. clear Hne.
    assert (Eq : [0] = qroots [(None, t)]) by (unfold qroots; cbn [map snd]; now rewrite Hroot).
    rewrite Eq. rewrite (pfi_ok s _ [(None, t)] [] [] 0 0).
    - unfold qleaves, qni. cbn [flat_map snd fold_right rbind]. rewrite app_nil_r, Nat.add_0_r, !N.add_0_l.
      assert (E1 : (N.of_nat (length (it_leaves t)) =? N.of_nat (length (k2i s))) = true).
      { apply N.eqb_eq. pose proof (leaf_count_leaves H _ _ HI) as Hl. unfold leaf_count in Hl. now rewrite Hl. }
      assert (E2 : (N.of_nat (length (it_leaves t)) =? N.of_nat (length (h2i s))) = true).
      { apply N.eqb_eq. f_equal. rewrite <- (map_length fst (h2i s)), (Permutation_length (h2i_perm _ _ HI)).
        unfold it_lhashes. now rewrite map_length. }
      assert (E3 : (N.of_nat (length (it_leaves t)) + N.of_nat (it_ninternal t) + N.of_nat (length (free s)) =? extend_index s) = true).
      { apply N.eqb_eq. unfold extend_index. pose proof (free_indices_count s t HI). pose proof (leaves_indices_count t). lia. }
      rewrite E1, E2, E3. reflexivity.
    - constructor; [exact Hrep|constructor].
    - unfold qidx. cbn [flat_map snd]. now rewrite app_nil_r.
    - intros j _ [].
    - intros x q. unfold qsome. cbn. split; [discriminate|tauto].
    - intros i k v h Hx. unfold qleaves in Hx. cbn [flat_map snd] in Hx. rewrite app_nil_r in Hx. split.
      + apply Hk2i. eauto.
      + intros Hf. assert (Hi : In i (it_indices t)).
        { destruct (leaf_in_ctx _ _ Hx) as [c Et]. cbn in Et. rewrite Et. apply (in_perm_iff _ _ _ (it_indices_plug c _)). cbn. now left. }
        apply (Hfree i (Hidx i Hi)) in Hf. contradiction.
    - unfold qidx. cbn [flat_map snd]. rewrite app_nil_r. lia.
  Qed.

  Lemma integrity_empty : check_integrity H empty_blob = Ok tt.
  Proof. reflexivity. Qed.

  Theorem integrity_ok s t : Inv_tree H s t -> check_integrity H s = Ok tt.
  Proof.
    intros HI. unfold check_integrity. rewrite (just_integrity_ok s t HI). cbn [rbind].
    destruct (lazy_hashes_ok H Hlen s t HI) as [s' [E HI']]. rewrite E. exact (just_integrity_ok s' _ HI').
  Qed.
End Integrity.
