(* Dl/TreeProofs.v — L1 -> L0: every tree operation has the effect of the plain-map operation,
   failures are identities, the tree invariant is preserved; after lazy hashing the root is the
   recursive recomputation and every key has a valid proof of inclusion ending in the root. *)
From Coq Require Import Permutation.
From ChiaV.Base Require Import Bytes.
From ChiaV.Gen Require Import Dl.
From ChiaV.Dl Require Import Format Map Tree Blob Abs History MapProofs.
From Coq Require Import ZifyBool ZifyNat ZifyN.
Ltac Zify.zify_post_hook ::= Z.div_mod_to_equations.
Open Scope N_scope.

Fixpoint t_height (t : tree) : nat :=
  match t with TLeaf _ _ _ => O | TNode _ _ l r => S (Nat.max (t_height l) (t_height r)) end.

Lemma t_height_size t : (t_height t < t_size t)%nat.
Proof. induction t; cbn [t_height t_size]; lia. Qed.

Lemma t_kv_nonempty t : t_kv t <> [].
Proof.
  induction t as [k v h|hh d l IHl r IHr]; cbn [t_kv]; [discriminate|].
  destruct (t_kv l); [contradiction|discriminate].
Qed.

Section TP.
  Variable H : bytes -> bytes.
  Notation ih := (internal_hash H).
  Notation twf := (twf H).

  Lemma twf_b_iff t : t_wf_b H t = true <-> twf t.
  Proof.
    induction t as [k v h|hh d l IHl r IHr]; cbn [t_wf_b twf]; [tauto|].
    rewrite !andb_true_iff, IHl, IHr. split.
    - intros [[Hl Hr] Hc]. split; [exact Hl|]. split; [exact Hr|]. intros ->. cbn [orb] in Hc.
      rewrite !andb_true_iff in Hc. destruct Hc as [[A B] C]. apply bytes_eqb_eq in C. auto.
    - intros [Hl [Hr Hc]]. split; [split; assumption|]. destruct d; [reflexivity|]. cbn [orb].
      destruct (Hc eq_refl) as [A [B C]]. rewrite A, B. cbn [andb]. apply bytes_eqb_eq. exact C.
  Qed.

  (* ---------- graft ---------- *)
  Lemma graft_none ref mk t : t_graft ref mk t = None <-> ~ In ref (tkeys t).
  Proof.
    unfold tkeys, mkeys. induction t as [k v h|hh d l IHl r IHr]; cbn [t_graft t_kv map fst In].
    - destruct (N.eqb_spec k ref) as [->|Hn]; split; try discriminate; try tauto.
    - rewrite map_app, in_app_iff. destruct (t_graft ref mk l); [|destruct (t_graft ref mk r)].
      + split; [discriminate|]. intros Hn. exfalso. apply Hn. left.
        destruct (in_dec N.eq_dec ref (map fst (t_kv l))) as [i|n]; [exact i|].
        apply IHl in n. discriminate.
      + split; [discriminate|]. intros Hn. exfalso. apply Hn. right.
        destruct (in_dec N.eq_dec ref (map fst (t_kv r))) as [i|n]; [exact i|].
        apply IHr in n. discriminate.
      + split; [|reflexivity]. intros _ [Hi|Hi]; [now apply IHl in Hi|now apply IHr in Hi].
  Qed.

  Lemma graft_some ref mk t t' : t_graft ref mk t = Some t' ->
    exists a b v h, t_kv t = a ++ (ref, (v, h)) :: b /\ t_kv t' = a ++ t_kv (mk (TLeaf ref v h)) ++ b.
  Proof.
    revert t'. induction t as [k v h|hh d l IHl r IHr]; intros t'; cbn [t_graft t_kv].
    - destruct (N.eqb_spec k ref) as [->|Hn]; [|discriminate]. intros [= <-].
      exists [], [], v, h. cbn [app]. now rewrite app_nil_r.
    - destruct (t_graft ref mk l) as [l'|] eqn:El.
      + intros [= <-]. destruct (IHl _ eq_refl) as [a [b [v [h [E1 E2]]]]].
        exists a, (b ++ t_kv r), v, h. cbn [t_kv]. rewrite E1, E2. now rewrite <- !app_assoc.
      + destruct (t_graft ref mk r) as [r'|] eqn:Er; [|discriminate]. intros [= <-].
        destruct (IHr _ eq_refl) as [a [b [v [h [E1 E2]]]]].
        exists (t_kv l ++ a), b, v, h. cbn [t_kv]. rewrite E1, E2. now rewrite <- !app_assoc.
  Qed.

  Lemma graft_twf ref mk t t' :
    twf t -> (forall v h, twf (mk (TLeaf ref v h))) -> t_graft ref mk t = Some t' -> twf t'.
  Proof.
    intros Hw Hmk. revert t' Hw. induction t as [k v h|hh d l IHl r IHr]; intros t' Hw; cbn [t_graft].
    - destruct (N.eqb_spec k ref) as [->|Hn]; [|discriminate]. intros [= <-]. apply Hmk.
    - destruct Hw as [Hl [Hr _]]. destruct (t_graft ref mk l) as [l'|] eqn:El.
      + intros [= <-]. cbn [twf]. split; [eauto|split; [eauto|discriminate]].
      + destruct (t_graft ref mk r) as [r'|] eqn:Er; [|discriminate]. intros [= <-].
        cbn [twf]. split; [eauto|split; [eauto|discriminate]].
  Qed.

  Lemma graft_is_node ref mk t t' hh d l r :
    t = TNode hh d l r -> t_graft ref mk t = Some t' -> exists hh' d' l' r', t' = TNode hh' d' l' r'.
  Proof.
    intros -> . cbn [t_graft]. destruct (t_graft ref mk l); [intros [= <-]; eauto|].
    destruct (t_graft ref mk r); [intros [= <-]; eauto|discriminate].
  Qed.

  (* ---------- delete ---------- *)
  Lemma del_none k t : t_del k t = None <-> ~ In k (tkeys t).
  Proof.
    unfold tkeys, mkeys. induction t as [k' v h|hh d l IHl r IHr]; cbn [t_del t_kv map fst In].
    - destruct (N.eqb_spec k' k) as [->|Hn]; split; try discriminate; try tauto.
    - rewrite map_app, in_app_iff. destruct (t_del k l) as [[l'|]|] eqn:El.
      + split; [discriminate|]. intros Hn. exfalso. apply Hn. left.
        destruct (in_dec N.eq_dec k (map fst (t_kv l))) as [i|n]; [exact i|]. apply IHl in n. discriminate.
      + split; [discriminate|]. intros Hn. exfalso. apply Hn. left.
        destruct (in_dec N.eq_dec k (map fst (t_kv l))) as [i|n]; [exact i|]. apply IHl in n. discriminate.
      + destruct (t_del k r) as [[r'|]|] eqn:Er.
        * split; [discriminate|]. intros Hn. exfalso. apply Hn. right.
          destruct (in_dec N.eq_dec k (map fst (t_kv r))) as [i|n]; [exact i|]. apply IHr in n. discriminate.
        * split; [discriminate|]. intros Hn. exfalso. apply Hn. right.
          destruct (in_dec N.eq_dec k (map fst (t_kv r))) as [i|n]; [exact i|]. apply IHr in n. discriminate.
        * split; [|reflexivity]. intros _ [Hi|Hi]; [now apply IHl in Hi|now apply IHr in Hi].
  Qed.

  Lemma del_leaf k t : t_del k t = Some None -> exists v h, t = TLeaf k v h.
  Proof.
    destruct t as [k' v h|hh d l r]; cbn [t_del].
    - destruct (N.eqb_spec k' k) as [->|]; [eauto|discriminate].
    - destruct (t_del k l) as [[?|]|]; try discriminate. destruct (t_del k r) as [[?|]|]; discriminate.
  Qed.

  Lemma del_some k t t' : t_del k t = Some (Some t') ->
    exists a b vh, t_kv t = a ++ (k, vh) :: b /\ t_kv t' = a ++ b.
  Proof.
    revert t'. induction t as [k' v h|hh d l IHl r IHr]; intros t'; cbn [t_del t_kv].
    - destruct (k' =? k); discriminate.
    - destruct (t_del k l) as [[l'|]|] eqn:El.
      + intros [= <-]. destruct (IHl _ eq_refl) as [a [b [vh [E1 E2]]]].
        exists a, (b ++ t_kv r), vh. cbn [t_kv]. rewrite E1, E2. now rewrite <- !app_assoc.
      + intros [= <-]. destruct (del_leaf _ _ El) as [v [h ->]]. exists [], (t_kv r), (v, h). now cbn.
      + destruct (t_del k r) as [[r'|]|] eqn:Er; try discriminate.
        * intros [= <-]. destruct (IHr _ eq_refl) as [a [b [vh [E1 E2]]]].
          exists (t_kv l ++ a), b, vh. cbn [t_kv]. rewrite E1, E2. now rewrite <- !app_assoc.
        * intros [= <-]. destruct (del_leaf _ _ Er) as [v [h ->]]. exists (t_kv l), [], (v, h).
          cbn [t_kv]. now rewrite app_nil_r.
  Qed.

  Lemma del_twf k t t' : twf t -> t_del k t = Some (Some t') -> twf t'.
  Proof.
    revert t'. induction t as [k' v h|hh d l IHl r IHr]; intros t' Hw; cbn [t_del].
    - destruct (k' =? k); discriminate.
    - destruct Hw as [Hl [Hr _]]. destruct (t_del k l) as [[l'|]|] eqn:El.
      + intros [= <-]. cbn [twf]. split; [eauto|split; [eauto|discriminate]].
      + intros [= <-]. exact Hr.
      + destruct (t_del k r) as [[r'|]|] eqn:Er; try discriminate.
        * intros [= <-]. cbn [twf]. split; [eauto|split; [eauto|discriminate]].
        * intros [= <-]. exact Hl.
  Qed.

  (* ---------- the Auto location always ends at a leaf of the tree ---------- *)
  Hypothesis Hne : forall x, H x <> [].

  Lemma seed_bits_nonempty x : x <> [] -> seed_bits x <> [].
  Proof. destruct x; [congruence|]. intros _. cbn. discriminate. Qed.

  Lemma t_walk_in fuel : forall t bits seed k, t_walk H fuel t bits seed = Some k -> In k (tkeys t).
  Proof.
    unfold tkeys, mkeys. induction fuel as [|f IH]; intros t bits seed k; cbn [t_walk]; [discriminate|].
    destruct t as [k' v h|hh d l r].
    - intros [= <-]. cbn. now left.
    - destruct bits as [|b bs].
      + intros E. exact (IH _ _ _ _ E).
      + intros E. apply IH in E. cbn [t_kv]. rewrite map_app, in_app_iff. destruct b; auto.
  Qed.

  Lemma t_walk_total fuel : forall t bits seed,
    (2 * t_height t + (match bits with [] => 1 | _ => 0 end) < fuel)%nat ->
    exists k, t_walk H fuel t bits seed = Some k.
  Proof.
    induction fuel as [|f IH]; intros t bits seed Hf; [lia|]. cbn [t_walk].
    destruct t as [k' v h|hh d l r]; [eauto|]. cbn [t_height] in Hf.
    destruct bits as [|b bs].
    - apply IH. pose proof (seed_bits_nonempty _ (Hne seed)).
      destruct (seed_bits (H seed)); [congruence|]. cbn [t_height]. lia.
    - apply IH. destruct b, bs; lia.
  Qed.

  Lemma t_auto_some key t : exists ref sd, t_auto H key t = Some (ref, sd) /\ In ref (tkeys t).
  Proof.
    unfold t_auto. destruct (H (n2be KEY_BYTES key)) as [|b0 s] eqn:E; [now apply Hne in E|].
    destruct (t_walk_total (4 * t_size t + 4) t (seed_bits (rev (b0 :: s))) (rev (b0 :: s))) as [k Hk].
    - pose proof (t_height_size t). destruct (seed_bits (rev (b0 :: s))); lia.
    - cbv zeta. rewrite Hk. eexists _, _. split; [reflexivity|]. eapply t_walk_in; eauto.
  Qed.

  (* ---------- breadth-first first leaf ---------- *)
  Definition qsize (q : list tree) : nat := fold_right (fun t n => (t_size t + n)%nat) O q.

  Lemma qsize_app a b : qsize (a ++ b) = (qsize a + qsize b)%nat.
  Proof. unfold qsize. induction a as [|x a IH]; cbn [app fold_right]; [reflexivity|]. rewrite IH. lia. Qed.

  Lemma t_bfs_total fuel : forall q, q <> [] -> (qsize q < fuel)%nat ->
    exists k, t_bfs fuel q = Some k /\ exists t, In t q /\ In k (tkeys t).
  Proof.
    induction fuel as [|f IH]; intros q Hq Hf; [lia|]. cbn [t_bfs].
    destruct q as [|[k v h|hh d l r] q']; [congruence|..].
    - exists k. split; [reflexivity|]. exists (TLeaf k v h). split; [now left|]. cbn. now left.
    - destruct (IH (q' ++ [l; r])) as [k [Hk [t [Hin Hkt]]]].
      + destruct q'; discriminate.
      + rewrite qsize_app. unfold qsize in *. cbn [fold_right t_size] in *. lia.
      + exists k. split; [exact Hk|]. apply in_app_iff in Hin as [Hin|[<-|[<-|[]]]].
        * exists t. split; [now right|exact Hkt].
        * exists (TNode hh d l r). split; [now left|]. unfold tkeys, mkeys in *. cbn [t_kv].
          rewrite map_app, in_app_iff. now left.
        * exists (TNode hh d l r). split; [now left|]. unfold tkeys, mkeys in *. cbn [t_kv].
          rewrite map_app, in_app_iff. now right.
  Qed.

  Lemma t_min_leaf_some t : exists k, t_min_leaf t = Some k /\ In k (tkeys t).
  Proof.
    unfold t_min_leaf. destruct (t_bfs_total (2 * t_size t + 2) [t]) as [k [Hk [t' [[<-|[]] Hin]]]].
    - discriminate.
    - cbn. lia.
    - eauto.
  Qed.

  (* ---------- subtree building ---------- *)
  Definition sub_ok (t : tree) : Prop := twf t /\ t_all_clean t = true.

  Lemma pair_ind (P : list tree -> Prop) :
    P [] -> (forall a, P [a]) -> (forall a b r, P r -> P (a :: b :: r)) -> forall l, P l.
  Proof. intros H0 H1 H2. fix IH 1. intros [|a [|b r]]; [exact H0|apply H1|apply H2; apply IH]. Qed.

  Lemma pair_level_kv ts : concat (map t_kv (pair_level H ts)) = concat (map t_kv ts).
  Proof.
    induction ts as [|a|a b r IH] using pair_ind.
    - reflexivity.
    - reflexivity.
    - cbn [pair_level map concat t_kv]. rewrite IH. now rewrite app_assoc.
  Qed.

  Lemma pair_level_ok ts : Forall sub_ok ts -> Forall sub_ok (pair_level H ts).
  Proof.
    induction ts as [|a|a b r IH] using pair_ind.
    - auto.
    - auto.
    - intros Hf. inversion Hf as [|? ? [Ha1 Ha2] Hf1]; subst. inversion Hf1 as [|? ? [Hb1 Hb2] Hf2]; subst.
      cbn [pair_level]. constructor.
      + split; cbn [twf t_all_clean negb andb]; [|now rewrite Ha2, Hb2]. repeat split; auto.
      + apply IH. exact Hf2.
  Qed.

  Lemma pair_level_length ts : (length (pair_level H ts) = Nat.div2 (S (length ts)))%nat.
  Proof.
    induction ts as [|a|a b r IH] using pair_ind.
    - reflexivity.
    - reflexivity.
    - cbn [pair_level length]. rewrite IH. reflexivity.
  Qed.

  Lemma build_levels_spec fuel : forall ts, Forall sub_ok ts -> (length ts <= S fuel)%nat -> ts <> [] ->
    exists t, build_levels H fuel ts = [t] /\ sub_ok t /\ t_kv t = concat (map t_kv ts).
  Proof.
    induction fuel as [|f IH]; intros ts Hok Hl Hne'.
    - destruct ts as [|t [|? ?]]; [congruence| |cbn in Hl; lia]. exists t. cbn [build_levels map concat].
      inversion Hok; subst. rewrite app_nil_r. auto.
    - cbn [build_levels]. destruct ts as [|t [|t2 r]]; [congruence|..].
      + exists t. inversion Hok; subst. cbn [map concat]. rewrite app_nil_r. auto.
      + destruct (IH (pair_level H (t :: t2 :: r))) as [t' [E [Hs Hk]]].
        * now apply pair_level_ok.
        * rewrite pair_level_length. cbn [length] in *. rewrite Nat.div2_div. lia.
        * cbn [pair_level]. discriminate.
        * exists t'. split; [exact E|]. split; [exact Hs|]. rewrite Hk. apply pair_level_kv.
  Qed.

  Lemma build_subtree_spec items : items <> [] ->
    exists t, build_subtree H items = Some t /\ sub_ok t /\ t_kv t = map entry_of items.
  Proof.
    intros Hne'. unfold build_subtree.
    destruct (build_levels_spec (length items) (map (fun '(k, v, h) => TLeaf k v h) items)) as [t [E [Hs Hk]]].
    - apply Forall_forall. intros x Hin. apply in_map_iff in Hin as [[[k v] h] [<- _]]. split; cbn; auto.
    - rewrite map_length. lia.
    - destruct items; [congruence|discriminate].
    - exists t. rewrite E. split; [reflexivity|]. split; [exact Hs|]. rewrite Hk.
      clear. induction items as [|[[k v] h] r IH]; [reflexivity|]. cbn [map concat t_kv entry_of app]. now rewrite IH.
  Qed.

  Lemma build_subtree_nil : build_subtree H [] = None.
  Proof. reflexivity. Qed.

  (* ---------- the refinement relation and the per-operation theorem ---------- *)
  Notation owf := (owf H).
  Notation R := (tree_refines H).

  Lemma R_keys t m : R (Some t) m -> forall k, In k (tkeys t) <-> In k (mkeys m).
  Proof.
    intros [P _] k. unfold tkeys, mkeys. cbn [ot_kv] in P. split; intros Hin.
    - eapply Permutation_in; [apply Permutation_map; exact P|exact Hin].
    - eapply Permutation_in; [apply Permutation_map; apply Permutation_sym; exact P|exact Hin].
  Qed.

  Lemma R_nodup t m : R (Some t) m -> NoDup (tkeys t).
  Proof.
    intros [P [[Hk _] _]]. unfold tkeys, mkeys in *. cbn [ot_kv] in P.
    eapply Permutation_NoDup; [apply Permutation_map; apply Permutation_sym; exact P|exact Hk].
  Qed.

  Lemma nodup_split_notin (a b : kvmap) k vh : NoDup (mkeys (a ++ (k, vh) :: b)) -> ~ In k (mkeys (a ++ b)).
  Proof.
    unfold mkeys. rewrite !map_app. cbn [map fst]. intros Hnd. apply NoDup_remove_2 in Hnd. exact Hnd.
  Qed.

  (* inserting a fresh leaf next to a reference leaf *)
  Lemma insert_at_R t m k v h ref sd :
    R (Some t) m -> ~ In k (mkeys m) -> ~ In h (mhashes m) -> In ref (tkeys t) ->
    exists t', t_graft ref (t_join H sd (TLeaf k v h)) t = Some t' /\ R (Some t') ((k, (v, h)) :: m).
  Proof.
    intros HR Hk Hh Href. destruct HR as [P [[Nk Nh] Hw]]. cbn [ot_kv owf] in *.
    destruct (t_graft ref (t_join H sd (TLeaf k v h)) t) as [t'|] eqn:E;
      [|apply graft_none in E; contradiction].
    exists t'. split; [reflexivity|]. destruct (graft_some _ _ _ _ E) as [a [b [v0 [h0 [E1 E2]]]]].
    split; [|split].
    - cbn [ot_kv]. rewrite E2. rewrite E1 in P.
      assert (Pj : Permutation (t_kv (t_join H sd (TLeaf k v h) (TLeaf ref v0 h0))) ((k, (v, h)) :: [(ref, (v0, h0))])).
      { destruct sd; cbn [t_join t_kv app]; [reflexivity|apply perm_swap]. }
      eapply Permutation_trans.
      + apply Permutation_app_head. apply Permutation_app_tail. exact Pj.
      + cbn [app]. eapply Permutation_trans; [apply Permutation_sym; apply Permutation_middle|].
        constructor. exact P.
    - split; cbn [mkeys mhashes map fst snd]; constructor; auto.
    - cbn [owf]. eapply graft_twf; [exact Hw| |exact E]. intros v1 h1.
      destruct sd; cbn [t_join twf t_all_clean t_hash]; repeat split; auto.
  Qed.

  Lemma leaf_count_perm ot m : Permutation (ot_kv ot) m -> ot_leaf_count ot = length m.
  Proof. intros P. unfold ot_leaf_count. now apply Permutation_length. Qed.

  Lemma t_insert_fresh k v h loc ot m :
    R ot m -> ~ In k (mkeys m) -> ~ In h (mhashes m) ->
    (match loc with
     | TAuto => True
     | TRoot => m = []
     | TKey ref _ => In ref (mkeys m)
     end) ->
    exists t', t_insert H k v h loc ot = (true, Some t') /\ R (Some t') ((k, (v, h)) :: m).
  Proof.
    intros HR Hk Hh Hloc. pose proof HR as [P [Hok Hw]]. unfold t_insert.
    rewrite (m_mem_perm k _ _ P), (m_has_hash_perm h _ _ P).
    apply m_mem_false in Hk. apply m_has_hash_false in Hh. rewrite Hk, Hh. cbn [orb].
    apply m_mem_false in Hk. apply m_has_hash_false in Hh.
    destruct ot as [t|].
    - assert (Hex : exists ref sd, (match loc with TAuto => t_auto H k t | TRoot => None | TKey ref sd => Some (ref, sd) end)
                                   = Some (ref, sd) /\ In ref (tkeys t)).
      { destruct loc as [| |ref sd].
        - apply t_auto_some.
        - subst m. cbn [ot_kv] in P. apply Permutation_sym, Permutation_nil in P. now apply t_kv_nonempty in P.
        - exists ref, sd. split; [reflexivity|]. now apply (R_keys _ _ HR). }
      destruct Hex as [ref [sd [-> Href]]].
      destruct (insert_at_R t m k v h ref sd HR Hk Hh Href) as [t' [-> HR']]. eauto.
    - cbn [ot_kv] in P. apply Permutation_nil in P. subst m.
      destruct loc as [| |ref sd]; [| |destruct Hloc].
      + eexists. split; [reflexivity|]. repeat split; cbn; try constructor; auto; constructor.
      + eexists. split; [reflexivity|]. repeat split; cbn; try constructor; auto; constructor.
  Qed.

  Lemma t_insert_fail k v h loc ot : fst (t_insert H k v h loc ot) = false -> snd (t_insert H k v h loc ot) = ot.
  Proof.
    unfold t_insert. destruct (m_mem k (ot_kv ot) || m_has_hash h (ot_kv ot)); [reflexivity|].
    destruct ot as [t|].
    - destruct (match loc with TAuto => t_auto H k t | TRoot => None | TKey ref sd => Some (ref, sd) end) as [[ref sd]|];
        [|reflexivity]. destruct (t_graft ref (t_join H sd (TLeaf k v h)) t); [discriminate|reflexivity].
    - destruct loc; cbn; try discriminate; reflexivity.
  Qed.

  Lemma t_insert_rejects k v h loc ot m :
    R ot m -> (In k (mkeys m) \/ In h (mhashes m)) -> t_insert H k v h loc ot = (false, ot).
  Proof.
    intros [P _] Hor. unfold t_insert. rewrite (m_mem_perm k _ _ P), (m_has_hash_perm h _ _ P).
    destruct Hor as [Hi|Hi].
    - apply m_mem_in in Hi. now rewrite Hi.
    - apply m_has_hash_in in Hi. rewrite Hi. now rewrite orb_true_r.
  Qed.

  Lemma t_insert_bad_loc k v h loc ot m :
    R ot m ->
    (match loc with TAuto => False | TRoot => m <> [] | TKey ref _ => ~ In ref (mkeys m) end) ->
    t_insert H k v h loc ot = (false, ot).
  Proof.
    intros HR Hloc. pose proof HR as [P _]. unfold t_insert.
    destruct (m_mem k (ot_kv ot) || m_has_hash h (ot_kv ot)); [reflexivity|].
    destruct ot as [t|].
    - destruct loc as [| |ref sd]; [destruct Hloc|reflexivity|].
      assert (Hn : ~ In ref (tkeys t)) by (intros Hin; apply Hloc; now apply (R_keys _ _ HR)).
      apply (graft_none ref (t_join H sd (TLeaf k v h))) in Hn. now rewrite Hn.
    - cbn [ot_kv] in P. apply Permutation_nil in P. subst m. destruct loc; [destruct Hloc|congruence|reflexivity].
  Qed.

  Lemma m_batch_nil_or items m : m_batch items m <> None -> True.
  Proof. auto. Qed.

  Lemma two_leaves_node t : (2 <= length (t_kv t))%nat -> exists hh d l r, t = TNode hh d l r.
  Proof. destruct t; cbn; [lia|eauto]. Qed.

  (* attaching the batch subtree *)
  Lemma batch_tail_R items ot m m' :
    R ot m -> (2 <= length m)%nat \/ items = [] -> m_batch items m = Some m' ->
    exists ot', t_batch_tail H items ot = (true, ot') /\ R ot' m'.
  Proof.
    intros HR Hlen Hb. pose proof HR as [P [Hok Hw]]. unfold t_batch_tail.
    destruct items as [|it0 items0] eqn:Eit.
    - cbn in Hb. injection Hb as <-. rewrite build_subtree_nil. eauto.
    - rewrite <- Eit in *. destruct Hlen as [Hlen|Hlen]; [|congruence].
      destruct (build_subtree_spec items) as [sub [-> [[Hsw Hsc] Hsk]]]; [congruence|].
      destruct ot as [t|]; [|cbn [ot_kv] in P; apply Permutation_nil in P; subst m; cbn in Hlen; lia].
      destruct (t_min_leaf_some t) as [ref [-> Href]].
      destruct (two_leaves_node t) as [hh [d [l [r Et]]]].
      { cbn [ot_kv] in P. rewrite (Permutation_length P). exact Hlen. }
      rewrite Et. rewrite <- Et.
      destruct (t_graft ref (t_join H SLeft sub) t) as [t'|] eqn:E; [|apply graft_none in E; contradiction].
      eexists. split; [reflexivity|].
      destruct (graft_some _ _ _ _ E) as [a [b [v0 [h0 [E1 E2]]]]].
      destruct (m_batch_ok _ _ _ Hok Hb) as [Pm Hok'].
      split; [|split; [exact Hok'|]].
      + cbn [ot_kv] in *. rewrite E2. cbn [t_join t_kv]. rewrite Hsk.
        eapply Permutation_trans; [|apply Permutation_sym; exact Pm].
        rewrite E1 in P.
        eapply Permutation_trans; [|apply Permutation_app_head; exact P].
        rewrite <- !app_assoc. cbn [app].
        eapply Permutation_trans; [apply Permutation_app_swap_app|]. reflexivity.
      + cbn [owf] in *. eapply graft_twf; [exact Hw| |exact E]. intros v1 h1.
        cbn [t_join twf t_all_clean t_hash]. repeat split; auto.
  Qed.

  Lemma pop_last_spec {A} (l : list A) :
    match pop_last l with None => l = [] | Some (r, x) => l = r ++ [x] end.
  Proof.
    unfold pop_last. destruct (rev l) as [|x r] eqn:E.
    - apply (f_equal (@rev A)) in E. now rewrite rev_involutive in E.
    - apply (f_equal (@rev A)) in E. rewrite rev_involutive in E. cbn in E. exact E.
  Qed.

  Lemma m_batch_app a : forall b m m', m_batch (a ++ b) m = Some m' ->
    exists m1, m_batch a m = Some m1 /\ m_batch b m1 = Some m'.
  Proof.
    induction a as [|[[k v] h] r IH]; intros b m m'; cbn [app m_batch]; [eauto|].
    destruct (m_insert k v h m); [apply IH|discriminate].
  Qed.

  (* a batch the plain map accepts can be applied in any order: last item first *)
  Lemma m_batch_last a k v h m m' : m_ok m -> m_batch (a ++ [(k, v, h)]) m = Some m' ->
    exists m2, m_insert k v h m = Some ((k, (v, h)) :: m) /\ m_batch a ((k, (v, h)) :: m) = Some m2 /\ Permutation m2 m'.
  Proof.
    intros Hok Hb. pose proof (m_batch_fresh _ _ _ Hok Hb) as [Nk [Nh [Fk Fh]]].
    pose proof (m_batch_ok _ _ _ Hok Hb) as [Pm Hok'].
    rewrite map_app in *. cbn [map entry_of] in *.
    assert (Hk : ~ In k (mkeys m)). { apply Fk. unfold mkeys. rewrite map_app, in_app_iff. right. now left. }
    assert (Hh : ~ In h (mhashes m)). { apply Fh. unfold mhashes. rewrite map_app, in_app_iff. right. now left. }
    assert (Ei : m_insert k v h m = Some ((k, (v, h)) :: m)).
    { unfold m_insert. apply m_mem_false in Hk. apply m_has_hash_false in Hh. now rewrite Hk, Hh. }
    assert (Hok1 : m_ok ((k, (v, h)) :: m)) by (destruct (m_insert_ok _ _ _ _ _ Hok Ei) as [_ [_ [_ X]]]; exact X).
    (* a succeeds on the extended map because its items avoid k, h and m *)
    assert (Hgen : forall a0 m0, m_ok m0 ->
              NoDup (mkeys (map entry_of a0)) -> NoDup (mhashes (map entry_of a0)) ->
              (forall x, In x (mkeys (map entry_of a0)) -> ~ In x (mkeys m0)) ->
              (forall x, In x (mhashes (map entry_of a0)) -> ~ In x (mhashes m0)) ->
              exists m2, m_batch a0 m0 = Some m2).
    { induction a0 as [|[[k0 v0] h0] r IH]; intros m0 Hok0 N1 N2 F1 F2; cbn [m_batch]; [eauto|].
      cbn [map entry_of mkeys mhashes fst snd] in *.
      assert (E0 : m_insert k0 v0 h0 m0 = Some ((k0, (v0, h0)) :: m0)).
      { unfold m_insert. specialize (F1 k0 (or_introl eq_refl)). specialize (F2 h0 (or_introl eq_refl)).
        apply m_mem_false in F1. apply m_has_hash_false in F2. now rewrite F1, F2. }
      rewrite E0. destruct (m_insert_ok _ _ _ _ _ Hok0 E0) as [_ [_ [_ Hok2]]].
      inversion N1; subst. inversion N2; subst.
      apply IH; auto.
      - intros x Hin [<-|Hin2]; [contradiction|]. apply (F1 x); [now right|exact Hin2].
      - intros x Hin [<-|Hin2]; [contradiction|]. apply (F2 x); [now right|exact Hin2]. }
    unfold mkeys, mhashes in Nk, Nh. rewrite !map_app in Nk, Nh. cbn [map fst snd] in Nk, Nh.
    destruct (Hgen a ((k, (v, h)) :: m) Hok1) as [m2 Hm2].
    - apply NoDup_remove_1 in Nk. now rewrite app_nil_r in Nk.
    - apply NoDup_remove_1 in Nh. now rewrite app_nil_r in Nh.
    - intros x Hin [<-|Hin2].
      + apply NoDup_remove_2 in Nk. apply Nk. rewrite app_nil_r. exact Hin.
      + apply (Fk x); [|exact Hin2]. unfold mkeys. rewrite map_app, in_app_iff. now left.
    - intros x Hin [<-|Hin2].
      + apply NoDup_remove_2 in Nh. apply Nh. rewrite app_nil_r. exact Hin.
      + apply (Fh x); [|exact Hin2]. unfold mhashes. rewrite map_app, in_app_iff. now left.
    - exists m2. split; [exact Ei|]. split; [exact Hm2|].
      destruct (m_batch_ok _ _ _ Hok1 Hm2) as [P2 _].
      eapply Permutation_trans; [exact P2|]. eapply Permutation_trans; [|apply Permutation_sym; exact Pm].
      rewrite <- app_assoc. cbn [app]. apply Permutation_app_head. reflexivity.
  Qed.

  Lemma R_perm ot m m' : R ot m -> Permutation m m' -> m_ok m' -> R ot m'.
  Proof. intros [P [_ Hw]] Pm Hok. split; [eapply Permutation_trans; eauto|auto]. Qed.

  Lemma t_batch_R items ot m m' :
    R ot m -> m_batch items m = Some m' -> exists ot', t_batch_body H items ot = (true, ot') /\ R ot' m'.
  Proof.
    intros HR Hb. pose proof HR as [P [Hok Hw]]. unfold t_batch_body.
    destruct (m_batch_ok _ _ _ Hok Hb) as [_ Hok'].
    rewrite (leaf_count_perm _ _ P).
    destruct (Nat.leb_spec (length m) 1) as [Hle|Hgt].
    - pose proof (pop_last_spec items) as Hp. destruct (pop_last items) as [[r1 [[k1 v1] h1]]|].
      + subst items. destruct (m_batch_last _ _ _ _ _ _ Hok Hb) as [m2 [Ei [Hb2 P2]]].
        destruct (m_insert_ok _ _ _ _ _ Hok Ei) as [_ [Hk1 [Hh1 Hok1]]].
        destruct (t_insert_fresh k1 v1 h1 TAuto ot m HR Hk1 Hh1 I) as [t1 [-> HR1]].
        pose proof (pop_last_spec r1) as Hp1. destruct (pop_last r1) as [[r2 [[k2 v2] h2]]|].
        * subst r1. destruct (m_batch_last _ _ _ _ _ _ Hok1 Hb2) as [m3 [Ei2 [Hb3 P3]]].
          destruct (m_insert_ok _ _ _ _ _ Hok1 Ei2) as [_ [Hk2 [Hh2 Hok2]]].
          destruct (t_insert_fresh k2 v2 h2 TAuto (Some t1) _ HR1 Hk2 Hh2 I) as [t2 [-> HR2]].
          destruct (batch_tail_R r2 (Some t2) _ m3 HR2) as [ot' [-> HR']]; [left; cbn; lia|exact Hb3|].
          exists ot'. split; [reflexivity|]. eapply R_perm; [exact HR'| |exact Hok'].
          eapply Permutation_trans; eauto.
        * subst r1. cbn in Hb2. injection Hb2 as <-. eexists. split; [reflexivity|].
          eapply R_perm; [exact HR1|exact P2|exact Hok'].
      + subst items. cbn in Hb. injection Hb as <-. eauto.
    - apply (batch_tail_R items ot m m'); auto.
  Qed.

  Lemma m_batch_ext items : forall a b,
    (forall k, m_mem k a = m_mem k b) -> (forall h, m_has_hash h a = m_has_hash h b) ->
    (m_batch items a = None <-> m_batch items b = None).
  Proof.
    induction items as [|[[k v] h] r IH]; intros a b Hk Hh; cbn [m_batch]; [split; discriminate|].
    unfold m_insert. rewrite (Hk k), (Hh h). destruct (m_mem k b || m_has_hash h b); [tauto|].
    apply IH.
    - intros k'. unfold m_mem. cbn [m_get]. destruct (k' =? k); [reflexivity|apply Hk].
    - intros h'. unfold m_has_hash. cbn [existsb snd]. f_equal. apply Hh.
  Qed.

  Lemma step0_insert_rejected k v h loc m :
    In k (mkeys m) \/ In h (mhashes m) -> step0 (TInsert k v h loc) m = (false, m).
  Proof.
    intros Hor. unfold step0, apply0, m_insert.
    assert (E : m_mem k m || m_has_hash h m = true).
    { destruct Hor as [Hi|Hi]; [apply m_mem_in in Hi; now rewrite Hi|apply m_has_hash_in in Hi; rewrite Hi; apply orb_true_r]. }
    rewrite E. now destruct (match loc with KAuto => true | KRoot => match m with [] => true | _ => false end
                                      | KKey ref _ => m_mem ref m | KBad => false end).
  Qed.

  (* ---------- per-operation refinement ---------- *)
  Lemma rehash_kv t : t_kv (t_rehash H t) = t_kv t.
  Proof.
    induction t as [|hh d l IHl r IHr]; [reflexivity|]. cbn [t_rehash]. destruct d; [|reflexivity].
    cbn [t_kv]. now rewrite IHl, IHr.
  Qed.

  Lemma rehash_twf t : twf t -> twf (t_rehash H t) /\ t_all_clean (t_rehash H t) = true.
  Proof.
    induction t as [|hh d l IHl r IHr]; intros Hw0; [cbn; auto|]. cbn [t_rehash]. destruct Hw0 as [Hl [Hr Hc]].
    destruct d.
    - destruct (IHl Hl) as [A1 A2], (IHr Hr) as [B1 B2]. cbn [twf t_all_clean negb andb]. rewrite A2, B2.
      split; [|reflexivity]. split; [exact A1|]. split; [exact B1|]. intros _. auto.
    - destruct (Hc eq_refl) as [A [B C]]. cbn [twf t_all_clean negb andb]. rewrite A, B.
      split; [|reflexivity]. split; [exact Hl|]. split; [exact Hr|]. intros _. auto.
  Qed.

  Lemma kv_remove_mid (a b : kvmap) k vh : ~ In k (mkeys (a ++ b)) -> m_remove k (a ++ (k, vh) :: b) = a ++ b.
  Proof.
    intros Hn. rewrite m_remove_app. cbn [m_remove]. rewrite N.eqb_refl. rewrite <- m_remove_app.
    now apply m_remove_notin.
  Qed.

  Theorem step_refines o ot m :
    R ot m ->
    let '(ok1, ot1) := step1 H o ot in
    let '(ok0, m0) := step0 o m in
    ok1 = ok0 /\ R ot1 m0 /\ (ok1 = false -> ot1 = ot).
  Proof.
    intros HR. pose proof HR as [P [Hok Hw]].
    destruct o as [k v h loc|k|k v h|items| |]; cbn [step1].
    - (* insert *)
      destruct (m_mem k m) eqn:Ek.
      { apply m_mem_in in Ek. rewrite (step0_insert_rejected k v h loc m (or_introl Ek)).
        assert (E : forall l, t_insert H k v h l ot = (false, ot)) by (intros l; eapply t_insert_rejects; eauto).
        destruct loc; rewrite ?E; auto. }
      destruct (m_has_hash h m) eqn:Eh.
      { apply m_has_hash_in in Eh. rewrite (step0_insert_rejected k v h loc m (or_intror Eh)).
        assert (E : forall l, t_insert H k v h l ot = (false, ot)) by (intros l; eapply t_insert_rejects; eauto).
        destruct loc; rewrite ?E; auto. }
      unfold step0, apply0, m_insert. rewrite Ek, Eh. cbn [orb].
      apply m_mem_false in Ek. apply m_has_hash_false in Eh.
      destruct loc as [| |ref sd|].
      + destruct (t_insert_fresh k v h TAuto ot m HR Ek Eh I) as [t' [-> HR']].
        split; [reflexivity|split; [exact HR'|discriminate]].
      + destruct m as [|e m1].
        * destruct (t_insert_fresh k v h TRoot ot [] HR Ek Eh eq_refl) as [t' [-> HR']].
          split; [reflexivity|split; [exact HR'|discriminate]].
        * rewrite (t_insert_bad_loc k v h TRoot ot (e :: m1) HR); [auto|discriminate].
      + destruct (m_mem ref m) eqn:Er.
        * apply m_mem_in in Er.
          destruct (t_insert_fresh k v h (TKey ref sd) ot m HR Ek Eh Er) as [t' [-> HR']].
          split; [reflexivity|split; [exact HR'|discriminate]].
        * apply m_mem_false in Er. rewrite (t_insert_bad_loc k v h (TKey ref sd) ot m HR Er). auto.
      + auto.
    - (* delete *)
      unfold step0. cbn [apply0]. unfold t_delete. destruct (m_delete k m) as [m'|] eqn:Ed.
      + destruct (m_delete_ok _ _ _ Hok Ed) as [-> [Hin Hok']].
        destruct ot as [t|]; [|cbn [ot_kv] in P; apply Permutation_nil in P; subst m; destruct Hin].
        assert (Hkt : In k (tkeys t)) by (now apply (R_keys _ _ HR)).
        destruct (t_del k t) as [[t'|]|] eqn:Edel.
        * destruct (del_some _ _ _ Edel) as [a [b [vh [E1 E2]]]].
          split; [reflexivity|split; [|discriminate]].
          split; [|split; [exact Hok'|eapply del_twf; eauto]].
          cbn [ot_kv] in *. rewrite E2. pose proof (R_nodup _ _ HR) as Nd. unfold tkeys in Nd. rewrite E1 in Nd.
          apply nodup_split_notin in Nd.
          eapply Permutation_trans; [|apply m_remove_perm; exact P]. rewrite E1.
          now rewrite kv_remove_mid.
        * destruct (del_leaf _ _ Edel) as [v [h ->]]. cbn [ot_kv t_kv] in P.
          split; [reflexivity|split; [|discriminate]]. split; [|split; [exact Hok'|exact I]].
          cbn [ot_kv]. apply Permutation_length_1_inv in P. subst m. cbn [m_remove]. now rewrite N.eqb_refl.
        * apply del_none in Edel. contradiction.
      + unfold m_delete in Ed. destruct (m_mem k m) eqn:Ek; [discriminate|]. apply m_mem_false in Ek.
        destruct ot as [t|]; [|auto].
        assert (Hn : ~ In k (tkeys t)) by (intros Hin; apply Ek; now apply (R_keys _ _ HR)).
        apply del_none in Hn. rewrite Hn. auto.
    - (* upsert *)
      unfold step0. cbn [apply0]. unfold t_upsert, m_upsert.
      destruct ot as [t|].
      + cbn [ot_kv] in P. rewrite (m_mem_perm k _ _ P), (m_hash_of_other_perm k h _ _ P). destruct (m_mem k m) eqn:Ek.
        * destruct (m_hash_of_other k h m) eqn:Hkn; [auto|].
          assert (Eu : m_upsert k v h m = Some ((k, (v, h)) :: m_remove k m)).
          { unfold m_upsert. now rewrite Ek, Hkn. }
          destruct (m_upsert_present_ok _ _ _ _ _ Hok Ek Eu) as [_ [_ Hok']].
          apply m_mem_in in Ek. assert (Hkt : In k (tkeys t)) by (now apply (R_keys _ _ HR)).
          destruct (t_graft k (fun _ => TLeaf k v h) t) as [t'|] eqn:E; [|apply graft_none in E; contradiction].
          destruct (graft_some _ _ _ _ E) as [a [b [v0 [h0 [E1 E2]]]]].
          split; [reflexivity|split; [|discriminate]].
          split; [|split; [exact Hok'|eapply graft_twf; [exact Hw| |exact E]; intros; exact I]].
          cbn [ot_kv]. rewrite E2. cbn [t_kv app].
          pose proof (R_nodup _ _ HR) as Nd. unfold tkeys in Nd. rewrite E1 in Nd. apply nodup_split_notin in Nd.
          eapply Permutation_trans; [apply Permutation_sym; apply Permutation_middle|]. constructor.
          eapply Permutation_trans; [|apply m_remove_perm; exact P]. rewrite E1.
          now rewrite kv_remove_mid.
        * unfold m_insert. rewrite Ek. cbn [orb]. destruct (m_has_hash h m) eqn:Eh.
          -- apply m_has_hash_in in Eh. rewrite (t_insert_rejects k v h TAuto (Some t) m HR (or_intror Eh)). auto.
          -- apply m_mem_false in Ek. apply m_has_hash_false in Eh.
             destruct (t_insert_fresh k v h TAuto (Some t) m HR Ek Eh I) as [t' [-> HR']].
             split; [reflexivity|split; [exact HR'|discriminate]].
      + cbn [ot_kv] in P. apply Permutation_nil in P. subst m. cbn [m_mem m_get].
        destruct (t_insert_fresh k v h TAuto None [] HR) as [t' [-> HR']]; [intros []|intros []|exact I|].
        unfold m_insert. cbn. split; [reflexivity|split; [exact HR'|discriminate]].
    - (* batch *)
      unfold step0. cbn [apply0]. unfold t_batch.
      assert (Hext : m_batch items (ot_kv ot) = None <-> m_batch items m = None).
      { apply m_batch_ext; intros; [now apply m_mem_perm|now apply m_has_hash_perm]. }
      destruct (m_batch items m) as [m'|] eqn:Eb.
      + destruct (m_batch items (ot_kv ot)) eqn:Eb1; [|destruct Hext as [Hx _]; specialize (Hx eq_refl); discriminate].
        destruct (t_batch_R items ot m m' HR Eb) as [ot' [-> HR']].
        split; [reflexivity|split; [exact HR'|discriminate]].
      + destruct Hext as [_ Hx]. rewrite (Hx eq_refl). auto.
    - (* hash *)
      unfold step0. cbn [apply0]. split; [reflexivity|split; [|discriminate]].
      destruct ot as [t|]; cbn [option_map]; [|exact HR].
      split; [|split; [exact Hok|]].
      + cbn [ot_kv] in *. now rewrite rehash_kv.
      + cbn [owf] in *. now apply rehash_twf.
    - (* reload *)
      unfold step0. cbn [apply0]. split; [reflexivity|split; [exact HR|discriminate]].
  Qed.

  (* ---------- all histories ---------- *)
  Theorem history_refines ops : forall ot m,
    R ot m -> R (run1 H ops ot) (run0 ops m).
  Proof.
    induction ops as [|o r IH]; intros ot m HR; cbn [run1 run0]; [exact HR|].
    pose proof (step_refines o ot m HR) as Hs.
    destruct (step1 H o ot) as [ok1 ot1]. destruct (step0 o m) as [ok0 m0]. cbn [snd] in *.
    destruct Hs as [_ [HR' _]]. apply IH; assumption.
  Qed.

  Lemma R_empty : R None [].
  Proof. split; [reflexivity|]. split; [split; constructor|exact I]. Qed.

  (* ---------- root hash and proofs of inclusion ---------- *)
  Lemma clean_merkle t : twf t -> t_all_clean t = true -> t_hash t = merkle H t.
  Proof.
    induction t as [|hh d l IHl r IHr]; intros Hw Hc; [reflexivity|]. cbn [twf t_all_clean t_hash merkle] in *.
    destruct Hw as [Hl [Hr Hd]]. apply andb_prop in Hc as [Hc Hcr]. apply andb_prop in Hc as [Hd' Hcl].
    destruct d; [discriminate|]. destruct (Hd eq_refl) as [_ [_ ->]]. now rewrite IHl, IHr.
  Qed.

  Lemma merkle_rehash t : merkle H (t_rehash H t) = merkle H t.
  Proof.
    induction t as [|hh d l IHl r IHr]; [reflexivity|]. cbn [t_rehash]. destruct d; [|reflexivity].
    cbn [merkle]. now rewrite IHl, IHr.
  Qed.

  Theorem rehash_root t : twf t -> t_hash (t_rehash H t) = merkle H t.
  Proof.
    intros Hw. destruct (rehash_twf t Hw) as [A B]. rewrite (clean_merkle _ A B). apply merkle_rehash.
  Qed.

  Lemma proof_fold_app h a : forall b,
    proof_fold H h (a ++ b) = match proof_fold H h a with Some c => proof_fold H c b | None => None end.
  Proof.
    revert h. induction a as [|x a IH]; intros h b; cbn [app proof_fold]; [reflexivity|].
    destruct (bytes_eqb _ _); [apply IH|reflexivity].
  Qed.

  Lemma m_get_app k (a b : kvmap) :
    m_get k (a ++ b) = match m_get k a with Some x => Some x | None => m_get k b end.
  Proof.
    induction a as [|[k' vh] a IH]; cbn [app m_get]; [reflexivity|]. destruct (k =? k'); [reflexivity|exact IH].
  Qed.

  Lemma m_get_none k m : m_get k m = None <-> ~ In k (mkeys m).
  Proof.
    rewrite <- m_mem_false. unfold m_mem. destruct (m_get k m); split; congruence.
  Qed.

  Lemma path_none k t : t_path k t = None <-> ~ In k (tkeys t).
  Proof.
    unfold tkeys, mkeys. induction t as [k' v h|hh d l IHl r IHr]; cbn [t_path t_kv map fst In].
    - destruct (N.eqb_spec k' k) as [->|Hn]; split; try discriminate; try tauto.
    - rewrite map_app, in_app_iff. destruct (t_path k l) as [[nh ls]|]; [|destruct (t_path k r) as [[nh ls]|]].
      + split; [discriminate|]. intros Hn. exfalso. apply Hn. left.
        destruct (in_dec N.eq_dec k (map fst (t_kv l))) as [i|n]; [exact i|]. apply IHl in n. discriminate.
      + split; [discriminate|]. intros Hn. exfalso. apply Hn. right.
        destruct (in_dec N.eq_dec k (map fst (t_kv r))) as [i|n]; [exact i|]. apply IHr in n. discriminate.
      + split; [|reflexivity]. intros _ [Hi|Hi]; [now apply IHl in Hi|now apply IHr in Hi].
  Qed.

  (* the proof starts at the leaf hash the map holds for the key *)
  Lemma path_node_hash k t nh ls : t_path k t = Some (nh, ls) -> exists v, m_get k (t_kv t) = Some (v, nh).
  Proof.
    revert nh ls. induction t as [k' v h|hh d l IHl r IHr]; intros nh ls; cbn [t_path t_kv].
    - destruct (N.eqb_spec k' k) as [->|Hn]; [|discriminate]. intros [= <- <-]. exists v. cbn [m_get].
      now rewrite N.eqb_refl.
    - rewrite m_get_app. destruct (t_path k l) as [[nh1 ls1]|] eqn:El.
      + intros [= <- <-]. destruct (IHl _ _ eq_refl) as [v ->]. eauto.
      + apply path_none in El. apply m_get_none in El. rewrite El.
        destruct (t_path k r) as [[nh1 ls1]|] eqn:Er; [|discriminate]. intros [= <- <-]. exact (IHr _ _ eq_refl).
  Qed.

  Lemma root_hash_snoc nh ls x : proof_root_hash (mkProof nh (ls ++ [x])) = combined_hash x.
  Proof. unfold proof_root_hash. cbn [p_layers]. now rewrite rev_app_distr. Qed.

  Lemma path_valid t : twf t -> t_all_clean t = true -> forall k nh ls,
    t_path k t = Some (nh, ls) ->
    proof_fold H nh ls = Some (t_hash t) /\ proof_root_hash (mkProof nh ls) = t_hash t.
  Proof.
    induction t as [k' v h|hh d l IHl r IHr]; intros Hw Hc k nh ls; cbn [t_path].
    - destruct (k' =? k); [|discriminate]. intros [= <- <-]. cbn. auto.
    - cbn [twf t_all_clean] in *. destruct Hw as [Hl [Hr Hd]].
      apply andb_prop in Hc as [Hc Hcr]. apply andb_prop in Hc as [Hd' Hcl].
      destruct d; [discriminate|]. destruct (Hd eq_refl) as [_ [_ Ehh]].
      destruct (t_path k l) as [[nh1 ls1]|] eqn:El.
      + intros [= <- <-]. destruct (IHl Hl Hcl _ _ _ El) as [F _]. split; [|apply root_hash_snoc].
        rewrite proof_fold_app, F. cbn [proof_fold other_hash_side other_hash combined_hash calculate_internal_hash t_hash].
        rewrite <- Ehh, bytes_eqb_refl. reflexivity.
      + destruct (t_path k r) as [[nh1 ls1]|] eqn:Er; [|discriminate].
        intros [= <- <-]. destruct (IHr Hr Hcr _ _ _ Er) as [F _]. split; [|apply root_hash_snoc].
        rewrite proof_fold_app, F. cbn [proof_fold other_hash_side other_hash combined_hash calculate_internal_hash t_hash].
        rewrite <- Ehh, bytes_eqb_refl. reflexivity.
  Qed.

  Theorem proofs_valid t k : twf t -> t_all_clean t = true -> In k (tkeys t) ->
    exists p, t_proof k t = Some p /\ proof_valid H p = true /\ proof_root_hash p = t_hash t /\
              exists v, m_get k (t_kv t) = Some (v, p_node_hash p).
  Proof.
    intros Hw Hc Hin. unfold t_proof. destruct (t_path k t) as [[nh ls]|] eqn:E; [|apply path_none in E; contradiction].
    destruct (path_valid t Hw Hc _ _ _ E) as [F Rt]. exists (mkProof nh ls). split; [reflexivity|].
    split; [|split; [exact Rt|exact (path_node_hash _ _ _ _ E)]].
    unfold proof_valid. cbn [p_node_hash p_layers]. rewrite F, Rt. apply bytes_eqb_refl.
  Qed.

  (* ---------- history level: root and proofs after hashing ---------- *)
  Lemma run1_app a : forall b ot, run1 H (a ++ b) ot = run1 H b (run1 H a ot).
  Proof. induction a as [|o a IH]; intros b ot; cbn [app run1]; [reflexivity|apply IH]. Qed.
  Lemma run0_app a : forall b m, run0 (a ++ b) m = run0 b (run0 a m).
  Proof. induction a as [|o a IH]; intros b m; cbn [app run0]; [reflexivity|apply IH]. Qed.

  Lemma m_get_in (l : kvmap) k vh : NoDup (mkeys l) -> (m_get k l = Some vh <-> In (k, vh) l).
  Proof.
    induction l as [|[k' vh'] l IH]; cbn [m_get mkeys map fst In]; intros Hn.
    - split; [discriminate|tauto].
    - inversion Hn as [|? ? Hx Hn']; subst. destruct (N.eqb_spec k k') as [->|Hneq].
      + split; [intros [= ->]; now left|]. intros [[= ->]|Hin]; [reflexivity|].
        exfalso. apply Hx. apply in_map_iff. exists (k', vh). auto.
      + rewrite (IH Hn'). split; [auto|]. intros [[= -> _]|Hin]; [congruence|exact Hin].
  Qed.

  Lemma m_get_perm (a b : kvmap) k : Permutation a b -> NoDup (mkeys b) -> m_get k a = m_get k b.
  Proof.
    intros P Hn. assert (Hna : NoDup (mkeys a)).
    { unfold mkeys in *. eapply Permutation_NoDup; [apply Permutation_map; apply Permutation_sym; exact P|exact Hn]. }
    destruct (m_get k b) as [vh|] eqn:E.
    - apply (m_get_in _ _ _ Hn) in E. apply (m_get_in _ _ _ Hna). eapply Permutation_in; [apply Permutation_sym; exact P|exact E].
    - destruct (m_get k a) as [vh|] eqn:E2; [|reflexivity]. apply (m_get_in _ _ _ Hna) in E2.
      assert (In (k, vh) b) by (eapply Permutation_in; eauto). apply (m_get_in _ _ _ Hn) in H0. congruence.
  Qed.

  Theorem history_root_and_proofs ops :
    let m := run0 ops [] in
    match run1 H (ops ++ [THash]) None with
    | None => m = []
    | Some t =>
        Permutation (t_kv t) m /\ t_hash t = merkle H t /\
        forall k, m_mem k m = true ->
          exists p, t_proof k t = Some p /\ proof_valid H p = true /\ proof_root_hash p = t_hash t /\
                    exists v, m_get k m = Some (v, p_node_hash p)
    end.
  Proof.
    cbv zeta. rewrite run1_app. cbn [run1 step1 snd].
    pose proof (history_refines ops None [] R_empty) as [P [Hok Hw]].
    destruct (run1 H ops None) as [t|]; cbn [option_map].
    - cbn [ot_kv owf] in *. destruct (rehash_twf t Hw) as [Hw' Hc'].
      split; [now rewrite rehash_kv|]. split.
      + rewrite (clean_merkle _ Hw' Hc'). reflexivity.
      + intros k Hm. apply m_mem_in in Hm.
        assert (Hin : In k (tkeys (t_rehash H t))).
        { unfold tkeys. rewrite rehash_kv. unfold mkeys in *.
          eapply Permutation_in; [apply Permutation_map; apply Permutation_sym; exact P|exact Hm]. }
        destruct (proofs_valid _ k Hw' Hc' Hin) as [p [E1 [E2 [E3 [v E4]]]]].
        exists p. repeat split; auto. exists v. rewrite rehash_kv in E4.
        rewrite <- (m_get_perm _ _ k P (proj1 Hok)). exact E4.
    - cbn [ot_kv] in P. now apply Permutation_nil in P.
  Qed.
End TP.
