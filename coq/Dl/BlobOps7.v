(* Dl/BlobOps7.v — from the invariant to the observable content: get_keys_values returns exactly
   the plain map's key/value pairs. *)
From Coq Require Import Permutation.
From ChiaV.Base Require Import Bytes Sha256.
From ChiaV.Gen Require Import Dl.
From ChiaV.Dl Require Import Format Map Tree Blob Abs Inv History Spec FormatProofs MapProofs TreeProofs BlobLemmas BlobOps BlobOps2 BlobOps6.
Open Scope N_scope.

Lemma amap_get_of_in (m : list (N * N)) k i : NoDup (map fst m) -> In (k, i) m -> amap_get N.eqb k m = Some i.
Proof.
  induction m as [|[k0 i0] r IH]; cbn [map fst In amap_get]; [tauto|]. intros Hn. inversion Hn as [|? ? Hx Hn']; subst.
  intros [[= -> ->]|Hin]; [now rewrite N.eqb_refl|].
  destruct (N.eqb_spec k k0) as [->|]; [|auto]. exfalso. apply Hx. apply in_map_iff. exists (k0, i). auto.
Qed.

Section Content.
  Variable H : bytes -> bytes.

  Lemma leaf_block_at s t i k v h :
    Inv_tree H s t -> In (i, k, v, h) (it_leaves t) -> exists p, get_node s i = Ok (NLeaf (mkLeaf h p k v)).
  Proof.
    intros HI Hin. destruct (leaf_in_ctx _ _ Hin) as [c Et]. cbn in Et. subst t.
    destruct (inv_plug_facts H _ _ _ _ _ _ HI) as [Hg _]. exists (ctx_par c). unfold get_node, rbind. now rewrite Hg.
  Qed.

  Lemma kv_collect_ok s t : Inv_tree H s t -> forall l,
    (forall k i, In (k, i) l -> amap_get N.eqb k (k2i s) = Some i) ->
    exists r, kv_collect s l = Ok r /\ map fst r = map fst l /\
              forall k v, In (k, v) r -> exists i h, In (i, k, v, h) (it_leaves t).
  Proof.
    intros HI. induction l as [|[k i] l IH]; intros Hl; cbn [kv_collect].
    - exists []. repeat split. intros k v [].
    - assert (Hki : amap_get N.eqb k (k2i s) = Some i) by (apply Hl; now left).
      apply (inv_k2i _ _ _ HI) in Hki as [v [h Hin]].
      destruct (leaf_block_at s _ i k v h HI Hin) as [p Eg]. unfold rbind at 1. rewrite Eg.
      destruct IH as [r [Er [Ef Hr]]]; [intros k' i' Hx; apply Hl; now right|].
      rewrite Er. cbn [rbind l_value]. exists ((k, v) :: r). split; [reflexivity|]. split; [cbn; now rewrite Ef|].
      intros k' v' [[= <- <-]|Hx]; [eauto|now apply Hr].
  Qed.

  (* the key/value content of the blob is that of the plain map it refines *)
  Theorem content_is_map s ot m : Abs H s ot -> tree_refines H ot m -> content_is s m.
  Proof.
    intros Habs [P [[Hmk _] _]]. unfold content_is, get_keys_values.
    destruct Habs as [[-> ->]|[t [HI ->]]].
    - cbn [ot_kv] in P. apply Permutation_nil in P. subst m. exists []. repeat split; try constructor.
      + intros [].
      + intros [h0 E]. discriminate.
    - destruct (kv_collect_ok s t HI (k2i s)) as [r [Er [Ef Hr]]].
      { intros k i Hx. apply amap_get_of_in; [exact (inv_k2i_nodup _ _ _ HI)|exact Hx]. }
      exists r. split; [exact Er|]. split; [rewrite Ef; exact (inv_k2i_nodup _ _ _ HI)|].
      cbn [ot_kv] in P.
      assert (Hmg : forall k vh, m_get k m = Some vh <-> In (k, vh) (t_kv (erase t))).
      { intros k vh. rewrite (m_get_in m k vh Hmk). split; intros Hx; [eapply Permutation_in; [apply Permutation_sym; exact P|exact Hx]|eapply Permutation_in; eauto]. }
      intros k v. split.
      + intros Hx. destruct (Hr k v Hx) as [i [h Hin]]. exists h. apply Hmg. rewrite erase_kv. apply in_map_iff.
        exists (i, k, v, h). split; [reflexivity|exact Hin].
      + intros [h Hg]. apply Hmg in Hg. rewrite erase_kv in Hg. apply in_map_iff in Hg as [[[[i k0] v0] h0] [E Hin]].
        cbn in E. injection E as -> -> ->.
        assert (Hki : amap_get N.eqb k (k2i s) = Some i) by (apply (inv_k2i _ _ _ HI); eauto).
        assert (Hkin : In k (map fst r)) by (rewrite Ef; eapply amap_get_in; [exact N.eqb_spec|exact Hki]).
        apply in_map_iff in Hkin as [[k' v'] [E Hx]]. cbn in E. subst k'.
        destruct (Hr k v' Hx) as [i' [h' Hin']].
        pose proof (leaves_key_functional _ _ _ _ _ _ _ _ (inv_keys _ _ _ HI) Hin Hin') as Eq. injection Eq as _ <- _. exact Hx.
  Qed.

  Hypothesis Hlen : forall x, length (H x) = HASH_BYTES.

  Lemma Abs_abs s ot : Abs H s ot -> abs s = Some ot.
  Proof. intros [[-> ->]|[t [HI ->]]]; [reflexivity|now apply (Inv_tree_abs H)]. Qed.

  (* the end-to-end statement for histories of insert / delete / upsert *)
  Theorem blob_history_idu_content ops :
    Forall (fun o => is_idu o = true) ops -> Forall op_in_range ops -> rooms H ops empty_blob ->
    let '(s', m', fine) := run_joint H ops empty_blob [] in
    fine = true /\ exists ot', Abs H s' ot' /\ abs s' = Some ot' /\ tree_refines H ot' m' /\ content_is s' m'.
  Proof.
    intros Hi Hr Hro.
    pose proof (history_idu H Hlen ops empty_blob None [] (or_introl (conj eq_refl eq_refl)) (R_empty H) Hi Hr Hro) as Hh.
    destruct (run_joint H ops empty_blob []) as [[s' m'] fine]. destruct Hh as [Hf [ot' [HA HR]]].
    split; [exact Hf|]. exists ot'. split; [exact HA|]. split; [now apply Abs_abs|]. split; [exact HR|].
    eapply content_is_map; eauto.
  Qed.
End Content.
