(* Dl/BlobBatch.v — L2 -> L1: the accepted batch_insert.  Part 1: the forest invariant (main tree plus
   detached subtrees whose roots have parent None, whose indexes are outside the free list and whose leaves
   are already in the caches), index allocation over an arbitrary set of used indexes, batch_leaves. *)
From Coq Require Import Permutation.
From ChiaV.Base Require Import Bytes Sha256.
From ChiaV.Gen Require Import Dl.
From ChiaV.Dl Require Import Format Map Tree Blob Abs Inv History Spec FormatProofs MapProofs TreeProofs BlobLemmas BlobOps BlobOps2 BlobOps3 BlobHash BlobIntegrity.
From Coq Require Import ZifyBool ZifyNat ZifyN.
Ltac Zify.zify_post_hook ::= Z.div_mod_to_equations.
Open Scope N_scope.

(* ---------- allocation over a set of used indexes ---------- *)
Definition AllocU (s : mblob) (U : list N) (A : list N) : Prop :=
  NoDup (free s) /\
  (forall i, i < nblocks s -> (In i (free s) <-> ~ In i (U) /\ ~ In i A)) /\
  (forall i, In i (free s) -> i < nblocks s) /\
  (forall a, In a A -> a < nblocks s /\ ~ In a (U)) /\
  NoDup A /\
  (forall i, In i (U) -> i < nblocks s).


Lemma get_new_index_specU s U A :
  AllocU s U A -> blen_ok s ->
  exists a s1, get_new_index s = (Ok a, s1) /\ AllocU s1 U (a :: A) /\
    (forall j, j < nblocks s -> get_block s1 j = get_block s j) /\
    nblocks s <= nblocks s1 /\ nblocks s1 <= nblocks s + 1 /\ blen_ok s1 /\
    k2i s1 = k2i s /\ h2i s1 = h2i s /\ ~ In a (free s1).
Proof.
  intros [Hnd [Hiff [Hlt [HA [HndA Hidx]]]]] Hbl. unfold get_new_index. destruct (free s) as [|x r] eqn:Ef.
  - (* extend *)
    exists (extend_index s), (set_blocks s (blocks s ++ [zero_block])). split; [reflexivity|].
    assert (Hn1 : nblocks (set_blocks s (blocks s ++ [zero_block])) = nblocks s + 1).
    { unfold nblocks. cbn [blocks set_blocks]. rewrite app_length. cbn [length]. lia. }
    change (extend_index s) with (nblocks s).
    split; [|split; [|split; [lia|split; [lia|split; [|split; [reflexivity|split; [reflexivity|]]]]]]].
    + unfold AllocU. cbn [free set_blocks]. rewrite Ef. split; [constructor|]. split; [|split; [intros i []|split; [|split]]].
      * intros i Hi. rewrite Hn1 in Hi. cbn [In]. split; [tauto|]. intros [Hni HnA].
        destruct (N.eq_dec i (nblocks s)) as [->|Hne]; [apply HnA; now left|].
        assert (Hi' : i < nblocks s) by lia. apply (Hiff i Hi'). split; [exact Hni|]. intros Hx. apply HnA. now right.
      * intros a [<-|Ha]; rewrite Hn1.
        -- split; [lia|]. intros Hx. apply Hidx in Hx. lia.
        -- destruct (HA a Ha). split; [lia|assumption].
      * constructor; [|exact HndA]. intros Hx. apply HA in Hx. lia.
      * intros i Hi. rewrite Hn1. apply Hidx in Hi. lia.
    + intros j Hj. unfold get_block, blocks_get. cbn [blocks set_blocks]. unfold nblocks in Hj.
      rewrite nth_error_app1 by lia. reflexivity.
    + unfold blen_ok. cbn [blocks set_blocks]. apply Forall_app. split; [exact Hbl|]. constructor; [apply zero_block_length|constructor].
    + cbn [free set_blocks]. rewrite Ef. intros [].
  - (* pop the first free index *)
    exists x, (set_free s (free_remove x (x :: r))). split; [reflexivity|].
    rewrite <- Ef in Hnd, Hiff, Hlt.
    assert (Hx : In x (free s)) by (rewrite Ef; now left).
    assert (Hxlt : x < nblocks s) by (now apply Hlt).
    destruct (proj1 (Hiff x Hxlt) Hx) as [Hxi HxA].
    assert (Hn1 : nblocks (set_free s (free_remove x (x :: r))) = nblocks s) by reflexivity.
    split; [|split; [reflexivity|split; [rewrite Hn1; lia|split; [rewrite Hn1; lia|split; [exact Hbl|split; [reflexivity|split; [reflexivity|]]]]]]].
    + unfold AllocU. cbn [free set_free]. rewrite Hn1. rewrite <- Ef.
      split; [now apply free_remove_nodup|]. split; [|split; [|split; [|split]]].
      * intros i Hi. rewrite free_remove_in, (Hiff i Hi). cbn [In]. split.
        -- intros [[A1 A2] A3]. split; [exact A1|]. intros [E|E]; [congruence|contradiction].
        -- intros [A1 A2]. split; [split; [exact A1|]|]; intros E; apply A2; [now right|now left].
      * intros i Hi. apply free_remove_in in Hi as [Hi _]. now apply Hlt.
      * intros a [<-|Ha]; [split; assumption|now apply HA].
      * constructor; assumption.
      * exact Hidx.
    + cbn [free set_free]. rewrite <- Ef. intros Hc. apply free_remove_in in Hc as [_ Hc]. congruence.
Qed.
(* ---------- the forest invariant ---------- *)
Definition fidx (F : list itree) : list N := flat_map it_indices F.
Definition fleaves (F : list itree) : list (N * N * N * bytes) := flat_map it_leaves F.
Definition lkey (x : N * N * N * bytes) : N := snd (fst (fst x)).

Lemma fidx_app a b : fidx (a ++ b) = fidx a ++ fidx b.
Proof. apply flat_map_app. Qed.
Lemma fleaves_app a b : fleaves (a ++ b) = fleaves a ++ fleaves b.
Proof. apply flat_map_app. Qed.

Lemma flat_map_perm {A B} (f : A -> list B) l l' : Permutation l l' -> Permutation (flat_map f l) (flat_map f l').
Proof.
  induction 1; cbn [flat_map]; [constructor|now apply Permutation_app_head| |eapply Permutation_trans; eauto].
  rewrite !app_assoc. apply Permutation_app_tail. apply Permutation_app_comm.
Qed.

Section ForestH.
  Variable H : bytes -> bytes.

  Record Forest (s : mblob) (t : itree) (F : list itree) : Prop := {
    f_rep : rep s None t;
    f_root : it_index t = 0;
    f_reps : Forall (rep s None) F;
    f_nodup : NoDup (it_indices t ++ fidx F);
    f_bound : nblocks s <= 2 ^ 32;
    f_blen : blen_ok s;
    f_free_nodup : NoDup (free s);
    f_free : forall i, i < nblocks s -> (In i (free s) <-> ~ In i (it_indices t ++ fidx F));
    f_free_lt : forall i, In i (free s) -> i < nblocks s;
    f_k2i : forall k i, amap_get N.eqb k (k2i s) = Some i <-> exists v h, In (i, k, v, h) (it_leaves t ++ fleaves F);
    f_h2i : forall h i, amap_get bytes_eqb h (h2i s) = Some i <-> exists k v, In (i, k, v, h) (it_leaves t ++ fleaves F);
    f_k2i_nodup : NoDup (map fst (k2i s));
    f_h2i_nodup : NoDup (map fst (h2i s));
    f_keys : NoDup (map lkey (it_leaves t ++ fleaves F));
    f_hashes : NoDup (map snd (it_leaves t ++ fleaves F));
    f_ranges : it_ranges t /\ Forall it_ranges F;
    f_twf : twf H (erase t) /\ Forall (fun f => sub_ok H (erase f)) F
  }.

  Lemma Forest_of_inv s t : Inv_tree H s t -> Forest s t [].
  Proof.
    intros [Hrep Hroot Hnd Hbound Hblen Hfnd Hfree Hflt Hk2i Hh2i Hkn Hhn Hkeys Hhashes Hranges Htwf].
    constructor; cbn [fidx fleaves flat_map]; rewrite ?app_nil_r; auto.
  Qed.

  Lemma Inv_of_forest s t : Forest s t [] -> Inv_tree H s t.
  Proof.
    intros [Hrep Hroot Hreps Hnd Hbound Hblen Hfnd Hfree Hflt Hk2i Hh2i Hkn Hhn Hkeys Hhashes [Hranges _] [Htwf _]].
    cbn [fidx fleaves flat_map] in *. rewrite ?app_nil_r in *. constructor; auto.
  Qed.

  Lemma Forest_perm s t F F' : Permutation F F' -> Forest s t F -> Forest s t F'.
  Proof.
    intros P [Hrep Hroot Hreps Hnd Hbound Hblen Hfnd Hfree Hflt Hk2i Hh2i Hkn Hhn Hkeys Hhashes [Hranges HrF] [Htwf HtF]].
    assert (Pi : Permutation (it_indices t ++ fidx F) (it_indices t ++ fidx F')) by (apply Permutation_app_head; now apply flat_map_perm).
    assert (Pl : Permutation (it_leaves t ++ fleaves F) (it_leaves t ++ fleaves F')) by (apply Permutation_app_head; now apply flat_map_perm).
    constructor; auto.
    - eapply Permutation_Forall; eauto.
    - eapply Permutation_NoDup; eauto.
    - intros i Hi. rewrite (Hfree i Hi). now rewrite (in_perm_iff _ _ i Pi).
    - intros k i. rewrite Hk2i. split; intros [v [h Hx]]; exists v, h; [apply (in_perm_iff _ _ _ Pl)|apply (in_perm_iff _ _ _ Pl)]; exact Hx.
    - intros h i. rewrite Hh2i. split; intros [k [v Hx]]; exists k, v; [apply (in_perm_iff _ _ _ Pl)|apply (in_perm_iff _ _ _ Pl)]; exact Hx.
    - eapply Permutation_NoDup; [apply Permutation_map; exact Pl|exact Hkeys].
    - eapply Permutation_NoDup; [apply Permutation_map; exact Pl|exact Hhashes].
    - split; [exact Hranges|eapply Permutation_Forall; eauto].
    - split; [exact Htwf|eapply Permutation_Forall; eauto].
  Qed.
End ForestH.

(* adding one entry to a cache that is exactly a set of leaves *)
Lemma k_add (m : list (N * N)) (L : list (N * N * N * bytes)) a k v0 h0 :
  (forall k' i, amap_get N.eqb k' m = Some i <-> exists v h, In (i, k', v, h) L) ->
  ~ In k (map lkey L) ->
  forall k' i, amap_get N.eqb k' (amap_set N.eqb k a m) = Some i <-> exists v h, In (i, k', v, h) (L ++ [(a, k, v0, h0)]).
Proof.
  intros Hm Hk k' i. rewrite (amap_get_set N.eqb N.eqb_spec). destruct (N.eqb_spec k' k) as [->|Hne].
  - split.
    + intros [= <-]. exists v0, h0. apply in_app_iff. right. now left.
    + intros [v [h Hx]]. apply in_app_iff in Hx as [Hx|[Hx|[]]]; [|congruence].
      exfalso. apply Hk. apply in_map_iff. exists (i, k, v, h). auto.
  - rewrite Hm. split; intros [v [h Hx]]; exists v, h.
    + apply in_app_iff. now left.
    + apply in_app_iff in Hx as [Hx|[Hx|[]]]; [exact Hx|congruence].
Qed.

Lemma h_add (m : list (bytes * N)) (L : list (N * N * N * bytes)) a k0 v0 h :
  (forall h' i, amap_get bytes_eqb h' m = Some i <-> exists k v, In (i, k, v, h') L) ->
  ~ In h (map snd L) ->
  forall h' i, amap_get bytes_eqb h' (amap_set bytes_eqb h a m) = Some i <-> exists k v, In (i, k, v, h') (L ++ [(a, k0, v0, h)]).
Proof.
  intros Hm Hh h' i. rewrite (amap_get_set bytes_eqb bytes_eqb_spec). destruct (bytes_eqb_spec h' h) as [->|Hne].
  - split.
    + intros [= <-]. exists k0, v0. apply in_app_iff. right. now left.
    + intros [k [v Hx]]. apply in_app_iff in Hx as [Hx|[Hx|[]]]; [|congruence].
      exfalso. apply Hh. apply in_map_iff. exists (i, k, v, h). auto.
  - rewrite Hm. split; intros [k [v Hx]]; exists k, v.
    + apply in_app_iff. now left.
    + apply in_app_iff in Hx as [Hx|[Hx|[]]]; [exact Hx|congruence].
Qed.

(* ---------- batch_leaves ---------- *)
Definition ikeys (items : list item) : list N := map (fun it => fst (fst it)) items.
Definition ihashes (items : list item) : list bytes := map (fun it => snd it) items.
Definition item_range (it : item) : Prop := in_range (fst (fst it)) (snd (fst it)) (snd it).

Section Leaves.
  Variable H : bytes -> bytes.

  Lemma leaf_step s t F k v h :
    Forest H s t F -> in_range k v h ->
    ~ In k (map lkey (it_leaves t ++ fleaves F)) -> ~ In h (map snd (it_leaves t ++ fleaves F)) ->
    nblocks s + 1 <= 2 ^ 32 ->
    exists a s1 s2, get_new_index s = (Ok a, s1) /\
      insert_entry_to_blob a (leaf_block (mkLeaf h None k v)) s1 = (Ok tt, s2) /\
      Forest H s2 t (F ++ [ILeaf a k v h]) /\ nblocks s2 <= nblocks s + 1.
  Proof.
    intros HF [Hk [Hv Hh]] Hkf Hhf Hroom.
    destruct HF as [Hrep Hroot Hreps Hnd Hbound Hblen Hfnd Hfree Hflt Hk2i Hh2i Hkn Hhn Hkeys Hhashes [Hranges HrF] [Htwf HtF]].
    set (U := it_indices t ++ fidx F) in *. set (L := it_leaves t ++ fleaves F) in *.
    assert (HU_lt : forall i, In i U -> i < nblocks s).
    { intros i Hi. unfold U in Hi. apply in_app_iff in Hi as [Hi|Hi]; [exact (rep_indices_lt _ _ _ Hrep i Hi)|].
      unfold fidx in Hi. apply in_flat_map in Hi as [f [Hf Hi]]. rewrite Forall_forall in Hreps.
      exact (rep_indices_lt _ _ _ (Hreps f Hf) i Hi). }
    assert (HA0 : AllocU s U []).
    { unfold AllocU. split; [exact Hfnd|]. split; [|split; [exact Hflt|split; [intros a []|split; [constructor|exact HU_lt]]]].
      intros i Hi. rewrite (Hfree i Hi). cbn [In]. tauto. }
    destruct (get_new_index_specU s U [] HA0 Hblen) as [a [s1 [Ea [HA1 [Hget1 [Hn1a [Hn1b [Hbl1 [Hk1 [Hh1 Hfa1]]]]]]]]]].
    destruct HA1 as [Hfnd1 [Hiff1 [Hflt1 [HAA1 [_ HU_lt1]]]]].
    destruct (HAA1 a (or_introl eq_refl)) as [Ha_lt Ha_U].
    set (nb := leaf_block (mkLeaf h None k v)).
    assert (Hwb : wf_block nb) by (unfold nb, leaf_block, wf_block, wf_node, wf_leaf; cbn; auto).
    destruct (insert_entry_spec a nb s1 Hwb) as [s2 [E2 [Hget2 [Hn2 [Hbl2 [Hf2 [Hk2 Hh2]]]]]]]; [lia|exact Hbl1|].
    assert (Hn2' : nblocks s2 = nblocks s1) by (rewrite Hn2; destruct (N.eqb_spec a (nblocks s1)); [lia|reflexivity]).
    assert (Hf2' : free s2 = free s1) by (rewrite Hf2; now apply free_remove_notin).
    cbn [nb leaf_block b_node l_key l_hash] in Hk2, Hh2.
    assert (Hget02 : forall j, In j U -> get_block s2 j = get_block s j).
    { intros j Hj. rewrite Hget2. destruct (N.eqb_spec j a) as [->|]; [contradiction|]. apply Hget1. now apply HU_lt. }
    exists a, s1, s2. split; [exact Ea|]. split; [exact E2|]. split; [|lia].
    assert (EU : it_indices t ++ fidx (F ++ [ILeaf a k v h]) = U ++ [a]).
    { rewrite fidx_app. unfold U. cbn [fidx flat_map it_indices]. now rewrite app_nil_r, app_assoc. }
    assert (EL : it_leaves t ++ fleaves (F ++ [ILeaf a k v h]) = L ++ [(a, k, v, h)]).
    { rewrite fleaves_app. unfold L. cbn [fleaves flat_map it_leaves]. now rewrite app_nil_r, app_assoc. }
    constructor; rewrite ?EU, ?EL.
    - eapply rep_frame; [|exact Hrep]. intros j Hj. apply Hget02. unfold U. apply in_app_iff. now left.
    - exact Hroot.
    - apply Forall_app. split.
      + rewrite Forall_forall in *. intros f Hf. eapply rep_frame; [|exact (Hreps f Hf)]. intros j Hj. apply Hget02.
        unfold U. apply in_app_iff. right. unfold fidx. apply in_flat_map. eauto.
      + constructor; [|constructor]. constructor. rewrite Hget2, N.eqb_refl. reflexivity.
    - apply NoDup_app_intro; [exact Hnd|constructor; [intros []|constructor]|]. intros x Hx [<-|[]]. contradiction.
    - lia.
    - exact Hbl2.
    - rewrite Hf2'. exact Hfnd1.
    - intros i Hi. rewrite Hn2' in Hi. rewrite Hf2', (Hiff1 i Hi), in_app_iff. cbn [In]. tauto.
    - intros i Hi. rewrite Hf2' in Hi. rewrite Hn2'. now apply Hflt1.
    - rewrite Hk2, Hk1. apply k_add; assumption.
    - rewrite Hh2, Hh1. apply h_add; assumption.
    - rewrite Hk2, Hk1. apply amap_set_nodup; [exact N.eqb_spec|exact Hkn].
    - rewrite Hh2, Hh1. apply amap_set_nodup; [exact bytes_eqb_spec|exact Hhn].
    - rewrite map_app. cbn [map lkey fst snd]. apply NoDup_app_intro; [exact Hkeys|constructor; [intros []|constructor]|].
      intros x Hx [<-|[]]. contradiction.
    - rewrite map_app. cbn [map snd]. apply NoDup_app_intro; [exact Hhashes|constructor; [intros []|constructor]|].
      intros x Hx [<-|[]]. contradiction.
    - split; [exact Hranges|]. apply Forall_app. split; [exact HrF|]. constructor; [cbn; auto|constructor].
    - split; [exact Htwf|]. apply Forall_app. split; [exact HtF|]. constructor; [split; cbn; auto|constructor].
  Qed.

  Lemma batch_leaves_ok t : forall items s F,
    Forest H s t F -> Forall item_range items ->
    NoDup (map lkey (it_leaves t ++ fleaves F) ++ ikeys items) ->
    NoDup (map snd (it_leaves t ++ fleaves F) ++ ihashes items) ->
    nblocks s + N.of_nat (length items) <= 2 ^ 32 ->
    exists s' F', batch_leaves items s = (Ok (map it_index F'), s') /\ Forest H s' t (F ++ F') /\
      map erase F' = map (fun '(k, v, h) => TLeaf k v h) items /\
      nblocks s' <= nblocks s + N.of_nat (length items).
  Proof.
    induction items as [|[[k v] h] r IH]; intros s F HF Hrg Nk Nh Hroom.
    - exists s, []. split; [reflexivity|]. split; [now rewrite app_nil_r|]. split; [reflexivity|]. cbn [length]. lia.
    - inversion Hrg as [|? ? Hr Hrg']; subst. cbn [ikeys ihashes map fst snd] in Nk, Nh.
      destruct (leaf_step s t F k v h HF Hr) as [a [s1 [s2 [Ea [E2 [HF2 Hn2]]]]]].
      { apply NoDup_remove_2 in Nk. intros Hx. apply Nk. apply in_app_iff. now left. }
      { apply NoDup_remove_2 in Nh. intros Hx. apply Nh. apply in_app_iff. now left. }
      { cbn [length] in Hroom. lia. }
      destruct (IH s2 (F ++ [ILeaf a k v h]) HF2 Hrg') as [s' [F' [E [HF' [Ee Hn']]]]].
      { rewrite fleaves_app. cbn [fleaves flat_map it_leaves]. rewrite app_nil_r, app_assoc, map_app. cbn [map lkey fst snd].
        rewrite <- app_assoc. cbn [app]. exact Nk. }
      { rewrite fleaves_app. cbn [fleaves flat_map it_leaves]. rewrite app_nil_r, app_assoc, map_app. cbn [map snd].
        rewrite <- app_assoc. cbn [app]. exact Nh. }
      { cbn [length] in Hroom. lia. }
      exists s', (ILeaf a k v h :: F'). split; [|split; [|split]].
      + cbn [batch_leaves]. unfold bind at 1. rewrite Ea. unfold bind at 1. rewrite E2. unfold bind at 1. rewrite E. reflexivity.
      + rewrite <- app_assoc in HF'. exact HF'.
      + cbn [map erase]. now rewrite Ee.
      + cbn [length] in *. lia.
  Qed.
End Leaves.

(* ---------- one pairing step of batch_level ---------- *)
Lemma root_block_hash t p : node_hash (b_node (root_block t p)) = it_hash t.
Proof. destruct t; reflexivity. Qed.

Section Pair.
  Variable H : bytes -> bytes.
  Hypothesis Hlen : forall x, length (H x) = HASH_BYTES.

  Definition pair_node (ni : N) (x y : itree) : itree :=
    INode ni (internal_hash H (it_hash x) (it_hash y)) false x y.

  Lemma pair_step s t x y G :
    Forest H s t (x :: y :: G) -> nblocks s + 1 <= 2 ^ 32 ->
    exists ni s1 s2 s3 s4,
      get_new_index s = (Ok ni, s1) /\
      update_parent (it_index x) (Some ni) s1 = (Ok (root_block x (Some ni)), s2) /\
      update_parent (it_index y) (Some ni) s2 = (Ok (root_block y (Some ni)), s3) /\
      insert_entry_to_blob ni
        (mkBlock false (NInt (mkInode (internal_hash H (it_hash x) (it_hash y)) None (it_index x) (it_index y)))) s3 = (Ok tt, s4) /\
      Forest H s4 t (pair_node ni x y :: G) /\ nblocks s4 <= nblocks s + 1.
  Proof.
    intros HF Hroom.
    destruct HF as [Hrep Hroot Hreps Hnd Hbound Hblen Hfnd Hfree Hflt Hk2i Hh2i Hkn Hhn Hkeys Hhashes [Hranges HrF] [Htwf HtF]].
    set (U := it_indices t ++ fidx (x :: y :: G)) in *. set (L := it_leaves t ++ fleaves (x :: y :: G)) in *.
    inversion Hreps as [|? ? Hrx Hreps1]; subst. inversion Hreps1 as [|? ? Hry HrepsG]; subst.
    inversion HrF as [|? ? Hrgx HrF1]; subst. inversion HrF1 as [|? ? Hrgy HrG]; subst.
    inversion HtF as [|? ? [Htx Hcx] HtF1]; subst. inversion HtF1 as [|? ? [Hty Hcy] HtG]; subst.
    assert (HU_lt : forall i, In i U -> i < nblocks s).
    { intros i Hi. unfold U in Hi. apply in_app_iff in Hi as [Hi|Hi]; [exact (rep_indices_lt _ _ _ Hrep i Hi)|].
      unfold fidx in Hi. apply in_flat_map in Hi as [f [Hf Hi]]. rewrite Forall_forall in Hreps.
      exact (rep_indices_lt _ _ _ (Hreps f Hf) i Hi). }
    assert (HA0 : AllocU s U []).
    { unfold AllocU. split; [exact Hfnd|]. split; [|split; [exact Hflt|split; [intros a []|split; [constructor|exact HU_lt]]]].
      intros i Hi. rewrite (Hfree i Hi). cbn [In]. tauto. }
    destruct (get_new_index_specU s U [] HA0 Hblen) as [ni [s1 [Ea [HA1 [Hget1 [Hn1a [Hn1b [Hbl1 [Hk1 [Hh1 Hfa1]]]]]]]]]].
    destruct HA1 as [Hfnd1 [Hiff1 [Hflt1 [HAA1 [_ HU_lt1]]]]].
    destruct (HAA1 ni (or_introl eq_refl)) as [Hni_lt Hni_U].
    (* index bookkeeping *)
    assert (EU : U = it_indices t ++ it_indices x ++ it_indices y ++ fidx G).
    { unfold U. cbn [fidx flat_map]. reflexivity. }
    assert (Hx_U : forall j, In j (it_indices x) -> In j U) by (intros j Hj; rewrite EU; apply in_app_iff; right; apply in_app_iff; now left).
    assert (Hy_U : forall j, In j (it_indices y) -> In j U) by (intros j Hj; rewrite EU; apply in_app_iff; right; apply in_app_iff; right; apply in_app_iff; now left).
    rewrite EU in Hnd. destruct (NoDup_app_inv _ _ Hnd) as [Hnd_t [Hnd_xyG Hdis_t]].
    destruct (NoDup_app_inv _ _ Hnd_xyG) as [Hnd_x [Hnd_yG Hdis_x]].
    destruct (NoDup_app_inv _ _ Hnd_yG) as [Hnd_y [Hnd_G Hdis_y]].
    assert (Hnot_free1 : forall j, In j U -> ~ In j (free s1)).
    { intros j Hj Hx. assert (Hl : j < nblocks s1) by (apply HU_lt1; exact Hj). apply (Hiff1 j Hl) in Hx as [Hx _]. contradiction. }
    assert (Hxy : forall j, In j (it_indices x) -> In j (it_indices y) -> False).
    { intros j Hj1 Hj2. apply (Hdis_x j Hj1). apply in_app_iff. now left. }
    (* the two children get the new parent *)
    assert (Hrx1 : rep s1 None x).
    { eapply rep_frame; [|exact Hrx]. intros j Hj. apply Hget1. apply HU_lt. now apply Hx_U. }
    assert (Hpni : wf_parent (Some ni)) by (cbn; lia).
    assert (Hb1 : nblocks s1 <= 2 ^ 32) by lia.
    assert (Hx_lt1 : forall j, In j (it_indices x) -> j < nblocks s1) by (intros j Hj; apply HU_lt1; now apply Hx_U).
    assert (Hx_fr1 : ~ In (it_index x) (free s1)) by (apply Hnot_free1, Hx_U, it_index_in).
    destruct (update_parent_spec s1 None (Some ni) x Hrx1 Hrgx Hx_lt1 Hb1 Hpni Hbl1 Hx_fr1) as [s2 [E2 [Hget2 [Hn2 [Hbl2 [Hf2 [Hk2 Hh2]]]]]]].
    assert (Hry2 : rep s2 None y).
    { eapply rep_frame; [|exact Hry]. intros j Hj. rewrite Hget2. destruct (N.eqb_spec j (it_index x)) as [->|].
      - exfalso. exact (Hxy _ (it_index_in x) Hj).
      - apply Hget1. apply HU_lt. now apply Hy_U. }
    assert (Hb2 : nblocks s2 <= 2 ^ 32) by lia.
    assert (Hy_lt2 : forall j, In j (it_indices y) -> j < nblocks s2) by (intros j Hj; rewrite Hn2; apply HU_lt1; now apply Hy_U).
    assert (Hy_fr2 : ~ In (it_index y) (free s2)) by (rewrite Hf2; apply Hnot_free1, Hy_U, it_index_in).
    destruct (update_parent_spec s2 None (Some ni) y Hry2 Hrgy Hy_lt2 Hb2 Hpni Hbl2 Hy_fr2) as [s3 [E3 [Hget3 [Hn3 [Hbl3 [Hf3 [Hk3 Hh3]]]]]]].
    (* the new internal node *)
    set (hh := internal_hash H (it_hash x) (it_hash y)).
    set (nb := mkBlock false (NInt (mkInode hh None (it_index x) (it_index y)))).
    assert (Hwb : wf_block nb).
    { unfold nb, wf_block, wf_node, wf_inode. cbn. split; [apply Hlen|]. split; [exact I|].
      assert (it_index x < nblocks s) by (apply HU_lt, Hx_U, it_index_in).
      assert (it_index y < nblocks s) by (apply HU_lt, Hy_U, it_index_in). split; lia. }
    destruct (insert_entry_spec ni nb s3 Hwb) as [s4 [E4 [Hget4 [Hn4 [Hbl4 [Hf4 [Hk4 Hh4]]]]]]]; [lia|exact Hbl3|].
    assert (Hn4' : nblocks s4 = nblocks s1) by (rewrite Hn4, Hn3, Hn2; destruct (N.eqb_spec ni (nblocks s1)); [lia|reflexivity]).
    assert (Hf4' : free s4 = free s1) by (rewrite Hf4, Hf3, Hf2; now apply free_remove_notin).
    cbn [nb b_node] in Hk4, Hh4.
    exists ni, s1, s2, s3, s4. split; [exact Ea|]. split; [exact E2|]. split; [exact E3|]. split; [exact E4|]. split; [|lia].
    (* reading s4 *)
    assert (Hget04 : forall j, In j U -> j <> it_index x -> j <> it_index y -> get_block s4 j = get_block s j).
    { intros j Hj J1 J2. rewrite Hget4. destruct (N.eqb_spec j ni) as [->|]; [contradiction|]. rewrite Hget3.
      destruct (N.eqb_spec j (it_index y)); [congruence|]. rewrite Hget2. destruct (N.eqb_spec j (it_index x)); [congruence|].
      apply Hget1. now apply HU_lt. }
    assert (Hix_ni : it_index x <> ni) by (intros E; apply Hni_U; rewrite <- E; apply Hx_U, it_index_in).
    assert (Hiy_ni : it_index y <> ni) by (intros E; apply Hni_U; rewrite <- E; apply Hy_U, it_index_in).
    assert (Hixy : it_index x <> it_index y) by (intros E; apply (Hxy (it_index x)); [apply it_index_in|rewrite E; apply it_index_in]).
    assert (Hrx4 : rep s4 (Some ni) x).
    { eapply (rep_reparent s s4 None (Some ni)); [exact Hrx|exact Hnd_x| |].
      - rewrite Hget4. destruct (N.eqb_spec (it_index x) ni); [congruence|]. rewrite Hget3.
        destruct (N.eqb_spec (it_index x) (it_index y)); [congruence|]. rewrite Hget2, N.eqb_refl. reflexivity.
      - intros j Hj Hne. apply Hget04; [now apply Hx_U|exact Hne|]. intros ->. exact (Hxy _ Hj (it_index_in y)). }
    assert (Hry4 : rep s4 (Some ni) y).
    { eapply (rep_reparent s s4 None (Some ni)); [exact Hry|exact Hnd_y| |].
      - rewrite Hget4. destruct (N.eqb_spec (it_index y) ni); [congruence|]. rewrite Hget3, N.eqb_refl. reflexivity.
      - intros j Hj Hne. apply Hget04; [now apply Hy_U| |exact Hne]. intros ->. exact (Hxy _ (it_index_in x) Hj). }
    assert (EU' : Permutation (it_indices t ++ fidx (pair_node ni x y :: G)) (ni :: U)).
    { rewrite EU. cbn [fidx flat_map pair_node it_indices]. fold (fidx G). cbn [app]. rewrite <- app_assoc.
      symmetry. apply Permutation_middle. }
    assert (EL' : it_leaves t ++ fleaves (pair_node ni x y :: G) = L).
    { unfold L. cbn [fleaves flat_map pair_node it_leaves]. now rewrite <- app_assoc. }
    (* caches are pointwise unchanged *)
    assert (HkL : forall i k v h, In (i, k, v, h) L -> amap_get N.eqb k (k2i s) = Some i) by (intros; apply Hk2i; eauto).
    assert (HhL : forall i k v h, In (i, k, v, h) L -> amap_get bytes_eqb h (h2i s) = Some i) by (intros; apply Hh2i; eauto).
    assert (Hx_L : forall z, In z (it_leaves x) -> In z L) by (intros z Hz; unfold L; cbn [fleaves flat_map]; apply in_app_iff; right; apply in_app_iff; now left).
    assert (Hy_L : forall z, In z (it_leaves y) -> In z L) by (intros z Hz; unfold L; cbn [fleaves flat_map]; apply in_app_iff; right; apply in_app_iff; right; apply in_app_iff; now left).
    assert (Hk4' : forall k', amap_get N.eqb k' (k2i s4) = amap_get N.eqb k' (k2i s)).
    { intros k'. rewrite Hk4, Hk3, Hk2, Hk1. rewrite root_k2i_same.
      - apply root_k2i_same. intros i k v h ->. eapply HkL. apply Hx_L. cbn. now left.
      - intros i k v h ->. rewrite root_k2i_same; [eapply HkL; apply Hy_L; cbn; now left|].
        intros i0 k0 v0 h0 ->. eapply HkL. apply Hx_L. cbn. now left. }
    assert (Hh4' : forall h', amap_get bytes_eqb h' (h2i s4) = amap_get bytes_eqb h' (h2i s)).
    { intros h'. rewrite Hh4, Hh3, Hh2, Hh1. rewrite root_h2i_same.
      - apply root_h2i_same. intros i k v h ->. eapply HhL. apply Hx_L. cbn. now left.
      - intros i k v h ->. rewrite root_h2i_same; [eapply HhL; apply Hy_L; cbn; now left|].
        intros i0 k0 v0 h0 ->. eapply HhL. apply Hx_L. cbn. now left. }
    constructor; rewrite ?EL'.
    - eapply rep_frame; [|exact Hrep]. intros j Hj. apply Hget04.
      + rewrite EU. apply in_app_iff. now left.
      + intros ->. apply (Hdis_t _ Hj). apply in_app_iff. left. apply it_index_in.
      + intros ->. apply (Hdis_t _ Hj). apply in_app_iff. right. apply in_app_iff. left. apply it_index_in.
    - exact Hroot.
    - constructor.
      + unfold pair_node. constructor; [|exact Hrx4|exact Hry4]. rewrite Hget4, N.eqb_refl. reflexivity.
      + rewrite Forall_forall in *. intros f Hf. eapply rep_frame; [|exact (HrepsG f Hf)]. intros j Hj.
        assert (HjG : In j (fidx G)) by (unfold fidx; apply in_flat_map; eauto).
        apply Hget04.
        * rewrite EU. apply in_app_iff. right. apply in_app_iff. right. apply in_app_iff. now right.
        * intros ->. apply (Hdis_x _ (it_index_in x)). apply in_app_iff. now right.
        * intros ->. apply (Hdis_y _ (it_index_in y)). exact HjG.
    - eapply Permutation_NoDup; [apply Permutation_sym; exact EU'|]. constructor; [exact Hni_U|]. now rewrite EU.
    - lia.
    - exact Hbl4.
    - rewrite Hf4'. exact Hfnd1.
    - intros i Hi. rewrite Hn4' in Hi. rewrite Hf4', (Hiff1 i Hi), (in_perm_iff _ _ i EU'). cbn [In]. split.
      + intros [A B] [C|C]; [apply B; now left|contradiction].
      + intros A. split; [intros C; apply A; now right|intros [C|[]]; apply A; now left].
    - intros i Hi. rewrite Hf4' in Hi. rewrite Hn4'. now apply Hflt1.
    - intros k i. rewrite Hk4'. apply Hk2i.
    - intros h i. rewrite Hh4'. apply Hh2i.
    - rewrite Hk4, Hk3, Hk2, Hk1. apply root_k2i_nodup. apply root_k2i_nodup. exact Hkn.
    - rewrite Hh4, Hh3, Hh2, Hh1. apply root_h2i_nodup. apply root_h2i_nodup. exact Hhn.
    - exact Hkeys.
    - exact Hhashes.
    - split; [exact Hranges|]. constructor; [|exact HrG]. unfold pair_node. cbn [it_ranges]. split; [apply Hlen|auto].
    - split; [exact Htwf|]. constructor; [|exact HtG]. unfold pair_node, sub_ok. cbn [erase twf t_all_clean negb andb].
      rewrite Hcx, Hcy. split; [|reflexivity]. split; [exact Htx|]. split; [exact Hty|]. intros _. rewrite !erase_hash. auto.
  Qed.
End Pair.

(* ---------- batch_level / batch_levels ---------- *)
Section Levels.
  Variable H : bytes -> bytes.
  Hypothesis Hlen : forall x, length (H x) = HASH_BYTES.

  Lemma level_ok t : forall fuel R P s,
    Forest H s t (P ++ R) -> nblocks s + N.of_nat (length R) <= 2 ^ 32 -> (length R < fuel)%nat ->
    exists s' R', batch_level H fuel (map it_index R) s = (Ok (map it_index R'), s') /\
      Forest H s' t (P ++ R') /\ map erase R' = pair_level H (map erase R) /\
      nblocks s' + N.of_nat (length R') <= nblocks s + N.of_nat (length R) /\
      length R' = Nat.div2 (S (length R)).
  Proof.
    induction fuel as [|f IH]; intros R P s HF Hroom Hfuel; [lia|].
    destruct R as [|x [|y R2]].
    - exists s, []. split; [reflexivity|]. split; [exact HF|]. split; [reflexivity|]. split; [cbn [length]; lia|reflexivity].
    - exists s, [x]. split; [reflexivity|]. split; [exact HF|]. split; [reflexivity|]. split; [cbn [length]; lia|reflexivity].
    - cbn [length] in Hroom, Hfuel.
      assert (P1 : Permutation (P ++ x :: y :: R2) (x :: y :: (P ++ R2))).
      { eapply Permutation_trans; [apply Permutation_sym; apply Permutation_middle|]. constructor.
        apply Permutation_sym. apply Permutation_middle. }
      pose proof (Forest_perm H _ _ _ _ P1 HF) as HF1.
      destruct (pair_step H Hlen s t x y (P ++ R2) HF1) as [ni [s1 [s2 [s3 [s4 [Ea [E2 [E3 [E4 [HF4 Hn4]]]]]]]]]]; [lia|].
      assert (P2 : Permutation (pair_node H ni x y :: P ++ R2) ((P ++ [pair_node H ni x y]) ++ R2)).
      { rewrite <- app_assoc. cbn [app]. apply Permutation_middle. }
      pose proof (Forest_perm H _ _ _ _ P2 HF4) as HF5.
      destruct (IH R2 (P ++ [pair_node H ni x y]) s4 HF5) as [s' [R2' [E [HF' [Ee [Hn' Hl']]]]]]; [lia|lia|].
      exists s', (pair_node H ni x y :: R2'). split; [|split; [|split; [|split]]].
      + cbn [map batch_level]. unfold bind at 1. rewrite Ea. unfold bind at 1. rewrite E2. unfold bind at 1. rewrite E3.
        rewrite !root_block_hash. unfold bind at 1. rewrite E4. unfold bind at 1. rewrite E. reflexivity.
      + rewrite <- app_assoc in HF'. exact HF'.
      + cbn [map pair_level erase pair_node]. rewrite Ee, !erase_hash. reflexivity.
      + cbn [length] in *. lia.
      + cbn [length]. rewrite Hl'. reflexivity.
  Qed.

  Lemma levels_ok t : forall n R s,
    R <> [] -> (length R <= n)%nat -> Forest H s t R -> nblocks s + N.of_nat (length R) <= 2 ^ 32 ->
    exists s' x, batch_levels H (S n) (map it_index R) s = (Ok [it_index x], s') /\ Forest H s' t [x] /\
      build_levels H n (map erase R) = [erase x] /\ nblocks s' + 1 <= nblocks s + N.of_nat (length R).
  Proof.
    induction n as [|m IH]; intros R s Hne Hl HF Hroom.
    - destruct R; [congruence|cbn in Hl; lia].
    - destruct R as [|x [|y R2]]; [congruence| |].
      + exists s, x. split; [reflexivity|]. split; [exact HF|]. split; [reflexivity|]. cbn [length]. lia.
      + set (R := x :: y :: R2) in *.
        destruct (level_ok t (S (length R)) R [] s HF Hroom) as [s1 [R' [E [HF1 [Ee [Hn1 Hl1]]]]]]; [lia|].
        cbn [app] in HF1.
        assert (Hl' : (length R' <= m)%nat).
        { rewrite Hl1. unfold R in *. cbn [length] in *. rewrite Nat.div2_div. 
          lia. }
        assert (Hne' : R' <> []) by (intros ->; unfold R in Hl1; cbn in Hl1; discriminate).
        destruct (IH R' s1 Hne' Hl' HF1) as [s' [z [E' [HF' [Eb Hn']]]]]; [lia|].
        exists s', z. split; [|split; [exact HF'|split]].
        * unfold R at 1. cbn [map batch_levels]. fold (map it_index R2). change (it_index x :: it_index y :: map it_index R2) with (map it_index R).
          rewrite map_length. unfold bind. rewrite E. exact E'.
        * unfold R at 1. cbn [map build_levels]. change (erase x :: erase y :: map erase R2) with (map erase R). rewrite <- Ee. exact Eb.
        * lia.
  Qed.
End Levels.
