(* Dl/BlobHash.v — L2 -> L1: calculate_lazy_hashes.  The LeftChildFirstIterator with the dirty predicate
   yields exactly the dirty internal nodes in post-order (a clean node hides its subtree; dirty is upward
   closed, so nothing dirty is hidden); recomputing them bottom-up leaves a blob that represents
   t_rehash of the tree, with every dirty flag clear. *)
From Coq Require Import Permutation.
From ChiaV.Base Require Import Bytes Sha256.
From ChiaV.Gen Require Import Dl.
From ChiaV.Dl Require Import Format Map Tree Blob Abs Inv History Spec FormatProofs MapProofs TreeProofs BlobLemmas BlobOps BlobOps2 BlobOps3.
From Coq Require Import ZifyBool ZifyNat ZifyN.
Ltac Zify.zify_post_hook ::= Z.div_mod_to_equations.
Open Scope N_scope.

(* the items the iterator yields below a node stored with parent p *)
Fixpoint dpost (p : option N) (t : itree) : list (N * block) :=
  match t with
  | ILeaf _ _ _ _ => []
  | INode i hh d l r =>
      if d then dpost (Some i) l ++ dpost (Some i) r ++ [(i, root_block t p)] else []
  end.
(* what it adds to already_queued, most recent first *)
Fixpoint dqs (t : itree) : list N :=
  match t with
  | ILeaf _ _ _ _ => []
  | INode i _ d l r => if d then dqs r ++ dqs l ++ [i] else []
  end.
(* number of stack pops *)
Fixpoint dcost (t : itree) : nat :=
  match t with
  | ILeaf _ _ _ _ => 1
  | INode _ _ d l r => if d then (2 + dcost l + dcost r)%nat else 1%nat
  end.

Lemma dqs_indices t : forall j, In j (dqs t) -> In j (it_indices t).
Proof.
  induction t as [|i hh d l IHl r IHr]; cbn [dqs it_indices]; [intros j []|]. destruct d; [|intros j []].
  intros j Hj. apply in_app_iff in Hj as [Hj|Hj]; [right; apply in_app_iff; right; auto|].
  apply in_app_iff in Hj as [Hj|[<-|[]]]; [right; apply in_app_iff; left; auto|now left].
Qed.

Lemma dcost_size t : (dcost t <= 2 * length (it_indices t))%nat.
Proof.
  induction t as [|i hh d l IHl r IHr]; cbn [dcost it_indices length]; [lia|]. rewrite app_length.
  destruct d; lia.
Qed.

Section Iter.
  Variable H : bytes -> bytes.

  Lemma lcf_sub bl : forall t p st queued acc n,
    (forall s, blocks s = bl -> rep s p t) ->
    NoDup (it_indices t) ->
    (forall j, In j (it_indices t) -> ~ In j queued) ->
    (match p with Some q => In q queued /\ ~ In 0 (it_indices t) | None => it_index t = 0 end) ->
    lcf (dcost t + n) bl true ((false, it_index t) :: st) queued acc
    = lcf n bl true st (dqs t ++ queued) (rev (dpost p t) ++ acc).
  Proof.
    induction t as [i k v h|i hh d l IHl r IHr]; intros p st queued acc n Hrep Hnd Hdis Hpar.
    - specialize (Hrep (mkB bl [] [] []) eq_refl). inversion Hrep as [? ? ? ? ? Hg|]; subst.
      cbn [dcost dqs dpost rev app it_index plus]. cbn [lcf]. unfold get_block in Hg. cbn [blocks] in Hg. rewrite Hg.
      cbn [b_dirty negb andb]. reflexivity.
    - pose proof (Hrep (mkB bl [] [] []) eq_refl) as Hr0. inversion Hr0 as [|? ? ? ? ? ? Hg Hl Hr]; subst.
      unfold get_block in Hg. cbn [blocks] in Hg. cbn [it_index].
      destruct d.
      + (* dirty: expand, children, then yield *)
        cbn [dcost dqs dpost].
        replace (2 + dcost l + dcost r + n)%nat with (S (dcost l + (dcost r + S n)))%nat by lia.
        cbn [lcf]. rewrite Hg. cbn [b_dirty negb andb b_node node_parent i_parent i_left i_right].
        cbn [it_indices] in Hnd, Hdis. inversion Hnd as [|? ? Hi_lr Hnd_lr]; subst.
        destruct (NoDup_app_inv _ _ Hnd_lr) as [Hnd_l [Hnd_r Hdis_lr]].
        assert (Hpc : (match p with
                       | Some p0 => if i =? 0 then Some E_RootHasParent
                                    else if negb (nmem p0 queued) then Some E_ReferenceToUnknownParent else None
                       | None => if negb (i =? 0) then Some E_UnexpectedParentlessNode else None
                       end) = None).
        { destruct p as [q|].
          - destruct Hpar as [Hq H0]. destruct (N.eqb_spec i 0) as [->|]; [exfalso; apply H0; now left|].
            apply nmem_in in Hq. now rewrite Hq.
          - cbn [it_index] in Hpar. subst i. reflexivity. }
        rewrite Hpc.
        assert (Hlr : (it_index l =? it_index r) = false).
        { apply N.eqb_neq. intros E. apply (Hdis_lr (it_index l)); [apply it_index_in|rewrite E; apply it_index_in]. }
        assert (Hlq : nmem (it_index l) queued = false).
        { apply nmem_false. apply Hdis. right. apply in_app_iff. left. apply it_index_in. }
        assert (Hrq : nmem (it_index r) queued = false).
        { apply nmem_false. apply Hdis. right. apply in_app_iff. right. apply it_index_in. }
        assert (Hiq : nmem i queued = false) by (apply nmem_false; apply Hdis; now left).
        rewrite Hlr, Hlq, Hrq, Hiq. cbn [orb].
        assert (H0_lr : ~ In 0 (it_indices l ++ it_indices r)).
        { destruct p as [q|]; [destruct Hpar as [_ H0]; intros Hx; apply H0; now right|].
          cbn [it_index] in Hpar. subst i. exact Hi_lr. }
        (* left subtree *)
        rewrite (IHl (Some i) ((false, it_index r) :: (true, i) :: st) (i :: queued) acc (dcost r + S n)%nat).
        2:{ intros s Es. specialize (Hrep s Es). inversion Hrep; subst. assumption. }
        2:{ exact Hnd_l. }
        2:{ intros j Hj [<-|Hq]; [apply Hi_lr; apply in_app_iff; now left|]. apply (Hdis j); [right; apply in_app_iff; now left|exact Hq]. }
        2:{ split; [now left|]. intros Hx. apply H0_lr. apply in_app_iff. now left. }
        (* right subtree *)
        rewrite (IHr (Some i) ((true, i) :: st) (dqs l ++ i :: queued) (rev (dpost (Some i) l) ++ acc) (S n)).
        2:{ intros s Es. specialize (Hrep s Es). inversion Hrep; subst. assumption. }
        2:{ exact Hnd_r. }
        2:{ intros j Hj Hq. apply in_app_iff in Hq as [Hq|[<-|Hq]].
            - apply (Hdis_lr j); [now apply dqs_indices|exact Hj].
            - apply Hi_lr. apply in_app_iff. now right.
            - apply (Hdis j); [right; apply in_app_iff; now right|exact Hq]. }
        2:{ split; [apply in_app_iff; right; now left|]. intros Hx. apply H0_lr. apply in_app_iff. now right. }
        (* the node itself, second visit *)
        cbn [lcf]. rewrite Hg. cbn [b_dirty negb andb b_node node_parent i_parent].
        assert (Hpc2 : (match p with
                        | Some p0 => if i =? 0 then Some E_RootHasParent
                                     else if negb (nmem p0 (dqs r ++ dqs l ++ i :: queued)) then Some E_ReferenceToUnknownParent else None
                        | None => if negb (i =? 0) then Some E_UnexpectedParentlessNode else None
                        end) = None).
        { destruct p as [q|].
          - destruct Hpar as [Hq H0]. destruct (N.eqb_spec i 0) as [->|]; [exfalso; apply H0; now left|].
            assert (Hq' : nmem q (dqs r ++ dqs l ++ i :: queued) = true).
            { apply nmem_in. apply in_app_iff. right. apply in_app_iff. right. now right. }
            now rewrite Hq'.
          - cbn [it_index] in Hpar. subst i. reflexivity. }
        rewrite Hpc2. cbn [root_block].
        f_equal.
        * rewrite <- !app_assoc. reflexivity.
        * rewrite !rev_app_distr. cbn [rev app]. rewrite <- !app_assoc. reflexivity.
      + (* clean: the predicate hides the subtree *)
        cbn [dcost dqs dpost rev app plus]. cbn [lcf]. rewrite Hg. cbn [b_dirty negb andb]. reflexivity.
  Qed.
End Iter.

(* ---------- recomputation ---------- *)
Definition it_hash (t : itree) : bytes := match t with ILeaf _ _ _ h => h | INode _ hh _ _ _ => hh end.

Lemma erase_hash t : t_hash (erase t) = it_hash t.
Proof. destruct t; reflexivity. Qed.

Lemma lazy_apply_app H a : forall b s,
  lazy_apply H (a ++ b) s =
  match lazy_apply H a s with
  | (Ok _, s') => lazy_apply H b s'
  | (Err e, s') => (Err e, s')
  | (Panic, s') => (Panic, s')
  | (OutOfFuel, s') => (OutOfFuel, s')
  end.
Proof.
  induction a as [|[i blk] a IH]; intros b s; cbn [app lazy_apply]; [reflexivity|].
  destruct (b_node blk) as [n|l]; [|reflexivity].
  unfold bind, read. destruct (get_hash s (i_left n)); try reflexivity.
  destruct (get_hash s (i_right n)); try reflexivity.
  match goal with |- context [insert_entry_to_blob ?i ?b s] => destruct (insert_entry_to_blob i b s) as [[u|e| |] s1] end;
    try reflexivity. apply IH.
Qed.

Section Rehash.
  Variable H : bytes -> bytes.
  Hypothesis Hlen : forall x, length (H x) = HASH_BYTES.

  Fixpoint it_rehash (t : itree) : itree :=
    match t with
    | ILeaf _ _ _ _ => t
    | INode i hh d l r =>
        if d then
          let l' := it_rehash l in
          let r' := it_rehash r in
          INode i (internal_hash H (it_hash l') (it_hash r')) false l' r'
        else t
    end.

  Lemma erase_rehash t : erase (it_rehash t) = t_rehash H (erase t).
  Proof.
    induction t as [|i hh d l IHl r IHr]; [reflexivity|]. cbn [it_rehash erase t_rehash]. destruct d; [|reflexivity].
    cbn [erase]. now rewrite <- IHl, <- IHr, !erase_hash.
  Qed.
  Lemma it_index_rehash t : it_index (it_rehash t) = it_index t.
  Proof. destruct t as [|i hh [|] l r]; reflexivity. Qed.
  Lemma it_indices_rehash t : it_indices (it_rehash t) = it_indices t.
  Proof.
    induction t as [|i hh d l IHl r IHr]; [reflexivity|]. cbn [it_rehash]. destruct d; [|reflexivity].
    cbn [it_indices]. now rewrite IHl, IHr.
  Qed.
  Lemma it_leaves_rehash t : it_leaves (it_rehash t) = it_leaves t.
  Proof.
    induction t as [|i hh d l IHl r IHr]; [reflexivity|]. cbn [it_rehash]. destruct d; [|reflexivity].
    cbn [it_leaves]. now rewrite IHl, IHr.
  Qed.
  Lemma it_ranges_rehash t : it_ranges t -> it_ranges (it_rehash t).
  Proof.
    induction t as [|i hh d l IHl r IHr]; [auto|]. cbn [it_rehash it_ranges]. intros [A [B C]]. destruct d; [|cbn [it_ranges]; auto].
    cbn [it_ranges]. split; [apply Hlen|auto].
  Qed.

  Lemma lazy_sub : forall t p s,
    rep s p t -> NoDup (it_indices t) -> wf_parent p -> nblocks s <= 2 ^ 32 -> blen_ok s ->
    (forall j, In j (it_indices t) -> ~ In j (free s)) ->
    exists s', lazy_apply H (dpost p t) s = (Ok tt, s') /\ rep s' p (it_rehash t) /\
      (forall j, ~ In j (it_indices t) -> get_block s' j = get_block s j) /\
      nblocks s' = nblocks s /\ blen_ok s' /\ free s' = free s /\ k2i s' = k2i s /\ h2i s' = h2i s.
  Proof.
    induction t as [i k v h|i hh d l IHl r IHr]; intros p s Hrep Hnd Hp Hb Hbl Hfr.
    - exists s. cbn. repeat split; auto.
    - destruct d; [|exists s; cbn; repeat split; auto].
      inversion Hrep as [|? ? ? ? ? ? Hg Hl Hr]; subst.
      cbn [it_indices] in Hnd, Hfr. inversion Hnd as [|? ? Hi_lr Hnd_lr]; subst.
      destruct (NoDup_app_inv _ _ Hnd_lr) as [Hnd_l [Hnd_r Hdis_lr]].
      assert (Hi_lt : i < nblocks s) by (eapply get_block_lt; eauto).
      assert (Hpi : wf_parent (Some i)) by (cbn; lia).
      cbn [dpost]. rewrite lazy_apply_app.
      destruct (IHl (Some i) s Hl Hnd_l Hpi Hb Hbl) as [s1 [E1 [Hl1 [Hg1 [Hn1 [Hbl1 [Hf1 [Hk1 Hh1]]]]]]]].
      { intros j Hj. apply Hfr. right. apply in_app_iff. now left. }
      rewrite E1. rewrite lazy_apply_app.
      assert (Hr1 : rep s1 (Some i) r).
      { eapply rep_frame; [|exact Hr]. intros j Hj. apply Hg1. intros Hx. exact (Hdis_lr j Hx Hj). }
      destruct (IHr (Some i) s1 Hr1 Hnd_r Hpi) as [s2 [E2 [Hr2 [Hg2 [Hn2 [Hbl2 [Hf2 [Hk2 Hh2]]]]]]]]; [lia|exact Hbl1| |].
      { intros j Hj. rewrite Hf1. apply Hfr. right. apply in_app_iff. now right. }
      rewrite E2.
      assert (Hl2 : rep s2 (Some i) (it_rehash l)).
      { eapply rep_frame; [|exact Hl1]. intros j Hj. rewrite it_indices_rehash in Hj. apply Hg2. intros Hx. exact (Hdis_lr j Hj Hx). }
      (* the node itself *)
      cbn [lazy_apply root_block b_node i_left i_right i_parent].
      pose proof (rep_root_block _ _ _ Hl2) as Hgl. rewrite it_index_rehash in Hgl.
      pose proof (rep_root_block _ _ _ Hr2) as Hgr. rewrite it_index_rehash in Hgr.
      assert (Ehl : get_hash s2 (it_index l) = Ok (it_hash (it_rehash l))).
      { unfold get_hash, rbind. rewrite Hgl. destruct (it_rehash l); reflexivity. }
      assert (Ehr : get_hash s2 (it_index r) = Ok (it_hash (it_rehash r))).
      { unfold get_hash, rbind. rewrite Hgr. destruct (it_rehash r); reflexivity. }
      unfold bind at 1. unfold read at 1. rewrite Ehl. unfold bind at 1. unfold read at 1. rewrite Ehr.
      set (nb := mkBlock false (NInt (mkInode (internal_hash H (it_hash (it_rehash l)) (it_hash (it_rehash r))) p (it_index l) (it_index r)))).
      assert (Hwb : wf_block nb).
      { unfold nb, wf_block, wf_node, wf_inode. cbn. split; [apply Hlen|]. split; [exact Hp|].
        assert (it_index l < nblocks s) by (apply (rep_indices_lt _ _ _ Hl); apply it_index_in).
        assert (it_index r < nblocks s) by (apply (rep_indices_lt _ _ _ Hr); apply it_index_in). split; lia. }
      destruct (insert_entry_spec i nb s2 Hwb) as [s3 [E3 [Hg3 [Hn3 [Hbl3 [Hf3 [Hk3 Hh3]]]]]]]; [lia|exact Hbl2|].
      unfold bind at 1. rewrite E3. cbn [lazy_apply]. unfold ret.
      exists s3. split; [reflexivity|].
      assert (Hn3' : nblocks s3 = nblocks s) by (rewrite Hn3, Hn2, Hn1; destruct (N.eqb_spec i (nblocks s)); [lia|reflexivity]).
      split.
      { cbn [it_rehash]. constructor.
        - rewrite Hg3, N.eqb_refl, !it_index_rehash. reflexivity.
        - eapply rep_frame; [|exact Hl2]. intros j Hj. rewrite Hg3. destruct (N.eqb_spec j i) as [->|]; [|reflexivity].
          exfalso. apply Hi_lr. rewrite it_indices_rehash in Hj. apply in_app_iff. now left.
        - eapply rep_frame; [|exact Hr2]. intros j Hj. rewrite Hg3. destruct (N.eqb_spec j i) as [->|]; [|reflexivity].
          exfalso. apply Hi_lr. rewrite it_indices_rehash in Hj. apply in_app_iff. now right. }
      split.
      { intros j Hj. cbn [it_indices In] in Hj. rewrite Hg3. destruct (N.eqb_spec j i) as [->|]; [exfalso; apply Hj; now left|].
        rewrite Hg2 by (intros Hx; apply Hj; right; apply in_app_iff; now right).
        apply Hg1. intros Hx. apply Hj. right. apply in_app_iff. now left. }
      split; [exact Hn3'|]. split; [exact Hbl3|].
      split; [rewrite Hf3, Hf2, Hf1; apply free_remove_notin; apply Hfr; now left|].
      cbn [nb b_node] in Hk3, Hh3. split; congruence.
  Qed.
End Rehash.

Section LazyHashes.
  Variable H : bytes -> bytes.
  Hypothesis Hlen : forall x, length (H x) = HASH_BYTES.

  Lemma lazy_hashes_empty : calculate_lazy_hashes H empty_blob = (Ok tt, empty_blob).
  Proof. reflexivity. Qed.

  Theorem lazy_hashes_ok s t :
    Inv_tree H s t ->
    exists s', calculate_lazy_hashes H s = (Ok tt, s') /\ Inv_tree H s' (it_rehash H t).
  Proof.
    intros HI. pose proof HI as [Hrep Hroot Hnd Hbound Hblen Hfnd Hfree Hflt Hk2i Hh2i Hkn Hhn Hkeys Hhashes Hranges Htwf].
    assert (Hidx : forall j, In j (it_indices t) -> j < nblocks s) by (apply (rep_indices_lt _ _ _ Hrep)).
    pose proof (pigeonhole (it_indices t) (length (blocks s)) Hnd Hidx) as Hsz.
    pose proof (dcost_size t) as Hc.
    unfold calculate_lazy_hashes, lcf_run.
    assert (Hne : blocks s <> []).
    { intros E. assert (Hl : it_index t < nblocks s) by (apply Hidx; apply it_index_in). unfold nblocks in Hl. rewrite E in Hl. cbn [length] in Hl. lia. }
    destruct (blocks s) as [|b0 bl0] eqn:Eb; [congruence|]. rewrite <- Eb in *. clear Hne.
    assert (Efuel : (4 * length (blocks s) + 4 = dcost t + S (4 * length (blocks s) + 3 - dcost t))%nat) by lia.
    rewrite Efuel. rewrite <- Hroot.
    rewrite (lcf_sub H (blocks s) t None [] [] [] _).
    2:{ intros s0 Es. eapply rep_frame; [|exact Hrep]. intros j _. unfold get_block. now rewrite Es. }
    2:{ exact Hnd. }
    2:{ intros j _ []. }
    2:{ exact Hroot. }
    cbn [lcf]. rewrite !app_nil_r, rev_involutive.
    destruct (lazy_sub H Hlen t None s Hrep Hnd I Hbound Hblen) as [s' [E [Hrep' [Hget [Hn [Hbl [Hf [Hk Hh]]]]]]]].
    { intros j Hj Hx. assert (Hl : j < N.of_nat (length (blocks s))) by (apply Hidx; exact Hj). apply (Hfree j Hl) in Hx. contradiction. }
    unfold bind. rewrite E. unfold lift. exists s'. split; [reflexivity|].
    unfold nblocks in Hn.
    constructor; rewrite ?it_index_rehash, ?it_indices_rehash, ?it_leaves_rehash; unfold it_keys, it_lhashes;
      rewrite ?it_leaves_rehash, ?Hf, ?Hk, ?Hh, ?Hn; auto.
    - apply it_ranges_rehash; auto.
    - rewrite erase_rehash. apply rehash_twf. exact Htwf.
  Qed.

  (* after hashing: the stored root hash is the independent recomputation, nothing is dirty *)
  Theorem lazy_hashes_root s t s' :
    Inv_tree H s t -> calculate_lazy_hashes H s = (Ok tt, s') ->
    get_hash_at_index s' 0 = Ok (Some (merkle H (erase t))) /\
    abs s' = Some (Some (t_rehash H (erase t))) /\ t_all_clean (t_rehash H (erase t)) = true.
  Proof.
    intros HI E. destruct (lazy_hashes_ok s t HI) as [s'' [E' HI']]. rewrite E in E'. injection E' as <-.
    split; [|split].
    - unfold get_hash_at_index.
      pose proof (leaf_count_leaves H _ _ HI') as Hlc. unfold leaf_count in Hlc.
      pose proof (it_leaves_nonempty (it_rehash H t)) as Hne.
      destruct (k2i s') as [|e k'] eqn:Ek.
      { exfalso. cbn [length] in Hlc. destruct (it_leaves (it_rehash H t)); [congruence|]. cbn [length] in Hlc. lia. }
      pose proof (rep_root_block _ _ _ (inv_rep _ _ _ HI')) as Hg. rewrite (inv_root _ _ _ HI') in Hg.
      unfold rbind. rewrite Hg.
      assert (Hd : b_dirty (root_block (it_rehash H t) None) = false).
      { destruct t as [|i hh [|] l r]; reflexivity. }
      rewrite Hd. f_equal. f_equal.
      assert (Eh : node_hash (b_node (root_block (it_rehash H t) None)) = it_hash (it_rehash H t)) by (destruct (it_rehash H t); reflexivity).
      rewrite Eh, <- erase_hash, erase_rehash. apply rehash_root. exact (inv_twf _ _ _ HI).
    - rewrite (Inv_tree_abs H _ _ HI'). now rewrite erase_rehash.
    - apply rehash_twf. exact (inv_twf _ _ _ HI).
  Qed.

  Theorem hash_step s ot : Abs H s ot -> step_ok H OHash s ot THash.
  Proof.
    intros Habs. unfold step_ok. cbn [step2 step1].
    destruct Habs as [[-> ->]|[t [HI ->]]].
    - unfold bind. rewrite lazy_hashes_empty. cbn. repeat split; auto. left. auto.
    - destruct (lazy_hashes_ok s t HI) as [s' [E HI']]. unfold bind. rewrite E. cbn.
      repeat split; auto; [|discriminate]. right. exists (it_rehash H t). split; [exact HI'|]. now rewrite erase_rehash.
  Qed.
End LazyHashes.
