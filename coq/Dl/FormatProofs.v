(* Dl/FormatProofs.v — the block codec: every well-formed block fits in BLOCK_SIZE bytes and decodes
   to itself.  Stated over the translated layout (Gen/Dl.v): a changed field list, width, size or tag
   in format.rs breaks these proofs. *)
From ChiaV.Base Require Import Bytes.
From ChiaV.Gen Require Import Dl.
From ChiaV.Dl Require Import Format.
From Coq Require Import ZifyBool ZifyNat ZifyN.
Ltac Zify.zify_post_hook ::= Z.div_mod_to_equations.
Open Scope N_scope.

(* the translated layout is the one the decoder is written for *)
Lemma layout_pinned :
  metadata_layout = [F_node_type; F_dirty] /\
  internal_layout = [F_hash; F_parent; F_left; F_right] /\
  leaf_layout = [F_hash; F_parent; F_key; F_value] /\
  (TREE_INDEX_BYTES, HASH_BYTES, KEY_BYTES, VALUE_BYTES) = (4, 32, 8, 8)%nat /\
  (NODE_TYPE_INTERNAL, NODE_TYPE_LEAF) = (0, 1) /\ (METADATA_SIZE, DATA_SIZE) = (2, 53).
Proof. repeat split. Qed.

Lemma firstn_skipn_app {A} (a b : list A) : firstn (length a) (a ++ b) = a /\ skipn (length a) (a ++ b) = b.
Proof. induction a as [|x a [IH1 IH2]]; cbn [length app firstn skipn]; [auto|]. now rewrite IH1, IH2. Qed.

Lemma split_at_app n (a b : bytes) : length a = n -> split_at n (a ++ b) = Some (a, b).
Proof.
  intros <-. unfold split_at. rewrite app_length.
  destruct (Nat.ltb_spec (length a + length b) (length a)); [lia|].
  destruct (firstn_skipn_app a b) as [-> ->]. reflexivity.
Qed.

Lemma enc_opt_index_length p : (length (enc_opt_index p) <= 5)%nat.
Proof. destruct p; cbn [enc_opt_index length]; [rewrite n2be_length; vm_compute; lia|lia]. Qed.

Lemma dec_enc_opt_index p rest : wf_parent p -> dec_opt_index (enc_opt_index p ++ rest) = Some (p, rest).
Proof.
  destruct p as [i|]; cbn [enc_opt_index wf_parent app dec_opt_index]; intros Hw.
  - change (b2n x01) with 1. cbn [N.eqb]. change (1 =? 0) with false. change (1 =? 1) with true. cbv iota.
    rewrite split_at_app by apply n2be_length. rewrite be2n_n2be; [reflexivity|]. exact Hw.
  - reflexivity.
Qed.

Lemma enc_leaf_eq l :
  enc_node (NLeaf l) = l_hash l ++ enc_opt_index (l_parent l) ++ n2be 8 (l_key l) ++ n2be 8 (l_value l).
Proof. unfold enc_node, leaf_layout. cbn [flat_map enc_leaf_fld]. now rewrite app_nil_r. Qed.

Lemma enc_int_eq n :
  enc_node (NInt n) = i_hash n ++ enc_opt_index (i_parent n) ++ n2be 4 (i_left n) ++ n2be 4 (i_right n).
Proof. unfold enc_node, internal_layout. cbn [flat_map enc_int_fld]. now rewrite app_nil_r. Qed.

Lemma enc_node_length n : wf_node n -> (length (enc_node n) <= 53)%nat.
Proof.
  destruct n as [i|l]; intros [Hh _]; [rewrite enc_int_eq|rewrite enc_leaf_eq];
    rewrite !app_length, !n2be_length, Hh;
    [pose proof (enc_opt_index_length (i_parent i))|pose proof (enc_opt_index_length (l_parent l))];
    change HASH_BYTES with 32%nat; lia.
Qed.

Lemma dec_leaf_enc l rest : wf_leaf l -> dec_leaf (enc_node (NLeaf l) ++ rest) = Some l.
Proof.
  intros [Hh [Hp [Hk Hv]]]. rewrite enc_leaf_eq. unfold dec_leaf. rewrite <- !app_assoc.
  rewrite split_at_app by exact Hh. rewrite dec_enc_opt_index by exact Hp.
  rewrite split_at_app by apply n2be_length. rewrite split_at_app by apply n2be_length.
  rewrite !be2n_n2be by assumption. now destruct l.
Qed.

Lemma dec_int_enc n rest : wf_inode n -> dec_int (enc_node (NInt n) ++ rest) = Some n.
Proof.
  intros [Hh [Hp [Hl Hr]]]. rewrite enc_int_eq. unfold dec_int. rewrite <- !app_assoc.
  rewrite split_at_app by exact Hh. rewrite dec_enc_opt_index by exact Hp.
  rewrite split_at_app by apply n2be_length. rewrite split_at_app by apply n2be_length.
  rewrite !be2n_n2be by assumption. now destruct n.
Qed.

Lemma repeat_byte_length n b : length (repeat_byte n b) = n.
Proof. induction n; cbn [repeat_byte length]; congruence. Qed.

Theorem encode_block_ok b : wf_block b ->
  exists bs, encode_block b = Ok bs /\ length bs = N.to_nat BLOCK_SIZE /\ decode_block bs = Ok b.
Proof.
  intros Hw. unfold encode_block. pose proof (enc_node_length _ Hw) as Hlen.
  destruct (N.ltb_spec DATA_SIZE (nlen (enc_node (b_node b)))) as [Hlt|_].
  { unfold nlen in Hlt. change DATA_SIZE with 53 in Hlt. lia. }
  eexists. split; [reflexivity|]. split.
  - rewrite app_length. unfold pad_to. rewrite app_length, repeat_byte_length.
    change (N.to_nat DATA_SIZE) with 53%nat. change (N.to_nat BLOCK_SIZE) with 55%nat.
    destruct b as [d n]. destruct d; cbn [flat_map metadata_layout enc_meta_fld app length b_dirty b_node] in *; lia.
  - destruct b as [d n]. unfold pad_to. cbn [b_node b_dirty] in *.
    destruct n as [i|l]; cbn [flat_map metadata_layout enc_meta_fld app node_type_tag b_node b_dirty];
      unfold decode_block.
    + change (b2n (n2b NODE_TYPE_INTERNAL)) with 0. change (0 =? NODE_TYPE_INTERNAL) with true.
      change (0 =? NODE_TYPE_LEAF) with false. cbn [orb negb].
      destruct d.
      * change (b2n x01) with 1. change (1 <? 1) with false. change (1 =? 1) with true. cbv iota.
        now rewrite dec_int_enc.
      * change (b2n x00) with 0. change (1 <? 0) with false. change (0 =? 1) with false. cbv iota.
        now rewrite dec_int_enc.
    + change (b2n (n2b NODE_TYPE_LEAF)) with 1. change (1 =? NODE_TYPE_INTERNAL) with false.
      change (1 =? NODE_TYPE_LEAF) with true. cbn [orb negb].
      destruct d.
      * change (b2n x01) with 1. change (1 <? 1) with false. change (1 =? 1) with true. cbv iota.
        now rewrite dec_leaf_enc.
      * change (b2n x00) with 0. change (1 <? 0) with false. change (0 =? 1) with false. cbv iota.
        now rewrite dec_leaf_enc.
Qed.
