(* Dl/Tree.v — L1: the merkle tree the blob represents, as an inductive binary tree with leaves
   (key, value, hash), internal nodes (stored hash, dirty bit) and the blob's operations at tree level:
   insert at a reference leaf + side, delete with sibling promotion, upsert, batch insert (subtree
   building by pairing, attached left of the first leaf in breadth-first order), lazy hash
   recomputation, proofs of inclusion.  Definitions only.

   The operations mirror what the (repaired) code does at this level, including its validations:
   upsert rejects a hash that belongs to another leaf, batch_insert validates the whole batch first. *)
From ChiaV.Base Require Import Bytes.
From ChiaV.Gen Require Import Dl.
From Coq Require Import Permutation.
From ChiaV.Dl Require Import Format Map.
Open Scope N_scope.

Inductive tree :=
| TLeaf (k v : N) (h : bytes)
| TNode (h : bytes) (d : bool) (l r : tree).

Definition t_hash (t : tree) : bytes :=
  match t with TLeaf _ _ h => h | TNode h _ _ _ => h end.

Fixpoint t_kv (t : tree) : kvmap :=
  match t with
  | TLeaf k v h => [(k, (v, h))]
  | TNode _ _ l r => t_kv l ++ t_kv r
  end.
Definition ot_kv (ot : option tree) : kvmap := match ot with Some t => t_kv t | None => [] end.

Fixpoint t_size (t : tree) : nat :=
  match t with TLeaf _ _ _ => 1 | TNode _ _ l r => S (t_size l + t_size r) end.
Definition ot_leaf_count (ot : option tree) : nat := length (ot_kv ot).

Definition tkeys (t : tree) : list N := mkeys (t_kv t).

Inductive tloc := TAuto | TRoot | TKey (ref : N) (sd : side).

Section TreeH.
  Variable H : bytes -> bytes.
  Notation ih := (internal_hash H).

  (* replace the leaf with key [ref] by [mk old_leaf]; every strict ancestor becomes dirty *)
  Fixpoint t_graft (ref : N) (mk : tree -> tree) (t : tree) : option tree :=
    match t with
    | TLeaf k _ _ => if k =? ref then Some (mk t) else None
    | TNode hh d l r =>
        match t_graft ref mk l with
        | Some l' => Some (TNode hh true l' r)
        | None =>
            match t_graft ref mk r with
            | Some r' => Some (TNode hh true l r')
            | None => None
            end
        end
    end.

  Definition t_join (sd : side) (nw old : tree) : tree :=
    match sd with
    | SLeft => TNode (ih (t_hash nw) (t_hash old)) false nw old
    | SRight => TNode (ih (t_hash old) (t_hash nw)) false old nw
    end.

  (* the SHA-256 seeded walk of InsertLocation::Auto: the key of the leaf it ends at *)
  Fixpoint t_walk (fuel : nat) (t : tree) (bits : list bool) (seed : bytes) : option N :=
    match fuel with
    | O => None
    | S f =>
        match t with
        | TLeaf k _ _ => Some k
        | TNode _ _ l r =>
            match bits with
            | [] => let seed' := H seed in t_walk f t (seed_bits seed') seed'
            | b :: bs => t_walk f (if b then r else l) bs seed
            end
        end
    end.

  Definition t_auto (key : N) (t : tree) : option (N * side) :=
    match H (n2be KEY_BYTES key) with
    | [] => None
    | (b0 :: _) as seed =>
        let rs := rev seed in
        match t_walk (4 * t_size t + 4) t (seed_bits rs) rs with
        | Some ref => Some (ref, if N.testbit (b2n b0) 7 then SRight else SLeft)
        | None => None
        end
    end.

  (* result of an operation: success flag and the new tree (a failing operation may still have
     changed the tree: batch_insert is not atomic) *)
  Definition tres := (bool * option tree)%type.

  Definition t_insert (k v : N) (h : bytes) (loc : tloc) (ot : option tree) : tres :=
    if m_mem k (ot_kv ot) || m_has_hash h (ot_kv ot) then (false, ot)
    else
      match ot with
      | None =>
          match loc with
          | TAuto | TRoot => (true, Some (TLeaf k v h))
          | TKey _ _ => (false, ot)
          end
      | Some t =>
          match (match loc with TAuto => t_auto k t | TRoot => None | TKey ref sd => Some (ref, sd) end) with
          | None => (false, ot)
          | Some (ref, sd) =>
              match t_graft ref (t_join sd (TLeaf k v h)) t with
              | Some t' => (true, Some t')
              | None => (false, ot)
              end
          end
      end.

  (* delete: None = key not found; Some None = the tree was that leaf; Some (Some t') *)
  Fixpoint t_del (k : N) (t : tree) : option (option tree) :=
    match t with
    | TLeaf k' _ _ => if k' =? k then Some None else None
    | TNode hh d l r =>
        match t_del k l with
        | Some None => Some (Some r)
        | Some (Some l') => Some (Some (TNode hh true l' r))
        | None =>
            match t_del k r with
            | Some None => Some (Some l)
            | Some (Some r') => Some (Some (TNode hh true l r'))
            | None => None
            end
        end
    end.
  Definition t_delete (k : N) (ot : option tree) : tres :=
    match ot with
    | None => (false, ot)
    | Some t => match t_del k t with Some ot' => (true, ot') | None => (false, ot) end
    end.

  Definition t_upsert (k v : N) (h : bytes) (ot : option tree) : tres :=
    match ot with
    | Some t =>
        if m_mem k (t_kv t) then
          if m_hash_of_other k h (t_kv t) then (false, ot)        (* HashAlreadyPresent *)
          else
          match t_graft k (fun _ => TLeaf k v h) t with
          | Some t' => (true, Some t')
          | None => (false, ot)
          end
        else t_insert k v h TAuto ot
    | None => t_insert k v h TAuto ot
    end.

  (* batch: subtree building *)
  Fixpoint pair_level (ts : list tree) : list tree :=
    match ts with
    | a :: b :: r => TNode (ih (t_hash a) (t_hash b)) false a b :: pair_level r
    | _ => ts
    end.
  Fixpoint build_levels (fuel : nat) (ts : list tree) : list tree :=
    match fuel with
    | O => ts
    | S f => match ts with [] | [_] => ts | _ => build_levels f (pair_level ts) end
    end.
  Definition build_subtree (items : list item) : option tree :=
    match build_levels (length items) (map (fun '(k, v, h) => TLeaf k v h) items) with
    | [t] => Some t
    | _ => None
    end.

  (* first leaf in breadth-first order *)
  Fixpoint t_bfs (fuel : nat) (queue : list tree) : option N :=
    match fuel with
    | O => None
    | S f =>
        match queue with
        | [] => None
        | TLeaf k _ _ :: _ => Some k
        | TNode _ _ l r :: q => t_bfs f (q ++ [l; r])
        end
    end.
  Definition t_min_leaf (t : tree) : option N := t_bfs (2 * t_size t + 2) [t].

  Definition t_batch_tail (items : list item) (ot : option tree) : tres :=
    match build_subtree items with
    | None => (true, ot)                        (* no remaining items *)
    | Some sub =>
        match ot with
        | None => (false, ot)
        | Some t =>
            match t_min_leaf t with
            | None => (false, ot)
            | Some ref =>
                match t with
                | TLeaf _ _ _ => (false, ot)      (* LeafCannotBeRootWhenInsertingSubtree *)
                | _ =>
                    match t_graft ref (t_join SLeft sub) t with
                    | Some t' => (true, Some t')
                    | None => (false, ot)
                    end
                end
            end
        end
    end.

  Definition t_batch_body (items : list item) (ot : option tree) : tres :=
    if (ot_leaf_count ot <=? 1)%nat then
      match pop_last items with
      | None => (true, ot)
      | Some (r1, (k1, v1, h1)) =>
          match t_insert k1 v1 h1 TAuto ot with
          | (true, ot1) =>
              match pop_last r1 with
              | None => (true, ot1)
              | Some (r2, (k2, v2, h2)) =>
                  match t_insert k2 v2 h2 TAuto ot1 with
                  | (true, ot2) => t_batch_tail r2 ot2
                  | (false, ot2) => (false, ot2)
                  end
              end
          | (false, ot1) => (false, ot1)
          end
      end
    else t_batch_tail items ot.

  (* the batch is validated as a whole first (no key / hash already in the tree or twice in the batch):
     exactly the batches the plain map accepts *)
  Definition t_batch (items : list item) (ot : option tree) : tres :=
    match m_batch items (ot_kv ot) with
    | None => (false, ot)
    | Some _ => t_batch_body items ot
    end.

  (* calculate_lazy_hashes: only dirty nodes are visited (a clean node hides its subtree) *)
  Fixpoint t_rehash (t : tree) : tree :=
    match t with
    | TLeaf _ _ _ => t
    | TNode hh d l r =>
        if d then
          let l' := t_rehash l in
          let r' := t_rehash r in
          TNode (ih (t_hash l') (t_hash r')) false l' r'
        else t
    end.

  (* the independent recursive recomputation of the root *)
  Fixpoint merkle (t : tree) : bytes :=
    match t with
    | TLeaf _ _ h => h
    | TNode _ _ l r => ih (merkle l) (merkle r)
    end.

  (* proof of inclusion: leaf hash and layers bottom-up; None if the key is absent *)
  Fixpoint t_path (k : N) (t : tree) : option (bytes * list layer) :=
    match t with
    | TLeaf k' _ h => if k' =? k then Some (h, []) else None
    | TNode hh _ l r =>
        match t_path k l with
        | Some (nh, ls) => Some (nh, ls ++ [mkLayer SRight (t_hash r) hh])
        | None =>
            match t_path k r with
            | Some (nh, ls) => Some (nh, ls ++ [mkLayer SLeft (t_hash l) hh])
            | None => None
            end
        end
    end.
  Definition t_proof (k : N) (t : tree) : option proof :=
    match t_path k t with Some (nh, ls) => Some (mkProof nh ls) | None => None end.

  Fixpoint t_all_clean (t : tree) : bool :=
    match t with
    | TLeaf _ _ _ => true
    | TNode _ d l r => negb d && t_all_clean l && t_all_clean r
    end.
  (* L1 well-formedness: a clean node has only clean descendants and stores the internal hash of
     its children's stored hashes (dirty is upward closed; leaves are never dirty by construction) *)
  Fixpoint twf (t : tree) : Prop :=
    match t with
    | TLeaf _ _ _ => True
    | TNode hh d l r =>
        twf l /\ twf r /\
        (d = false -> t_all_clean l = true /\ t_all_clean r = true /\ hh = ih (t_hash l) (t_hash r))
    end.

  Definition owf (ot : option tree) : Prop := match ot with Some t => twf t | None => True end.

  (* the L1 -> L0 refinement relation: the tree's leaves are exactly the entries of the plain map,
     the plain map has duplicate-free keys and hashes, the tree is well-formed *)
  Definition tree_refines (ot : option tree) (m : kvmap) : Prop :=
    Permutation (ot_kv ot) m /\ m_ok m /\ owf ot.
End TreeH.
