(* Dl/BlobOps4.v — L2 -> L1: insert next to the only leaf (insert_second rebuilds the blob). *)
From Coq Require Import Permutation.
From ChiaV.Base Require Import Bytes Sha256.
From ChiaV.Gen Require Import Dl.
From ChiaV.Dl Require Import Format Map Tree Blob Abs Inv History FormatProofs MapProofs TreeProofs BlobLemmas BlobOps BlobOps2.
From Coq Require Import ZifyBool ZifyNat ZifyN.
Ltac Zify.zify_post_hook ::= Z.div_mod_to_equations.
Open Scope N_scope.

Section InsertSecond.
  Variable H : bytes -> bytes.
  Hypothesis Hlen : forall x, length (H x) = HASH_BYTES.

  Theorem insert_second_ok s idx kref vr hr k v h sd :
    Inv_tree H s (ILeaf idx kref vr hr) ->
    k < 2 ^ 64 -> v < 2 ^ 64 -> length h = HASH_BYTES -> k <> kref -> h <> hr ->
    let ni := match sd with SLeft => 1 | SRight => 2 end in
    let oi := match sd with SLeft => 2 | SRight => 1 end in
    exists s',
      insert H k v h (LLeaf idx sd) s = (Ok ni, s') /\
      Inv_tree H s' (ins_sub H sd ni 0 oi k v h kref vr hr) /\
      t_insert H k v h (TKey kref sd) (Some (erase (ILeaf idx kref vr hr)))
      = (true, Some (erase (ins_sub H sd ni 0 oi k v h kref vr hr))) /\
      nblocks s' = 3.
  Proof.
    intros HI Hk Hv Hh Hkne Hhne ni oi.
    pose proof (leaf_count_leaves H _ _ HI) as Hlc. cbn [it_leaves length] in Hlc.
    destruct HI as [Hrep Hroot Hnd Hbound Hblen Hfnd Hfree Hflt Hk2i Hh2i Hkn Hhn Hkeys Hhashes Hranges Htwf].
    cbn [it_index] in Hroot. subst idx. cbn [it_ranges] in Hranges. destruct Hranges as [Hkr [Hvr Hhr]].
    inversion Hrep as [? ? ? ? ? Hg|]; subst.
    assert (Hknone : amap_get N.eqb k (k2i s) = None).
    { destruct (amap_get N.eqb k (k2i s)) as [i'|] eqn:E; [|reflexivity]. apply Hk2i in E as [v' [h' [E|[]]]]. congruence. }
    assert (Hhnone : amap_get bytes_eqb h (h2i s) = None).
    { destruct (amap_get bytes_eqb h (h2i s)) as [i'|] eqn:E; [|reflexivity]. apply Hh2i in E as [k' [v' [E|[]]]]. congruence. }
    assert (Hkref : amap_get N.eqb kref (k2i s) = Some 0) by (apply Hk2i; exists vr, hr; now left).
    unfold insert, amap_mem. rewrite Hknone, Hhnone. unfold get_node, rbind. rewrite Hg. cbn [b_node l_key].
    rewrite Hkref. change (0 =? 0) with true. cbn [negb].
    rewrite Hlc. change (N.of_nat 1 =? 1) with true. cbv iota.
    unfold insert_second. unfold bind at 1. unfold clear.
    (* three fresh indexes on the cleared blob *)
    unfold bind at 1. unfold get_new_index at 1. cbn [free empty_blob].
    unfold bind at 1. unfold get_new_index at 1. cbn [free set_blocks empty_blob].
    unfold bind at 1. unfold get_new_index at 1. cbn [free set_blocks empty_blob]. cbn [blocks set_blocks empty_blob app].
    change (extend_index empty_blob) with 0.
    change (extend_index (set_blocks empty_blob [zero_block])) with 1.
    change (extend_index (set_blocks (set_blocks empty_blob [zero_block]) [zero_block; zero_block])) with 2.
    cbn [l_hash l_key l_value].
    set (ihv := match sd with SLeft => internal_hash H h hr | SRight => internal_hash H hr h end).
    set (z3 := set_blocks (set_blocks (set_blocks empty_blob [zero_block]) [zero_block; zero_block]) [zero_block; zero_block; zero_block]).
    assert (Hbl0 : blen_ok z3).
    { unfold blen_ok, z3. cbn [blocks set_blocks]. repeat constructor; apply zero_block_length. }
    assert (Hn0 : nblocks z3 = 3) by reflexivity.
    (* the root *)
    set (nb_r := mkBlock false (NInt (mkInode ihv None 1 2))).
    assert (Hwr : wf_block nb_r).
    { unfold nb_r, wf_block, wf_node, wf_inode. cbn. split; [unfold ihv; destruct sd; apply Hlen|]. repeat split; lia. }
    destruct (insert_entry_spec 0 nb_r z3 Hwr) as [s4 [E4 [Hget4 [Hn4 [Hbl4 [Hf4 [Hk4 Hh4]]]]]]]; [rewrite Hn0; lia|exact Hbl0|].
    unfold bind at 1. fold nb_r. rewrite E4.
    rewrite Hn0 in Hn4. change (0 =? 3) with false in Hn4. cbv iota in Hn4.
    cbn [nb_r b_node] in Hk4, Hh4. unfold z3 in Hf4, Hk4, Hh4. cbn [free k2i h2i set_blocks empty_blob free_remove filter] in Hf4, Hk4, Hh4.
    (* the old leaf *)
    fold oi. set (nb_o := leaf_block (mkLeaf hr (Some 0) kref vr)).
    assert (Hwo : wf_block nb_o) by (unfold nb_o, leaf_block, wf_block, wf_node, wf_leaf; cbn; repeat split; auto; lia).
    assert (Hoi : oi = 1 \/ oi = 2) by (unfold oi; destruct sd; auto).
    assert (Hni : ni = 1 \/ ni = 2) by (unfold ni; destruct sd; auto).
    assert (Honi : oi <> ni) by (unfold oi, ni; destruct sd; lia).
    destruct (insert_entry_spec oi nb_o s4 Hwo) as [s5 [E5 [Hget5 [Hn5 [Hbl5 [Hf5 [Hk5 Hh5]]]]]]]; [lia|exact Hbl4|].
    unfold bind at 1. fold nb_o. rewrite E5.
    assert (Hn5' : nblocks s5 = 3) by (rewrite Hn5, Hn4; destruct (N.eqb_spec oi 3); [lia|reflexivity]).
    cbn [nb_o leaf_block b_node l_key l_hash] in Hk5, Hh5. rewrite Hk4 in Hk5. rewrite Hh4 in Hh5. rewrite Hf4 in Hf5. cbn [free_remove filter] in Hf5.
    (* the new leaf *)
    fold ni. set (nb_n := leaf_block (mkLeaf h (Some 0) k v)).
    assert (Hwn : wf_block nb_n) by (unfold nb_n, leaf_block, wf_block, wf_node, wf_leaf; cbn; repeat split; auto; lia).
    destruct (insert_entry_spec ni nb_n s5 Hwn) as [s6 [E6 [Hget6 [Hn6 [Hbl6 [Hf6 [Hk6 Hh6]]]]]]]; [lia|exact Hbl5|].
    unfold bind at 1. fold nb_n. rewrite E6. unfold ret.
    assert (Hn6' : nblocks s6 = 3) by (rewrite Hn6, Hn5'; destruct (N.eqb_spec ni 3); [lia|reflexivity]).
    cbn [nb_n leaf_block b_node l_key l_hash] in Hk6, Hh6. rewrite Hk5 in Hk6. rewrite Hh5 in Hh6. rewrite Hf5 in Hf6. cbn [free_remove filter] in Hf6.
    exists s6. split; [reflexivity|].
    assert (Hg0 : get_block s6 0 = Ok nb_r).
    { rewrite Hget6. destruct (N.eqb_spec 0 ni); [lia|]. rewrite Hget5. destruct (N.eqb_spec 0 oi); [lia|]. rewrite Hget4. reflexivity. }
    assert (Hgo : get_block s6 oi = Ok nb_o).
    { rewrite Hget6. destruct (N.eqb_spec oi ni); [congruence|]. rewrite Hget5, N.eqb_refl. reflexivity. }
    assert (Hgn : get_block s6 ni = Ok nb_n) by (rewrite Hget6, N.eqb_refl; reflexivity).
    set (sub := ins_sub H sd ni 0 oi k v h kref vr hr).
    assert (Hsub_leaves : Permutation (it_leaves sub) [(ni, k, v, h); (oi, kref, vr, hr)]).
    { unfold sub, ins_sub. destruct sd; cbn [it_leaves app]; [reflexivity|apply perm_swap]. }
    assert (Hsub_indices : Permutation (it_indices sub) [0; ni; oi]).
    { unfold sub, ins_sub. destruct sd; cbn [it_indices app]; [reflexivity|]. constructor. apply perm_swap. }
    assert (Hgraft : t_graft kref (t_join H sd (TLeaf k v h)) (erase (ILeaf 0 kref vr hr)) = Some (erase sub)).
    { cbn [erase t_graft]. rewrite N.eqb_refl. unfold sub, ins_sub. destruct sd; reflexivity. }
    split; [|split; [|exact Hn6']].
    - constructor.
      + unfold sub, ins_sub, nb_r, ihv, ni, oi in *. destruct sd.
        * constructor; [exact Hg0| |]; constructor; [exact Hgn|exact Hgo].
        * constructor; [exact Hg0| |]; constructor; [exact Hgo|exact Hgn].
      + unfold sub, ins_sub. now destruct sd.
      + eapply Permutation_NoDup; [apply Permutation_sym; exact Hsub_indices|].
        constructor; [intros [E|[E|[]]]; lia|]. constructor; [intros [E|[]]; congruence|]. constructor; [intros []|constructor].
      + fold (nblocks s6). rewrite Hn6'. lia.
      + exact Hbl6.
      + rewrite Hf6. constructor.
      + intros j Hj. fold (nblocks s6) in Hj. rewrite Hn6' in Hj. rewrite Hf6, (in_perm_iff _ _ j Hsub_indices). cbn [In].
        split; [tauto|]. intros Hx. apply Hx. destruct Hoi, Hni; lia.
      + rewrite Hf6. intros j [].
      + intros k' i'. rewrite Hk6. rewrite !(amap_get_set N.eqb N.eqb_spec). cbn [amap_get].
        destruct (N.eqb_spec k' k) as [->|Hn1]; [|destruct (N.eqb_spec k' kref) as [->|Hn2]].
        * split; [intros [= <-]; exists v, h; apply (in_perm_iff _ _ _ Hsub_leaves); now left|].
          intros [v' [h' Hx]]. apply (in_perm_iff _ _ _ Hsub_leaves) in Hx as [Hx|[Hx|[]]]; congruence.
        * split; [intros [= <-]; exists vr, hr; apply (in_perm_iff _ _ _ Hsub_leaves); right; now left|].
          intros [v' [h' Hx]]. apply (in_perm_iff _ _ _ Hsub_leaves) in Hx as [Hx|[Hx|[]]]; congruence.
        * split; [discriminate|]. intros [v' [h' Hx]]. apply (in_perm_iff _ _ _ Hsub_leaves) in Hx as [Hx|[Hx|[]]]; congruence.
      + intros h' i'. rewrite Hh6. rewrite !(amap_get_set bytes_eqb bytes_eqb_spec). cbn [amap_get].
        destruct (bytes_eqb_spec h' h) as [->|Hn1]; [|destruct (bytes_eqb_spec h' hr) as [->|Hn2]].
        * split; [intros [= <-]; exists k, v; apply (in_perm_iff _ _ _ Hsub_leaves); now left|].
          intros [k' [v' Hx]]. apply (in_perm_iff _ _ _ Hsub_leaves) in Hx as [Hx|[Hx|[]]]; congruence.
        * split; [intros [= <-]; exists kref, vr; apply (in_perm_iff _ _ _ Hsub_leaves); right; now left|].
          intros [k' [v' Hx]]. apply (in_perm_iff _ _ _ Hsub_leaves) in Hx as [Hx|[Hx|[]]]; congruence.
        * split; [discriminate|]. intros [k' [v' Hx]]. apply (in_perm_iff _ _ _ Hsub_leaves) in Hx as [Hx|[Hx|[]]]; congruence.
      + rewrite Hk6. apply amap_set_nodup; [exact N.eqb_spec|]. apply amap_set_nodup; [exact N.eqb_spec|constructor].
      + rewrite Hh6. apply amap_set_nodup; [exact bytes_eqb_spec|]. apply amap_set_nodup; [exact bytes_eqb_spec|constructor].
      + unfold it_keys. eapply perm_nodup_map; [apply Permutation_sym; exact Hsub_leaves|]. cbn [map fst snd].
        constructor; [intros [E|[]]; congruence|]. constructor; [intros []|constructor].
      + unfold it_lhashes. eapply perm_nodup_map; [apply Permutation_sym; exact Hsub_leaves|]. cbn [map snd].
        constructor; [intros [E|[]]; congruence|]. constructor; [intros []|constructor].
      + unfold sub, ins_sub. destruct sd; cbn [it_ranges]; repeat split; auto; apply Hlen.
      + eapply graft_twf; [exact Htwf| |exact Hgraft]. intros v1 h1.
        destruct sd; cbn [t_join twf t_all_clean t_hash]; repeat split; auto.
    - unfold t_insert.
      assert (Hm1 : m_mem k (ot_kv (Some (erase (ILeaf 0 kref vr hr)))) = false).
      { apply m_mem_false. cbn. intros [E|[]]. congruence. }
      assert (Hm2 : m_has_hash h (ot_kv (Some (erase (ILeaf 0 kref vr hr)))) = false).
      { apply m_has_hash_false. cbn. intros [E|[]]. congruence. }
      rewrite Hm1, Hm2. cbn [orb]. rewrite Hgraft. reflexivity.
  Qed.
End InsertSecond.
