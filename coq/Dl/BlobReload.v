(* Dl/BlobReload.v — L2: MerkleBlob::new on the serialized bytes of a blob satisfying Inv succeeds and
   yields an equivalent blob (same bytes, set-equal caches, set-equal free list) that satisfies Inv for
   the same tree. *)
From Coq Require Import Permutation.
From ChiaV.Base Require Import Bytes Sha256.
From ChiaV.Gen Require Import Dl.
From ChiaV.Dl Require Import Format Map Tree Blob Abs Inv History Spec FormatProofs MapProofs TreeProofs BlobLemmas BlobOps BlobOps2 BlobOps3 BlobHash.
From Coq Require Import ZifyBool ZifyNat ZifyN.
Ltac Zify.zify_post_hook ::= Z.div_mod_to_equations.
Open Scope N_scope.

(* ---------- bytes <-> blocks ---------- *)
Lemma chunk_concat n bl : (0 < n)%nat -> Forall (fun b : bytes => length b = n) bl ->
  forall fuel, (length bl <= fuel)%nat -> chunk fuel n (concat bl) = bl.
Proof.
  intros Hn Hf. induction Hf as [|b r Hb Hr IH]; intros fuel Hl.
  - destruct fuel; reflexivity.
  - destruct fuel as [|f]; [cbn in Hl; lia|]. cbn [concat chunk].
    destruct b as [|x b']; [cbn in Hb; lia|]. cbn [app].
    change (x :: b' ++ concat r) with ((x :: b') ++ concat r).
    destruct (firstn_skipn_app (x :: b') (concat r)) as [E1 E2]. rewrite Hb in E1, E2. rewrite E1, E2.
    f_equal. apply IH. cbn in Hl. lia.
Qed.

Lemma concat_length_blocks n (bl : list bytes) : Forall (fun b => length b = n) bl -> length (concat bl) = (n * length bl)%nat.
Proof. induction 1 as [|b r Hb Hr IH]; cbn [concat length]; [lia|]. rewrite app_length, IH, Hb. lia. Qed.

(* ---------- the full left-child-first traversal ---------- *)
Fixpoint fpost (p : option N) (t : itree) : list (N * block) :=
  match t with
  | ILeaf i _ _ _ => [(i, root_block t p)]
  | INode i hh d l r => fpost (Some i) l ++ fpost (Some i) r ++ [(i, root_block t p)]
  end.
Fixpoint fqs (t : itree) : list N :=
  match t with
  | ILeaf _ _ _ _ => []
  | INode i _ _ l r => fqs r ++ fqs l ++ [i]
  end.
Fixpoint fcost (t : itree) : nat :=
  match t with
  | ILeaf _ _ _ _ => 1
  | INode _ _ _ l r => (2 + fcost l + fcost r)%nat
  end.

Lemma fqs_indices t : forall j, In j (fqs t) -> In j (it_indices t).
Proof.
  induction t as [|i hh d l IHl r IHr]; cbn [fqs it_indices]; [intros j []|].
  intros j Hj. apply in_app_iff in Hj as [Hj|Hj]; [right; apply in_app_iff; right; auto|].
  apply in_app_iff in Hj as [Hj|[<-|[]]]; [right; apply in_app_iff; left; auto|now left].
Qed.
Lemma fcost_size t : (fcost t <= 2 * length (it_indices t))%nat.
Proof. induction t as [|i hh d l IHl r IHr]; cbn [fcost it_indices length]; [lia|]. rewrite app_length. lia. Qed.

Lemma lcf_full bl : forall t p st queued acc n,
  (forall s, blocks s = bl -> rep s p t) ->
  NoDup (it_indices t) ->
  (forall j, In j (it_indices t) -> ~ In j queued) ->
  (match p with Some q => In q queued /\ ~ In 0 (it_indices t) | None => it_index t = 0 end) ->
  lcf (fcost t + n) bl false ((false, it_index t) :: st) queued acc
  = lcf n bl false st (fqs t ++ queued) (rev (fpost p t) ++ acc).
Proof.
  induction t as [i k v h|i hh d l IHl r IHr]; intros p st queued acc n Hrep Hnd Hdis Hpar.
  - specialize (Hrep (mkB bl [] [] []) eq_refl). inversion Hrep as [? ? ? ? ? Hg|]; subst.
    cbn [fcost fqs fpost rev app it_index plus root_block]. cbn [lcf]. unfold get_block in Hg. cbn [blocks] in Hg. rewrite Hg.
    cbn [andb b_node node_parent l_parent b_dirty].
    assert (Hpc : (match p with
                   | Some p0 => if i =? 0 then Some E_RootHasParent
                                else if negb (nmem p0 queued) then Some E_ReferenceToUnknownParent else None
                   | None => if negb (i =? 0) then Some E_UnexpectedParentlessNode else None
                   end) = None).
    { destruct p as [q|].
      - destruct Hpar as [Hq H0]. destruct (N.eqb_spec i 0) as [->|]; [exfalso; apply H0; now left|].
        apply nmem_in in Hq. now rewrite Hq.
      - cbn [it_index] in Hpar. subst i. reflexivity. }
    rewrite Hpc. reflexivity.
  - pose proof (Hrep (mkB bl [] [] []) eq_refl) as Hr0. inversion Hr0 as [|? ? ? ? ? ? Hg Hl Hr]; subst.
    unfold get_block in Hg. cbn [blocks] in Hg. cbn [it_index].
    cbn [fcost fqs fpost].
    replace (2 + fcost l + fcost r + n)%nat with (S (fcost l + (fcost r + S n)))%nat by lia.
    cbn [lcf]. rewrite Hg. cbn [andb b_node node_parent i_parent i_left i_right].
    cbn [it_indices] in Hnd, Hdis. inversion Hnd as [|? ? Hi_lr Hnd_lr]; subst.
    destruct (NoDup_app_inv _ _ Hnd_lr) as [Hnd_l [Hnd_r Hdis_lr]].
    assert (Hpc : (match p with
                   | Some p0 => if i =? 0 then Some E_RootHasParent
                                else if negb (nmem p0 queued) then Some E_ReferenceToUnknownParent else None
                   | None => if negb (i =? 0) then Some E_UnexpectedParentlessNode else None
                   end) = None).
    { destruct p as [q|].
      - destruct Hpar as [Hq H0]. destruct (N.eqb_spec i 0) as [->|]; [exfalso; apply H0; now left|].
        apply nmem_in in Hq. now rewrite Hq.
      - cbn [it_index] in Hpar. subst i. reflexivity. }
    rewrite Hpc.
    assert (Hlr : (it_index l =? it_index r) = false).
    { apply N.eqb_neq. intros E. apply (Hdis_lr (it_index l)); [apply it_index_in|rewrite E; apply it_index_in]. }
    assert (Hlq : nmem (it_index l) queued = false).
    { apply nmem_false. apply Hdis. right. apply in_app_iff. left. apply it_index_in. }
    assert (Hrq : nmem (it_index r) queued = false).
    { apply nmem_false. apply Hdis. right. apply in_app_iff. right. apply it_index_in. }
    assert (Hiq : nmem i queued = false) by (apply nmem_false; apply Hdis; now left).
    rewrite Hlr, Hlq, Hrq, Hiq. cbn [orb].
    assert (H0_lr : ~ In 0 (it_indices l ++ it_indices r)).
    { destruct p as [q|]; [destruct Hpar as [_ H0]; intros Hx; apply H0; now right|].
      cbn [it_index] in Hpar. subst i. exact Hi_lr. }
    rewrite (IHl (Some i) ((false, it_index r) :: (true, i) :: st) (i :: queued) acc (fcost r + S n)%nat).
    2:{ intros s Es. specialize (Hrep s Es). inversion Hrep; subst. assumption. }
    2:{ exact Hnd_l. }
    2:{ intros j Hj [<-|Hq]; [apply Hi_lr; apply in_app_iff; now left|]. apply (Hdis j); [right; apply in_app_iff; now left|exact Hq]. }
    2:{ split; [now left|]. intros Hx. apply H0_lr. apply in_app_iff. now left. }
    rewrite (IHr (Some i) ((true, i) :: st) (fqs l ++ i :: queued) (rev (fpost (Some i) l) ++ acc) (S n)).
    2:{ intros s Es. specialize (Hrep s Es). inversion Hrep; subst. assumption. }
    2:{ exact Hnd_r. }
    2:{ intros j Hj Hq. apply in_app_iff in Hq as [Hq|[<-|Hq]].
        - apply (Hdis_lr j); [now apply fqs_indices|exact Hj].
        - apply Hi_lr. apply in_app_iff. now right.
        - apply (Hdis j); [right; apply in_app_iff; now right|exact Hq]. }
    2:{ split; [apply in_app_iff; right; now left|]. intros Hx. apply H0_lr. apply in_app_iff. now right. }
    cbn [lcf]. rewrite Hg. cbn [andb b_node node_parent i_parent].
    assert (Hpc2 : (match p with
                    | Some p0 => if i =? 0 then Some E_RootHasParent
                                 else if negb (nmem p0 (fqs r ++ fqs l ++ i :: queued)) then Some E_ReferenceToUnknownParent else None
                    | None => if negb (i =? 0) then Some E_UnexpectedParentlessNode else None
                    end) = None).
    { destruct p as [q|].
      - destruct Hpar as [Hq H0]. destruct (N.eqb_spec i 0) as [->|]; [exfalso; apply H0; now left|].
        assert (Hq' : nmem q (fqs r ++ fqs l ++ i :: queued) = true).
        { apply nmem_in. apply in_app_iff. right. apply in_app_iff. right. now right. }
        now rewrite Hq'.
      - cbn [it_index] in Hpar. subst i. reflexivity. }
    rewrite Hpc2. cbn [root_block].
    f_equal.
    + rewrite <- !app_assoc. reflexivity.
    + rewrite !rev_app_distr. cbn [rev app]. rewrite <- !app_assoc. reflexivity.
Qed.

(* ---------- BlockStatusCache::new over the yielded items ---------- *)
Definition iks (items : list (N * block)) : list (N * N) :=
  flat_map (fun x => match b_node (snd x) with NLeaf l => [(l_key l, fst x)] | NInt _ => [] end) items.
Definition ihs (items : list (N * block)) : list (bytes * N) :=
  flat_map (fun x => match b_node (snd x) with NLeaf l => [(l_hash l, fst x)] | NInt _ => [] end) items.

Lemma cache_fill_ok : forall items seen k h,
  NoDup (map fst (iks items)) -> (forall x, In x (map fst (iks items)) -> amap_get N.eqb x k = None) ->
  NoDup (map fst (ihs items)) -> (forall x, In x (map fst (ihs items)) -> amap_get bytes_eqb x h = None) ->
  NoDup (map fst k) -> NoDup (map fst h) ->
  exists k' h', cache_fill items seen k h = Ok (rev (map fst items) ++ seen, k', h') /\
    (forall x i, amap_get N.eqb x k' = Some i <-> In (x, i) (iks items) \/ amap_get N.eqb x k = Some i) /\
    (forall x i, amap_get bytes_eqb x h' = Some i <-> In (x, i) (ihs items) \/ amap_get bytes_eqb x h = Some i) /\
    NoDup (map fst k') /\ NoDup (map fst h').
Proof.
  induction items as [|[i b] items IH]; intros seen k h Nk Fk Nh Fh Dk Dh.
  - exists k, h. cbn. repeat split; auto; tauto.
  - cbn [cache_fill]. unfold iks, ihs in *. cbn [flat_map fst snd] in *. fold (iks items) in *. fold (ihs items) in *.
    destruct (b_node b) as [n|l].
    + cbn [app] in *. destruct (IH (i :: seen) k h Nk Fk Nh Fh Dk Dh) as [k' [h' [E [A [B [C D]]]]]].
      exists k', h'. split; [|auto]. rewrite E. cbn [map rev fst]. now rewrite <- app_assoc.
    + cbn [app map fst] in *. inversion Nk as [|? ? Hk1 Nk']; subst. inversion Nh as [|? ? Hh1 Nh']; subst.
      assert (Ek : amap_mem N.eqb (l_key l) k = false) by (unfold amap_mem; rewrite Fk; [reflexivity|now left]).
      assert (Eh : amap_mem bytes_eqb (l_hash l) h = false) by (unfold amap_mem; rewrite Fh; [reflexivity|now left]).
      rewrite Ek, Eh.
      destruct (IH (i :: seen) (amap_set N.eqb (l_key l) i k) (amap_set bytes_eqb (l_hash l) i h)) as [k' [h' [E [A [B [C D]]]]]]; auto.
      * intros x Hx. rewrite (amap_get_set N.eqb N.eqb_spec). destruct (N.eqb_spec x (l_key l)) as [->|]; [contradiction|]. apply Fk. now right.
      * intros x Hx. rewrite (amap_get_set bytes_eqb bytes_eqb_spec). destruct (bytes_eqb_spec x (l_hash l)) as [->|]; [contradiction|]. apply Fh. now right.
      * apply amap_set_nodup; [exact N.eqb_spec|exact Dk].
      * apply amap_set_nodup; [exact bytes_eqb_spec|exact Dh].
      * exists k', h'. split; [rewrite E; cbn [map rev fst]; now rewrite <- app_assoc|]. split; [|split; [|auto]].
        -- intros x j. rewrite A, (amap_get_set N.eqb N.eqb_spec). cbn [In]. destruct (N.eqb_spec x (l_key l)) as [->|Hne].
           ++ rewrite (Fk (l_key l)) by now left. split; [intros [Hx|[= <-]]; auto|intros [[[= <-]|Hx]|Hx]; auto; discriminate].
           ++ split; [intros [Hx|Hx]; auto|intros [[[= E1 _]|Hx]|Hx]; auto; congruence].
        -- intros x j. rewrite B, (amap_get_set bytes_eqb bytes_eqb_spec). cbn [In]. destruct (bytes_eqb_spec x (l_hash l)) as [->|Hne].
           ++ rewrite (Fh (l_hash l)) by now left. split; [intros [Hx|[= <-]]; auto|intros [[[= <-]|Hx]|Hx]; auto; discriminate].
           ++ split; [intros [Hx|Hx]; auto|intros [[[= E1 _]|Hx]|Hx]; auto; congruence].
Qed.

Lemma iks_app a b : iks (a ++ b) = iks a ++ iks b.
Proof. unfold iks. apply flat_map_app. Qed.
Lemma ihs_app a b : ihs (a ++ b) = ihs a ++ ihs b.
Proof. unfold ihs. apply flat_map_app. Qed.

Lemma iks_fpost t : forall p, iks (fpost p t) = map (fun '(i, k, v, h) => (k, i)) (it_leaves t).
Proof.
  induction t as [i k v h|i hh d l IHl r IHr]; intros p; cbn [fpost it_leaves map]; [reflexivity|].
  rewrite !iks_app, IHl, IHr, map_app. cbn. now rewrite app_nil_r.
Qed.
Lemma ihs_fpost t : forall p, ihs (fpost p t) = map (fun '(i, k, v, h) => (h, i)) (it_leaves t).
Proof.
  induction t as [i k v h|i hh d l IHl r IHr]; intros p; cbn [fpost it_leaves map]; [reflexivity|].
  rewrite !ihs_app, IHl, IHr, map_app. cbn. now rewrite app_nil_r.
Qed.
Lemma fpost_indices t : forall p j, In j (map fst (fpost p t)) <-> In j (it_indices t).
Proof.
  induction t as [i k v h|i hh d l IHl r IHr]; intros p j; cbn [fpost it_indices map fst]; [tauto|].
  rewrite !map_app, !in_app_iff, IHl, IHr. cbn [map fst In]. rewrite in_app_iff. tauto.
Qed.

Section Reload.
  Variable H : bytes -> bytes.

  Lemma reload_empty : reload (bytes_of_blocks (blocks empty_blob)) = Ok empty_blob.
  Proof. reflexivity. Qed.

  Theorem reload_ok s t :
    Inv_tree H s t ->
    exists s', reload (bytes_of_blocks (blocks s)) = Ok s' /\ blob_equiv s s' /\ Inv_tree H s' t.
  Proof.
    intros HI. pose proof HI as [Hrep Hroot Hnd Hbound Hblen Hfnd Hfree Hflt Hk2i Hh2i Hkn Hhn Hkeys Hhashes Hranges Htwf].
    assert (Hidx : forall j, In j (it_indices t) -> j < nblocks s) by (apply (rep_indices_lt _ _ _ Hrep)).
    pose proof (pigeonhole (it_indices t) (length (blocks s)) Hnd Hidx) as Hsz.
    pose proof (fcost_size t) as Hc.
    unfold reload, bytes_of_blocks.
    rewrite (concat_length_blocks (N.to_nat BLOCK_SIZE) _ Hblen).
    assert (Emod : (N.of_nat (N.to_nat BLOCK_SIZE * length (blocks s)) mod BLOCK_SIZE =? 0) = true).
    { apply N.eqb_eq. rewrite Nat2N.inj_mul, N2Nat.id. rewrite N.mul_comm. apply N.mod_mul. discriminate. }
    rewrite Emod. cbn [negb]. unfold blocks_of_bytes.
    rewrite (chunk_concat (N.to_nat BLOCK_SIZE) (blocks s)); [|vm_compute; lia|exact Hblen|].
    2:{ rewrite (concat_length_blocks (N.to_nat BLOCK_SIZE) _ Hblen). change (N.to_nat BLOCK_SIZE) with 55%nat. lia. }
    unfold blob_of_blocks, lcf_run.
    assert (Hne : blocks s <> []).
    { intros E. assert (Hl : it_index t < nblocks s) by (apply Hidx; apply it_index_in). unfold nblocks in Hl. rewrite E in Hl. cbn [length] in Hl. lia. }
    destruct (blocks s) as [|b0 bl0] eqn:Eb; [congruence|]. rewrite <- Eb in *. clear Hne.
    assert (Efuel : (4 * length (blocks s) + 4 = fcost t + S (4 * length (blocks s) + 3 - fcost t))%nat) by lia.
    rewrite Efuel. rewrite <- Hroot.
    rewrite (lcf_full (blocks s) t None [] [] [] _).
    2:{ intros s0 Es. eapply rep_frame; [|exact Hrep]. intros j _. unfold get_block. now rewrite Es. }
    2:{ exact Hnd. }
    2:{ intros j _ []. }
    2:{ exact Hroot. }
    cbn [lcf]. rewrite !app_nil_r, rev_involutive.
    (* the caches *)
    assert (Ekeys : map fst (iks (fpost None t)) = it_keys t).
    { rewrite iks_fpost, map_map. unfold it_keys. apply map_ext. now intros [[[i k] v] h]. }
    assert (Ehashes : map fst (ihs (fpost None t)) = it_lhashes t).
    { rewrite ihs_fpost, map_map. unfold it_lhashes. apply map_ext. now intros [[[i k] v] h]. }
    destruct (cache_fill_ok (fpost None t) [] [] []) as [k' [h' [E [A [B [C D]]]]]];
      try (rewrite ?Ekeys, ?Ehashes; assumption); try (intros; reflexivity); try constructor.
    rewrite E. cbn [rbind]. rewrite app_nil_r.
    set (fr := filter (fun i => negb (nmem i (rev (map fst (fpost None t))))) (iota_N (length (blocks s)))).
    exists (mkB (blocks s) fr k' h'). split; [reflexivity|].
    assert (Hk' : forall x i, amap_get N.eqb x k' = Some i <-> exists v h, In (i, x, v, h) (it_leaves t)).
    { intros x i. rewrite A, iks_fpost. cbn [amap_get]. rewrite in_map_iff. split.
      - intros [[[[[i0 k0] v0] h0] [[= <- <-] Hx]]|Hx]; [eauto|discriminate].
      - intros [v0 [h0 Hx]]. left. exists (i, x, v0, h0). auto. }
    assert (Hh' : forall x i, amap_get bytes_eqb x h' = Some i <-> exists k v, In (i, k, v, x) (it_leaves t)).
    { intros x i. rewrite B, ihs_fpost. cbn [amap_get]. rewrite in_map_iff. split.
      - intros [[[[[i0 k0] v0] h0] [[= <- <-] Hx]]|Hx]; [eauto|discriminate].
      - intros [k0 [v0 Hx]]. left. exists (i, k0, v0, x). auto. }
    assert (Hfr : forall i, In i fr <-> i < N.of_nat (length (blocks s)) /\ ~ In i (it_indices t)).
    { intros i. unfold fr. rewrite filter_In. unfold iota_N. rewrite in_map_iff. split.
      - intros [[n [<- Hn]] Hm]. apply in_seq in Hn. split; [lia|]. apply negb_true_iff, nmem_false in Hm.
        intros Hx. apply Hm. rewrite <- in_rev. now apply fpost_indices.
      - intros [Hl Hn]. split; [exists (N.to_nat i); split; [lia|apply in_seq; lia]|].
        apply negb_true_iff, nmem_false. rewrite <- in_rev. intros Hx. apply Hn. now apply (fpost_indices t None). }
    assert (Hopt : forall (a b : option N), (forall i, a = Some i <-> b = Some i) -> a = b).
    { intros [a|] [b|] Hi.
      - destruct (Hi a) as [X _]. symmetry. exact (X eq_refl).
      - destruct (Hi a) as [X _]. specialize (X eq_refl). discriminate.
      - destruct (Hi b) as [_ X]. specialize (X eq_refl). discriminate.
      - reflexivity. }
    split.
    - unfold blob_equiv. cbn [blocks k2i h2i free]. split; [reflexivity|]. split; [|split].
      + intros x. apply Hopt. intros i. now rewrite Hk2i, Hk'.
      + intros x. apply Hopt. intros i. now rewrite Hh2i, Hh'.
      + intros i. rewrite Hfr. split.
        * intros Hx. split; [now apply Hflt|]. apply Hfree; [now apply Hflt|exact Hx].
        * intros [Hl Hn]. now apply Hfree.
    - constructor; cbn [blocks k2i h2i free]; auto.
      + eapply rep_frame; [|exact Hrep]. intros j _. reflexivity.
      + unfold fr. apply NoDup_filter. unfold iota_N. apply FinFun.Injective_map_NoDup; [intros a b Eab; lia|apply seq_NoDup].
      + intros i Hi. rewrite Hfr. tauto.
      + intros i Hi. now apply Hfr.
  Qed.
End Reload.
