(* Dl/Format.v — the serialized block format of the DataLayer merkle blob
   (crates/chia-datalayer/src/merkle/format.rs).  Definitions only.

   A blob is a sequence of BLOCK_SIZE-byte blocks; block = metadata (node_type, dirty) ++ node data
   padded with zeros to DATA_SIZE.  Node data is the `Streamable` encoding of InternalNode / LeafNode:
   fields in declaration order (Gen/Dl.v: internal_layout / leaf_layout), `Parent(Option<TreeIndex>)`
   as 00 | 01 ++ u32 big-endian, KeyId/ValueId as i64 big-endian.  Keys and values are modelled as
   the unsigned reading of those 8 bytes (a bijection with i64). *)
From ChiaV.Base Require Import Bytes.
From ChiaV.Gen Require Import Dl.
Open Scope N_scope.

Inductive side := SLeft | SRight.

Record leaf := mkLeaf { l_hash : bytes; l_parent : option N; l_key : N; l_value : N }.
Record inode := mkInode { i_hash : bytes; i_parent : option N; i_left : N; i_right : N }.
Inductive node := NInt (n : inode) | NLeaf (l : leaf).
(* Block.metadata.node_type always agrees with the node's constructor in the code paths modelled
   (Block::from_bytes derives the node from it; every constructed block sets both), so it is derived. *)
Record block := mkBlock { b_dirty : bool; b_node : node }.

Definition node_parent (n : node) : option N :=
  match n with NInt i => i_parent i | NLeaf l => l_parent l end.
Definition node_hash (n : node) : bytes :=
  match n with NInt i => i_hash i | NLeaf l => l_hash l end.
Definition node_set_parent (p : option N) (n : node) : node :=
  match n with
  | NInt i => NInt (mkInode (i_hash i) p (i_left i) (i_right i))
  | NLeaf l => NLeaf (mkLeaf (l_hash l) p (l_key l) (l_value l))
  end.
Definition node_set_hash (h : bytes) (n : node) : node :=
  match n with
  | NInt i => NInt (mkInode h (i_parent i) (i_left i) (i_right i))
  | NLeaf l => NLeaf (mkLeaf h (l_parent l) (l_key l) (l_value l))
  end.

(* error kinds (information only: the property never speaks about which error) *)
Inductive err :=
| E_FailedLoadingMetadata | E_FailedLoadingNode | E_InvalidBlobLength | E_KeyAlreadyPresent
| E_HashAlreadyPresent | E_UnableToInsertAsRootOfNonEmptyTree | E_UnableToFindALeaf | E_UnknownKey
| E_IntegrityKeyNotInCache | E_IntegrityKeyToIndexCacheIndex | E_IntegrityParentChildMismatch
| E_IntegrityKeyToIndexCacheLength | E_IntegrityLeafHashToIndexCacheLength
| E_IntegrityUnmatchedChildParentRelationships | E_IntegrityTotalNodeCount | E_ZeroLengthSeedNotAllowed
| E_NodeNotALeaf | E_IndexIsNotAChild | E_CycleFound | E_BlockIndexOutOfBounds
| E_MoveSourceIndexNotInUse | E_MoveDestinationIndexNotInUse | E_Dirty | E_DirtyLeaf
| E_ReferenceToUnknownParent | E_RootHasParent | E_UnexpectedParentlessNode | E_ParentDisagreesWithChild
| E_LeafCannotBeParent | E_InvalidChildren | E_LeafCannotBeRootWhenInsertingSubtree.

(* outcome of a Rust call: value, Err(_), a reachable panic, or the model's fuel ran out
   (the Rust loop would not terminate / the theorem excludes it) *)
Inductive res (A : Type) := Ok (a : A) | Err (e : err) | Panic | OutOfFuel.
Arguments Ok {A} a.
Arguments Err {A} e.
Arguments Panic {A}.
Arguments OutOfFuel {A}.

Definition rbind {A B} (r : res A) (f : A -> res B) : res B :=
  match r with Ok a => f a | Err e => Err e | Panic => Panic | OutOfFuel => OutOfFuel end.
Definition is_ok {A} (r : res A) : bool := match r with Ok _ => true | _ => false end.

(* ---------- encoding ---------- *)
Definition enc_opt_index (p : option N) : bytes :=
  match p with None => [x00] | Some i => x01 :: n2be TREE_INDEX_BYTES i end.

Definition enc_leaf_fld (l : leaf) (f : fld) : bytes :=
  match f with
  | F_hash => l_hash l
  | F_parent => enc_opt_index (l_parent l)
  | F_key => n2be KEY_BYTES (l_key l)
  | F_value => n2be VALUE_BYTES (l_value l)
  | _ => []
  end.

Definition enc_int_fld (i : inode) (f : fld) : bytes :=
  match f with
  | F_hash => i_hash i
  | F_parent => enc_opt_index (i_parent i)
  | F_left => n2be TREE_INDEX_BYTES (i_left i)
  | F_right => n2be TREE_INDEX_BYTES (i_right i)
  | _ => []
  end.

Definition enc_node (n : node) : bytes :=
  match n with
  | NLeaf l => flat_map (enc_leaf_fld l) leaf_layout
  | NInt i => flat_map (enc_int_fld i) internal_layout
  end.

Definition node_type_tag (n : node) : N :=
  match n with NInt _ => NODE_TYPE_INTERNAL | NLeaf _ => NODE_TYPE_LEAF end.

Definition enc_meta_fld (b : block) (f : fld) : bytes :=
  match f with
  | F_node_type => [n2b (node_type_tag (b_node b))]
  | F_dirty => [if b_dirty b then x01 else x00]
  | _ => []
  end.

Definition pad_to (n : nat) (bs : bytes) : bytes := bs ++ repeat_byte (n - length bs) x00.

(* Block::to_bytes; `assert!(base.len() <= DATA_SIZE)` in Node::to_bytes is the Panic *)
Definition encode_block (b : block) : res bytes :=
  let d := enc_node (b_node b) in
  if DATA_SIZE <? nlen d then Panic
  else Ok (flat_map (enc_meta_fld b) metadata_layout ++ pad_to (N.to_nat DATA_SIZE) d).

Definition zero_block : bytes := repeat_byte (N.to_nat BLOCK_SIZE) x00.

(* ---------- decoding (Block::from_bytes; streamable parse ignoring trailing bytes) ---------- *)
Definition split_at (n : nat) (bs : bytes) : option (bytes * bytes) :=
  if (length bs <? n)%nat then None else Some (firstn n bs, skipn n bs).

Definition dec_opt_index (bs : bytes) : option (option N * bytes) :=
  match bs with
  | [] => None
  | t :: r =>
      if b2n t =? 0 then Some (None, r)
      else if b2n t =? 1 then
        match split_at TREE_INDEX_BYTES r with
        | Some (a, r') => Some (Some (be2n a), r')
        | None => None
        end
      else None
  end.

Definition dec_leaf (bs : bytes) : option leaf :=
  match split_at HASH_BYTES bs with None => None | Some (h, r1) =>
  match dec_opt_index r1 with None => None | Some (p, r2) =>
  match split_at KEY_BYTES r2 with None => None | Some (k, r3) =>
  match split_at VALUE_BYTES r3 with None => None | Some (v, _) =>
    Some (mkLeaf h p (be2n k) (be2n v))
  end end end end.

Definition dec_int (bs : bytes) : option inode :=
  match split_at HASH_BYTES bs with None => None | Some (h, r1) =>
  match dec_opt_index r1 with None => None | Some (p, r2) =>
  match split_at TREE_INDEX_BYTES r2 with None => None | Some (l, r3) =>
  match split_at TREE_INDEX_BYTES r3 with None => None | Some (r, _) =>
    Some (mkInode h p (be2n l) (be2n r))
  end end end end.

Definition decode_block (bs : bytes) : res block :=
  match bs with
  | t :: d :: data =>
      if negb ((b2n t =? NODE_TYPE_INTERNAL) || (b2n t =? NODE_TYPE_LEAF)) then Err E_FailedLoadingMetadata
      else if 1 <? b2n d then Err E_FailedLoadingMetadata
      else
        let dirty := b2n d =? 1 in
        if b2n t =? NODE_TYPE_LEAF then
          match dec_leaf data with
          | Some l => Ok (mkBlock dirty (NLeaf l))
          | None => Err E_FailedLoadingNode
          end
        else
          match dec_int data with
          | Some i => Ok (mkBlock dirty (NInt i))
          | None => Err E_FailedLoadingNode
          end
  | _ => Err E_FailedLoadingMetadata
  end.

(* a block whose every field is in the range of its serialized width *)
Definition wf_parent (p : option N) : Prop := match p with None => True | Some i => i < 2 ^ 32 end.
Definition wf_leaf (l : leaf) : Prop :=
  length (l_hash l) = HASH_BYTES /\ wf_parent (l_parent l) /\ l_key l < 2 ^ 64 /\ l_value l < 2 ^ 64.
Definition wf_inode (n : inode) : Prop :=
  length (i_hash n) = HASH_BYTES /\ wf_parent (i_parent n) /\ i_left n < 2 ^ 32 /\ i_right n < 2 ^ 32.
Definition wf_node (n : node) : Prop := match n with NLeaf l => wf_leaf l | NInt i => wf_inode i end.
Definition wf_block (b : block) : Prop := wf_node (b_node b).

(* a blob as raw bytes <-> list of blocks *)
Fixpoint chunk (fuel : nat) (n : nat) (bs : bytes) : list bytes :=
  match fuel with
  | O => []
  | S f => match bs with [] => [] | _ => firstn n bs :: chunk f n (skipn n bs) end
  end.
Definition blocks_of_bytes (bs : bytes) : list bytes := chunk (length bs) (N.to_nat BLOCK_SIZE) bs.
Definition bytes_of_blocks (bl : list bytes) : bytes := concat bl.

(* ---------- hashing and proofs of inclusion (blob.rs internal_hash, proof_of_inclusion.rs) ---------- *)
Record layer := mkLayer { other_hash_side : side; other_hash : bytes; combined_hash : bytes }.
Record proof := mkProof { p_node_hash : bytes; p_layers : list layer }.

Definition byte_bits (b : byte) : list bool :=
  map (fun i => N.testbit (b2n b) i) [0; 1; 2; 3; 4; 5; 6; 7].
Definition seed_bits (bs : bytes) : list bool := flat_map byte_bits bs.

Section HashH.
  Variable H : bytes -> bytes.

  Definition internal_hash (l r : bytes) : bytes := H (INTERNAL_HASH_PREFIX ++ l ++ r).
  Definition calculate_internal_hash (h : bytes) (other_side : side) (other : bytes) : bytes :=
    match other_side with SLeft => internal_hash other h | SRight => internal_hash h other end.

  Definition proof_root_hash (p : proof) : bytes :=
    match rev (p_layers p) with l :: _ => combined_hash l | [] => p_node_hash p end.

  Fixpoint proof_fold (h : bytes) (ls : list layer) : option bytes :=
    match ls with
    | [] => Some h
    | l :: r =>
        let c := calculate_internal_hash h (other_hash_side l) (other_hash l) in
        if bytes_eqb c (combined_hash l) then proof_fold c r else None
    end.
  Definition proof_valid (p : proof) : bool :=
    match proof_fold (p_node_hash p) (p_layers p) with
    | Some h => bytes_eqb h (proof_root_hash p)
    | None => false
    end.
End HashH.
