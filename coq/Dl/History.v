(* Dl/History.v — operation histories at the three levels, and the known finding classes.
   Definitions only.

   op   : what a caller passes to the blob (L2): locations may be raw block indexes.
   top  : the same operation at tree / map level (L1, L0): locations are reference keys.
   op_to_top translates an L2 operation in the state it is applied to (a raw index that does not name
   a live leaf becomes the always-rejected location KBad). *)
From ChiaV.Base Require Import Bytes.
From ChiaV.Gen Require Import Dl.
From ChiaV.Dl Require Import Format Map Tree Blob Abs.
Open Scope N_scope.

Inductive rloc := RAuto | RRoot | RKey (ref : N) (sd : side) | RIndex (i : N) (sd : side).
Inductive op :=
| OInsert (k v : N) (h : bytes) (loc : rloc)
| ODelete (k : N)
| OUpsert (k v : N) (h : bytes)
| OBatch (items : list item)
| OHash
| OReload.

Inductive tloc' := KAuto | KRoot | KKey (ref : N) (sd : side) | KBad.
Inductive top :=
| TInsert (k v : N) (h : bytes) (loc : tloc')
| TDelete (k : N)
| TUpsert (k v : N) (h : bytes)
| TBatch (items : list item)
| THash
| TReload.

(* ---------- L0 ---------- *)
Definition apply0 (o : top) (m : kvmap) : option kvmap :=
  match o with
  | TInsert k v h loc =>
      let loc_ok := match loc with
                    | KAuto => true
                    | KRoot => match m with [] => true | _ => false end
                    | KKey ref _ => m_mem ref m
                    | KBad => false
                    end in
      if loc_ok then m_insert k v h m else None
  | TDelete k => m_delete k m
  | TUpsert k v h => m_upsert k v h m
  | TBatch items => m_batch items m
  | THash | TReload => Some m
  end.
Definition step0 (o : top) (m : kvmap) : bool * kvmap :=
  match apply0 o m with Some m' => (true, m') | None => (false, m) end.
Fixpoint run0 (ops : list top) (m : kvmap) : kvmap :=
  match ops with [] => m | o :: r => run0 r (snd (step0 o m)) end.

Section HistH.
  Variable H : bytes -> bytes.

  (* ---------- L1 ---------- *)
  Definition step1 (o : top) (ot : option tree) : bool * option tree :=
    match o with
    | TInsert k v h loc =>
        match loc with
        | KAuto => t_insert H k v h TAuto ot
        | KRoot => t_insert H k v h TRoot ot
        | KKey ref sd => t_insert H k v h (TKey ref sd) ot
        | KBad => (false, ot)
        end
    | TDelete k => t_delete k ot
    | TUpsert k v h => t_upsert H k v h ot
    | TBatch items => t_batch H items ot
    | THash => (true, option_map (t_rehash H) ot)
    | TReload => (true, ot)
    end.
  Fixpoint run1 (ops : list top) (ot : option tree) : option tree :=
    match ops with [] => ot | o :: r => run1 r (snd (step1 o ot)) end.

  (* ---------- L2 ---------- *)
  Definition resolve_loc (loc : rloc) (s : mblob) : res iloc :=
    match loc with
    | RAuto => Ok LAuto
    | RRoot => Ok LRoot
    | RKey ref sd =>                     (* what the python binding does *)
        match amap_get N.eqb ref (k2i s) with
        | Some i => Ok (LLeaf i sd)
        | None => Err E_UnknownKey
        end
    | RIndex i sd => Ok (LLeaf i sd)
    end.

  Definition step2 (o : op) (s : mblob) : res (option N) * mblob :=
    match o with
    | OInsert k v h loc =>
        match resolve_loc loc s with
        | Ok l => match insert H k v h l s with
                  | (Ok i, s') => (Ok (Some i), s')
                  | (Err e, s') => (Err e, s')
                  | (Panic, s') => (Panic, s')
                  | (OutOfFuel, s') => (OutOfFuel, s')
                  end
        | Err e => (Err e, s)
        | Panic => (Panic, s)
        | OutOfFuel => (OutOfFuel, s)
        end
    | ODelete k => (x <- delete k ;; ret None) s
    | OUpsert k v h => (x <- upsert H k v h ;; ret None) s
    | OBatch items => (x <- batch_insert H items ;; ret None) s
    | OHash => (x <- calculate_lazy_hashes H ;; ret None) s
    | OReload =>
        match reload (bytes_of_blocks (blocks s)) with
        | Ok s' => (Ok None, s')
        | Err e => (Err e, s)
        | Panic => (Panic, s)
        | OutOfFuel => (OutOfFuel, s)
        end
    end.

  Definition stops {A} (r : res A) : bool := match r with Panic | OutOfFuel => true | _ => false end.

  (* states after each operation; the run ends at a Panic / OutOfFuel *)
  Fixpoint run2 (ops : list op) (s : mblob) : mblob :=
    match ops with
    | [] => s
    | o :: r => let '(x, s') := step2 o s in if stops x then s' else run2 r s'
    end.

  (* the key of the live leaf stored at block index i *)
  Definition live_leaf_key (s : mblob) (i : N) : option N :=
    match get_node s i with
    | Ok (NLeaf l) => if opt_N_eqb (amap_get N.eqb (l_key l) (k2i s)) (Some i) then Some (l_key l) else None
    | _ => None
    end.

  Definition op_to_top (s : mblob) (o : op) : top :=
    match o with
    | OInsert k v h loc =>
        match loc with
        | RAuto => TInsert k v h KAuto
        | RRoot => TInsert k v h KRoot
        | RKey ref sd => TInsert k v h (KKey ref sd)
        | RIndex i sd =>
            match live_leaf_key s i with
            | Some ref => TInsert k v h (KKey ref sd)
            | None => TInsert k v h KBad          (* internal node, out of range, or a stale leaf block: rejected *)
            end
        end
    | ODelete k => TDelete k
    | OUpsert k v h => TUpsert k v h
    | OBatch items => TBatch items
    | OHash => THash
    | OReload => TReload
    end.
End HistH.
