(* Dl/Map.v — L0: the plain finite map key -> (value, leaf hash) and its operations.
   This is the specification the blob is compared with.  Definitions only.

   Leaf hashes are required to be unique by the code (HashAlreadyPresent), so the plain operations
   reject a hash that is already used by another key; a batch is all-or-nothing. *)
From ChiaV.Base Require Import Bytes.
From ChiaV.Dl Require Import Format.
Open Scope N_scope.

Definition kvmap := list (N * (N * bytes)).
Notation item := (N * N * bytes)%type (only parsing).     (* key, value, hash *)

Fixpoint m_get (k : N) (m : kvmap) : option (N * bytes) :=
  match m with
  | [] => None
  | (k', vh) :: r => if k =? k' then Some vh else m_get k r
  end.
Definition m_mem (k : N) (m : kvmap) : bool := match m_get k m with Some _ => true | None => false end.
Definition m_has_hash (h : bytes) (m : kvmap) : bool := existsb (fun e => bytes_eqb h (snd (snd e))) m.
(* the hash is used by a key other than k *)
Definition m_hash_of_other (k : N) (h : bytes) (m : kvmap) : bool :=
  existsb (fun e => negb (fst e =? k) && bytes_eqb h (snd (snd e))) m.
Fixpoint m_remove (k : N) (m : kvmap) : kvmap :=
  match m with
  | [] => []
  | (k', vh) :: r => if k =? k' then m_remove k r else (k', vh) :: m_remove k r
  end.

(* each operation: Some m' on success, None on failure (the map is unchanged) *)
Definition m_insert (k v : N) (h : bytes) (m : kvmap) : option kvmap :=
  if m_mem k m || m_has_hash h m then None else Some ((k, (v, h)) :: m).
Definition m_delete (k : N) (m : kvmap) : option kvmap :=
  if m_mem k m then Some (m_remove k m) else None.
Definition m_upsert (k v : N) (h : bytes) (m : kvmap) : option kvmap :=
  if m_mem k m then
    if m_hash_of_other k h m then None else Some ((k, (v, h)) :: m_remove k m)
  else m_insert k v h m.
Fixpoint m_batch (items : list item) (m : kvmap) : option kvmap :=
  match items with
  | [] => Some m
  | (k, v, h) :: r => match m_insert k v h m with Some m' => m_batch r m' | None => None end
  end.

(* Vec::pop *)
Definition pop_last {A} (l : list A) : option (list A * A) :=
  match rev l with [] => None | x :: r => Some (rev r, x) end.

(* set-level equality of finite maps *)
Definition m_equiv (a b : kvmap) : Prop := forall k, m_get k a = m_get k b.

Definition mkeys (m : kvmap) : list N := map fst m.
Definition mhashes (m : kvmap) : list bytes := map (fun e => snd (snd e)) m.
(* the plain-map invariant: keys and leaf hashes are duplicate-free *)
Definition m_ok (m : kvmap) : Prop := NoDup (mkeys m) /\ NoDup (mhashes m).
Definition entry_of (it : item) : N * (N * bytes) := let '(k, v, h) := it in (k, (v, h)).
