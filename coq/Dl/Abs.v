(* Dl/Abs.v — the abstraction from a blob (L2) to the tree it represents (L1) and the executable
   form of the representation invariant.  Definitions only.

   abs_i follows child indexes from block 0 and checks on the way that every node's parent field
   names the node it was reached from and that leaves are clean; the result keeps the block index of
   every node (itree), from which the caches and the free list are specified. *)
From ChiaV.Base Require Import Bytes.
From ChiaV.Gen Require Import Dl.
From ChiaV.Dl Require Import Format Map Tree Blob.
Open Scope N_scope.

Inductive itree :=
| ILeaf (i : N) (k v : N) (h : bytes)
| INode (i : N) (h : bytes) (d : bool) (l r : itree).

Fixpoint erase (t : itree) : tree :=
  match t with
  | ILeaf _ k v h => TLeaf k v h
  | INode _ h d l r => TNode h d (erase l) (erase r)
  end.
Fixpoint it_indices (t : itree) : list N :=
  match t with
  | ILeaf i _ _ _ => [i]
  | INode i _ _ l r => i :: it_indices l ++ it_indices r
  end.
(* (index, key, value, hash) of every leaf, left to right *)
Fixpoint it_leaves (t : itree) : list (N * N * N * bytes) :=
  match t with
  | ILeaf i k v h => [(i, k, v, h)]
  | INode _ _ _ l r => it_leaves l ++ it_leaves r
  end.
Fixpoint it_hashes (t : itree) : list bytes :=
  match t with
  | ILeaf _ _ _ h => [h]
  | INode _ h _ l r => h :: it_hashes l ++ it_hashes r
  end.
Definition it_index (t : itree) : N := match t with ILeaf i _ _ _ => i | INode i _ _ _ _ => i end.

Definition opt_N_eqb (a b : option N) : bool :=
  match a, b with
  | None, None => true
  | Some x, Some y => x =? y
  | _, _ => false
  end.

Fixpoint abs_at (fuel : nat) (bl : list bytes) (idx : N) (parent : option N) : option itree :=
  match fuel with
  | O => None
  | S f =>
      match blocks_get bl idx with
      | Ok b =>
          if opt_N_eqb (node_parent (b_node b)) parent then
            match b_node b with
            | NLeaf l => if b_dirty b then None else Some (ILeaf idx (l_key l) (l_value l) (l_hash l))
            | NInt n =>
                match abs_at f bl (i_left n) (Some idx), abs_at f bl (i_right n) (Some idx) with
                | Some l, Some r => Some (INode idx (i_hash n) (b_dirty b) l r)
                | _, _ => None
                end
            end
          else None
      | _ => None
      end
  end.

(* None: the blob does not represent a tree; Some None: the empty tree *)
Definition abs_i (s : mblob) : option (option itree) :=
  match blocks s with
  | [] => Some None
  | bl => option_map Some (abs_at (S (length bl)) bl 0 None)
  end.
Definition abs (s : mblob) : option (option tree) := option_map (option_map erase) (abs_i s).

Fixpoint nodup_b (l : list N) : bool :=
  match l with [] => true | x :: r => negb (nmem x r) && nodup_b r end.

Section InvH.
  Variable H : bytes -> bytes.

  (* L1 well-formedness, executable: a clean node has only clean descendants and stores the
     internal hash of its children's stored hashes *)
  Fixpoint t_wf_b (t : tree) : bool :=
    match t with
    | TLeaf _ _ _ => true
    | TNode hh d l r =>
        t_wf_b l && t_wf_b r &&
        (d || (t_all_clean l && t_all_clean r && bytes_eqb hh (internal_hash H (t_hash l) (t_hash r))))
    end.

  (* the hash part of the invariant, evaluated on the abstraction *)
  Definition wf_b (s : mblob) : bool :=
    match abs s with
    | Some (Some t) => t_wf_b t
    | Some None => true
    | None => false
    end.
End InvH.

(* the structural part of the representation invariant (no hashing) *)
Section InvS.
  Definition leaf_ok (x : N * N * N * bytes) : bool :=
    let '(i, k, v, h) := x in
    (k <? 2 ^ 64) && (v <? 2 ^ 64) && (length h =? HASH_BYTES)%nat.

  Definition inv_b (s : mblob) : bool :=
    match abs_i s with
    | None => false
    | Some None =>
        match blocks s, free s, k2i s, h2i s with [], [], [], [] => true | _, _, _, _ => false end
    | Some (Some it) =>
        let ix := it_indices it in
        let lv := it_leaves it in
        let n := length (blocks s) in
        (N.of_nat n <=? 2 ^ 32)
        && forallb (fun b => (length b =? N.to_nat BLOCK_SIZE)%nat) (blocks s)
        && nodup_b ix && nodup_b (free s)
        && forallb (fun i => xorb (nmem i ix) (nmem i (free s))) (iota_N n)
        && forallb (fun i => i <? N.of_nat n) (free s)
        && (length (k2i s) =? length lv)%nat && (length (h2i s) =? length lv)%nat
        && forallb (fun '(i, k, v, h) =>
                      opt_N_eqb (amap_get N.eqb k (k2i s)) (Some i)
                      && opt_N_eqb (amap_get bytes_eqb h (h2i s)) (Some i)) lv
        && forallb leaf_ok lv
        && forallb (fun h => (length h =? HASH_BYTES)%nat) (it_hashes it)
    end.
End InvS.
