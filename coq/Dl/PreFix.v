(* Dl/PreFix.v — the three operations as they were on the pinned tree BEFORE the repairs
   (commits a9e08b84, c5be66b8, 9e5ac516 in /repo): insert did not check that the block at a raw leaf index
   is live, batch_insert validated only the items it inserts one by one, upsert did not look at the new
   hash.  Kept only to document the former behaviour (Refuted.v); nothing else depends on this file. *)
From ChiaV.Base Require Import Bytes.
From ChiaV.Gen Require Import Dl.
From ChiaV.Dl Require Import Format Map Blob.
Open Scope N_scope.

Section PreFixH.
  Variable H : bytes -> bytes.

  Definition insert_pre (key value : N) (hash : bytes) (loc : iloc) : M N := fun s =>
    if amap_mem N.eqb key (k2i s) then (Err E_KeyAlreadyPresent, s)
    else if amap_mem bytes_eqb hash (h2i s) then (Err E_HashAlreadyPresent, s)
    else
      match (match loc with LAuto => get_random_insert_location_by_key_id H key s | _ => Ok loc end) with
      | Ok LAuto => (Panic, s)                       (* unreachable!() *)
      | Ok LRoot =>
          if negb (leaf_count s =? 0) then (Err E_UnableToInsertAsRootOfNonEmptyTree, s)
          else insert_first key value hash s
      | Ok (LLeaf index sd) =>
          match get_node s index with
          | Ok (NLeaf old_leaf) =>
              let ih := match sd with
                        | SLeft => internal_hash H hash (l_hash old_leaf)
                        | SRight => internal_hash H (l_hash old_leaf) hash
                        end in
              let nd := mkLeaf hash None key value in
              if leaf_count s =? 1 then insert_second nd old_leaf ih sd s
              else insert_third_or_later nd old_leaf index ih sd s
          | Ok (NInt _) => (Err E_NodeNotALeaf, s)
          | Err e => (Err e, s)
          | Panic => (Panic, s)
          | OutOfFuel => (OutOfFuel, s)
          end
      | Err e => (Err e, s)
      | Panic => (Panic, s)
      | OutOfFuel => (OutOfFuel, s)
      end.

  Definition batch_insert_pre (items : list item) : M unit := fun s =>
    if leaf_count s <=? 1 then
      match pop_last items with
      | None => (Ok tt, s)
      | Some (r1, (k1, v1, h1)) =>
          match insert_pre k1 v1 h1 LAuto s with
          | (Ok _, s1) =>
              match pop_last r1 with
              | None => (Ok tt, s1)
              | Some (r2, (k2, v2, h2)) =>
                  match insert_pre k2 v2 h2 LAuto s1 with
                  | (Ok _, s2) => batch_tail H r2 s2
                  | (Err e, s2) => (Err e, s2)
                  | (Panic, s2) => (Panic, s2)
                  | (OutOfFuel, s2) => (OutOfFuel, s2)
                  end
              end
          | (Err e, s1) => (Err e, s1)
          | (Panic, s1) => (Panic, s1)
          | (OutOfFuel, s1) => (OutOfFuel, s1)
          end
      end
    else batch_tail H items s.

  Definition upsert_pre (key value : N) (new_hash : bytes) : M unit := fun s =>
    match get_leaf_by_key s key with
    | Ok (leaf_index, lf, blk) =>
        (remove_leaf lf ;;;
         let lf' := mkLeaf new_hash (l_parent lf) (l_key lf) value in
         insert_entry_to_blob leaf_index (mkBlock (b_dirty blk) (NLeaf lf')) ;;;
         match l_parent lf' with
         | Some p => mark_lineage_as_dirty p
         | None => ret tt
         end) s
    | Panic => (Panic, s)
    | _ => (i <- insert_pre key value new_hash LAuto ;; ret tt) s      (* `let Ok(..) = .. else` *)
    end.


  Definition wrap_opt {A} (r : res A * mblob) : res (option N) * mblob :=
    match r with
    | (Ok _, s') => (Ok None, s')
    | (Err e, s') => (Err e, s')
    | (Panic, s') => (Panic, s')
    | (OutOfFuel, s') => (OutOfFuel, s')
    end.
End PreFixH.
