(* Dl/Spec.v — what C18 demands of a blob state, as predicates over the L2 model.  Definitions only. *)
From ChiaV.Base Require Import Bytes.
From ChiaV.Gen Require Import Dl.
From ChiaV.Dl Require Import Format Map Tree Blob Abs Inv History.
Open Scope N_scope.

(* the blob's key/value content (through its key cache, as get_keys_values reads it) is the map m *)
Definition content_is (s : mblob) (m : kvmap) : Prop :=
  exists l, get_keys_values s = Ok l /\
            NoDup (map fst l) /\
            forall k v, In (k, v) l <-> exists h, m_get k m = Some (v, h).

(* two blobs with the same bytes, set-equal caches and set-equal free lists *)
Definition blob_equiv (a b : mblob) : Prop :=
  blocks a = blocks b /\
  (forall k, amap_get N.eqb k (k2i a) = amap_get N.eqb k (k2i b)) /\
  (forall h, amap_get bytes_eqb h (h2i a) = amap_get bytes_eqb h (h2i b)) /\
  (forall i, In i (free a) <-> In i (free b)).

(* inputs in the range of the Rust types (i64 key / value, 32-byte hash) *)
Definition in_range (k v : N) (h : bytes) : Prop := k < 2 ^ 64 /\ v < 2 ^ 64 /\ length h = HASH_BYTES.
Definition op_in_range (o : op) : Prop :=
  match o with
  | OInsert k v h _ | OUpsert k v h => in_range k v h
  | OBatch items => Forall (fun it : item => in_range (fst (fst it)) (snd (fst it)) (snd it)) items
  | _ => True
  end.
Definition is_idu (o : op) : bool :=
  match o with OInsert _ _ _ _ | ODelete _ | OUpsert _ _ _ => true | _ => false end.
(* room for two more blocks: TreeIndex is u32 and the model does not wrap *)
Definition room (s : mblob) : Prop := N.of_nat (length (blocks s)) + 2 <= 2 ^ 32.
(* a batch of n items allocates at most 2 n + 2 blocks *)
Definition room_for (o : op) (s : mblob) : Prop :=
  match o with
  | OBatch items => N.of_nat (length (blocks s)) + 2 * N.of_nat (length items) + 2 <= 2 ^ 32
  | _ => room s
  end.

Section SpecH.
  Variable H : bytes -> bytes.

  (* the per-operation commuting square: the blob operation neither panics nor runs out of fuel, succeeds
     exactly when the tree operation does, the new blob represents the new tree (Abs = Inv + abstraction),
     and a failed operation leaves the blob unchanged *)
  Definition step_ok (o : op) (s : mblob) (ot : option tree) (t : top) : Prop :=
    let '(x, s') := step2 H o s in
    let '(ok1, ot1) := step1 H t ot in
    stops x = false /\ is_ok x = ok1 /\ Abs H s' ot1 /\ (ok1 = false -> s' = s).

  (* before every operation of the history the blob has room *)
  Fixpoint rooms (ops : list op) (s : mblob) : Prop :=
    match ops with [] => True | o :: r => room_for o s /\ rooms r (snd (step2 H o s)) end.

  Definition good_state (s : mblob) (m : kvmap) : Prop :=
    content_is s m /\
    check_integrity H s = Ok tt /\
    exists s', reload (bytes_of_blocks (blocks s)) = Ok s' /\ blob_equiv s s'.

  (* joint run of a raw history on the blob and of its translation on the plain map;
     the flag is false if an operation panicked / ran out of fuel or a failed operation changed the blob *)
  Fixpoint run_joint (ops : list op) (s : mblob) (m : kvmap) : mblob * kvmap * bool :=
    match ops with
    | [] => (s, m, true)
    | o :: r =>
        let t := op_to_top s o in
        let '(x, s') := step2 H o s in
        match x with
        | Ok _ => run_joint r s' (snd (step0 t m))
        | Err _ => run_joint r s' (snd (step0 t m))
        | _ => (s', m, false)
        end
    end.
End SpecH.
