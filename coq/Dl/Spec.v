(* Dl/Spec.v — what C18 demands of a blob state, as predicates over the L2 model.  Definitions only. *)
From ChiaV.Base Require Import Bytes.
From ChiaV.Dl Require Import Format Map Tree Blob Abs History.
Open Scope N_scope.

(* the blob's key/value content (through its key cache, as get_keys_values reads it) is the map m *)
Definition content_is (s : mblob) (m : kvmap) : Prop :=
  exists l, get_keys_values s = Ok l /\
            NoDup (map fst l) /\
            forall k v, In (k, v) l <-> exists h, m_get k m = Some (v, h).

(* two blobs with the same bytes, set-equal caches and set-equal free lists *)
Definition blob_equiv (a b : mblob) : Prop :=
  blocks a = blocks b /\
  (forall k, amap_get N.eqb k (k2i a) = amap_get N.eqb k (k2i b)) /\
  (forall h, amap_get bytes_eqb h (h2i a) = amap_get bytes_eqb h (h2i b)) /\
  (forall i, In i (free a) <-> In i (free b)).

Section SpecH.
  Variable H : bytes -> bytes.

  Definition good_state (s : mblob) (m : kvmap) : Prop :=
    content_is s m /\
    check_integrity H s = Ok tt /\
    exists s', reload (bytes_of_blocks (blocks s)) = Ok s' /\ blob_equiv s s'.

  (* joint run of a raw history on the blob and of its translation on the plain map;
     the flag is false if an operation panicked / ran out of fuel or a failed operation changed the blob *)
  Fixpoint run_joint (ops : list op) (s : mblob) (m : kvmap) : mblob * kvmap * bool :=
    match ops with
    | [] => (s, m, true)
    | o :: r =>
        match op_to_top s o with
        | None => (s, m, true)
        | Some t =>
            let '(x, s') := step2 H o s in
            match x with
            | Ok _ => run_joint r s' (snd (step0 t m))
            | Err _ => run_joint r s' (snd (step0 t m))
            | _ => (s', m, false)
            end
        end
    end.
End SpecH.
