(* Dl/BlobOps8.v — L2: histories of ALL operations (insert, delete, upsert, batch_insert accepted or
   rejected, calculate_lazy_hashes, reload): Inv is preserved, the blob represents the L1 tree, the L1
   tree refines the plain map, and the final state is good (content = map, check_integrity = Ok, reload
   equivalent). *)
From Coq Require Import Permutation.
From ChiaV.Base Require Import Bytes Sha256.
From ChiaV.Gen Require Import Dl.
From ChiaV.Dl Require Import Format Map Tree Blob Abs Inv History Spec FormatProofs MapProofs TreeProofs BlobLemmas BlobOps BlobOps2 BlobOps5 BlobOps6 BlobOps7 BlobHash BlobReload BlobIntegrity BlobBatch BlobBatch3.
Open Scope N_scope.

Section All.
  Variable H : bytes -> bytes.
  Hypothesis Hlen : forall x, length (H x) = HASH_BYTES.

  Theorem reload_step s ot : Abs H s ot -> step_ok H OReload s ot TReload.
  Proof.
    intros Habs. unfold step_ok. cbn [step2 step1].
    destruct Habs as [[-> ->]|[t [HI ->]]].
    - rewrite reload_empty. cbn. repeat split; auto. left. auto.
    - destruct (reload_ok H s t HI) as [s' [E [_ HI']]]. rewrite E. cbn. repeat split; auto; [|discriminate].
      right. eauto.
  Qed.

  Theorem rejected_batch_step s ot m items :
    Abs H s ot -> tree_refines H ot m -> m_batch items m = None -> step_ok H (OBatch items) s ot (TBatch items).
  Proof.
    intros Habs [P _] Hb. unfold step_ok.
    assert (Hb' : m_batch items (ot_kv ot) = None).
    { apply (m_batch_ext items (ot_kv ot) m); [intros; now apply m_mem_perm|intros; now apply m_has_hash_perm|exact Hb]. }
    destruct (batch_rejected_step H s ot items Habs Hb') as [e [E1 E2]]. rewrite E1, E2. cbn. repeat split; auto.
  Qed.

  Theorem accepted_batch_step s ot m items m' :
    Abs H s ot -> tree_refines H ot m -> op_in_range (OBatch items) -> room_for (OBatch items) s ->
    m_batch items m = Some m' -> step_ok H (OBatch items) s ot (TBatch items).
  Proof.
    intros Habs [P _] Hrg Hroom Hb. unfold step_ok.
    assert (Hb' : exists m2, m_batch items (ot_kv ot) = Some m2).
    { destruct (m_batch items (ot_kv ot)) as [m2|] eqn:E; [eauto|]. exfalso.
      apply (m_batch_ext items (ot_kv ot) m) in E; [congruence|intros; now apply m_mem_perm|intros; now apply m_has_hash_perm]. }
    destruct Hb' as [m2 Hb'].
    destruct (batch_accept_step H Hlen s ot items m2 Habs Hrg Hroom Hb') as [s' [ot' [E1 [E2 HA]]]].
    cbn [step2 step1]. unfold bind. rewrite E1, E2. cbn. repeat split; auto. discriminate.
  Qed.

  Lemma step_ok_all o s ot m :
    Abs H s ot -> tree_refines H ot m -> op_in_range o -> room_for o s -> step_ok H o s ot (op_to_top s o).
  Proof.
    intros Habs HR Hr Hroom. destruct o as [k v h loc|k|k v h|items| |]; cbn [op_to_top].
    - now apply insert_step.
    - now apply delete_step.
    - now apply upsert_step.
    - destruct (m_batch items m) as [m'|] eqn:Eb.
      + eapply accepted_batch_step; eauto.
      + eapply rejected_batch_step; eauto.
    - now apply hash_step.
    - now apply reload_step.
  Qed.

  Theorem history_all : forall ops s ot m,
    Abs H s ot -> tree_refines H ot m ->
    Forall op_in_range ops -> rooms H ops s ->
    let '(s', m', fine) := run_joint H ops s m in
    fine = true /\ exists ot', Abs H s' ot' /\ tree_refines H ot' m'.
  Proof.
    induction ops as [|o r IH]; intros s ot m Habs HR Hrg Hrooms; cbn [run_joint].
    - split; [reflexivity|eauto].
    - inversion Hrg as [|? ? Hr Hrg']; subst.
      cbn [rooms] in Hrooms. destruct Hrooms as [Hroom Hrooms']. cbv zeta.
      pose proof (step_ok_all o s ot m Habs HR Hr Hroom) as Hs. unfold step_ok in Hs.
      pose proof (step_refines H (Hne_of_len H Hlen) (op_to_top s o) ot m HR) as Hl.
      destruct (step2 H o s) as [x s'] eqn:E2. destruct (step1 H (op_to_top s o) ot) as [ok1 ot1].
      destruct (step0 (op_to_top s o) m) as [ok0 m0].
      cbn [snd] in *. destruct Hs as [Hst [Hok [Habs' _]]]. destruct Hl as [_ [HR' _]].
      destruct x as [y|e| |]; try discriminate; apply (IH s' ot1 m0); auto.
  Qed.

  Lemma Abs_good s ot m : Abs H s ot -> tree_refines H ot m -> Inv H s /\ good_state H s m.
  Proof.
    intros Habs HR. split; [|split; [|split]].
    - destruct Habs as [[-> _]|[t [HI _]]]; [now left|right; eauto].
    - eapply content_is_map; eauto.
    - destruct Habs as [[-> _]|[t [HI _]]]; [apply integrity_empty|now apply (integrity_ok H Hlen s t)].
    - destruct Habs as [[-> _]|[t [HI _]]].
      + exists empty_blob. split; [apply reload_empty|]. repeat split; auto.
      + destruct (reload_ok H s t HI) as [s' [E [Heq _]]]. eauto.
  Qed.

  (* the end-to-end statement *)
  Theorem blob_history_good ops :
    Forall op_in_range ops -> rooms H ops empty_blob ->
    let '(s', m', fine) := run_joint H ops empty_blob [] in
    fine = true /\ Inv H s' /\ good_state H s' m' /\
    exists ot', Abs H s' ot' /\ abs s' = Some ot' /\ tree_refines H ot' m'.
  Proof.
    intros Hr Hro.
    pose proof (history_all ops empty_blob None [] (or_introl (conj eq_refl eq_refl)) (R_empty H) Hr Hro) as Hh.
    destruct (run_joint H ops empty_blob []) as [[s' m'] fine]. destruct Hh as [Hf [ot' [HA HR]]].
    destruct (Abs_good s' ot' m' HA HR) as [HI Hg].
    split; [exact Hf|]. split; [exact HI|]. split; [exact Hg|]. exists ot'. split; [exact HA|]. split; [|exact HR].
    now apply (Abs_abs H).
  Qed.
End All.
