(* Dl/BlobBatch3.v — L2 -> L1: the accepted batch_insert.  Part 3: assembly (the two leading inserts at the
   Auto location, batch_leaves, batch_levels, get_min_height_leaf, insert_subtree_at_key). *)
From Coq Require Import Permutation.
From ChiaV.Base Require Import Bytes Sha256.
From ChiaV.Gen Require Import Dl.
From ChiaV.Dl Require Import Format Map Tree Blob Abs Inv History Spec FormatProofs MapProofs TreeProofs BlobLemmas BlobOps BlobOps2 BlobOps3 BlobOps4 BlobOps5 BlobOps6 BlobOps7 BlobHash BlobIntegrity BlobBfs BlobBatch BlobBatch2.
From Coq Require Import ZifyBool ZifyNat ZifyN.
Ltac Zify.zify_post_hook ::= Z.div_mod_to_equations.
Open Scope N_scope.

Lemma erase_plug_node c : forall t, c <> [] -> exists hh d l r, erase (plug c t) = TNode hh d l r.
Proof.
  induction c as [|f c IH]; intros t Hc; [congruence|]. cbn [plug]. destruct c as [|g c'].
  - cbn [plug]. destruct f as [i hh d [|] sib]; cbn [fill erase]; eauto.
  - apply IH. discriminate.
Qed.

Lemma ikeys_entry items : map fst (map entry_of items) = ikeys items.
Proof. unfold ikeys. rewrite map_map. apply map_ext. now intros [[k v] h]. Qed.
Lemma ihashes_entry items : mhashes (map entry_of items) = ihashes items.
Proof. unfold mhashes, ihashes. rewrite map_map. apply map_ext. now intros [[k v] h]. Qed.
Lemma mkeys_erase t : mkeys (t_kv (erase t)) = map lkey (it_leaves t).
Proof. unfold mkeys. rewrite erase_kv, map_map. apply map_ext. now intros [[[i k] v] h]. Qed.
Lemma mhashes_erase t : mhashes (t_kv (erase t)) = map snd (it_leaves t).
Proof. unfold mhashes. rewrite erase_kv, map_map. apply map_ext. now intros [[[i k] v] h]. Qed.

Section Accept.
  Variable H : bytes -> bytes.
  Hypothesis Hlen : forall x, length (H x) = HASH_BYTES.

  Lemma inv_m_ok s t : Inv_tree H s t -> m_ok (t_kv (erase t)).
  Proof.
    intros HI. split; [rewrite mkeys_erase; exact (inv_keys _ _ _ HI)|rewrite mhashes_erase; exact (inv_hashes _ _ _ HI)].
  Qed.

  (* insert at the Auto location of a fresh key / hash: everything, plus the growth bound *)
  Lemma insert_auto_full s ot k v h :
    Abs H s ot -> in_range k v h -> room s ->
    ~ In k (mkeys (ot_kv ot)) -> ~ In h (mhashes (ot_kv ot)) ->
    exists i s' t', insert H k v h LAuto s = (Ok i, s') /\
      t_insert H k v h TAuto ot = (true, Some (erase t')) /\ Inv_tree H s' t' /\
      nblocks s' <= N.max (nblocks s) 1 + 2.
  Proof.
    intros Habs [Hk [Hv Hh]] Hroom Hkf Hhf. destruct Habs as [[-> ->]|[t [HI ->]]].
    - destruct (insert_first_ok H k v h LAuto Hk Hv Hh (or_introl eq_refl)) as [s' [E1 [HI' [E2 Hn]]]].
      exists 0, s', (ILeaf 0 k v h). split; [exact E1|]. split; [exact E2|]. split; [exact HI'|].
      pose proof (N.le_max_r (nblocks empty_blob) 1). lia.
    - cbn [ot_kv] in Hkf, Hhf. rewrite mkeys_erase in Hkf. rewrite mhashes_erase in Hhf.
      destruct (auto_location H Hlen s t k HI) as [i [sd [kref [v0 [h0 [E1 [E2 Hin]]]]]]].
      rewrite (insert_auto_leaf H _ _ _ _ _ _ E1), (t_insert_auto_key H _ _ _ _ _ _ E2).
      destruct (leaf_in_ctx _ _ Hin) as [c Et]. cbn in Et. subst t. destruct c as [|f c'].
      + cbn [plug] in *.
        assert (Hkne : k <> kref) by (intros ->; apply Hkf; cbn; now left).
        assert (Hhne : h <> h0) by (intros ->; apply Hhf; cbn; now left).
        destruct (insert_second_ok H Hlen s i kref v0 h0 k v h sd HI Hk Hv Hh Hkne Hhne) as [s' [E3 [HI' [E4 Hn]]]].
        eexists _, s', _. split; [exact E3|]. split; [exact E4|]. split; [exact HI'|].
        pose proof (N.le_max_r (nblocks s) 1). lia.
      + destruct (insert_at_leaf_3 H Hlen s (f :: c') i kref v0 h0 k v h sd HI) as [s' [a [b [E3 [HI' [E4 Hn]]]]]]; auto; [discriminate|].
        eexists _, s', _. split; [exact E3|]. split; [exact E4|]. split; [exact HI'|].
        pose proof (N.le_max_l (nblocks s) 1). lia.
  Qed.

  Lemma Abs_refines_self s ot : Abs H s ot -> tree_refines H ot (ot_kv ot).
  Proof.
    intros [[-> ->]|[t [HI ->]]]; [apply R_empty|]. split; [reflexivity|]. split; [exact (inv_m_ok s t HI)|exact (inv_twf _ _ _ HI)].
  Qed.

  (* one of the two leading inserts of an accepted batch *)
  Lemma accept_insert s ot r k v h m' :
    Abs H s ot -> in_range k v h -> room s -> m_batch (r ++ [(k, v, h)]) (ot_kv ot) = Some m' ->
    exists i s1 t1 m1, insert H k v h LAuto s = (Ok i, s1) /\
      t_insert H k v h TAuto ot = (true, Some (erase t1)) /\ Inv_tree H s1 t1 /\
      m_batch r (t_kv (erase t1)) = Some m1 /\
      nblocks s1 <= N.max (nblocks s) 1 + 2 /\
      length (it_leaves t1) = S (length (ot_kv ot)).
  Proof.
    intros Habs Hr Hroom Hb. pose proof (Abs_refines_self s ot Habs) as HR. pose proof HR as [_ [Hok _]].
    destruct (m_batch_last r k v h _ _ Hok Hb) as [m2 [Ei [Hb2 _]]].
    destruct (m_insert_ok _ _ _ _ _ Hok Ei) as [_ [Hkf [Hhf Hok1]]].
    destruct (insert_auto_full s ot k v h Habs Hr Hroom Hkf Hhf) as [i [s1 [t1 [E1 [E2 [HI1 Hn1]]]]]].
    destruct (t_insert_fresh H (Hne_of_len H Hlen) k v h TAuto ot _ HR Hkf Hhf I) as [t' [E3 [P1 _]]].
    rewrite E2 in E3. injection E3 as <-. cbn [ot_kv] in P1.
    assert (Hb3 : exists m1, m_batch r (t_kv (erase t1)) = Some m1).
    { destruct (m_batch r (t_kv (erase t1))) as [m1|] eqn:E; [eauto|]. exfalso.
      apply (m_batch_ext r _ ((k, (v, h)) :: ot_kv ot)) in E; [congruence| |].
      - intros k0. now apply m_mem_perm.
      - intros h1. now apply m_has_hash_perm. }
    destruct Hb3 as [m1 Hb3]. exists i, s1, t1, m1.
    split; [exact E1|]. split; [exact E2|]. split; [exact HI1|]. split; [exact Hb3|]. split; [exact Hn1|].
    assert (El : length (it_leaves t1) = length (t_kv (erase t1))) by (rewrite erase_kv, map_length; reflexivity).
    rewrite El, (Permutation_length P1). reflexivity.
  Qed.
End Accept.

Section Tail.
  Variable H : bytes -> bytes.
  Hypothesis Hlen : forall x, length (H x) = HASH_BYTES.

  Lemma batch_tail_ok s t items m' :
    Inv_tree H s t -> (2 <= length (it_leaves t))%nat -> Forall item_range items ->
    m_batch items (t_kv (erase t)) = Some m' ->
    nblocks s + 2 * N.of_nat (length items) <= 2 ^ 32 ->
    exists s' ot', batch_tail H items s = (Ok tt, s') /\
      t_batch_tail H items (Some (erase t)) = (true, ot') /\ Abs H s' ot'.
  Proof.
    intros HI Hl2 Hrg Hb Hroom.
    destruct items as [|it0 items0] eqn:Eit.
    - exists s, (Some (erase t)). split; [reflexivity|]. split; [reflexivity|]. right. eauto.
    - rewrite <- Eit in *. assert (Hitne : items <> []) by (rewrite Eit; discriminate). clear Eit it0 items0.
      pose proof (m_batch_fresh _ _ _ (inv_m_ok H s t HI) Hb) as [Nk [Nh [Fk Fh]]].
      rewrite ikeys_entry in Nk. rewrite ihashes_entry in Nh.
      unfold mkeys in Fk at 1. rewrite ikeys_entry, mkeys_erase in Fk. rewrite ihashes_entry, mhashes_erase in Fh.
      (* the leaves *)
      destruct (batch_leaves_ok H t items s [] (Forest_of_inv H s t HI) Hrg) as [s1 [F' [E1 [HF1 [Ee Hn1]]]]].
      { cbn [fleaves flat_map]. rewrite app_nil_r. apply NoDup_app_intro; [exact (inv_keys _ _ _ HI)|exact Nk|].
        intros x Hx Hy. exact (Fk x Hy Hx). }
      { cbn [fleaves flat_map]. rewrite app_nil_r. apply NoDup_app_intro; [exact (inv_hashes _ _ _ HI)|exact Nh|].
        intros x Hx Hy. exact (Fh x Hy Hx). }
      { lia. }
      cbn [app] in HF1.
      assert (Elen : length F' = length items) by (rewrite <- (map_length erase), Ee, map_length; reflexivity).
      assert (HF'ne : F' <> []) by (intros ->; destruct items; [congruence|discriminate]).
      (* the levels *)
      destruct (levels_ok H Hlen t (length F') F' s1 HF'ne (le_n _) HF1) as [s2 [x [E2 [HF2 [Eb Hn2]]]]]; [lia|].
      (* the attachment point *)
      pose proof (f_rep _ _ _ _ HF2) as Hrep2. pose proof (f_root _ _ _ _ HF2) as Hroot2.
      destruct (NoDup_app_inv _ _ (f_nodup _ _ _ _ HF2)) as [Hnd2 _].
      destruct (min_leaf_rep H Hlen s2 t Hrep2 Hroot2 Hnd2) as [l [i [Em [Et Hin]]]].
      destruct (leaf_in_ctx _ _ Hin) as [c Etc]. cbn in Etc.
      assert (Hc : c <> []).
      { intros ->. cbn [plug] in Etc. rewrite Etc in Hl2. cbn in Hl2. lia. }
      rewrite Etc in HF2.
      destruct (attach_ok H Hlen s2 c i (l_key l) (l_value l) (l_hash l) x HF2 Hc) as [s3 [b [E3 [HI3 [Hg Hn3]]]]]; [lia|].
      exists s3, (Some (erase (plug (map set_dirty c) (att_node H b x i (l_key l) (l_value l) (l_hash l))))).
      split; [|split; [|right; eauto]].
      + unfold batch_tail. unfold bind at 1. rewrite E1. rewrite map_length. unfold bind at 1. rewrite E2.
        unfold bind at 1. unfold read. rewrite Em. exact E3.
      + unfold t_batch_tail, build_subtree. rewrite <- Ee, <- Elen, Eb, Et.
        destruct (erase_plug_node c (ILeaf i (l_key l) (l_value l) (l_hash l)) Hc) as [hh [d [lt [rt En]]]].
        rewrite Etc in *. rewrite En. rewrite <- En. rewrite Hg. reflexivity.
  Qed.

  Lemma lc_eq s ot : Abs H s ot -> (leaf_count s <=? 1) = (ot_leaf_count ot <=? 1)%nat.
  Proof.
    intros [[-> ->]|[t [HI ->]]]; [reflexivity|]. rewrite (leaf_count_leaves H _ _ HI). unfold ot_leaf_count. cbn [ot_kv].
    rewrite erase_kv, map_length. destruct (Nat.leb_spec (length (it_leaves t)) 1); [apply N.leb_le|apply N.leb_gt]; lia.
  Qed.

  Lemma validate_ok s ot items m' : Abs H s ot -> m_batch items (ot_kv ot) = Some m' -> batch_validate items [] [] s = Ok tt.
  Proof.
    intros Habs Hb.
    assert (Hcache : (forall k, m_mem k (ot_kv ot) = amap_mem N.eqb k (k2i s) || nmem k []) /\
                     (forall h, m_has_hash h (ot_kv ot) = amap_mem bytes_eqb h (h2i s) || existsb (bytes_eqb h) [])).
    { destruct Habs as [[-> ->]|[t0 [HI ->]]]; [split; reflexivity|]. cbn [ot_kv nmem existsb]. split.
      - intros k. rewrite orb_false_r. apply bool_iff_eq. rewrite m_mem_erase. symmetry. apply (key_cached H). exact HI.
      - intros h. rewrite orb_false_r. apply bool_iff_eq. rewrite m_has_hash_erase. symmetry. apply (hash_cached H). exact HI. }
    destruct Hcache as [Hk Hh].
    destruct (batch_validate_spec items s (ot_kv ot) [] [] Hk Hh) as [[_ Hv] [E|[e E]]]; [exact E|].
    rewrite (Hv (ex_intro _ e E)) in Hb. discriminate.
  Qed.

  (* the accepted batch *)
  Theorem batch_accept_step s ot items m' :
    Abs H s ot -> Forall item_range items ->
    nblocks s + 2 * N.of_nat (length items) + 2 <= 2 ^ 32 ->
    m_batch items (ot_kv ot) = Some m' ->
    exists s' ot', batch_insert H items s = (Ok tt, s') /\ t_batch H items ot = (true, ot') /\ Abs H s' ot'.
  Proof.
    intros Habs Hrg Hroom Hb. unfold batch_insert, t_batch. rewrite (validate_ok s ot items m' Habs Hb), Hb.
    unfold t_batch_body. rewrite <- (lc_eq s ot Habs).
    destruct (leaf_count s <=? 1) eqn:Elc.
    - pose proof (pop_last_spec items) as Hp. destruct (pop_last items) as [[r1 [[k1 v1] h1]]|].
      + subst items. rewrite app_length in Hroom. cbn [length] in Hroom.
        apply Forall_app in Hrg as [Hrg1 Hr1]. inversion Hr1 as [|? ? Hr1' _]; subst. unfold item_range in Hr1'. cbn [fst snd] in Hr1'.
        destruct (accept_insert H Hlen s ot r1 k1 v1 h1 m' Habs Hr1') as [i1 [s1 [t1 [m1 [E1 [E2 [HI1 [Hb1 [Hn1 Hl1]]]]]]]]]; [unfold room; unfold nblocks in *; lia|exact Hb|].
        rewrite E1, E2.
        pose proof (pop_last_spec r1) as Hp1. destruct (pop_last r1) as [[r2 [[k2 v2] h2]]|].
        * subst r1. rewrite app_length in Hroom. cbn [length] in Hroom.
          apply Forall_app in Hrg1 as [Hrg2 Hr2]. inversion Hr2 as [|? ? Hr2' _]; subst. unfold item_range in Hr2'. cbn [fst snd] in Hr2'.
          assert (Habs1 : Abs H s1 (Some (erase t1))) by (right; eauto).
          assert (Hs1b : nblocks s1 <= nblocks s + 3).
          { destruct (N.max_spec (nblocks s) 1) as [[A Em]|[A Em]]; rewrite Em in Hn1; lia. }
          assert (Hroom1 : room s1) by (unfold room; unfold nblocks in *; clear - Hroom Hs1b; lia).
          destruct (accept_insert H Hlen s1 (Some (erase t1)) r2 k2 v2 h2 m1 Habs1 Hr2' Hroom1 Hb1) as [i2 [s2 [t2 [m2 [E3 [E4 [HI2 [Hb2 [Hn2 Hl2]]]]]]]]].
          rewrite E3, E4.
          assert (Hs2b : nblocks s2 <= nblocks s1 + 3).
          { destruct (N.max_spec (nblocks s1) 1) as [[A Em]|[A Em]]; rewrite Em in Hn2; lia. }
          assert (Hl22 : (2 <= length (it_leaves t2))%nat).
          { cbn [ot_kv] in Hl2. rewrite erase_kv, map_length in Hl2. clear - Hl1 Hl2. lia. }
          assert (Hroom2 : nblocks s2 + 2 * N.of_nat (length r2) <= 2 ^ 32) by (unfold nblocks in *; clear - Hroom Hs1b Hs2b; lia).
          destruct (batch_tail_ok s2 t2 r2 m2 HI2 Hl22 Hrg2 Hb2 Hroom2) as [s3 [ot3 [E5 [E6 HA3]]]].
          exists s3, ot3. rewrite E5, E6. auto.
        * exists s1, (Some (erase t1)). split; [reflexivity|]. split; [reflexivity|]. right. eauto.
      + exists s, ot. auto.
    - destruct Habs as [[-> ->]|[t [HI ->]]]; [discriminate|].
      assert (Hl2 : (2 <= length (it_leaves t))%nat).
      { rewrite (leaf_count_leaves H _ _ HI) in Elc. apply N.leb_gt in Elc. lia. }
      destruct (batch_tail_ok s t items m' HI Hl2 Hrg Hb) as [s3 [ot3 [E5 [E6 HA3]]]]; [lia|].
      exists s3, ot3. rewrite E5, E6. auto.
  Qed.
End Tail.
