(* Dl/BlobOps.v — L2 -> L1 per operation: the invariant is preserved and the blob operation has the
   effect of the L1 tree operation.  This file: mark_lineage_as_dirty, insert_first, delete of the
   last leaf, upsert of an existing key. *)
From Coq Require Import Permutation.
From ChiaV.Base Require Import Bytes Sha256.
From ChiaV.Gen Require Import Dl.
From ChiaV.Dl Require Import Format Map Tree Blob Abs Inv History FormatProofs MapProofs TreeProofs BlobLemmas.
From Coq Require Import ZifyBool ZifyNat ZifyN.
Ltac Zify.zify_post_hook ::= Z.div_mod_to_equations.
Open Scope N_scope.

(* ---------- contexts: frame property, dirtiness ---------- *)
Lemma ctx_indices_cons f c j :
  In j (ctx_indices (f :: c)) <-> j = fr_idx f \/ In j (it_indices (fr_sib f)) \/ In j (ctx_indices c).
Proof.
  unfold ctx_indices. cbn [flat_map]. rewrite in_app_iff. split.
  - intros [[A|A]|A]; [left; congruence|right; left; assumption|right; right; assumption].
  - intros [A|[A|A]]; [left; left; congruence|left; right; assumption|right; assumption].
Qed.

Lemma ctx_rep_frame s s' c : forall hole,
  (forall j, In j (ctx_indices c) -> get_block s' j = get_block s j) -> ctx_rep s c hole -> ctx_rep s' c hole.
Proof.
  induction c as [|f c IH]; intros hole Hf; cbn [ctx_rep]; [auto|]. intros [Hfr Hc]. split.
  - destruct f as [i hh d lh sib]. cbn [frame_rep] in *. destruct Hfr as [Hg Hs]. split.
    + rewrite Hf; [exact Hg|]. apply ctx_indices_cons. now left.
    + eapply rep_frame; [|exact Hs]. intros j Hj. apply Hf. apply ctx_indices_cons. right. now left.
  - apply IH; [|exact Hc]. intros j Hj. apply Hf. apply ctx_indices_cons. right. now right.
Qed.

Lemma ctx_par_dirty c : ctx_par (map set_dirty c) = ctx_par c.
Proof. destruct c as [|[i hh d lh sib] c]; reflexivity. Qed.

Lemma ctx_indices_dirty c : ctx_indices (map set_dirty c) = ctx_indices c.
Proof.
  induction c as [|[i hh d lh sib] c IH]; [reflexivity|]. cbn [map ctx_indices flat_map set_dirty fr_idx fr_sib].
  unfold ctx_indices in IH. now rewrite IH.
Qed.

Lemma ctx_leaves_dirty c : ctx_leaves (map set_dirty c) = ctx_leaves c.
Proof.
  induction c as [|[i hh d lh sib] c IH]; [reflexivity|]. cbn [map ctx_leaves flat_map set_dirty fr_sib].
  unfold ctx_leaves in IH. now rewrite IH.
Qed.

Lemma fr_idx_dirty c : map fr_idx (map set_dirty c) = map fr_idx c.
Proof. rewrite map_map. apply map_ext. now intros [i hh d lh sib]. Qed.

Lemma all_dirty_id c : Forall (fun f => fr_dirty f = true) c -> map set_dirty c = c.
Proof.
  induction 1 as [|[i hh d lh sib] c Hd Hc IH]; [reflexivity|]. cbn [map set_dirty fr_dirty] in *. subst d. now rewrite IH.
Qed.

(* dirty is upward closed along the context *)
Fixpoint closed (c : list frame) : Prop :=
  match c with
  | [] => True
  | f :: c' => (fr_dirty f = true -> Forall (fun g => fr_dirty g = true) c') /\ closed c'
  end.

Definition it_dirty (t : itree) : bool := match t with ILeaf _ _ _ _ => false | INode _ _ d _ _ => d end.

Section Closed.
  Variable H : bytes -> bytes.

  Lemma twf_plug_sub c : forall t, twf H (erase (plug c t)) -> twf H (erase t).
  Proof.
    induction c as [|f c IH]; intros t; cbn [plug]; [auto|]. intros Hw. apply IH in Hw.
    destruct f as [i hh d [|] sib]; cbn [fill erase twf] in Hw; tauto.
  Qed.

  Lemma all_clean_root t : t_all_clean (erase t) = true -> it_dirty t = false.
  Proof. destruct t as [|i hh d l r]; cbn; [auto|]. destruct d; [discriminate|reflexivity]. Qed.

  Lemma dirty_up c : forall t, twf H (erase (plug c t)) -> it_dirty t = true -> Forall (fun g => fr_dirty g = true) c.
  Proof.
    induction c as [|f c IH]; intros t Hw Hd; [constructor|]. cbn [plug] in Hw.
    assert (Hf : fr_dirty f = true).
    { pose proof (twf_plug_sub _ _ Hw) as Hsub. destruct f as [i hh d [|] sib]; cbn [fill erase twf fr_dirty] in *;
        destruct d; try reflexivity; destruct Hsub as [_ [_ Hc]]; destruct (Hc eq_refl) as [A [B _]].
      - apply all_clean_root in A. congruence.
      - apply all_clean_root in B. congruence. }
    constructor; [exact Hf|]. apply (IH (fill f t)); [exact Hw|]. destruct f as [i hh d [|] sib]; cbn in *; exact Hf.
  Qed.

  Lemma twf_closed c : forall t, twf H (erase (plug c t)) -> closed c.
  Proof.
    induction c as [|f c IH]; intros t Hw; cbn [closed]; [exact I|]. cbn [plug] in Hw. split.
    - intros Hd. apply (dirty_up c (fill f t) Hw). destruct f as [i hh d [|] sib]; cbn in *; exact Hd.
    - exact (IH _ Hw).
  Qed.
End Closed.

Definition wf_frame (f : frame) : Prop :=
  length (fr_hash f) = HASH_BYTES /\ fr_idx f < 2 ^ 32 /\ it_index (fr_sib f) < 2 ^ 32.

Lemma ctx_par_lt c : Forall wf_frame c -> wf_parent (ctx_par c).
Proof. destruct c as [|f c]; cbn; [auto|]. intros Hf. inversion Hf as [|? ? [_ [A _]] _]. exact A. Qed.

(* ---------- mark_lineage_as_dirty ---------- *)
Lemma mark_ctx : forall c s hole fuel,
  ctx_rep s c hole -> closed c -> blen_ok s -> NoDup (ctx_indices c) -> hole < 2 ^ 32 -> Forall wf_frame c ->
  (forall f, In f c -> ~ In (fr_idx f) (free s)) ->
  (length c < fuel)%nat ->
  match c with
  | [] => True
  | f :: _ =>
      exists s', mark_lineage fuel (fr_idx f) s = (Ok tt, s') /\
        ctx_rep s' (map set_dirty c) hole /\
        (forall j, ~ In j (map fr_idx c) -> get_block s' j = get_block s j) /\
        nblocks s' = nblocks s /\ blen_ok s' /\ free s' = free s /\ k2i s' = k2i s /\ h2i s' = h2i s
  end.
Proof.
  induction c as [|f c IH]; intros s hole fuel Hrep Hcl Hbl Hnd Hhole Hwf Hfree Hfuel; [exact I|].
  destruct fuel as [|fu]; [cbn in Hfuel; lia|].
  destruct f as [i hh d lh sib]. cbn [ctx_rep frame_rep] in Hrep. destruct Hrep as [[Hg Hsib] Hc].
  cbn [fr_idx mark_lineage]. unfold bind at 1, read. rewrite Hg. cbn [b_dirty b_node].
  cbn [closed fr_dirty] in Hcl. destruct Hcl as [Hup Hcl'].
  inversion Hwf as [|? ? [Hh [Hi Hsi]] Hwf']; subst. cbn [fr_hash fr_idx fr_sib] in *.
  destruct d.
  - (* already dirty: the loop stops; everything above is dirty *)
    exists s. split; [reflexivity|]. split.
    + rewrite all_dirty_id; [cbn [ctx_rep frame_rep]; auto|]. constructor; [reflexivity|now apply Hup].
    + repeat split; auto.
  - (* mark this node and continue with the parent *)
    set (nb := mkBlock true (NInt (mkInode hh (ctx_par c) (if lh then hole else it_index sib) (if lh then it_index sib else hole)))).
    assert (Hwb : wf_block nb).
    { unfold nb, wf_block, wf_node, wf_inode. cbn. split; [exact Hh|]. split; [now apply ctx_par_lt|].
      destruct lh; split; assumption. }
    destruct (insert_entry_spec i nb s Hwb) as [s1 [E1 [Hget1 [Hn1 [Hbl1 [Hf1 [Hk1 Hh1]]]]]]].
    { apply get_block_lt in Hg. lia. } { exact Hbl. }
    unfold bind. rewrite E1.
    assert (Hn1' : nblocks s1 = nblocks s).
    { rewrite Hn1. apply get_block_lt in Hg. destruct (N.eqb_spec i (nblocks s)); [lia|reflexivity]. }
    assert (Hf1' : free s1 = free s).
    { rewrite Hf1. apply free_remove_notin. apply (Hfree (Fr i hh false lh sib)). now left. }
    cbn [ctx_indices flat_map fr_idx fr_sib] in Hnd. fold (ctx_indices c) in Hnd.
    inversion Hnd as [|? ? Hni Hnd2]; subst.
    assert (Hsib1 : rep s1 (Some i) sib).
    { eapply rep_frame; [|exact Hsib]. intros j Hj. rewrite Hget1. destruct (N.eqb_spec j i) as [->|]; [|reflexivity].
      exfalso. apply Hni. apply in_app_iff. now left. }
    assert (Hc1 : ctx_rep s1 c i).
    { eapply ctx_rep_frame; [|exact Hc]. intros j Hj. rewrite Hget1. destruct (N.eqb_spec j i) as [->|]; [|reflexivity].
      exfalso. apply Hni. apply in_app_iff. now right. }
    cbn [b_node nb node_parent i_parent].
    destruct c as [|g c'].
    + (* the root *)
      cbn [ctx_par]. exists s1. split; [reflexivity|]. split.
      * cbn [map set_dirty ctx_rep frame_rep ctx_par]. split; [|exact I]. split; [|exact Hsib1].
        rewrite Hget1, N.eqb_refl. reflexivity.
      * split; [|cbn [b_node nb] in *; repeat split; auto].
        intros j Hj. rewrite Hget1. destruct (N.eqb_spec j i) as [->|]; [|reflexivity]. exfalso. apply Hj. now left.
    + destruct g as [gi ghh gd glh gsib]. cbn [ctx_par fr_idx].
      specialize (IH s1 i fu Hc1 Hcl' Hbl1). cbn [fr_idx] in IH.
      destruct (NoDup_app_inv _ _ Hnd2) as [_ [Hnd3 Hdis]].
      destruct IH as [s' [E2 [Hc2 [Hget2 [Hn2 [Hbl2 [Hf2 [Hk2 Hh2]]]]]]]]; auto.
      { intros f Hin. rewrite Hf1'. apply Hfree. now right. }
      { cbn [length] in *. lia. }
      exists s'. split; [exact E2|]. split.
      * cbn [map set_dirty]. cbn [ctx_rep]. split; [|exact Hc2].
        cbn [frame_rep ctx_par map set_dirty fr_idx]. split.
        -- rewrite Hget2.
           ++ rewrite Hget1, N.eqb_refl. reflexivity.
           ++ intros Hin. apply Hni. apply in_app_iff. right. clear -Hin.
              unfold ctx_indices. apply in_map_iff in Hin as [f [<- Hin]]. apply in_flat_map. exists f.
              split; [exact Hin|now left].
        -- eapply rep_frame; [|exact Hsib1]. intros j Hj. apply Hget2. intros Hin.
           apply (Hdis j Hj). unfold ctx_indices. apply in_map_iff in Hin as [f [<- Hin]]. apply in_flat_map. exists f.
           split; [exact Hin|now left].
      * split; [|cbn [b_node nb] in *; repeat split; try congruence; auto].
        intros j Hj. rewrite Hget2.
        -- rewrite Hget1. destruct (N.eqb_spec j i) as [->|]; [|reflexivity]. exfalso. apply Hj. now left.
        -- intros Hin. apply Hj. now right.
Qed.

(* ---------- ranges and bounds through a context ---------- *)
Definition fr_ranges (f : frame) : Prop := length (fr_hash f) = HASH_BYTES /\ it_ranges (fr_sib f).

Lemma it_ranges_fill f t : it_ranges (fill f t) <-> it_ranges t /\ fr_ranges f.
Proof. unfold fr_ranges. destruct f as [i hh d [|] sib]; cbn [fill it_ranges fr_hash fr_sib]; tauto. Qed.

Lemma it_ranges_plug c : forall t, it_ranges (plug c t) <-> it_ranges t /\ Forall fr_ranges c.
Proof.
  induction c as [|f c IH]; intros t; cbn [plug].
  - split; [intros; split; [assumption|constructor]|tauto].
  - rewrite IH, it_ranges_fill. split.
    + intros [[A B] C]. split; [exact A|now constructor].
    + intros [A B]. inversion B; subst. tauto.
Qed.

Lemma fr_ranges_dirty c : Forall fr_ranges c -> Forall fr_ranges (map set_dirty c).
Proof. induction 1 as [|[i hh d lh sib] c Hf Hc IH]; cbn [map set_dirty]; constructor; auto. Qed.

Lemma frames_wf c bound : Forall fr_ranges c -> (forall j, In j (ctx_indices c) -> j < bound) -> bound <= 2 ^ 32 ->
  Forall wf_frame c.
Proof.
  intros Hr Hb Hle. induction Hr as [|f c [Hh Hs] Hc IH]; constructor.
  - split; [exact Hh|]. split.
    + assert (fr_idx f < bound) by (apply Hb; apply ctx_indices_cons; now left). lia.
    + assert (it_index (fr_sib f) < bound).
      { apply Hb. apply ctx_indices_cons. right. left. apply it_index_in. }
      lia.
  - apply IH. intros j Hj. apply Hb. apply ctx_indices_cons. right. now right.
Qed.

Lemma pigeonhole (l : list N) (n : nat) : NoDup l -> (forall x, In x l -> x < N.of_nat n) -> (length l <= n)%nat.
Proof.
  intros Hnd Hlt. rewrite <- (seq_length n 0), <- (map_length N.of_nat).
  apply NoDup_incl_length; [exact Hnd|]. intros x Hx. apply in_map_iff. exists (N.to_nat x).
  split; [lia|]. apply in_seq. specialize (Hlt x Hx). lia.
Qed.

Lemma ctx_length_indices c : (length c <= length (ctx_indices c))%nat.
Proof.
  induction c as [|f c IH]; cbn [length ctx_indices flat_map]; [lia|]. rewrite app_length. cbn [length].
  unfold ctx_indices in IH. lia.
Qed.

Lemma free_reinsert i l : ~ In i l -> free_remove i (free_insert i l) = l.
Proof.
  intros Hn. unfold free_insert. apply nmem_false in Hn. rewrite Hn. unfold free_remove.
  rewrite filter_app. cbn [filter]. rewrite N.eqb_refl. cbn [negb]. rewrite app_nil_r.
  apply nmem_false in Hn. fold (free_remove i l). now apply free_remove_notin.
Qed.

(* leaves of a tree with duplicate-free keys are determined by their key *)
Lemma leaves_key_functional (l : list (N * N * N * bytes)) i1 i2 k v1 v2 h1 h2 :
  NoDup (map (fun x => snd (fst (fst x))) l) -> In (i1, k, v1, h1) l -> In (i2, k, v2, h2) l ->
  (i1, v1, h1) = (i2, v2, h2).
Proof.
  induction l as [|x l IH]; cbn [map In]; [tauto|]. intros Hn. inversion Hn as [|? ? Hx Hn']; subst.
  intros [E1|H1] [E2|H2].
  - congruence.
  - exfalso. apply Hx. subst x. cbn. apply in_map_iff. eexists. split; [|exact H2]. reflexivity.
  - exfalso. apply Hx. subst x. cbn. apply in_map_iff. eexists. split; [|exact H1]. reflexivity.
  - auto.
Qed.

Lemma leaves_hash_functional (l : list (N * N * N * bytes)) i1 i2 k1 k2 v1 v2 h :
  NoDup (map snd l) -> In (i1, k1, v1, h) l -> In (i2, k2, v2, h) l -> (i1, k1, v1) = (i2, k2, v2).
Proof.
  induction l as [|x l IH]; cbn [map In]; [tauto|]. intros Hn. inversion Hn as [|? ? Hx Hn']; subst.
  intros [E1|H1] [E2|H2].
  - congruence.
  - exfalso. apply Hx. subst x. cbn. apply in_map_iff. eexists. split; [|exact H2]. reflexivity.
  - exfalso. apply Hx. subst x. cbn. apply in_map_iff. eexists. split; [|exact H1]. reflexivity.
  - auto.
Qed.

Lemma perm_nodup_map {A B} (f : A -> B) (l l' : list A) : Permutation l l' -> NoDup (map f l) -> NoDup (map f l').
Proof. intros P. apply Permutation_NoDup. now apply Permutation_map. Qed.

Lemma ctx_keys_in c k : In k (map (fun x => snd (fst (fst x))) (ctx_leaves c)) <->
  exists f, In f c /\ In k (tkeys_i (fr_sib f)).
Proof.
  unfold ctx_leaves. rewrite in_map_iff. split.
  - intros [x [E Hin]]. apply in_flat_map in Hin as [f [Hf Hx]]. exists f. split; [exact Hf|].
    rewrite tkeys_i_keys. unfold it_keys. apply in_map_iff. eauto.
  - intros [f [Hf Hk]]. rewrite tkeys_i_keys in Hk. unfold it_keys in Hk. apply in_map_iff in Hk as [x [E Hx]].
    exists x. split; [exact E|]. apply in_flat_map. eauto.
Qed.

Lemma in_perm_iff {A} (l l' : list A) x : Permutation l l' -> (In x l <-> In x l').
Proof. intros P. split; intros Hin; [eapply Permutation_in; eauto|eapply Permutation_in; [apply Permutation_sym|]; eauto]. Qed.

Lemma it_index_plug_dirty c : forall t0 t1, it_index t0 = it_index t1 ->
  it_index (plug (map set_dirty c) t1) = it_index (plug c t0).
Proof.
  induction c as [|f c IH]; intros t0 t1 E; cbn [map plug]; [now symmetry|]. apply IH.
  rewrite !it_index_fill. now destruct f.
Qed.

Section Ops.
  Variable H : bytes -> bytes.

  (* upsert of a key that is present, with a hash that no OTHER leaf uses *)
  Theorem upsert_existing s t k v h :
    Inv_tree H s t -> v < 2 ^ 64 -> length h = HASH_BYTES ->
    In k (it_keys t) ->
    (forall i' k' v', In (i', k', v', h) (it_leaves t) -> k' = k) ->
    exists s' t', upsert H k v h s = (Ok tt, s') /\ Inv_tree H s' t' /\
      t_upsert H k v h (Some (erase t)) = (true, Some (erase t')).
  Proof.
    intros HI Hv Hh Hk Hother.
    unfold it_keys in Hk. apply in_map_iff in Hk as [[[[i k0] v0] h0] [Ek Hin]]. cbn in Ek. subst k0.
    destruct (leaf_in_ctx _ _ Hin) as [c Et]. cbn in Et. subst t.
    set (lf0 := ILeaf i k v0 h0) in *. set (lf1 := ILeaf i k v h).
    destruct HI as [Hrep Hroot Hnd Hbound Hblen Hfnd Hfree Hflt Hk2i Hh2i Hkn Hhn Hkeys Hhashes Hranges Htwf].
    assert (Hki : amap_get N.eqb k (k2i s) = Some i) by (apply Hk2i; eauto).
    apply rep_plug in Hrep as [Hleaf Hctx]. cbn [it_index lf0] in Hctx.
    assert (Hg : get_block s i = Ok (mkBlock false (NLeaf (mkLeaf h0 (ctx_par c) k v0)))) by (inversion Hleaf; assumption).
    (* facts about indexes *)
    pose proof (Permutation_NoDup (it_indices_plug c lf0) Hnd) as Hnd'. cbn [lf0 it_indices app] in Hnd'.
    inversion Hnd' as [|? ? Hi_ctx Hnd_ctx]; subst.
    assert (Hidx : forall j, In j (i :: ctx_indices c) -> j < nblocks s).
    { intros j Hj. assert (Hr : rep s None (plug c lf0)) by (apply rep_plug; split; assumption).
      apply (rep_indices_lt _ _ _ Hr). eapply Permutation_in; [apply Permutation_sym; apply it_indices_plug|exact Hj]. }
    assert (Hi_lt : i < nblocks s) by (apply Hidx; now left).
    apply it_ranges_plug in Hranges as [[Hkr [Hv0r Hh0r]] Hfr].
    assert (Hwfc : Forall wf_frame c).
    { apply (frames_wf c (nblocks s)); [exact Hfr| |exact Hbound]. intros j Hj. apply Hidx. now right. }
    assert (Hi_free : ~ In i (free s)).
    { intros Hf. apply (Hfree i Hi_lt) in Hf. apply Hf.
      eapply Permutation_in; [apply Permutation_sym; apply it_indices_plug|]. cbn. now left. }
    (* facts about keys and hashes *)
    pose proof (perm_nodup_map _ _ _ (it_leaves_plug c lf0) Hkeys) as Hkeys'. cbn [lf0 it_leaves app map fst snd] in Hkeys'.
    inversion Hkeys' as [|? ? Hk_ctx Hkeys_ctx]; subst.
    pose proof (perm_nodup_map _ _ _ (it_leaves_plug c lf0) Hhashes) as Hhashes'. cbn [lf0 it_leaves app map snd] in Hhashes'.
    inversion Hhashes' as [|? ? Hh_ctx Hhashes_ctx]; subst.
    assert (Hh_new : ~ In h (map snd (ctx_leaves c))).
    { intros Hx. apply in_map_iff in Hx as [[[[i' k'] v'] h'] [E Hx]]. cbn in E. subst h'.
      assert (k' = k).
      { apply (Hother i' k' v'). eapply Permutation_in; [apply Permutation_sym; apply it_leaves_plug|].
        apply in_app_iff. now right. }
      subst k'. apply Hk_ctx. apply in_map_iff. eexists. split; [|exact Hx]. reflexivity. }
    (* run the operation *)
    unfold upsert, get_leaf_by_key. rewrite Hki. unfold rbind. rewrite Hg. cbn [b_node].
    assert (Hchk : (match amap_get bytes_eqb h (h2i s) with Some e => negb (e =? i) | None => false end) = false).
    { destruct (amap_get bytes_eqb h (h2i s)) as [e|] eqn:Ee; [|reflexivity].
      apply Hh2i in Ee as [k' [v' Hx]]. assert (k' = k) by (eapply Hother; exact Hx). subst k'.
      pose proof (leaves_key_functional _ _ _ _ _ _ _ _ Hkeys Hx Hin) as Eq. injection Eq as -> _ _.
      now rewrite N.eqb_refl. }
    rewrite Hchk.
    unfold bind at 1. unfold remove_leaf. cbn [l_key l_hash l_parent]. rewrite Hki.
    set (s1 := mkB (blocks s) (free_insert i (free s)) (amap_del N.eqb k (k2i s)) (amap_del bytes_eqb h0 (h2i s))).
    set (nb := mkBlock false (NLeaf (mkLeaf h (ctx_par c) k v))).
    assert (Hwb : wf_block nb).
    { unfold nb, wf_block, wf_node, wf_leaf. cbn. repeat split; auto. now apply ctx_par_lt. }
    destruct (insert_entry_spec i nb s1 Hwb) as [s2 [E2 [Hget2 [Hn2 [Hbl2 [Hf2 [Hk2 Hh2]]]]]]].
    { unfold nblocks, s1. cbn [blocks]. unfold nblocks in Hi_lt. lia. } { exact Hblen. }
    unfold bind at 1. cbn [b_dirty]. fold nb. rewrite E2.
    assert (Hn2' : nblocks s2 = nblocks s).
    { rewrite Hn2. unfold nblocks, s1 in *. cbn [blocks] in *. destruct (N.eqb_spec i (N.of_nat (length (blocks s)))); [lia|reflexivity]. }
    assert (Hf2' : free s2 = free s) by (rewrite Hf2; unfold s1; cbn [free]; now apply free_reinsert).
    cbn [nb b_node] in Hk2, Hh2. cbn [l_key l_hash s1 k2i h2i] in Hk2, Hh2.
    assert (Hget2' : forall j, get_block s2 j = if j =? i then Ok nb else get_block s j).
    { intros j. rewrite Hget2. reflexivity. }
    assert (Hctx2 : ctx_rep s2 c i).
    { eapply ctx_rep_frame; [|exact Hctx]. intros j Hj. rewrite Hget2'. destruct (N.eqb_spec j i) as [->|]; [contradiction|reflexivity]. }
    (* the dirty marking *)
    assert (Hmark : exists s3, (match ctx_par c with Some p => mark_lineage_as_dirty p | None => ret tt end) s2 = (Ok tt, s3) /\
              ctx_rep s3 (map set_dirty c) i /\
              (forall j, ~ In j (map fr_idx c) -> get_block s3 j = get_block s2 j) /\
              nblocks s3 = nblocks s2 /\ blen_ok s3 /\ free s3 = free s2 /\ k2i s3 = k2i s2 /\ h2i s3 = h2i s2).
    { destruct c as [|f c'] eqn:Ec.
      - exists s2. cbn. repeat split; auto.
      - rewrite <- Ec in *. assert (Hpar : ctx_par c = Some (fr_idx f)) by (subst c; reflexivity). rewrite Hpar.
        unfold mark_lineage_as_dirty.
        pose proof (mark_ctx c s2 i (S (length (blocks s2))) Hctx2) as Hm. rewrite Ec in Hm. rewrite <- Ec in Hm.
        destruct Hm as [s3 Hm]; auto.
        + eapply twf_closed. exact Htwf.
        + unfold nblocks in *. lia.
        + intros g Hgin. rewrite Hf2'. intros Hx. apply (Hfree (fr_idx g)) in Hx.
          * apply Hx. eapply Permutation_in; [apply Permutation_sym; apply it_indices_plug|]. apply in_app_iff. right.
            unfold ctx_indices. apply in_flat_map. exists g. split; [exact Hgin|now left].
          * apply Hidx. right. unfold ctx_indices. apply in_flat_map. exists g. split; [exact Hgin|now left].
        + pose proof (ctx_length_indices c). pose proof (pigeonhole (ctx_indices c) (length (blocks s2)) Hnd_ctx) as Hp.
          assert (length (ctx_indices c) <= length (blocks s2))%nat.
          { apply Hp. intros x Hx. fold (nblocks s2). rewrite Hn2'. apply Hidx. now right. }
          lia.
        + exists s3. rewrite Ec in Hm. rewrite <- Ec in Hm. exact Hm. }
    destruct Hmark as [s3 [E3 [Hctx3 [Hget3 [Hn3 [Hbl3 [Hf3 [Hk3 Hh3]]]]]]]].
    cbn [l_parent]. rewrite E3.
    exists s3, (plug (map set_dirty c) lf1). split; [reflexivity|].
    assert (Hi_frames : ~ In i (map fr_idx c)).
    { intros Hx. apply Hi_ctx. unfold ctx_indices. apply in_map_iff in Hx as [g [<- Hgin]]. apply in_flat_map.
      exists g. split; [exact Hgin|now left]. }
    assert (Hleaves' : Permutation (it_leaves (plug (map set_dirty c) lf1)) ((i, k, v, h) :: ctx_leaves c)).
    { eapply Permutation_trans; [apply it_leaves_plug|]. rewrite ctx_leaves_dirty. reflexivity. }
    assert (Hindices' : Permutation (it_indices (plug (map set_dirty c) lf1)) (i :: ctx_indices c)).
    { eapply Permutation_trans; [apply it_indices_plug|]. rewrite ctx_indices_dirty. reflexivity. }
    assert (Hgraft : t_graft k (fun _ => TLeaf k v h) (erase (plug c lf0)) = Some (erase (plug (map set_dirty c) lf1))).
    { apply graft_plug.
      - apply Forall_forall. intros g Hgin Hx. apply Hk_ctx. apply ctx_keys_in. eauto.
      - cbn [lf0 lf1 erase t_graft]. now rewrite N.eqb_refl. }
    split.
    - constructor.
      + (* rep *) apply rep_plug. rewrite ctx_par_dirty. split; [|exact Hctx3]. constructor.
        rewrite Hget3 by exact Hi_frames. rewrite Hget2', N.eqb_refl. reflexivity.
      + (* root *) rewrite <- Hroot. apply it_index_plug_dirty. reflexivity.
      + (* indexes distinct *) eapply Permutation_NoDup; [apply Permutation_sym; exact Hindices'|exact Hnd'].
      + unfold nblocks in *. lia.
      + exact Hbl3.
      + rewrite Hf3, Hf2'. exact Hfnd.
      + (* free list = unreachable indexes *)
        intros j Hj. rewrite Hf3, Hf2'. fold (nblocks s3) in Hj. rewrite Hn3, Hn2' in Hj. rewrite (Hfree j Hj).
        rewrite (in_perm_iff _ _ j Hindices'), (in_perm_iff _ _ j (it_indices_plug c lf0)). reflexivity.
      + intros j Hj. rewrite Hf3, Hf2' in Hj. fold (nblocks s3). rewrite Hn3, Hn2'. now apply Hflt.
      + (* key cache *)
        intros k' i'. rewrite Hk3, Hk2. rewrite (amap_get_set N.eqb N.eqb_spec), (amap_get_del N.eqb N.eqb_spec).
        destruct (N.eqb_spec k' k) as [->|Hne].
        * split.
          -- intros [= <-]. exists v, h. apply (in_perm_iff _ _ _ Hleaves'). now left.
          -- intros [v' [h' Hx]]. apply (in_perm_iff _ _ _ Hleaves') in Hx as [Hx|Hx]; [congruence|].
             exfalso. apply Hk_ctx. apply in_map_iff. eexists. split; [|exact Hx]. reflexivity.
        * rewrite Hk2i. split; intros [v' [h' Hx]]; exists v', h'.
          -- apply (in_perm_iff _ _ _ (it_leaves_plug c lf0)) in Hx. apply (in_perm_iff _ _ _ Hleaves').
             cbn [lf0 it_leaves app In] in Hx. destruct Hx as [Hx|Hx]; [congruence|now right].
          -- apply (in_perm_iff _ _ _ Hleaves') in Hx. apply (in_perm_iff _ _ _ (it_leaves_plug c lf0)).
             cbn [lf0 it_leaves app In]. destruct Hx as [Hx|Hx]; [congruence|now right].
      + (* hash cache *)
        intros h' i'. rewrite Hh3, Hh2. rewrite (amap_get_set bytes_eqb bytes_eqb_spec), (amap_get_del bytes_eqb bytes_eqb_spec).
        destruct (bytes_eqb_spec h' h) as [->|Hne].
        * split.
          -- intros [= <-]. exists k, v. apply (in_perm_iff _ _ _ Hleaves'). now left.
          -- intros [k' [v' Hx]]. apply (in_perm_iff _ _ _ Hleaves') in Hx as [Hx|Hx]; [congruence|].
             exfalso. apply Hh_new. apply in_map_iff. eexists. split; [|exact Hx]. reflexivity.
        * destruct (bytes_eqb_spec h' h0) as [->|Hne0].
          -- split; [discriminate|]. intros [k' [v' Hx]]. apply (in_perm_iff _ _ _ Hleaves') in Hx as [Hx|Hx]; [congruence|].
             exfalso. apply Hh_ctx. apply in_map_iff. eexists. split; [|exact Hx]. reflexivity.
          -- rewrite Hh2i. split; intros [k' [v' Hx]]; exists k', v'.
             ++ apply (in_perm_iff _ _ _ (it_leaves_plug c lf0)) in Hx. apply (in_perm_iff _ _ _ Hleaves').
                cbn [lf0 it_leaves app In] in Hx. destruct Hx as [Hx|Hx]; [congruence|now right].
             ++ apply (in_perm_iff _ _ _ Hleaves') in Hx. apply (in_perm_iff _ _ _ (it_leaves_plug c lf0)).
                cbn [lf0 it_leaves app In]. destruct Hx as [Hx|Hx]; [congruence|now right].
      + rewrite Hk3, Hk2. apply amap_set_nodup; [exact N.eqb_spec|]. apply amap_del_nodup; [exact N.eqb_spec|exact Hkn].
      + rewrite Hh3, Hh2. apply amap_set_nodup; [exact bytes_eqb_spec|]. apply amap_del_nodup; [exact bytes_eqb_spec|exact Hhn].
      + (* keys distinct *)
        unfold it_keys. eapply perm_nodup_map; [apply Permutation_sym; exact Hleaves'|]. cbn [map fst snd].
        constructor; assumption.
      + unfold it_lhashes. eapply perm_nodup_map; [apply Permutation_sym; exact Hleaves'|]. cbn [map snd].
        constructor; assumption.
      + apply it_ranges_plug. split; [cbn [lf1 it_ranges]; auto|now apply fr_ranges_dirty].
      + eapply graft_twf; [exact Htwf| |exact Hgraft]. intros; exact I.
    - unfold t_upsert.
      assert (Hm : m_mem k (t_kv (erase (plug c lf0))) = true).
      { apply m_mem_in. fold (tkeys (erase (plug c lf0))). fold (tkeys_i (plug c lf0)). rewrite tkeys_i_keys.
        unfold it_keys. apply in_map_iff. exists (i, k, v0, h0). split; [reflexivity|exact Hin]. }
      assert (Hoth : m_hash_of_other k h (t_kv (erase (plug c lf0))) = false).
      { destruct (m_hash_of_other k h (t_kv (erase (plug c lf0)))) eqn:Eo; [|reflexivity]. exfalso.
        apply m_hash_of_other_spec in Eo as [k' [v' [Hx Hne]]]. rewrite erase_kv in Hx.
        apply in_map_iff in Hx as [[[[i' k0] v0'] h0'] [E Hx]]. cbn in E. injection E as -> -> ->.
        apply Hne. eapply Hother. exact Hx. }
      rewrite Hm, Hoth, Hgraft. reflexivity.
  Qed.

  (* ---------- Inv and the executable abstraction ---------- *)
  Lemma Inv_tree_abs s t : Inv_tree H s t -> abs s = Some (Some (erase t)).
  Proof.
    intros HI. pose proof (inv_rep _ _ _ HI) as Hrep. pose proof (inv_root _ _ _ HI) as Hroot.
    unfold abs, abs_i. destruct (blocks s) as [|b0 bl] eqn:Eb.
    - exfalso. assert (Hlt : it_index t < nblocks s) by (apply (rep_indices_lt _ _ _ Hrep); apply it_index_in).
      unfold nblocks in Hlt. rewrite Eb in Hlt. cbn [length] in Hlt. lia.
    - rewrite <- Eb. rewrite <- Hroot. rewrite (rep_abs_at _ _ _ Hrep); [reflexivity|].
      pose proof (it_height_indices t).
      pose proof (pigeonhole (it_indices t) (length (blocks s)) (inv_nodup _ _ _ HI)) as Hp.
      assert (length (it_indices t) <= length (blocks s))%nat.
      { apply Hp. intros x Hx. apply (rep_indices_lt _ _ _ Hrep x Hx). }
      lia.
  Qed.

  Lemma Inv_empty_abs : abs empty_blob = Some None.
  Proof. reflexivity. Qed.

  (* ---------- insert into the empty blob ---------- *)
  Theorem insert_first_ok k v h loc :
    k < 2 ^ 64 -> v < 2 ^ 64 -> length h = HASH_BYTES -> loc = LAuto \/ loc = LRoot ->
    exists s', insert H k v h loc empty_blob = (Ok 0, s') /\ Inv_tree H s' (ILeaf 0 k v h) /\
      t_insert H k v h (match loc with LAuto => TAuto | _ => TRoot end) None = (true, Some (erase (ILeaf 0 k v h))) /\
      nblocks s' = 1.
  Proof.
    intros Hk Hv Hh Hloc.
    set (nb := leaf_block (mkLeaf h None k v)).
    assert (Hwb : wf_block nb) by (unfold nb, leaf_block, wf_block, wf_node, wf_leaf; cbn; auto).
    destruct (insert_entry_spec 0 nb empty_blob Hwb) as [s1 [E1 [Hget [Hn [Hbl [Hf [Hk1 Hh1]]]]]]].
    { unfold nblocks. cbn. lia. } { constructor. }
    exists s1. split; [|split; [|split]].
    - unfold insert. cbn [empty_blob k2i h2i amap_mem amap_get].
      assert (El : (match loc with LAuto => get_random_insert_location_by_key_id H k empty_blob | _ => Ok loc end) = Ok LRoot).
      { destruct Hloc as [-> | ->]; reflexivity. }
      rewrite El. cbn [leaf_count k2i empty_blob length N.of_nat N.eqb negb].
      unfold insert_first, bind, gets. cbn [extend_index blocks empty_blob length N.of_nat]. fold nb. rewrite E1. reflexivity.
    - cbn [nb leaf_block b_node] in Hk1, Hh1. cbn [l_key l_hash empty_blob k2i h2i amap_set] in Hk1, Hh1.
      assert (Hn' : N.of_nat (length (blocks s1)) = 1) by (fold (nblocks s1); rewrite Hn; reflexivity).
      assert (Hfree : free s1 = []) by (rewrite Hf; reflexivity).
      constructor; cbn [it_index it_indices it_leaves it_keys it_lhashes map erase twf it_ranges fst snd].
      + constructor. rewrite Hget. reflexivity.
      + reflexivity.
      + constructor; [intros []|constructor].
      + rewrite Hn'. lia.
      + exact Hbl.
      + rewrite Hfree. constructor.
      + intros i Hi. rewrite Hn' in Hi. rewrite Hfree. cbn [In]. assert (i = 0) by lia. subst. tauto.
      + rewrite Hfree. intros i [].
      + intros k' i'. rewrite Hk1. cbn [amap_get]. destruct (N.eqb_spec k' k) as [->|Hne].
        * split; [intros [= <-]; exists v, h; now left|]. intros [v' [h' [E|[]]]]. congruence.
        * split; [discriminate|]. intros [v' [h' [E|[]]]]. congruence.
      + intros h' i'. rewrite Hh1. cbn [amap_get]. destruct (bytes_eqb_spec h' h) as [->|Hne].
        * split; [intros [= <-]; exists k, v; now left|]. intros [k' [v' [E|[]]]]. congruence.
        * split; [discriminate|]. intros [k' [v' [E|[]]]]. congruence.
      + rewrite Hk1. cbn. constructor; [intros []|constructor].
      + rewrite Hh1. cbn. constructor; [intros []|constructor].
      + constructor; [intros []|constructor].
      + constructor; [intros []|constructor].
      + auto.
      + exact I.
    - unfold t_insert. cbn [ot_kv m_mem m_get m_has_hash existsb orb]. destruct Hloc as [-> | ->]; reflexivity.
    - rewrite Hn. reflexivity.
  Qed.

  (* ---------- delete of the only leaf ---------- *)
  Theorem delete_last_ok s i k v h :
    Inv_tree H s (ILeaf i k v h) ->
    delete k s = (Ok tt, empty_blob) /\ t_delete k (Some (erase (ILeaf i k v h))) = (true, None).
  Proof.
    intros HI. pose proof (inv_rep _ _ _ HI) as Hrep. inversion Hrep as [? ? ? ? ? Hg|]; subst.
    assert (Hki : amap_get N.eqb k (k2i s) = Some i) by (apply (inv_k2i _ _ _ HI); exists v, h; now left).
    split.
    - unfold delete, bind at 1, read, get_leaf_by_key. rewrite Hki. unfold rbind. rewrite Hg. cbn [b_node].
      unfold bind at 1. unfold remove_leaf. cbn [l_key]. rewrite Hki. cbn [l_parent]. reflexivity.
    - cbn [erase t_delete t_del]. now rewrite N.eqb_refl.
  Qed.

  (* the per-step commuting square for upsert, in the form the runner evaluates it *)
  Theorem upsert_step_link s t k v h :
    Inv_tree H s t -> v < 2 ^ 64 -> length h = HASH_BYTES -> In k (it_keys t) ->
    (forall i' k' v', In (i', k', v', h) (it_leaves t) -> k' = k) ->
    exists s' t', step2 H (OUpsert k v h) s = (Ok None, s') /\ Inv_tree H s' t' /\
      abs s = Some (Some (erase t)) /\ abs s' = Some (Some (erase t')) /\
      step1 H (TUpsert k v h) (Some (erase t)) = (true, Some (erase t')).
  Proof.
    intros HI Hv Hh Hk Ho. destruct (upsert_existing s t k v h HI Hv Hh Hk Ho) as [s' [t' [E [HI' E1]]]].
    exists s', t'. split; [|split; [exact HI'|split; [now apply Inv_tree_abs|split; [now apply Inv_tree_abs|exact E1]]]].
    cbn [step2]. unfold bind. rewrite E. reflexivity.
  Qed.
End Ops.

Lemma inv_inhabited : exists s t, Inv_tree sha256 s t /\ abs s = Some (Some (erase t)).
Proof.
  assert (H1 : 1 < 2 ^ 64) by (vm_compute; reflexivity).
  assert (H2 : length (repeat_byte 32 x01) = HASH_BYTES) by reflexivity.
  destruct (insert_first_ok sha256 1 1 (repeat_byte 32 x01) LAuto H1 H1 H2 (or_introl eq_refl)) as [s [_ [HI _]]].
  exists s, (ILeaf 0 1 1 (repeat_byte 32 x01)). split; [exact HI|exact (Inv_tree_abs sha256 _ _ HI)].
Qed.
