(* Dl/BlobOps2.v — L2 -> L1: index allocation and insert next to a live leaf
   (insert_third_or_later, i.e. a tree with at least two leaves). *)
From Coq Require Import Permutation.
From ChiaV.Base Require Import Bytes Sha256.
From ChiaV.Gen Require Import Dl.
From ChiaV.Dl Require Import Format Map Tree Blob Abs Inv History FormatProofs MapProofs TreeProofs BlobLemmas BlobOps.
From Coq Require Import ZifyBool ZifyNat ZifyN.
Ltac Zify.zify_post_hook ::= Z.div_mod_to_equations.
Open Scope N_scope.

(* ---------- the key cache has one entry per leaf ---------- *)
Lemma amap_in_get {K V} (eqb : K -> K -> bool) (eqb_spec : forall a b, reflect (a = b) (eqb a b))
  k (m : list (K * V)) : In k (map fst m) -> exists v, amap_get eqb k m = Some v.
Proof.
  induction m as [|[k0 v0] r IH]; cbn [map fst In amap_get]; [tauto|].
  destruct (eqb_spec k k0) as [->|Hn]; [eauto|]. intros [E|Hin]; [congruence|auto].
Qed.

Section Count.
  Variable H : bytes -> bytes.

  Lemma k2i_perm s t : Inv_tree H s t -> Permutation (map fst (k2i s)) (it_keys t).
  Proof.
    intros HI. apply NoDup_Permutation; [exact (inv_k2i_nodup _ _ _ HI)|exact (inv_keys _ _ _ HI)|].
    intros k. split.
    - intros Hin. destruct (amap_in_get N.eqb N.eqb_spec k _ Hin) as [i Hi].
      apply (inv_k2i _ _ _ HI) in Hi as [v [h Hx]]. unfold it_keys. apply in_map_iff.
      exists (i, k, v, h). split; [reflexivity|exact Hx].
    - unfold it_keys. intros Hin. apply in_map_iff in Hin as [[[[i k0] v] h] [E Hx]]. cbn in E. subst k0.
      apply (amap_get_in N.eqb N.eqb_spec k _ i). apply (inv_k2i _ _ _ HI). eauto.
  Qed.

  Lemma leaf_count_leaves s t : Inv_tree H s t -> leaf_count s = N.of_nat (length (it_leaves t)).
  Proof.
    intros HI. unfold leaf_count. f_equal. rewrite <- (map_length fst).
    rewrite (Permutation_length (k2i_perm _ _ HI)). unfold it_keys. apply map_length.
  Qed.
End Count.

Lemma it_leaves_nonempty t : it_leaves t <> [].
Proof.
  induction t as [i k v h|i hh d l IHl r IHr]; cbn [it_leaves]; [discriminate|].
  destruct (it_leaves l); [contradiction|discriminate].
Qed.

Lemma plug_leaves_length c t : (length (it_leaves (plug c t)) = length (it_leaves t) + length (ctx_leaves c))%nat.
Proof. rewrite (Permutation_length (it_leaves_plug c t)). apply app_length. Qed.

Lemma ctx_leaves_cons_nonempty f c : ctx_leaves (f :: c) <> [].
Proof.
  unfold ctx_leaves. cbn [flat_map]. pose proof (it_leaves_nonempty (fr_sib f)).
  destruct (it_leaves (fr_sib f)); [contradiction|discriminate].
Qed.

(* ---------- index allocation ---------- *)
(* A = indexes handed out by get_new_index and not yet linked into the tree *)
Definition Alloc (s : mblob) (t : itree) (A : list N) : Prop :=
  NoDup (free s) /\
  (forall i, i < nblocks s -> (In i (free s) <-> ~ In i (it_indices t) /\ ~ In i A)) /\
  (forall i, In i (free s) -> i < nblocks s) /\
  (forall a, In a A -> a < nblocks s /\ ~ In a (it_indices t)) /\
  NoDup A /\
  (forall i, In i (it_indices t) -> i < nblocks s).

Lemma zero_block_length : length zero_block = N.to_nat BLOCK_SIZE.
Proof. unfold zero_block. apply repeat_byte_length. Qed.

Lemma get_new_index_spec s t A :
  Alloc s t A -> blen_ok s ->
  exists a s1, get_new_index s = (Ok a, s1) /\ Alloc s1 t (a :: A) /\
    (forall j, j < nblocks s -> get_block s1 j = get_block s j) /\
    nblocks s <= nblocks s1 /\ nblocks s1 <= nblocks s + 1 /\ blen_ok s1 /\
    k2i s1 = k2i s /\ h2i s1 = h2i s /\ ~ In a (free s1).
Proof.
  intros [Hnd [Hiff [Hlt [HA [HndA Hidx]]]]] Hbl. unfold get_new_index. destruct (free s) as [|x r] eqn:Ef.
  - (* extend *)
    exists (extend_index s), (set_blocks s (blocks s ++ [zero_block])). split; [reflexivity|].
    assert (Hn1 : nblocks (set_blocks s (blocks s ++ [zero_block])) = nblocks s + 1).
    { unfold nblocks. cbn [blocks set_blocks]. rewrite app_length. cbn [length]. lia. }
    change (extend_index s) with (nblocks s).
    split; [|split; [|split; [lia|split; [lia|split; [|split; [reflexivity|split; [reflexivity|]]]]]]].
    + unfold Alloc. cbn [free set_blocks]. rewrite Ef. split; [constructor|]. split; [|split; [intros i []|split; [|split]]].
      * intros i Hi. rewrite Hn1 in Hi. cbn [In]. split; [tauto|]. intros [Hni HnA].
        destruct (N.eq_dec i (nblocks s)) as [->|Hne]; [apply HnA; now left|].
        assert (Hi' : i < nblocks s) by lia. apply (Hiff i Hi'). split; [exact Hni|]. intros Hx. apply HnA. now right.
      * intros a [<-|Ha]; rewrite Hn1.
        -- split; [lia|]. intros Hx. apply Hidx in Hx. lia.
        -- destruct (HA a Ha). split; [lia|assumption].
      * constructor; [|exact HndA]. intros Hx. apply HA in Hx. lia.
      * intros i Hi. rewrite Hn1. apply Hidx in Hi. lia.
    + intros j Hj. unfold get_block, blocks_get. cbn [blocks set_blocks]. unfold nblocks in Hj.
      rewrite nth_error_app1 by lia. reflexivity.
    + unfold blen_ok. cbn [blocks set_blocks]. apply Forall_app. split; [exact Hbl|]. constructor; [apply zero_block_length|constructor].
    + cbn [free set_blocks]. rewrite Ef. intros [].
  - (* pop the first free index *)
    exists x, (set_free s (free_remove x (x :: r))). split; [reflexivity|].
    rewrite <- Ef in Hnd, Hiff, Hlt.
    assert (Hx : In x (free s)) by (rewrite Ef; now left).
    assert (Hxlt : x < nblocks s) by (now apply Hlt).
    destruct (proj1 (Hiff x Hxlt) Hx) as [Hxi HxA].
    assert (Hn1 : nblocks (set_free s (free_remove x (x :: r))) = nblocks s) by reflexivity.
    split; [|split; [reflexivity|split; [rewrite Hn1; lia|split; [rewrite Hn1; lia|split; [exact Hbl|split; [reflexivity|split; [reflexivity|]]]]]]].
    + unfold Alloc. cbn [free set_free]. rewrite Hn1. rewrite <- Ef.
      split; [now apply free_remove_nodup|]. split; [|split; [|split; [|split]]].
      * intros i Hi. rewrite free_remove_in, (Hiff i Hi). cbn [In]. split.
        -- intros [[A1 A2] A3]. split; [exact A1|]. intros [E|E]; [congruence|contradiction].
        -- intros [A1 A2]. split; [split; [exact A1|]|]; intros E; apply A2; [now right|now left].
      * intros i Hi. apply free_remove_in in Hi as [Hi _]. now apply Hlt.
      * intros a [<-|Ha]; [split; assumption|now apply HA].
      * constructor; assumption.
      * exact Hidx.
    + cbn [free set_free]. rewrite <- Ef. intros Hc. apply free_remove_in in Hc as [_ Hc]. congruence.
Qed.

(* ---------- what Inv says about a leaf in its context ---------- *)
Definition ctx_keys (c : list frame) : list N := map (fun x => snd (fst (fst x))) (ctx_leaves c).
Definition ctx_hashes (c : list frame) : list bytes := map snd (ctx_leaves c).

Section Facts.
  Variable H : bytes -> bytes.

  Lemma inv_plug_facts s c i k v h :
    Inv_tree H s (plug c (ILeaf i k v h)) ->
    get_block s i = Ok (mkBlock false (NLeaf (mkLeaf h (ctx_par c) k v))) /\
    ctx_rep s c i /\
    ~ In i (ctx_indices c) /\ NoDup (ctx_indices c) /\
    (forall j, In j (i :: ctx_indices c) -> j < nblocks s) /\
    (k < 2 ^ 64 /\ v < 2 ^ 64 /\ length h = HASH_BYTES) /\
    Forall fr_ranges c /\ Forall wf_frame c /\
    ~ In i (free s) /\
    ~ In k (ctx_keys c) /\ NoDup (ctx_keys c) /\ ~ In h (ctx_hashes c) /\ NoDup (ctx_hashes c) /\
    closed c /\
    amap_get N.eqb k (k2i s) = Some i /\ amap_get bytes_eqb h (h2i s) = Some i.
  Proof.
    intros HI. set (lf0 := ILeaf i k v h) in *.
    destruct HI as [Hrep Hroot Hnd Hbound Hblen Hfnd Hfree Hflt Hk2i Hh2i Hkn Hhn Hkeys Hhashes Hranges Htwf].
    assert (Hin : In (i, k, v, h) (it_leaves (plug c lf0))).
    { apply (in_perm_iff _ _ _ (it_leaves_plug c lf0)). cbn. now left. }
    pose proof Hrep as Hrep0. apply rep_plug in Hrep as [Hleaf Hctx]. cbn [it_index lf0] in Hctx.
    assert (Hg : get_block s i = Ok (mkBlock false (NLeaf (mkLeaf h (ctx_par c) k v)))) by (inversion Hleaf; assumption).
    pose proof (Permutation_NoDup (it_indices_plug c lf0) Hnd) as Hnd'. cbn [lf0 it_indices app] in Hnd'.
    inversion Hnd' as [|? ? Hi_ctx Hnd_ctx]; subst.
    assert (Hidx : forall j, In j (i :: ctx_indices c) -> j < nblocks s).
    { intros j Hj. apply (rep_indices_lt _ _ _ Hrep0).
      eapply Permutation_in; [apply Permutation_sym; apply it_indices_plug|exact Hj]. }
    apply it_ranges_plug in Hranges as [Hlr Hfr].
    pose proof (perm_nodup_map _ _ _ (it_leaves_plug c lf0) Hkeys) as Hkeys'. cbn [lf0 it_leaves app map fst snd] in Hkeys'.
    inversion Hkeys' as [|? ? Hk_ctx Hkeys_ctx]; subst.
    pose proof (perm_nodup_map _ _ _ (it_leaves_plug c lf0) Hhashes) as Hhashes'. cbn [lf0 it_leaves app map snd] in Hhashes'.
    inversion Hhashes' as [|? ? Hh_ctx Hhashes_ctx]; subst.
    split; [exact Hg|]. split; [exact Hctx|]. split; [exact Hi_ctx|]. split; [exact Hnd_ctx|]. split; [exact Hidx|].
    split; [exact Hlr|]. split; [exact Hfr|]. split.
    { apply (frames_wf c (nblocks s)); [exact Hfr| |exact Hbound]. intros j Hj. apply Hidx. now right. }
    split.
    { intros Hf. assert (Hlt : i < nblocks s) by (apply Hidx; now left). apply (Hfree i Hlt) in Hf. apply Hf.
      eapply Permutation_in; [apply Permutation_sym; apply it_indices_plug|]. cbn. now left. }
    split; [exact Hk_ctx|]. split; [exact Hkeys_ctx|]. split; [exact Hh_ctx|]. split; [exact Hhashes_ctx|].
    split; [eapply twf_closed; exact Htwf|]. split; [apply Hk2i; eauto|apply Hh2i; eauto].
  Qed.
End Facts.

Lemma replace_child_left n old new : old = i_left n ->
  replace_child n old new = Some (mkInode (i_hash n) (i_parent n) new (i_right n)).
Proof. intros ->. unfold replace_child. now rewrite N.eqb_refl. Qed.
Lemma replace_child_right n old new : old <> i_left n -> old = i_right n ->
  replace_child n old new = Some (mkInode (i_hash n) (i_parent n) (i_left n) new).
Proof.
  intros Hn ->. unfold replace_child. destruct (N.eqb_spec (i_right n) (i_left n)); [contradiction|].
  now rewrite N.eqb_refl.
Qed.

Lemma fr_idx_in_ctx c j : In j (map fr_idx c) -> In j (ctx_indices c).
Proof.
  intros Hx. apply in_map_iff in Hx as [g [<- Hgin]]. unfold ctx_indices. apply in_flat_map.
  exists g. split; [exact Hgin|now left].
Qed.

Lemma erase_hashes t : mhashes (t_kv (erase t)) = it_lhashes t.
Proof.
  unfold mhashes, it_lhashes. rewrite erase_kv, map_map. apply map_ext. now intros [[[i k] v] h].
Qed.

Section Insert.
  Variable H : bytes -> bytes.
  Hypothesis Hlen : forall x, length (H x) = HASH_BYTES.

  Definition ins_sub (sd : side) (a b idx : N) (k v : N) (h : bytes) (kref vr : N) (hr : bytes) : itree :=
    match sd with
    | SLeft => INode b (internal_hash H h hr) false (ILeaf a k v h) (ILeaf idx kref vr hr)
    | SRight => INode b (internal_hash H hr h) false (ILeaf idx kref vr hr) (ILeaf a k v h)
    end.

  (* insert next to a live leaf of a tree with at least two leaves (insert_third_or_later) *)
  Theorem insert_at_leaf_3 s c idx kref vr hr k v h sd :
    Inv_tree H s (plug c (ILeaf idx kref vr hr)) -> c <> [] ->
    nblocks s + 2 <= 2 ^ 32 ->          (* room for two more blocks: TreeIndex is u32, the model does not wrap *)
    k < 2 ^ 64 -> v < 2 ^ 64 -> length h = HASH_BYTES ->
    ~ In k (it_keys (plug c (ILeaf idx kref vr hr))) -> ~ In h (it_lhashes (plug c (ILeaf idx kref vr hr))) ->
    exists s' a b,
      insert H k v h (LLeaf idx sd) s = (Ok a, s') /\
      Inv_tree H s' (plug (map set_dirty c) (ins_sub sd a b idx k v h kref vr hr)) /\
      t_insert H k v h (TKey kref sd) (Some (erase (plug c (ILeaf idx kref vr hr))))
      = (true, Some (erase (plug (map set_dirty c) (ins_sub sd a b idx k v h kref vr hr)))) /\
      nblocks s' <= nblocks s + 2.
  Proof.
    intros HI Hc Hroom Hk Hv Hh Hkfresh Hhfresh. set (old := ILeaf idx kref vr hr) in *.
    destruct (inv_plug_facts H _ _ _ _ _ _ HI)
      as [Hg [Hctx [Hi_ctx [Hnd_ctx [Hidx [[Hkr [Hvr Hhr]] [Hfr [Hwfc [Hi_free [Hk_ctx [Hkeys_ctx [Hh_ctx [Hhashes_ctx [Hcl [Hki Hhi]]]]]]]]]]]]]]].
    pose proof (leaf_count_leaves H _ _ HI) as Hlc.
    destruct HI as [Hrep Hroot Hnd Hbound Hblen Hfnd Hfree Hflt Hk2i Hh2i Hkn Hhn Hkeys Hhashes Hranges Htwf].
    (* freshness of k and h *)
    assert (Hleaves0 : Permutation (it_leaves (plug c old)) ((idx, kref, vr, hr) :: ctx_leaves c)) by apply it_leaves_plug.
    assert (Hk_ne : k <> kref /\ ~ In k (ctx_keys c)).
    { split; [intros ->|intros Hx]; apply Hkfresh; unfold it_keys;
        eapply Permutation_in; [apply Permutation_map; apply Permutation_sym; exact Hleaves0|now left|
                                apply Permutation_map; apply Permutation_sym; exact Hleaves0|now right]. }
    assert (Hh_ne : h <> hr /\ ~ In h (ctx_hashes c)).
    { split; [intros ->|intros Hx]; apply Hhfresh; unfold it_lhashes;
        eapply Permutation_in; [apply Permutation_map; apply Permutation_sym; exact Hleaves0|now left|
                                apply Permutation_map; apply Permutation_sym; exact Hleaves0|now right]. }
    destruct Hk_ne as [Hk_ne Hk_nctx]. destruct Hh_ne as [Hh_ne Hh_nctx].
    assert (Hknone : amap_get N.eqb k (k2i s) = None).
    { destruct (amap_get N.eqb k (k2i s)) as [i'|] eqn:E; [|reflexivity]. exfalso. apply Hk2i in E as [v' [h' Hx]].
      apply Hkfresh. unfold it_keys. apply in_map_iff. eexists. split; [|exact Hx]. reflexivity. }
    assert (Hhnone : amap_get bytes_eqb h (h2i s) = None).
    { destruct (amap_get bytes_eqb h (h2i s)) as [i'|] eqn:E; [|reflexivity]. exfalso. apply Hh2i in E as [k' [v' Hx]].
      apply Hhfresh. unfold it_lhashes. apply in_map_iff. eexists. split; [|exact Hx]. reflexivity. }
    assert (Hidx_lt : idx < nblocks s) by (apply Hidx; now left).
    assert (Hindices0 : forall j, In j (it_indices (plug c old)) <-> In j (idx :: ctx_indices c)).
    { intros j. apply (in_perm_iff _ _ j (it_indices_plug c old)). }
    (* the two allocations *)
    assert (HA0 : Alloc s (plug c old) []).
    { unfold Alloc. split; [exact Hfnd|]. split; [|split; [exact Hflt|split; [intros a []|split; [constructor|]]]].
      - intros i Hi. rewrite (Hfree i Hi). cbn [In]. tauto.
      - intros i Hi. apply Hidx. now apply Hindices0. }
    destruct (get_new_index_spec s _ _ HA0 Hblen) as [a [s1 [Ea [HA1 [Hget1 [Hn1a [Hn1b [Hbl1 [Hk1 [Hh1 Hfa1]]]]]]]]]].
    destruct (get_new_index_spec s1 _ _ HA1 Hbl1) as [b [s2 [Eb [HA2 [Hget2 [Hn2a [Hn2b [Hbl2 [Hk2 [Hh2 Hfb2]]]]]]]]]].
    destruct HA2 as [Hfnd2 [Hiff2 [Hflt2 [HAA2 [HndA2 Hidx2]]]]].
    assert (Hab : a <> b) by (inversion HndA2 as [|? ? Hx _]; subst; intros ->; apply Hx; now left).
    destruct (HAA2 a (or_intror (or_introl eq_refl))) as [Ha_lt Ha_ni].
    destruct (HAA2 b (or_introl eq_refl)) as [Hb_lt Hb_ni].
    assert (Ha_free : ~ In a (free s2)).
    { intros Hx. apply (Hiff2 a Ha_lt) in Hx as [_ Hx]. apply Hx. right. now left. }
    assert (Hget02 : forall j, j < nblocks s -> get_block s2 j = get_block s j).
    { intros j Hj. rewrite Hget2 by lia. now apply Hget1. }
    assert (Ha_nidx : a <> idx /\ ~ In a (ctx_indices c)).
    { split; [intros ->|intros Hx]; apply Ha_ni; apply Hindices0; [now left|now right]. }
    assert (Hb_nidx : b <> idx /\ ~ In b (ctx_indices c)).
    { split; [intros ->|intros Hx]; apply Hb_ni; apply Hindices0; [now left|now right]. }
    destruct Ha_nidx as [Ha_idx Ha_ctx]. destruct Hb_nidx as [Hb_idx Hb_ctx].
    assert (Hbound2 : nblocks s2 <= 2 ^ 32).
    { (* the two new indexes are below 2^32 because ... the blob may grow by two blocks *)
      unfold nblocks in *. lia. }
    destruct c as [|[p hh d lh sib] c']; [congruence|]. clear Hc.
    cbn [ctx_rep frame_rep ctx_par fr_idx] in Hctx. destruct Hctx as [[Hgp Hsib] Hctx'].
    assert (Hp_lt : p < nblocks s) by (apply Hidx; right; apply ctx_indices_cons; now left).
    assert (Hp_idx : p <> idx) by (intros ->; apply Hi_ctx; apply ctx_indices_cons; now left).
    assert (Hp_a : p <> a) by (intros ->; apply Ha_ctx; apply ctx_indices_cons; now left).
    assert (Hp_b : p <> b) by (intros ->; apply Hb_ctx; apply ctx_indices_cons; now left).
    pose proof Hnd_ctx as Hnd_ctx0.
    unfold ctx_indices in Hnd_ctx. cbn [flat_map fr_idx fr_sib] in Hnd_ctx. fold (ctx_indices c') in Hnd_ctx.
    inversion Hnd_ctx as [|? ? Hp_rest Hnd_rest]; subst.
    destruct (NoDup_app_inv _ _ Hnd_rest) as [Hnd_sib [Hnd_c' Hdis_sib_c']].
    assert (Hsib_not : forall j, In j (it_indices sib) -> j <> p /\ j <> idx /\ j <> a /\ j <> b /\ ~ In j (map fr_idx c') /\ j < nblocks s).
    { intros j Hj. assert (Hjc : In j (ctx_indices (Fr p hh d lh sib :: c'))) by (apply ctx_indices_cons; right; now left).
      split; [intros ->; apply Hp_rest; apply in_app_iff; now left|].
      split; [intros ->; contradiction|]. split; [intros ->; contradiction|]. split; [intros ->; contradiction|].
      split; [|apply Hidx; now right].
      intros Hx. apply (Hdis_sib_c' j Hj). apply in_map_iff in Hx as [g [<- Hgin]]. unfold ctx_indices. apply in_flat_map.
      exists g. split; [exact Hgin|now left]. }
    assert (Hc'_not : forall j, In j (ctx_indices c') -> j <> p /\ j <> idx /\ j <> a /\ j <> b /\ j < nblocks s).
    { intros j Hj. assert (Hjc : In j (ctx_indices (Fr p hh d lh sib :: c'))) by (apply ctx_indices_cons; right; now right).
      split; [intros ->; apply Hp_rest; apply in_app_iff; now right|].
      split; [intros ->; contradiction|]. split; [intros ->; contradiction|]. split; [intros ->; contradiction|].
      apply Hidx. now right. }
    inversion Hwfc as [|? ? [Hhh [Hp32 Hsib32]] Hwfc']; subst. cbn [fr_hash fr_idx fr_sib] in *.
    (* run insert up to insert_third_or_later *)
    unfold insert. unfold amap_mem. rewrite Hknone, Hhnone.
    unfold get_node, rbind. rewrite Hg. cbn [b_node l_key]. rewrite Hki, N.eqb_refl. cbn [negb].
    assert (Hlc1 : (leaf_count s =? 1) = false).
    { rewrite Hlc. rewrite plug_leaves_length. cbn [old it_leaves length].
      pose proof (ctx_leaves_cons_nonempty (Fr p hh d lh sib) c'). destruct (ctx_leaves (Fr p hh d lh sib :: c')); [congruence|].
      cbn [length]. apply N.eqb_neq. lia. }
    rewrite Hlc1.
    unfold insert_third_or_later. unfold bind at 1. rewrite Ea. unfold bind at 1. rewrite Eb.
    cbn [l_hash l_key l_value l_parent ctx_par fr_idx].
    set (ihv := match sd with SLeft => internal_hash H h hr | SRight => internal_hash H hr h end).
    (* W3: the new leaf *)
    set (nb_a := leaf_block (mkLeaf h (Some b) k v)).
    assert (Hwa : wf_block nb_a).
    { unfold nb_a, leaf_block, wf_block, wf_node, wf_leaf. cbn. repeat split; auto. unfold nblocks in *. lia. }
    destruct (insert_entry_spec a nb_a s2 Hwa) as [s3 [E3 [Hget3 [Hn3 [Hbl3 [Hf3 [Hk3 Hh3]]]]]]]; [lia|exact Hbl2|].
    unfold bind at 1. rewrite E3.
    assert (Hn3' : nblocks s3 = nblocks s2) by (rewrite Hn3; destruct (N.eqb_spec a (nblocks s2)); [lia|reflexivity]).
    assert (Hf3' : free s3 = free s2) by (rewrite Hf3; now apply free_remove_notin).
    cbn [nb_a leaf_block b_node l_key l_hash] in Hk3, Hh3.
    (* W4: the new internal node *)
    set (li := match sd with SLeft => a | SRight => idx end).
    set (ri := match sd with SLeft => idx | SRight => a end).
    assert (Elr : (match sd with SLeft => (a, idx) | SRight => (idx, a) end) = (li, ri)) by (now destruct sd).
    rewrite Elr.
    set (nb_b := mkBlock false (NInt (mkInode ihv (Some p) li ri))).
    assert (Hwb : wf_block nb_b).
    { unfold nb_b, wf_block, wf_node, wf_inode. cbn. split; [unfold ihv; destruct sd; apply Hlen|]. split; [exact Hp32|].
      unfold li, ri, nblocks in *. destruct sd; split; lia. }
    destruct (insert_entry_spec b nb_b s3 Hwb) as [s4 [E4 [Hget4 [Hn4 [Hbl4 [Hf4 [Hk4 Hh4]]]]]]]; [lia|exact Hbl3|].
    unfold bind at 1. fold nb_b. rewrite E4.
    assert (Hn4' : nblocks s4 = nblocks s2) by (rewrite Hn4, Hn3'; destruct (N.eqb_spec b (nblocks s2)); [lia|reflexivity]).
    assert (Hf4' : free s4 = free s2) by (rewrite Hf4, Hf3'; now apply free_remove_notin).
    cbn [nb_b b_node] in Hk4, Hh4.
    (* W5: the old leaf gets the new parent *)
    assert (Hg4_idx : get_block s4 idx = Ok (mkBlock false (NLeaf (mkLeaf hr (Some p) kref vr)))).
    { rewrite Hget4. destruct (N.eqb_spec idx b); [congruence|]. rewrite Hget3. destruct (N.eqb_spec idx a); [congruence|].
      rewrite Hget02 by exact Hidx_lt. exact Hg. }
    unfold bind at 1. unfold update_parent. unfold bind at 1. unfold read. rewrite Hg4_idx. cbn [b_dirty b_node node_set_parent l_hash l_key l_value].
    set (nb_o := mkBlock false (NLeaf (mkLeaf hr (Some b) kref vr))).
    assert (Hwo : wf_block nb_o).
    { unfold nb_o, wf_block, wf_node, wf_leaf. cbn. repeat split; auto. unfold nblocks in *. lia. }
    destruct (insert_entry_spec idx nb_o s4 Hwo) as [s5 [E5 [Hget5 [Hn5 [Hbl5 [Hf5 [Hk5 Hh5]]]]]]]; [lia|exact Hbl4|].
    unfold bind at 1. rewrite E5. unfold ret at 1.
    assert (Hn5' : nblocks s5 = nblocks s2) by (rewrite Hn5, Hn4'; destruct (N.eqb_spec idx (nblocks s2)); [lia|reflexivity]).
    assert (Hidx_free2 : ~ In idx (free s2)).
    { intros Hx. assert (Hl2 : idx < nblocks s2) by lia. apply (Hiff2 idx Hl2) in Hx as [Hx _]. apply Hx. apply Hindices0. now left. }
    assert (Hf5' : free s5 = free s2) by (rewrite Hf5, Hf4'; now apply free_remove_notin).
    cbn [nb_o b_node l_key l_hash] in Hk5, Hh5.
    (* W6: the old parent now points to the new internal node *)
    assert (Hg5_p : get_block s5 p = Ok (mkBlock d (NInt (mkInode hh (ctx_par c') (if lh then idx else it_index sib) (if lh then it_index sib else idx))))).
    { rewrite Hget5. destruct (N.eqb_spec p idx); [congruence|]. rewrite Hget4. destruct (N.eqb_spec p b); [congruence|].
      rewrite Hget3. destruct (N.eqb_spec p a); [congruence|]. rewrite Hget02 by exact Hp_lt. exact Hgp. }
    unfold bind at 1. unfold read. rewrite Hg5_p. cbn [b_node b_dirty].
    set (n' := mkInode hh (ctx_par c') (if lh then b else it_index sib) (if lh then it_index sib else b)).
    assert (Erc : replace_child (mkInode hh (ctx_par c') (if lh then idx else it_index sib) (if lh then it_index sib else idx)) idx b = Some n').
    { unfold n'. destruct lh.
      - now rewrite replace_child_left by reflexivity.
      - rewrite replace_child_right; [reflexivity| |reflexivity]. cbn [i_left].
        intros E. destruct (Hsib_not (it_index sib) (it_index_in sib)) as [_ [Hx _]]. congruence. }
    rewrite Erc.
    set (nb_p := mkBlock d (NInt n')).
    assert (Hwp : wf_block nb_p).
    { unfold nb_p, n', wf_block, wf_node, wf_inode. cbn. split; [exact Hhh|]. split; [now apply ctx_par_lt|].
      unfold nblocks in *. destruct lh; split; lia. }
    destruct (insert_entry_spec p nb_p s5 Hwp) as [s6 [E6 [Hget6 [Hn6 [Hbl6 [Hf6 [Hk6 Hh6]]]]]]]; [lia|exact Hbl5|].
    unfold bind at 1. fold nb_p. rewrite E6.
    assert (Hn6' : nblocks s6 = nblocks s2) by (rewrite Hn6, Hn5'; destruct (N.eqb_spec p (nblocks s2)); [lia|reflexivity]).
    assert (Hp_free2 : ~ In p (free s2)).
    { intros Hx. assert (Hl2 : p < nblocks s2) by lia. apply (Hiff2 p Hl2) in Hx as [Hx _]. apply Hx. apply Hindices0. right.
      apply ctx_indices_cons. now left. }
    assert (Hf6' : free s6 = free s2) by (rewrite Hf6, Hf5'; now apply free_remove_notin).
    cbn [nb_p b_node] in Hk6, Hh6.
    (* reading s6 *)
    assert (Hget06 : forall j, j < nblocks s -> j <> a -> j <> b -> j <> idx -> j <> p -> get_block s6 j = get_block s j).
    { intros j Hj Ja Jb Ji Jp. rewrite Hget6. destruct (N.eqb_spec j p); [congruence|]. rewrite Hget5.
      destruct (N.eqb_spec j idx); [congruence|]. rewrite Hget4. destruct (N.eqb_spec j b); [congruence|]. rewrite Hget3.
      destruct (N.eqb_spec j a); [congruence|]. now apply Hget02. }
    (* W7: mark the lineage *)
    set (c := Fr p hh d lh sib :: c') in *.
    assert (Hctx6 : ctx_rep s6 c b).
    { cbn [c ctx_rep frame_rep ctx_par fr_idx]. split; [split|].
      - rewrite Hget6, N.eqb_refl. reflexivity.
      - eapply rep_frame; [|exact Hsib]. intros j Hj. destruct (Hsib_not j Hj) as [J1 [J2 [J3 [J4 [_ J6]]]]]. now apply Hget06.
      - eapply ctx_rep_frame; [|exact Hctx']. intros j Hj. destruct (Hc'_not j Hj) as [J1 [J2 [J3 [J4 J5]]]]. now apply Hget06. }
    pose proof (mark_ctx c s6 b (S (length (blocks s6))) Hctx6 Hcl Hbl6 Hnd_ctx0) as Hm.
    cbn [c] in Hm. fold c in Hm. destruct Hm as [s7 [E7 [Hctx7 [Hget7 [Hn7 [Hbl7 [Hf7 [Hk7 Hh7]]]]]]]].
    { unfold nblocks in *. lia. }
    { exact Hwfc. }
    { intros g Hgin. rewrite Hf6'. intros Hx.
      assert (Hgi : In (fr_idx g) (ctx_indices c)) by (apply fr_idx_in_ctx; now apply in_map).
      assert (Hl2 : fr_idx g < nblocks s2) by (assert (fr_idx g < nblocks s) by (apply Hidx; now right); lia).
      apply (Hiff2 _ Hl2) in Hx as [Hx _]. apply Hx. apply Hindices0. now right. }
    { pose proof (ctx_length_indices c). pose proof (pigeonhole (ctx_indices c) (length (blocks s)) Hnd_ctx0) as Hp.
      assert (length (ctx_indices c) <= length (blocks s))%nat by (apply Hp; intros x Hx; apply Hidx; now right).
      unfold nblocks in *. lia. }
    unfold bind at 1. unfold mark_lineage_as_dirty. cbn [fr_idx] in E7. rewrite E7. unfold ret.
    exists s7, a, b. split; [reflexivity|].
    set (sub := ins_sub sd a b idx k v h kref vr hr).
    assert (Hsub_idx : it_index sub = b) by (unfold sub, ins_sub; now destruct sd).
    assert (Hsub_leaves : Permutation (it_leaves sub) [(a, k, v, h); (idx, kref, vr, hr)]).
    { unfold sub, ins_sub. destruct sd; cbn [it_leaves app]; [reflexivity|apply perm_swap]. }
    assert (Hsub_indices : Permutation (it_indices sub) [b; a; idx]).
    { unfold sub, ins_sub. destruct sd; cbn [it_indices app]; [reflexivity|]. constructor. apply perm_swap. }
    assert (Hleaves' : Permutation (it_leaves (plug (map set_dirty c) sub)) ((a, k, v, h) :: (idx, kref, vr, hr) :: ctx_leaves c)).
    { eapply Permutation_trans; [apply it_leaves_plug|]. rewrite ctx_leaves_dirty.
      change ((a, k, v, h) :: (idx, kref, vr, hr) :: ctx_leaves c) with ([(a, k, v, h); (idx, kref, vr, hr)] ++ ctx_leaves c).
      now apply Permutation_app_tail. }
    assert (Hindices' : Permutation (it_indices (plug (map set_dirty c) sub)) (b :: a :: idx :: ctx_indices c)).
    { eapply Permutation_trans; [apply it_indices_plug|]. rewrite ctx_indices_dirty.
      change (b :: a :: idx :: ctx_indices c) with ([b; a; idx] ++ ctx_indices c). now apply Permutation_app_tail. }
    assert (Hnf : forall j, j = a \/ j = b \/ j = idx -> ~ In j (map fr_idx c)).
    { intros j Hj Hx. apply fr_idx_in_ctx in Hx. destruct Hj as [E|[E|E]]; subst j; contradiction. }
    assert (Hg7a : get_block s7 a = Ok nb_a).
    { rewrite Hget7 by (apply Hnf; auto). rewrite Hget6. destruct (N.eqb_spec a p); [congruence|]. rewrite Hget5.
      destruct (N.eqb_spec a idx); [congruence|]. rewrite Hget4. destruct (N.eqb_spec a b); [congruence|].
      rewrite Hget3, N.eqb_refl. reflexivity. }
    assert (Hg7b : get_block s7 b = Ok nb_b).
    { rewrite Hget7 by (apply Hnf; auto). rewrite Hget6. destruct (N.eqb_spec b p); [congruence|]. rewrite Hget5.
      destruct (N.eqb_spec b idx); [congruence|]. rewrite Hget4, N.eqb_refl. reflexivity. }
    assert (Hg7i : get_block s7 idx = Ok nb_o).
    { rewrite Hget7 by (apply Hnf; auto). rewrite Hget6. destruct (N.eqb_spec idx p); [congruence|]. rewrite Hget5, N.eqb_refl.
      reflexivity. }
    assert (Hgraft : t_graft kref (t_join H sd (TLeaf k v h)) (erase (plug c old)) = Some (erase (plug (map set_dirty c) sub))).
    { apply graft_plug.
      - apply Forall_forall. intros g Hgin Hx. apply Hk_ctx. apply ctx_keys_in. eauto.
      - cbn [old erase t_graft]. rewrite N.eqb_refl. unfold sub, ins_sub. destruct sd; reflexivity. }
    assert (Hk7' : k2i s7 = amap_set N.eqb kref idx (amap_set N.eqb k a (k2i s))).
    { rewrite Hk7, Hk6, Hk5, Hk4, Hk3, Hk2, Hk1. reflexivity. }
    assert (Hh7' : h2i s7 = amap_set bytes_eqb hr idx (amap_set bytes_eqb h a (h2i s))).
    { rewrite Hh7, Hh6, Hh5, Hh4, Hh3, Hh2, Hh1. reflexivity. }
    assert (Hn7' : nblocks s7 = nblocks s2) by congruence.
    assert (Hf7' : free s7 = free s2) by congruence.
    split; [|split; [|lia]].
    - constructor.
      + (* rep *)
        apply rep_plug. rewrite ctx_par_dirty, Hsub_idx. split; [|exact Hctx7].
        cbn [c ctx_par fr_idx]. unfold sub, ins_sub. destruct sd.
        * constructor; [exact Hg7b| |]; constructor; [exact Hg7a|exact Hg7i].
        * constructor; [exact Hg7b| |]; constructor; [exact Hg7i|exact Hg7a].
      + (* root *)
        rewrite <- Hroot. rewrite (it_index_plug (map set_dirty c) sub old) by (cbn [c map]; discriminate).
        apply it_index_plug_dirty. reflexivity.
      + (* indexes distinct *)
        eapply Permutation_NoDup; [apply Permutation_sym; exact Hindices'|].
        constructor; [intros [E|[E|E]]; [congruence|congruence|contradiction]|].
        constructor; [intros [E|E]; [congruence|contradiction]|]. constructor; assumption.
      + fold (nblocks s7). rewrite Hn7'. exact Hbound2.
      + exact Hbl7.
      + rewrite Hf7'. exact Hfnd2.
      + (* free list *)
        intros j Hj. fold (nblocks s7) in Hj. rewrite Hn7' in Hj. rewrite Hf7', (Hiff2 j Hj).
        rewrite (in_perm_iff _ _ j Hindices'), (Hindices0 j). cbn [In]. tauto.
      + intros j Hj. fold (nblocks s7). rewrite Hn7'. rewrite Hf7' in Hj. now apply Hflt2.
      + (* key cache *)
        intros k' i'. rewrite Hk7'. rewrite !(amap_get_set N.eqb N.eqb_spec).
        destruct (N.eqb_spec k' kref) as [->|Hn1]; [|destruct (N.eqb_spec k' k) as [->|Hn2]].
        * split.
          -- intros [= <-]. exists vr, hr. apply (in_perm_iff _ _ _ Hleaves'). right. now left.
          -- intros [v' [h' Hx]]. apply (in_perm_iff _ _ _ Hleaves') in Hx as [Hx|[Hx|Hx]]; [congruence|congruence|].
             exfalso. apply Hk_ctx. unfold ctx_keys. apply in_map_iff. eexists. split; [|exact Hx]. reflexivity.
        * split.
          -- intros [= <-]. exists v, h. apply (in_perm_iff _ _ _ Hleaves'). now left.
          -- intros [v' [h' Hx]]. apply (in_perm_iff _ _ _ Hleaves') in Hx as [Hx|[Hx|Hx]]; [congruence|congruence|].
             exfalso. apply Hk_nctx. unfold ctx_keys. apply in_map_iff. eexists. split; [|exact Hx]. reflexivity.
        * rewrite Hk2i. split; intros [v' [h' Hx]]; exists v', h'.
          -- apply (in_perm_iff _ _ _ Hleaves0) in Hx. apply (in_perm_iff _ _ _ Hleaves').
             destruct Hx as [Hx|Hx]; [congruence|]. right. now right.
          -- apply (in_perm_iff _ _ _ Hleaves') in Hx. apply (in_perm_iff _ _ _ Hleaves0).
             destruct Hx as [Hx|[Hx|Hx]]; [congruence|congruence|now right].
      + (* hash cache *)
        intros h' i'. rewrite Hh7'. rewrite !(amap_get_set bytes_eqb bytes_eqb_spec).
        destruct (bytes_eqb_spec h' hr) as [->|Hn1]; [|destruct (bytes_eqb_spec h' h) as [->|Hn2]].
        * split.
          -- intros [= <-]. exists kref, vr. apply (in_perm_iff _ _ _ Hleaves'). right. now left.
          -- intros [k' [v' Hx]]. apply (in_perm_iff _ _ _ Hleaves') in Hx as [Hx|[Hx|Hx]]; [congruence|congruence|].
             exfalso. apply Hh_ctx. unfold ctx_hashes. apply in_map_iff. eexists. split; [|exact Hx]. reflexivity.
        * split.
          -- intros [= <-]. exists k, v. apply (in_perm_iff _ _ _ Hleaves'). now left.
          -- intros [k' [v' Hx]]. apply (in_perm_iff _ _ _ Hleaves') in Hx as [Hx|[Hx|Hx]]; [congruence|congruence|].
             exfalso. apply Hh_nctx. unfold ctx_hashes. apply in_map_iff. eexists. split; [|exact Hx]. reflexivity.
        * rewrite Hh2i. split; intros [k' [v' Hx]]; exists k', v'.
          -- apply (in_perm_iff _ _ _ Hleaves0) in Hx. apply (in_perm_iff _ _ _ Hleaves').
             destruct Hx as [Hx|Hx]; [congruence|]. right. now right.
          -- apply (in_perm_iff _ _ _ Hleaves') in Hx. apply (in_perm_iff _ _ _ Hleaves0).
             destruct Hx as [Hx|[Hx|Hx]]; [congruence|congruence|now right].
      + rewrite Hk7'. apply amap_set_nodup; [exact N.eqb_spec|]. apply amap_set_nodup; [exact N.eqb_spec|exact Hkn].
      + rewrite Hh7'. apply amap_set_nodup; [exact bytes_eqb_spec|]. apply amap_set_nodup; [exact bytes_eqb_spec|exact Hhn].
      + (* keys distinct *)
        unfold it_keys. eapply perm_nodup_map; [apply Permutation_sym; exact Hleaves'|]. cbn [map fst snd].
        constructor; [intros [E|Hx]; [congruence|contradiction]|]. constructor; assumption.
      + unfold it_lhashes. eapply perm_nodup_map; [apply Permutation_sym; exact Hleaves'|]. cbn [map snd].
        constructor; [intros [E|Hx]; [congruence|contradiction]|]. constructor; assumption.
      + apply it_ranges_plug. split; [|now apply fr_ranges_dirty].
        unfold sub, ins_sub. destruct sd; cbn [it_ranges]; repeat split; auto; apply Hlen.
      + eapply graft_twf; [exact Htwf| |exact Hgraft]. intros v1 h1.
        destruct sd; cbn [t_join twf t_all_clean t_hash]; repeat split; auto.
    - unfold t_insert.
      assert (Hm1 : m_mem k (ot_kv (Some (erase (plug c old)))) = false).
      { apply m_mem_false. cbn [ot_kv]. fold (tkeys (erase (plug c old))). fold (tkeys_i (plug c old)).
        now rewrite tkeys_i_keys. }
      assert (Hm2 : m_has_hash h (ot_kv (Some (erase (plug c old)))) = false).
      { apply m_has_hash_false. cbn [ot_kv]. now rewrite erase_hashes. }
      rewrite Hm1, Hm2. cbn [orb]. rewrite Hgraft. reflexivity.
  Qed.
End Insert.
