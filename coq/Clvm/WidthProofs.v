(* Clvm/WidthProofs.v — encode_number / decode_number of clvm-traits for every unsigned width:
   encoding yields the canonical form and decoding the canonical form returns the value. *)
From ChiaV.Base Require Import Bytes.
From ChiaV.Clvm Require Import Ints Sexp IntsProofs.
From Coq Require Import ZifyBool ZifyNat ZifyN.
Open Scope N_scope.

Lemma skip_pad_zero_be2n s : be2n (skip_pad x00 s) = be2n s.
Proof.
  induction s as [|b r IH]; [reflexivity|]. cbn [skip_pad].
  destruct (byte_eqb_spec b x00) as [->|Hne]; [|reflexivity].
  rewrite IH, be2n_cons. change (b2n x00) with 0. lia.
Qed.

Lemma skip_pad_zero_hd s : match skip_pad x00 s with [] => True | b :: _ => b2n b <> 0 end.
Proof.
  induction s as [|b r IH]; [exact I|]. cbn [skip_pad].
  destruct (byte_eqb_spec b x00) as [->|Hne]; [exact IH|].
  intros E. apply Hne. apply b2n_inj. exact E.
Qed.

(* encode_number on any unsigned big-endian string is the canonical form of its value *)
Theorem encode_number_unsigned s : encode_number s false = canon_n (be2n s).
Proof.
  unfold encode_number. rewrite <- (skip_pad_zero_be2n s).
  pose proof (skip_pad_zero_hd s) as Hh.
  destruct (skip_pad x00 s) as [|b r] eqn:E; [reflexivity|].
  destruct (N.leb_spec 128 (b2n b)) as [Hb|Hb].
  - symmetry. replace (be2n (b :: r)) with (be2n (x00 :: b :: r)) by (rewrite (be2n_cons x00); change (b2n x00) with 0; lia).
    apply canon_n_unique; [|cbn; lia].
    cbn [is_minimal]. change (b2n x00 =? 0) with true. destruct (N.ltb_spec (b2n b) 128); [lia|]. reflexivity.
  - symmetry. apply canon_n_unique; [|exact Hb].
    destruct r as [|c r']; cbn [is_minimal].
    + destruct (N.eqb_spec (b2n b) 0); [contradiction|reflexivity].
    + destruct (N.eqb_spec (b2n b) 0); [contradiction|]. destruct (N.eqb_spec (b2n b) 255); [lia|reflexivity].
Qed.

Theorem encode_number_width LEN v : v < 256 ^ N.of_nat LEN -> encode_number (n2be LEN v) false = canon_n v.
Proof. intros Hv. now rewrite encode_number_unsigned, be2n_n2be. Qed.

Lemma repeat_byte_n2be j k n : n < 256 ^ N.of_nat k -> repeat_byte j x00 ++ n2be k n = n2be (j + k) n.
Proof. intros H. now rewrite n2be_pad. Qed.

(* decode_number::<LEN>(canonical form of v, unsigned) = to_be_bytes(v) whenever v fits *)
Theorem decode_number_unsigned LEN v :
  v < 256 ^ N.of_nat LEN -> decode_number LEN false (canon_n v) = Some (n2be LEN v).
Proof.
  intros Hv. pose proof (canon_n_nonneg v) as Hnn. pose proof (canon_n_fits v LEN Hv) as Hf.
  pose proof (be2n_canon_n v) as Hval. pose proof (canon_n_minimal v) as Hmin.
  unfold decode_number. destruct (canon_n v) as [|b0 tl] eqn:E.
  - cbn in Hval. subst v. now rewrite n2be_zero.
  - destruct (N.leb_spec 128 (b2n b0)) as [|_]; [lia|]. cbn [negb andb].
    cbn [strip_pad].
    destruct (Nat.ltb_spec LEN (length (b0 :: tl))) as [Hlong|Hshort]; cbn [andb].
    + (* one byte too long: it is the sign byte 00 *)
      destruct (N.eqb_spec (b2n b0) 0) as [Hb0|Hb0]; [|cbn [length] in *; lia].
      assert (Eb : byte_eqb b0 x00 = true).
      { unfold byte_eqb. rewrite Hb0. reflexivity. }
      rewrite Eb. cbn [length] in Hf, Hlong.
      assert (Hl : length tl = LEN) by lia.
      destruct tl as [|b1 tl'].
      * cbn [length] in Hl. subst LEN. cbn [is_minimal] in Hmin. rewrite Hb0 in Hmin. discriminate.
      * cbn [strip_pad].
        destruct (Nat.ltb_spec LEN (length (b1 :: tl'))) as [|_]; [lia|]. cbn [andb].
        destruct (Nat.ltb_spec LEN (length (b1 :: tl'))); [lia|]. cbn [orb negb Bool.eqb].
        rewrite Hl, Nat.sub_diag. cbn [repeat_byte app]. f_equal.
        rewrite be2n_cons, Hb0, N.mul_0_l, N.add_0_l in Hval. rewrite <- Hval, <- Hl. symmetry. apply n2be_be2n.
    + destruct (Nat.ltb_spec LEN (length (b0 :: tl))); [lia|]. cbn [orb negb Bool.eqb].
      f_equal. rewrite <- Hval.
      replace (n2be LEN (be2n (b0 :: tl))) with (n2be ((LEN - length (b0 :: tl)) + length (b0 :: tl)) (be2n (b0 :: tl)))
        by (f_equal; lia).
      rewrite <- repeat_byte_n2be by (apply be2n_lt). now rewrite n2be_be2n.
Qed.
