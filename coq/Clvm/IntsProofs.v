(* Clvm/IntsProofs.v — theorems about canonical integers and the integer mirrors. *)
From ChiaV.Base Require Import Bytes.
From ChiaV.Clvm Require Import Ints Sexp.
From Coq Require Import ZifyBool ZifyNat ZifyN.
Ltac Zify.zify_post_hook ::= Z.div_mod_to_equations.
Open Scope N_scope.

(* ---------- n2be structure ---------- *)
Lemma n2b_mod x : n2b (x mod 256) = n2b x.
Proof. unfold n2b. now rewrite N.mod_mod by lia. Qed.

Lemma n2be_mod k n : n2be k (n mod 256 ^ N.of_nat k) = n2be k n.
Proof.
  destruct k as [|k]; [reflexivity|]. cbn [n2be].
  assert (Hk : 256 ^ N.of_nat k <> 0) by (apply N.pow_nonzero; lia).
  replace (N.of_nat (S k)) with (N.succ (N.of_nat k)) by lia.
  rewrite N.pow_succ_r', (N.mul_comm 256).
  rewrite N.mod_mul_r by (assumption || lia).
  f_equal.
  - rewrite (N.mul_comm (256 ^ N.of_nat k)), N.div_add by assumption.
    rewrite N.div_small by (apply N.mod_lt; assumption).
    cbn [N.add]. rewrite N.add_0_l. apply n2b_mod.
  - f_equal. rewrite (N.mul_comm (256 ^ N.of_nat k)), N.mod_add by assumption.
    now rewrite N.mod_mod by assumption.
Qed.

Lemma n2be_app j k n :
  n2be (j + k) n = n2be j (n / 256 ^ N.of_nat k) ++ n2be k (n mod 256 ^ N.of_nat k).
Proof.
  revert n; induction j as [|j IH]; intros n.
  - cbn [plus n2be app]. now rewrite n2be_mod.
  - cbn [plus n2be app].
    assert (Hk : 256 ^ N.of_nat k <> 0) by (apply N.pow_nonzero; lia).
    assert (Hj : 256 ^ N.of_nat j <> 0) by (apply N.pow_nonzero; lia).
    replace (N.of_nat (j + k)) with (N.of_nat j + N.of_nat k) by lia.
    rewrite N.pow_add_r.
    rewrite IH. f_equal.
    + f_equal. rewrite (N.mul_comm (256 ^ N.of_nat j)). now rewrite N.div_div by assumption.
    + f_equal.
      * rewrite (N.mul_comm (256 ^ N.of_nat j)).
        rewrite N.mod_mul_r by assumption.
        rewrite (N.mul_comm (256 ^ N.of_nat k)), N.div_add by assumption.
        rewrite N.div_small by (apply N.mod_lt; assumption). reflexivity.
      * rewrite (N.mul_comm (256 ^ N.of_nat j)).
        rewrite N.mod_mul_r by assumption.
        rewrite (N.mul_comm (256 ^ N.of_nat k)), N.mod_add by assumption.
        now rewrite N.mod_mod by assumption.
Qed.

Lemma n2be_zero k : n2be k 0 = repeat_byte k x00.
Proof.
  induction k as [|k IH]; [reflexivity|].
  cbn [n2be repeat_byte].
  assert (Hk : 256 ^ N.of_nat k <> 0) by (apply N.pow_nonzero; lia).
  rewrite N.div_0_l, N.mod_0_l by assumption. now rewrite IH.
Qed.

Lemma skipn_n2be j k n : n < 256 ^ N.of_nat k -> skipn j (n2be (j + k) n) = n2be k n.
Proof.
  intros H. rewrite n2be_app.
  rewrite skipn_app, n2be_length, Nat.sub_diag. cbn [skipn].
  rewrite skipn_all2 by (rewrite n2be_length; lia). cbn [app].
  now rewrite N.mod_small.
Qed.

Lemma n2be_pad j k n : n < 256 ^ N.of_nat k -> n2be (j + k) n = repeat_byte j x00 ++ n2be k n.
Proof.
  intros H. rewrite n2be_app. rewrite N.div_small, N.mod_small by assumption.
  now rewrite n2be_zero.
Qed.

(* ---------- canon_n on intervals ---------- *)
Lemma canon_len_bounds v lo hi L :
  2 ^ lo <= v -> v < 2 ^ hi -> (lo + 9) / 8 = L -> (hi + 8) / 8 = L ->
  canon_len v = N.to_nat L.
Proof.
  intros Hlo Hhi HL1 HL2.
  assert (Hpos : 0 < v).
  { assert (0 < 2 ^ lo) by (apply N.neq_0_lt_0, N.pow_nonzero; lia). lia. }
  unfold canon_len. f_equal.
  apply N.log2_le_pow2 in Hlo; [|exact Hpos].
  apply N.log2_lt_pow2 in Hhi; [|exact Hpos].
  lia.
Qed.

Lemma canon_n_bounds v lo hi L :
  2 ^ lo <= v -> v < 2 ^ hi -> (lo + 9) / 8 = L -> (hi + 8) / 8 = L ->
  canon_n v = n2be (N.to_nat L) v.
Proof.
  intros Hlo Hhi HL1 HL2. unfold canon_n.
  assert (0 < 2 ^ lo) by (apply N.neq_0_lt_0, N.pow_nonzero; lia).
  destruct (N.eqb_spec v 0) as [->|_]; [lia|].
  now rewrite (canon_len_bounds v lo hi L).
Qed.

Lemma canon_n_length_le v k : 0 < k -> v < 2 ^ (8 * k - 1) -> (length (canon_n v) <= N.to_nat k)%nat.
Proof.
  intros Hk Hv. unfold canon_n. destruct (N.eqb_spec v 0) as [->|Hnz]; [cbn; lia|].
  rewrite n2be_length. unfold canon_len.
  apply N.log2_lt_pow2 in Hv; [|lia]. lia.
Qed.

(* ---------- uniqueness of the minimal non-negative form ---------- *)
Lemma pow256 k : 256 ^ k = 2 ^ (8 * k).
Proof. change 256 with (2 ^ 8). now rewrite <- N.pow_mul_r. Qed.

Lemma be2n_lower b r : 128 <= b2n b -> 2 ^ (8 * nlen (b :: r) - 1) <= be2n (b :: r).
Proof.
  intros Hb. rewrite be2n_cons. unfold nlen. cbn [length].
  rewrite pow256.
  replace (8 * N.of_nat (S (length r)) - 1) with (7 + 8 * N.of_nat (length r)) by lia.
  rewrite N.pow_add_r. change (2 ^ 7) with 128. nia.
Qed.

Lemma canon_n_unique bs :
  is_minimal bs = true ->
  match bs with [] => True | b :: _ => b2n b < 128 end ->
  canon_n (be2n bs) = bs.
Proof.
  intros Hmin Hnn. destruct bs as [|b r]; [reflexivity|].
  set (L := N.of_nat (length (b :: r))).
  assert (HL : 1 <= L) by (unfold L; cbn [length]; lia).
  assert (Hup : be2n (b :: r) < 2 ^ (8 * L - 1)).
  { rewrite be2n_cons. unfold L, nlen. cbn [length].
    pose proof (be2n_lt r) as Hr. unfold nlen in Hr. rewrite pow256 in *.
    replace (8 * N.of_nat (S (length r)) - 1) with (7 + 8 * N.of_nat (length r)) by lia.
    rewrite N.pow_add_r. change (2 ^ 7) with 128. nia. }
  assert (Hlo : 2 ^ (8 * L - 9) <= be2n (b :: r)).
  { destruct r as [|c r'].
    - unfold L. cbn [length]. change (8 * N.of_nat 1 - 9) with 0.
      cbn [is_minimal] in Hmin. rewrite be2n_cons. change (be2n []) with 0.
      change (256 ^ nlen []) with 1. change (2 ^ 0) with 1.
      destruct (N.eqb_spec (b2n b) 0); [discriminate|]. lia.
    - cbn [is_minimal] in Hmin.
      destruct (N.eqb_spec (b2n b) 0) as [Hb0|Hb0].
      + (* leading zero byte: next byte has its top bit set *)
        destruct (N.ltb_spec (b2n c) 128) as [Hc|Hc]; [cbn in Hmin; discriminate|].
        rewrite be2n_cons, Hb0, N.mul_0_l, N.add_0_l.
        pose proof (be2n_lower c r' Hc) as Hl.
        unfold L. unfold nlen in Hl. cbn [length] in *.
        replace (8 * N.of_nat (S (S (length r'))) - 9) with (8 * N.of_nat (S (length r')) - 1) by lia.
        exact Hl.
      + rewrite be2n_cons. unfold L, nlen. cbn [length]. rewrite pow256.
        assert (2 ^ (8 * N.of_nat (S (S (length r'))) - 9) <= 2 ^ (8 * N.of_nat (S (length r')))).
        { apply N.pow_le_mono_r; lia. }
        nia. }
  assert (Hcl : canon_len (be2n (b :: r)) = length (b :: r)).
  { rewrite (canon_len_bounds _ (8 * L - 9) (8 * L - 1) L Hlo Hup).
    - unfold L. lia.
    - lia.
    - lia. }
  unfold canon_n.
  destruct (N.eqb_spec (be2n (b :: r)) 0) as [E|_].
  - assert (0 < 2 ^ (8 * L - 9)) by (apply N.neq_0_lt_0, N.pow_nonzero; lia). lia.
  - rewrite Hcl. apply n2be_be2n.
Qed.

(* canon_n produces a minimal non-negative string with the right value *)
Lemma be2n_canon_n n : be2n (canon_n n) = n.
Proof.
  unfold canon_n. destruct (N.eqb_spec n 0) as [->|Hn]; [reflexivity|].
  apply be2n_n2be. unfold canon_len.
  assert (Hpos : 0 < n) by lia.
  pose proof (N.log2_spec n Hpos) as [_ Hhi].
  rewrite pow256. eapply N.lt_le_trans; [exact Hhi|].
  apply N.pow_le_mono_r; lia.
Qed.

Lemma n2be_hd_lt L n k : (0 < L)%nat -> n < k * 256 ^ N.of_nat (pred L) ->
  match n2be L n with b :: _ => b2n b < k | [] => False end \/ 256 <= k.
Proof.
  intros HL Hn. destruct (N.le_gt_cases 256 k) as [?|Hk]; [now right|left].
  destruct L as [|L']; [lia|]. cbn [n2be pred] in *.
  assert (Hp : 256 ^ N.of_nat L' <> 0) by (apply N.pow_nonzero; lia).
  assert (Hd : n / 256 ^ N.of_nat L' < k) by (apply N.div_lt_upper_bound; [exact Hp|lia]).
  rewrite b2n_n2b; lia.
Qed.

Lemma canon_n_nonneg n : match canon_n n with [] => True | b :: _ => b2n b < 128 end.
Proof.
  unfold canon_n. destruct (N.eqb_spec n 0) as [->|Hn]; [exact I|].
  assert (Hpos : 0 < n) by lia.
  pose proof (N.log2_spec n Hpos) as [_ Hhi].
  set (L := canon_len n).
  assert (HL : (0 < L)%nat) by (unfold L, canon_len; lia).
  destruct (n2be_hd_lt L n 128 HL) as [H|H]; [|destruct (n2be L n); [exact I|exact H]|lia].
  eapply N.lt_le_trans; [exact Hhi|].
  change 128 with (2 ^ 7). rewrite pow256, <- N.pow_add_r.
  apply N.pow_le_mono_r; [lia|]. unfold L, canon_len. lia.
Qed.

Lemma canon_n_inj a b : canon_n a = canon_n b -> a = b.
Proof. intros H. rewrite <- (be2n_canon_n a), <- (be2n_canon_n b). now rewrite H. Qed.

(* ---------- more facts about the canonical form ---------- *)
Lemma be2n_upper_nonneg b r : b2n b < 128 -> be2n (b :: r) < 2 ^ (8 * nlen (b :: r) - 1).
Proof.
  intros Hb. rewrite be2n_cons. unfold nlen. cbn [length].
  pose proof (be2n_lt r) as Hr. unfold nlen in Hr. rewrite pow256 in *.
  replace (8 * N.of_nat (S (length r)) - 1) with (7 + 8 * N.of_nat (length r)) by lia.
  rewrite N.pow_add_r. change (2 ^ 7) with 128. nia.
Qed.

Lemma canon_len_lower n : n <> 0 -> 2 ^ (8 * N.of_nat (canon_len n) - 9) <= n.
Proof.
  intros Hn. assert (Hpos : 0 < n) by lia.
  pose proof (N.log2_spec n Hpos) as [Hlo _].
  eapply N.le_trans; [|exact Hlo].
  apply N.pow_le_mono_r; [lia|]. unfold canon_len. lia.
Qed.

Lemma canon_n_minimal n : is_minimal (canon_n n) = true.
Proof.
  unfold canon_n. destruct (N.eqb_spec n 0) as [->|Hn]; [reflexivity|].
  pose proof (canon_n_nonneg n) as Hnn. pose proof (be2n_canon_n n) as Hv.
  pose proof (canon_len_lower n Hn) as Hlow.
  unfold canon_n in Hnn, Hv. destruct (N.eqb_spec n 0) as [|_]; [contradiction|].
  pose proof (n2be_length (canon_len n) n) as Hlen.
  destruct (n2be (canon_len n) n) as [|b r] eqn:E.
  - cbn in Hv. congruence.
  - cbn [is_minimal]. destruct r as [|c r'].
    + destruct (N.eqb_spec (b2n b) 0) as [Hb0|]; [|reflexivity].
      rewrite be2n_cons, Hb0 in Hv. change (be2n []) with 0 in Hv. lia.
    + destruct (N.eqb_spec (b2n b) 0) as [Hb0|Hb0]; cbn [andb orb negb].
      * destruct (N.ltb_spec (b2n c) 128) as [Hc|Hc]; [|destruct (N.eqb_spec (b2n b) 255); [lia|reflexivity]].
        exfalso.
        rewrite be2n_cons, Hb0, N.mul_0_l, N.add_0_l in Hv.
        pose proof (be2n_upper_nonneg c r' Hc) as Hup. rewrite Hv in Hup.
        unfold nlen in Hup. cbn [length] in Hlen, Hup. rewrite <- Hlen in Hlow.
        replace (8 * N.of_nat (S (S (length r'))) - 9) with (8 * N.of_nat (S (length r')) - 1) in Hlow by lia.
        lia.
      * destruct (N.eqb_spec (b2n b) 255) as [Hff|]; [|reflexivity]. lia.
Qed.

(* length of the canonical form against a width *)
Lemma canon_n_fits n k :
  n < 256 ^ N.of_nat k ->
  match canon_n n with
  | [] => True
  | b :: _ => (length (canon_n n) <= (if (b2n b =? 0)%N then S k else k))%nat
  end.
Proof.
  intros Hk. pose proof (canon_n_minimal n) as Hm. pose proof (be2n_canon_n n) as Hv.
  destruct (canon_n n) as [|b r] eqn:E; [exact I|].
  destruct (N.eqb_spec (b2n b) 0) as [Hb0|Hb0].
  - destruct r as [|c r'].
    + cbn [length]. lia.
    + cbn [is_minimal] in Hm. rewrite Hb0 in Hm. change (0 =? 0) with true in Hm. change (0 =? 255) with false in Hm.
      cbn [andb orb] in Hm. destruct (N.ltb_spec (b2n c) 128) as [|Hc]; [discriminate|].
      rewrite be2n_cons, Hb0, N.mul_0_l, N.add_0_l in Hv.
      pose proof (be2n_lower c r' Hc) as Hl. rewrite Hv in Hl. unfold nlen in Hl. cbn [length] in *.
      rewrite pow256 in Hk.
      assert (8 * N.of_nat (S (length r')) - 1 < 8 * N.of_nat k).
      { apply (N.pow_lt_mono_r_iff 2); [lia|]. eapply N.le_lt_trans; [exact Hl|exact Hk]. }
      lia.
  - rewrite be2n_cons in Hv. unfold nlen in Hv. cbn [length].
    rewrite pow256 in Hk, Hv.
    assert (2 ^ (8 * N.of_nat (length r)) <= n) by nia.
    assert (8 * N.of_nat (length r) < 8 * N.of_nat k).
    { apply (N.pow_lt_mono_r_iff 2); [lia|]. eapply N.le_lt_trans; [eassumption|exact Hk]. }
    lia.
Qed.

(* ---------- characterisation of sanitize_uint ---------- *)
Lemma sanitize_uint_ok_iff bs k n :
  sanitize_uint bs k = SOk n <-> bs = canon_n n /\ n < 256 ^ N.of_nat k.
Proof.
  split.
  - unfold sanitize_uint. destruct bs as [|b0 tl]; [intros [= <-]; split; [reflexivity|]|].
    { apply N.neq_0_lt_0, N.pow_nonzero; lia. }
    destruct (N.leb_spec 128 (b2n b0)) as [|Hb]; [discriminate|].
    destruct tl as [|b1 tl'].
    + destruct (N.eqb_spec (b2n b0) 0) as [|Hnz]; [discriminate|].
      destruct (Nat.ltb_spec k (length [b0])) as [|Hlen]; [discriminate|].
      intros [= <-]. split.
      * symmetry. apply canon_n_unique; [cbn; destruct (N.eqb_spec (b2n b0) 0); [contradiction|reflexivity]|exact Hb].
      * cbn [length] in Hlen. eapply N.lt_le_trans; [apply be2n_lt|]. unfold nlen. cbn [length].
        apply N.pow_le_mono_r; lia.
    + destruct ((b2n b0 =? 0) && (b2n b1 <? 128)) eqn:Ered; [discriminate|].
      destruct (Nat.ltb_spec (if b2n b0 =? 0 then S k else k) (length (b0 :: b1 :: tl'))) as [|Hlen]; [discriminate|].
      intros [= <-]. split.
      * symmetry. apply canon_n_unique; [|exact Hb].
        cbn [is_minimal]. rewrite Ered. cbn [orb].
        destruct (N.eqb_spec (b2n b0) 255); [lia|reflexivity].
      * destruct (N.eqb_spec (b2n b0) 0) as [Hb0|Hb0].
        -- rewrite be2n_cons, Hb0, N.mul_0_l, N.add_0_l.
           eapply N.lt_le_trans; [apply be2n_lt|]. unfold nlen. cbn [length] in *.
           apply N.pow_le_mono_r; lia.
        -- eapply N.lt_le_trans; [apply be2n_lt|]. unfold nlen.
           apply N.pow_le_mono_r; lia.
  - intros [-> Hk].
    pose proof (canon_n_nonneg n) as Hnn. pose proof (canon_n_minimal n) as Hm.
    pose proof (canon_n_fits n k Hk) as Hf. pose proof (be2n_canon_n n) as Hv.
    unfold sanitize_uint. destruct (canon_n n) as [|b0 tl] eqn:E.
    + cbn in Hv. now subst n.
    + destruct (N.leb_spec 128 (b2n b0)) as [|_]; [lia|].
      destruct tl as [|b1 tl'].
      * cbn [is_minimal] in Hm. destruct (N.eqb_spec (b2n b0) 0) as [|Hnz]; [discriminate|].
        destruct (Nat.ltb_spec k (length [b0])) as [Hlt|_]; [cbn [length] in *; lia|].
        now rewrite Hv.
      * cbn [is_minimal] in Hm.
        destruct ((b2n b0 =? 0) && (b2n b1 <? 128)); [cbn in Hm; discriminate|].
        destruct (Nat.ltb_spec (if b2n b0 =? 0 then S k else k) (length (b0 :: b1 :: tl'))) as [Hlt|_]; [lia|].
        now rewrite Hv.
Qed.

Lemma sanitize_uint_neg_iff bs k :
  sanitize_uint bs k = SNegOverflow <-> match bs with b :: _ => 128 <= b2n b | [] => False end.
Proof.
  unfold sanitize_uint. destruct bs as [|b0 tl]; [split; [discriminate|contradiction]|].
  destruct (N.leb_spec 128 (b2n b0)) as [H|H]; [tauto|].
  split; [|lia]. destruct tl as [|b1 tl'].
  - destruct (b2n b0 =? 0); [discriminate|]. destruct (Nat.ltb _ _); discriminate.
  - destruct ((b2n b0 =? 0) && (b2n b1 <? 128)); [discriminate|]. destruct (Nat.ltb _ _); discriminate.
Qed.

(* redundant leading zero bytes are an error, in every width *)
Lemma sanitize_uint_err_iff bs k :
  sanitize_uint bs k = SErr <->
  match bs with
  | [b] => b2n b = 0
  | b0 :: b1 :: _ => b2n b0 = 0 /\ b2n b1 < 128
  | [] => False
  end.
Proof.
  unfold sanitize_uint. destruct bs as [|b0 tl]; [split; [discriminate|contradiction]|].
  destruct (N.leb_spec 128 (b2n b0)) as [H|H].
  - split; [discriminate|]. destruct tl; intros; lia.
  - destruct tl as [|b1 tl'].
    + destruct (N.eqb_spec (b2n b0) 0) as [E|E]; [tauto|].
      split; [|contradiction]. destruct (Nat.ltb _ _); discriminate.
    + destruct (N.eqb_spec (b2n b0) 0) as [E|E]; destruct (N.ltb_spec (b2n b1) 128) as [F|F]; cbn [andb];
        try tauto; (split; [destruct (Nat.ltb _ _); discriminate|lia]).
Qed.

(* everything else that is too wide is a positive overflow: never truncated *)
Lemma sanitize_uint_pos_iff bs k :
  sanitize_uint bs k = SPosOverflow <->
  exists n, bs = canon_n n /\ 256 ^ N.of_nat k <= n.
Proof.
  split.
  - intros Hs.
    assert (Hnn : match bs with b :: _ => b2n b < 128 | [] => True end).
    { destruct bs as [|b r]; [exact I|].
      destruct (N.lt_ge_cases (b2n b) 128) as [|Hge]; [assumption|].
      assert (sanitize_uint (b :: r) k = SNegOverflow) by (apply sanitize_uint_neg_iff; exact Hge). congruence. }
    assert (Hm : is_minimal bs = true).
    { destruct bs as [|b0 [|b1 tl]]; [reflexivity| |].
      - cbn. destruct (N.eqb_spec (b2n b0) 0) as [E|]; [|reflexivity].
        assert (sanitize_uint [b0] k = SErr) by (apply sanitize_uint_err_iff; exact E). congruence.
      - cbn [is_minimal]. destruct (N.eqb_spec (b2n b0) 0) as [E|E]; destruct (N.ltb_spec (b2n b1) 128) as [F|F]; cbn [andb orb negb];
          try (destruct (N.eqb_spec (b2n b0) 255); [lia|reflexivity]).
        assert (sanitize_uint (b0 :: b1 :: tl) k = SErr) by (apply sanitize_uint_err_iff; split; assumption). congruence. }
    exists (be2n bs). split; [symmetry; apply canon_n_unique; assumption|].
    destruct (N.le_gt_cases (256 ^ N.of_nat k) (be2n bs)) as [|Hlt]; [assumption|].
    assert (sanitize_uint bs k = SOk (be2n bs)).
    { apply sanitize_uint_ok_iff. split; [symmetry; apply canon_n_unique; assumption|exact Hlt]. }
    congruence.
  - intros [n [-> Hn]].
    destruct (sanitize_uint (canon_n n) k) eqn:E; [| reflexivity | |].
    + apply sanitize_uint_ok_iff in E. destruct E as [E1 E2]. apply canon_n_inj in E1. subst. lia.
    + apply sanitize_uint_neg_iff in E. pose proof (canon_n_nonneg n). destruct (canon_n n); [contradiction|lia].
    + apply sanitize_uint_err_iff in E. pose proof (canon_n_minimal n) as Hm.
      destruct (canon_n n) as [|b0 [|b1 tl]]; [contradiction| |].
      * cbn in Hm. rewrite E in Hm. discriminate.
      * destruct E as [E1 E2]. cbn [is_minimal] in Hm. rewrite E1 in Hm.
        destruct (N.ltb_spec (b2n b1) 128); [cbn in Hm; discriminate|lia].
Qed.
