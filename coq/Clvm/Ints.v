(* Clvm/Ints.v — canonical CLVM integers (minimal big-endian two's complement) and
   mirrors of the hand-written encoders/decoders:
     clvm-traits/src/int_encoding.rs  encode_number / decode_number
     chia-consensus/src/sanitize_int.rs sanitize_uint
     clvmr op_utils::u64_from_bytes, Allocator::new_number (as canon)
   Definitions only. *)
From ChiaV.Base Require Import Bytes.
Open Scope N_scope.

(* number of bytes of the canonical encoding of a positive n *)
Definition canon_len (n : N) : nat := N.to_nat ((N.log2 n + 9) / 8).

(* canonical encoding of a non-negative integer *)
Definition canon_n (n : N) : bytes := if n =? 0 then [] else n2be (canon_len n) n.

(* canonical encoding of any integer *)
Definition canon (z : Z) : bytes :=
  if (0 <=? z)%Z then canon_n (Z.to_N z)
  else
    let m := Z.to_N (- z - 1) in
    let L := if m =? 0 then 1%nat else canon_len m in
    n2be L (256 ^ N.of_nat L - 1 - m).

(* value of a byte string read as big-endian two's complement *)
Definition signed_value (bs : bytes) : Z :=
  match bs with
  | [] => 0%Z
  | b :: _ => if 128 <=? b2n b then (Z.of_N (be2n bs) - Z.of_N (256 ^ nlen bs))%Z else Z.of_N (be2n bs)
  end.

(* "minimal" = no redundant leading 0x00 / 0xff byte, and zero is the empty string *)
Definition is_minimal (bs : bytes) : bool :=
  match bs with
  | [] => true
  | [b] => negb (b2n b =? 0)
  | b :: c :: _ =>
      negb (((b2n b =? 0) && (b2n c <? 128)) || ((b2n b =? 255) && (128 <=? b2n c)))
  end.

(* ---- int_encoding.rs ---- *)
Fixpoint skip_pad (pad : byte) (s : bytes) : bytes :=
  match s with
  | b :: r => if byte_eqb b pad then skip_pad pad r else s
  | [] => []
  end.

Definition encode_number (s : bytes) (negative : bool) : bytes :=
  let pad := if negative then xff else x00 in
  let rest := skip_pad pad s in
  let needs_padding :=
    if negative then match rest with [] => true | b :: _ => b2n b <? 128 end
    else match rest with [] => false | b :: _ => 128 <=? b2n b end in
  if needs_padding then pad :: rest else rest.

(* the "while slice.len() > LEN && slice[0] == pad" loop with its 64-step limit;
   returns None when the limit is hit *)
Fixpoint strip_pad (fuel : nat) (LEN : nat) (pad : byte) (s : bytes) : option bytes :=
  match s with
  | b :: r =>
      if Nat.ltb LEN (length s) && byte_eqb b pad then
        match fuel with O => None | S f => strip_pad f LEN pad r end
      else Some s
  | [] => Some []
  end.

Definition decode_number (LEN : nat) (signed : bool) (slice : bytes) : option bytes :=
  match slice with
  | [] => Some (repeat_byte LEN x00)
  | b0 :: _ =>
      if negb signed && (128 <=? b2n b0) then None
      else
        let was_negative := signed && (128 <=? b2n b0) in
        let pad := if was_negative then xff else x00 in
        match strip_pad 64 LEN pad slice with
        | None => None
        | Some s =>
            let is_negative := signed && match s with b :: _ => 128 <=? b2n b | [] => false end in
            if Nat.ltb LEN (length s) || negb (Bool.eqb is_negative was_negative) then None
            else Some (repeat_byte (LEN - length s) pad ++ s)
        end
  end.

(* fixed-width big-endian two's complement, as to_be_bytes produces *)
Definition be_fixed (LEN : nat) (v : Z) : bytes :=
  n2be LEN (Z.to_N (v mod Z.of_N (256 ^ N.of_nat LEN))).

Definition in_range (LEN : nat) (signed : bool) (v : Z) : Prop :=
  if signed then (- Z.of_N (256 ^ N.of_nat LEN / 2) <= v < Z.of_N (256 ^ N.of_nat LEN / 2))%Z
  else (0 <= v < Z.of_N (256 ^ N.of_nat LEN))%Z.

Definition fixed_value (signed : bool) (bs : bytes) : Z :=
  if signed then signed_value bs else Z.of_N (be2n bs).

(* ---- sanitize_int.rs ---- *)
Inductive sanitized := SOk (n : N) | SPosOverflow | SNegOverflow | SErr.

(* the atom case of sanitize_uint; the pair case (-> Err) is handled by callers *)
Definition sanitize_uint (buf : bytes) (max_size : nat) : sanitized :=
  match buf with
  | [] => SOk 0
  | b0 :: tl =>
      if 128 <=? b2n b0 then SNegOverflow
      else if match tl with
              | [] => b2n b0 =? 0
              | b1 :: _ => (b2n b0 =? 0) && (b2n b1 <? 128)
              end then SErr
      else
        let size_limit := if b2n b0 =? 0 then S max_size else max_size in
        if Nat.ltb size_limit (length buf) then SPosOverflow
        else SOk (be2n buf)
  end.
