(* Clvm/LadderProofs.v — the translated ladders (Gen/Ladders.v, regenerated from the
   Rust sources on every run) equal the canonical form, for every u64. *)
From ChiaV.Base Require Import Bytes.
From ChiaV.Clvm Require Import Ints Sexp IntsProofs.
From ChiaV.Gen Require Import Ladders.
From Coq Require Import ZifyBool ZifyNat ZifyN.
Ltac Zify.zify_post_hook ::= Z.div_mod_to_equations.
Open Scope N_scope.

(* one arm: lo/hi are bit positions, K the number of skipped bytes *)
Ltac arm lo hi K :=
  match goal with
  | Hlo : ?a <= ?v, Hhi : ?v < ?b |- skipn K (n2be 8 ?v) = canon_n ?v =>
      change a with (2 ^ lo) in Hlo; change b with (2 ^ hi) in Hhi;
      rewrite (canon_n_bounds v lo hi (N.of_nat (8 - K)) Hlo Hhi) by reflexivity;
      rewrite Nat2N.id;
      apply (skipn_n2be K (8 - K) v);
      eapply N.lt_le_trans; [exact Hhi|];
      rewrite pow256; apply N.pow_le_mono_r; [lia|vm_compute; discriminate]
  end.

Lemma start_ladder_canon v :
  v < 2 ^ 64 ->
  (if 9223372036854775808 <=? v then x00 :: n2be 8 v
   else skipn (if 36028797018963968 <=? v then 0%nat else
               if 140737488355328 <=? v then 1%nat else
               if 549755813888 <=? v then 2%nat else
               if 2147483648 <=? v then 3%nat else
               if 8388608 <=? v then 4%nat else
               if 32768 <=? v then 5%nat else
               if 128 <=? v then 6%nat else
               if 0 <? v then 7%nat else 8%nat) (n2be 8 v)) = canon_n v.
Proof.
  intros Hv.
  destruct (N.leb_spec 9223372036854775808 v) as [H63|H63].
  { change 9223372036854775808 with (2 ^ 63) in H63.
    rewrite (canon_n_bounds v 63 64 9 H63 Hv) by reflexivity.
    change (N.to_nat 9) with (1 + 8)%nat. rewrite (n2be_pad 1 8 v); [reflexivity|].
    exact Hv. }
  destruct (N.leb_spec 36028797018963968 v) as [H55|H55]; [arm 55 63 0%nat|].
  destruct (N.leb_spec 140737488355328 v) as [H47|H47]; [arm 47 55 1%nat|].
  destruct (N.leb_spec 549755813888 v) as [H39|H39]; [arm 39 47 2%nat|].
  destruct (N.leb_spec 2147483648 v) as [H31|H31]; [arm 31 39 3%nat|].
  destruct (N.leb_spec 8388608 v) as [H23|H23]; [arm 23 31 4%nat|].
  destruct (N.leb_spec 32768 v) as [H15|H15]; [arm 15 23 5%nat|].
  destruct (N.leb_spec 128 v) as [H7|H7]; [arm 7 15 6%nat|].
  destruct (N.ltb_spec 0 v) as [H0|H0].
  { assert (H1 : 1 <= v) by lia. arm 0 7 7%nat. }
  assert (v = 0) as -> by lia. reflexivity.
Qed.

Theorem coin_amount_bytes_canon v : v < 2 ^ 64 -> coin_amount_bytes v = canon_n v.
Proof. exact (start_ladder_canon v). Qed.

Theorem u64_to_bytes_canon v : v < 2 ^ 64 -> u64_to_bytes v = canon_n v.
Proof. exact (start_ladder_canon v). Qed.

(* serialized length of a canonical integer atom *)
Lemma ser_canon_len v L :
  (0 < L < 64)%nat -> canon_n v = n2be L v -> v <> 0 ->
  ser_atom (canon_n v) =
    Some ((if (Nat.eqb L 1) && (v <? 128) then [] else [n2b (128 + N.of_nat L)]) ++ canon_n v).
Proof.
  intros HL Hc Hnz. unfold ser_atom, atom_prefix. rewrite Hc. unfold nlen. rewrite n2be_length.
  destruct (N.eqb_spec (N.of_nat L) 0) as [E|_]; [lia|].
  destruct L as [|L']; [lia|]. cbn [n2be].
  destruct (Nat.eqb_spec (S L') 1) as [E1|E1].
  - inversion E1; subst L'. change (N.of_nat 1 =? 1) with true.
    change (256 ^ N.of_nat 0) with 1. rewrite N.div_1_r.
    pose proof (be2n_canon_n v) as Hb. rewrite Hc in Hb. cbn [n2be] in Hb.
    change (256 ^ N.of_nat 0) with 1 in Hb. rewrite N.div_1_r in Hb.
    rewrite be2n_cons in Hb. change (be2n []) with 0 in Hb. change (256 ^ nlen []) with 1 in Hb.
    assert (Hv : b2n (n2b v) = v) by lia. rewrite Hv. cbn [andb].
    destruct (N.ltb_spec v 128); reflexivity.
  - destruct (N.eqb_spec (N.of_nat (S L')) 1) as [E|_]; [lia|]. cbn [andb].
    destruct (N.ltb_spec (N.of_nat (S L')) 64) as [_|E]; [reflexivity|lia].
Qed.

Theorem clvm_bytes_len_ser v :
  v < 2 ^ 64 -> Some (clvm_bytes_len v) = option_map nlen (ser (Atom (canon_n v))).
Proof.
  intros Hv. unfold clvm_bytes_len. cbn [ser].
  destruct (N.ltb_spec v 128) as [H7|H7].
  { destruct (N.eqb_spec v 0) as [->|Hnz]; [reflexivity|].
    assert (Hlo : 2 ^ 0 <= v) by (change (2 ^ 0) with 1; lia).
    change 128 with (2 ^ 7) in H7.
    pose proof (canon_n_bounds v 0 7 1 Hlo H7 eq_refl eq_refl) as Hc.
    rewrite (ser_canon_len v 1) by (try exact Hc; try lia; exact Hnz).
    change (2 ^ 7) with 128 in H7.
    destruct (N.ltb_spec v 128); [|lia]. cbn [Nat.eqb andb app option_map].
    rewrite Hc. unfold nlen. now rewrite n2be_length. }
  assert (Hnz : v <> 0) by lia.
  Ltac len_arm v lo hi L Hlo Hhi Hnz :=
    change (N.pos _) with (2 ^ lo) in Hlo; change (N.pos _) with (2 ^ hi) in Hhi;
    let Hc := fresh "Hc" in
    pose proof (canon_n_bounds v lo hi (N.of_nat L) Hlo Hhi eq_refl eq_refl) as Hc;
    rewrite Nat2N.id in Hc;
    rewrite (ser_canon_len v L) by (try exact Hc; try lia; exact Hnz);
    cbn [Nat.eqb andb app option_map]; rewrite Hc; unfold nlen; cbn [length]; rewrite n2be_length; reflexivity.
  destruct (N.ltb_spec v 32768) as [H15|H15]; [len_arm v 7 15 2%nat H7 H15 Hnz|].
  destruct (N.ltb_spec v 8388608) as [H23|H23]; [len_arm v 15 23 3%nat H15 H23 Hnz|].
  destruct (N.ltb_spec v 2147483648) as [H31|H31]; [len_arm v 23 31 4%nat H23 H31 Hnz|].
  destruct (N.ltb_spec v 549755813888) as [H39|H39]; [len_arm v 31 39 5%nat H31 H39 Hnz|].
  destruct (N.ltb_spec v 140737488355328) as [H47|H47]; [len_arm v 39 47 6%nat H39 H47 Hnz|].
  destruct (N.ltb_spec v 36028797018963968) as [H55|H55]; [len_arm v 47 55 7%nat H47 H55 Hnz|].
  destruct (N.ltb_spec v 9223372036854775808) as [H63|H63]; [len_arm v 55 63 8%nat H55 H63 Hnz|].
  change (2 ^ 64) with 18446744073709551616 in Hv.
  len_arm v 63 64 9%nat H63 Hv Hnz.
Qed.
