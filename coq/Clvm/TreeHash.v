(* Clvm/TreeHash.v — the reference definition of the CLVM tree hash, for an arbitrary
   hash function H (theorems) and instantiated with the Gallina SHA-256 (execution). *)
From ChiaV.Base Require Import Bytes Sha256.
From ChiaV.Clvm Require Import Sexp.

Section TH.
  Variable H : bytes -> bytes.
  Fixpoint th (t : sexp) : bytes :=
    match t with
    | Atom b => H (x01 :: b)
    | Pair l r => H (x02 :: th l ++ th r)
    end.
End TH.

Definition tree_hash (t : sexp) : bytes := th sha256 t.
