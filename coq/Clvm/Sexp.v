(* Clvm/Sexp.v — CLVM values as trees, plain (non back-reference) serialization
   as clvmr 0.17.7 writes it (serde/write_atom.rs, ser.rs) and the deserializer
   as clvmr reads it (serde/parse_atom.rs, de.rs: non-canonical length prefixes
   are accepted).  Definitions only. *)
From ChiaV.Base Require Import Bytes.
Open Scope N_scope.

Inductive sexp := Atom (b : bytes) | Pair (l r : sexp).

Definition nil : sexp := Atom [].

Fixpoint sexp_eqb (a b : sexp) : bool :=
  match a, b with
  | Atom x, Atom y => bytes_eqb x y
  | Pair a1 a2, Pair b1 b2 => sexp_eqb a1 b1 && sexp_eqb a2 b2
  | _, _ => false
  end.

Fixpoint node_count (t : sexp) : nat :=
  match t with Atom _ => 1%nat | Pair l r => S (node_count l + node_count r) end.

(* length prefix of an atom of [size] bytes whose first byte is [b0] *)
Definition atom_prefix (b0 : N) (size : N) : option bytes :=
  if size =? 0 then Some [x80]
  else if (size =? 1) && (b0 <? 128) then Some []
  else if size <? 0x40 then Some [n2b (128 + size)]
  else if size <? 0x2000 then Some [n2b (192 + size / 256); n2b size]
  else if size <? 0x100000 then Some [n2b (224 + size / 65536); n2b (size / 256); n2b size]
  else if size <? 0x8000000 then
    Some [n2b (240 + size / 16777216); n2b (size / 65536); n2b (size / 256); n2b size]
  else if size <? 0x400000000 then
    Some [n2b (248 + size / 4294967296); n2b (size / 16777216); n2b (size / 65536);
          n2b (size / 256); n2b size]
  else None.

Definition ser_atom (a : bytes) : option bytes :=
  match atom_prefix (match a with b :: _ => b2n b | [] => 0 end) (nlen a) with
  | Some p => Some (p ++ a)
  | None => None
  end.

Fixpoint ser (t : sexp) : option bytes :=
  match t with
  | Atom a => ser_atom a
  | Pair l r =>
      match ser l, ser r with
      | Some x, Some y => Some (xff :: x ++ y)
      | _, _ => None
      end
  end.

(* serialization for trees whose atoms are all short (< 2^34 bytes): total version *)
Definition ser' (t : sexp) : bytes := match ser t with Some b => b | None => [] end.

(* number of leading one bits of a byte >= 0x80 *)
Definition leading_ones (b : N) : nat :=
  if b <? 0xc0 then 1 else if b <? 0xe0 then 2 else if b <? 0xf0 then 3
  else if b <? 0xf8 then 4 else if b <? 0xfc then 5 else if b <? 0xfe then 6
  else if b <? 0xff then 7 else 8.

(* decode_size_with_offset: first byte [b] (>= 0x80) already consumed *)
Definition decode_size (b : N) (rest : bytes) : option (N * bytes) :=
  let k := leading_ones b in
  if Nat.leb 7 k then None
  else
    let extra := pred k in
    if Nat.ltb (length rest) extra then None
    else
      let size := (b mod 2 ^ (8 - N.of_nat k)) * 256 ^ N.of_nat extra + be2n (firstn extra rest) in
      if 0x400000000 <=? size then None else Some (size, skipn extra rest).

(* parse one atom whose first byte [b] has been consumed *)
Definition parse_atom (b : byte) (rest : bytes) : option (bytes * bytes) :=
  if b2n b <? 128 then Some ([b], rest)
  else match decode_size (b2n b) rest with
       | None => None
       | Some (size, rest') =>
           (* compare in binary first: [size] is attacker-declared (up to 2^34) and must not be turned into a unary
              number unless the buffer really is that long *)
           if N.of_nat (length rest') <? size then None
           else
             let n := N.to_nat size in
             if Nat.ltb (length rest') n then None
             else Some (firstn n rest', skipn n rest')
       end.

(* de.rs node_from_stream as a recursive-descent parser with fuel.
   (clvmr uses an explicit op stack; the accepted language and the result are the same.) *)
Fixpoint deser_fuel (fuel : nat) (bs : bytes) : option (sexp * bytes) :=
  match fuel with
  | O => None
  | S f =>
      match bs with
      | [] => None
      | b :: rest =>
          if byte_eqb b xff then
            match deser_fuel f rest with
            | None => None
            | Some (l, rest1) =>
                match deser_fuel f rest1 with
                | None => None
                | Some (r, rest2) => Some (Pair l r, rest2)
                end
            end
          else if byte_eqb b x80 then Some (Atom [], rest)
          else match parse_atom b rest with
               | Some (a, rest') => Some (Atom a, rest')
               | None => None
               end
      end
  end.

(* the whole buffer bounds the recursion depth *)
Definition deser (bs : bytes) : option (sexp * bytes) := deser_fuel (S (length bs)) bs.

(* node_from_bytes: trailing bytes are ignored by clvmr's node_from_bytes (it reads one node) *)
Definition node_from_bytes (bs : bytes) : option sexp :=
  match deser bs with Some (t, _) => Some t | None => None end.

(* list helpers on trees *)
Fixpoint list_to_sexp (l : list sexp) : sexp :=
  match l with [] => nil | x :: r => Pair x (list_to_sexp r) end.

Fixpoint sexp_to_list_fuel (t : sexp) : list sexp * sexp :=
  match t with
  | Pair x r => let '(l, term) := sexp_to_list_fuel r in (x :: l, term)
  | Atom _ => ([], t)
  end.
