(* Clvm/SignedProofs.v — encode_number / decode_number for every signed width, by the complement
   symmetry between a negative value v and m = -v-1. *)
From ChiaV.Base Require Import Bytes.
From ChiaV.Clvm Require Import Ints Sexp IntsProofs WidthProofs.
From Coq Require Import ZifyBool ZifyNat ZifyN.
Open Scope N_scope.

Definition cpl (b : byte) : byte := n2b (255 - b2n b).
Definition cmap (s : bytes) : bytes := map cpl s.

Lemma b2n_cpl b : b2n (cpl b) = 255 - b2n b.
Proof. unfold cpl. pose proof (b2n_lt b). apply b2n_n2b. lia. Qed.

Lemma cpl_x00 : cpl x00 = xff. Proof. reflexivity. Qed.

Lemma cpl_eq_ff b : byte_eqb (cpl b) xff = byte_eqb b x00.
Proof.
  unfold byte_eqb. rewrite b2n_cpl. change (b2n xff) with 255. change (b2n x00) with 0.
  pose proof (b2n_lt b). destruct (N.eqb_spec (255 - b2n b) 255), (N.eqb_spec (b2n b) 0); try reflexivity; lia.
Qed.

Lemma skip_pad_cmap s : skip_pad xff (cmap s) = cmap (skip_pad x00 s).
Proof.
  induction s as [|b r IH]; [reflexivity|]. cbn [cmap map skip_pad]. rewrite cpl_eq_ff.
  destruct (byte_eqb b x00); [exact IH|reflexivity].
Qed.

Lemma n2be_complement L : forall m, m < 256 ^ N.of_nat L -> n2be L (256 ^ N.of_nat L - 1 - m) = cmap (n2be L m).
Proof.
  induction L as [|L IH]; intros m Hm; [reflexivity|].
  cbn [n2be cmap map]. set (P := 256 ^ N.of_nat L).
  assert (HP : P <> 0) by (apply N.pow_nonzero; lia).
  replace (N.of_nat (S L)) with (N.succ (N.of_nat L)) in * by lia. rewrite N.pow_succ_r' in *. fold P in Hm |- *.
  pose proof (N.div_mod m P HP) as Hdm. pose proof (N.mod_lt m P HP) as Hr.
  assert (Hq : m / P < 256) by (apply N.div_lt_upper_bound; [exact HP|lia]).
  assert (Ediv : (256 * P - 1 - m) / P = 255 - m / P).
  { symmetry. apply (N.div_unique _ _ _ (P - 1 - m mod P)); [lia|]. nia. }
  assert (Emod : (256 * P - 1 - m) mod P = P - 1 - m mod P).
  { symmetry. apply (N.mod_unique _ _ (255 - m / P)); [lia|]. nia. }
  rewrite Ediv, Emod. f_equal.
  - unfold cpl. rewrite b2n_n2b by lia. reflexivity.
  - apply IH. exact Hr.
Qed.

Lemma cmap_repeat j : cmap (repeat_byte j x00) = repeat_byte j xff.
Proof. induction j; cbn [repeat_byte cmap map]; [reflexivity|]. now rewrite cpl_x00, <- IHj. Qed.

Lemma cmap_app a b : cmap (a ++ b) = cmap a ++ cmap b.
Proof. apply map_app. Qed.

Lemma cmap_length s : length (cmap s) = length s.
Proof. apply map_length. Qed.

(* the canonical form of a negative value is the complement of the canonical form of m = -v-1 (or ff for -1) *)
Lemma canon_negative v : (v < 0)%Z ->
  canon v = match Z.to_N (- v - 1) with 0 => [xff] | m => cmap (canon_n m) end.
Proof.
  intros Hv. unfold canon. destruct (Z.leb_spec 0 v); [lia|].
  set (m := Z.to_N (- v - 1)). destruct (N.eqb_spec m 0) as [E|E].
  - rewrite E. reflexivity.
  - destruct m as [|p] eqn:Em; [contradiction|]. rewrite <- Em in *.
    unfold canon_n. destruct (N.eqb_spec m 0); [contradiction|].
    apply n2be_complement.
    (* m < 256^canon_len m *)
    pose proof (be2n_canon_n m) as Hb. unfold canon_n in Hb. destruct (N.eqb_spec m 0); [contradiction|].
    rewrite <- Hb at 1. eapply N.lt_le_trans; [apply be2n_lt|]. unfold nlen. now rewrite n2be_length.
Qed.

(* to_be_bytes of a negative value of the width *)
Lemma be_fixed_negative LEN v :
  (- Z.of_N (256 ^ N.of_nat LEN / 2) <= v < 0)%Z -> (0 < LEN)%nat ->
  be_fixed LEN v = cmap (n2be LEN (Z.to_N (- v - 1))).
Proof.
  intros Hv HL. unfold be_fixed. set (W := 256 ^ N.of_nat LEN) in *.
  assert (HW : 2 <= W).
  { unfold W. destruct LEN as [|L]; [lia|]. replace (N.of_nat (S L)) with (N.succ (N.of_nat L)) by lia.
    rewrite N.pow_succ_r'. assert (0 < 256 ^ N.of_nat L) by (apply N.neq_0_lt_0, N.pow_nonzero; lia). lia. }
  assert (Hm : Z.to_N (- v - 1) < W) by lia.
  rewrite <- (n2be_complement LEN _ Hm). fold W. f_equal.
  rewrite <- (Z.mod_unique v (Z.of_N W) (-1) (Z.of_N W + v)) by lia. lia.
Qed.

Theorem encode_number_signed LEN v :
  (0 < LEN)%nat -> (- Z.of_N (256 ^ N.of_nat LEN / 2) <= v < Z.of_N (256 ^ N.of_nat LEN / 2))%Z ->
  encode_number (be_fixed LEN v) (v <? 0)%Z = canon v.
Proof.
  intros HL Hv. set (W := 256 ^ N.of_nat LEN) in *.
  destruct (Z.ltb_spec v 0) as [Hneg|Hpos].
  - rewrite (be_fixed_negative LEN v) by (fold W; lia || exact HL); try exact HL.
    rewrite canon_negative by exact Hneg.
    set (m := Z.to_N (- v - 1)).
    assert (Hm : m < W) by (unfold m; lia).
    unfold encode_number. rewrite skip_pad_cmap.
    pose proof (encode_number_width LEN m Hm) as He. unfold encode_number in He.
    pose proof (skip_pad_zero_be2n (n2be LEN m)) as Hv0. rewrite be2n_n2be in Hv0 by exact Hm.
    destruct (skip_pad x00 (n2be LEN m)) as [|b r] eqn:Es.
    + cbn in Hv0. rewrite <- Hv0. reflexivity.
    + cbn [cmap map].
      assert (Hmz : m <> 0).
      { intros E. rewrite E in Hv0. pose proof (skip_pad_zero_hd (n2be LEN 0)) as Hh. rewrite <- E, Es in Hh.
        rewrite be2n_cons in Hv0. pose proof (b2n_lt b). assert (0 < 256 ^ nlen r) by (apply N.neq_0_lt_0, N.pow_nonzero; lia). nia. }
      destruct m as [|p] eqn:Em; [contradiction|]. rewrite <- Em in *.
      rewrite b2n_cpl. pose proof (b2n_lt b).
      destruct (N.leb_spec 128 (b2n b)) as [Hb|Hb].
      * destruct (N.ltb_spec (255 - b2n b) 128); [|lia]. rewrite <- He. cbn [cmap map]. now rewrite cpl_x00.
      * destruct (N.ltb_spec (255 - b2n b) 128); [lia|]. rewrite <- He. reflexivity.
  - unfold be_fixed. rewrite Z.mod_small by (fold W; lia).
    rewrite encode_number_width by (fold W; lia).
    unfold canon. destruct (Z.leb_spec 0 v); [reflexivity|lia].
Qed.

(* ---- decode_number for signed widths ---- *)
Lemma pad_to_width LEN c : (length c <= LEN)%nat -> repeat_byte (LEN - length c) x00 ++ c = n2be LEN (be2n c).
Proof.
  intros Hl. replace (n2be LEN (be2n c)) with (n2be ((LEN - length c) + length c) (be2n c)) by (f_equal; lia).
  rewrite n2be_pad by apply be2n_lt. now rewrite n2be_be2n.
Qed.

Lemma decode_signed_nonneg LEN c :
  (length c <= LEN)%nat -> match c with [] => True | b :: _ => b2n b < 128 end ->
  decode_number LEN true c = Some (n2be LEN (be2n c)).
Proof.
  intros Hl Hh. unfold decode_number. destruct c as [|b r].
  - cbn [be2n]. now rewrite n2be_zero.
  - destruct (N.leb_spec 128 (b2n b)) as [|_]; [lia|]. cbn [negb andb]. cbn [strip_pad].
    destruct (Nat.ltb_spec LEN (length (b :: r))) as [|_]; [lia|]. cbn [andb].
    destruct (N.leb_spec 128 (b2n b)) as [|_]; [lia|].
    destruct (Nat.ltb_spec LEN (length (b :: r))) as [|_]; [lia|]. cbn [orb negb Bool.eqb].
    f_equal. now apply pad_to_width.
Qed.

Lemma decode_signed_neg LEN c :
  c <> [] -> (length c <= LEN)%nat -> match c with [] => True | b :: _ => b2n b < 128 end ->
  decode_number LEN true (cmap c) = Some (cmap (n2be LEN (be2n c))).
Proof.
  intros Hne Hl Hh. unfold decode_number. destruct c as [|b r]; [contradiction|].
  cbn [cmap map]. fold (cmap r). rewrite b2n_cpl. pose proof (b2n_lt b).
  destruct (N.leb_spec 128 (255 - b2n b)) as [_|]; [|lia]. cbn [negb andb]. cbn [strip_pad].
  assert (Hlen : length (cpl b :: cmap r) = length (b :: r)) by (cbn [length]; now rewrite cmap_length).
  rewrite Hlen.
  destruct (Nat.ltb_spec LEN (length (b :: r))) as [|_]; [lia|]. cbn [andb].
  rewrite b2n_cpl. destruct (N.leb_spec 128 (255 - b2n b)) as [_|]; [|lia].
  rewrite Hlen. destruct (Nat.ltb_spec LEN (length (b :: r))) as [|_]; [lia|]. cbn [orb negb Bool.eqb].
  f_equal. rewrite <- (pad_to_width LEN (b :: r) Hl), cmap_app, cmap_repeat. reflexivity.
Qed.

Theorem decode_number_signed LEN v :
  (0 < LEN)%nat -> (- Z.of_N (256 ^ N.of_nat LEN / 2) <= v < Z.of_N (256 ^ N.of_nat LEN / 2))%Z ->
  decode_number LEN true (canon v) = Some (be_fixed LEN v).
Proof.
  intros HL Hv. set (W := 256 ^ N.of_nat LEN) in *.
  assert (HW : W = 2 * 2 ^ (8 * N.of_nat LEN - 1)).
  { unfold W. change 256 with (2 ^ 8). rewrite <- N.pow_mul_r, <- N.pow_succ_r'. f_equal. lia. }
  assert (Hhalf : W / 2 = 2 ^ (8 * N.of_nat LEN - 1)).
  { rewrite HW. rewrite N.mul_comm, N.div_mul by lia. reflexivity. }
  destruct (Z.ltb_spec v 0) as [Hneg|Hpos].
  - rewrite (be_fixed_negative LEN v) by (fold W; lia || exact HL); try exact HL.
    rewrite canon_negative by exact Hneg.
    set (m := Z.to_N (- v - 1)). assert (Hm : m < W / 2) by (unfold m; lia).
    destruct m as [|p] eqn:Em.
    + change [xff] with (cmap [x00]). rewrite (decode_signed_neg LEN [x00]); [reflexivity|discriminate|cbn; lia|cbn; lia].
    + rewrite <- Em in *. rewrite (decode_signed_neg LEN (canon_n m)).
      * now rewrite be2n_canon_n.
      * intros E. pose proof (be2n_canon_n m) as Hb. rewrite E in Hb. cbn in Hb. lia.
      * pose proof (canon_n_length_le m (N.of_nat LEN)) as Hle. rewrite Hhalf in Hm. lia.
      * apply canon_n_nonneg.
  - unfold canon. destruct (Z.leb_spec 0 v); [|lia].
    set (n := Z.to_N v). assert (Hn : n < W / 2) by (unfold n; lia).
    rewrite (decode_signed_nonneg LEN (canon_n n)).
    + rewrite be2n_canon_n. unfold be_fixed. rewrite Z.mod_small by (fold W; lia). reflexivity.
    + pose proof (canon_n_length_le n (N.of_nat LEN)) as Hle. rewrite Hhalf in Hn. lia.
    + apply canon_n_nonneg.
Qed.

(* decode after encode is the identity on every signed width *)
Corollary signed_roundtrip LEN v :
  (0 < LEN)%nat -> (- Z.of_N (256 ^ N.of_nat LEN / 2) <= v < Z.of_N (256 ^ N.of_nat LEN / 2))%Z ->
  decode_number LEN true (encode_number (be_fixed LEN v) (v <? 0)%Z) = Some (be_fixed LEN v).
Proof. intros HL Hv. rewrite encode_number_signed by assumption. now apply decode_number_signed. Qed.
