(* Mempool/Fingerprint.v — mirror of chia-consensus/src/puzzle_fingerprint.rs: the byte stream
   compute_puzzle_fingerprint feeds to its SHA-256 context, as a function of the condition list.
     hash_atom_list(ctx, args, count): the first `count` list elements must exist and be atoms; each
       contributes its length as a 4-byte big-endian u32 followed by its bytes
     per condition (a.next loop: ANY atom ends the list, no nil check):
       opcode = parse_opcode(first(c)?)        unknown opcode: contributes nothing
       CREATE_COIN: 3 atoms (opcode, puzzle hash, amount), then the hint: if a 4th element exists,
         is a pair, and its first element is an atom of at most 32 bytes, that atom (length-prefixed);
         in every other case the 4 bytes 00 00 00 00 (= an empty atom)
       the 21 one-argument conditions: 2 atoms (opcode, argument)
       ASSERT_EPHEMERAL, REMARK: 1 atom (the opcode)
       anything else (AGG_SIG_*, SEND/RECEIVE_MESSAGE, SOFTFORK, 2-byte opcodes): InvalidConditionOpcode
   The atoms are the RAW atoms of the tree (not sanitised values).  parse_opcode ignores its flags
   argument (opcodes.rs), so the mirror of Cond/Model.v is used.  Definitions only. *)
From ChiaV.Base Require Import Bytes.
From ChiaV.Clvm Require Import Sexp.
From ChiaV.Gen Require Import Opcodes.
From ChiaV.Cond Require Import Model.
Open Scope N_scope.

(* (buf.len() as u32).to_be_bytes() *)
Definition u32be (len : nat) : bytes := n2be 4 (N.of_nat len mod 2 ^ 32).

Definition enc_atom (b : bytes) : bytes := u32be (length b) ++ b.

(* returns the bytes fed to the hash and the remainder of the list *)
Fixpoint hash_atom_list (args : sexp) (count : nat) {struct count} : res (bytes * sexp) :=
  match count with
  | O => Ok ([], args)
  | S k =>
      match args with
      | Pair (Atom buf) nxt => '(s, r) <- hash_atom_list nxt k ;; Ok (enc_atom buf ++ s, r)
      | Pair (Pair _ _) _ => Err InvalidCondition
      | Atom _ => Err InvalidCondition
      end
  end.

Definition fp_one_arg (op : N) : bool :=
  existsb (N.eqb op)
    [ RESERVE_FEE; CREATE_COIN_ANNOUNCEMENT; ASSERT_COIN_ANNOUNCEMENT; CREATE_PUZZLE_ANNOUNCEMENT;
      ASSERT_PUZZLE_ANNOUNCEMENT; ASSERT_CONCURRENT_SPEND; ASSERT_CONCURRENT_PUZZLE; ASSERT_MY_COIN_ID;
      ASSERT_MY_PARENT_ID; ASSERT_MY_PUZZLEHASH; ASSERT_MY_AMOUNT; ASSERT_MY_BIRTH_SECONDS;
      ASSERT_MY_BIRTH_HEIGHT; ASSERT_SECONDS_RELATIVE; ASSERT_SECONDS_ABSOLUTE; ASSERT_HEIGHT_RELATIVE;
      ASSERT_HEIGHT_ABSOLUTE; ASSERT_BEFORE_SECONDS_RELATIVE; ASSERT_BEFORE_SECONDS_ABSOLUTE;
      ASSERT_BEFORE_HEIGHT_RELATIVE; ASSERT_BEFORE_HEIGHT_ABSOLUTE ].

Definition fp_no_arg (op : N) : bool := (op =? ASSERT_EPHEMERAL) || (op =? REMARK).

(* the hint part of CREATE_COIN; `rest` is what follows (opcode puzzle_hash amount) *)
Definition fp_hint (rest : sexp) : res bytes :=
  match rest with
  | Pair memos _ =>
      match memos with
      | Pair (Atom h) _ =>
          if Nat.leb (length h) 32 then '(s, _) <- hash_atom_list memos 1 ;; Ok s
          else Ok (u32be 0)
      | _ => Ok (u32be 0)
      end
  | Atom _ => Ok (u32be 0)
  end.

(* the bytes one element of the condition list contributes *)
Definition fp_condition (c : sexp) : res bytes :=
  f <- first c ;;
  match parse_opcode f with
  | None => Ok []
  | Some op =>
      if op =? CREATE_COIN then
        '(s, rest) <- hash_atom_list c 3 ;;
        h <- fp_hint rest ;;
        Ok (s ++ h)
      else if fp_one_arg op then '(s, _) <- hash_atom_list c 2 ;; Ok s
      else if fp_no_arg op then '(s, _) <- hash_atom_list c 1 ;; Ok s
      else Err InvalidConditionOpcode
  end.

(* while let Some((c, next)) = a.next(iter) *)
Fixpoint fp_stream (iter : sexp) : res bytes :=
  match iter with
  | Pair c nxt => s <- fp_condition c ;; r <- fp_stream nxt ;; Ok (s ++ r)
  | Atom _ => Ok []
  end.

Section FP.
  Variable H : bytes -> bytes.
  Definition compute_puzzle_fingerprint (conditions : sexp) : res bytes :=
    s <- fp_stream conditions ;; Ok (H s).
End FP.
