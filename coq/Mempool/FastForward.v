(* Mempool/FastForward.v — mirror of chia-consensus/src/fast_forward.rs (fast_forward_singleton)
   over sexp, with the clvm-traits matchers it uses:
     clvm-derive from_clvm.rs / to_clvm.rs   #[clvm(list)]  : decode_pair per field, NO check of what
                                                              follows the last field (lenient); encode
                                                              nil-terminated
                                             #[clvm(curry)] : decode_curried_arg per field, terminator
                                                              must be the atom 01
                                             #[clvm(transparent)] enum : variants tried in order
     clvm-traits  MatchByte<B>, (A, B), (), u64 (decode_number::<8> unsigned: redundant leading zeros
                  accepted, at most 64 of them beyond 8 bytes; encode_number: canonical), Bytes32
     clvm-utils   CurriedProgram  (a (q . program) args)
     chia-puzzle-types  SingletonArgs, SingletonStruct (last field #[clvm(rest)]), SingletonSolution,
                  Proof = Lineage (3 fields) tried before Eve (2 fields)
   tree_hash(a, n) is `th H n` (Clvm/TreeHash.v; C17 ties the implementation to it),
   curry_and_treehash is the translated Gen/CurryFF.v, Coin::coin_id uses the translated ladder.
   All FromClvmError kinds are one outcome (ClvmError), so the relative order of the sub-matchers
   inside one from_clvm call is immaterial; the order of the checks of fast_forward_singleton itself
   is kept.  ToClvmError (allocator exhaustion) is not modelled.
   Definitions only. *)
From ChiaV.Base Require Import Bytes.
From ChiaV.Clvm Require Import Sexp Ints TreeHash.
From ChiaV.Gen Require Import Ladders CurryFF.
Open Scope N_scope.

(* ---------- clvm-traits decoders ---------- *)
(* MatchByte<B> for 0 < B < 0x80: an atom holding exactly the byte B *)
Definition match_byte (B : byte) (t : sexp) : bool :=
  match t with Atom [x] => byte_eqb x B | _ => false end.

(* `()` : the empty atom *)
Definition match_nil (t : sexp) : bool :=
  match t with Atom [] => true | _ => false end.

(* BytesImpl<32>::from_clvm *)
Definition decode_bytes32 (t : sexp) : option bytes :=
  match t with
  | Atom b => if Nat.eqb (length b) 32 then Some b else None
  | Pair _ _ => None
  end.

(* u64::from_clvm = decode_number::<8>(atom, false) then from_be_bytes *)
Definition decode_u64 (t : sexp) : option N :=
  match t with
  | Atom b => option_map be2n (decode_number 8 false b)
  | Pair _ _ => None
  end.

(* u64::to_clvm = encode_number(&v.to_be_bytes(), false) *)
Definition encode_u64 (v : N) : bytes := encode_number (n2be 8 v) false.

(* ClvmDecoder::decode_curried_arg: (c (q . first) rest) = (4 . ((1 . first) . (rest . ()))) *)
Definition decode_curried_arg (t : sexp) : option (sexp * sexp) :=
  match t with
  | Pair op (Pair (Pair q first) (Pair rest term)) =>
      if match_byte x04 op && match_byte x01 q && match_nil term then Some (first, rest) else None
  | _ => None
  end.

(* CurriedProgram<NodePtr, A>::from_clvm: (a (q . program) args) = (2 . ((1 . program) . (args . ()))) *)
Definition decode_curried_program (t : sexp) : option (sexp * sexp) :=
  match t with
  | Pair op (Pair (Pair q program) (Pair args term)) =>
      if match_byte x02 op && match_byte x01 q && match_nil term then Some (program, args) else None
  | _ => None
  end.

(* ---------- chia-puzzle-types ---------- *)
(* SingletonStruct, #[clvm(list)] with #[clvm(rest)] on the last field: (mod_hash . (launcher_id . launcher_puzzle_hash)) *)
Definition parse_struct (t : sexp) : option (bytes * bytes * bytes) :=
  match t with
  | Pair a (Pair b c) =>
      match decode_bytes32 a, decode_bytes32 b, decode_bytes32 c with
      | Some mh, Some lid, Some lph => Some (mh, lid, lph)
      | _, _, _ => None
      end
  | _ => None
  end.

(* SingletonArgs<NodePtr>, #[clvm(curry)]: two curried arguments, then the terminator atom 01 *)
Definition parse_args (t : sexp) : option ((bytes * bytes * bytes) * sexp) :=
  match decode_curried_arg t with
  | Some (f0, n1) =>
      match decode_curried_arg n1 with
      | Some (f1, n2) =>
          if match_byte x01 n2 then
            match parse_struct f0 with Some s => Some (s, f1) | None => None end
          else None
      | None => None
      end
  | None => None
  end.

(* CurriedProgram::<NodePtr, SingletonArgs<NodePtr>>::from_clvm: (program, singleton_struct, inner_puzzle) *)
Definition parse_singleton (t : sexp) : option (sexp * (bytes * bytes * bytes) * sexp) :=
  match decode_curried_program t with
  | Some (program, args) =>
      match parse_args args with Some (s, inner) => Some (program, s, inner) | None => None end
  | None => None
  end.

Inductive proof :=
| Lineage (parent_parent_coin_info parent_inner_puzzle_hash : bytes) (parent_amount : N)
| Eve (parent_parent_coin_info : bytes) (parent_amount : N).

(* LineageProof, #[clvm(list)]: three fields, whatever follows the third is ignored *)
Definition parse_lineage (t : sexp) : option (bytes * bytes * N) :=
  match t with
  | Pair a (Pair b (Pair c _)) =>
      match decode_bytes32 a, decode_bytes32 b, decode_u64 c with
      | Some pp, Some piph, Some pa => Some (pp, piph, pa)
      | _, _, _ => None
      end
  | _ => None
  end.

(* EveProof, #[clvm(list)]: two fields *)
Definition parse_eve (t : sexp) : option (bytes * N) :=
  match t with
  | Pair a (Pair b _) =>
      match decode_bytes32 a, decode_u64 b with
      | Some pp, Some pa => Some (pp, pa)
      | _, _ => None
      end
  | _ => None
  end.

(* Proof, #[clvm(transparent)]: untagged, Lineage tried first *)
Definition parse_proof (t : sexp) : option proof :=
  match parse_lineage t with
  | Some (pp, piph, pa) => Some (Lineage pp piph pa)
  | None => match parse_eve t with Some (pp, pa) => Some (Eve pp pa) | None => None end
  end.

(* SingletonSolution<NodePtr>, #[clvm(list)]: (lineage_proof amount inner_solution . ignored) *)
Definition parse_solution (t : sexp) : option (proof * N * sexp) :=
  match t with
  | Pair p (Pair a (Pair i _)) =>
      match parse_proof p, decode_u64 a with
      | Some pr, Some am => Some (pr, am, i)
      | _, _ => None
      end
  | _ => None
  end.

(* to_clvm of a solution holding a lineage proof: nil-terminated lists, canonical integers *)
Definition encode_lineage (pp piph : bytes) (pa : N) : sexp :=
  Pair (Atom pp) (Pair (Atom piph) (Pair (Atom (encode_u64 pa)) nil)).

Definition encode_solution (pp piph : bytes) (pa amount : N) (inner_solution : sexp) : sexp :=
  Pair (encode_lineage pp piph pa) (Pair (Atom (encode_u64 amount)) (Pair inner_solution nil)).

(* ---------- coins ---------- *)
Record coin := mkcoin { coin_parent : bytes; coin_ph : bytes; coin_amount : N }.

Inductive fferr :=
| CoinAmountEven | PuzzleHashMismatch | ClvmError | ExpectedLineageProof | NotSingletonModHash
| CoinAmountMismatch | ParentCoinMismatch | InnerPuzzleHashMismatch | CoinMismatch.

Inductive ffres := FfOk (new_solution : sexp) | FfErr (e : fferr).

Section FF.
  Variable H : bytes -> bytes.
  Variable MOD_HASH : bytes.            (* chia_puzzles::SINGLETON_TOP_LAYER_V1_1_HASH *)

  Definition tha (b : bytes) : bytes := H (x01 :: b).              (* tree_hash_atom *)
  Definition thp (a b : bytes) : bytes := H (x02 :: a ++ b).       (* tree_hash_pair *)

  (* fast_forward.rs curry_and_treehash (translated) *)
  Definition curry_hash (inner_puzzle_hash mod_hash launcher_id launcher_puzzle_hash : bytes) : bytes :=
    curry_and_treehash tha thp inner_puzzle_hash mod_hash launcher_id launcher_puzzle_hash.

  (* Coin::coin_id *)
  Definition coin_id (c : coin) : bytes :=
    H (coin_parent c ++ coin_ph c ++ coin_amount_bytes (coin_amount c)).

  (* the checks after both from_clvm calls, the lineage match and the first mod-hash test;
     mod_th / inner_th / puzzle_th are tree_hash(singleton.program), tree_hash(inner_puzzle), tree_hash(puzzle) *)
  Definition ff_tail (mh lid lph pp piph : bytes) (pa amount : N) (inner_solution : sexp)
             (c new_coin new_parent : coin) (mod_th inner_th puzzle_th : bytes) : ffres :=
    if negb (bytes_eqb mod_th MOD_HASH) then FfErr NotSingletonModHash
    else if negb (coin_amount c =? amount) then FfErr CoinAmountMismatch
    else
      let parent_puzzle_hash := curry_hash piph mh lid lph in
      let parent_coin := mkcoin pp parent_puzzle_hash pa in
      if negb (bytes_eqb (coin_id parent_coin) (coin_parent c)) then FfErr ParentCoinMismatch
      else if negb (bytes_eqb inner_th piph) then FfErr InnerPuzzleHashMismatch
      else if negb (bytes_eqb puzzle_th (coin_ph new_parent)) || negb (bytes_eqb puzzle_th (coin_ph c))
      then FfErr PuzzleHashMismatch
      else if negb (bytes_eqb (coin_parent new_coin) (coin_id new_parent)) then FfErr CoinMismatch
      else FfOk (encode_solution (coin_parent new_parent) piph (coin_amount new_parent) (coin_amount new_coin)
                                 inner_solution).

  (* everything up to and including the first mod-hash test; k receives the parsed pieces *)
  Definition ff_head (puzzle solution : sexp) (c new_coin new_parent : coin)
             (k : sexp -> sexp -> bytes -> bytes -> bytes -> bytes -> bytes -> N -> N -> sexp -> ffres) : ffres :=
    if N.even (coin_amount c) || N.even (coin_amount new_parent) || N.even (coin_amount new_coin)
    then FfErr CoinAmountEven
    else if negb (bytes_eqb (coin_ph c) (coin_ph new_parent)) || negb (bytes_eqb (coin_ph c) (coin_ph new_coin))
    then FfErr PuzzleHashMismatch
    else
      match parse_singleton puzzle with
      | None => FfErr ClvmError
      | Some (program, (mh, lid, lph), inner) =>
          match parse_solution solution with
          | None => FfErr ClvmError
          | Some (Eve _ _, _, _) => FfErr ExpectedLineageProof
          | Some (Lineage pp piph pa, amount, inner_solution) =>
              if negb (bytes_eqb mh MOD_HASH) then FfErr NotSingletonModHash
              else k program inner mh lid lph pp piph pa amount inner_solution
          end
      end.

  (* fast_forward_singleton(a, puzzle, solution, coin, new_coin, new_parent) *)
  Definition fast_forward_singleton (puzzle solution : sexp) (c new_coin new_parent : coin) : ffres :=
    ff_head puzzle solution c new_coin new_parent
      (fun program inner mh lid lph pp piph pa amount inner_solution =>
         ff_tail mh lid lph pp piph pa amount inner_solution c new_coin new_parent
                 (th H program) (th H inner) (th H puzzle)).

  (* the tree hash of (a (q . P) (c (q . S) (c (q . I) 1))) from the hashes of P, S, I *)
  Definition curried2_hash (p_th s_th i_th : bytes) : bytes :=
    let q := tha [x01] in let nilh := tha [] in
    let arg2 := thp (tha [x04]) (thp (thp q i_th) (thp q nilh)) in
    let arg1 := thp (tha [x04]) (thp (thp q s_th) (thp arg2 nilh)) in
    thp (tha [x02]) (thp (thp q p_th) (thp arg1 nilh)).

  Definition struct_hash (mh lid lph : bytes) : bytes := thp (tha mh) (thp (tha lid) (tha lph)).

  (* same function with the hash of the puzzle assembled from the hashes of its parts instead of
     hashing the mod and the inner puzzle twice (used by the model runner; proved equal in FastForwardProofs.v) *)
  Definition fast_forward_singleton_shared (puzzle solution : sexp) (c new_coin new_parent : coin) : ffres :=
    ff_head puzzle solution c new_coin new_parent
      (fun program inner mh lid lph pp piph pa amount inner_solution =>
         let mt := th H program in
         let it := th H inner in
         ff_tail mh lid lph pp piph pa amount inner_solution c new_coin new_parent
                 mt it (curried2_hash mt (struct_hash mh lid lph) it)).

  (* ---------- what singleton_top_layer_v1_1 asserts (Gallina reading of the Chialisp; tied by the
     oracle op ff.oracle which runs the real puzzle) ----------
     main: (c (list ASSERT_MY_AMOUNT my_amount)
              (c (list ASSERT_MY_PARENT_ID (sha256 parent_parent_info full_puzzle_hash parent_amount)) ...))
     where, for a lineage proof (three or more elements), the fields are the RAW atoms
     (f lp), (f (r lp)), (f (r (r lp))) of the solution, my_amount = (f (r solution)),
     full_puzzle_hash = puzzle-hash-of-curried-function MOD_HASH inner_hash (sha256tree STRUCT). *)
  Definition puzzle_reads (solution : sexp) : option (bytes * bytes * bytes * bytes * sexp) :=
    match solution with
    | Pair (Pair (Atom pp) (Pair (Atom piph) (Pair (Atom pa) _))) (Pair (Atom amount) (Pair inner_solution _)) =>
        Some (pp, piph, pa, amount, inner_solution)
    | _ => None
    end.

  Definition asserted_parent_id (mh lid lph : bytes) (solution : sexp) : option bytes :=
    match puzzle_reads solution with
    | Some (pp, piph, pa, _, _) => Some (H (pp ++ curry_hash piph mh lid lph ++ pa))
    | None => None
    end.

  Definition asserted_amount (solution : sexp) : option bytes :=
    match puzzle_reads solution with Some (_, _, _, amount, _) => Some amount | None => None end.

  Definition inner_solution_of (solution : sexp) : option sexp :=
    match puzzle_reads solution with Some (_, _, _, _, i) => Some i | None => None end.
End FF.

(* ---------- declarative reading of the acceptance condition (specification side of clause (d)) ----------
   "an odd-amount, same-puzzle-hash, mod-hash-matching, lineage-matching singleton spend of coin c,
   rebased onto new_coin whose parent is new_parent" and what the rewritten solution is *)
Definition ff_accepts (H : bytes -> bytes) (MOD_HASH : bytes) (puzzle solution : sexp)
           (c new_coin new_parent : coin) (sol' : sexp) : Prop :=
  exists program lid lph inner pp piph pa isol,
    N.odd (coin_amount c) = true /\ N.odd (coin_amount new_parent) = true /\ N.odd (coin_amount new_coin) = true /\
    coin_ph c = coin_ph new_parent /\ coin_ph c = coin_ph new_coin /\
    (* the puzzle is the mod curried with (MOD_HASH . (launcher_id . launcher_puzzle_hash)) and an inner puzzle *)
    parse_singleton puzzle = Some (program, (MOD_HASH, lid, lph), inner) /\
    th H program = MOD_HASH /\
    (* the solution carries a lineage proof and the amount of the coin being spent *)
    parse_solution solution = Some (Lineage pp piph pa, coin_amount c, isol) /\
    (* the lineage proof describes the parent of c: a singleton with the same struct and inner puzzle hash piph *)
    coin_id H (mkcoin pp (curry_hash H piph MOD_HASH lid lph) pa) = coin_parent c /\
    th H inner = piph /\
    th H puzzle = coin_ph c /\
    (* new_parent really is the parent of new_coin *)
    coin_parent new_coin = coin_id H new_parent /\
    sol' = encode_solution (coin_parent new_parent) piph (coin_amount new_parent) (coin_amount new_coin) isol.

(* the strict reading of "differs only in lineage parent, parent amount and coin amount": the original
   tree with exactly those three atoms replaced, everything else (including trailing material) kept *)
Definition patch_three_fields (solution : sexp) (pp' pa' amount' : bytes) : option sexp :=
  match solution with
  | Pair (Pair _ (Pair piph (Pair _ lp_tail))) (Pair _ sol_tail) =>
      Some (Pair (Pair (Atom pp') (Pair piph (Pair (Atom pa') lp_tail))) (Pair (Atom amount') sol_tail))
  | _ => None
  end.

(* canonical form of a solution: exactly the three fields, a three-field lineage proof, nil
   terminators, canonical integers *)
Definition canonical_solution (pp piph : bytes) (pa amount : N) (inner_solution : sexp) : sexp :=
  Pair (Pair (Atom pp) (Pair (Atom piph) (Pair (Atom (canon_n pa)) nil)))
       (Pair (Atom (canon_n amount)) (Pair inner_solution nil)).
