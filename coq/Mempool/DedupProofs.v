(* Mempool/DedupProofs.v — proofs of the dedup half of C19 over the conditions mirror Cond/Model.v:
   (1) the ELIGIBLE_FOR_DEDUP flag survives post_spend only if no AGG_SIG_* / SEND_MESSAGE /
       RECEIVE_MESSAGE condition was in the list and the created amounts cover the coin amount;
   (2) the fingerprint byte stream is the concatenation of length-prefixed frames and is uniquely
       decodable; for mempool-valid (strict, no unknown opcodes) lists the frames determine the
       parsed conditions; hence equal fingerprints => identical process_single_spend results, or the
       two streams are an explicit collision of H. *)
From Coq Require Import Lia.
From ChiaV.Base Require Import Bytes.
From ChiaV.Clvm Require Import Sexp Ints.
From ChiaV.Gen Require Import Opcodes Ladders.
From ChiaV.Cond Require Import Model.
From ChiaV.Mempool Require Import Fingerprint Dedup.
Open Scope N_scope.

(* ================= part 1: the dedup flag ================= *)

(* ---------- part 1: the dedup flag ---------- *)
Lemma bind_ok {A B} (r : res A) (f : A -> res B) b : bind r f = Ok b -> exists a, r = Ok a /\ f a = Ok b.
Proof. destruct r; cbn; [eauto|discriminate]. Qed.

Lemma charge_dedup st c st' : charge st c = Ok st' -> sp_dedup (l_spend st') = sp_dedup (l_spend st)
  /\ sp_amount (l_spend st') = sp_amount (l_spend st).
Proof. unfold charge. destruct (_ <? _); [discriminate|]. intro X; inversion X; subst; cbn. auto. Qed.

Lemma decrement_spend fl st st' : decrement fl st = Ok st' -> l_spend st' = l_spend st.
Proof.
  unfold decrement. destruct (f_cost_conds fl); [intro X; inversion X; reflexivity|].
  destruct (_ =? _); [discriminate|]. intro X; inversion X; reflexivity.
Qed.

Lemma mark_not_ephemeral_dedup st : sp_dedup (l_spend (mark_not_ephemeral st)) = sp_dedup (l_spend st)
  /\ sp_amount (l_spend (mark_not_ephemeral st)) = sp_amount (l_spend st).
Proof. unfold mark_not_ephemeral. destruct (sp_has_relative _); cbn; auto. Qed.

Section D.
  Variable valid_key : bytes -> bool.
  Variable H : bytes -> bytes.
  Variable K : consts.
  Variable fl : cflags.

  Lemma push_pair_spend st pk msg : l_spend (push_pair fl st pk msg) = l_spend st.
  Proof. unfold push_pair. destruct (f_dont_validate fl); reflexivity. Qed.

  Lemma mne_dedup st : sp_dedup (l_spend (mark_not_ephemeral st)) = sp_dedup (l_spend st).
  Proof. apply mark_not_ephemeral_dedup. Qed.
  Lemma mne_amount st : sp_amount (l_spend (mark_not_ephemeral st)) = sp_amount (l_spend st).
  Proof. apply mark_not_ephemeral_dedup. Qed.

  Lemma apply_condition_dedup st cva st' :
    apply_condition valid_key K fl st cva = Ok st' ->
    sp_dedup (l_spend st') = sp_dedup (l_spend st) /\ sp_amount (l_spend st') = sp_amount (l_spend st).
  Proof.
    destruct cva; cbn [apply_condition]; intro E;
    repeat match type of E with
    | (if ?b then _ else _) = Ok _ => destruct b eqn:?; try discriminate
    | match ?o with Some _ => _ | None => _ end = Ok _ => destruct o eqn:?; try discriminate
    | bind ?r _ = Ok _ => apply bind_ok in E; let a := fresh "a" in let Ea := fresh "Ea" in destruct E as [a [Ea E]]
    | Ok _ = Ok _ => inversion E; subst; clear E
    | charge _ _ = Ok _ => apply charge_dedup in E
    end;
    repeat match goal with
    | Hd : decrement _ _ = Ok _ |- _ => apply decrement_spend in Hd
    end;
    rewrite ?mne_dedup, ?mne_amount, ?push_pair_spend; cbn;
    try match goal with Hd : l_spend _ = l_spend _ |- _ => rewrite Hd end; auto.
  Qed.
End D.

Definition flagged (c : condition) : bool :=
  match c with CAggSig _ _ _ | CSendMessage _ _ _ | CReceiveMessage _ _ _ => true | _ => false end.

Lemma mempool_condition_dd n ff dd c :
  snd (mempool_condition n ff dd c) = true -> dd = true /\ flagged c = false.
Proof.
  destruct c; cbn; try (intro; split; [assumption|reflexivity]);
  repeat match goal with |- context [if ?b then _ else _] => destruct b end; cbn; try discriminate; auto.
Qed.

Lemma first_ok t f : first t = Ok f -> exists r, t = Pair f r.
Proof. destruct t; cbn; [discriminate|]. intro X; inversion X; eauto. Qed.

(* which condition parse_args produces for the AGG_SIG_* and message opcodes *)
Lemma parse_args_flagged fl c op cva :
  parse_args fl c op = Ok cva -> (is_agg_sig op || is_message_op op) = true -> flagged cva = true.
Proof.
  unfold parse_args. intros E F.
  destruct (is_agg_sig op) eqn:A.
  - repeat match type of E with
    | bind ?r _ = Ok _ => apply bind_ok in E; let a := fresh "a" in let Ea := fresh "Ea" in destruct E as [a [Ea E]]
    end. inversion E; reflexivity.
  - cbn in F. unfold is_message_op in F. apply Bool.orb_true_iff in F.
    destruct F as [F|F]; apply N.eqb_eq in F; subst op; vm_compute in A; clear A;
    repeat match type of E with
    | (if ?b then _ else _) = Ok _ =>
        (let v := eval vm_compute in b in
         match v with true => change b with true in E | false => change b with false in E end; cbv iota in E)
    end;
    repeat match type of E with
    | bind ?r _ = Ok _ => apply bind_ok in E; let a := fresh "a" in let Ea := fresh "Ea" in destruct E as [a [Ea E]]
    | (let '(_, _) := ?p in _) = Ok _ => destruct p
    end; inversion E; reflexivity.
Qed.

Definition ok_op (op : N) : Prop := is_agg_sig op = false /\ is_message_op op = false.

Section L.
  Variable valid_key : bytes -> bool.
  Variable H : bytes -> bytes.
  Variable K : consts.
  Variable fl : cflags.

  Lemma precharge_dedup st op st' : precharge fl st op = Ok st' ->
    sp_dedup (l_spend st') = sp_dedup (l_spend st) /\ sp_amount (l_spend st') = sp_amount (l_spend st)
    /\ l_counter st' = l_counter st.
  Proof.
    unfold precharge. intro E.
    repeat match type of E with
    | (if ?b then _ else _) = Ok _ => destruct b eqn:?
    end;
    try (inversion E; subst; auto; fail);
    (unfold charge in E; destruct (_ <? _); [discriminate|]; inversion E; subst; cbn; auto).
  Qed.

  Lemma process_condition_dedup c st st' :
    process_condition valid_key K fl VMempool c st = Ok st' ->
    sp_amount (l_spend st') = sp_amount (l_spend st) /\
    (sp_dedup (l_spend st') = true ->
     sp_dedup (l_spend st) = true /\
     match c with
     | Pair f _ => match parse_opcode f with Some op => ok_op op | None => True end
     | Atom _ => True
     end).
  Proof.
    unfold process_condition. intro E.
    apply bind_ok in E. destruct E as [f [Ef E]].
    apply first_ok in Ef. destruct Ef as [r ->].
    destruct (parse_opcode f) as [op|] eqn:PO.
    - apply bind_ok in E. destruct E as [st1 [E1 E]].
      apply bind_ok in E. destruct E as [c1 [_ E]].
      apply bind_ok in E. destruct E as [cva [PA E]].
      apply apply_condition_dedup in E. destruct E as [Ed Ea].
      apply precharge_dedup in E1. destruct E1 as [Pd [Pa Pc]].
      unfold visit in Ed, Ea.
      destruct (mempool_condition (l_counter st1) (sp_ff (l_spend st1)) (sp_dedup (l_spend st1)) cva) as [ff dd] eqn:MC.
      cbn in Ed, Ea. split; [congruence|].
      intro D. rewrite Ed in D. subst dd.
      assert (M := mempool_condition_dd (l_counter st1) (sp_ff (l_spend st1)) (sp_dedup (l_spend st1)) cva).
      rewrite MC in M. cbn in M. destruct (M D) as [D1 Fl]. split; [congruence|].
      unfold ok_op.
      destruct (is_agg_sig op || is_message_op op) eqn:B.
      + rewrite (parse_args_flagged _ _ _ _ PA B) in Fl. discriminate.
      + apply Bool.orb_false_iff in B. exact B.
    - destruct (f_no_unknown fl); [discriminate|].
      destruct (f_cost_conds fl).
      + apply charge_dedup in E. destruct E as [-> ->]. auto.
      + inversion E; subst. auto.
  Qed.

  Lemma conditions_loop_dedup conds : forall st st',
    conditions_loop valid_key K fl VMempool conds st = Ok st' ->
    sp_amount (l_spend st') = sp_amount (l_spend st) /\
    (sp_dedup (l_spend st') = true -> sp_dedup (l_spend st) = true /\ Forall ok_op (known_ops conds)).
  Proof.
    induction conds as [b|c IHc nxt IHn]; intros st st' E.
    - cbn in E. destruct b; [|discriminate]. inversion E; subst. cbn. auto.
    - cbn [conditions_loop] in E. apply bind_ok in E. destruct E as [st1 [E1 E2]].
      apply process_condition_dedup in E1. destruct E1 as [A1 D1].
      apply IHn in E2. destruct E2 as [A2 D2].
      split; [congruence|]. intro D. destruct (D2 D) as [Dm Fm]. destruct (D1 Dm) as [D0 Op].
      split; [assumption|]. cbn [known_ops].
      destruct c as [a|f r]; [assumption|].
      destruct (parse_opcode f); [constructor; assumption|assumption].
  Qed.

  (* property C19, dedup-flag clause, at the level of one spend *)
  Theorem dedup_flag_sound ret state parent_id puzzle_hash amount conds max_cost clvm_cost ret2 state2 cost2 s :
    process_single_spend valid_key H K fl VMempool ret state parent_id puzzle_hash amount conds max_cost clvm_cost
      = Ok (ret2, state2, cost2) ->
    hd_error (b_spends_rev ret2) = Some s ->
    sp_dedup s = true ->
    Forall ok_op (known_ops conds) /\ sp_amount s <= sum_created s.
  Proof.
    unfold process_single_spend. intros E Hd D.
    repeat (apply bind_ok in E; let a := fresh "a" in let Ea := fresh "Ea" in destruct E as [a [Ea E]]).
    destruct (lookup_idx _ _); [discriminate|].
    repeat (apply bind_ok in E; let a := fresh "a" in let Ea := fresh "Ea" in destruct E as [a [Ea E]]).
    inversion E; subst; clear E. cbn in Hd. inversion Hd; subst; clear Hd.
    match goal with Hl : conditions_loop _ _ _ _ _ _ = Ok ?st2 |- _ =>
      apply conditions_loop_dedup in Hl; destruct Hl as [Am Dm] end.
    unfold post_spend in D |- *. cbn in D. apply Bool.andb_true_iff in D. destruct D as [D1 D2].
    split.
    - apply Dm. exact D1.
    - cbn. apply Bool.negb_true_iff in D2. apply N.ltb_ge in D2. exact D2.
  Qed.
End L.

(* ================= part 2: the fingerprint stream ================= *)


(* ---------- the stream is the concatenation of the frames ---------- *)
Lemma fp_condition_frame c :
  fp_condition c = (o <- cond_frame c ;; Ok (match o with Some f => enc_frame f | None => [] end)).
Proof.
  unfold fp_condition, cond_frame.
  destruct (first c) as [f|e] eqn:F; cbn [bind]; [|reflexivity].
  destruct (parse_opcode f) as [op|]; [|reflexivity].
  destruct (op =? CREATE_COIN).
  - destruct c as [|[a0|] [|[a1|] [|[a2|] rest]]]; try reflexivity.
    unfold fp_hint, hint_atom, enc_frame.
    destruct rest as [|[|[h|] ?] ?]; cbn -[enc_atom u32be Nat.leb]; rewrite ?app_nil_r, <- ?app_assoc; try reflexivity.
    destruct (Nat.leb (length h) 32); cbn -[enc_atom u32be Nat.leb]; rewrite ?app_nil_r, <- ?app_assoc; reflexivity.
  - destruct (fp_one_arg op).
    + destruct c as [|[a0|] [|[a1|] rest]]; try reflexivity;
      unfold enc_frame; cbn -[enc_atom u32be]; rewrite ?app_nil_r; reflexivity.
    + destruct (fp_no_arg op); [|reflexivity].
      destruct c as [|[a0|] rest]; try reflexivity;
      unfold enc_frame; cbn -[enc_atom u32be]; rewrite ?app_nil_r; reflexivity.
Qed.

Lemma fp_stream_frames c : fp_stream c = (fs <- fp_frames c ;; Ok (enc_frames fs)).
Proof.
  induction c as [b|c _ nxt IH]; [reflexivity|].
  cbn [fp_stream fp_frames]. rewrite fp_condition_frame, IH.
  destruct (cond_frame c) as [[f|]|e]; cbn [bind]; try reflexivity;
  destruct (fp_frames nxt) as [fs|e']; cbn [bind]; reflexivity.
Qed.

(* ---------- well-formed frames ---------- *)
Definition small (a : bytes) : Prop := N.of_nat (length a) < 2 ^ 32.

Lemma hint_atom_small rest : small_atoms rest -> small (hint_atom rest).
Proof.
  unfold hint_atom, small. destruct rest as [|[|[h|] ?] ?]; cbn; try (intros; lia).
  intros [[Hh _] _]. destruct (Nat.leb (length h) 32); [exact Hh|cbn; lia].
Qed.

Lemma cond_frame_wf c f : small_atoms c -> cond_frame c = Ok (Some f) -> wf_frame f.
Proof.
  unfold cond_frame. intros S E.
  apply bind_ok in E. destruct E as [hd [Hf E]].
  destruct c as [|hd' tl]; [discriminate|]. cbn in Hf. inversion Hf; subst hd'; clear Hf.
  destruct (parse_opcode hd) as [op|] eqn:PO; [|discriminate].
  destruct (op =? CREATE_COIN) eqn:C1.
  - destruct hd as [a0|]; [|discriminate]. destruct tl as [|[a1|] [|[a2|] rest]]; try discriminate.
    inversion E; subst; clear E. cbn. unfold frame_arity. rewrite PO, C1.
    cbn in S. destruct S as [S0 [S1 [S2 S3]]].
    split; [reflexivity|]. repeat constructor; try assumption. now apply hint_atom_small.
  - destruct (fp_one_arg op) eqn:C2.
    + destruct hd as [a0|]; [|discriminate]. destruct tl as [|[a1|] rest]; try discriminate.
      inversion E; subst; clear E. cbn. unfold frame_arity. rewrite PO, C1, C2.
      cbn in S. destruct S as [S0 [S1 S2]]. split; [reflexivity|]. repeat constructor; assumption.
    + destruct (fp_no_arg op) eqn:C3; [|discriminate].
      destruct hd as [a0|]; [|discriminate].
      inversion E; subst; clear E. cbn. unfold frame_arity. rewrite PO, C1, C2, C3.
      cbn in S. destruct S as [S0 S1]. split; [reflexivity|]. repeat constructor; assumption.
Qed.

Lemma fp_frames_wf c : forall fs, small_atoms c -> fp_frames c = Ok fs -> Forall wf_frame fs.
Proof.
  induction c as [b|c _ nxt IH]; intros fs S E.
  - cbn in E. inversion E. constructor.
  - cbn [fp_frames] in E. apply bind_ok in E. destruct E as [o [Eo E]].
    apply bind_ok in E. destruct E as [r [Er E]]. inversion E; subst; clear E.
    cbn in S. destruct S as [Sc Sn].
    specialize (IH r Sn Er).
    destruct o as [f|]; [|assumption]. constructor; [|assumption].
    eapply cond_frame_wf; [exact Sc|exact Eo].
Qed.

(* ---------- unique decodability ---------- *)
Lemma u32be_length n : length (u32be n) = 4%nat.
Proof. unfold u32be. apply n2be_length. Qed.

Lemma u32be_inj a b : small a -> small b -> u32be (length a) = u32be (length b) -> length a = length b.
Proof.
  unfold small, u32be. intros Ha Hb E.
  rewrite !N.mod_small in E by assumption.
  apply (f_equal be2n) in E.
  rewrite !be2n_n2be in E by (change (256 ^ N.of_nat 4) with (2 ^ 32); assumption).
  lia.
Qed.

Lemma app_inv_length {A} (a b c d : list A) : length a = length b -> a ++ c = b ++ d -> a = b /\ c = d.
Proof.
  revert b. induction a as [|x a IH]; intros [|y b] L E; cbn in *; try discriminate; auto.
  inversion E; subst. destruct (IH b) as [-> ->]; auto.
Qed.

Lemma enc_atom_inj a b r1 r2 : small a -> small b -> enc_atom a ++ r1 = enc_atom b ++ r2 -> a = b /\ r1 = r2.
Proof.
  unfold enc_atom. intros Ha Hb E. rewrite <- !app_assoc in E.
  apply app_inv_length in E; [|now rewrite !u32be_length].
  destruct E as [E1 E2]. apply u32be_inj in E1; try assumption.
  now apply app_inv_length in E2.
Qed.

Lemma enc_atoms_inj l1 : forall l2 x y, length l1 = length l2 -> Forall small l1 -> Forall small l2 ->
  concat (map enc_atom l1) ++ x = concat (map enc_atom l2) ++ y -> l1 = l2 /\ x = y.
Proof.
  induction l1 as [|a l1 IH]; intros [|b l2] x y L S1 S2 E; cbn in *; try discriminate; auto.
  inversion S1; inversion S2; subst. rewrite <- !app_assoc in E.
  apply enc_atom_inj in E; try assumption. destruct E as [-> E].
  destruct (IH l2 x y) as [-> ->]; auto.
Qed.

Lemma enc_atom_nonempty a r : enc_atom a ++ r <> [].
Proof.
  intro E. apply (f_equal (@length byte)) in E. unfold enc_atom in E.
  rewrite !app_length, u32be_length in E. cbn in E. lia.
Qed.

Lemma enc_frames_inj fs1 : forall fs2, Forall wf_frame fs1 -> Forall wf_frame fs2 ->
  enc_frames fs1 = enc_frames fs2 -> fs1 = fs2.
Proof.
  unfold enc_frames.
  induction fs1 as [|f1 r1 IH]; intros [|f2 r2] W1 W2 E; cbn [map concat] in E.
  - reflexivity.
  - exfalso. inversion W2 as [|? ? Wf _]; subst. destruct f2 as [|op l]; [exact Wf|].
    unfold enc_frame in E. cbn [map concat] in E. rewrite <- !app_assoc in E.
    symmetry in E. exact (enc_atom_nonempty _ _ E).
  - exfalso. inversion W1 as [|? ? Wf _]; subst. destruct f1 as [|op l]; [exact Wf|].
    unfold enc_frame in E. cbn [map concat] in E. rewrite <- !app_assoc in E.
    exact (enc_atom_nonempty _ _ E).
  - inversion W1 as [|? ? Wf1 Wr1]; inversion W2 as [|? ? Wf2 Wr2]; subst.
    destruct f1 as [|op1 l1]; [destruct Wf1|]. destruct f2 as [|op2 l2]; [destruct Wf2|].
    destruct Wf1 as [L1 S1]. destruct Wf2 as [L2 S2].
    assert (op1 = op2) as ->.
    { unfold enc_frame in E. cbn [map concat] in E. rewrite <- !app_assoc in E.
      inversion S1; inversion S2; subst. apply enc_atom_inj in E; try assumption. apply E. }
    unfold enc_frame in E.
    apply enc_atoms_inj in E; try assumption; [|congruence].
    destruct E as [-> E]. f_equal. apply IH; assumption.
Qed.

Theorem fp_stream_uniquely_decodable c1 c2 s fs1 fs2 :
  small_atoms c1 -> small_atoms c2 ->
  fp_stream c1 = Ok s -> fp_stream c2 = Ok s ->
  fp_frames c1 = Ok fs1 -> fp_frames c2 = Ok fs2 -> fs1 = fs2.
Proof.
  intros S1 S2 E1 E2 F1 F2. rewrite fp_stream_frames in E1, E2. rewrite F1 in E1. rewrite F2 in E2.
  cbn in E1, E2. inversion E1; inversion E2; subst.
  apply enc_frames_inj; try congruence; [exact (fp_frames_wf c1 fs1 S1 F1)|exact (fp_frames_wf c2 fs2 S2 F2)].
Qed.



Ltac binds E :=
  repeat match type of E with
  | bind ?r _ = Ok _ => apply bind_ok in E; let a := fresh "a" in let Ea := fresh "Ea" in destruct E as [a [Ea E]]
  end.

(* decide the opcode tests of an if-chain whose opcode is a concrete constant *)
Ltac decide_ifs E :=
  repeat match type of E with
  | (if ?b then _ else _) = Ok _ =>
      (let v := eval vm_compute in b in
       match v with true => change b with true in E | false => change b with false in E end; cbv iota in E)
  end.

Lemma strict_terminator fl c u : f_strict fl = true -> maybe_check_args_terminator fl c = Ok u -> exists a, c = Pair a nil.
Proof.
  unfold maybe_check_args_terminator. intros -> E. apply bind_ok in E. destruct E as [r [Er E]].
  destruct c as [|a r']; [discriminate|]. cbn in Er. inversion Er; subst.
  destruct r as [[|]|]; try discriminate. eauto.
Qed.

Lemma one_arg_args fl c op v : f_strict fl = true -> fp_one_arg op = true -> parse_args fl c op = Ok v ->
  exists a, c = Pair a nil.
Proof.
  intros S O E. unfold fp_one_arg in O. cbn [existsb] in O.
  repeat (apply Bool.orb_true_iff in O; destruct O as [O|O]); try discriminate;
  apply N.eqb_eq in O; subst op; unfold parse_args in E; decide_ifs E;
  unfold lock_arg, hash_arg, msg_arg in E; apply bind_ok in E; destruct E as [u [Eu _]];
  eapply strict_terminator; eassumption.
Qed.

Definition cc_value (a1 a2 h : bytes) : condition :=
  match sanitize_uint a2 8 with SOk n => CCreateCoin a1 n h | _ => CSkip end.

Lemma create_coin_value fl a1 a2 rs v : f_strict fl = true ->
  parse_args fl (Pair (Atom a1) (Pair (Atom a2) rs)) CREATE_COIN = Ok v -> v = cc_value a1 a2 (hint_atom rs).
Proof.
  intros S E. unfold parse_args in E. decide_ifs E.
  cbn [first rest bind] in E. unfold sanitize_hash in E. cbn [atom_of bind] in E.
  destruct (Nat.eqb (length a1) 32); [|discriminate]. cbn [bind] in E.
  unfold sanitize_uint_node, cc_value in *.
  destruct (sanitize_uint a2 8) eqn:SU; cbn [bind] in E; try discriminate.
  unfold hint_atom.
  destruct rs as [b|params r].
  - binds E. inversion E; reflexivity.
  - binds E. destruct params as [|[param|] ?]; try (inversion E; reflexivity).
    destruct (Nat.leb (length param) 32); inversion E; reflexivity.
Qed.

Lemma no_arg_value fl c op v : f_strict fl = true -> fp_no_arg op = true -> parse_args fl c op = Ok v ->
  v = (if op =? REMARK then CSkip else CAssertEphemeral).
Proof.
  intros S O E. unfold fp_no_arg in O. apply Bool.orb_true_iff in O.
  destruct O as [O|O]; apply N.eqb_eq in O; subst op; unfold parse_args in E; decide_ifs E.
  - binds E. inversion E; reflexivity.
  - inversion E; reflexivity.
Qed.


(* a mempool-valid condition is determined by its frame *)
Lemma frame_determines fl c1 c2 f p1 p2 :
  f_strict fl = true ->
  parsed_condition fl c1 = Ok (Some p1) -> parsed_condition fl c2 = Ok (Some p2) ->
  cond_frame c1 = Ok (Some f) -> cond_frame c2 = Ok (Some f) -> p1 = p2.
Proof.
  intros S P1 P2 F1 F2.
  unfold parsed_condition in P1, P2. unfold cond_frame in F1, F2.
  apply bind_ok in P1. destruct P1 as [h1 [H1 P1]]. apply bind_ok in P2. destruct P2 as [h2 [H2 P2]].
  rewrite H1 in F1. rewrite H2 in F2. cbn [bind] in F1, F2.
  apply first_ok in H1, H2. destruct H1 as [t1 ->]. destruct H2 as [t2 ->].
  destruct (parse_opcode h1) as [op1|] eqn:O1; [|destruct (f_no_unknown fl); discriminate].
  destruct (parse_opcode h2) as [op2|] eqn:O2; [|destruct (f_no_unknown fl); discriminate].
  cbn [rest bind] in P1, P2.
  apply bind_ok in P1. destruct P1 as [v1 [A1 P1]]. apply bind_ok in P2. destruct P2 as [v2 [A2 P2]].
  inversion P1; inversion P2; subst p1 p2; clear P1 P2.
  (* the opcode atom is the head of the frame *)
  assert (exists a0 r, f = a0 :: r /\ h1 = Atom a0 /\ h2 = Atom a0) as [a0 [fr [Ef [-> ->]]]].
  { destruct (op1 =? CREATE_COIN); [|destruct (fp_one_arg op1); [|destruct (fp_no_arg op1); [|discriminate]]];
    (destruct (op2 =? CREATE_COIN); [|destruct (fp_one_arg op2); [|destruct (fp_no_arg op2); [|discriminate]]]);
    destruct h1 as [x|]; try discriminate; destruct h2 as [y|]; try discriminate;
    repeat match goal with
    | Hx : match ?t with Atom _ => _ | Pair _ _ => _ end = Ok _ |- _ => destruct t; try discriminate
    end;
    inversion F1; subst f; inversion F2; subst; eauto. }
  rewrite O1 in O2. inversion O2; subst op2; clear O2.
  destruct (op1 =? CREATE_COIN) eqn:C.
  - apply N.eqb_eq in C. subst op1.
    destruct t1 as [|[a1|] [|[a2|] r1]]; try discriminate.
    destruct t2 as [|[b1|] [|[b2|] r2]]; try discriminate.
    subst f.
    assert (a1 = b1 /\ a2 = b2 /\ hint_atom r1 = hint_atom r2) as [-> [-> Eh]] by (repeat split; congruence).
    apply create_coin_value in A1, A2; try assumption. subst. rewrite Eh. reflexivity.
  - destruct (fp_one_arg op1) eqn:C1.
    + destruct (one_arg_args _ _ _ _ S C1 A1) as [x1 ->]. destruct (one_arg_args _ _ _ _ S C1 A2) as [x2 ->].
      destruct x1 as [y1|]; try discriminate. destruct x2 as [y2|]; try discriminate.
      subst f. assert (y1 = y2) as -> by congruence. congruence.
    + destruct (fp_no_arg op1) eqn:C2; [|discriminate].
      apply no_arg_value in A1, A2; try assumption. congruence.
Qed.


Lemma parsed_known fl c p : f_no_unknown fl = true -> parsed_condition fl c = Ok p -> exists q, p = Some q.
Proof.
  unfold parsed_condition. intros U E. apply bind_ok in E. destruct E as [f [_ E]].
  destruct (parse_opcode f); [|rewrite U in E; discriminate].
  binds E. inversion E; eauto.
Qed.

Lemma frame_of_parsed fl c q fo : parsed_condition fl c = Ok (Some q) -> cond_frame c = Ok fo -> exists f, fo = Some f.
Proof.
  unfold parsed_condition, cond_frame. intros P F.
  apply bind_ok in P. destruct P as [h [Hh P]]. rewrite Hh in F. cbn [bind] in F.
  destruct (parse_opcode h) as [op|]; [|destruct (f_no_unknown fl); discriminate].
  destruct (op =? CREATE_COIN); [|destruct (fp_one_arg op); [|destruct (fp_no_arg op); [|discriminate]]];
  repeat match type of F with
  | match ?t with Atom _ => _ | Pair _ _ => _ end = Ok _ => destruct t; try discriminate
  end; inversion F; eauto.
Qed.

Lemma frames_determine_parsed fl : f_strict fl = true -> f_no_unknown fl = true ->
  forall c1 c2 fs l1 l2,
  parsed_conditions fl c1 = Ok l1 -> parsed_conditions fl c2 = Ok l2 ->
  fp_frames c1 = Ok fs -> fp_frames c2 = Ok fs -> l1 = l2.
Proof.
  intros S U. induction c1 as [b|x _ n1 IH]; intros c2 fs l1 l2 P1 P2 F1 F2.
  - cbn in P1. destruct b; [|discriminate]. inversion P1; subst l1. cbn in F1. inversion F1; subst fs.
    destruct c2 as [b2|y n2].
    + cbn in P2. destruct b2; [|discriminate]. inversion P2; reflexivity.
    + exfalso. cbn [parsed_conditions fp_frames] in P2, F2.
      apply bind_ok in P2. destruct P2 as [p [Pp _]].
      destruct (parsed_known _ _ _ U Pp) as [q ->].
      apply bind_ok in F2. destruct F2 as [fo [Fo F2]].
      destruct (frame_of_parsed _ _ _ _ Pp Fo) as [f ->].
      binds F2. inversion F2.
  - cbn [parsed_conditions fp_frames] in P1, F1.
    apply bind_ok in P1. destruct P1 as [p1 [Pp1 P1]]. apply bind_ok in P1. destruct P1 as [r1 [Pr1 P1]].
    inversion P1; subst l1; clear P1.
    destruct (parsed_known _ _ _ U Pp1) as [q1 ->].
    apply bind_ok in F1. destruct F1 as [fo1 [Fo1 F1]]. apply bind_ok in F1. destruct F1 as [fr1 [Fr1 F1]].
    destruct (frame_of_parsed _ _ _ _ Pp1 Fo1) as [f1 ->]. inversion F1; subst fs; clear F1.
    destruct c2 as [b2|y n2]; [cbn in F2; discriminate|].
    cbn [parsed_conditions fp_frames] in P2, F2.
    apply bind_ok in P2. destruct P2 as [p2 [Pp2 P2]]. apply bind_ok in P2. destruct P2 as [r2 [Pr2 P2]].
    inversion P2; subst l2; clear P2.
    destruct (parsed_known _ _ _ U Pp2) as [q2 ->].
    apply bind_ok in F2. destruct F2 as [fo2 [Fo2 F2]]. apply bind_ok in F2. destruct F2 as [fr2 [Fr2 F2]].
    destruct (frame_of_parsed _ _ _ _ Pp2 Fo2) as [f2 ->]. inversion F2; subst; clear F2.
    f_equal.
    + f_equal. eapply frame_determines; [exact S|exact Pp1|exact Pp2|exact Fo1|exact Fo2].
    + eapply IH; eassumption.
Qed.

Theorem fp_stream_determines_conditions fl c1 c2 s l1 l2 :
  f_strict fl = true -> f_no_unknown fl = true -> small_atoms c1 -> small_atoms c2 ->
  fp_stream c1 = Ok s -> fp_stream c2 = Ok s ->
  parsed_conditions fl c1 = Ok l1 -> parsed_conditions fl c2 = Ok l2 -> l1 = l2.
Proof.
  intros S U S1 S2 E1 E2 P1 P2.
  assert (X1 := E1). assert (X2 := E2). rewrite fp_stream_frames in X1, X2.
  apply bind_ok in X1. destruct X1 as [fs1 [F1 _]]. apply bind_ok in X2. destruct X2 as [fs2 [F2 _]].
  assert (fs1 = fs2) as -> by (eapply fp_stream_uniquely_decodable; [exact S1|exact S2|exact E1|exact E2|exact F1|exact F2]).
  eapply frames_determine_parsed; eassumption.
Qed.

Section R.
  Variable valid_key : bytes -> bool.
  Variable H : bytes -> bytes.
  Variable K : consts.
  Variable fl : cflags.
  Variable V : visitor.

  Lemma process_condition_run c p st : parsed_condition fl c = Ok p ->
    process_condition valid_key K fl V c st = run_parsed_one valid_key K fl V p st.
  Proof.
    unfold parsed_condition, process_condition, run_parsed_one. intro P.
    destruct (first c) as [f|e]; cbn [bind] in *; [|discriminate].
    destruct (parse_opcode f) as [op|].
    - destruct (rest c) as [c1|e]; cbn [bind] in *; [|discriminate].
      destruct (parse_args fl c1 op) as [cva|e]; cbn [bind] in *; [|discriminate].
      inversion P; subst. destruct (precharge fl st op); reflexivity.
    - destruct (f_no_unknown fl); [discriminate|]. inversion P; reflexivity.
  Qed.

  Lemma conditions_loop_run c : forall l st, parsed_conditions fl c = Ok l ->
    conditions_loop valid_key K fl V c st = run_parsed valid_key K fl V l st.
  Proof.
    induction c as [b|x _ n IH]; intros l st P.
    - cbn in P. destruct b; [|discriminate]. inversion P; reflexivity.
    - cbn [parsed_conditions] in P. apply bind_ok in P. destruct P as [p [Pp P]].
      apply bind_ok in P. destruct P as [r [Pr P]]. inversion P; subst l.
      cbn [conditions_loop run_parsed]. rewrite (process_condition_run _ _ _ Pp).
      destruct (run_parsed_one valid_key K fl V p st); cbn [bind]; [apply IH; exact Pr|reflexivity].
  Qed.

  Lemma process_condition_parsed c st st' : process_condition valid_key K fl V c st = Ok st' ->
    exists p, parsed_condition fl c = Ok p.
  Proof.
    unfold parsed_condition, process_condition. intro E.
    destruct (first c) as [f|e]; cbn [bind] in *; [|discriminate].
    destruct (parse_opcode f) as [op|].
    - destruct (precharge fl st op); cbn [bind] in E; [|discriminate].
      destruct (rest c) as [c1|e]; cbn [bind] in *; [|discriminate].
      destruct (parse_args fl c1 op) as [cva|e]; cbn [bind] in *; [|discriminate]. eauto.
    - destruct (f_no_unknown fl); [discriminate|]. eauto.
  Qed.

  Lemma loop_ok_parsed c : forall st st', conditions_loop valid_key K fl V c st = Ok st' ->
    exists l, parsed_conditions fl c = Ok l.
  Proof.
    induction c as [b|x _ n IH]; intros st st' E.
    - cbn in *. destruct b; [eauto|discriminate].
    - cbn [conditions_loop] in E. apply bind_ok in E. destruct E as [st1 [E1 E2]].
      destruct (process_condition_parsed _ _ _ E1) as [p Pp]. destruct (IH _ _ E2) as [r Pr].
      exists (p :: r). cbn [parsed_conditions]. rewrite Pp, Pr. reflexivity.
  Qed.

  Lemma pss_ok_loop ret state par ph am c mc cc r :
    process_single_spend valid_key H K fl V ret state par ph am c mc cc = Ok r ->
    exists st st', conditions_loop valid_key K fl V c st = Ok st'.
  Proof.
    unfold process_single_spend. intro E.
    repeat (apply bind_ok in E; let a := fresh "a" in let Ea := fresh "Ea" in destruct E as [a [Ea E]]).
    destruct (lookup_idx _ _); [discriminate|].
    repeat (apply bind_ok in E; let a := fresh "a" in let Ea := fresh "Ea" in destruct E as [a [Ea E]]).
    eauto.
  Qed.

  Lemma pss_cond_ext ret state par ph am c1 c2 mc cc :
    (forall st, conditions_loop valid_key K fl V c1 st = conditions_loop valid_key K fl V c2 st) ->
    process_single_spend valid_key H K fl V ret state par ph am c1 mc cc
    = process_single_spend valid_key H K fl V ret state par ph am c2 mc cc.
  Proof.
    intro X. unfold process_single_spend.
    destruct (sanitize_hash par 32 InvalidParentId); cbn [bind]; [|reflexivity].
    destruct (sanitize_hash ph 32 InvalidPuzzleHash); cbn [bind]; [|reflexivity].
    destruct (parse_amount am InvalidCoinAmount); cbn [bind]; [|reflexivity].
    destruct (atom_of am InvalidCoinAmount); cbn [bind]; [|reflexivity].
    destruct (lookup_idx _ _); [reflexivity|].
    destruct (if f_cost_conds fl then _ else _); cbn [bind]; [|reflexivity].
    rewrite X. reflexivity.
  Qed.
End R.

(* property C19, fingerprint clause *)
Theorem equal_fingerprint_identical_spend valid_key H K fl ret state par ph am c1 c2 mc cc r1 r2 f :
  f_strict fl = true -> f_no_unknown fl = true -> small_atoms c1 -> small_atoms c2 ->
  process_single_spend valid_key H K fl VMempool ret state par ph am c1 mc cc = Ok r1 ->
  process_single_spend valid_key H K fl VMempool ret state par ph am c2 mc cc = Ok r2 ->
  compute_puzzle_fingerprint H c1 = Ok f -> compute_puzzle_fingerprint H c2 = Ok f ->
  r1 = r2 \/ exists s1 s2, fp_stream c1 = Ok s1 /\ fp_stream c2 = Ok s2 /\ s1 <> s2 /\ H s1 = H s2.
Proof.
  intros S U S1 S2 P1 P2 F1 F2.
  unfold compute_puzzle_fingerprint in F1, F2.
  apply bind_ok in F1. destruct F1 as [s1 [E1 F1]]. apply bind_ok in F2. destruct F2 as [s2 [E2 F2]].
  inversion F1; inversion F2; subst.
  destruct (bytes_eqb_spec s1 s2) as [->|NE].
  - left.
    destruct (pss_ok_loop _ _ _ _ _ _ _ _ _ _ _ _ _ _ P1) as [sa [sa' La]].
    destruct (pss_ok_loop _ _ _ _ _ _ _ _ _ _ _ _ _ _ P2) as [sb [sb' Lb]].
    destruct (loop_ok_parsed _ _ _ _ _ _ _ La) as [l1 Q1]. destruct (loop_ok_parsed _ _ _ _ _ _ _ Lb) as [l2 Q2].
    assert (l1 = l2) as -> by (eapply fp_stream_determines_conditions; [exact S|exact U|exact S1|exact S2|exact E1|exact E2|exact Q1|exact Q2]).
    rewrite (pss_cond_ext valid_key H K fl VMempool ret state par ph am c1 c2 mc cc) in P1.
    + congruence.
    + intro st. rewrite (conditions_loop_run _ _ _ _ _ _ _ Q1), (conditions_loop_run _ _ _ _ _ _ _ Q2). reflexivity.
  - right. exists s1, s2. repeat split; try assumption. congruence.
Qed.

(* ================= part 3: one-spend bundles (run_spendbundle's fingerprint step) ================= *)

Section B.
  Variable valid_key : bytes -> bool.
  Variable H : bytes -> bytes.
  Variable K : consts.
  Variable fl : cflags.
  Variable V : visitor.

  Lemma charge_spends st c st' : charge st c = Ok st' -> b_spends_rev (l_ret st') = b_spends_rev (l_ret st).
  Proof. unfold charge. destruct (_ <? _); [discriminate|]. intro X; inversion X; reflexivity. Qed.

  Lemma decrement_ret st st' : decrement fl st = Ok st' -> l_ret st' = l_ret st.
  Proof.
    unfold decrement. destruct (f_cost_conds fl); [intro X; inversion X; reflexivity|].
    destruct (_ =? _); [discriminate|]. intro X; inversion X; reflexivity.
  Qed.

  Lemma mne_ret st : l_ret (mark_not_ephemeral st) = l_ret st.
  Proof. unfold mark_not_ephemeral. destruct (sp_has_relative _); reflexivity. Qed.

  Lemma push_pair_ret st pk msg : l_ret (push_pair fl st pk msg) = l_ret st.
  Proof. unfold push_pair. destruct (f_dont_validate fl); reflexivity. Qed.

  Lemma apply_condition_spends st cva st' :
    apply_condition valid_key K fl st cva = Ok st' -> b_spends_rev (l_ret st') = b_spends_rev (l_ret st).
  Proof.
    destruct cva; cbn [apply_condition]; intro E;
    repeat match type of E with
    | (if ?b then _ else _) = Ok _ => destruct b eqn:?; try discriminate
    | match ?o with Some _ => _ | None => _ end = Ok _ => destruct o eqn:?; try discriminate
    | bind ?r _ = Ok _ => apply bind_ok in E; let a := fresh "a" in let Ea := fresh "Ea" in destruct E as [a [Ea E]]
    | Ok _ = Ok _ => inversion E; subst; clear E
    | charge _ _ = Ok _ => apply charge_spends in E
    end;
    repeat match goal with
    | Hd : decrement _ _ = Ok _ |- _ => apply decrement_ret in Hd
    end;
    rewrite ?mne_ret, ?push_pair_ret; cbn;
    try match goal with Hd : l_ret _ = l_ret _ |- _ => rewrite Hd end; auto.
  Qed.

  Lemma precharge_spends st op st' : precharge fl st op = Ok st' -> b_spends_rev (l_ret st') = b_spends_rev (l_ret st).
  Proof.
    unfold precharge. intro E.
    repeat match type of E with
    | (if ?b then _ else _) = Ok _ => destruct b eqn:?
    end;
    try (inversion E; subst; auto; fail); apply charge_spends in E; exact E.
  Qed.

  Lemma process_condition_spends c st st' :
    process_condition valid_key K fl V c st = Ok st' -> b_spends_rev (l_ret st') = b_spends_rev (l_ret st).
  Proof.
    unfold process_condition. intro E.
    apply bind_ok in E. destruct E as [f [_ E]].
    destruct (parse_opcode f) as [op|].
    - apply bind_ok in E. destruct E as [st1 [E1 E]].
      apply bind_ok in E. destruct E as [c1 [_ E]].
      apply bind_ok in E. destruct E as [cva [_ E]].
      apply apply_condition_spends in E. apply precharge_spends in E1.
      rewrite E. rewrite <- E1. unfold visit. destruct V; [reflexivity|].
      destruct (mempool_condition _ _ _ _); reflexivity.
    - destruct (f_no_unknown fl); [discriminate|].
      destruct (f_cost_conds fl); [apply charge_spends in E; exact E|inversion E; reflexivity].
  Qed.

  Lemma conditions_loop_spends c : forall st st',
    conditions_loop valid_key K fl V c st = Ok st' -> b_spends_rev (l_ret st') = b_spends_rev (l_ret st).
  Proof.
    induction c as [b|x _ n IH]; intros st st' E.
    - cbn in E. destruct b; [|discriminate]. inversion E; reflexivity.
    - cbn [conditions_loop] in E. apply bind_ok in E. destruct E as [st1 [E1 E2]].
      apply process_condition_spends in E1. apply IH in E2. congruence.
  Qed.

  (* process_single_spend pushes exactly one spend *)
  Lemma process_single_spend_pushes ret state par ph am c mc cc ret2 state2 cost2 :
    process_single_spend valid_key H K fl V ret state par ph am c mc cc = Ok (ret2, state2, cost2) ->
    exists s, b_spends_rev ret2 = s :: b_spends_rev ret.
  Proof.
    unfold process_single_spend. intro E.
    repeat (apply bind_ok in E; let a := fresh "a" in let Ea := fresh "Ea" in destruct E as [a [Ea E]]).
    destruct (lookup_idx _ _); [discriminate|].
    repeat (apply bind_ok in E; let a := fresh "a" in let Ea := fresh "Ea" in destruct E as [a [Ea E]]).
    inversion E; subst; clear E. cbn.
    match goal with Hl : conditions_loop _ _ _ _ _ _ = Ok _ |- _ => apply conditions_loop_spends in Hl; rewrite Hl end.
    cbn.
    match goal with Hc : (if f_cost_conds fl then _ else _) = Ok _ |- _ =>
      destruct (f_cost_conds fl); [apply charge_spends in Hc; rewrite Hc|inversion Hc; subst]; cbn; eauto end.
  Qed.
End B.

(* post_process only ever clears ELIGIBLE_FOR_FF *)
Definition same_but_ff (a b : spend) : Prop :=
  sp_dedup a = sp_dedup b /\ sp_amount a = sp_amount b /\ sp_create_coin a = sp_create_coin b.

Lemma post_process_same H V spends state :
  Forall2 same_but_ff spends (post_process H V spends state).
Proof.
  unfold post_process. destruct V.
  - induction spends; constructor; [repeat split|assumption].
  - match goal with |- Forall2 _ _ (map ?hh (map (fun is => let '(i, s) := is in if existsb (Nat.eqb i) ?rr then _ else _) _)) =>
      set (h := hh); set (referenced := rr) end.
    set (g := fun is : nat * spend => let '(i, s) := is in if existsb (Nat.eqb i) referenced then clear_ff s else s).
    assert (G : forall n l, Forall2 same_but_ff l (map h (map g (combine (seq n (length l)) l)))).
    { intros n l. revert n. induction l as [|s l IH]; intro n; cbn; [constructor|].
      constructor; [|apply IH].
      unfold h, g. destruct (existsb (Nat.eqb n) referenced);
      match goal with |- same_but_ff _ (if ?b then _ else _) => destruct b end; repeat split. }
    apply G.
Qed.

Lemma Forall2_singleton {A B} (R : A -> B -> Prop) a l : Forall2 R [a] l -> exists b, l = [b] /\ R a b.
Proof. intro F. inversion F as [|? b ? l' Hab Hl]; subst. inversion Hl; subst. eauto. Qed.

Theorem bundle_dedup_flag_sound valid_key H K fl cf parent ph amount conds mc cc b spends fp :
  run_single_spend_bundle valid_key H K fl cf parent ph amount conds mc cc = Ok (b, spends, fp) ->
  exists s, spends = [s] /\
    (sp_dedup s = true -> Forall ok_op (known_ops conds) /\ sp_amount s <= sum_created s) /\
    (fp <> None -> sp_dedup s = true /\ cf = true /\ exists st, fp_stream conds = Ok st /\ fp = Some (H st)).
Proof.
  unfold run_single_spend_bundle. intro E.
  apply bind_ok in E. destruct E as [[[ret state] cl] [P E]].
  apply bind_ok in E. destruct E as [fpo [F E]].
  apply bind_ok in E. destruct E as [u [_ E]]. inversion E; subst; clear E.
  destruct (process_single_spend_pushes _ _ _ _ _ _ _ _ _ _ _ _ _ _ _ _ P) as [s0 S0].
  cbn in S0.
  pose proof (post_process_same H VMempool (fast_rev (b_spends_rev b)) state) as PP.
  rewrite S0 in PP |- *. cbn in PP |- *.
  apply Forall2_singleton in PP. destruct PP as [y [-> Hxy]].
  exists y. split; [reflexivity|].
  destruct Hxy as [Hd [Ha Hc]].
  assert (Hs : hd_error (b_spends_rev b) = Some s0) by (rewrite S0; reflexivity).
  split.
  - intro D. rewrite <- Hd in D.
    destruct (dedup_flag_sound _ _ _ _ _ _ _ _ _ _ _ _ _ _ _ _ P Hs D) as [A B].
    split; [exact A|]. unfold sum_created in *. rewrite <- Ha, <- Hc. exact B.
  - intro NN. unfold fingerprint_step in F. rewrite S0 in F.
    destruct (sp_dedup s0 && cf) eqn:DC.
    + apply Bool.andb_true_iff in DC. destruct DC as [D1 D2].
      apply bind_ok in F. destruct F as [f [Ff F]]. inversion F; subst.
      unfold compute_puzzle_fingerprint in Ff. apply bind_ok in Ff. destruct Ff as [st [Es Ff]]. inversion Ff; subst.
      repeat split; try congruence. eauto.
    + inversion F; subst. contradiction.
Qed.

(* the N-spend loop the runner executes, on one spend, is run_single_spend_bundle *)
Lemma run_spend_bundle_single valid_key H K fl cf parent ph amount conds mc cc :
  run_spend_bundle valid_key H K fl cf [(parent, ph, amount, conds)] mc cc
  = (r <- run_single_spend_bundle valid_key H K fl cf parent ph amount conds mc cc ;;
     let '(b, spends, fp) := r in Ok (b, spends, [fp])).
Proof.
  unfold run_spend_bundle, run_single_spend_bundle. cbn [run_spends_loop].
  destruct (process_single_spend _ _ _ _ _ _ _ _ _ _ _ _ _) as [[[ret state] cl]|e]; cbn [bind]; [|reflexivity].
  destruct (fingerprint_step H cf ret conds) as [fp|e]; cbn [bind]; [|reflexivity].
  cbn [fast_rev rev_append].
  destruct (validate_conditions _ _ _ _) as [u|e]; cbn [bind]; reflexivity.
Qed.

(* ================= part 4: N-spend bundles ================= *)

Definition flag_rule (x : bytes * bytes * N * sexp) (s : spend) : Prop :=
  sp_dedup s = true -> Forall ok_op (known_ops (snd x)) /\ sp_amount s <= sum_created s.

Lemma fast_rev_rev {A} (l : list A) : fast_rev l = rev l.
Proof. unfold fast_rev. rewrite rev_append_rev. apply app_nil_r. Qed.

Lemma Forall2_app_one {A B} (R : A -> B -> Prop) l l' a b : Forall2 R l l' -> R a b -> Forall2 R (l ++ [a]) (l' ++ [b]).
Proof. intros F r. apply Forall2_app; [exact F|constructor; [exact r|constructor]]. Qed.

Lemma Forall2_trans_same {A} (R : A -> spend -> Prop) l s1 s2 :
  (forall a x y, R a x -> same_but_ff x y -> R a y) ->
  Forall2 R l s1 -> Forall2 same_but_ff s1 s2 -> Forall2 R l s2.
Proof.
  intros T F. revert s2. induction F as [|a x l s1 r F IH]; intros s2 G; inversion G; subst; constructor; eauto.
Qed.

Section N.
  Variable valid_key : bytes -> bool.
  Variable H : bytes -> bytes.
  Variable K : consts.
  Variable fl : cflags.
  Variable cf : bool.

  Lemma run_spends_loop_rule l : forall done ret state cl cc fps ret' state' cl' fps',
    Forall2 flag_rule done (rev (b_spends_rev ret)) ->
    run_spends_loop valid_key H K fl cf l ret state cl cc fps = Ok (ret', state', cl', fps') ->
    Forall2 flag_rule (done ++ l) (rev (b_spends_rev ret')).
  Proof.
    induction l as [|[[[parent ph] amount] conds] r IH]; intros done ret state cl cc fps ret' state' cl' fps' F E.
    - cbn in E. inversion E; subst. rewrite app_nil_r. exact F.
    - cbn [run_spends_loop] in E.
      apply bind_ok in E. destruct E as [[[ret1 state1] cl1] [P E]].
      apply bind_ok in E. destruct E as [fp [_ E]].
      destruct (process_single_spend_pushes _ _ _ _ _ _ _ _ _ _ _ _ _ _ _ _ P) as [s S].
      replace (done ++ (parent, ph, amount, conds) :: r) with ((done ++ [(parent, ph, amount, conds)]) ++ r)
        by (rewrite <- app_assoc; reflexivity).
      eapply IH; [|exact E].
      rewrite S. cbn [rev]. apply Forall2_app_one; [exact F|].
      unfold flag_rule. cbn [snd]. intro D.
      assert (Hs : hd_error (b_spends_rev ret1) = Some s) by (rewrite S; reflexivity).
      exact (dedup_flag_sound _ _ _ _ _ _ _ _ _ _ _ _ _ _ _ _ P Hs D).
  Qed.

  (* the dedup-flag rule for every spend of an N-spend bundle, each against its own condition list *)
  Theorem bundle_flag_rule l mc cc b spends fps :
    run_spend_bundle valid_key H K fl cf l mc cc = Ok (b, spends, fps) -> Forall2 flag_rule l spends.
  Proof.
    unfold run_spend_bundle. intro E.
    apply bind_ok in E. destruct E as [[[[ret state] cl] fps0] [L E]].
    apply bind_ok in E. destruct E as [u [_ E]]. inversion E; subst; clear E.
    apply (run_spends_loop_rule l [] empty_bundle) in L; [|constructor].
    cbn [app] in L. rewrite fast_rev_rev.
    eapply Forall2_trans_same; [|exact L|exact (post_process_same H VMempool (rev (b_spends_rev b)) state)].
    intros a x y R [Hd [Ha Hc]]. unfold flag_rule in *. intro D. rewrite <- Hd in D.
    destruct (R D) as [A B]. split; [exact A|]. unfold sum_created in *. rewrite <- Ha, <- Hc. exact B.
  Qed.
End N.
