(* Mempool/FastForwardProofs.v — proofs about the fast_forward_singleton mirror (property C19):
   parse inversion (an accepted puzzle IS the curried singleton tree), the u64 codec round trip
   (lenient decode / canonical encode, via Clvm/Ints), the exact characterisation ff_iff of
   acceptance, and the clauses (a)-(d) derived from it. *)
From Coq Require Import Lia.
From ChiaV.Base Require Import Bytes.
From ChiaV.Clvm Require Import Sexp Ints TreeHash IntsProofs LadderProofs.
From ChiaV.Gen Require Import Ladders CurryFF.
From ChiaV.Mempool Require Import FastForward.
Open Scope N_scope.


Lemma match_byte_inv B t : match_byte B t = true -> t = Atom [B].
Proof.
  destruct t as [[|x [|y r]]|]; cbn; try discriminate.
  intro E. destruct (byte_eqb_spec x B); [subst; reflexivity|discriminate].
Qed.

Lemma match_nil_inv t : match_nil t = true -> t = nil.
Proof. destruct t as [[|x r]|]; cbn; try discriminate. reflexivity. Qed.

Lemma decode_bytes32_inv t b : decode_bytes32 t = Some b -> t = Atom b /\ length b = 32%nat.
Proof.
  destruct t as [a|]; cbn; try discriminate.
  destruct (Nat.eqb (length a) 32) eqn:E; try discriminate.
  intro X; inversion X; subst. split; [reflexivity|now apply Nat.eqb_eq].
Qed.

Lemma decode_curried_arg_inv t f r : decode_curried_arg t = Some (f, r) ->
  t = Pair (Atom [x04]) (Pair (Pair (Atom [x01]) f) (Pair r nil)).
Proof.
  unfold decode_curried_arg.
  destruct t as [|op [|[|q first] [|rest term]]]; try discriminate.
  destruct (match_byte x04 op) eqn:E1; cbn; try discriminate.
  destruct (match_byte x01 q) eqn:E2; cbn; try discriminate.
  destruct (match_nil term) eqn:E3; cbn; try discriminate.
  intro X; inversion X; subst.
  apply match_byte_inv in E1, E2. apply match_nil_inv in E3. now subst.
Qed.

Definition singleton_tree (program inner : sexp) (mh lid lph : bytes) : sexp :=
  Pair (Atom [x02]) (Pair (Pair (Atom [x01]) program)
   (Pair (Pair (Atom [x04]) (Pair (Pair (Atom [x01]) (Pair (Atom mh) (Pair (Atom lid) (Atom lph))))
      (Pair (Pair (Atom [x04]) (Pair (Pair (Atom [x01]) inner) (Pair (Atom [x01]) nil))) nil))) nil)).

Lemma parse_singleton_inv t program mh lid lph inner :
  parse_singleton t = Some (program, (mh, lid, lph), inner) ->
  t = singleton_tree program inner mh lid lph /\ length mh = 32%nat /\ length lid = 32%nat /\ length lph = 32%nat.
Proof.
  unfold parse_singleton, decode_curried_program.
  destruct t as [|op [|[|q prog] [|args term]]]; try discriminate.
  destruct (match_byte x02 op) eqn:E1; cbn [andb]; try discriminate.
  destruct (match_byte x01 q) eqn:E2; cbn [andb]; try discriminate.
  destruct (match_nil term) eqn:E3; cbn [andb]; try discriminate.
  unfold parse_args.
  destruct (decode_curried_arg args) as [[f0 n1]|] eqn:A1; try discriminate.
  destruct (decode_curried_arg n1) as [[f1 n2]|] eqn:A2; try discriminate.
  destruct (match_byte x01 n2) eqn:E4; try discriminate.
  destruct (parse_struct f0) as [[[a b] c]|] eqn:S; try discriminate.
  intro X; inversion X; subst.
  unfold parse_struct in S.
  destruct f0 as [|sa [|sb sc]]; try discriminate.
  destruct (decode_bytes32 sa) eqn:D1; try discriminate.
  destruct (decode_bytes32 sb) eqn:D2; try discriminate.
  destruct (decode_bytes32 sc) eqn:D3; try discriminate.
  inversion S; subst.
  apply decode_bytes32_inv in D1, D2, D3. destruct D1, D2, D3.
  apply match_byte_inv in E1, E2, E4. apply match_nil_inv in E3.
  apply decode_curried_arg_inv in A1, A2. subst. repeat split; assumption.
Qed.

Section P.
  Variable H : bytes -> bytes.
  Variable MOD_HASH : bytes.
  Lemma th_singleton_tree program inner mh lid lph :
    th H (singleton_tree program inner mh lid lph)
    = curried2_hash H (th H program) (struct_hash H mh lid lph) (th H inner).
  Proof. reflexivity. Qed.

  Lemma th_singleton_curry_hash program inner mh lid lph :
    th H program = mh ->
    th H (singleton_tree program inner mh lid lph) = curry_hash H (th H inner) mh lid lph.
  Proof. intros <-. reflexivity. Qed.

  Theorem ff_shared_eq puzzle solution c nc np :
    fast_forward_singleton_shared H MOD_HASH puzzle solution c nc np
    = fast_forward_singleton H MOD_HASH puzzle solution c nc np.
  Proof.
    unfold fast_forward_singleton_shared, fast_forward_singleton, ff_head.
    destruct (_ || _ || _); [reflexivity|].
    destruct (_ || _); [reflexivity|].
    destruct (parse_singleton puzzle) as [[[program [[mh lid] lph]] inner]|] eqn:PS; [|reflexivity].
    destruct (parse_solution solution) as [[[[pp piph pa|pp pa] amount] isol]|]; try reflexivity.
    destruct (negb (bytes_eqb mh MOD_HASH)); [reflexivity|].
    apply parse_singleton_inv in PS. destruct PS as [-> _].
    cbv zeta. rewrite th_singleton_tree. reflexivity.
  Qed.
End P.

(* ---------- u64 codec ---------- *)

(* ---------- u64 codec ---------- *)
Lemma b2n_x00 : b2n x00 = 0. Proof. reflexivity. Qed.

Lemma byte_eqb_x00 b : byte_eqb b x00 = (b2n b =? 0).
Proof. reflexivity. Qed.

Lemma skip_pad_zero_value s : be2n (skip_pad x00 s) = be2n s.
Proof.
  induction s as [|b r IH]; [reflexivity|]. cbn [skip_pad]. rewrite byte_eqb_x00.
  destruct (N.eqb_spec (b2n b) 0) as [E|E]; [|reflexivity].
  rewrite IH, (be2n_cons b r), E. lia.
Qed.

Lemma skip_pad_zero_head s : match skip_pad x00 s with [] => True | b :: _ => b2n b <> 0 end.
Proof.
  induction s as [|b r IH]; [exact I|]. cbn [skip_pad]. rewrite byte_eqb_x00.
  destruct (N.eqb_spec (b2n b) 0) as [E|E]; [exact IH|exact E].
Qed.

(* the unsigned encoder produces the canonical form of the value *)
Lemma encode_number_unsigned_canon s : encode_number s false = canon_n (be2n s).
Proof.
  unfold encode_number. rewrite <- (skip_pad_zero_value s).
  pose proof (skip_pad_zero_head s) as Hh.
  destruct (skip_pad x00 s) as [|b r] eqn:E; [reflexivity|].
  pose proof (b2n_lt b) as Hb.
  destruct (N.leb_spec 128 (b2n b)) as [G|G].
  - symmetry. rewrite <- (canon_n_unique (x00 :: b :: r)).
    + f_equal.
    + cbn. destruct (N.ltb_spec (b2n b) 128); [lia|reflexivity].
    + cbn. lia.
  - symmetry. apply canon_n_unique; [|exact G].
    cbn. destruct r as [|c r'].
    + destruct (N.eqb_spec (b2n b) 0); [contradiction|reflexivity].
    + destruct (N.eqb_spec (b2n b) 0); [contradiction|].
      destruct (N.eqb_spec (b2n b) 255); [lia|reflexivity].
Qed.

Lemma encode_u64_canon v : v < 2 ^ 64 -> encode_u64 v = canon_n v.
Proof.
  intro Hv. unfold encode_u64. rewrite encode_number_unsigned_canon.
  rewrite be2n_n2be; [reflexivity|]. change (256 ^ N.of_nat 8) with (2 ^ 64). exact Hv.
Qed.

Lemma repeat_zero_be2n k s : be2n (repeat_byte k x00 ++ s) = be2n s.
Proof.
  rewrite be2n_app. rewrite <- n2be_zero. rewrite be2n_n2be; [lia|].
  apply N.neq_0_lt_0, N.pow_nonzero. lia.
Qed.

(* lenient decoder on a short non-negative string: zero-extend *)
Lemma decode_number8_short s : (length s <= 8)%nat -> match s with [] => True | b :: _ => b2n b < 128 end ->
  decode_number 8 false s = Some (repeat_byte (8 - length s) x00 ++ s).
Proof.
  intros L Hh. destruct s as [|b r]; [reflexivity|].
  unfold decode_number. destruct (N.leb_spec 128 (b2n b)); [lia|]. cbn [negb andb].
  unfold strip_pad. destruct (Nat.ltb_spec 8 (length (b :: r))); [lia|]. cbn [andb].
  destruct (Nat.ltb_spec 8 (length (b :: r))); [lia|]. reflexivity.
Qed.

Lemma decode_number8_pad s : length s = 8%nat -> decode_number 8 false (x00 :: s) = Some s.
Proof.
  intro L. do 9 (destruct s as [|? s]; try discriminate). reflexivity.
Qed.

Lemma decode_u64_canon v : v < 2 ^ 64 -> decode_u64 (Atom (canon_n v)) = Some v.
Proof.
  intro Hv. unfold decode_u64.
  destruct (N.lt_ge_cases v (2 ^ 63)) as [Lo|Hi].
  - rewrite decode_number8_short.
    + cbn [option_map]. rewrite repeat_zero_be2n, be2n_canon_n. reflexivity.
    + apply (canon_n_length_le v 8); [lia|exact Lo].
    + apply canon_n_nonneg.
  - rewrite (canon_n_bounds v 63 64 9) by (try exact Hi; try exact Hv; reflexivity).
    change (N.to_nat 9) with (1 + 8)%nat. rewrite n2be_pad by (change (256 ^ N.of_nat 8) with (2 ^ 64); exact Hv).
    cbn [repeat_byte app]. rewrite decode_number8_pad by apply n2be_length.
    cbn [option_map]. rewrite be2n_n2be; [reflexivity|]. change (256 ^ N.of_nat 8) with (2 ^ 64). exact Hv.
Qed.

Lemma decode_u64_encode v : v < 2 ^ 64 -> decode_u64 (Atom (encode_u64 v)) = Some v.
Proof. intro Hv. rewrite encode_u64_canon by exact Hv. now apply decode_u64_canon. Qed.

(* ---------- exact characterisation ---------- *)

Lemma negb_bytes_eqb_false a b : negb (bytes_eqb a b) = false <-> a = b.
Proof. rewrite Bool.negb_false_iff. apply bytes_eqb_eq. Qed.

Section P.
  Variable H : bytes -> bytes.
  Variable MOD_HASH : bytes.

  Theorem ff_iff puzzle solution c nc np sol' :
    fast_forward_singleton H MOD_HASH puzzle solution c nc np = FfOk sol'
    <-> ff_accepts H MOD_HASH puzzle solution c nc np sol'.
  Proof.
    unfold fast_forward_singleton, ff_head, ff_tail, ff_accepts. split.
    - intro E.
      destruct (N.even (coin_amount c)) eqn:P1; [discriminate|].
      destruct (N.even (coin_amount np)) eqn:P2; [discriminate|].
      destruct (N.even (coin_amount nc)) eqn:P3; [discriminate|]. cbn [orb] in E.
      destruct (negb (bytes_eqb (coin_ph c) (coin_ph np))) eqn:Q1; [discriminate|].
      destruct (negb (bytes_eqb (coin_ph c) (coin_ph nc))) eqn:Q2; [discriminate|]. cbn [orb] in E.
      destruct (parse_singleton puzzle) as [[[program [[mh lid] lph]] inner]|] eqn:PS; [|discriminate].
      destruct (parse_solution solution) as [[[[pp piph pa|pp pa] amount] isol]|] eqn:PSol; try discriminate.
      destruct (negb (bytes_eqb mh MOD_HASH)) eqn:M1; [discriminate|].
      destruct (negb (bytes_eqb (th H program) MOD_HASH)) eqn:M2; [discriminate|].
      destruct (negb (coin_amount c =? amount)) eqn:A; [discriminate|].
      cbv zeta in E.
      destruct (negb (bytes_eqb (coin_id H _) (coin_parent c))) eqn:PC; [discriminate|].
      destruct (negb (bytes_eqb (th H inner) piph)) eqn:I; [discriminate|].
      destruct (negb (bytes_eqb (th H puzzle) (coin_ph np))) eqn:Z1; [discriminate|].
      destruct (negb (bytes_eqb (th H puzzle) (coin_ph c))) eqn:Z2; [discriminate|]. cbn [orb] in E.
      destruct (negb (bytes_eqb (coin_parent nc) (coin_id H np))) eqn:CM; [discriminate|].
      inversion E; subst sol'; clear E.
      apply negb_bytes_eqb_false in Q1, Q2, M1, M2, PC, I, Z1, Z2, CM.
      apply Bool.negb_false_iff, N.eqb_eq in A. subst mh amount.
      rewrite <- N.negb_even. rewrite <- (N.negb_even (coin_amount np)), <- (N.negb_even (coin_amount nc)).
      rewrite P1, P2, P3.
      exists program, lid, lph, inner, pp, piph, pa, isol. repeat split; try assumption; try reflexivity.
    - intros [program [lid [lph [inner [pp [piph [pa [isol
        [O1 [O2 [O3 [Q1 [Q2 [PS [M2 [PSol [PC [I [Z [CM ->]]]]]]]]]]]]]]]]]]]].
      rewrite <- N.negb_even in O1, O2, O3. apply Bool.negb_true_iff in O1, O2, O3.
      rewrite O1, O2, O3. cbn [orb].
      rewrite <- Q1, <- Q2, bytes_eqb_refl. cbn [negb orb].
      rewrite PS, PSol. rewrite bytes_eqb_refl. cbn [negb].
      rewrite M2, bytes_eqb_refl. cbn [negb]. rewrite N.eqb_refl. cbn [negb]. cbv zeta.
      rewrite PC, bytes_eqb_refl. cbn [negb]. rewrite I, bytes_eqb_refl. cbn [negb].
      rewrite Z, bytes_eqb_refl. cbn [negb orb]. rewrite CM, bytes_eqb_refl. reflexivity.
  Qed.
End P.

(* ---------- clauses ---------- *)

Lemma decode_bytes32_atom b x : decode_bytes32 (Atom b) = Some x -> x = b /\ length b = 32%nat.
Proof. intro E. apply decode_bytes32_inv in E. destruct E as [E L]. inversion E; subst; auto. Qed.

Lemma decode_bytes32_ok b : length b = 32%nat -> decode_bytes32 (Atom b) = Some b.
Proof. intro L. cbn. rewrite L. reflexivity. Qed.

Section P.
  Variable H : bytes -> bytes.
  Variable MOD_HASH : bytes.
  Notation ff := (fast_forward_singleton H MOD_HASH).

  (* (d) every refusal condition is necessary: anything that is not such a spend is refused *)
  Theorem ff_refuses_everything_else puzzle solution c nc np :
    (forall sol', ~ ff_accepts H MOD_HASH puzzle solution c nc np sol') ->
    exists e, ff puzzle solution c nc np = FfErr e.
  Proof.
    intro N. destruct (ff puzzle solution c nc np) as [s|e] eqn:E; [|eauto].
    exfalso. apply (N s). apply ff_iff. exact E.
  Qed.

  (* the rewritten solution is always in encoded (canonical) form, built from the parsed fields *)
  Theorem ff_normalises puzzle solution c nc np sol' :
    ff puzzle solution c nc np = FfOk sol' ->
    coin_amount np < 2 ^ 64 -> coin_amount nc < 2 ^ 64 -> length (coin_parent np) = 32%nat ->
    exists pp piph pa isol,
      parse_solution solution = Some (Lineage pp piph pa, coin_amount c, isol) /\
      sol' = canonical_solution (coin_parent np) piph (coin_amount np) (coin_amount nc) isol /\
      (* the fields the singleton layer and the inner puzzle read survive a re-parse unchanged *)
      parse_solution sol' = Some (Lineage (coin_parent np) piph (coin_amount np), coin_amount nc, isol).
  Proof.
    intros E B1 B2 L. apply ff_iff in E.
    destruct E as [program [lid [lph [inner [pp [piph [pa [isol
        [O1 [O2 [O3 [Q1 [Q2 [PS [M2 [PSol [PC [I [Z [CM ->]]]]]]]]]]]]]]]]]]]].
    exists pp, piph, pa, isol. split; [exact PSol|].
    assert (Lp : length piph = 32%nat).
    { unfold parse_solution in PSol. destruct solution as [|p [|a [|i t]]]; try discriminate.
      unfold parse_proof in PSol. destruct (parse_lineage p) as [[[x y] z]|] eqn:PL.
      - destruct (decode_u64 a); [|discriminate]. inversion PSol; subst.
        unfold parse_lineage in PL. destruct p as [|pa0 [|pb [|pc ?]]]; try discriminate.
        destruct (decode_bytes32 pa0); [|discriminate]. destruct (decode_bytes32 pb) eqn:DB; [|discriminate].
        destruct (decode_u64 pc); [|discriminate]. inversion PL; subst.
        apply decode_bytes32_inv in DB. apply DB.
      - destruct (parse_eve p) as [[? ?]|]; [|discriminate]. destruct (decode_u64 a); discriminate. }
    unfold encode_solution, encode_lineage, canonical_solution.
    rewrite !encode_u64_canon by assumption. split; [reflexivity|].
    unfold parse_solution, parse_proof, parse_lineage.
    rewrite (decode_bytes32_ok _ L), (decode_bytes32_ok _ Lp), !decode_u64_canon by assumption. reflexivity.
  Qed.

  (* (a) for a solution in canonical form only the three fields change *)
  Theorem ff_canonical_three_fields puzzle c nc np sol' pp piph pa amount isol :
    ff puzzle (canonical_solution pp piph pa amount isol) c nc np = FfOk sol' ->
    coin_amount np < 2 ^ 64 -> coin_amount nc < 2 ^ 64 ->
    sol' = canonical_solution (coin_parent np) piph (coin_amount np) (coin_amount nc) isol.
  Proof.
    intros E B1 B2. apply ff_iff in E.
    destruct E as [program [lid [lph [inner [pp0 [piph0 [pa0 [isol0
        [O1 [O2 [O3 [Q1 [Q2 [PS [M2 [PSol [PC [I [Z [CM ->]]]]]]]]]]]]]]]]]]]].
    unfold canonical_solution, parse_solution, parse_proof, parse_lineage in PSol.
    destruct (decode_bytes32 (Atom pp)) eqn:D1.
    2:{ destruct (parse_eve _) as [[? ?]|]; [|discriminate]. destruct (decode_u64 (Atom (canon_n amount))); discriminate. }
    destruct (decode_bytes32 (Atom piph)) eqn:D2.
    2:{ destruct (parse_eve _) as [[? ?]|]; [|discriminate]. destruct (decode_u64 (Atom (canon_n amount))); discriminate. }
    destruct (decode_u64 (Atom (canon_n pa))) eqn:D3.
    2:{ destruct (parse_eve _) as [[? ?]|]; [|discriminate]. destruct (decode_u64 (Atom (canon_n amount))); discriminate. }
    destruct (decode_u64 (Atom (canon_n amount))); [|discriminate].
    inversion PSol; subst. apply decode_bytes32_atom in D2. destruct D2 as [-> _].
    unfold encode_solution, encode_lineage, canonical_solution.
    rewrite !encode_u64_canon by assumption. reflexivity.
  Qed.

  (* (b) what the singleton layer will assert when run on the rewritten solution is the new coin *)
  Theorem ff_asserts_new_coin puzzle solution c nc np sol' :
    ff puzzle solution c nc np = FfOk sol' ->
    coin_amount np < 2 ^ 64 -> coin_amount nc < 2 ^ 64 ->
    exists program lid lph inner,
      parse_singleton puzzle = Some (program, (MOD_HASH, lid, lph), inner) /\
      th H puzzle = coin_ph nc /\
      asserted_parent_id H MOD_HASH lid lph sol' = Some (coin_parent nc) /\
      asserted_amount sol' = Some (canon_n (coin_amount nc)).
  Proof.
    intros E B1 B2. apply ff_iff in E.
    destruct E as [program [lid [lph [inner [pp [piph [pa [isol
        [O1 [O2 [O3 [Q1 [Q2 [PS [M2 [PSol [PC [I [Z [CM ->]]]]]]]]]]]]]]]]]]]].
    exists program, lid, lph, inner. split; [exact PS|]. split; [congruence|].
    unfold asserted_parent_id, asserted_amount, encode_solution, encode_lineage. cbn [puzzle_reads].
    rewrite !encode_u64_canon by assumption. split; [|reflexivity].
    rewrite CM. unfold coin_id. f_equal. f_equal.
    rewrite coin_amount_bytes_canon by assumption. f_equal.
    rewrite <- Q1, <- Z.
    destruct (parse_singleton_inv _ _ _ _ _ _ PS) as [-> _].
    rewrite (th_singleton_curry_hash H _ _ _ _ _ M2). rewrite I. reflexivity.
  Qed.

  (* (c) the inner solution handed to the inner puzzle is the same node; the puzzle is not touched at all *)
  Theorem ff_inner_untouched puzzle solution c nc np sol' :
    ff puzzle solution c nc np = FfOk sol' ->
    exists lp amount isol rest,
      solution = Pair lp (Pair amount (Pair isol rest)) /\ inner_solution_of sol' = Some isol.
  Proof.
    intro E. apply ff_iff in E.
    destruct E as [program [lid [lph [inner [pp [piph [pa [isol
        [O1 [O2 [O3 [Q1 [Q2 [PS [M2 [PSol [PC [I [Z [CM ->]]]]]]]]]]]]]]]]]]]].
    unfold parse_solution in PSol. destruct solution as [|p [|a [|i t]]]; try discriminate.
    destruct (parse_proof p); [|discriminate]. destruct (decode_u64 a); [|discriminate].
    inversion PSol; subst. exists p, a, isol, t. split; reflexivity.
  Qed.
End P.


Section P.
  Variable H : bytes -> bytes.
  Variable MOD_HASH : bytes.
  Notation ff := (fast_forward_singleton H MOD_HASH).

  (* (a), strict form: when both lists of the solution are nil-terminated (integers may even be
     non-canonical), the result is the original tree with exactly the three atoms replaced *)
  Theorem ff_proper_lists_three_fields puzzle c nc np sol' a b d e isol :
    ff puzzle (Pair (Pair a (Pair b (Pair d nil))) (Pair e (Pair isol nil))) c nc np = FfOk sol' ->
    coin_amount np < 2 ^ 64 -> coin_amount nc < 2 ^ 64 ->
    patch_three_fields (Pair (Pair a (Pair b (Pair d nil))) (Pair e (Pair isol nil)))
                       (coin_parent np) (canon_n (coin_amount np)) (canon_n (coin_amount nc)) = Some sol'.
  Proof.
    intros E B1 B2. apply ff_iff in E.
    destruct E as [program [lid [lph [inner [pp0 [piph0 [pa0 [isol0
        [O1 [O2 [O3 [Q1 [Q2 [PS [M2 [PSol [PC [I [Z [CM ->]]]]]]]]]]]]]]]]]]]].
    unfold parse_solution, parse_proof, parse_lineage in PSol.
    destruct (decode_bytes32 a) eqn:D1.
    2:{ destruct (parse_eve _) as [[? ?]|]; [|discriminate]. destruct (decode_u64 e); discriminate. }
    destruct (decode_bytes32 b) eqn:D2.
    2:{ destruct (parse_eve _) as [[? ?]|]; [|discriminate]. destruct (decode_u64 e); discriminate. }
    destruct (decode_u64 d) eqn:D3.
    2:{ destruct (parse_eve _) as [[? ?]|]; [|discriminate]. destruct (decode_u64 e); discriminate. }
    destruct (decode_u64 e); [|discriminate].
    inversion PSol; subst. apply decode_bytes32_inv in D2. destruct D2 as [-> _].
    unfold patch_three_fields, encode_solution, encode_lineage.
    rewrite !encode_u64_canon by assumption. reflexivity.
  Qed.
End P.
