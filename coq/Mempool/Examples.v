(* Mempool/Examples.v — closed examples for C19 (H instantiated with the Gallina SHA-256, facts by vm_compute):
   non-vacuity of the theorems' hypotheses, and the witness refuting the strict "only three fields"
   reading for solutions with trailing material (F-C19-1). *)
From Coq Require Import Lia.
From ChiaV.Base Require Import Bytes Sha256.
From ChiaV.Clvm Require Import Sexp Ints TreeHash.
From ChiaV.Gen Require Import Opcodes Ladders CurryFF.
From ChiaV.Cond Require Import Model.
From ChiaV.Mempool Require Import FastForward Fingerprint Dedup.
Open Scope N_scope.

(* ---- non-vacuity: a concrete accepted fast-forward (tiny stand-in for the mod; H = SHA-256) ---- *)
Definition ex_program : sexp := Atom [x01].
Definition ex_mod_hash : bytes := th sha256 ex_program.
Definition ex_lid : bytes := repeat_byte 32 x11.
Definition ex_lph : bytes := repeat_byte 32 x22.
Definition ex_inner : sexp := Pair (Atom [x01]) nil.
Definition ex_puzzle : sexp :=
  Pair (Atom [x02]) (Pair (Pair (Atom [x01]) ex_program)
   (Pair (Pair (Atom [x04]) (Pair (Pair (Atom [x01]) (Pair (Atom ex_mod_hash) (Pair (Atom ex_lid) (Atom ex_lph))))
      (Pair (Pair (Atom [x04]) (Pair (Pair (Atom [x01]) ex_inner) (Pair (Atom [x01]) nil))) nil))) nil)).
Definition ex_pp : bytes := repeat_byte 32 x33.
Definition ex_ph : bytes := th sha256 ex_puzzle.
Definition ex_coin : coin :=
  mkcoin (coin_id sha256 (mkcoin ex_pp (curry_hash sha256 (th sha256 ex_inner) ex_mod_hash ex_lid ex_lph) 1)) ex_ph 1.
Definition ex_new_parent : coin := mkcoin (repeat_byte 32 x44) ex_ph 3.
Definition ex_new_coin : coin := mkcoin (coin_id sha256 ex_new_parent) ex_ph 5.
(* a non-canonical solution: redundant zero in parent_amount, trailing material in both lists *)
Definition ex_solution : sexp :=
  Pair (Pair (Atom ex_pp) (Pair (Atom (th sha256 ex_inner)) (Pair (Atom [x00; x01]) (Pair (Atom [x77]) nil))))
       (Pair (Atom [x01]) (Pair (Atom [x55]) (Atom [x66]))).

Example ff_accepts_satisfiable :
  fast_forward_singleton sha256 ex_mod_hash ex_puzzle ex_solution ex_coin ex_new_coin ex_new_parent
  = FfOk (canonical_solution (repeat_byte 32 x44) (th sha256 ex_inner) 3 5 (Atom [x55])).
Proof. vm_compute. reflexivity. Qed.

(* ---- non-vacuity of the dedup theorems ---- *)
Definition ex_flags : cflags :=
  {| f_no_unknown := true; f_strict := true; f_cost_conds := false; f_limit_spends := true; f_dont_validate := true |}.
Definition ex_consts : consts :=
  {| c_me := [x01]; c_parent := [x02]; c_puzzle := [x03]; c_amount := [x04]; c_puzzle_amount := [x05];
     c_parent_amount := [x06]; c_parent_puzzle := [x07] |}.
Definition ex_cc (memos : list sexp) : sexp :=
  Pair (Atom [x33]) (Pair (Atom (repeat_byte 32 x99)) (Pair (Atom [x07]) (list_to_sexp memos))).
(* CREATE_COIN without memos  vs  with an empty-atom hint: different trees, same fingerprint stream *)
Definition ex_conds1 : sexp := list_to_sexp [ex_cc []].
Definition ex_conds2 : sexp := list_to_sexp [ex_cc [list_to_sexp [nil]]].
Definition ex_run (conds : sexp) :=
  process_single_spend (fun _ => true) sha256 ex_consts ex_flags VMempool empty_bundle empty_state
                       (Atom (repeat_byte 32 xaa)) (Atom (repeat_byte 32 xbb)) (Atom [x07]) conds 11000000000 0.

Example dedup_hypotheses_satisfiable :
  ex_conds1 <> ex_conds2 /\
  fp_stream ex_conds1 = fp_stream ex_conds2 /\
  (exists r, ex_run ex_conds1 = Ok r /\ ex_run ex_conds2 = Ok r /\
             match b_spends_rev (fst (fst r)) with s :: _ => sp_dedup s = true | [] => False end).
Proof.
  split; [discriminate|]. split; [vm_compute; reflexivity|].
  eexists. split; [vm_compute; reflexivity|]. split; vm_compute; reflexivity.
Qed.

(* ---- F-C19-1: the strict reading fails on a solution with trailing material / a redundant zero ---- *)
Theorem ff_three_fields_only_refuted :
  exists H M puzzle solution c nc np sol',
    fast_forward_singleton H M puzzle solution c nc np = FfOk sol' /\
    patch_three_fields solution (coin_parent np) (canon_n (coin_amount np)) (canon_n (coin_amount nc)) <> Some sol'.
Proof.
  exists sha256, ex_mod_hash, ex_puzzle, ex_solution, ex_coin, ex_new_coin, ex_new_parent.
  eexists. split; [exact ff_accepts_satisfiable|]. vm_compute. intro X. inversion X.
Qed.
