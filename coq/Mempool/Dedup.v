(* Mempool/Dedup.v — definitions for the dedup half of C19, over the conditions mirror Cond/Model.v:
     * the fingerprint step of run_spendbundle (spendbundle_conditions.rs): computed right after
       process_single_spend::<MempoolVisitor>, only when the spend is still ELIGIBLE_FOR_DEDUP and
       COMPUTE_FINGERPRINT is set; a fingerprint error rejects the bundle
     * the stateless part of parse_conditions (opcode + parse_args per list element) and the stateful
       rest as a fold over its results (used to state "identical parsed conditions")
     * the frame view of the fingerprint stream: one frame (opcode atom :: argument atoms) per known
       condition, fixed arity per opcode
   Definitions only. *)
From ChiaV.Base Require Import Bytes.
From ChiaV.Clvm Require Import Sexp Ints.
From ChiaV.Gen Require Import Opcodes Ladders.
From ChiaV.Cond Require Import Model.
From ChiaV.Mempool Require Import Fingerprint.
Open Scope N_scope.

(* ---------- run_spendbundle, one coin spend whose puzzle returned `conditions` ---------- *)
Section Bundle.
  Variable valid_key : bytes -> bool.
  Variable H : bytes -> bytes.
  Variable K : consts.
  Variable fl : cflags.
  Variable compute_fingerprint : bool.          (* ConsensusFlags::COMPUTE_FINGERPRINT *)

  (* the spend just pushed by process_single_spend is the head of b_spends_rev *)
  Definition fingerprint_step (ret : bundle) (conditions : sexp) : res (option bytes) :=
    match b_spends_rev ret with
    | s :: _ =>
        if sp_dedup s && compute_fingerprint then
          fp <- compute_puzzle_fingerprint H conditions ;; Ok (Some fp)
        else Ok None
    | [] => Ok None
    end.

  (* a bundle with ONE coin spend (parent, puzzle_hash, amount) whose puzzle output is `conditions`:
     process_single_spend::<MempoolVisitor>, fingerprint, post_process, validate_conditions.
     Returns the summary, the spend and its fingerprint (None = not computed). *)
  Definition run_single_spend_bundle (parent ph : bytes) (amount : N) (conditions : sexp)
             (max_cost clvm_cost : N) : res (bundle * list spend * option bytes) :=
    '(ret, state, cost_left) <-
      process_single_spend valid_key H K fl VMempool empty_bundle empty_state
                           (Atom parent) (Atom ph) (Atom (canon_n amount)) conditions max_cost clvm_cost ;;
    fp <- fingerprint_step ret conditions ;;
    let spends1 := post_process H VMempool (fast_rev (b_spends_rev ret)) state in
    _ <- validate_conditions H ret spends1 state ;;
    Ok (ret, spends1, fp).

  (* the general loop of run_spendbundle over coin spends (parent, puzzle_hash, amount, puzzle output) *)
  Fixpoint run_spends_loop (l : list (bytes * bytes * N * sexp)) (ret : bundle) (state : pstate) (cost_left clvm_cost : N)
           (fps_rev : list (option bytes)) : res (bundle * pstate * N * list (option bytes)) :=
    match l with
    | [] => Ok (ret, state, cost_left, fast_rev fps_rev)
    | (parent, ph, amount, conditions) :: r =>
        '(ret1, state1, cost1) <-
          process_single_spend valid_key H K fl VMempool ret state
                               (Atom parent) (Atom ph) (Atom (canon_n amount)) conditions cost_left clvm_cost ;;
        fp <- fingerprint_step ret1 conditions ;;
        run_spends_loop r ret1 state1 cost1 clvm_cost (fp :: fps_rev)
    end.

  Definition run_spend_bundle (l : list (bytes * bytes * N * sexp)) (max_cost clvm_cost : N)
    : res (bundle * list spend * list (option bytes)) :=
    '(ret, state, cost_left, fps) <- run_spends_loop l empty_bundle empty_state max_cost clvm_cost [] ;;
    let spends1 := post_process H VMempool (fast_rev (b_spends_rev ret)) state in
    _ <- validate_conditions H ret spends1 state ;;
    Ok (ret, spends1, fps).
End Bundle.

(* ---------- the stateless part of parse_conditions ---------- *)
(* one list element: None = unknown opcode (ignored), Some (op, parsed condition) otherwise.
   Mirrors the prefix of Cond.Model.process_condition that does not touch the state. *)
Definition parsed_condition (fl : cflags) (c : sexp) : res (option (N * condition)) :=
  f <- first c ;;
  match parse_opcode f with
  | None => if f_no_unknown fl then Err InvalidConditionOpcode else Ok None
  | Some op => c1 <- rest c ;; cva <- parse_args fl c1 op ;; Ok (Some (op, cva))
  end.

Fixpoint parsed_conditions (fl : cflags) (iter : sexp) : res (list (option (N * condition))) :=
  match iter with
  | Pair c nxt => p <- parsed_condition fl c ;; r <- parsed_conditions fl nxt ;; Ok (p :: r)
  | Atom [] => Ok []
  | Atom _ => Err InvalidCondition
  end.

(* opcodes of the known conditions of a list, in order (no validation) *)
Fixpoint known_ops (iter : sexp) : list N :=
  match iter with
  | Pair c nxt =>
      match c with
      | Pair f _ => match parse_opcode f with Some op => op :: known_ops nxt | None => known_ops nxt end
      | Atom _ => known_ops nxt
      end
  | Atom _ => []
  end.

Definition is_message_op (op : N) : bool := (op =? SEND_MESSAGE) || (op =? RECEIVE_MESSAGE).

(* the stateful rest of parse_conditions as a fold over the parsed list *)
Section Run.
  Variable valid_key : bytes -> bool.
  Variable K : consts.
  Variable fl : cflags.
  Variable V : visitor.

  Definition run_parsed_one (p : option (N * condition)) (st : lstate) : res lstate :=
    match p with
    | None => if f_cost_conds fl then charge st GENERIC_CONDITION_COST else Ok st
    | Some (op, cva) => st1 <- precharge fl st op ;; apply_condition valid_key K fl (visit V st1 cva) cva
    end.

  Fixpoint run_parsed (l : list (option (N * condition))) (st : lstate) : res lstate :=
    match l with
    | [] => Ok st
    | p :: r => st' <- run_parsed_one p st ;; run_parsed r st'
    end.
End Run.

(* ---------- frames ---------- *)
Definition frame := list bytes.

Definition enc_frame (f : frame) : bytes := concat (map enc_atom f).
Definition enc_frames (l : list frame) : bytes := concat (map enc_frame l).

(* number of atoms of the frame that starts with this opcode atom (0 = not fingerprintable) *)
Definition frame_arity (op_atom : bytes) : nat :=
  match parse_opcode (Atom op_atom) with
  | None => 0
  | Some op =>
      if op =? CREATE_COIN then 4
      else if fp_one_arg op then 2
      else if fp_no_arg op then 1
      else 0
  end.

Definition wf_frame (f : frame) : Prop :=
  match f with
  | [] => False
  | op :: _ => length f = frame_arity op /\ Forall (fun a => N.of_nat (length a) < 2 ^ 32) f
  end.

(* the hint atom CREATE_COIN contributes (empty when absent / not an atom / longer than 32 bytes) *)
Definition hint_atom (rest : sexp) : bytes :=
  match rest with
  | Pair (Pair (Atom h) _) _ => if Nat.leb (length h) 32 then h else []
  | _ => []
  end.

(* the frame of one list element: None = unknown opcode *)
Definition cond_frame (c : sexp) : res (option frame) :=
  f <- first c ;;
  match parse_opcode f with
  | None => Ok None
  | Some op =>
      if op =? CREATE_COIN then
        match c with
        | Pair (Atom a0) (Pair (Atom a1) (Pair (Atom a2) rest)) => Ok (Some [a0; a1; a2; hint_atom rest])
        | _ => Err InvalidCondition
        end
      else if fp_one_arg op then
        match c with
        | Pair (Atom a0) (Pair (Atom a1) _) => Ok (Some [a0; a1])
        | _ => Err InvalidCondition
        end
      else if fp_no_arg op then
        match c with
        | Pair (Atom a0) _ => Ok (Some [a0])
        | _ => Err InvalidCondition
        end
      else Err InvalidConditionOpcode
  end.

Fixpoint fp_frames (iter : sexp) : res (list frame) :=
  match iter with
  | Pair c nxt =>
      p <- cond_frame c ;; r <- fp_frames nxt ;;
      Ok (match p with Some f => f :: r | None => r end)
  | Atom _ => Ok []
  end.

(* every atom of the tree is shorter than 2^32 bytes (clvmr atoms are addressed with u32 offsets) *)
Fixpoint small_atoms (t : sexp) : Prop :=
  match t with
  | Atom b => N.of_nat (length b) < 2 ^ 32
  | Pair l r => small_atoms l /\ small_atoms r
  end.

Definition sum_created (s : spend) : N := fold_left (fun acc c => acc + nc_amount c) (sp_create_coin s) 0.
