(* Bls/AlgebraProofs.v — consequences of the group and pairing laws. *)
From ChiaV.Base Require Import Bytes.
From ChiaV.Bls Require Import Algebra.
Open Scope N_scope.

Section Group.
Context {G : Type}.
Variable o : gops G.
Hypothesis L : glaws o.

Notation "0" := (gzero o).
Infix "+" := (gadd o).

Lemma gadd_0_r x : x + 0 = x.
Proof. rewrite (gadd_comm o L). apply (gadd_0_l o L). Qed.

Lemma gadd_neg_r x : x + gneg o x = 0.
Proof. rewrite (gadd_comm o L). apply (gadd_neg_l o L). Qed.

Lemma gadd_cancel_l x y z : x + y = x + z -> y = z.
Proof.
  intro E. assert (E2 : gneg o x + (x + y) = gneg o x + (x + z)) by (now rewrite E).
  rewrite !(gadd_assoc o L), !(gadd_neg_l o L), !(gadd_0_l o L) in E2. exact E2.
Qed.

Lemma gadd_cancel_r x y z : y + x = z + x -> y = z.
Proof. rewrite !(gadd_comm o L _ x). apply gadd_cancel_l. Qed.

Lemma geqb_refl x : geqb o x x = true.
Proof. now apply (geqb_eq o L). Qed.

Lemma geqb_neq x y : geqb o x y = false <-> x <> y.
Proof.
  split.
  - intros E F. apply (geqb_eq o L) in F. congruence.
  - intros N. destruct (geqb o x y) eqn:E; [|reflexivity]. apply (geqb_eq o L) in E. contradiction.
Qed.

Lemma gneg_0 : gneg o 0 = 0.
Proof. rewrite <- (gadd_0_r (gneg o 0)). apply (gadd_neg_l o L). Qed.

Lemma gneg_add x y : gneg o (x + y) = gneg o x + gneg o y.
Proof.
  apply (gadd_cancel_l (x + y)). rewrite gadd_neg_r.
  rewrite (gadd_comm o L (gneg o x)), (gadd_assoc o L), <- (gadd_assoc o L x y), gadd_neg_r, gadd_0_r, gadd_neg_r.
  reflexivity.
Qed.

Lemma gneg_neg x : gneg o (gneg o x) = x.
Proof. apply (gadd_cancel_l (gneg o x)). now rewrite gadd_neg_r, (gadd_neg_l o L). Qed.

Lemma eq_iff_sub_0 x y : x = y <-> x + gneg o y = 0.
Proof.
  split; [intros ->; apply gadd_neg_r|].
  intro E. apply (gadd_cancel_r (gneg o y)). now rewrite gadd_neg_r.
Qed.

(* ---- scalar multiplication ---- *)
Lemma smul_0 x : smul o 0%N x = 0.
Proof. reflexivity. Qed.

Lemma smul_1 x : smul o 1 x = x.
Proof. reflexivity. Qed.

Lemma smul_succ k x : smul o (N.succ k) x = x + smul o k x.
Proof.
  destruct k as [|p]; cbn.
  - now rewrite gadd_0_r.
  - apply Pos.iter_op_succ. intros. apply (gadd_assoc o L).
Qed.

Lemma smul_add k1 k2 x : smul o (k1 + k2) x = smul o k1 x + smul o k2 x.
Proof.
  induction k1 using N.peano_ind.
  - now rewrite N.add_0_l, smul_0, (gadd_0_l o L).
  - rewrite N.add_succ_l, !smul_succ, IHk1. apply (gadd_assoc o L).
Qed.

Lemma smul_zero k : smul o k 0 = 0.
Proof.
  induction k using N.peano_ind; [reflexivity|]. now rewrite smul_succ, IHk, (gadd_0_l o L).
Qed.

Lemma smul_gadd k x y : smul o k (x + y) = smul o k x + smul o k y.
Proof.
  induction k using N.peano_ind.
  - now rewrite !smul_0, (gadd_0_l o L).
  - rewrite !smul_succ, IHk.
    rewrite <- !(gadd_assoc o L). f_equal.
    rewrite !(gadd_assoc o L). f_equal. apply (gadd_comm o L).
Qed.

Lemma smul_mul a b x : smul o (a * b) x = smul o a (smul o b x).
Proof.
  induction a using N.peano_ind.
  - now rewrite N.mul_0_l, !smul_0.
  - rewrite N.mul_succ_l, smul_add, smul_succ, IHa. apply (gadd_comm o L).
Qed.

Lemma smul_neg k x : smul o k (gneg o x) = gneg o (smul o k x).
Proof.
  induction k using N.peano_ind.
  - now rewrite !smul_0, gneg_0.
  - now rewrite !smul_succ, IHk, gneg_add.
Qed.

(* scalars act modulo any annihilating r *)
Lemma smul_mod r k x : r <> 0%N -> smul o r x = 0 -> smul o (k mod r) x = smul o k x.
Proof.
  intros Hr Hx. rewrite (N.div_mod k r Hr) at 2.
  rewrite smul_add, (N.mul_comm r), smul_mul, Hx, smul_zero, (gadd_0_l o L). reflexivity.
Qed.

(* sums *)
Lemma fold_gadd_acc l a : fold_left (gadd o) l a = a + gsum o l.
Proof.
  unfold gsum. revert a. induction l as [|x l IH]; intro a; cbn.
  - now rewrite gadd_0_r.
  - rewrite IH, (IH (0 + x)), (gadd_0_l o L). symmetry. apply (gadd_assoc o L).
Qed.

Lemma gsum_nil : gsum o [] = 0.
Proof. reflexivity. Qed.

Lemma gsum_cons x l : gsum o (x :: l) = x + gsum o l.
Proof. unfold gsum at 1. cbn. now rewrite fold_gadd_acc, (gadd_0_l o L). Qed.

Lemma gsum_app l1 l2 : gsum o (l1 ++ l2) = gsum o l1 + gsum o l2.
Proof.
  induction l1 as [|x l1 IH]; cbn [app].
  - now rewrite gsum_nil, (gadd_0_l o L).
  - now rewrite !gsum_cons, IH, (gadd_assoc o L).
Qed.
End Group.

Section Pairing.
Context {G1 G2 GT : Type}.
Variable P : pairing_ops G1 G2 GT.
Hypothesis L : pairing_laws P.

Let L1 := laws1 P L.
Let L2 := laws2 P L.
Let LT := lawsT P L.

Lemma pair_0_l q : pair P (gzero (o1 P)) q = gzero (oT P).
Proof.
  apply (gadd_cancel_l (oT P) LT (pair P (gzero (o1 P)) q)).
  rewrite <- (pair_add_l P L), (gadd_0_l _ L1), (gadd_0_r _ LT). reflexivity.
Qed.

Lemma pair_0_r a : pair P a (gzero (o2 P)) = gzero (oT P).
Proof.
  apply (gadd_cancel_l (oT P) LT (pair P a (gzero (o2 P)))).
  rewrite <- (pair_add_r P L), (gadd_0_l _ L2), (gadd_0_r _ LT). reflexivity.
Qed.

Lemma pair_neg_l a q : pair P (gneg (o1 P) a) q = gneg (oT P) (pair P a q).
Proof.
  apply (gadd_cancel_l (oT P) LT (pair P a q)).
  rewrite <- (pair_add_l P L), (gadd_neg_r _ L1), (gadd_neg_r _ LT), pair_0_l. reflexivity.
Qed.

Lemma pair_neg_r a q : pair P a (gneg (o2 P) q) = gneg (oT P) (pair P a q).
Proof.
  apply (gadd_cancel_l (oT P) LT (pair P a q)).
  rewrite <- (pair_add_r P L), (gadd_neg_r _ L2), (gadd_neg_r _ LT), pair_0_r. reflexivity.
Qed.

Lemma pair_smul_l k a q : pair P (smul (o1 P) k a) q = smul (oT P) k (pair P a q).
Proof.
  induction k using N.peano_ind.
  - rewrite !smul_0. apply pair_0_l.
  - rewrite (smul_succ _ L1), (smul_succ _ LT). now rewrite (pair_add_l P L), IHk.
Qed.

Lemma pair_smul_r k a q : pair P a (smul (o2 P) k q) = smul (oT P) k (pair P a q).
Proof.
  induction k using N.peano_ind.
  - rewrite !smul_0. apply pair_0_r.
  - rewrite (smul_succ _ L2), (smul_succ _ LT). now rewrite (pair_add_r P L), IHk.
Qed.

(* e(k*g1, q) = e(g1, k*q): what lets a public key be moved onto the signature side *)
Lemma pair_gen_swap k q : pair P (smul (o1 P) k (gen1 P)) q = pair P (gen1 P) (smul (o2 P) k q).
Proof. now rewrite pair_smul_l, pair_smul_r. Qed.

Lemma order_ne_0 : order P <> 0.
Proof. pose proof (order_gt_1 P L). lia. Qed.

(* the generator side is injective: e(g1, p) = e(g1, q) -> p = q *)
Lemma pair_gen_inj p q : pair P (gen1 P) p = pair P (gen1 P) q -> p = q.
Proof.
  intro E. apply (eq_iff_sub_0 _ L2). apply (pair_nondeg P L).
  rewrite (pair_add_r P L), pair_neg_r, E. apply (gadd_neg_r _ LT).
Qed.

(* every scalar acts on G1 / G2 modulo r *)
Lemma smul1_mod k x : smul (o1 P) (k mod order P) x = smul (o1 P) k x.
Proof. apply (smul_mod _ L1); auto using order_ne_0. apply (ord1 P L). Qed.
Lemma smul2_mod k x : smul (o2 P) (k mod order P) x = smul (o2 P) k x.
Proof. apply (smul_mod _ L2); auto using order_ne_0. apply (ord2 P L). Qed.

(* prime order: a non-infinity key is itself a generator, so the pairing is non-degenerate in
   its second argument under ANY non-infinity key *)
Lemma key_nondegenerate pk q :
  prime_order P -> pk <> gzero (o1 P) -> pair P pk q = gzero (oT P) -> q = gzero (o2 P).
Proof.
  intros Hprime Hpk E.
  destruct (gen1_generates P L pk) as [k ->].
  rewrite <- smul1_mod in E, Hpk. set (k' := k mod order P) in *.
  assert (Hk' : k' < order P) by (apply N.mod_lt, order_ne_0).
  assert (Hk0 : k' <> 0) by (intro Z; apply Hpk; now rewrite Z).
  (* gcd(k', r) = 1, Bezout: u*k' = 1 + v*r *)
  assert (Hg : N.gcd k' (order P) = 1).
  { destruct (Hprime (N.gcd k' (order P)) (N.gcd_divide_r _ _)) as [H1|Hr]; [exact H1|].
    exfalso. pose proof (N.gcd_divide_l k' (order P)) as D. rewrite Hr in D.
    apply N.divide_pos_le in D; lia. }
  destruct (N.gcd_bezout_pos k' (order P)) as [u [v B]]; [lia|]. rewrite Hg in B.
  (* q = (u*k' - v*r) q ; e(g1, u*k'*q) = u * e(k' g1, q) = 0 *)
  apply (pair_nondeg P L).
  assert (E1 : pair P (gen1 P) (smul (o2 P) (u * k') q) = gzero (oT P)).
  { rewrite (smul_mul _ L2). rewrite pair_smul_r, <- pair_gen_swap, E. apply (smul_zero _ LT). }
  rewrite B in E1. rewrite (smul_add _ L2), smul_1 in E1.
  rewrite (smul_mul _ L2), (ord2 P L), (smul_zero _ L2), (gadd_0_r _ L2) in E1.
  exact E1.
Qed.
End Pairing.
