(* Bls/ToyProofs.v — the Toy instances satisfy every law of the pairing interface:
   the premises of the C15/C16 theorems are satisfiable (and by executable structures). *)
From Coq Require Import Eqdep_dec.
From ChiaV.Base Require Import Bytes Sha256.
From ChiaV.Bls Require Import Algebra AlgebraProofs Verify Keys Toy.
From ChiaV.Gen Require Import BlsConsts.
Open Scope N_scope.

Section ToyGenProofs.
Variable p : positive.
Notation r := (Npos p).
Hypothesis r_gt_1 : 1 < r.
Hypothesis r_fits : r < 256 ^ 48.

Notation Zr := (Zr p).
Notation zr := (zr p).

Lemma zr_eq (a b : Zr) : zv a = zv b -> a = b.
Proof.
  destruct a as [x px], b as [y py]. cbn. intros ->. f_equal.
  apply UIP_dec. apply Bool.bool_dec.
Qed.

Lemma zv_lt (a : Zr) : zv a < r.
Proof. apply N.ltb_lt. apply zok. Qed.

Lemma zv_zr n : zv (zr n) = n mod r.
Proof. reflexivity. Qed.

Lemma r_ne0 : r <> 0.
Proof. discriminate. Qed.

Lemma zr_ops_laws : glaws (zr_ops p).
Proof.
  constructor; cbn [gadd gzero gneg geqb zr_ops]; intros.
  - apply zr_eq. rewrite !zv_zr.
    rewrite N.add_mod_idemp_r, N.add_mod_idemp_l by apply r_ne0. f_equal. lia.
  - apply zr_eq. rewrite !zv_zr. f_equal. lia.
  - apply zr_eq. rewrite !zv_zr. rewrite N.mod_0_l by apply r_ne0.
    rewrite N.add_0_l. apply N.mod_small, zv_lt.
  - apply zr_eq. rewrite !zv_zr. pose proof (zv_lt x).
    rewrite N.add_mod_idemp_l by apply r_ne0.
    replace (r - zv x + zv x) with r by lia. rewrite N.mod_same by apply r_ne0.
    symmetry. apply N.mod_0_l, r_ne0.
  - rewrite N.eqb_eq. split; [apply zr_eq|now intros ->].
Qed.

Lemma smul_toy k x : smul (zr_ops p) k x = zr (k * zv x).
Proof.
  induction k using N.peano_ind.
  - cbn [smul gzero zr_ops]. now rewrite N.mul_0_l.
  - rewrite (smul_succ _ zr_ops_laws), IHk. apply zr_eq. cbn [gadd zr_ops]. rewrite !zv_zr.
    rewrite N.add_mod_idemp_r by apply r_ne0. f_equal. lia.
Qed.

Lemma toy_gen_laws : pairing_laws (toy_gen p).
Proof.
  constructor; cbn [o1 o2 oT order gen1 pair hash_to_g2 enc1 toy_gen].
  - exact zr_ops_laws.
  - exact zr_ops_laws.
  - exact zr_ops_laws.
  - exact r_gt_1.
  - intro x. rewrite smul_toy. apply zr_eq. cbn [gzero zr_ops]. rewrite !zv_zr.
    rewrite N.mul_comm, N.mod_mul by apply r_ne0. symmetry. apply N.mod_0_l, r_ne0.
  - intro x. rewrite smul_toy. apply zr_eq. cbn [gzero zr_ops]. rewrite !zv_zr.
    rewrite N.mul_comm, N.mod_mul by apply r_ne0. symmetry. apply N.mod_0_l, r_ne0.
  - intro x. exists (zv x). rewrite smul_toy. apply zr_eq. rewrite !zv_zr.
    rewrite N.mul_mod_idemp_r by apply r_ne0. rewrite N.mul_1_r. symmetry. apply N.mod_small, zv_lt.
  - intros a b q. apply zr_eq. cbn [gadd zr_ops]. rewrite !zv_zr.
    rewrite N.mul_mod_idemp_l by apply r_ne0. rewrite <- N.add_mod by apply r_ne0. f_equal. lia.
  - intros a q1 q2. apply zr_eq. cbn [gadd zr_ops]. rewrite !zv_zr.
    rewrite N.mul_mod_idemp_r by apply r_ne0. rewrite <- N.add_mod by apply r_ne0. f_equal. lia.
  - intros q E. apply (f_equal zv) in E. cbn [gzero zr_ops] in E. rewrite !zv_zr in E.
    rewrite N.mul_mod_idemp_l in E by apply r_ne0. rewrite N.mul_1_l in E.
    rewrite (N.mod_small (zv q)) in E by apply zv_lt. apply zr_eq. cbn [gzero zr_ops]. rewrite zv_zr. exact E.
  - intro x. apply n2be_length.
  - intros x y E. apply zr_eq. apply (f_equal be2n) in E.
    assert (B : forall a : Zr, zv a < 256 ^ N.of_nat 48).
    { intro a. pose proof (zv_lt a). change (N.of_nat 48) with 48. lia. }
    now rewrite !be2n_n2be in E by apply B.
Qed.
End ToyGenProofs.

Lemma toy_laws : pairing_laws toy.
Proof. apply toy_gen_laws; vm_compute; reflexivity. Qed.

(* an instance at the real group order: the premise "order P = GROUP_ORDER_BYTES" of the synthetic-key
   theorems is satisfiable together with the laws *)
Lemma toy_bls_laws : pairing_laws toy_bls.
Proof. apply toy_gen_laws; vm_compute; reflexivity. Qed.
Lemma toy_bls_order : order toy_bls = group_order_bytes_value.
Proof. reflexivity. Qed.

(* ---- rtoy = 2^31 - 1 is prime: trial division up to 46341 > sqrt rtoy, by the kernel's VM ---- *)
Fixpoint no_divisor_from (fuel : nat) (k : N) : bool :=
  match fuel with
  | O => true
  | S f => negb (rtoy mod k =? 0) && no_divisor_from f (N.succ k)
  end.

Lemma no_divisor_from_sound fuel k :
  no_divisor_from fuel k = true -> forall j, k <= j -> j < k + N.of_nat fuel -> rtoy mod j <> 0.
Proof.
  revert k. induction fuel as [|f IH]; intros k C j H1 H2; [lia|].
  cbn [no_divisor_from] in C. apply Bool.andb_true_iff in C. destruct C as [C1 C2].
  destruct (N.eq_dec j k) as [->|N].
  - apply Bool.negb_true_iff, N.eqb_neq in C1. exact C1.
  - apply (IH (N.succ k) C2); lia.
Qed.

Lemma no_small_divisor_true : no_divisor_from (N.to_nat 46340) 2 = true.
Proof. vm_compute. reflexivity. Qed.

Lemma small_not_divisor k : 2 <= k -> k <= 46341 -> rtoy mod k <> 0.
Proof.
  intros H2 H3. apply (no_divisor_from_sound _ 2 no_small_divisor_true); [exact H2|].
  rewrite N2Nat.id. lia.
Qed.

Lemma toy_prime_order : prime_order toy.
Proof.
  intros d [q E]. change (order toy) with rtoy in *.
  destruct (N.eq_dec d 1) as [|N1]; [now left|].
  destruct (N.eq_dec d rtoy) as [|Nr]; [now right|]. exfalso.
  assert (d <> 0) by (intro; subst; rewrite N.mul_0_r in E; discriminate).
  assert (q <> 0) by (intro; subst; discriminate).
  assert (q <> 1) by (intro; subst; rewrite N.mul_1_l in E; congruence).
  destruct (N.le_gt_cases d 46341) as [Hd|Hd].
  - apply (small_not_divisor d); [lia|exact Hd|]. rewrite E. apply N.mod_mul. assumption.
  - destruct (N.le_gt_cases q 46341) as [Hq|Hq].
    + apply (small_not_divisor q); [lia|exact Hq|]. rewrite E, N.mul_comm. apply N.mod_mul. assumption.
    + assert (46342 * 46342 <= q * d) by (apply N.mul_le_mono; lia).
      rewrite <- E in *. unfold rtoy, rtoy_pos in *. lia.
Qed.

(* non-vacuity: the toy world has non-trivial keys and a non-trivial pairing *)
Example toy_nontrivial : pair toy (gen1 toy) (zr rtoy_pos 5) <> gzero (oT toy).
Proof. intro E. apply (f_equal zv) in E. vm_compute in E. discriminate. Qed.

(* the premise [call_ok] (update() is given the pairing that belongs to the augmented message) is
   needed: BlsCache::update stores whatever it is handed, and a cache poisoned with the pairing of
   another key makes the cached path accept a signature by that other key *)
From ChiaV.Bls Require Import Cache.
Example dishonest_update_breaks_transparency :
  let pk1 := pk_of toy 11 in let pk2 := pk_of toy 22 in let m := [x01] in
  let c := cache_update sha256 (empty_cache 2) (aug toy pk1 m) (pairing_of toy pk2 m) in
  fst (cached_verify toy sha256 c (SIn (sign toy 22 m)) [(pk1, m)]) = true /\
  aggregate_verify toy (SIn (sign toy 22 m)) [(pk1, m)] = false.
Proof. vm_compute. split; reflexivity. Qed.
