(* Bls/Sched.v — concurrent use of one BlsCache at lock granularity.
   A thread is a sequence of API calls (aggregate_verify / update / evict / len); every call is
   a sequence of ATOMIC critical sections (one per Mutex acquisition in bls_cache.rs):
     aggregate_verify: per pair  [lock; get; unlock]  and on a miss, after computing the pairing
                       outside the lock,  [lock; put; unlock];
     update: [lock; put];   evict: [lock; remove*];   len: [lock; len].
   A schedule is an arbitrary list of thread indices: entry i lets thread i run its next critical
   section (and then everything up to — not including — its next lock acquisition).  Entries for
   finished or non-existent threads are no-ops.  This is exactly what the harness forces through
   the `verif-hooks` yield point.  Definitions only; proofs in SchedProofs.v. *)
From ChiaV.Base Require Import Bytes.
From ChiaV.Bls Require Import Algebra Cache Verify.
Open Scope N_scope.

Section Sched.
Context {G1 G2 GT : Type}.
Variable P : pairing_ops G1 G2 GT.
Variable H : bytes -> bytes.
Variable reject_inf : bool.               (* true: code after the fix of F-C15-1 *)

Inductive call : Type :=
| CVerify (pairs : list (pkm (G1:=G1))) (sig : sigpt G2)
| CUpdate (aug_msg : bytes) (g : GT)
| CEvict (pairs : list (pkm (G1:=G1)))
| CLen.

Inductive out : Type :=
| OVerdict (pairs : list (pkm (G1:=G1))) (sig : sigpt G2) (b : bool)
| OLen (n : N).

(* an aggregate_verify call in progress, poised at a lock *)
Record vstate : Type := {
  v_pairs : list (pkm (G1:=G1));          (* the whole argument (for the verdict record) *)
  v_sig : sigpt G2;
  v_todo : list (pkm (G1:=G1));           (* pairs not yet pulled from the iterator *)
  v_pend : option (bytes * GT);           (* Some: pairing computed, poised at the put lock *)
  v_acc : list GT;                        (* pairings collected so far, newest first *)
}.

Record thread : Type := {
  t_cur : option vstate;
  t_calls : list call;
  t_outs : list out;                      (* newest first *)
}.

Definition finish_verify (v : vstate) : out :=
  OVerdict (v_pairs v) (v_sig v)
    (aggregate_verify_gt P (v_sig v) (rev (v_acc v))
     && negb (reject_inf && existsb (fun x => is_inf P (fst x)) (v_pairs v))).

(* run lock-free code until the thread is poised at its next lock (or finished) *)
Fixpoint advance_calls (calls : list call) (outs : list out) : thread :=
  match calls with
  | [] => {| t_cur := None; t_calls := []; t_outs := outs |}
  | CVerify pairs sig :: r =>
      match sig, pairs with
      | SOff, _ => advance_calls r (OVerdict pairs sig false :: outs)          (* !sig.is_valid() *)
      | SIn s, [] => advance_calls r (OVerdict pairs sig (geqb (o2 P) s (gzero (o2 P))) :: outs)
      | SIn _, _ :: _ =>
          {| t_cur := Some {| v_pairs := pairs; v_sig := sig; v_todo := pairs; v_pend := None; v_acc := [] |};
             t_calls := r; t_outs := outs |}
      end
  | _ :: _ => {| t_cur := None; t_calls := calls; t_outs := outs |}
  end.

Definition advance (t : thread) : thread :=
  match t_cur t with
  | Some v =>
      match v_todo v, v_pend v with
      | [], None => advance_calls (t_calls t) (finish_verify v :: t_outs t)
      | _, _ => t
      end
  | None => advance_calls (t_calls t) (t_outs t)
  end.

Definition start (calls : list call) : thread := advance_calls calls [].

Definition finished (t : thread) : bool :=
  match t_cur t, t_calls t with
  | None, [] => true
  | _, _ => false
  end.

(* one critical section of a thread that is poised at a lock *)
Definition crit (c : cache GT) (t : thread) : cache GT * thread :=
  match t_cur t with
  | Some v =>
      match v_pend v with
      | Some (k, g) =>                                    (* lock; put *)
          (cput c k g, {| t_cur := Some {| v_pairs := v_pairs v; v_sig := v_sig v; v_todo := v_todo v;
                                           v_pend := None; v_acc := v_acc v |};
                          t_calls := t_calls t; t_outs := t_outs t |})
      | None =>
          match v_todo v with
          | [] => (c, t)                                   (* not poised: cannot happen after advance *)
          | (pk, m) :: r =>                                (* lock; get *)
              match cget c (ckey P H pk m) with
              | Some g =>
                  (c, {| t_cur := Some {| v_pairs := v_pairs v; v_sig := v_sig v; v_todo := r;
                                          v_pend := None; v_acc := g :: v_acc v |};
                         t_calls := t_calls t; t_outs := t_outs t |})
              | None =>
                  let g := pairing_of P pk m in             (* computed outside the lock *)
                  (c, {| t_cur := Some {| v_pairs := v_pairs v; v_sig := v_sig v; v_todo := r;
                                          v_pend := Some (ckey P H pk m, g); v_acc := g :: v_acc v |};
                         t_calls := t_calls t; t_outs := t_outs t |})
              end
          end
      end
  | None =>
      match t_calls t with
      | CUpdate a g :: r => (cache_update H c a g, {| t_cur := None; t_calls := r; t_outs := t_outs t |})
      | CEvict pairs :: r => (cache_evict P H c pairs, {| t_cur := None; t_calls := r; t_outs := t_outs t |})
      | CLen :: r => (c, {| t_cur := None; t_calls := r; t_outs := OLen (clen c) :: t_outs t |})
      | _ => (c, t)
      end
  end.

Definition tstep (c : cache GT) (t : thread) : cache GT * thread :=
  if finished t then (c, t) else let '(c', t') := crit c t in (c', advance t').

(* global state and schedules *)
Definition gstate : Type := (cache GT * list thread)%type.

Fixpoint step_nth (c : cache GT) (ts : list thread) (i : nat) : cache GT * list thread :=
  match ts, i with
  | [], _ => (c, [])
  | t :: r, O => let '(c', t') := tstep c t in (c', t' :: r)
  | t :: r, S j => let '(c', r') := step_nth c r j in (c', t :: r')
  end.

Definition gstep (g : gstate) (i : nat) : gstate := step_nth (fst g) (snd g) i.
Definition run_schedule (g : gstate) (sched : list nat) : gstate := fold_left gstep sched g.

(* after the forced schedule the harness lets the threads finish one after the other *)
Fixpoint run_to_end (fuel : nat) (c : cache GT) (t : thread) : cache GT * thread :=
  match fuel with
  | O => (c, t)
  | S f => if finished t then (c, t) else let '(c', t') := tstep c t in run_to_end f c' t'
  end.

(* an upper bound on the scheduler grants a thread still needs (fuel for run_to_end) *)
Definition call_steps (k : call) : nat :=
  match k with CVerify pairs _ => (2 * length pairs + 2)%nat | _ => 1%nat end.
Definition cur_steps (v : vstate) : nat :=
  (2 * length (v_todo v) + match v_pend v with Some _ => 2 | None => 1 end)%nat.
Definition thread_steps (t : thread) : nat :=
  (match t_cur t with Some v => cur_steps v | None => 0 end
   + fold_right (fun k n => call_steps k + n) 0 (t_calls t))%nat.

Fixpoint drain (c : cache GT) (ts : list thread) : cache GT * list thread :=
  match ts with
  | [] => (c, [])
  | t :: r => let '(c1, t1) := run_to_end (thread_steps t) c t in
              let '(c2, r2) := drain c1 r in (c2, t1 :: r2)
  end.

Definition run_par (c : cache GT) (progs : list (list call)) (sched : list nat) : gstate :=
  let g := run_schedule (c, map start progs) sched in
  drain (fst g) (snd g).

Definition all_finished (ts : list thread) : bool := forallb finished ts.

(* a whole history on one cache: phases of concurrent threads, one after the other *)
Definition phase : Type := (list (list call) * list nat)%type.
(* returns the final cache and, per phase, the cache after it and the finished threads *)
Fixpoint run_history (c : cache GT) (phases : list phase) : cache GT * list (cache GT * list thread) :=
  match phases with
  | [] => (c, [])
  | (progs, sched) :: r =>
      let '(c1, ts) := run_par c progs sched in
      let '(c2, rest) := run_history c1 r in
      (c2, (c1, ts) :: rest)
  end.
End Sched.
