(* Bls/Toy.v — a genuine instance of the pairing interface: G1 = G2 = GT = Z_r (additive),
   generator 1, e(a,b) = a*b mod r, hash_to_g2 = SHA-256 mod r, enc1 = 48 big-endian bytes.
   r = 2^31 - 1 (a Mersenne prime).  It is used (1) to EXECUTE the models on the symbolic
   histories the harness interprets with real BLS (Run/BlsRun.v) and (2) to show that the premises
   [pairing_laws] of the C15/C16 theorems are satisfiable (ToyProofs.v: toy_laws).
   The only lemma here is the range fact needed to build elements; the laws are in ToyProofs.v. *)
From ChiaV.Base Require Import Bytes Sha256.
From ChiaV.Bls Require Import Algebra.
Open Scope N_scope.

Definition rtoy : N := 2147483647.

Record Zr : Type := mkZr { zv : N; zok : (zv <? rtoy) = true }.

Lemma mod_rtoy_ok n : (n mod rtoy <? rtoy) = true.
Proof. apply N.ltb_lt. apply N.mod_lt. discriminate. Qed.

Definition zr (n : N) : Zr := mkZr (n mod rtoy) (mod_rtoy_ok n).

Definition zr_ops : gops Zr := {|
  gzero := zr 0;
  gadd := fun a b => zr (zv a + zv b);
  gneg := fun a => zr (rtoy - zv a);
  geqb := fun a b => zv a =? zv b;
|}.

Definition toy : pairing_ops Zr Zr Zr := {|
  o1 := zr_ops; o2 := zr_ops; oT := zr_ops;
  order := rtoy;
  gen1 := zr 1;
  pair := fun a b => zr (zv a * zv b);
  hash_to_g2 := fun b => zr (be2n (sha256 b));
  enc1 := fun a => n2be 48 (zv a);
|}.
