(* Bls/Toy.v — genuine instances of the pairing interface: for any modulus r >= 2,
   G1 = G2 = GT = Z_r (additive), generator 1, e(a,b) = a*b mod r, hash_to_g2 = SHA-256 mod r,
   enc1 = 48 big-endian bytes.
     toy      r = 2^31 - 1 (a Mersenne prime; primality proved in ToyProofs.v)
     toy_bls  r = the BLS12-381 group order (so the scalar layer is the real one)
   They are used (1) to EXECUTE the models on the symbolic histories the harness interprets with
   real BLS (Run/BlsRun.v) and (2) to show that the premises [pairing_laws] of the C15/C16 theorems
   are satisfiable (ToyProofs.v).  The only lemma here is the range fact needed to build elements. *)
From ChiaV.Base Require Import Bytes Sha256.
From ChiaV.Bls Require Import Algebra Verify Keys.
Open Scope N_scope.

Section ToyGen.
Variable p : positive.
Notation r := (Npos p).

Record Zr : Type := mkZr { zv : N; zok : (zv <? r) = true }.

Lemma mod_r_ok n : (n mod r <? r) = true.
Proof. apply N.ltb_lt. apply N.mod_lt. discriminate. Qed.

Definition zr (n : N) : Zr := mkZr (n mod r) (mod_r_ok n).

Definition zr_ops : gops Zr := {|
  gzero := zr 0;
  gadd := fun a b => zr (zv a + zv b);
  gneg := fun a => zr (r - zv a);
  geqb := fun a b => zv a =? zv b;
|}.

Definition toy_gen : pairing_ops Zr Zr Zr := {|
  o1 := zr_ops; o2 := zr_ops; oT := zr_ops;
  order := r;
  gen1 := zr 1;
  pair := fun a b => zr (zv a * zv b);
  hash_to_g2 := fun b => zr (be2n (sha256 b));
  enc1 := fun a => n2be 48 (zv a);
|}.
End ToyGen.
Arguments zv {p}. Arguments zok {p}.

Definition rtoy_pos : positive := 2147483647.
Definition rtoy : N := Npos rtoy_pos.
Definition toy := toy_gen rtoy_pos.
Definition toy_bls := toy_gen r_bls_pos.
