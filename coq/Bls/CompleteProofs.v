(* Bls/CompleteProofs.v — no call is lost: after run_par every thread has answered exactly the
   aggregate_verify and len calls of its program, in program order, each verdict recorded against
   the input it was asked for.  (Together with SchedProofs.cache_transparent_complete: every
   verification call of every thread gets the uncached verdict.) *)
From ChiaV.Base Require Import Bytes.
From ChiaV.Bls Require Import Algebra Cache Verify Sched Spec SchedProofs.
Open Scope N_scope.

Section Complete.
Context {G1 G2 GT : Type}.
Variable P : pairing_ops G1 G2 GT.
Variable H : bytes -> bytes.
Variable rj : bool.

Definition pending_obs (t : thread (G1:=G1) (G2:=G2) (GT:=GT)) : list (obs (G1:=G1) (G2:=G2)) :=
  thread_obs t ++ match t_cur t with Some v => [ObsV (v_pairs v) (v_sig v)] | None => [] end
  ++ prog_obs (t_calls t).

Lemma advance_calls_obs calls outs :
  pending_obs (advance_calls P calls outs) = map out_obs (rev outs) ++ prog_obs calls.
Proof.
  revert outs. induction calls as [|k r IH]; intro outs; cbn [advance_calls].
  - unfold pending_obs, thread_obs. cbn. now rewrite app_nil_r.
  - destruct k as [pairs sig| | |]; try reflexivity.
    destruct sig as [s|].
    + destruct pairs as [|x ps].
      * rewrite IH. cbn [rev map prog_obs flat_map call_obs app]. rewrite map_app, <- app_assoc. reflexivity.
      * reflexivity.
    + rewrite IH. cbn [rev map prog_obs flat_map call_obs app]. rewrite map_app, <- app_assoc. reflexivity.
Qed.

Lemma advance_obs t : pending_obs (advance P rj t) = pending_obs t.
Proof.
  unfold advance. destruct (t_cur t) as [v|] eqn:Ec.
  - destruct (v_todo v); [|reflexivity]. destruct (v_pend v); [reflexivity|].
    rewrite advance_calls_obs. unfold pending_obs, thread_obs. rewrite Ec. cbn [rev map].
    rewrite map_app, <- app_assoc. reflexivity.
  - rewrite advance_calls_obs. unfold pending_obs, thread_obs. now rewrite Ec.
Qed.

Lemma crit_obs c t : pending_obs (snd (crit P H c t)) = pending_obs t.
Proof.
  unfold crit. destruct (t_cur t) as [v|] eqn:Ec.
  - destruct (v_pend v) as [[k g]|].
    + cbn [snd]. unfold pending_obs, thread_obs. cbn [t_cur t_calls t_outs v_pairs v_sig]. now rewrite Ec.
    + destruct (v_todo v) as [|[pk m] r]; [reflexivity|].
      destruct (cget c (ckey P H pk m)); cbn [snd]; unfold pending_obs, thread_obs;
        cbn [t_cur t_calls t_outs v_pairs v_sig]; now rewrite Ec.
  - destruct (t_calls t) as [|k r] eqn:Ek; [reflexivity|].
    destruct k; cbn [snd]; try reflexivity; unfold pending_obs, thread_obs; cbn [t_cur t_calls t_outs]; rewrite Ec, Ek;
      cbn [prog_obs flat_map call_obs app]; try reflexivity.
    cbn [rev map]. rewrite map_app, <- app_assoc. reflexivity.
Qed.

Lemma tstep_obs c t : pending_obs (snd (tstep P H rj c t)) = pending_obs t.
Proof.
  unfold tstep. destruct (finished t); [reflexivity|].
  pose proof (crit_obs c t) as E. destruct (crit P H c t) as [c' t']. cbn [snd] in *. now rewrite advance_obs.
Qed.

Lemma start_obs calls : pending_obs (start P calls) = prog_obs calls.
Proof. unfold start. now rewrite advance_calls_obs. Qed.

Lemma finished_obs t : finished t = true -> pending_obs t = thread_obs t.
Proof.
  unfold finished, pending_obs. destruct (t_cur t); [discriminate|]. destruct (t_calls t); [|discriminate].
  intros _. cbn. now rewrite app_nil_r.
Qed.

(* threads and their programs, pointwise *)
Definition answers (ts : list (thread (G1:=G1) (G2:=G2) (GT:=GT)))
  (progs : list (list (call (G1:=G1) (G2:=G2) (GT:=GT)))) : Prop :=
  Forall2 (fun t prog => pending_obs t = prog_obs prog) ts progs.

Lemma step_nth_answers c ts i progs :
  answers ts progs -> answers (snd (step_nth P H rj c ts i)) progs.
Proof.
  intro A. revert c i. induction A as [|t prog ts progs Ht A IH]; intros c i; cbn [step_nth].
  - constructor.
  - destruct i as [|j].
    + pose proof (tstep_obs c t) as E. destruct (tstep P H rj c t) as [c' t']. cbn [snd] in *.
      constructor; [congruence|exact A].
    + specialize (IH c j). destruct (step_nth P H rj c ts j) as [c' r']. cbn [snd] in *. now constructor.
Qed.

Lemma run_schedule_answers g sched progs :
  answers (snd g) progs -> answers (snd (run_schedule P H rj g sched)) progs.
Proof.
  unfold run_schedule. revert g. induction sched as [|i r IH]; intros g A; cbn [fold_left]; [exact A|].
  apply IH. unfold gstep. destruct g as [c ts]. now apply step_nth_answers.
Qed.

Lemma run_to_end_obs fuel c t : pending_obs (snd (run_to_end P H rj fuel c t)) = pending_obs t.
Proof.
  revert c t. induction fuel as [|f IH]; intros c t; cbn [run_to_end]; [reflexivity|].
  destruct (finished t); [reflexivity|].
  pose proof (tstep_obs c t) as E. destruct (tstep P H rj c t) as [c' t']. cbn [snd] in *. now rewrite IH.
Qed.

Lemma drain_answers c ts progs : answers ts progs -> answers (snd (drain P H rj c ts)) progs.
Proof.
  intro A. revert c. induction A as [|t prog ts progs Ht A IH]; intro c; cbn [drain]; [constructor|].
  pose proof (run_to_end_obs (thread_steps t) c t) as E.
  destruct (run_to_end P H rj (thread_steps t) c t) as [c1 t1]. cbn [snd] in E.
  specialize (IH c1). destruct (drain P H rj c1 ts) as [c2 r2]. cbn [snd] in *. constructor; [congruence|exact IH].
Qed.

Lemma start_answers progs : answers (map (start P) progs) progs.
Proof. induction progs as [|p r IH]; cbn [map]; constructor; [apply start_obs|exact IH]. Qed.
End Complete.

Section Complete2.
Context {G1 G2 GT : Type}.
Variable P : pairing_ops G1 G2 GT.
Variable H : bytes -> bytes.

(* after run_par every thread has answered exactly the verification and len calls of its program,
   in program order: no call is lost, none is answered for another input *)
Theorem run_par_answers_all c progs sched :
  Forall2 (fun t prog => thread_obs t = prog_obs prog) (snd (run_par P H true c progs sched)) progs.
Proof.
  unfold run_par.
  pose proof (run_schedule_answers P H true (c, map (start P) progs) sched progs (start_answers P progs)) as A.
  pose proof (drain_finishes P H (fst (run_schedule P H true (c, map (start P) progs) sched))
                (snd (run_schedule P H true (c, map (start P) progs) sched))) as F.
  pose proof (drain_answers P H true (fst (run_schedule P H true (c, map (start P) progs) sched)) _ _ A) as D.
  destruct (run_schedule P H true (c, map (start P) progs) sched) as [c' ts']. cbn [fst snd] in *.
  destruct (drain P H true c' ts') as [c2 ts2]. cbn [snd] in *.
  unfold all_finished in F. rewrite forallb_forall in F.
  clear A. induction D as [|t prog ts progs' Ht D IH]; [constructor|].
  constructor.
  - rewrite <- Ht. symmetry. apply finished_obs. apply F. now left.
  - apply IH. intros x I. apply F. now right.
Qed.
End Complete2.
