(* Bls/Algebra.v — the ABSTRACT pairing interface the BLS models are written against
   (DESIGN §5 C15/C16, §9).  Nothing about BLS12-381 is formalised: the groups, the pairing,
   hash-to-curve and the point encodings are operations of a record [pairing_ops]; the
   algebraic facts the proofs may use are the fields of the proposition [pairing_laws]
   (every theorem of C15/C16 carries [pairing_laws P] as an explicit premise).
   Bls/Toy.v builds a genuine instance (Z_r, e(a,b) = a*b mod r) and proves its laws, so the
   premises are satisfiable and the model can be executed.

   All three groups are written ADDITIVELY (GT too: "product of pairings" is a sum here).
   Definitions only; proofs are in AlgebraProofs.v. *)
From ChiaV.Base Require Import Bytes.
Open Scope N_scope.

(* ---- one commutative group: operations / laws ---- *)
Record gops (G : Type) : Type := {
  gzero : G;
  gadd : G -> G -> G;
  gneg : G -> G;
  geqb : G -> G -> bool;
}.
Arguments gzero {G}. Arguments gadd {G}. Arguments gneg {G}. Arguments geqb {G}.

Record glaws {G : Type} (o : gops G) : Prop := {
  gadd_assoc : forall x y z, gadd o x (gadd o y z) = gadd o (gadd o x y) z;
  gadd_comm : forall x y, gadd o x y = gadd o y x;
  gadd_0_l : forall x, gadd o (gzero o) x = x;
  gadd_neg_l : forall x, gadd o (gneg o x) x = gzero o;
  geqb_eq : forall x y, geqb o x y = true <-> x = y;
}.

(* scalar multiplication by a natural number, double-and-add (Pos.iter_op) so that the Toy
   instance executes in logarithmic time *)
Definition smul {G} (o : gops G) (k : N) (x : G) : G :=
  match k with
  | N0 => gzero o
  | Npos p => Pos.iter_op (gadd o) p x
  end.

Definition gsum {G} (o : gops G) (l : list G) : G := fold_left (gadd o) l (gzero o).

(* ---- the pairing interface ---- *)
Record pairing_ops (G1 G2 GT : Type) : Type := {
  o1 : gops G1;                     (* public keys          (blst_p1)   *)
  o2 : gops G2;                     (* signatures, hashes   (blst_p2, points of the subgroup only) *)
  oT : gops GT;                     (* pairing values       (blst_fp12, written additively) *)
  order : N;                        (* r *)
  gen1 : G1;                        (* blst_p1_generator *)
  pair : G1 -> G2 -> GT;            (* e : miller loop + final exponentiation *)
  hash_to_g2 : bytes -> G2;         (* hash_to_g2 with the AUG DST *)
  enc1 : G1 -> bytes;               (* PublicKey::to_bytes, 48 bytes *)
}.
Arguments o1 {G1 G2 GT}. Arguments o2 {G1 G2 GT}. Arguments oT {G1 G2 GT}.
Arguments order {G1 G2 GT}. Arguments gen1 {G1 G2 GT}. Arguments pair {G1 G2 GT}.
Arguments hash_to_g2 {G1 G2 GT}. Arguments enc1 {G1 G2 GT}.

Record pairing_laws {G1 G2 GT : Type} (P : pairing_ops G1 G2 GT) : Prop := {
  laws1 : glaws (o1 P);
  laws2 : glaws (o2 P);
  lawsT : glaws (oT P);
  order_gt_1 : 1 < order P;
  ord1 : forall x, smul (o1 P) (order P) x = gzero (o1 P);
  ord2 : forall x, smul (o2 P) (order P) x = gzero (o2 P);
  gen1_generates : forall x, exists k, x = smul (o1 P) k (gen1 P);
  pair_add_l : forall a b q, pair P (gadd (o1 P) a b) q = gadd (oT P) (pair P a q) (pair P b q);
  pair_add_r : forall a p q, pair P a (gadd (o2 P) p q) = gadd (oT P) (pair P a p) (pair P a q);
  pair_nondeg : forall q, pair P (gen1 P) q = gzero (oT P) -> q = gzero (o2 P);
  enc1_len : forall x, length (enc1 P x) = 48%nat;
  enc1_inj : forall x y, enc1 P x = enc1 P y -> x = y;
}.

(* prime order: the only divisors of r are 1 and r.  Kept apart from [pairing_laws]: no C15/C16
   theorem needs it (cyclic of order r with a non-degenerate pairing is enough); it gives the strong
   non-degeneracy lemma AlgebraProofs.key_nondegenerate. *)
Definition prime_order {G1 G2 GT : Type} (P : pairing_ops G1 G2 GT) : Prop :=
  forall d, (d | order P) -> d = 1 \/ d = order P.

(* a signature as the verifiers receive it: a point of the prime-order subgroup (infinity
   included) or a curve point outside it (Signature::is_valid() = false).  SOff is absorbing
   under addition in the executable semantics of signature expressions (Run/BlsRun.v). *)
Inductive sigpt (G2 : Type) : Type :=
| SIn (s : G2)
| SOff.
Arguments SIn {G2}. Arguments SOff {G2}.

(* a collision of the cache-key hash, exhibited *)
Definition collision (H : bytes -> bytes) : Prop := exists a b, a <> b /\ H a = H b.
