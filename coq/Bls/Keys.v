(* Bls/Keys.v — the exact scalar layer of key handling and the derivation functions
   (crates/chia-bls/src/{secret_key,public_key,derive_keys}.rs,
    crates/chia-puzzle-types/src/derive_synthetic.rs).
   Scalars are N (a SecretKey holds 0 <= sk < r); byte strings are big-endian unless said
   otherwise.  Definitions only; proofs in KeysProofs.v. *)
From ChiaV.Base Require Import Bytes.
From ChiaV.Bls Require Import Algebra Verify.
From ChiaV.Gen Require Import BlsConsts.
Open Scope N_scope.

(* the group order blst works with (not in the repository's sources; the constant the
   repository itself writes down, GROUP_ORDER_BYTES, is proved equal in KeysProofs.v) *)
Definition r_bls_pos : positive := 0x73eda753299d7d483339d80809a1d80553bda402fffe5bfeffffffff00000001.
Definition r_bls : N := Npos r_bls_pos.

Inductive res (A : Type) : Type := Ok (a : A) | Err | Panic.
Arguments Ok {A}. Arguments Err {A}. Arguments Panic {A}.

Definition is_all_zero (b : bytes) : bool := forallb (fun x => b2n x =? 0) b.

Section Scalar.
Variable r : N.

(* SecretKey::from_bytes: all-zero accepted without a check, otherwise blst_sk_check (0 < sk < r) *)
Definition sk_from_bytes (b : bytes) : option N :=
  if negb (length b =? 32)%nat then None
  else if is_all_zero b then Some 0
  else if be2n b <? r then Some (be2n b) else None.

(* SecretKey::to_bytes: blst_bendian_from_scalar *)
Definition sk_to_bytes (sk : N) : bytes := n2be 32 sk.

(* blst_sk_add_n_check: (a + b) mod r, and whether the result is non-zero *)
Definition sk_add_n_check (a b : N) : N * bool := let s := (a + b) mod r in (s, negb (s =? 0)).
(* impl Add for SecretKey (the flag is ignored) *)
Definition sk_add (a b : N) : N := fst (sk_add_n_check a b).

(* blst_scalar_from_be_bytes: value mod r, and whether it is non-zero *)
Definition scalar_from_be_bytes (b : bytes) : N * bool := let s := be2n b mod r in (s, negb (s =? 0)).

(* SecretKey::derive_unhardened given the SHA-256 digest of pk.to_bytes() ++ idx.to_be_bytes():
   both blst results are assert!ed *)
Definition sk_derive_unhardened_digest (sk : N) (digest : bytes) : res N :=
  let '(d, ok1) := scalar_from_be_bytes digest in
  if negb ok1 then Panic else
  let '(s, ok2) := sk_add_n_check d sk in
  if negb ok2 then Panic else Ok s.

(* PublicKey::derive_unhardened's scalar detour:
     blst_scalar_from_lendian(nonce, digest)      nonce = LE value of the digest bytes
     blst_bendian_from_scalar(bte, nonce)         bte[0..32] = that value big-endian = rev digest
     blst_p1_mult(G, bte, 256)                    scalar read little-endian, 256 bits, NOT reduced *)
Definition pk_derive_scalar (digest : bytes) : N :=
  let nonce := le2n digest in
  let bte := n2be 32 nonce in
  le2n bte.

(* mod_by_group_order (derive_synthetic.rs): BigInt::from_signed_bytes_be, Rust's `%` on BigInt
   truncates towards zero (Z.rem); result left-padded to 32 bytes *)
Definition signed_be (b : bytes) : Z :=
  let v := Z.of_N (be2n b) in
  match b with
  | x :: _ => if 128 <=? b2n x then (v - 2 ^ (8 * Z.of_nat (length b)))%Z else v
  | [] => 0%Z
  end.
Definition mod_by_group_order_gen (order_bytes_value : N) (b : bytes) : bytes :=
  let go := Z.of_N order_bytes_value in
  let modulo := Z.rem (Z.rem (signed_be b) go + go) go in
  n2be 32 (Z.to_N modulo).
End Scalar.

Definition mod_by_group_order : bytes -> bytes := mod_by_group_order_gen group_order_bytes_value.

Definition be32 (idx : N) : bytes := n2be 4 idx.                   (* u32::to_be_bytes *)

(* ---- the group layer, over the abstract interface ---- *)
Section Derive.
Context {G1 G2 GT : Type}.
Variable P : pairing_ops G1 G2 GT.
Variable H : bytes -> bytes.              (* SHA-256 *)
Notation r := (order P).

Definition derive_digest (pk : G1) (idx : N) : bytes := H (enc1 P pk ++ be32 idx).

(* impl DerivableKey for SecretKey *)
Definition sk_derive_unhardened (sk : N) (idx : N) : res N :=
  sk_derive_unhardened_digest r sk (derive_digest (pk_of P sk) idx).

(* impl DerivableKey for PublicKey: G * scalar + self *)
Definition pk_derive_unhardened (pk : G1) (idx : N) : G1 :=
  gadd (o1 P) (smul (o1 P) (pk_derive_scalar (derive_digest pk idx)) (gen1 P)) pk.

(* derive_path_unhardened: path[0] then the rest — a fold (the Rust code indexes path[0]: an
   empty path panics) *)
Fixpoint sk_derive_path_from (sk : N) (path : list N) : res N :=
  match path with
  | [] => Ok sk
  | i :: rest => match sk_derive_unhardened sk i with
                 | Ok sk' => sk_derive_path_from sk' rest
                 | e => e
                 end
  end.
Definition sk_derive_path (sk : N) (path : list N) : res N :=
  match path with [] => Panic | _ => sk_derive_path_from sk path end.
Definition pk_derive_path_from (pk : G1) (path : list N) : G1 := fold_left pk_derive_unhardened path pk.
Definition pk_derive_path (pk : G1) (path : list N) : res G1 :=
  match path with [] => Panic | _ => Ok (pk_derive_path_from pk path) end.

Definition master_to_wallet_unhardened_sk (sk idx : N) : res N :=
  sk_derive_path sk (wallet_unhardened_prefix ++ [idx]).
Definition master_to_wallet_unhardened_pk (pk : G1) (idx : N) : res G1 :=
  pk_derive_path pk (wallet_unhardened_prefix ++ [idx]).

(* synthetic keys (derive_synthetic.rs), for a group of order [modr] = GROUP_ORDER_BYTES:
   synthetic_offset = SecretKey::from_bytes(mod_by_group_order(sha256(pk ++ hidden))).unwrap() *)
Definition synthetic_offset (pk : G1) (hidden : bytes) : res N :=
  match sk_from_bytes r (mod_by_group_order (H (enc1 P pk ++ hidden))) with
  | Some s => Ok s
  | None => Panic
  end.
Definition pk_derive_synthetic (pk : G1) (hidden : bytes) : res G1 :=
  match synthetic_offset pk hidden with
  | Ok off => Ok (gadd (o1 P) pk (pk_of P off))
  | Err => Err | Panic => Panic
  end.
Definition sk_derive_synthetic (sk : N) (hidden : bytes) : res N :=
  match synthetic_offset (pk_of P sk) hidden with
  | Ok off => Ok (sk_add r sk off)
  | Err => Err | Panic => Panic
  end.
End Derive.

(* ---- point encodings: Rust's own flag rules around the blst decompression oracle ---- *)
Section Encoding.
(* [C1] = affine points of the curve E1 (subgroup or not, infinity included) as blst_p1_uncompress
   produces them; the oracle [uncompress] and the subgroup test are parameters. *)
Context {C1 : Type}.
Variable uncompress1 : bytes -> option C1.     (* blst_p1_uncompress = BLST_SUCCESS *)
Variable c1_is_inf : C1 -> bool.               (* blst_p1_is_inf *)
Variable c1_in_g1 : C1 -> bool.                (* blst_p1_in_g1 *)
Variable c1_inf : C1.                          (* PublicKey::default() *)

(* PublicKey::from_bytes_unchecked *)
Definition pk_from_bytes_unchecked (b : bytes) : option C1 :=
  match b with
  | b0 :: body =>
      if negb (length b =? 48)%nat then None else
      let zeros_only := is_all_zero body in
      if N.land (b2n b0) 0xc0 =? 0xc0 then
        if negb (b2n b0 =? 0xc0) || negb zeros_only then None      (* G1NotCanonical *)
        else Some c1_inf
      else if negb (N.land (b2n b0) 0xc0 =? 0x80) then None        (* G1InfinityInvalidBits *)
      else if zeros_only then None                                  (* G1InfinityNotZero *)
      else uncompress1 b
  | [] => None
  end.

Definition c1_is_valid (p : C1) : bool := c1_is_inf p || c1_in_g1 p.     (* PublicKey::is_valid *)

(* PublicKey::from_bytes *)
Definition pk_from_bytes (b : bytes) : option C1 :=
  match pk_from_bytes_unchecked b with
  | Some p => if c1_is_valid p then Some p else None
  | None => None
  end.

(* Signature::from_bytes_unchecked is blst_p2_uncompress alone; from_bytes adds is_valid *)
Context {C2 : Type}.
Variable uncompress2 : bytes -> option C2.
Variable c2_is_inf : C2 -> bool.
Variable c2_in_g2 : C2 -> bool.
Definition sig_from_bytes_unchecked (b : bytes) : option C2 :=
  if negb (length b =? 96)%nat then None else uncompress2 b.
Definition c2_is_valid (p : C2) : bool := c2_is_inf p || c2_in_g2 p.
Definition sig_from_bytes (b : bytes) : option C2 :=
  match sig_from_bytes_unchecked b with
  | Some p => if c2_is_valid p then Some p else None
  | None => None
  end.
End Encoding.

(* GTElement::from_bytes / to_bytes are memcpy of the 576-byte blst_fp12 *)
Definition gt_size : nat := 576.
Definition gt_from_bytes (b : bytes) : option bytes := if (length b =? gt_size)%nat then Some b else None.
Definition gt_to_bytes (g : bytes) : bytes := g.
