(* Bls/Verify.v — the five verification paths of chia-bls over the abstract pairing interface
   (crates/chia-bls/src/signature.rs, bls_cache.rs).  Definitions only; proofs in VerifyProofs.v.
   Public keys are elements of G1 (PublicKey::is_valid() holds; infinity = gzero is one of them).
   GT is written additively: "agg *= gt" is gadd. *)
From ChiaV.Base Require Import Bytes.
From ChiaV.Bls Require Import Algebra Cache.
Open Scope N_scope.

Section Verify.
Context {G1 G2 GT : Type}.
Variable P : pairing_ops G1 G2 GT.
Variable H : bytes -> bytes.              (* SHA-256 of the augmented message: the cache key *)

Notation A1 := (o1 P). Notation A2 := (o2 P). Notation AT := (oT P).

Definition pkm := (G1 * bytes)%type.      (* one (public key, message) pair *)

Definition is_inf (pk : G1) : bool := geqb A1 pk (gzero A1).
Definition aug (pk : G1) (m : bytes) : bytes := enc1 P pk ++ m.      (* pk.to_bytes() ++ msg *)
(* hash_to_g2(aug_msg).pair(pk) — what the cache stores *)
Definition pairing_of (pk : G1) (m : bytes) : GT := pair P pk (hash_to_g2 P (aug pk m)).
(* sig.pair(generator) / blst_aggregated_in_g2 *)
Definition sig_gt (s : G2) : GT := pair P (gen1 P) s.

(* secret-key side (sk is a scalar 0 <= sk < r) *)
Definition pk_of (sk : N) : G1 := smul A1 sk (gen1 P).                (* SecretKey::public_key *)
Definition sign_raw (sk : N) (msg : bytes) : G2 := smul A2 sk (hash_to_g2 P msg).
Definition sign (sk : N) (m : bytes) : G2 := sign_raw sk (aug (pk_of sk) m).
Definition aggregate (sigs : list G2) : G2 := gsum A2 sigs.

(* verify(sig, key, msg): blst_core_verify_pk_in_g1 — signature group check, PK_IS_INFINITY,
   then one pairing equation *)
Definition verify (sig : sigpt G2) (pk : G1) (m : bytes) : bool :=
  match sig with
  | SOff => false
  | SIn s => if is_inf pk then false else geqb AT (pairing_of pk m) (sig_gt s)
  end.

(* the loop of aggregate_verify: blst_pairing_aggregate_pk_in_g1 returns BLST_PK_IS_INFINITY
   for an infinity key and the function returns false at that pair *)
Fixpoint agg_loop (pairs : list pkm) (acc : GT) : option GT :=
  match pairs with
  | [] => Some acc
  | (pk, m) :: r => if is_inf pk then None else agg_loop r (gadd AT acc (pairing_of pk m))
  end.

Definition aggregate_verify (sig : sigpt G2) (pairs : list pkm) : bool :=
  match sig with
  | SOff => false                                     (* !sig.is_valid() *)
  | SIn s =>
      match pairs with
      | [] => geqb A2 s (gzero A2)                    (* *sig == Signature::default() *)
      | _ => match agg_loop pairs (gzero AT) with
             | None => false
             | Some a => geqb AT a (sig_gt s)         (* finalverify against sig_gt *)
             end
      end
  end.

(* aggregate_verify_gt: from precomputed pairings *)
Definition aggregate_verify_gt (sig : sigpt G2) (gts : list GT) : bool :=
  match sig with
  | SOff => false
  | SIn s =>
      match gts with
      | [] => geqb A2 s (gzero A2)
      | g :: r => geqb AT (fold_left (gadd AT) r g) (sig_gt s)
      end
  end.

(* aggregate_pairing: product of pairings of (G1, G2) points is the identity *)
Fixpoint pairing_loop (data : list (G1 * sigpt G2)) (acc : GT) : option GT :=
  match data with
  | [] => Some acc
  | (p, SOff) :: _ => None                            (* !g2.is_valid() *)
  | (p, SIn q) :: r => pairing_loop r (gadd AT acc (pair P p q))
  end.
Definition aggregate_pairing (data : list (G1 * sigpt G2)) : bool :=
  match data with
  | [] => true
  | _ => match pairing_loop data (gzero AT) with
         | None => false
         | Some a => geqb AT a (gzero AT)
         end
  end.
(* how a signature is verified with it: the pairs (pk_i, H(pk_i||m_i)) and (-g1, sig) *)
Definition pairing_verify (sig : sigpt G2) (pairs : list pkm) : bool :=
  aggregate_pairing (map (fun x => (fst x, SIn (hash_to_g2 P (aug (fst x) (snd x))))) pairs
                     ++ [(gneg A1 (gen1 P), sig)]).

(* the honest pairing list handed to aggregate_verify_gt *)
Definition gts_of (pairs : list pkm) : list GT := map (fun x => pairing_of (fst x) (snd x)) pairs.

(* ---- BlsCache, sequential view ---- *)
Definition ckey (pk : G1) (m : bytes) : bytes := H (aug pk m).

(* the closure of BlsCache::aggregate_verify for one pair: lookup, else compute and put *)
Definition cached_pairing (c : cache GT) (pk : G1) (m : bytes) : GT * cache GT :=
  match cget c (ckey pk m) with
  | Some g => (g, c)
  | None => let g := pairing_of pk m in (g, cput c (ckey pk m) g)
  end.

Fixpoint cached_gts (c : cache GT) (pairs : list pkm) : list GT * cache GT :=
  match pairs with
  | [] => ([], c)
  | (pk, m) :: r =>
      let '(g, c1) := cached_pairing c pk m in
      let '(gs, c2) := cached_gts c1 r in
      (g :: gs, c2)
  end.

(* BlsCache::aggregate_verify.  aggregate_verify_gt returns before pulling anything from the
   iterator when the signature is invalid, so the cache is untouched in that case.
   [reject_inf] = true is the code after the fix of F-C15-1 (an infinity key makes the result
   false, as in aggregate_verify); [reject_inf] = false is the pinned code. *)
Definition cached_verify_gen (reject_inf : bool) (c : cache GT) (sig : sigpt G2) (pairs : list pkm)
  : bool * cache GT :=
  match sig with
  | SOff => (false, c)
  | SIn _ =>
      let '(gs, c') := cached_gts c pairs in
      (aggregate_verify_gt sig gs && negb (reject_inf && existsb (fun x => is_inf (fst x)) pairs), c')
  end.
Definition cached_verify := cached_verify_gen true.
Definition cached_verify_pinned := cached_verify_gen false.

(* BlsCache::update (aug_msg, gt) and ::evict *)
Definition cache_update (c : cache GT) (aug_msg : bytes) (g : GT) : cache GT := cput c (H aug_msg) g.
Definition cache_evict (c : cache GT) (pairs : list pkm) : cache GT :=
  cremove_all c (map (fun x => ckey (fst x) (snd x)) pairs).
End Verify.
