(* Bls/CacheProofs.v — BlsCacheData as a map: entry predicates, key uniqueness and the capacity
   bound are preserved by put / remove. *)
From ChiaV.Base Require Import Bytes.
From ChiaV.Bls Require Import Cache.
Open Scope N_scope.

Section CacheProofs.
Context {V : Type}.
Variable Q : bytes * V -> Prop.           (* any predicate on entries *)

Implicit Types l : list (bytes * V).

Lemma lget_In k l v : lget k l = Some v -> In (k, v) l.
Proof.
  induction l as [|[k' v'] r IH]; cbn; [discriminate|].
  destruct (bytes_eqb k k') eqn:E.
  - apply bytes_eqb_eq in E. subst. intro X. inversion X. now left.
  - intro X. right. now apply IH.
Qed.

Lemma lget_None_notin k l : lget k l = None -> ~ In k (map fst l).
Proof.
  induction l as [|[k' v'] r IH]; cbn; [tauto|].
  destruct (bytes_eqb k k') eqn:E; [discriminate|].
  intros X [Y|Y]; [subst; now rewrite bytes_eqb_refl in E|now apply IH].
Qed.

Lemma lremove_incl k l x : In x (lremove k l) -> In x l.
Proof.
  induction l as [|[k' v'] r IH]; cbn; [tauto|].
  destruct (bytes_eqb k k'); [now right|]. intros [<-|I]; [now left|right; now apply IH].
Qed.

Lemma lremove_keys_incl k l x : In x (map fst (lremove k l)) -> In x (map fst l).
Proof.
  induction l as [|[k' v'] r IH]; cbn; [tauto|].
  destruct (bytes_eqb k k'); [now right|]. cbn. intros [<-|I]; [now left|right; now apply IH].
Qed.

Lemma Forall_lremove k l : Forall Q l -> Forall Q (lremove k l).
Proof. rewrite !Forall_forall. intros F x I. apply F. eapply lremove_incl; eauto. Qed.

Lemma Forall_tl l : Forall Q l -> Forall Q (tl l).
Proof. destruct l; cbn; [auto|]. intro F. now inversion F. Qed.

Lemma Forall_linsert k v l : Q (k, v) -> Forall Q l -> Forall Q (linsert k v l).
Proof. intros q F. unfold linsert. apply Forall_app. split; [now apply Forall_lremove|now constructor]. Qed.

Lemma lremove_length k l : (length (lremove k l) <= length l)%nat.
Proof.
  induction l as [|[k' v'] r IH]; cbn; [lia|]. destruct (bytes_eqb k k'); cbn; lia.
Qed.

Lemma linsert_length k v l : (length (linsert k v l) <= S (length l))%nat.
Proof. unfold linsert. rewrite app_length. cbn. pose proof (lremove_length k l). lia. Qed.

Lemma NoDup_lremove k l : NoDup (map fst l) -> NoDup (map fst (lremove k l)).
Proof.
  induction l as [|[k' v'] r IH]; cbn; [auto|]. intro N. inversion N as [|? ? Hn Hr]; subst.
  destruct (bytes_eqb k k'); [exact Hr|]. cbn. constructor; [|now apply IH].
  intro I. apply Hn. eapply lremove_keys_incl; eauto.
Qed.

Lemma lremove_notin k l : NoDup (map fst l) -> ~ In k (map fst (lremove k l)).
Proof.
  induction l as [|[k' v'] r IH]; cbn; [tauto|]. intro N. inversion N as [|? ? Hn Hr]; subst.
  destruct (bytes_eqb k k') eqn:E.
  - apply bytes_eqb_eq in E. now subst.
  - cbn. intros [X|X]; [subst; now rewrite bytes_eqb_refl in E|now apply IH].
Qed.

Lemma NoDup_tl (A : Type) (l : list A) : NoDup l -> NoDup (tl l).
Proof. destruct l; cbn; [auto|]. intro N. now inversion N. Qed.

Lemma NoDup_snoc (A : Type) (l : list A) x : NoDup l -> ~ In x l -> NoDup (l ++ [x]).
Proof.
  induction l as [|a r IH]; cbn; intros N I.
  - constructor; [tauto|constructor].
  - inversion N as [|? ? Hn Hr]; subst. constructor.
    + rewrite in_app_iff. cbn. intros [X|[X|[]]]; [contradiction|subst; apply I; now left].
    + apply IH; [exact Hr|]. intro X. apply I. now right.
Qed.

Lemma NoDup_linsert k v l : NoDup (map fst l) -> NoDup (map fst (linsert k v l)).
Proof.
  intro N. unfold linsert. rewrite map_app. cbn.
  apply NoDup_snoc; [now apply NoDup_lremove|now apply lremove_notin].
Qed.

(* ---- the cache ---- *)
Lemma empty_cache_wf cap : 1 <= cap -> cache_wf Q (empty_cache cap).
Proof. intro H. repeat split; cbn; [constructor|constructor|exact H|lia]. Qed.

Lemma cput_capacity (c : cache V) k v : capacity (cput c k v) = capacity c.
Proof. reflexivity. Qed.

Lemma cput_wf c k v : Q (k, v) -> cache_wf Q c -> cache_wf Q (cput c k v).
Proof.
  intros q (F & N & C1 & CL). unfold cput, cache_wf, clen, ckeys in *. cbn [items capacity].
  destruct (N.of_nat (length (items c)) =? capacity c) eqn:E.
  - apply N.eqb_eq in E. repeat split.
    + apply Forall_linsert; [exact q|now apply Forall_tl].
    + apply NoDup_linsert. destruct (items c); cbn in *; [exact N|now inversion N].
    + exact C1.
    + pose proof (linsert_length k v (tl (items c))) as Hl.
      destruct (items c) as [|e r]; cbn [tl length] in *; lia.
  - apply N.eqb_neq in E. repeat split.
    + now apply Forall_linsert.
    + now apply NoDup_linsert.
    + exact C1.
    + pose proof (linsert_length k v (items c)). lia.
Qed.

Lemma cremove_wf c k : cache_wf Q c -> cache_wf Q (cremove c k).
Proof.
  intros (F & N & C1 & CL). unfold cremove, cache_wf, clen, ckeys in *. cbn [items capacity].
  repeat split; [now apply Forall_lremove|now apply NoDup_lremove|exact C1|].
  pose proof (lremove_length k (items c)). lia.
Qed.

Lemma cremove_all_wf ks c : cache_wf Q c -> cache_wf Q (cremove_all c ks).
Proof.
  unfold cremove_all. revert c. induction ks as [|k r IH]; intros c W; cbn; [exact W|].
  apply IH. now apply cremove_wf.
Qed.

Lemma cremove_all_capacity ks (c : cache V) : capacity (cremove_all c ks) = capacity c.
Proof. unfold cremove_all. revert c. induction ks as [|k r IH]; intro c; cbn; [reflexivity|]. now rewrite IH. Qed.

Lemma cget_In (c : cache V) k v : cget c k = Some v -> In (k, v) (items c).
Proof. apply lget_In. Qed.

Lemma cget_Q (c : cache V) k v : cache_wf Q c -> cget c k = Some v -> Q (k, v).
Proof. intros (F & _) G. rewrite Forall_forall in F. apply F. now apply cget_In. Qed.
End CacheProofs.

(* behaviour facts of the LinkedHashMap model that the correspondence stream exercises *)
Section CacheFacts.
Context {V : Type}.

(* a put on a full cache evicts the oldest entry even when the key is already present *)
Lemma cput_full_evicts_first (k0 k : bytes) (v0 v v' : V) rest cap :
  N.of_nat (length ((k0, v0) :: rest)) = cap -> k0 <> k ->
  items (cput {| items := (k0, v0) :: rest; capacity := cap |} k v') = linsert k v' rest.
Proof. intros E _. unfold cput, clen. cbn [items capacity]. rewrite E, N.eqb_refl. reflexivity. Qed.

(* inserting an existing key moves it to the back *)
Lemma linsert_moves_to_back (k : bytes) (v v' : V) l1 l2 :
  ~ In k (map fst l1) ->
  linsert k v' (l1 ++ (k, v) :: l2) = l1 ++ l2 ++ [(k, v')].
Proof.
  intro N. unfold linsert.
  assert (E : lremove k (l1 ++ (k, v) :: l2) = l1 ++ l2).
  { induction l1 as [|[k1 v1] r IH]; cbn.
    - now rewrite bytes_eqb_refl.
    - destruct (bytes_eqb k k1) eqn:E.
      + apply bytes_eqb_eq in E. subst. exfalso. apply N. now left.
      + f_equal. apply IH. intro I. apply N. now right. }
  rewrite E. now rewrite app_assoc.
Qed.
End CacheFacts.
