(* Bls/KeysProofs.v — C16: the scalar layer exactly, and the commutation laws of key derivation,
   key addition and synthetic keys over the abstract pairing interface.  The encoding statements
   at the end are relative to hypotheses about blst's (de)compression and are NOT proved of blst. *)
From Coq Require Import ZArith Lia.
From ChiaV.Base Require Import Bytes.
From ChiaV.Bls Require Import Algebra AlgebraProofs Verify Spec VerifyProofs Keys.
From ChiaV.Gen Require Import BlsConsts.
Open Scope N_scope.

(* the constant the repository writes down is blst's group order *)
Lemma group_order_bytes_is_r : group_order_bytes_value = r_bls.
Proof. reflexivity. Qed.

Lemma r_bls_lt_2_255 : r_bls < 2 ^ 255.
Proof. vm_compute. reflexivity. Qed.

(* ---------------- bytes <-> numbers ---------------- *)
Lemma is_all_zero_be2n b : is_all_zero b = true -> be2n b = 0.
Proof.
  unfold is_all_zero. induction b as [|x b IH] using rev_ind; [reflexivity|].
  rewrite forallb_app. cbn. rewrite Bool.andb_true_r. intro E. apply Bool.andb_true_iff in E. destruct E as [E1 E2].
  apply N.eqb_eq in E2. rewrite be2n_snoc, (IH E1), E2. reflexivity.
Qed.

Lemma be2n_0_all_zero b : be2n b = 0 -> is_all_zero b = true.
Proof.
  unfold is_all_zero. induction b as [|x b IH] using rev_ind; [reflexivity|].
  rewrite be2n_snoc, forallb_app. cbn. intro E.
  assert (be2n b = 0 /\ b2n x = 0) as [E1 E2] by lia.
  rewrite (IH E1), E2. reflexivity.
Qed.

Lemma n2be_be2n_len n b : length b = n -> n2be n (be2n b) = b.
Proof. intros <-. apply n2be_be2n. Qed.

(* ---------------- SecretKey::from_bytes / to_bytes ---------------- *)
Section SkBytes.
Variable r : N.

Theorem sk_roundtrip sk : r <= 2 ^ 256 -> sk < r -> sk_from_bytes r (sk_to_bytes sk) = Some sk.
Proof.
  intros r_small Hs. unfold sk_from_bytes, sk_to_bytes. rewrite n2be_length. cbn [Nat.eqb negb].
  assert (E : be2n (n2be 32 sk) = sk) by (apply be2n_n2be; change (256 ^ N.of_nat 32) with (2 ^ 256); lia).
  destruct (is_all_zero (n2be 32 sk)) eqn:Z.
  - apply is_all_zero_be2n in Z. rewrite E in Z. now subst.
  - rewrite E. apply N.ltb_lt in Hs. now rewrite Hs.
Qed.

(* checked parsing accepts exactly the 32-byte strings whose value is below r; the accepted
   string is THE encoding of the key (unique) *)
Theorem sk_from_bytes_spec b sk :
  sk_from_bytes r b = Some sk <-> length b = 32%nat /\ be2n b = sk /\ (sk = 0 \/ sk < r).
Proof.
  unfold sk_from_bytes. destruct (Nat.eqb_spec (length b) 32) as [Hl|Hl]; cbn [negb].
  2:{ split; [discriminate|intros [X _]; contradiction]. }
  destruct (is_all_zero b) eqn:Z.
  - pose proof (is_all_zero_be2n b Z) as E. split.
    + intro X. inversion X; subst. auto.
    + intros (_ & E2 & _). congruence.
  - destruct (N.ltb_spec (be2n b) r) as [Hlt|Hge].
    + split; [intro X; inversion X; subst; auto|intros (_ & E2 & _); congruence].
    + split; [discriminate|]. intros (_ & E2 & [E0|Hlt]).
      * subst. rewrite (be2n_0_all_zero b) in Z by assumption. discriminate.
      * lia.
Qed.

Theorem sk_encoding_unique b sk : sk_from_bytes r b = Some sk -> sk_to_bytes sk = b.
Proof.
  intro X. apply sk_from_bytes_spec in X. destruct X as (Hl & <- & _). now apply n2be_be2n_len.
Qed.
End SkBytes.

(* ---------------- mod_by_group_order ---------------- *)
Lemma rem_rem_is_mod v g : (0 < g)%Z -> Z.rem (Z.rem v g + g) g = (v mod g)%Z.
Proof.
  intro Hg.
  assert (Hpos : (0 <= Z.rem v g + g)%Z).
  { destruct (Z.le_gt_cases 0 v) as [Hv|Hv].
    - pose proof (Z.rem_bound_pos v g Hv Hg). lia.
    - assert (Hv' : (v <= 0)%Z) by lia. pose proof (Z.rem_bound_pos_neg v g Hg Hv'). lia. }
  rewrite Z.rem_mod_nonneg by lia.
  pose proof (Z.quot_rem' v g) as E.
  replace (Z.rem v g + g)%Z with (v + (1 - Z.quot v g) * g)%Z by lia.
  apply Z_mod_plus_full.
Qed.

Theorem mod_by_group_order_spec b :
  mod_by_group_order b = n2be 32 (Z.to_N ((signed_be b mod Z.of_N r_bls + Z.of_N r_bls) mod Z.of_N r_bls)).
Proof.
  unfold mod_by_group_order, mod_by_group_order_gen. rewrite group_order_bytes_is_r.
  rewrite rem_rem_is_mod by reflexivity. f_equal. f_equal.
  rewrite Z.add_mod_idemp_l by discriminate. rewrite <- (Z.mul_1_l (Z.of_N r_bls)) at 2.
  now rewrite Z_mod_plus_full.
Qed.

Lemma mod_by_group_order_value b :
  be2n (mod_by_group_order b) = Z.to_N (signed_be b mod Z.of_N r_bls) /\
  be2n (mod_by_group_order b) < r_bls /\ length (mod_by_group_order b) = 32%nat.
Proof.
  unfold mod_by_group_order, mod_by_group_order_gen. rewrite group_order_bytes_is_r.
  rewrite rem_rem_is_mod by reflexivity.
  pose proof (Z.mod_pos_bound (signed_be b) (Z.of_N r_bls) ltac:(reflexivity)) as B.
  assert (Hlt : Z.to_N (signed_be b mod Z.of_N r_bls) < r_bls) by lia.
  rewrite n2be_length, be2n_n2be.
  - auto.
  - pose proof r_bls_lt_2_255. change (256 ^ N.of_nat 32) with (2 ^ 256).
    assert (2 ^ 255 < 2 ^ 256) by (vm_compute; reflexivity). lia.
Qed.

(* ---------------- the byte-order detour of PublicKey::derive_unhardened ---------------- *)
Theorem pk_derive_scalar_is_be digest : length digest = 32%nat -> pk_derive_scalar digest = be2n digest.
Proof.
  intro Hl. unfold pk_derive_scalar, le2n.
  rewrite (n2be_be2n_len 32 (rev digest)) by (now rewrite rev_length).
  now rewrite rev_involutive.
Qed.

(* ---------------- group layer ---------------- *)
Section DeriveProofs.
Context {G1 G2 GT : Type}.
Variable P : pairing_ops G1 G2 GT.
Hypothesis L : pairing_laws P.
Variable H : bytes -> bytes.
Hypothesis H_len : forall x, length (H x) = 32%nat.     (* SHA-256 digests are 32 bytes *)

Let L1 := laws1 P L.
Notation r := (order P).
Notation A1 := (o1 P).

Lemma pk_of_mod sk : pk_of P (sk mod r) = pk_of P sk.
Proof. apply (smul1_mod P L). Qed.

(* adding secret keys commutes with adding public keys *)
Theorem pk_of_sk_add a b : pk_of P (sk_add r a b) = gadd A1 (pk_of P a) (pk_of P b).
Proof. unfold sk_add, sk_add_n_check. cbn [fst]. rewrite pk_of_mod. apply (smul_add _ L1). Qed.

(* SecretKey::derive_unhardened never returns Err; it panics exactly when blst reports a zero scalar *)
Theorem sk_derive_unhardened_cases sk idx :
  let d := be2n (derive_digest P H (pk_of P sk) idx) in
  (sk_derive_unhardened P H sk idx = Panic /\ (d mod r = 0 \/ (d mod r + sk) mod r = 0)) \/
  (sk_derive_unhardened P H sk idx = Ok ((d mod r + sk) mod r) /\ d mod r <> 0 /\ (d mod r + sk) mod r <> 0).
Proof.
  intro d. unfold sk_derive_unhardened, sk_derive_unhardened_digest, scalar_from_be_bytes, sk_add_n_check.
  fold d. destruct (N.eqb_spec (d mod r) 0) as [E|E]; cbn [negb]; [left; auto|].
  destruct (N.eqb_spec ((d mod r + sk) mod r) 0) as [E2|E2]; cbn [negb]; [left; auto|right; auto].
Qed.

(* pk (derive_unhardened sk i) = derive_unhardened (pk sk) i *)
Theorem derive_unhardened_commutes sk idx sk' :
  sk_derive_unhardened P H sk idx = Ok sk' ->
  pk_of P sk' = pk_derive_unhardened P H (pk_of P sk) idx.
Proof.
  intro E. destruct (sk_derive_unhardened_cases sk idx) as [[E1 _]|[E1 _]]; rewrite E1 in E; [discriminate|].
  inversion E; subst sk'; clear E.
  unfold pk_derive_unhardened. rewrite pk_derive_scalar_is_be by apply H_len.
  rewrite pk_of_mod. unfold pk_of. rewrite (smul_add _ L1), (smul1_mod P L). reflexivity.
Qed.

(* paths are folds, so the law lifts to every path *)
Theorem derive_path_commutes path sk sk' :
  sk_derive_path_from P H sk path = Ok sk' ->
  pk_of P sk' = pk_derive_path_from P H (pk_of P sk) path.
Proof.
  revert sk. induction path as [|i rest IH]; intros sk E; cbn [sk_derive_path_from] in E.
  - inversion E. reflexivity.
  - unfold pk_derive_path_from. cbn [fold_left]. fold (pk_derive_path_from P H).
    destruct (sk_derive_unhardened P H sk i) as [s| |] eqn:E1; try discriminate.
    rewrite <- (derive_unhardened_commutes sk i s E1). now apply IH.
Qed.

Theorem derive_path_commutes_checked path sk sk' :
  sk_derive_path P H sk path = Ok sk' ->
  pk_derive_path P H (pk_of P sk) path = Ok (pk_of P sk').
Proof.
  unfold sk_derive_path, pk_derive_path. destruct path as [|i rest]; [discriminate|].
  intro E. now rewrite (derive_path_commutes _ _ _ E).
Qed.

Corollary master_to_wallet_unhardened_commutes sk idx sk' :
  master_to_wallet_unhardened_sk P H sk idx = Ok sk' ->
  master_to_wallet_unhardened_pk P H (pk_of P sk) idx = Ok (pk_of P sk').
Proof. apply derive_path_commutes_checked. Qed.

(* the wallet path is the intermediate path followed by one more step *)
Lemma sk_path_app p1 p2 sk :
  sk_derive_path_from P H sk (p1 ++ p2) =
  match sk_derive_path_from P H sk p1 with Ok s => sk_derive_path_from P H s p2 | e => e end.
Proof.
  revert sk. induction p1 as [|i r1 IH]; intro sk; cbn [app sk_derive_path_from]; [reflexivity|].
  destruct (sk_derive_unhardened P H sk i); auto.
Qed.

(* ---- synthetic keys ---- *)
Hypothesis order_is_repo_constant : r = group_order_bytes_value.

Theorem synthetic_offset_total pk hidden :
  synthetic_offset P H pk hidden =
  Ok (Z.to_N (signed_be (H (enc1 P pk ++ hidden)) mod Z.of_N r_bls)).
Proof.
  unfold synthetic_offset. destruct (mod_by_group_order_value (H (enc1 P pk ++ hidden))) as (Ev & Elt & El).
  destruct (sk_from_bytes r (mod_by_group_order (H (enc1 P pk ++ hidden)))) as [s|] eqn:E.
  - apply sk_from_bytes_spec in E. destruct E as (_ & <- & _). now rewrite Ev.
  - exfalso. assert (X : sk_from_bytes r (mod_by_group_order (H (enc1 P pk ++ hidden))) =
                          Some (be2n (mod_by_group_order (H (enc1 P pk ++ hidden))))).
    { apply sk_from_bytes_spec. split; [exact El|]. split; [reflexivity|right].
      rewrite order_is_repo_constant, group_order_bytes_is_r. exact Elt. }
    congruence.
Qed.

(* pk (derive_synthetic sk) = derive_synthetic (pk sk) *)
Theorem derive_synthetic_commutes sk hidden :
  exists s, sk_derive_synthetic P H sk hidden = Ok s /\
            pk_derive_synthetic P H (pk_of P sk) hidden = Ok (pk_of P s).
Proof.
  unfold sk_derive_synthetic, pk_derive_synthetic. rewrite synthetic_offset_total.
  eexists. split; [reflexivity|]. now rewrite pk_of_sk_add.
Qed.

(* ---- signing ---- *)
(* signing is a function of the key modulo r and the message, and honest signatures verify *)
Theorem sign_mod sk m : sign P (sk mod r) m = sign P sk m.
Proof. unfold sign, sign_raw. now rewrite pk_of_mod, (smul2_mod P L). Qed.

Theorem sign_verifies sk m :
  pk_of P sk <> gzero A1 -> verify P (SIn (sign P sk m)) (pk_of P sk) m = true.
Proof.
  intro N. rewrite (verify_agrees P L).
  change [(pk_of P sk, m)] with (pairs_of P [(sk, m)]).
  apply (aggregate_verify_spec P L). split.
  - intros x [<-|[]]. exact N.
  - unfold honest_sig, aggregate. cbn [map fst snd]. rewrite (gsum_cons _ (laws2 P L)), gsum_nil.
    now rewrite (gadd_0_r _ (laws2 P L)).
Qed.

(* signatures are additive in the key: what makes aggregate keys / synthetic keys sign consistently *)
Theorem sign_raw_additive a b msg :
  sign_raw P (sk_add r a b) msg = gadd (o2 P) (sign_raw P a msg) (sign_raw P b msg).
Proof.
  unfold sign_raw, sk_add, sk_add_n_check. cbn [fst]. rewrite (smul2_mod P L). apply (smul_add _ (laws2 P L)).
Qed.
End DeriveProofs.

(* ---------------- encodings, relative to hypotheses about blst (NOT proved of blst) ---------------- *)
Section EncodingPartial.
Context {C1 : Type}.
Variable uncompress1 : bytes -> option C1.
Variable compress1 : C1 -> bytes.                 (* blst_p1_compress *)
Variable c1_is_inf c1_in_g1 : C1 -> bool.
Variable c1_inf : C1.

Definition inf48 : bytes := n2b 0xc0 :: repeat_byte 47 x00.

(* what is assumed of blst *)
Hypothesis uncompress_compress : forall p, uncompress1 (compress1 p) = Some p.
Hypothesis uncompress_canonical : forall b p, uncompress1 b = Some p -> compress1 p = b.
Hypothesis compress_len : forall p, length (compress1 p) = 48%nat.
Hypothesis inf_unique : forall p, c1_is_inf p = true -> p = c1_inf.
Hypothesis inf_is_inf : c1_is_inf c1_inf = true.
Hypothesis compress_inf : compress1 c1_inf = inf48.
Hypothesis compress_flags : forall p, c1_is_inf p = false ->
  match compress1 p with b0 :: _ => N.land (b2n b0) 0xc0 = 0x80 | [] => False end.
Hypothesis subgroup_body_nonzero : forall p, c1_is_inf p = false -> c1_in_g1 p = true ->
  is_all_zero (tl (compress1 p)) = false.

Notation from_unchecked := (pk_from_bytes_unchecked uncompress1 c1_inf).
Notation from_checked := (pk_from_bytes uncompress1 c1_is_inf c1_in_g1 c1_inf).
Notation is_valid := (c1_is_valid c1_is_inf c1_in_g1).

(* unchecked parsing accepts a superset of checked parsing *)
Theorem pk_unchecked_superset b p : from_checked b = Some p -> from_unchecked b = Some p.
Proof.
  unfold pk_from_bytes. destruct (from_unchecked b) as [q|]; [|discriminate].
  destruct (is_valid q); [|discriminate]. auto.
Qed.

(* checked parsing only returns points of the subgroup (or infinity): nothing else is accepted *)
Theorem pk_checked_only_subgroup b p : from_checked b = Some p -> is_valid p = true.
Proof.
  unfold pk_from_bytes. destruct (from_unchecked b) as [q|]; [|discriminate].
  destruct (is_valid q) eqn:E; [|discriminate]. intro X. inversion X; subst. exact E.
Qed.

Theorem pk_checked_rejects_nonsubgroup b p :
  from_unchecked b = Some p -> is_valid p = false -> from_checked b = None.
Proof. intros E V. unfold pk_from_bytes. now rewrite E, V. Qed.

(* an accepted string is the unique encoding of the point *)
Theorem pk_encoding_unique_partial b p : from_unchecked b = Some p -> compress1 p = b.
Proof.
  unfold pk_from_bytes_unchecked. destruct b as [|b0 body]; [discriminate|].
  destruct (Nat.eqb_spec (length (b0 :: body)) 48) as [Hl|Hl]; cbn [negb]; [|discriminate].
  destruct (N.land (b2n b0) 192 =? 192) eqn:F1.
  - destruct (N.eqb_spec (b2n b0) 192) as [E0|E0]; cbn [negb orb]; [|discriminate].
    destruct (is_all_zero body) eqn:Z; cbn [negb]; [|discriminate].
    intro X. inversion X; subst p. rewrite compress_inf. unfold inf48.
    f_equal; [now rewrite <- E0, n2b_b2n|].
    cbn [length] in Hl. assert (Hb : length body = 47%nat) by lia. clear -Z Hb.
    revert Hb. generalize 47%nat. induction body as [|x r IH]; intros n Hb; destruct n; try discriminate; [reflexivity|].
    cbn in Z. apply Bool.andb_true_iff in Z. destruct Z as [Z1 Z2]. apply N.eqb_eq in Z1.
    cbn [repeat_byte]. f_equal; [|apply IH; [exact Z2|now inversion Hb]].
    apply b2n_inj. rewrite Z1. reflexivity.
  - destruct (N.land (b2n b0) 192 =? 128); cbn [negb]; [|discriminate].
    destruct (is_all_zero body); [discriminate|]. apply uncompress_canonical.
Qed.

(* round trip of every valid key *)
Theorem pk_roundtrip_partial p : is_valid p = true -> from_checked (compress1 p) = Some p.
Proof.
  intro V. unfold pk_from_bytes.
  assert (U : from_unchecked (compress1 p) = Some p).
  { unfold pk_from_bytes_unchecked. destruct (c1_is_inf p) eqn:I.
    - rewrite (inf_unique p I), compress_inf. reflexivity.
    - pose proof (compress_flags p I) as F. pose proof (compress_len p) as Hl.
      unfold c1_is_valid in V. rewrite I in V. cbn [orb] in V.
      pose proof (subgroup_body_nonzero p I V) as Z.
      destruct (compress1 p) as [|b0 body] eqn:E; [contradiction|].
      rewrite Hl. cbn [Nat.eqb negb]. rewrite F. cbn [N.eqb negb]. change (128 =? 192) with false. cbn [tl] in Z.
      rewrite Z. change (128 =? 128) with true. cbn [negb]. rewrite <- E. apply uncompress_compress. }
  now rewrite U, V.
Qed.
End EncodingPartial.

Section SigEncodingPartial.
Context {C2 : Type}.
Variable uncompress2 : bytes -> option C2.
Variable compress2 : C2 -> bytes.                 (* blst_p2_compress *)
Variable c2_is_inf c2_in_g2 : C2 -> bool.
Hypothesis uncompress2_compress : forall p, uncompress2 (compress2 p) = Some p.
Hypothesis uncompress2_canonical : forall b p, uncompress2 b = Some p -> compress2 p = b.
Hypothesis compress2_len : forall p, length (compress2 p) = 96%nat.

Notation from_unchecked := (sig_from_bytes_unchecked uncompress2).
Notation from_checked := (sig_from_bytes uncompress2 c2_is_inf c2_in_g2).
Notation is_valid := (c2_is_valid c2_is_inf c2_in_g2).

Theorem sig_unchecked_superset b p : from_checked b = Some p -> from_unchecked b = Some p.
Proof.
  unfold sig_from_bytes. destruct (from_unchecked b) as [q|]; [|discriminate].
  destruct (is_valid q); [|discriminate]. auto.
Qed.

Theorem sig_checked_only_subgroup b p : from_checked b = Some p -> is_valid p = true.
Proof.
  unfold sig_from_bytes. destruct (from_unchecked b) as [q|]; [|discriminate].
  destruct (is_valid q) eqn:E; [|discriminate]. intro X. inversion X; subst. exact E.
Qed.

Theorem sig_checked_rejects_nonsubgroup b p :
  from_unchecked b = Some p -> is_valid p = false -> from_checked b = None.
Proof. intros E V. unfold sig_from_bytes. now rewrite E, V. Qed.

Theorem sig_encoding_unique_partial b p : from_unchecked b = Some p -> compress2 p = b.
Proof.
  unfold sig_from_bytes_unchecked. destruct (negb (length b =? 96)%nat); [discriminate|]. apply uncompress2_canonical.
Qed.

Theorem sig_roundtrip_partial p : is_valid p = true -> from_checked (compress2 p) = Some p.
Proof.
  intro V. unfold sig_from_bytes, sig_from_bytes_unchecked. rewrite compress2_len. cbn [Nat.eqb negb].
  now rewrite uncompress2_compress, V.
Qed.
End SigEncodingPartial.

(* GTElement: from_bytes / to_bytes copy the 576 bytes *)
Theorem gt_roundtrip g : length g = gt_size -> gt_from_bytes (gt_to_bytes g) = Some g.
Proof. intro Hl. unfold gt_from_bytes, gt_to_bytes. now rewrite Hl, Nat.eqb_refl. Qed.
Theorem gt_encoding_unique b g : gt_from_bytes b = Some g -> gt_to_bytes g = b.
Proof. unfold gt_from_bytes, gt_to_bytes. destruct (length b =? gt_size)%nat; [|discriminate]. now intros [= ->]. Qed.

(* ---------------- the secret-key statements at blst's group order ---------------- *)
Lemma r_bls_le_2_256 : r_bls <= 2 ^ 256.
Proof. vm_compute. discriminate. Qed.

Corollary sk_roundtrip_bls sk : sk < r_bls -> sk_from_bytes r_bls (sk_to_bytes sk) = Some sk.
Proof. apply sk_roundtrip, r_bls_le_2_256. Qed.

Lemma sig_checked_both (C2 : Type) (uncompress2 : bytes -> option C2) (c2_is_inf c2_in_g2 : C2 -> bool) b p :
  sig_from_bytes uncompress2 c2_is_inf c2_in_g2 b = Some p ->
  c2_is_valid c2_is_inf c2_in_g2 p = true /\ sig_from_bytes_unchecked uncompress2 b = Some p.
Proof.
  intro E. split; [eapply sig_checked_only_subgroup; eauto|eapply sig_unchecked_superset; eauto].
Qed.

Lemma gt_both g : length g = gt_size -> gt_from_bytes (gt_to_bytes g) = Some g /\
  (forall b, gt_from_bytes b = Some g -> gt_to_bytes g = b).
Proof. intro Hl. split; [now apply gt_roundtrip|intros b; apply gt_encoding_unique]. Qed.
