(* Bls/Spec.v — the declarative vocabulary of the C15 statements (no proofs). *)
From ChiaV.Base Require Import Bytes.
From ChiaV.Bls Require Import Algebra Cache Verify Sched.
Open Scope N_scope.

Section Spec.
Context {G1 G2 GT : Type}.
Variable P : pairing_ops G1 G2 GT.
Variable H : bytes -> bytes.

(* no key of the list is the point at infinity *)
Definition no_inf (pairs : list (pkm (G1:=G1))) : Prop := forall x, In x pairs -> fst x <> gzero (o1 P).

(* the pair list of a list of (secret key, message), and the aggregate of the honest signatures *)
Definition pairs_of (sks : list (N * bytes)) : list (pkm (G1:=G1)) :=
  map (fun x => (pk_of P (fst x), snd x)) sks.
Definition honest_sig (sks : list (N * bytes)) : G2 :=
  aggregate P (map (fun x => sign P (fst x) (snd x)) sks).

(* every entry (k -> g) has k = H(pk||m) and g = e(pk, H2(pk||m)) for some pk, m *)
Definition entry_ok (e : bytes * GT) : Prop :=
  exists pk m, fst e = ckey P H pk m /\ snd e = pairing_of P pk m.

(* entries honest, keys distinct, 1 <= capacity, len <= capacity *)
Definition cache_ok (c : cache GT) : Prop := cache_wf entry_ok c.

(* update() is called with the pairing that belongs to the augmented message *)
Definition call_ok (k : call (G1:=G1) (G2:=G2) (GT:=GT)) : Prop :=
  match k with
  | CUpdate a g => exists pk m, a = aug P pk m /\ g = pairing_of P pk m
  | _ => True
  end.

(* what a thread observed: verdicts equal the uncached verifier (or a collision of H is
   exhibited), observed lengths never exceed the capacity *)
Definition out_ok (cap : N) (o : out (G1:=G1) (G2:=G2)) : Prop :=
  match o with
  | OVerdict pairs sig b => b = aggregate_verify P sig pairs \/ collision H
  | OLen n => n <= cap
  end.

Definition verdicts_transparent (cap : N) (ts : list (thread (G1:=G1) (G2:=G2) (GT:=GT))) : Prop :=
  forall t o, In t ts -> In o (t_outs t) -> out_ok cap o.

(* what a program asks for and what a thread answered, without the answers *)
Inductive obs : Type :=
| ObsV (pairs : list (pkm (G1:=G1))) (sig : sigpt G2)
| ObsL.
Definition call_obs (k : call (G1:=G1) (G2:=G2) (GT:=GT)) : list obs :=
  match k with CVerify p s => [ObsV p s] | CLen => [ObsL] | _ => [] end.
Definition out_obs (o : out (G1:=G1) (G2:=G2)) : obs :=
  match o with OVerdict p s _ => ObsV p s | OLen _ => ObsL end.
Definition prog_obs (calls : list (call (G1:=G1) (G2:=G2) (GT:=GT))) : list obs := flat_map call_obs calls.
(* the answers of a thread, oldest first *)
Definition thread_obs (t : thread (G1:=G1) (G2:=G2) (GT:=GT)) : list obs := map out_obs (rev (t_outs t)).

Definition phase_ok (ph : phase (G1:=G1) (G2:=G2) (GT:=GT)) : Prop := Forall (Forall call_ok) (fst ph).

Definition phase_result_ok (cap : N) (x : cache GT * list (thread (G1:=G1) (G2:=G2) (GT:=GT))) : Prop :=
  cache_ok (fst x) /\ clen (fst x) <= cap /\ all_finished (snd x) = true /\ verdicts_transparent cap (snd x).
End Spec.
