(* Bls/SchedProofs.v — C15 parts 2 and 3: the cache invariant is preserved by every atomic step of
   every thread under every schedule, and hence every verdict a BlsCache ever returns equals
   aggregate_verify on the same input — for every capacity, every prior history (any cache
   satisfying the invariant), every set of thread programs and every interleaving — or a collision
   of the cache-key hash H is exhibited. *)
From ChiaV.Base Require Import Bytes.
From ChiaV.Bls Require Import Algebra AlgebraProofs Cache CacheProofs Verify Sched Spec VerifyProofs.
Open Scope N_scope.

Section SchedProofs.
Context {G1 G2 GT : Type}.
Variable P : pairing_ops G1 G2 GT.
Hypothesis L : pairing_laws P.
Variable H : bytes -> bytes.

Let L1 := laws1 P L.
Let L2 := laws2 P L.
Let LT := lawsT P L.

Notation entry_ok := (entry_ok P H).
Notation cache_ok := (cache_ok P H).
Notation call_ok := (call_ok P).
Notation out_ok := (out_ok P H).
Notation verdicts_transparent := (verdicts_transparent P H).
Notation phase_ok := (phase_ok P).
Notation phase_result_ok := (phase_result_ok P H).

Definition vstate_ok (v : vstate (G1:=G1) (G2:=G2) (GT:=GT)) : Prop :=
  match v_pend v with Some kg => entry_ok kg | None => True end /\
  exists done, v_pairs v = done ++ v_todo v /\ (rev (v_acc v) = gts_of P done \/ collision H).

Definition thread_ok (cap : N) (t : thread (G1:=G1) (G2:=G2) (GT:=GT)) : Prop :=
  match t_cur t with Some v => vstate_ok v | None => True end /\
  Forall call_ok (t_calls t) /\ Forall (out_ok cap) (t_outs t).

(* ---- equal cache keys: equal pair, or a collision ---- *)
Lemma app_same_length_inj (A : Type) (a a' m m' : list A) :
  length a = length a' -> a ++ m = a' ++ m' -> a = a' /\ m = m'.
Proof.
  revert a'. induction a as [|x a IH]; intros [|x' a'] Hl E; cbn in *; try discriminate.
  - now split.
  - inversion E; subst. destruct (IH a') as [-> ->]; auto.
Qed.

Lemma aug_inj pk m pk' m' : aug P pk m = aug P pk' m' -> pk = pk' /\ m = m'.
Proof.
  unfold aug. intro E. apply app_same_length_inj in E; [|now rewrite !(enc1_len P L)].
  destruct E as [E1 E2]. apply (enc1_inj P L) in E1. now split.
Qed.

Lemma hit_is_honest c pk m g :
  cache_ok c -> cget c (ckey P H pk m) = Some g -> g = pairing_of P pk m \/ collision H.
Proof.
  intros W G. destruct (cget_Q entry_ok c _ _ W G) as (pk' & m' & Ek & Eg). cbn [fst snd] in *.
  destruct (list_eq_dec Byte.byte_eq_dec (aug P pk m) (aug P pk' m')) as [E|N].
  - apply aug_inj in E. destruct E; subst. now left.
  - right. exists (aug P pk m), (aug P pk' m'). split; [exact N|exact Ek].
Qed.

Lemma gts_of_snoc done pk m : gts_of P (done ++ [(pk, m)]) = gts_of P done ++ [pairing_of P pk m].
Proof. unfold gts_of. now rewrite map_app. Qed.

(* ---- the lock-free parts ---- *)
Lemma advance_calls_ok cap calls outs :
  Forall call_ok calls -> Forall (out_ok cap) outs -> thread_ok cap (advance_calls P calls outs).
Proof.
  revert outs. induction calls as [|k r IH]; intros outs Fc Fo; cbn [advance_calls].
  - repeat split; auto.
  - inversion Fc as [|? ? Hk Hr]; subst.
    destruct k as [pairs sig| | |]; try (repeat split; auto; fail).
    destruct sig as [s|].
    + destruct pairs as [|x pairs'].
      * apply IH; [exact Hr|]. constructor; [|exact Fo]. left. reflexivity.
      * unfold thread_ok. cbn [t_cur t_calls t_outs]. repeat split; auto.
        exists []. split; [reflexivity|left; reflexivity].
    + apply IH; [exact Hr|]. constructor; [|exact Fo]. left. reflexivity.
Qed.

Lemma finish_verify_ok cap v :
  vstate_ok v -> v_todo v = [] -> out_ok cap (finish_verify P true v).
Proof.
  intros [_ (done & Ep & [Ea|C])] Et; [|now right]. left.
  rewrite Et, app_nil_r in Ep. subst done. rewrite Ea. cbn [andb].
  destruct (existsb (fun x => is_inf P (fst x)) (v_pairs v)) eqn:E.
  - rewrite Bool.andb_false_r. symmetry. apply (infinity_key_never_valid P L).
    intro N. apply (existsb_inf_false P L) in N. congruence.
  - rewrite Bool.andb_true_r. apply (aggregate_verify_gt_agrees P L). now apply (existsb_inf_false P L).
Qed.

Lemma advance_ok cap t : thread_ok cap t -> thread_ok cap (advance P true t).
Proof.
  intros (Hc & Fc & Fo). unfold advance. destruct (t_cur t) as [v|] eqn:Ec.
  - destruct (v_todo v) eqn:Et; [|repeat split; [now rewrite Ec|auto|auto]].
    destruct (v_pend v) eqn:Ep; [repeat split; [now rewrite Ec|auto|auto]|].
    apply advance_calls_ok; [exact Fc|]. constructor; [|exact Fo]. now apply finish_verify_ok.
  - now apply advance_calls_ok.
Qed.

Lemma start_ok cap calls : Forall call_ok calls -> thread_ok cap (start P calls).
Proof. intro F. apply advance_calls_ok; [exact F|constructor]. Qed.

(* ---- one critical section ---- *)
Lemma crit_ok c t :
  cache_ok c -> thread_ok (capacity c) t ->
  cache_ok (fst (crit P H c t)) /\ thread_ok (capacity c) (snd (crit P H c t)) /\
  capacity (fst (crit P H c t)) = capacity c.
Proof.
  intros W (Hc & Fc & Fo). unfold crit.
  destruct (t_cur t) as [v|] eqn:Ec.
  - destruct Hc as [Hp (done & Ed & Ea)].
    destruct (v_pend v) as [[k g]|] eqn:Ep.
    + (* lock; put *)
      cbn [fst snd]. split; [now apply cput_wf|]. split; [|reflexivity].
      unfold thread_ok, vstate_ok. cbn [t_cur t_calls t_outs v_pend v_pairs v_todo v_acc].
      repeat split; auto. now exists done.
    + destruct (v_todo v) as [|[pk m] r] eqn:Et.
      * cbn [fst snd]. split; [exact W|]. split; [|reflexivity].
        unfold thread_ok. rewrite Ec. repeat split; auto.
        -- unfold vstate_ok. now rewrite Ep.
        -- exists done. now rewrite Et.
      * (* lock; get *)
        assert (Ed' : v_pairs v = (done ++ [(pk, m)]) ++ r) by (now rewrite <- app_assoc).
        destruct (cget c (ckey P H pk m)) as [g|] eqn:Eg; cbn [fst snd].
        -- split; [exact W|]. split; [|reflexivity].
           unfold thread_ok, vstate_ok. cbn [t_cur t_calls t_outs v_pend v_pairs v_todo v_acc].
           repeat split; auto. exists (done ++ [(pk, m)]). split; [exact Ed'|].
           destruct Ea as [Ea|C]; [|now right].
           destruct (hit_is_honest c pk m g W Eg) as [->|C]; [|now right].
           left. cbn [rev]. now rewrite Ea, gts_of_snoc.
        -- split; [exact W|]. split; [|reflexivity].
           unfold thread_ok, vstate_ok. cbn [t_cur t_calls t_outs v_pend v_pairs v_todo v_acc].
           repeat split; auto.
           ++ now exists pk, m.
           ++ exists (done ++ [(pk, m)]). split; [exact Ed'|].
              destruct Ea as [Ea|C]; [|now right]. left. cbn [rev]. now rewrite Ea, gts_of_snoc.
  - destruct (t_calls t) as [|k r] eqn:Ek.
    + cbn [fst snd]. split; [exact W|]. split; [|reflexivity].
      unfold thread_ok. rewrite Ec, Ek. auto.
    + inversion Fc as [|? ? Hk Hr]; subst.
      destruct k as [pairs sig|a g|pairs|]; cbn [fst snd].
      * split; [exact W|]. split; [|reflexivity]. unfold thread_ok. rewrite Ec, Ek. auto.
      * destruct Hk as (pk & m & -> & ->).
        split; [apply cput_wf; [now exists pk, m|exact W]|]. split; [|reflexivity].
        unfold thread_ok. cbn [t_cur t_calls t_outs]. auto.
      * split; [now apply cremove_all_wf|]. split; [|apply cremove_all_capacity].
        unfold thread_ok. cbn [t_cur t_calls t_outs]. auto.
      * split; [exact W|]. split; [|reflexivity].
        unfold thread_ok. cbn [t_cur t_calls t_outs]. repeat split; auto.
        constructor; [|exact Fo]. cbn. now destruct W as (_ & _ & _ & Hl).
Qed.

Lemma tstep_ok c t :
  cache_ok c -> thread_ok (capacity c) t ->
  cache_ok (fst (tstep P H true c t)) /\ thread_ok (capacity c) (snd (tstep P H true c t)) /\
  capacity (fst (tstep P H true c t)) = capacity c.
Proof.
  intros W T. unfold tstep. destruct (finished t); [cbn; auto|].
  destruct (crit_ok c t W T) as (W' & T' & C'). destruct (crit P H c t) as [c' t']. cbn [fst snd] in *.
  split; [exact W'|]. split; [now apply advance_ok|exact C'].
Qed.

(* ---- any thread, any schedule ---- *)
Definition gstate_ok (cap : N) (g : gstate (G1:=G1) (G2:=G2) (GT:=GT)) : Prop :=
  cache_ok (fst g) /\ capacity (fst g) = cap /\ Forall (thread_ok cap) (snd g).

Lemma step_nth_ok cap c ts i :
  gstate_ok cap (c, ts) -> gstate_ok cap (step_nth P H true c ts i).
Proof.
  revert c i. induction ts as [|t r IH]; intros c i (W & C & F); cbn [fst snd] in *.
  - destruct i; cbn [step_nth]; (split; [exact W|split; [exact C|constructor]]).
  - inversion F as [|? ? Ht Hr]; subst. destruct i as [|j]; cbn [step_nth].
    + destruct (tstep_ok c t W Ht) as (W' & T' & C'). destruct (tstep P H true c t) as [c' t'].
      cbn [fst snd] in *. split; [exact W'|split; [exact C'|constructor; [exact T'|exact Hr]]].
    + specialize (IH c j (conj W (conj eq_refl Hr))).
      destruct (step_nth P H true c r j) as [c' r']. destruct IH as (W' & C' & F'). cbn [fst snd] in *.
      split; [exact W'|split; [exact C'|constructor; [exact Ht|exact F']]].
Qed.

Lemma run_schedule_ok cap g sched :
  gstate_ok cap g -> gstate_ok cap (run_schedule P H true g sched).
Proof.
  unfold run_schedule. revert g. induction sched as [|i r IH]; intros g Hg; cbn [fold_left]; [exact Hg|].
  apply IH. unfold gstep. destruct g as [c ts]. now apply step_nth_ok.
Qed.

Lemma run_to_end_ok fuel c t :
  cache_ok c -> thread_ok (capacity c) t ->
  cache_ok (fst (run_to_end P H true fuel c t)) /\ thread_ok (capacity c) (snd (run_to_end P H true fuel c t)) /\
  capacity (fst (run_to_end P H true fuel c t)) = capacity c.
Proof.
  revert c t. induction fuel as [|f IH]; intros c t W T; cbn [run_to_end]; [cbn; auto|].
  destruct (finished t); [cbn; auto|].
  destruct (tstep_ok c t W T) as (W' & T' & C'). destruct (tstep P H true c t) as [c' t']. cbn [fst snd] in *.
  rewrite <- C' in T'. destruct (IH c' t' W' T') as (W2 & T2 & C2). rewrite C' in *. auto.
Qed.

Lemma drain_ok cap c ts : gstate_ok cap (c, ts) -> gstate_ok cap (drain P H true c ts).
Proof.
  revert c. induction ts as [|t r IH]; intros c (W & C & F); cbn [fst snd drain] in *.
  - split; [exact W|split; [exact C|constructor]].
  - inversion F as [|? ? Ht Hr]; subst.
    destruct (run_to_end_ok (thread_steps t) c t W Ht) as (W1 & T1 & C1).
    destruct (run_to_end P H true (thread_steps t) c t) as [c1 t1]. cbn [fst snd] in *.
    specialize (IH c1 (conj W1 (conj C1 Hr))).
    destruct (drain P H true c1 r) as [c2 r2]. destruct IH as (W2 & C2 & F2). cbn [fst snd] in *.
    split; [exact W2|split; [exact C2|constructor; [exact T1|exact F2]]].
Qed.

Lemma start_all_ok cap progs :
  Forall (Forall call_ok) progs -> Forall (thread_ok cap) (map (start P) progs).
Proof. intro F. rewrite Forall_map. eapply Forall_impl; [|exact F]. intros. now apply start_ok. Qed.

(* the invariant along every schedule, from any cache satisfying it *)
Theorem invariant_every_schedule cap c progs sched :
  cache_ok c -> capacity c = cap -> Forall (Forall call_ok) progs ->
  gstate_ok cap (run_schedule P H true (c, map (start P) progs) sched).
Proof.
  intros W C F. apply run_schedule_ok. split; [exact W|split; [exact C|now apply start_all_ok]].
Qed.

Theorem invariant_run_par cap c progs sched :
  cache_ok c -> capacity c = cap -> Forall (Forall call_ok) progs ->
  gstate_ok cap (run_par P H true c progs sched).
Proof.
  intros W C F. unfold run_par.
  pose proof (invariant_every_schedule cap c progs sched W C F) as G.
  destruct (run_schedule P H true (c, map (start P) progs) sched) as [c' ts']. now apply drain_ok.
Qed.

(* ---- the fuel of the drain is enough: every thread finishes ---- *)
Lemma advance_calls_steps calls outs :
  (thread_steps (advance_calls P calls outs) <= fold_right (fun k n => call_steps k + n) 0 calls)%nat.
Proof.
  revert outs. induction calls as [|k r IH]; intro outs; cbn [advance_calls fold_right]; [cbn; lia|].
  destruct k as [pairs sig| | |]; try (unfold thread_steps; cbn; lia).
  destruct sig as [s|].
  - destruct pairs as [|x ps].
    + specialize (IH (OVerdict [] (SIn s) (geqb (o2 P) s (gzero (o2 P))) :: outs)). cbn [call_steps]. lia.
    + unfold thread_steps, cur_steps. cbn [t_cur t_calls v_todo v_pend call_steps length]. lia.
  - specialize (IH (OVerdict pairs SOff false :: outs)). cbn [call_steps]. lia.
Qed.

Lemma advance_steps t : (thread_steps (advance P true t) <= thread_steps t)%nat.
Proof.
  unfold advance. destruct (t_cur t) as [v|] eqn:Ec.
  - destruct (v_todo v) eqn:Et; [|lia]. destruct (v_pend v) eqn:Ep; [lia|].
    pose proof (advance_calls_steps (t_calls t) (finish_verify P true v :: t_outs t)).
    unfold thread_steps at 2. rewrite Ec. lia.
  - pose proof (advance_calls_steps (t_calls t) (t_outs t)). unfold thread_steps at 2. rewrite Ec. lia.
Qed.

Lemma tstep_decreases c t :
  finished t = false -> (thread_steps (snd (tstep P H true c t)) < thread_steps t)%nat.
Proof.
  intro Hf. unfold tstep. rewrite Hf.
  destruct (crit P H c t) as [c' t'] eqn:Ecr. cbn [snd].
  unfold crit in Ecr. unfold finished in Hf.
  destruct (t_cur t) as [v|] eqn:Ec.
  - destruct (v_pend v) as [[k g]|] eqn:Ep.
    + inversion Ecr; subst c' t'; clear Ecr.
      eapply Nat.le_lt_trans; [apply advance_steps|].
      unfold thread_steps, cur_steps. cbn [t_cur t_calls v_todo v_pend]. rewrite Ec, Ep. lia.
    + destruct (v_todo v) as [|[pk m] r] eqn:Et.
      * inversion Ecr; subst c' t'; clear Ecr.
        unfold advance. rewrite Ec, Et, Ep.
        pose proof (advance_calls_steps (t_calls t) (finish_verify P true v :: t_outs t)).
        unfold thread_steps at 2. rewrite Ec. unfold cur_steps. rewrite Ep. lia.
      * destruct (cget c (ckey P H pk m)); inversion Ecr; subst c' t'; clear Ecr;
          (eapply Nat.le_lt_trans; [apply advance_steps|]);
          unfold thread_steps, cur_steps; cbn [t_cur t_calls v_todo v_pend]; rewrite Ec, Ep, Et; cbn [length]; lia.
  - destruct (t_calls t) as [|k r] eqn:Ek; [discriminate|].
    destruct k as [pairs sig|a g|pairs|]; inversion Ecr; subst c' t'; clear Ecr.
    + (* a verify call not yet started: advance starts or skips it *)
      unfold advance. rewrite Ec, Ek. cbn [advance_calls].
      unfold thread_steps at 2. rewrite Ec, Ek. cbn [fold_right call_steps].
      destruct sig as [s|].
      * destruct pairs as [|x ps].
        -- pose proof (advance_calls_steps r (OVerdict [] (SIn s) (geqb (o2 P) s (gzero (o2 P))) :: t_outs t)). lia.
        -- unfold thread_steps, cur_steps. cbn [t_cur t_calls v_todo v_pend length]. lia.
      * pose proof (advance_calls_steps r (OVerdict pairs SOff false :: t_outs t)). lia.
    + eapply Nat.le_lt_trans; [apply advance_steps|].
      unfold thread_steps. cbn [t_cur t_calls]. rewrite Ec, Ek. cbn [fold_right call_steps]. lia.
    + eapply Nat.le_lt_trans; [apply advance_steps|].
      unfold thread_steps. cbn [t_cur t_calls]. rewrite Ec, Ek. cbn [fold_right call_steps]. lia.
    + eapply Nat.le_lt_trans; [apply advance_steps|].
      unfold thread_steps. cbn [t_cur t_calls]. rewrite Ec, Ek. cbn [fold_right call_steps]. lia.
Qed.

Lemma steps_0_finished (t : thread (G1:=G1) (G2:=G2) (GT:=GT)) : thread_steps t = 0%nat -> finished t = true.
Proof.
  unfold thread_steps, finished, cur_steps. destruct (t_cur t) as [v|].
  - destruct (v_pend v); lia.
  - destruct (t_calls t) as [|k r]; [reflexivity|]. cbn [fold_right]. destruct k; cbn [call_steps]; lia.
Qed.

Lemma run_to_end_finishes fuel c t :
  (thread_steps t <= fuel)%nat -> finished (snd (run_to_end P H true fuel c t)) = true.
Proof.
  revert c t. induction fuel as [|f IH]; intros c t Hs; cbn [run_to_end].
  - cbn [snd]. apply steps_0_finished. lia.
  - destruct (finished t) eqn:Hf; [exact Hf|].
    pose proof (tstep_decreases c t Hf) as D. destruct (tstep P H true c t) as [c' t']. cbn [snd] in D.
    apply IH. lia.
Qed.

Theorem drain_finishes c ts : all_finished (snd (drain P H true c ts)) = true.
Proof.
  revert c. induction ts as [|t r IH]; intro c; cbn [drain]; [reflexivity|].
  pose proof (run_to_end_finishes (thread_steps t) c t (Nat.le_refl _)) as F1.
  destruct (run_to_end P H true (thread_steps t) c t) as [c1 t1]. cbn [snd] in F1.
  specialize (IH c1). destruct (drain P H true c1 r) as [c2 r2]. cbn [snd] in *.
  unfold all_finished in *. cbn [forallb]. now rewrite F1, IH.
Qed.

(* ---- C15 (2)+(3) in one statement ---- *)
Lemma gstate_ok_transparent cap g : gstate_ok cap g -> verdicts_transparent cap (snd g).
Proof.
  intros (_ & _ & F) t o It Io. rewrite Forall_forall in F. destruct (F t It) as (_ & _ & Fo).
  rewrite Forall_forall in Fo. exact (Fo o Io).
Qed.

Theorem cache_transparent cap c progs sched :
  cache_ok c -> capacity c = cap -> Forall (Forall call_ok) progs ->
  let g := run_schedule P H true (c, map (start P) progs) sched in
  cache_ok (fst g) /\ clen (fst g) <= cap /\ verdicts_transparent cap (snd g).
Proof.
  intros W C F g. pose proof (invariant_every_schedule cap c progs sched W C F) as G. fold g in G.
  split; [apply G|]. split; [|now apply gstate_ok_transparent].
  destruct G as ((_ & _ & _ & Hl) & Hc & _). now rewrite <- Hc.
Qed.

Theorem cache_transparent_complete cap c progs sched :
  cache_ok c -> capacity c = cap -> Forall (Forall call_ok) progs ->
  let g := run_par P H true c progs sched in
  cache_ok (fst g) /\ clen (fst g) <= cap /\ all_finished (snd g) = true /\ verdicts_transparent cap (snd g).
Proof.
  intros W C F g. pose proof (invariant_run_par cap c progs sched W C F) as G. fold g in G.
  split; [apply G|]. split; [|split; [|now apply gstate_ok_transparent]].
  - destruct G as ((_ & _ & _ & Hl) & Hc & _). now rewrite <- Hc.
  - unfold g, run_par. destruct (run_schedule P H true (c, map (start P) progs) sched) as [c' ts'].
    apply drain_finishes.
Qed.

(* ---- whole histories from the empty cache ---- *)
Theorem history_transparent cap phases :
  1 <= cap -> Forall phase_ok phases ->
  let r := run_history P H true (empty_cache cap) phases in
  cache_ok (fst r) /\ clen (fst r) <= cap /\ Forall (phase_result_ok cap) (snd r).
Proof.
  intros Hcap F.
  assert (G : forall c, cache_ok c -> capacity c = cap ->
              let r := run_history P H true c phases in
              cache_ok (fst r) /\ capacity (fst r) = cap /\ Forall (phase_result_ok cap) (snd r)).
  { induction phases as [|[progs sched] rest IH]; intros c W C; cbn [run_history].
    - cbn. auto.
    - inversion F as [|? ? Hp Hr]; subst.
      pose proof (cache_transparent_complete (capacity c) c progs sched W eq_refl Hp) as (W1 & Hl1 & F1 & V1).
      pose proof (invariant_run_par (capacity c) c progs sched W eq_refl Hp) as (_ & C1 & _).
      destruct (run_par P H true c progs sched) as [c1 ts]. cbn [fst snd] in *.
      specialize (IH Hr c1 W1 C1). destruct (run_history P H true c1 rest) as [c2 tss]. cbn [fst snd] in *.
      destruct IH as (W2 & C2 & F2). split; [exact W2|]. split; [exact C2|].
      constructor; [|exact F2]. unfold phase_result_ok. cbn [fst snd]. auto. }
  intro r. destruct (G (empty_cache cap) (empty_cache_wf entry_ok cap Hcap) eq_refl) as (W & C & Fs).
  fold r in W, C, Fs. split; [exact W|]. split; [|exact Fs].
  destruct W as (_ & _ & _ & Hl). now rewrite <- C.
Qed.

(* ---- the sequential view (Verify.cached_verify) ---- *)
Lemma cached_gts_ok c pairs :
  cache_ok c ->
  cache_ok (snd (cached_gts P H c pairs)) /\ capacity (snd (cached_gts P H c pairs)) = capacity c /\
  (fst (cached_gts P H c pairs) = gts_of P pairs \/ collision H).
Proof.
  revert c. induction pairs as [|[pk m] r IH]; intros c W; cbn [cached_gts].
  - cbn. auto.
  - unfold cached_pairing. destruct (cget c (ckey P H pk m)) as [g|] eqn:Eg.
    + destruct (IH c W) as (W' & C' & E'). destruct (cached_gts P H c r) as [gs c2]. cbn [fst snd] in *.
      split; [exact W'|]. split; [exact C'|].
      destruct (hit_is_honest c pk m g W Eg) as [->|C]; [|now right].
      destruct E' as [->|C]; [now left|now right].
    + assert (W1 : cache_ok (cput c (ckey P H pk m) (pairing_of P pk m))) by (apply cput_wf; [now exists pk, m|exact W]).
      destruct (IH _ W1) as (W' & C' & E').
      destruct (cached_gts P H (cput c (ckey P H pk m) (pairing_of P pk m)) r) as [gs c2]. cbn [fst snd] in *.
      split; [exact W'|]. split; [exact C'|]. destruct E' as [->|C]; [now left|now right].
Qed.

Theorem cached_verify_transparent c sig pairs :
  cache_ok c ->
  (fst (cached_verify P H c sig pairs) = aggregate_verify P sig pairs \/ collision H) /\
  cache_ok (snd (cached_verify P H c sig pairs)) /\
  clen (snd (cached_verify P H c sig pairs)) <= capacity c.
Proof.
  intro W. unfold cached_verify, cached_verify_gen. destruct sig as [s|].
  2:{ cbn [fst snd]. split; [now left|]. split; [exact W|apply W]. }
  destruct (cached_gts_ok c pairs W) as (W' & C' & E'). destruct (cached_gts P H c pairs) as [gs c']. cbn [fst snd] in *.
  split; [|split; [exact W'|rewrite <- C'; apply W']].
  destruct E' as [->|C]; [|now right]. left. cbn [andb].
  destruct (existsb (fun x => is_inf P (fst x)) pairs) eqn:E.
  - rewrite Bool.andb_false_r. symmetry. apply (infinity_key_never_valid P L).
    intro N. apply (existsb_inf_false P L) in N. congruence.
  - rewrite Bool.andb_true_r. apply (aggregate_verify_gt_agrees P L). now apply (existsb_inf_false P L).
Qed.

(* ---- F-C15-1: the code as pinned (no infinity test in the cache path) violates the property ---- *)
Theorem cached_verify_pinned_accepts_infinity cap m :
  fst (cached_verify_pinned P H (empty_cache cap) (SIn (gzero (o2 P))) [(gzero (o1 P), m)]) = true /\
  aggregate_verify P (SIn (gzero (o2 P))) [(gzero (o1 P), m)] = false.
Proof.
  split.
  - unfold cached_verify_pinned, cached_verify_gen. cbn [cached_gts cached_pairing cget empty_cache items lget fst snd].
    cbn [aggregate_verify_gt fold_left andb negb]. rewrite Bool.andb_true_r.
    apply (geqb_eq _ LT). unfold pairing_of, sig_gt. now rewrite (pair_0_l P L), (pair_0_r P L).
  - apply (infinity_key_never_valid P L). intro N. now apply (N (gzero (o1 P), m)); [left|].
Qed.
End SchedProofs.

(* the cache-assisted verdict does not depend on the cache at all: any two caches satisfying the
   invariant — whatever their capacities, contents and eviction histories — give the same verdict *)
Section Independence.
Context {G1 G2 GT : Type}.
Variable P : pairing_ops G1 G2 GT.
Hypothesis L : pairing_laws P.
Variable H : bytes -> bytes.

Theorem cached_verdict_independent (c1 c2 : cache GT) sig pairs :
  cache_ok P H c1 -> cache_ok P H c2 ->
  fst (cached_verify P H c1 sig pairs) = fst (cached_verify P H c2 sig pairs) \/ collision H.
Proof.
  intros W1 W2.
  destruct (cached_verify_transparent P L H c1 sig pairs W1) as [[E1|C] _]; [|now right].
  destruct (cached_verify_transparent P L H c2 sig pairs W2) as [[E2|C] _]; [|now right].
  left. congruence.
Qed.
End Independence.
