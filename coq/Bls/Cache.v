(* Bls/Cache.v — BlsCacheData (crates/chia-bls/src/bls_cache.rs) as an insertion-ordered
   association list.  Front of the list = oldest entry (LinkedHashMap front).
   Definitions only; proofs in CacheProofs.v. *)
From ChiaV.Base Require Import Bytes.
Open Scope N_scope.

Section Cache.
Context {V : Type}.

Record cache : Type := { items : list (bytes * V); capacity : N }.   (* capacity : NonZeroUsize *)

Definition empty_cache (cap : N) : cache := {| items := []; capacity := cap |}.

Definition clen (c : cache) : N := N.of_nat (length (items c)).

(* LinkedHashMap::get *)
Fixpoint lget (k : bytes) (l : list (bytes * V)) : option V :=
  match l with
  | [] => None
  | (k', v) :: r => if bytes_eqb k k' then Some v else lget k r
  end.
Definition cget (c : cache) (k : bytes) : option V := lget k (items c).

(* LinkedHashMap::remove *)
Fixpoint lremove (k : bytes) (l : list (bytes * V)) : list (bytes * V) :=
  match l with
  | [] => []
  | (k', v) :: r => if bytes_eqb k k' then r else (k', v) :: lremove k r
  end.

(* LinkedHashMap::insert: an existing key gets the new value AND moves to the back *)
Definition linsert (k : bytes) (v : V) (l : list (bytes * V)) : list (bytes * V) :=
  lremove k l ++ [(k, v)].

(* BlsCacheData::put: if the cache is full the oldest item is removed FIRST — before looking
   whether the key is already present — then insert. *)
Definition cput (c : cache) (k : bytes) (v : V) : cache :=
  let l := if clen c =? capacity c then tl (items c) else items c in
  {| items := linsert k v l; capacity := capacity c |}.

(* the loop body of BlsCache::evict *)
Definition cremove (c : cache) (k : bytes) : cache :=
  {| items := lremove k (items c); capacity := capacity c |}.

Definition cremove_all (c : cache) (ks : list bytes) : cache := fold_left cremove ks c.

Definition ckeys (c : cache) : list bytes := map fst (items c).

(* well-formedness w.r.t. a predicate on entries: entries satisfy it, keys are distinct (it is a
   map), the capacity is non-zero (NonZeroUsize) and respected *)
Definition cache_wf (Q : bytes * V -> Prop) (c : cache) : Prop :=
  Forall Q (items c) /\ NoDup (ckeys c) /\ 1 <= capacity c /\ clen c <= capacity c.
End Cache.
Arguments cache V : clear implicits.
