(* Cond/Guards.v — every condition step of the mirror as  guard + effect  on a small projection
   of the state ("acore"): the step succeeds exactly when its guard holds, and its effect on the
   projection is a pure function.  This removes the state machine from the picture: a list of
   conditions is accepted iff a fold of boolean guards over pure data is true. *)
From ChiaV.Base Require Import Bytes.
From ChiaV.Clvm Require Import Sexp Ints.
From ChiaV.Gen Require Import Opcodes Ladders.
From ChiaV.Cond Require Import Model Invariants Syntax Collect.
From Coq Require Import ZifyBool ZifyNat ZifyN.
Open Scope N_scope.

(* what the guards read and the effects write *)
Record acore := {
  a_budget : N;                      (* cost left *)
  a_cnt : N;                         (* announcement countdown (pre hard-fork 2) *)
  a_fee : N;                         (* reserve fee so far (bundle) *)
  a_cc : list new_coin;              (* coins created by this spend so far *)
  a_hr : option N; a_sr : option N; a_bhr : option N; a_bsr : option N;   (* relative locks of this spend *)
  a_bh : option N; a_bs : option N;                                       (* birth assertions of this spend *)
  a_id : bytes; a_par : bytes; a_ph : bytes; a_amt : N                    (* identity of this spend *)
}.

Definition acore_of (st : lstate) : acore :=
  let s := l_spend st in
  {| a_budget := l_max_cost st; a_cnt := l_countdown st; a_fee := b_reserve_fee (l_ret st);
     a_cc := sp_create_coin s;
     a_hr := sp_height_relative s; a_sr := sp_seconds_relative s;
     a_bhr := sp_before_height_relative s; a_bsr := sp_before_seconds_relative s;
     a_bh := sp_birth_height s; a_bs := sp_birth_seconds s;
     a_id := sp_coin_id s; a_par := sp_parent s; a_ph := sp_ph s; a_amt := sp_amount s |}.

Definition a_with (a : acore) budget cnt fee cc hr sr bhr bsr bh bs : acore :=
  {| a_budget := budget; a_cnt := cnt; a_fee := fee; a_cc := cc; a_hr := hr; a_sr := sr; a_bhr := bhr; a_bsr := bsr;
     a_bh := bh; a_bs := bs; a_id := a_id a; a_par := a_par a; a_ph := a_ph a; a_amt := a_amt a |}.

Definition announce_class (c : condition) : bool :=
  match c with
  | CCreateCoinAnnouncement _ | CCreatePuzzleAnnouncement _ | CAssertCoinAnnouncement _
  | CAssertPuzzleAnnouncement _ | CAssertConcurrentSpend _ | CAssertConcurrentPuzzle _
  | CSendMessage _ _ _ | CReceiveMessage _ _ _ => true
  | _ => false
  end.

Definition olt (o : option N) (v : N) : bool := match o with Some x => x <? v | None => true end.   (* every x in o is < v *)
Definition ogt (o : option N) (v : N) : bool := match o with Some x => v <? x | None => true end.   (* every x in o is > v *)
Definition oeq (o : option N) (v : N) : bool := match o with Some x => x =? v | None => true end.

Section G.
  Variable vk : bytes -> bool.
  Variable K : consts.
  Variable fl : cflags.

  (* the guard of one applied condition *)
  Definition aguard (a : acore) (c : condition) : bool :=
    match c with
    | CReserveFee v => a_fee a + v <? 2 ^ 64
    | CCreateCoin ph amt _ => negb (existsb (fun x => coin_eq x ph amt) (a_cc a))
    | CAssertSecondsRelative v => ogt (a_bsr a) v
    | CAssertHeightRelative v => ogt (a_bhr a) v
    | CAssertBeforeSecondsRelative v => olt (a_sr a) v
    | CAssertBeforeHeightRelative v => olt (a_hr a) v
    | CAssertMyCoinId id => bytes_eqb id (a_id a)
    | CAssertMyParentId id => bytes_eqb id (a_par a)
    | CAssertMyPuzzlehash h => bytes_eqb h (a_ph a)
    | CAssertMyAmount v => v =? a_amt a
    | CAssertMyBirthSeconds v => oeq (a_bs a) v
    | CAssertMyBirthHeight v => oeq (a_bh a) v
    | CAggSig op pk msg =>
        (if op =? AGG_SIG_UNSAFE then match check_agg_sig_unsafe_message K msg with Ok _ => true | Err _ => false end else true)
        && vk pk
    | CSoftfork cost => cost <=? a_budget a
    | CSendMessage m _ _ | CReceiveMessage _ m _ => (m <? 8) && (f_cost_conds fl || negb (a_cnt a =? 0))
    | _ => if announce_class c then f_cost_conds fl || negb (a_cnt a =? 0) else true
    end.

  (* and its effect on the projection *)
  Definition aeffect (a : acore) (c : condition) : acore :=
    let dec := if f_cost_conds fl then a_cnt a else a_cnt a - 1 in
    match c with
    | CReserveFee v => a_with a (a_budget a) (a_cnt a) (a_fee a + v) (a_cc a) (a_hr a) (a_sr a) (a_bhr a) (a_bsr a) (a_bh a) (a_bs a)
    | CCreateCoin ph amt hint =>
        a_with a (a_budget a) (a_cnt a) (a_fee a) (a_cc a ++ [{| nc_ph := ph; nc_amount := amt; nc_hint := hint |}])
               (a_hr a) (a_sr a) (a_bhr a) (a_bsr a) (a_bh a) (a_bs a)
    | CAssertSecondsRelative v => a_with a (a_budget a) (a_cnt a) (a_fee a) (a_cc a) (a_hr a) (omax (a_sr a) v) (a_bhr a) (a_bsr a) (a_bh a) (a_bs a)
    | CAssertHeightRelative v => a_with a (a_budget a) (a_cnt a) (a_fee a) (a_cc a) (omax (a_hr a) v) (a_sr a) (a_bhr a) (a_bsr a) (a_bh a) (a_bs a)
    | CAssertBeforeSecondsRelative v => a_with a (a_budget a) (a_cnt a) (a_fee a) (a_cc a) (a_hr a) (a_sr a) (a_bhr a) (omin (a_bsr a) v) (a_bh a) (a_bs a)
    | CAssertBeforeHeightRelative v => a_with a (a_budget a) (a_cnt a) (a_fee a) (a_cc a) (a_hr a) (a_sr a) (omin (a_bhr a) v) (a_bsr a) (a_bh a) (a_bs a)
    | CAssertMyBirthSeconds v => a_with a (a_budget a) (a_cnt a) (a_fee a) (a_cc a) (a_hr a) (a_sr a) (a_bhr a) (a_bsr a) (a_bh a) (Some v)
    | CAssertMyBirthHeight v => a_with a (a_budget a) (a_cnt a) (a_fee a) (a_cc a) (a_hr a) (a_sr a) (a_bhr a) (a_bsr a) (Some v) (a_bs a)
    | CSoftfork cost => a_with a (a_budget a - cost) (a_cnt a) (a_fee a) (a_cc a) (a_hr a) (a_sr a) (a_bhr a) (a_bsr a) (a_bh a) (a_bs a)
    | _ => if announce_class c
           then a_with a (a_budget a) dec (a_fee a) (a_cc a) (a_hr a) (a_sr a) (a_bhr a) (a_bsr a) (a_bh a) (a_bs a)
           else a
    end.

  Lemma acore_eta a :
    a_with a (a_budget a) (a_cnt a) (a_fee a) (a_cc a) (a_hr a) (a_sr a) (a_bhr a) (a_bsr a) (a_bh a) (a_bs a) = a.
  Proof. destruct a; reflexivity. Qed.

  Ltac split_goal :=
    repeat (match goal with
            | |- context [if ?c then _ else _] => destruct c eqn:?
            | |- context [match ?x with Some _ => _ | None => _ end] => destruct x eqn:?
            | |- context [check_agg_sig_unsafe_message ?k ?m] => destruct (check_agg_sig_unsafe_message k m) as [[]|] eqn:?
            end; cbn [bind andb orb negb]).

  Lemma from_self_ok m p q a c : (exists s, spend_id_from_self m p q a c = Ok s) <-> (m <? 8) = true.
  Proof.
    unfold spend_id_from_self, MODE_COINID, MODE_PARENT, MODE_PUZZLE, MODE_AMOUNT, MODE_PARENTPUZZLE, MODE_PARENTAMOUNT, MODE_PUZZLEAMOUNT.
    repeat match goal with |- context [if ?x =? ?y then _ else _] => destruct (N.eqb_spec x y) end;
      (split; [intros [s Hs]; try discriminate Hs; lia | intros Hm; try (eexists; reflexivity); exfalso; lia]).
  Qed.

  Ltac split_in_e H :=
    repeat (match type of H with
            | context [if ?c then _ else _] => destruct c eqn:?
            | context [match ?x with Some _ => _ | None => _ end] => destruct x eqn:?
            | context [check_agg_sig_unsafe_message ?k ?m] => destruct (check_agg_sig_unsafe_message k m) as [[]|] eqn:?
            end; cbn [bind] in H).

  (* success => guard holds and the projection moves by the effect *)
  Lemma apply_condition_a st cva st' :
    apply_condition vk K fl st cva = Ok st' ->
    aguard (acore_of st) cva = true /\ acore_of st' = aeffect (acore_of st) cva.
  Proof.
    intros H.
    destruct cva; cbn [apply_condition] in H; cbn [aguard aeffect announce_class olt ogt oeq];
      unfold mark_not_ephemeral, push_pair, decrement, charge in H;
      cbn [l_spend l_state l_ret l_max_cost l_countdown with_spend with_ret with_state sp_has_relative sp_set_locks
           sp_set_lists sp_set_flags bind] in H;
      split_in_e H; try discriminate H;
      try (match type of H with bind ?r _ = _ => destruct r eqn:?; cbn [bind] in H; [|discriminate H] end);
      split_in_e H; try discriminate H; inversion H; subst; clear H;
      unfold acore_of, a_with; cbn;
      repeat match goal with
             | E : ?x = _ |- context [?x] => rewrite E
             end;
      try (match goal with E : spend_id_from_self ?m ?p ?q ?a ?c = Ok _ |- _ =>
             let Hm := fresh "Hm" in assert (Hm : (m <? 8) = true) by (apply (from_self_ok m p q a c); eexists; exact E); rewrite Hm end);
      cbn [oeq ogt olt negb andb orb];
      (split; [first [reflexivity | lia]|first [reflexivity | f_equal; lia]]).
  Qed.
  (* guard holds => the step succeeds *)
  Lemma apply_condition_ok st cva :
    aguard (acore_of st) cva = true -> exists st', apply_condition vk K fl st cva = Ok st'.
  Proof.
    intros G.
    destruct cva; cbn [apply_condition]; cbn [aguard announce_class acore_of a_fee a_cc a_bsr a_bhr a_sr a_hr a_id a_par a_ph
                                               a_amt a_bs a_bh a_budget a_cnt] in G;
      unfold decrement, charge;
      repeat (match goal with
              | |- context [if ?c then _ else _] => destruct c eqn:?
              | |- context [match ?x with Some _ => _ | None => _ end] => destruct x eqn:?
              | |- context [check_agg_sig_unsafe_message ?k ?m] => destruct (check_agg_sig_unsafe_message k m) as [[]|] eqn:?
              | |- context [spend_id_from_self ?a ?b ?c ?d ?e] => destruct (spend_id_from_self a b c d e) eqn:?
              end; cbn [bind olt ogt oeq negb andb orb] in *);
      try (eexists; reflexivity); try (exfalso; lia); try (exfalso; congruence);
      try (exfalso; match goal with E : spend_id_from_self ?m ?p ?q ?a ?c = Err _ |- _ =>
             let Hs := fresh "Hs" in
             assert (Hs : exists s, spend_id_from_self m p q a c = Ok s) by (apply from_self_ok; lia);
             destruct Hs as [s Hs]; congruence end).
  Qed.
  (* ---------- one parsed condition: pre-charge, then the condition itself ---------- *)
  Definition pcost (op : N) : N :=
    if op =? CREATE_COIN then (if f_cost_conds fl then NEW_CREATE_COIN_COST else CREATE_COIN_COST)
    else if is_agg_sig op then AGG_SIG_COST
    else if (op =? CREATE_COIN_ANNOUNCEMENT) || (op =? ASSERT_COIN_ANNOUNCEMENT) || (op =? CREATE_PUZZLE_ANNOUNCEMENT)
            || (op =? ASSERT_PUZZLE_ANNOUNCEMENT) || (op =? ASSERT_CONCURRENT_SPEND) || (op =? ASSERT_CONCURRENT_PUZZLE)
            || (op =? SEND_MESSAGE) || (op =? RECEIVE_MESSAGE)
    then (if f_cost_conds fl then MESSAGE_CONDITION_COST else 0)
    else (if f_cost_conds fl then GENERIC_CONDITION_COST else 0).

  Definition spend_budget (a : acore) (c : N) : acore :=
    a_with a (a_budget a - c) (a_cnt a) (a_fee a) (a_cc a) (a_hr a) (a_sr a) (a_bhr a) (a_bsr a) (a_bh a) (a_bs a).

  Definition pguard (a : acore) (p : pcond) : bool :=
    match p with
    | None => (if f_cost_conds fl then GENERIC_CONDITION_COST else 0) <=? a_budget a
    | Some (op, c) => (pcost op <=? a_budget a) && aguard (spend_budget a (pcost op)) c
    end.

  Definition peffect (a : acore) (p : pcond) : acore :=
    match p with
    | None => spend_budget a (if f_cost_conds fl then GENERIC_CONDITION_COST else 0)
    | Some (op, c) => aeffect (spend_budget a (pcost op)) c
    end.

  Lemma charge_a st c st' : charge st c = Ok st' -> (c <=? a_budget (acore_of st)) = true /\ acore_of st' = spend_budget (acore_of st) c.
  Proof.
    unfold charge. destruct (N.ltb_spec (l_max_cost st) c); [discriminate|]. intros [= <-].
    split; [cbn; lia|reflexivity].
  Qed.

  Lemma charge_ok st c : (c <=? a_budget (acore_of st)) = true -> exists st', charge st c = Ok st'.
  Proof. unfold charge. cbn. intros Hc. destruct (N.ltb_spec (l_max_cost st) c); [lia|]. eexists; reflexivity. Qed.

  Lemma spend_budget_0 a : spend_budget a 0 = a.
  Proof. unfold spend_budget. rewrite N.sub_0_r. apply acore_eta. Qed.

  Lemma precharge_a st op st' :
    precharge fl st op = Ok st' -> (pcost op <=? a_budget (acore_of st)) = true /\ acore_of st' = spend_budget (acore_of st) (pcost op).
  Proof.
    unfold precharge, pcost. intros Hp.
    repeat match type of Hp with (if ?c then _ else _) = _ => destruct c end;
      try (apply charge_a in Hp; exact Hp);
      inversion Hp; subst; rewrite spend_budget_0; (split; [cbn; lia|reflexivity]).
  Qed.

  Lemma precharge_ok st op : (pcost op <=? a_budget (acore_of st)) = true -> exists st', precharge fl st op = Ok st'.
  Proof.
    unfold precharge, pcost. intros Hp.
    repeat match goal with |- context [if ?c then _ else _] => destruct c end;
      try (apply charge_ok; exact Hp); eexists; reflexivity.
  Qed.

  Variable V : visitor.

  Lemma visit_a st cva : acore_of (visit V st cva) = acore_of st.
  Proof. unfold visit. destruct V; [reflexivity|]. destruct (mempool_condition _ _ _ _). reflexivity. Qed.

  Lemma sem_step_a st p st' :
    sem_step vk K fl V st p = Ok st' -> pguard (acore_of st) p = true /\ acore_of st' = peffect (acore_of st) p.
  Proof.
    destruct p as [[op c]|]; cbn [sem_step pguard peffect]; intros Hs.
    - destruct (precharge fl st op) as [st1|] eqn:E; cbn [bind] in Hs; [|discriminate].
      apply precharge_a in E. destruct E as [E1 E2].
      apply apply_condition_a in Hs. rewrite visit_a in Hs. destruct Hs as [G1 G2].
      rewrite E2 in G1, G2. rewrite E1, G1. split; [reflexivity|exact G2].
    - destruct (f_cost_conds fl).
      + apply charge_a in Hs. exact Hs.
      + inversion Hs; subst. rewrite spend_budget_0. split; [cbn; lia|reflexivity].
  Qed.

  Lemma sem_step_ok st p : pguard (acore_of st) p = true -> exists st', sem_step vk K fl V st p = Ok st'.
  Proof.
    destruct p as [[op c]|]; cbn [sem_step pguard]; intros Hg.
    - apply Bool.andb_true_iff in Hg. destruct Hg as [G1 G2].
      destruct (precharge_ok st op G1) as [st1 E]. rewrite E. cbn [bind].
      apply precharge_a in E. destruct E as [_ E2].
      apply apply_condition_ok. rewrite visit_a, E2. exact G2.
    - destruct (f_cost_conds fl); [apply charge_ok; exact Hg|eexists; reflexivity].
  Qed.

  Fixpoint guards (a : acore) (l : list pcond) : bool :=
    match l with
    | [] => true
    | p :: r => pguard a p && guards (peffect a p) r
    end.

  (* a list of conditions is accepted exactly when the fold of guards over the pure projection is true *)
  Theorem sem_fold_guards l : forall st,
    (exists st', sem_fold vk K fl V st l = Ok st') <-> guards (acore_of st) l = true.
  Proof.
    induction l as [|p l IH]; intros st; cbn [sem_fold guards].
    - split; [reflexivity|intros _; eexists; reflexivity].
    - split.
      + intros [st' Hs].
        destruct (sem_step vk K fl V st p) as [st1|] eqn:E; cbn [bind] in Hs; [|discriminate].
        apply sem_step_a in E. destruct E as [G E]. rewrite G, <- E. cbn [andb]. apply IH. now exists st'.
      + intros Hg. apply Bool.andb_true_iff in Hg. destruct Hg as [G1 G2].
        destruct (sem_step_ok st p G1) as [st1 E]. rewrite E. cbn [bind].
        apply IH. apply sem_step_a in E. destruct E as [_ E]. now rewrite E.
  Qed.

  Lemma sem_fold_a l : forall st st',
    sem_fold vk K fl V st l = Ok st' -> acore_of st' = fold_left peffect l (acore_of st).
  Proof.
    induction l as [|p l IH]; intros st st' Hs; cbn [sem_fold fold_left] in *.
    - now inversion Hs.
    - destruct (sem_step vk K fl V st p) as [st1|] eqn:E; cbn [bind] in Hs; [|discriminate].
      apply sem_step_a in E. destruct E as [_ E]. rewrite <- E. now apply IH.
  Qed.
End G.
