(* Cond/Facts.v — the translated tables equal the consensus literals; characterisation of
   parse_opcode; the cost table transcribed from calculate_cost_table equals the literal table. *)
From ChiaV.Base Require Import Bytes.
From ChiaV.Clvm Require Import Sexp Ints.
From ChiaV.Gen Require Import Opcodes.
From ChiaV.Cond Require Import Model Spec.
Open Scope N_scope.

Lemma opcodes_are_consensus :
  [REMARK; AGG_SIG_PARENT; AGG_SIG_PUZZLE; AGG_SIG_AMOUNT; AGG_SIG_PUZZLE_AMOUNT; AGG_SIG_PARENT_AMOUNT;
   AGG_SIG_PARENT_PUZZLE; AGG_SIG_UNSAFE; AGG_SIG_ME; CREATE_COIN; RESERVE_FEE; CREATE_COIN_ANNOUNCEMENT;
   ASSERT_COIN_ANNOUNCEMENT; CREATE_PUZZLE_ANNOUNCEMENT; ASSERT_PUZZLE_ANNOUNCEMENT; ASSERT_CONCURRENT_SPEND;
   ASSERT_CONCURRENT_PUZZLE; SEND_MESSAGE; RECEIVE_MESSAGE; ASSERT_MY_COIN_ID; ASSERT_MY_PARENT_ID;
   ASSERT_MY_PUZZLEHASH; ASSERT_MY_AMOUNT; ASSERT_MY_BIRTH_SECONDS; ASSERT_MY_BIRTH_HEIGHT; ASSERT_EPHEMERAL;
   ASSERT_SECONDS_RELATIVE; ASSERT_SECONDS_ABSOLUTE; ASSERT_HEIGHT_RELATIVE; ASSERT_HEIGHT_ABSOLUTE;
   ASSERT_BEFORE_SECONDS_RELATIVE; ASSERT_BEFORE_SECONDS_ABSOLUTE; ASSERT_BEFORE_HEIGHT_RELATIVE;
   ASSERT_BEFORE_HEIGHT_ABSOLUTE; SOFTFORK]
  = Spec.known_one_byte.
Proof. reflexivity. Qed.

(* the whitelist in parse_opcode's one-byte arm accepts exactly the consensus codes *)
Lemma whitelist_is_consensus :
  forall n, existsb (N.eqb n) opcode_whitelist = existsb (N.eqb n) Spec.known_one_byte.
Proof.
  intros n.
  assert (H : forall l1 l2, (forall x, In x l1 <-> In x l2) -> existsb (N.eqb n) l1 = existsb (N.eqb n) l2).
  { intros l1 l2 Hl. destruct (existsb (N.eqb n) l1) eqn:E1; destruct (existsb (N.eqb n) l2) eqn:E2; try reflexivity.
    - apply existsb_exists in E1. destruct E1 as [x [Hx Hn]]. apply N.eqb_eq in Hn. subst x.
      apply Hl in Hx. assert (existsb (N.eqb n) l2 = true) by (apply existsb_exists; exists n; split; [exact Hx|apply N.eqb_refl]).
      congruence.
    - apply existsb_exists in E2. destruct E2 as [x [Hx Hn]]. apply N.eqb_eq in Hn. subst x.
      apply Hl in Hx. assert (existsb (N.eqb n) l1 = true) by (apply existsb_exists; exists n; split; [exact Hx|apply N.eqb_refl]).
      congruence. }
  apply H. intros x. unfold opcode_whitelist, Spec.known_one_byte. cbn [In].
  unfold REMARK, AGG_SIG_PARENT, AGG_SIG_PUZZLE, AGG_SIG_AMOUNT, AGG_SIG_PUZZLE_AMOUNT, AGG_SIG_PARENT_AMOUNT,
   AGG_SIG_PARENT_PUZZLE, AGG_SIG_UNSAFE, AGG_SIG_ME, CREATE_COIN, RESERVE_FEE, CREATE_COIN_ANNOUNCEMENT,
   ASSERT_COIN_ANNOUNCEMENT, CREATE_PUZZLE_ANNOUNCEMENT, ASSERT_PUZZLE_ANNOUNCEMENT, ASSERT_CONCURRENT_SPEND,
   ASSERT_CONCURRENT_PUZZLE, SEND_MESSAGE, RECEIVE_MESSAGE, ASSERT_MY_COIN_ID, ASSERT_MY_PARENT_ID,
   ASSERT_MY_PUZZLEHASH, ASSERT_MY_AMOUNT, ASSERT_MY_BIRTH_SECONDS, ASSERT_MY_BIRTH_HEIGHT, ASSERT_EPHEMERAL,
   ASSERT_SECONDS_RELATIVE, ASSERT_SECONDS_ABSOLUTE, ASSERT_HEIGHT_RELATIVE, ASSERT_HEIGHT_ABSOLUTE,
   ASSERT_BEFORE_SECONDS_RELATIVE, ASSERT_BEFORE_SECONDS_ABSOLUTE, ASSERT_BEFORE_HEIGHT_RELATIVE,
   ASSERT_BEFORE_HEIGHT_ABSOLUTE, SOFTFORK.
  split; intros Hx; repeat (destruct Hx as [Hx|Hx]; [subst x; tauto|]); contradiction.
Qed.

(* parse_opcode: which atoms are condition codes *)
Lemma parse_opcode_spec t op :
  parse_opcode t = Some op <->
  (exists b, t = Atom [b] /\ op = b2n b /\ In op Spec.known_one_byte) \/
  (exists b0 b1, t = Atom [b0; b1] /\ b2n b0 <> 0 /\ op = b2n b0 * 256 + b2n b1).
Proof.
  unfold parse_opcode. destruct t as [bs|l r].
  2:{ split; [discriminate|]. intros [[b [E _]]|[b0 [b1 [E _]]]]; discriminate. }
  destruct bs as [|b0 [|b1 [|b2 tl]]].
  - split; [discriminate|]. intros [[b [E _]]|[c0 [c1 [E _]]]]; discriminate.
  - rewrite whitelist_is_consensus.
    destruct (existsb (N.eqb (b2n b0)) Spec.known_one_byte) eqn:E.
    + split.
      * intros [= <-]. left. exists b0. repeat split.
        apply existsb_exists in E. destruct E as [x [Hx Hn]]. apply N.eqb_eq in Hn. now subst x.
      * intros [[b [[= <-] [-> _]]]|[c0 [c1 [[=] _]]]]. reflexivity.
    + split; [discriminate|].
      intros [[b [[= <-] [-> Hin]]]|[c0 [c1 [[=] _]]]].
      assert (existsb (N.eqb (b2n b0)) Spec.known_one_byte = true)
        by (apply existsb_exists; exists (b2n b0); split; [exact Hin|apply N.eqb_refl]).
      congruence.
  - destruct (N.eqb_spec (b2n b0) 0) as [E0|E0].
    + split; [discriminate|].
      intros [[b [[=] _]]|[c0 [c1 [[= <- <-] [Hnz _]]]]]. contradiction.
    + split.
      * intros [= <-]. right. exists b0, b1. repeat split. exact E0.
      * intros [[b [[=] _]]|[c0 [c1 [[= <- <-] [_ ->]]]]]. reflexivity.
  - split; [discriminate|]. intros [[b [[=] _]]|[c0 [c1 [[=] _]]]].
Qed.

(* costs *)
Lemma cost_constants_are_consensus :
  AGG_SIG_COST = Spec.AGG_SIG_COST /\ CREATE_COIN_COST = Spec.CREATE_COIN_COST /\
  NEW_CREATE_COIN_COST = Spec.NEW_CREATE_COIN_COST /\ SPEND_COST = Spec.SPEND_COST /\
  MESSAGE_CONDITION_COST = Spec.MESSAGE_CONDITION_COST /\ GENERIC_CONDITION_COST = Spec.GENERIC_CONDITION_COST.
Proof. repeat split; reflexivity. Qed.

(* the transcription of calculate_cost_table produces the consensus table (256 entries, finite: by computation) *)
Lemma cost_table_is_consensus : COSTS = Spec.two_byte_costs.
Proof. vm_compute. reflexivity. Qed.

Lemma unknown_cost_spec op :
  compute_unknown_condition_cost op = if op <? 256 then 0 else nth (N.to_nat (op mod 256)) Spec.two_byte_costs 0.
Proof. unfold compute_unknown_condition_cost. now rewrite cost_table_is_consensus. Qed.

Lemma flags_are_consensus :
  FLAG_DONT_VALIDATE_SIGNATURE = Spec.DONT_VALIDATE_SIGNATURE /\ FLAG_NO_UNKNOWN_CONDS = Spec.NO_UNKNOWN_CONDS /\
  FLAG_STRICT_ARGS_COUNT = Spec.STRICT_ARGS_COUNT /\ FLAG_COST_CONDITIONS = Spec.COST_CONDITIONS /\
  FLAG_LIMIT_SPENDS = Spec.LIMIT_SPENDS /\ MAX_SPENDS_PER_BLOCK = Spec.MAX_SPENDS_PER_BLOCK /\
  ANNOUNCE_LIMIT = Spec.ANNOUNCE_LIMIT /\ ELIGIBLE_FOR_DEDUP = Spec.ELIGIBLE_FOR_DEDUP /\
  HAS_RELATIVE_CONDITION = Spec.HAS_RELATIVE_CONDITION /\ ELIGIBLE_FOR_FF = Spec.ELIGIBLE_FOR_FF.
Proof. repeat split; reflexivity. Qed.
