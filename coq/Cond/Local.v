(* Cond/Local.v — the guard fold separated into resources (cost budget, reserve-fee range) and
   local rules, and the local rules stated declaratively. *)
From ChiaV.Base Require Import Bytes.
From ChiaV.Clvm Require Import Sexp Ints.
From ChiaV.Gen Require Import Opcodes Ladders.
From ChiaV.Cond Require Import Model Invariants Syntax Collect Guards Accept Totals.
From Coq Require Import ZifyBool ZifyNat ZifyN.
Open Scope N_scope.

Section L.
  Variable vk : bytes -> bool.
  Variable K : consts.
  Variable fl : cflags.

  (* cost charged for one parsed condition: the table *)
  Definition ccost (p : pcond) : N :=
    match p with
    | None => if f_cost_conds fl then GENERIC_CONDITION_COST else 0
    | Some (op, c) => pcost fl op + match c with CSoftfork x => x | _ => 0 end
    end.

  Definition conds_cost (l : list pcond) : N := sumN (map ccost l).

  (* the guard without its resource part *)
  Definition lguard (a : acore) (c : condition) : bool :=
    match c with
    | CReserveFee _ | CSoftfork _ => true
    | _ => aguard vk K fl a c
    end.

  Fixpoint lguards (a : acore) (l : list pcond) : bool :=
    match l with
    | [] => true
    | p :: r =>
        match p with Some (op, c) => lguard (spend_budget a (pcost fl op)) c | None => true end
        && lguards (peffect fl a p) r
    end.

  (* lguard does not look at the budget or the fee *)
  Definition same_local (a b : acore) : Prop :=
    a_cnt a = a_cnt b /\ a_cc a = a_cc b /\ a_hr a = a_hr b /\ a_sr a = a_sr b /\ a_bhr a = a_bhr b /\ a_bsr a = a_bsr b /\
    a_bh a = a_bh b /\ a_bs a = a_bs b /\ a_id a = a_id b /\ a_par a = a_par b /\ a_ph a = a_ph b /\ a_amt a = a_amt b.

  Lemma lguard_local a b c : same_local a b -> lguard a c = lguard b c.
  Proof.
    intros [E1 [E2 [E3 [E4 [E5 [E6 [E7 [E8 [E9 [E10 [E11 E12]]]]]]]]]]].
    destruct c; cbn [lguard aguard announce_class]; rewrite ?E1, ?E2, ?E3, ?E4, ?E5, ?E6, ?E7, ?E8, ?E9, ?E10, ?E11, ?E12; reflexivity.
  Qed.

  Lemma aguard_split a c :
    aguard vk K fl a c =
    lguard a c && match c with
                  | CReserveFee v => a_fee a + v <? 2 ^ 64
                  | CSoftfork x => x <=? a_budget a
                  | _ => true
                  end.
  Proof. destruct c; cbn [lguard aguard]; rewrite ?Bool.andb_true_r; reflexivity. Qed.

  Lemma peffect_budget a p :
    pguard vk K fl a p = true -> a_budget (peffect fl a p) = a_budget a - ccost p.
  Proof.
    destruct p as [[op c]|]; cbn [pguard peffect ccost]; intros G.
    - destruct c; cbn [aeffect announce_class]; try (cbn; lia); try (destruct (f_cost_conds fl); cbn; lia).
    - cbn. lia.
  Qed.

  Lemma peffect_fee a p :
    a_fee (peffect fl a p) = a_fee a + sumN (match p with Some (_, c) => c_fee c | None => [] end).
  Proof.
    destruct p as [[op c]|]; cbn [peffect].
    - destruct c; cbn [aeffect announce_class]; try (cbn; lia); try (destruct (f_cost_conds fl); cbn; lia).
    - cbn. lia.
  Qed.

  Definition fees (l : list pcond) : N := sumN (flat_map c_fee (known l)).

  Theorem guards_split l : forall a,
    a_fee a < 2 ^ 64 ->
    (guards vk K fl a l = true <->
     lguards a l = true /\ conds_cost l <= a_budget a /\ a_fee a + fees l < 2 ^ 64).
  Proof.
    induction l as [|p l IH]; intros a Hf; cbn [guards lguards].
    - unfold conds_cost, fees. cbn. split; [intros _; repeat split; lia|reflexivity].
    - unfold conds_cost, fees. rewrite known_cons, flat_map_app, sumN_app. cbn [map sumN fold_right].
      fold (conds_cost l). fold (fees l).
      rewrite Bool.andb_true_iff. split.
      + intros [G1 G2].
        assert (Hf' : a_fee (peffect fl a p) < 2 ^ 64).
        { rewrite peffect_fee. destruct p as [[op c]|]; [|cbn; lia].
          cbn [pguard] in G1. apply Bool.andb_true_iff in G1. destruct G1 as [_ G1]. rewrite aguard_split in G1.
          destruct c; cbn [c_fee sumN fold_right]; try lia.
          apply Bool.andb_true_iff in G1. destruct G1 as [_ G1]. cbn [spend_budget a_with a_fee] in G1. lia. }
        apply (IH _ Hf') in G2. destruct G2 as [L2 [C2 F2]].
        rewrite (peffect_budget _ _ G1) in C2. rewrite peffect_fee in F2.
        destruct p as [[op c]|]; cbn [pguard ccost flat_map app] in *; rewrite ?app_nil_r in *.
        * apply Bool.andb_true_iff in G1. destruct G1 as [P1 A1]. rewrite aguard_split in A1.
          apply Bool.andb_true_iff in A1. destruct A1 as [A1 R1].
          rewrite A1, L2. cbn [andb]. unfold conds_cost, fees, sumN in *. repeat split; [|lia].
          destruct c; cbn [spend_budget a_with a_budget] in *; lia.
        * rewrite L2. unfold conds_cost, fees, sumN in *. repeat split; cbn in *; lia.
      + intros [L [C F]]. apply Bool.andb_true_iff in L. destruct L as [L1 L2]. unfold conds_cost, fees, sumN in *.
        assert (G1 : pguard vk K fl a p = true).
        { destruct p as [[op c]|]; cbn [pguard ccost flat_map app] in *; rewrite ?app_nil_r in *.
          - apply Bool.andb_true_iff. split; [lia|]. rewrite aguard_split, L1. cbn [andb].
            destruct c; cbn [spend_budget a_with a_budget a_fee c_fee sumN fold_right] in *; try reflexivity; lia.
          - cbn in *. lia. }
        split; [exact G1|].
        assert (Hf' : a_fee (peffect fl a p) < 2 ^ 64).
        { rewrite peffect_fee. unfold sumN in *. destruct p as [[op c]|]; cbn [flat_map app fold_right] in *; rewrite ?app_nil_r in *; lia. }
        apply (IH _ Hf'). rewrite (peffect_budget _ _ G1), peffect_fee. unfold conds_cost, fees, sumN in *.
        split; [exact L2|]. destruct p as [[op c]|]; cbn [ccost flat_map app fold_right] in *; rewrite ?app_nil_r in *; split; lia.
  Qed.
End L.
