(* Cond/Accept.v — acceptance by the spend loop as a pure fold of guards over the parsed bundle. *)
From ChiaV.Base Require Import Bytes.
From ChiaV.Clvm Require Import Sexp Ints.
From ChiaV.Gen Require Import Opcodes Ladders.
From ChiaV.Cond Require Import Model Invariants Syntax Collect Guards.
From Coq Require Import ZifyBool ZifyNat ZifyN.
Open Scope N_scope.

Section A.
  Variable vk : bytes -> bool.
  Variable H : bytes -> bytes.
  Variable K : consts.
  Variable fl : cflags.
  Variable V : visitor.

  Definition spend_cost : N := if f_cost_conds fl then SPEND_COST else 0.

  (* the projection a spend starts from *)
  Definition acore0 (p : pspend) (budget fee : N) : acore :=
    {| a_budget := budget - spend_cost; a_cnt := ANNOUNCE_LIMIT; a_fee := fee; a_cc := [];
       a_hr := None; a_sr := None; a_bhr := None; a_bsr := None; a_bh := None; a_bs := None;
       a_id := pid H p; a_par := ps_parent p; a_ph := ps_ph p; a_amt := ps_amount p |}.

  Definition acoreF (p : pspend) (budget fee : N) : acore :=
    fold_left (peffect fl) (ps_conds p) (acore0 p budget fee).

  Definition spend_guard (p : pspend) (budget fee : N) (seen : list bytes) : bool :=
    negb (mem_bytes (pid H p) seen) && (spend_cost <=? budget) && guards vk K fl (acore0 p budget fee) (ps_conds p).

  Lemma lookup_idx_mem x l : (lookup_idx x l = None) <-> mem_bytes x (map fst l) = false.
  Proof.
    induction l as [|[k i] l IH]; cbn [lookup_idx map fst mem_bytes]; [tauto|].
    destruct (bytes_eqb x k); cbn [orb]; [split; discriminate|exact IH].
  Qed.

  (* spend_sem with its pieces named *)
  Definition st_init (ret : bundle) (state : pstate) (mc cc : N) (p : pspend) : lstate :=
    {| l_ret := b_with ret (b_spends_rev ret) (b_reserve_fee ret) (b_height_absolute ret) (b_seconds_absolute ret)
                       (b_agg_sig_unsafe ret) (b_before_height_absolute ret) (b_before_seconds_absolute ret)
                       (b_cond_cost ret) (b_removal ret + ps_amount p) (b_addition ret);
       l_state := {| s_announce_coin := s_announce_coin state; s_announce_puzzle := s_announce_puzzle state;
                     s_assert_coin := s_assert_coin state; s_assert_puzzle := s_assert_puzzle state;
                     s_messages := s_messages state; s_assert_concurrent_spend := s_assert_concurrent_spend state;
                     s_assert_concurrent_puzzle := s_assert_concurrent_puzzle state;
                     s_spent_coins := (pid H p, length (b_spends_rev ret)) :: s_spent_coins state;
                     s_spent_puzzles := ps_ph p :: s_spent_puzzles state;
                     s_assert_ephemeral := s_assert_ephemeral state; s_assert_not_ephemeral := s_assert_not_ephemeral state;
                     s_pkm_pairs_rev := s_pkm_pairs_rev state |};
       l_spend := new_spend (ps_parent p) (ps_amount p) (ps_ph p) (pid H p) cc;
       l_max_cost := mc; l_countdown := ANNOUNCE_LIMIT; l_counter := 0 |}.

  Definition st_visit (p : pspend) (st1 : lstate) : lstate :=
    with_spend st1 match V with
                   | VEmpty => l_spend st1
                   | VMempool => sp_set_flags (l_spend st1) (N.odd (ps_amount p)) true (sp_has_relative (l_spend st1))
                   end.

  Definition st_finish (st2 : lstate) : bundle * pstate * N :=
    (b_with (l_ret st2) (post_spend V (l_spend st2) :: b_spends_rev (l_ret st2)) (b_reserve_fee (l_ret st2))
            (b_height_absolute (l_ret st2)) (b_seconds_absolute (l_ret st2)) (b_agg_sig_unsafe (l_ret st2))
            (b_before_height_absolute (l_ret st2)) (b_before_seconds_absolute (l_ret st2)) (b_cond_cost (l_ret st2))
            (b_removal (l_ret st2)) (b_addition (l_ret st2)), l_state st2, l_max_cost st2).

  Lemma spend_sem_unfold ret state mc cc p :
    spend_sem vk H K fl V ret state mc cc p =
    match lookup_idx (pid H p) (s_spent_coins state) with
    | Some _ => Err DoubleSpend
    | None =>
        st1 <- (if f_cost_conds fl then charge (st_init ret state mc cc p) SPEND_COST else Ok (st_init ret state mc cc p)) ;;
        st2 <- sem_fold vk K fl V (st_visit p st1) (ps_conds p) ;;
        Ok (st_finish st2)
    end.
  Proof. reflexivity. Qed.

  Lemma st_visit_a p st1 : acore_of (st_visit p st1) = acore_of st1.
  Proof. unfold st_visit. destruct V; reflexivity. Qed.

  Lemma spend_sem_inv ret state mc cc p x :
    spend_sem vk H K fl V ret state mc cc p = Ok x <->
    lookup_idx (pid H p) (s_spent_coins state) = None /\
    exists st1 st2,
      (if f_cost_conds fl then charge (st_init ret state mc cc p) SPEND_COST else Ok (st_init ret state mc cc p)) = Ok st1 /\
      sem_fold vk K fl V (st_visit p st1) (ps_conds p) = Ok st2 /\ x = st_finish st2.
  Proof.
    rewrite spend_sem_unfold. destruct (lookup_idx _ _).
    - split; [discriminate|intros [Hx _]; discriminate].
    - split.
      + intros Hs. split; [reflexivity|].
        match type of Hs with bind ?r _ = _ => destruct r as [st1|] eqn:E1; cbn [bind] in Hs; [|discriminate] end.
        match type of Hs with bind ?r _ = _ => destruct r as [st2|] eqn:E2; cbn [bind] in Hs; [|discriminate] end.
        exists st1, st2. repeat split; [exact E2|now inversion Hs].
      + intros [_ [st1 [st2 [E1 [E2 ->]]]]]. rewrite E1. cbn [bind]. rewrite E2. reflexivity.
  Qed.

  Lemma st1_acore ret state mc cc p st1 :
    (if f_cost_conds fl then charge (st_init ret state mc cc p) SPEND_COST else Ok (st_init ret state mc cc p)) = Ok st1 ->
    (spend_cost <=? mc) = true /\ acore_of st1 = acore0 p mc (b_reserve_fee ret).
  Proof.
    unfold spend_cost, acore0. destruct (f_cost_conds fl) eqn:Ecc; intros E1.
    - apply charge_a in E1. destruct E1 as [G E]. split; [exact G|]. rewrite E. unfold spend_cost. rewrite Ecc. reflexivity.
    - inversion E1; subst st1. split; [lia|]. unfold acore_of, st_init. cbn. unfold spend_cost. rewrite Ecc. f_equal. lia.
  Qed.

  Lemma st1_ok ret state mc cc p :
    (spend_cost <=? mc) = true ->
    exists st1, (if f_cost_conds fl then charge (st_init ret state mc cc p) SPEND_COST else Ok (st_init ret state mc cc p)) = Ok st1.
  Proof.
    unfold spend_cost. destruct (f_cost_conds fl); intros G; [apply charge_ok; exact G|eexists; reflexivity].
  Qed.

  Lemma spend_sem_guard ret state mc cc p :
    (exists x, spend_sem vk H K fl V ret state mc cc p = Ok x) <->
    spend_guard p mc (b_reserve_fee ret) (map fst (s_spent_coins state)) = true.
  Proof.
    unfold spend_guard. split.
    - intros [x Hx]. apply spend_sem_inv in Hx. destruct Hx as [Hl [st1 [st2 [E1 [E2 _]]]]].
      apply lookup_idx_mem in Hl. rewrite Hl. cbn [negb andb].
      destruct (st1_acore _ _ _ _ _ _ E1) as [G1 A1]. rewrite G1. cbn [andb].
      rewrite <- A1, <- (st_visit_a p st1). apply (proj1 (sem_fold_guards vk K fl V (ps_conds p) _)). now exists st2.
    - intros Hg. apply Bool.andb_true_iff in Hg. destruct Hg as [Hg G3]. apply Bool.andb_true_iff in Hg. destruct Hg as [G1 G2].
      destruct (st1_ok ret state mc cc p G2) as [st1 E1].
      destruct (st1_acore _ _ _ _ _ _ E1) as [_ A1].
      rewrite <- A1, <- (st_visit_a p st1) in G3.
      destruct (proj2 (sem_fold_guards vk K fl V (ps_conds p) _) G3) as [st2 E2].
      exists (st_finish st2). apply spend_sem_inv. split.
      + apply lookup_idx_mem. destruct (mem_bytes _ _); [discriminate|reflexivity].
      + exists st1, st2. repeat split; assumption.
  Qed.

  (* what a successful spend leaves behind for the next one *)
  Lemma spend_sem_next ret state mc cc p ret2 state2 mc2 :
    spend_sem vk H K fl V ret state mc cc p = Ok (ret2, state2, mc2) ->
    mc2 = a_budget (acoreF p mc (b_reserve_fee ret)) /\ b_reserve_fee ret2 = a_fee (acoreF p mc (b_reserve_fee ret)) /\
    map fst (s_spent_coins state2) = pid H p :: map fst (s_spent_coins state).
  Proof.
    intros Hs. pose proof Hs as Hs'. apply spend_sem_inv in Hs. destruct Hs as [_ [st1 [st2 [E1 [E2 Ex]]]]].
    unfold st_finish in Ex. inversion Ex; subst ret2 state2 mc2; clear Ex.
    pose proof (sem_fold_a vk K fl V _ _ _ E2) as Ea.
    destruct (st1_acore _ _ _ _ _ _ E1) as [_ A1]. rewrite st_visit_a, A1 in Ea. fold (acoreF p mc (b_reserve_fee ret)) in Ea.
    repeat split.
    - rewrite <- Ea. reflexivity.
    - cbn [b_with b_reserve_fee]. rewrite <- Ea. reflexivity.
    - destruct (spend_sem_collect _ _ _ _ _ _ _ _ _ _ _ _ _ Hs') as [st2' [_ [_ [Est G]]]].
      apply (f_equal g_spent) in G. unfold collected, gcore_of in G. cbn [g_spent] in G. rewrite Est, G. reflexivity.
  Qed.

  Fixpoint spends_guards (ps : list pspend) (budget fee : N) (seen : list bytes) (left : option N) : bool :=
    match ps with
    | [] => true
    | p :: r =>
        negb (match left with Some 0 => true | _ => false end) &&
        spend_guard p budget fee seen &&
        spends_guards r (a_budget (acoreF p budget fee)) (a_fee (acoreF p budget fee)) (pid H p :: seen) (option_map N.pred left)
    end.

  (* the whole spend loop succeeds exactly when the pure fold of guards is true *)
  Theorem spends_sem_guards ps : forall ret state cl sl cc,
    (exists x, spends_sem vk H K fl V ps ret state cl sl cc = Ok x) <->
    spends_guards ps cl (b_reserve_fee ret) (map fst (s_spent_coins state)) sl = true.
  Proof.
    induction ps as [|p ps IH]; intros ret state cl sl cc; cbn [spends_sem spends_guards].
    - split; [reflexivity|intros _; eexists; reflexivity].
    - destruct sl as [[|q]|]; cbn [negb andb].
      + split; [intros [x Hx]; discriminate|discriminate].
      + split.
        * intros [x Hx].
          destruct (spend_sem vk H K fl V ret state cl cc p) as [[[ret1 state1] cost1]|] eqn:E; cbn [bind] in Hx; [|discriminate].
          assert (Hg : spend_guard p cl (b_reserve_fee ret) (map fst (s_spent_coins state)) = true) by (apply (proj1 (spend_sem_guard ret state cl cc p)); eexists; exact E).
          rewrite Hg. cbn [andb]. destruct (spend_sem_next _ _ _ _ _ _ _ _ E) as [N1 [N2 N3]].
          rewrite <- N1, <- N2, <- N3. apply (proj1 (IH ret1 state1 cost1 _ cc)). now exists x.
        * intros Hg. apply Bool.andb_true_iff in Hg. destruct Hg as [G1 G2].
          apply (proj2 (spend_sem_guard ret state cl cc p)) in G1. destruct G1 as [[[ret1 state1] cost1] E]. rewrite E. cbn [bind].
          destruct (spend_sem_next _ _ _ _ _ _ _ _ E) as [N1 [N2 N3]]. rewrite <- N1, <- N2, <- N3 in G2.
          apply (proj2 (IH ret1 state1 cost1 _ cc)) in G2. exact G2.
      + split.
        * intros [x Hx].
          destruct (spend_sem vk H K fl V ret state cl cc p) as [[[ret1 state1] cost1]|] eqn:E; cbn [bind] in Hx; [|discriminate].
          assert (Hg : spend_guard p cl (b_reserve_fee ret) (map fst (s_spent_coins state)) = true) by (apply (proj1 (spend_sem_guard ret state cl cc p)); eexists; exact E).
          rewrite Hg. cbn [andb]. destruct (spend_sem_next _ _ _ _ _ _ _ _ E) as [N1 [N2 N3]].
          rewrite <- N1, <- N2, <- N3. apply (proj1 (IH ret1 state1 cost1 _ cc)). now exists x.
        * intros Hg. apply Bool.andb_true_iff in Hg. destruct Hg as [G1 G2].
          apply (proj2 (spend_sem_guard ret state cl cc p)) in G1. destruct G1 as [[[ret1 state1] cost1] E]. rewrite E. cbn [bind].
          destruct (spend_sem_next _ _ _ _ _ _ _ _ E) as [N1 [N2 N3]]. rewrite <- N1, <- N2, <- N3 in G2.
          apply (proj2 (IH ret1 state1 cost1 _ cc)) in G2. exact G2.
  Qed.
End A.
