(* Cond/Perm.v — reordering spends, or conditions within a spend, never changes the verdict, the
   cost or any aggregate (C06, second clause), from the declarative characterisation. *)
From ChiaV.Base Require Import Bytes.
From ChiaV.Clvm Require Import Sexp Ints.
From ChiaV.Gen Require Import Opcodes Ladders.
From ChiaV.Cond Require Import Model Invariants Syntax Collect Rules Refine Guards Accept Totals Final Local LocalRules Declarative.
From Coq Require Import Permutation ZifyBool ZifyNat ZifyN.
Open Scope N_scope.

(* two parsed spends: same coin, conditions reordered *)
Definition spend_perm (p q : pspend) : Prop :=
  ps_parent p = ps_parent q /\ ps_ph p = ps_ph q /\ ps_amount p = ps_amount q /\ ps_amount_atom p = ps_amount_atom q /\
  Permutation (ps_conds p) (ps_conds q).

(* two parsed bundles: spends reordered, and conditions reordered inside the spends *)
Inductive bundle_perm : list pspend -> list pspend -> Prop :=
| bp_nil : bundle_perm [] []
| bp_skip p q l l' : spend_perm p q -> bundle_perm l l' -> bundle_perm (p :: l) (q :: l')
| bp_swap p q l : bundle_perm (p :: q :: l) (q :: p :: l)
| bp_trans l l' l'' : bundle_perm l l' -> bundle_perm l' l'' -> bundle_perm l l''.

Lemma spend_perm_refl p : spend_perm p p.
Proof. repeat split; reflexivity. Qed.

Lemma bundle_perm_refl l : bundle_perm l l.
Proof. induction l; constructor; [apply spend_perm_refl|assumption]. Qed.

Lemma sumN_perm l l' : Permutation l l' -> sumN l = sumN l'.
Proof. induction 1; cbn [sumN fold_right] in *; unfold sumN in *; lia. Qed.

Lemma known_perm l l' : Permutation l l' -> Permutation (known l) (known l').
Proof.
  induction 1; cbn [known flat_map].
  - constructor.
  - apply Permutation_app_head. exact IHPermutation.
  - rewrite !app_assoc. apply Permutation_app_tail. apply Permutation_app_comm.
  - eapply perm_trans; eassumption.
Qed.

Lemma flat_map_perm {A B} (f : A -> list B) l l' : Permutation l l' -> Permutation (flat_map f l) (flat_map f l').
Proof.
  induction 1; cbn [flat_map].
  - constructor.
  - now apply Permutation_app_head.
  - rewrite !app_assoc. apply Permutation_app_tail. apply Permutation_app_comm.
  - eapply perm_trans; eassumption.
Qed.

Section P.
  Variable vk : bytes -> bool.
  Variable H : bytes -> bytes.
  Variable K : consts.
  Variable fl : cflags.

  Lemma spend_perm_pid p q : spend_perm p q -> pid H p = pid H q.
  Proof. intros [E1 [E2 [_ [E4 _]]]]. unfold pid. now rewrite E1, E2, E4. Qed.

  Lemma spend_perm_kn p q : spend_perm p q -> Permutation (kn p) (kn q).
  Proof. intros [_ [_ [_ [_ Hp]]]]. unfold kn. now apply known_perm. Qed.

  (* anything that depends on a spend only through its identity and the multiset of its conditions *)
  Definition perm_inv {A} (f : pspend -> A) (R : A -> A -> Prop) : Prop := forall p q, spend_perm p q -> R (f p) (f q).

  Lemma bundle_perm_map {A} (f : pspend -> A) l l' :
    perm_inv f eq -> bundle_perm l l' -> Permutation (map f l) (map f l').
  Proof.
    intros Hf Hb. induction Hb as [|p q l l' Hs Hb' IH|p q l|l l' l'' Hb1 IH1 Hb2 IH2]; cbn [map].
    - constructor.
    - rewrite (Hf p q Hs). now constructor.
    - constructor.
    - eapply perm_trans; eassumption.
  Qed.

  Lemma bundle_perm_flat {B} (f : pspend -> list B) l l' :
    perm_inv f (@Permutation B) -> bundle_perm l l' -> Permutation (flat_map f l) (flat_map f l').
  Proof.
    intros Hf Hb. induction Hb as [|p q l l' Hs Hb' IH|p q l|l l' l'' Hb1 IH1 Hb2 IH2]; cbn [flat_map].
    - constructor.
    - apply Permutation_app; [now apply Hf|assumption].
    - rewrite !app_assoc. apply Permutation_app_tail. apply Permutation_app_comm.
    - eapply perm_trans; eassumption.
  Qed.

  Lemma bundle_perm_length l l' : bundle_perm l l' -> length l = length l'.
  Proof. induction 1; cbn [length]; congruence. Qed.

  Lemma bundle_perm_sym l l' : bundle_perm l l' -> bundle_perm l' l.
  Proof.
    induction 1 as [|p q l l' Hs Hb' IH|p q l|l l' l'' Hb1 IH1 Hb2 IH2].
    - constructor.
    - constructor; [|assumption]. destruct Hs as [E1 [E2 [E3 [E4 E5]]]]. repeat split; try congruence. now apply Permutation_sym.
    - apply bp_swap.
    - eapply bp_trans; [exact IH2|exact IH1].
  Qed.

  (* membership up to spend_perm *)
  Lemma bundle_perm_in l l' p : bundle_perm l l' -> In p l -> exists q, In q l' /\ spend_perm p q.
  Proof.
    intros Hb. revert p. induction Hb as [|p0 q l l' Hs Hb' IH|p0 q l|l l' l'' Hb1 IH1 Hb2 IH2]; intros x Hx.
    - destruct Hx.
    - destruct Hx as [<-|Hx]; [exists q; split; [now left|assumption]|].
      destruct (IH x Hx) as [y [Hy Hp]]. exists y. split; [now right|assumption].
    - exists x. split; [|apply spend_perm_refl]. cbn [In] in *. tauto.
    - destruct (IH1 x Hx) as [y [Hy Hp]]. destruct (IH2 y Hy) as [z [Hz Hq]].
      exists z. split; [assumption|].
      destruct Hp as [A1 [A2 [A3 [A4 A5]]]]. destruct Hq as [B1 [B2 [B3 [B4 B5]]]].
      repeat split; try congruence. eapply perm_trans; eassumption.
  Qed.

  (* ---------- the rules are invariant ---------- *)
  Lemma spend_perm_sym p q : spend_perm p q -> spend_perm q p.
  Proof. intros [E1 [E2 [E3 [E4 E5]]]]. repeat split; try congruence. now apply Permutation_sym. Qed.

  Lemma in_kn_perm p q c : spend_perm p q -> In c (kn p) -> In c (kn q).
  Proof. intros Hs Hc. eapply Permutation_in; [apply spend_perm_kn; exact Hs|exact Hc]. Qed.

  Lemma in_flat_kn_perm {B} (f : condition -> list B) p q x : spend_perm p q -> In x (flat_map f (kn p)) -> In x (flat_map f (kn q)).
  Proof. intros Hs Hx. eapply Permutation_in; [apply flat_map_perm, spend_perm_kn; exact Hs|exact Hx]. Qed.

  Lemma local_rules_perm p q : spend_perm p q -> LocalRules vk K fl H p -> LocalRules vk K fl H q.
  Proof.
    intros Hs [S Ky D R1 R2 B1 B2 Cn]. pose proof (spend_perm_sym _ _ Hs) as Hs'.
    destruct Hs as [E1 [E2 [E3 [E4 E5]]]].
    assert (Hs : spend_perm p q) by (repeat split; assumption).
    constructor.
    - intros c Hc. specialize (S c (in_kn_perm _ _ _ Hs' Hc)).
      destruct c; cbn [self_ok] in *; try exact I; rewrite <- ?E1, <- ?E2, <- ?E3; try exact S.
      now rewrite <- (spend_perm_pid _ _ Hs).
    - intros c Hc. exact (Ky c (in_kn_perm _ _ _ Hs' Hc)).
    - eapply Permutation_NoDup; [|exact D]. apply Permutation_map, flat_map_perm, spend_perm_kn. exact Hs.
    - intros v b Hv Hb. apply R1; eapply in_flat_kn_perm; eassumption.
    - intros v b Hv Hb. apply R2; eapply in_flat_kn_perm; eassumption.
    - intros v w Hv Hw. apply B1; eapply in_flat_kn_perm; eassumption.
    - intros v w Hv Hw. apply B2; eapply in_flat_kn_perm; eassumption.
    - destruct Cn as [Cn|Cn]; [now left|right].
      unfold class_count in *. assert (Hl : length (filter announce_class (kn q)) = length (filter announce_class (kn p))).
      { apply Permutation_length. clear -Hs'. pose proof (spend_perm_kn _ _ Hs') as Hp.
        induction Hp; cbn [filter].
        - constructor.
        - destruct (announce_class x); [now constructor|assumption].
        - destruct (announce_class x), (announce_class y); try constructor; apply Permutation_refl.
        - eapply perm_trans; eassumption. }
      rewrite Hl. exact Cn.
  Qed.

  Lemma spend_total_cost_perm p q : spend_perm p q -> spend_total_cost fl p = spend_total_cost fl q.
  Proof.
    intros [_ [_ [_ [_ Hp]]]]. unfold spend_total_cost, conds_cost. f_equal. apply sumN_perm, Permutation_map. exact Hp.
  Qed.

  (* In-based reading of the two index-based clauses *)
  Definition is_child (ps : list pspend) (p : pspend) : Prop :=
    exists q h, In q ps /\ pid H q = ps_parent p /\ In (CCreateCoin (ps_ph p) (ps_amount p) h) (kn q).

  Lemma child_at_is_child ps i p : nth_error ps i = Some p -> (child_at H ps i <-> is_child ps p).
  Proof.
    intros Hp. unfold child_at, is_child. split.
    - intros [p0 [j [q [h [Hp0 [Hq [Hid Hc]]]]]]]. assert (p0 = p) by congruence. subst p0.
      exists q, h. split; [eapply nth_error_In; exact Hq|]. split; assumption.
    - intros [q [h [Hq [Hid Hc]]]]. apply In_nth_error in Hq. destruct Hq as [j Hj].
      exists p, j, q, h. repeat split; assumption.
  Qed.

  Lemma is_child_perm ps ps' p p' : bundle_perm ps ps' -> spend_perm p p' -> is_child ps p -> is_child ps' p'.
  Proof.
    intros Hb [E1 [E2 [E3 _]]] [q [h [Hq [Hid Hc]]]].
    destruct (bundle_perm_in _ _ _ Hb Hq) as [q' [Hq' Hs]].
    exists q', h. split; [exact Hq'|]. split.
    - rewrite <- (spend_perm_pid _ _ Hs), <- E1. exact Hid.
    - rewrite <- E2, <- E3. eapply in_kn_perm; eassumption.
  Qed.

  Lemma balance_perm l l' k : Permutation l l' -> balance l k = balance l' k.
  Proof.
    induction 1; cbn [balance fold_right].
    - reflexivity.
    - fold (balance l k). fold (balance l' k). now rewrite IHPermutation.
    - fold (balance l k). destruct (bytes_eqb (message_key x) k), (bytes_eqb (message_key y) k); lia.
    - congruence.
  Qed.

  Lemma cross_rules_perm ps ps' : bundle_perm ps ps' -> CrossRules H ps -> CrossRules H ps'.
  Proof.
    intros Hb [C1 C2 C3 C4 C5 C6 C7]. pose proof (bundle_perm_sym _ _ Hb) as Hb'.
    constructor.
    - intros p' id Hp' Hc. destruct (bundle_perm_in _ _ _ Hb' Hp') as [p [Hp Hs]].
      destruct (C1 p id Hp (in_kn_perm _ _ _ Hs Hc)) as [q [Hq Hid]].
      destruct (bundle_perm_in _ _ _ Hb Hq) as [q' [Hq' Hsq]]. exists q'. split; [exact Hq'|].
      now rewrite <- (spend_perm_pid _ _ Hsq).
    - intros p' id Hp' Hc. destruct (bundle_perm_in _ _ _ Hb' Hp') as [p [Hp Hs]].
      destruct (C2 p id Hp (in_kn_perm _ _ _ Hs Hc)) as [q [Hq Hid]].
      destruct (bundle_perm_in _ _ _ Hb Hq) as [q' [Hq' [_ [E2 _]]]]. exists q'. split; [exact Hq'|congruence].
    - intros p' id Hp' Hc. destruct (bundle_perm_in _ _ _ Hb' Hp') as [p [Hp Hs]].
      destruct (C3 p id Hp (in_kn_perm _ _ _ Hs Hc)) as [q [msg [Hq [Hcq Hid]]]].
      destruct (bundle_perm_in _ _ _ Hb Hq) as [q' [Hq' Hsq]]. exists q', msg. split; [exact Hq'|].
      split; [eapply in_kn_perm; eassumption|]. now rewrite <- (spend_perm_pid _ _ Hsq).
    - intros p' id Hp' Hc. destruct (bundle_perm_in _ _ _ Hb' Hp') as [p [Hp Hs]].
      destruct (C4 p id Hp (in_kn_perm _ _ _ Hs Hc)) as [q [msg [Hq [Hcq Hid]]]].
      destruct (bundle_perm_in _ _ _ Hb Hq) as [q' [Hq' Hsq]]. exists q', msg. split; [exact Hq'|].
      split; [eapply in_kn_perm; eassumption|]. destruct Hsq as [_ [E2 _]]. congruence.
    - intros i p' Hi Hc. apply (child_at_is_child ps' i p' Hi).
      pose proof (nth_error_In _ _ Hi) as Hp'. destruct (bundle_perm_in _ _ _ Hb' Hp') as [p [Hp Hs]].
      apply In_nth_error in Hp. destruct Hp as [j Hj].
      apply (is_child_perm ps ps' p p' Hb (spend_perm_sym _ _ Hs)).
      apply (child_at_is_child ps j p Hj). apply (C5 j p Hj). eapply in_kn_perm; eassumption.
    - intros i p' Hi Hr Hch. apply (child_at_is_child ps' i p' Hi) in Hch.
      pose proof (nth_error_In _ _ Hi) as Hp'. destruct (bundle_perm_in _ _ _ Hb' Hp') as [p [Hp Hs]].
      apply In_nth_error in Hp. destruct Hp as [j Hj].
      apply (C6 j p Hj).
      + apply existsb_exists in Hr. destruct Hr as [c [Hc Hrc]]. apply existsb_exists. exists c. split; [eapply in_kn_perm; eassumption|exact Hrc].
      + apply (child_at_is_child ps j p Hj). eapply is_child_perm; [exact Hb'|exact Hs|exact Hch].
    - intros k. rewrite <- (C7 k). symmetry. apply balance_perm. unfold all_messages.
      apply bundle_perm_flat; [|exact Hb]. intros p q Hs.
      rewrite (spend_perm_pid _ _ Hs). destruct Hs as [E1 [E2 [E3 [E4 E5]]]]. rewrite E1, E2, E3.
      apply flat_map_perm. unfold kn. now apply known_perm.
  Qed.

  (* the complete rule set of accept_iff_rules *)
  Definition Rules (ps : list pspend) (max_cost : N) : Prop :=
    NoDup (map (pid H) ps) /\
    (f_limit_spends fl = true -> N.of_nat (length ps) <= MAX_SPENDS_PER_BLOCK) /\
    total_cost fl ps <= max_cost /\
    tot_fee ps < 2 ^ 64 /\
    Forall (LocalRules vk K fl H) ps /\
    BundleRules H ps.

  Lemma totals_perm ps ps' : bundle_perm ps ps' ->
    total_cost fl ps = total_cost fl ps' /\ tot_fee ps = tot_fee ps' /\ tot_removal ps = tot_removal ps' /\
    tot_addition ps = tot_addition ps' /\ Permutation (all_known ps) (all_known ps').
  Proof.
    intros Hb. repeat split.
    - unfold total_cost. apply sumN_perm, bundle_perm_map; [|exact Hb]. intros p q Hs. now apply spend_total_cost_perm.
    - unfold tot_fee. apply sumN_perm, bundle_perm_flat; [|exact Hb]. intros p q Hs. apply flat_map_perm, spend_perm_kn. exact Hs.
    - unfold tot_removal. apply sumN_perm, bundle_perm_map; [|exact Hb]. intros p q [_ [_ [E3 _]]]. exact E3.
    - unfold tot_addition. apply sumN_perm, bundle_perm_map; [|exact Hb]. intros p q Hs. unfold created_amount.
      apply sumN_perm, Permutation_map, flat_map_perm, spend_perm_kn. exact Hs.
    - unfold all_known. apply bundle_perm_flat; [|exact Hb]. intros p q Hs. apply spend_perm_kn. exact Hs.
  Qed.

  Theorem rules_perm ps ps' m : bundle_perm ps ps' -> Rules ps m -> Rules ps' m.
  Proof.
    intros Hb [Hnd [Hl [Hc [Hf [Hall [Bv Bh Bs Bc]]]]]].
    destruct (totals_perm _ _ Hb) as [T1 [T2 [T3 [T4 T5]]]]. pose proof (bundle_perm_sym _ _ Hb) as Hb'.
    split; [|split; [|split; [|split; [|split]]]].
    - eapply Permutation_NoDup; [|exact Hnd]. apply bundle_perm_map; [|exact Hb]. intros p q Hs. now apply spend_perm_pid.
    - rewrite <- (bundle_perm_length _ _ Hb). exact Hl.
    - now rewrite <- T1.
    - now rewrite <- T2.
    - apply Forall_forall. intros q Hq. destruct (bundle_perm_in _ _ _ Hb' Hq) as [p [Hp Hs]].
      rewrite Forall_forall in Hall. eapply local_rules_perm; [apply spend_perm_sym; exact Hs|now apply Hall].
    - constructor.
      + rewrite <- T2, <- T3, <- T4. exact Bv.
      + intros b Hb0. assert (Hb1 : In b (flat_map c_bha (all_known ps))) by (eapply Permutation_in; [apply flat_map_perm, Permutation_sym; exact T5|exact Hb0]).
        destruct (Bh b Hb1) as [B0 Ba]. split; [exact B0|]. intros a Ha. apply Ba.
        eapply Permutation_in; [apply flat_map_perm, Permutation_sym; exact T5|exact Ha].
      + intros b Hb0. assert (Hb1 : In b (flat_map c_bsa (all_known ps))) by (eapply Permutation_in; [apply flat_map_perm, Permutation_sym; exact T5|exact Hb0]).
        destruct (Bs b Hb1) as [B0 Ba]. split; [exact B0|]. intros a Ha. apply Ba.
        eapply Permutation_in; [apply flat_map_perm, Permutation_sym; exact T5|exact Ha].
      + eapply cross_rules_perm; eassumption.
  Qed.
End P.

(* C06, second clause: for two generator outputs that parse to reorderings of each other, acceptance
   is the same, and so are the table cost and every bundle aggregate *)
Theorem permutation_invariance vk H K fl V t t' ps ps' max_cost clvm_cost :
  tree_syntax fl t = Ok ps -> tree_syntax fl t' = Ok ps' -> bundle_perm ps ps' ->
  ((exists r, parse_spends vk H K fl V t max_cost clvm_cost = Ok r) <->
   (exists r, parse_spends vk H K fl V t' max_cost clvm_cost = Ok r)) /\
  total_cost fl ps = total_cost fl ps' /\ tot_fee ps = tot_fee ps' /\ tot_removal ps = tot_removal ps' /\
  tot_addition ps = tot_addition ps' /\ Permutation (all_known ps) (all_known ps').
Proof.
  intros Hs Hs' Hb. split; [|apply totals_perm; exact Hb].
  rewrite !accept_iff_rules. split.
  - intros [ps0 [E R]]. assert (ps0 = ps) by congruence. subst ps0. exists ps'. split; [exact Hs'|].
    exact (rules_perm vk H K fl ps ps' max_cost Hb R).
  - intros [ps0 [E R]]. assert (ps0 = ps') by congruence. subst ps0. exists ps. split; [exact Hs|].
    exact (rules_perm vk H K fl ps' ps max_cost (bundle_perm_sym _ _ Hb) R).
Qed.
